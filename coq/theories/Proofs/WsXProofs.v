(* Proofs about the workspace/file model: frame (C09), the representation invariant (C01/C02), the loader. *)
From GV Require Import Prelude.Base Model.WsX Model.WsXSpec Proofs.WsXFile Proofs.WsXTree.
From Coq Require Import Permutation.

(* ======================================================================================================== *)
(* Part A — frame properties, unconditional                                                                  *)
(* ======================================================================================================== *)

Definition frame_ok (t : tree) : Prop :=
  forall p f y, y <> p -> ~ In y (keys_of t) -> fget y (flat (save_tree p t f)) = fget y (flat f).

Lemma save_kids_frame k l y : Forall frame_ok l -> y <> k -> ~ In y (flat_map keys_of l) ->
  forall f, fget y (flat (save_kids k l f)) = fget y (flat f).
Proof.
  intros H Hk. induction H as [|c r Hc Hr IHr]; intros Hl f; [reflexivity|].
  simpl in Hl. unfold save_kids in *. simpl. rewrite IHr.
  - apply Hc; [exact Hk | intros Hy; apply Hl; apply in_or_app; left; exact Hy].
  - intros Hy. apply Hl. apply in_or_app. right. exact Hy.
Qed.

Lemma save_tree_frame t : frame_ok t.
Proof.
  induction t as [k a l IH] using tree_ind'. intros p f y Hp Hy. rewrite save_tree_eq.
  rewrite w_link_frame by exact Hp. rewrite keys_of_eq in Hy.
  assert (Hk : y <> k) by (intros ->; apply Hy; left; reflexivity).
  rewrite save_kids_frame; [apply w_entity_frame; exact Hk | exact IH | exact Hk |].
  intros Hl. apply Hy. right. exact Hl.
Qed.

Lemma save_kids_frame' k l y f : y <> k -> ~ In y (flat_map keys_of l) ->
  fget y (flat (save_kids k l f)) = fget y (flat f).
Proof.
  intros Hk Hl. apply save_kids_frame; [|exact Hk | exact Hl].
  apply Forall_forall. intros c _. apply save_tree_frame.
Qed.

Lemma save_kids_rootlink k l : (forall c p f, In c l -> rootlink (save_tree p c f) = rootlink f) ->
  forall f, rootlink (save_kids k l f) = rootlink f.
Proof.
  induction l as [|c r IH]; intros H f; [reflexivity|].
  unfold save_kids in *. simpl. rewrite IH.
  - apply H. left. reflexivity.
  - intros c' p' f' Hc'. apply H. right. exact Hc'.
Qed.

Lemma save_tree_rootlink t : forall p f, rootlink (save_tree p t f) = rootlink f.
Proof.
  induction t as [k a l IH] using tree_ind'. intros p f. rewrite save_tree_eq, w_link_rootlink.
  rewrite save_kids_rootlink; [apply w_entity_rootlink|].
  rewrite Forall_forall in IH. intros c p' f' Hc. apply IH. exact Hc.
Qed.

Definition rm_frame_ok (t : tree) : Prop :=
  forall p ppgs f y, y <> p -> ~ In y (keys_of t) -> fget y (flat (fst (rm_ws p ppgs t f))) = fget y (flat f).

Lemma rm_list_frame k l y : Forall rm_frame_ok l -> y <> k -> ~ In y (flat_map keys_of l) ->
  forall st, fget y (flat (fst (fst (rm_list k l st)))) = fget y (flat (fst st)).
Proof.
  intros H Hk. induction H as [|c r Hc Hr IHr]; intros Hl st; [reflexivity|].
  simpl in Hl. simpl. destruct st as [f pgs]. pose proof (Hc k pgs f y Hk) as Hc'.
  destruct (rm_ws k pgs c f) as [f' ok]. simpl in Hc'.
  assert (E : fget y (flat f') = fget y (flat f)).
  { apply Hc'. intros Hy. apply Hl. apply in_or_app. left. exact Hy. }
  destruct ok; simpl; [|exact E].
  rewrite IHr; [exact E|]. intros Hy. apply Hl. apply in_or_app. right. exact Hy.
Qed.

Lemma kd_wscrub_frame p k ppgs f y : y <> p -> fget y (flat (kd_wscrub p k ppgs f)) = fget y (flat f).
Proof. intros H. unfold kd_wscrub. destruct (fst k); try reflexivity. apply w_scrub_frame. exact H. Qed.
Lemma kd_wscrub_rootlink p k ppgs f : rootlink (kd_wscrub p k ppgs f) = rootlink f.
Proof. unfold kd_wscrub. destruct (fst k); try reflexivity. apply w_scrub_rootlink. Qed.
Lemma kd_wscrub_nodup p k ppgs f : NoDup (map fst (flat f)) -> NoDup (map fst (flat (kd_wscrub p k ppgs f))).
Proof. intros H. unfold kd_wscrub. destruct (fst k); try exact H. apply w_scrub_nodup. exact H. Qed.

Lemma rm_ws_frame t : rm_frame_ok t.
Proof.
  induction t as [k a l IH] using tree_ind'. intros p ppgs f y Hp Hy. rewrite rm_ws_eq.
  destruct (negb (adel a)); [reflexivity|]. rewrite keys_of_eq in Hy.
  assert (Hk : y <> k) by (intros ->; apply Hy; left; reflexivity).
  assert (Hl : ~ In y (flat_map keys_of l)) by (intros Hl; apply Hy; right; exact Hl).
  pose proof (rm_list_frame k l y IH Hk Hl (f, apgs a)) as E.
  destruct (rm_list k l (f, apgs a)) as [[f1 pgs1] ok]. simpl in E. destruct ok; simpl; [|exact E].
  rewrite fget_fdel_other by exact Hk. rewrite w_unlink_frame by exact Hp. rewrite kd_wscrub_frame by exact Hp. exact E.
Qed.

Definition rm_rootlink_ok (t : tree) : Prop := forall p ppgs f, rootlink (fst (rm_ws p ppgs t f)) = rootlink f.

Lemma rm_list_rootlink k l : Forall rm_rootlink_ok l -> forall st, rootlink (fst (fst (rm_list k l st))) = rootlink (fst st).
Proof.
  intros H. induction H as [|c r Hc Hr IHr]; intros st; [reflexivity|].
  simpl. destruct st as [f pgs]. pose proof (Hc k pgs f) as Hc'. destruct (rm_ws k pgs c f) as [f' ok]. simpl in Hc'.
  destruct ok; simpl; [rewrite IHr; exact Hc' | exact Hc'].
Qed.

Lemma rm_ws_rootlink t : rm_rootlink_ok t.
Proof.
  induction t as [k a l IH] using tree_ind'. intros p ppgs f. rewrite rm_ws_eq.
  destruct (negb (adel a)); [reflexivity|].
  pose proof (rm_list_rootlink k l IH (f, apgs a)) as E. destruct (rm_list k l (f, apgs a)) as [[f1 pgs1] ok]. simpl in E.
  destruct ok; simpl; [|exact E]. rewrite w_unlink_rootlink, kd_wscrub_rootlink. exact E.
Qed.

(* copies *)
Lemma put_all_frame k pgs y : y <> k -> forall f, fget y (flat (put_all k pgs f)) = fget y (flat f).
Proof.
  intros H. induction pgs as [|g r IH]; intros f; [reflexivity|].
  unfold put_all in *. simpl. rewrite IH. apply w_pg_put_frame. exact H.
Qed.
Lemma put_all_rootlink k pgs : forall f, rootlink (put_all k pgs f) = rootlink f.
Proof.
  induction pgs as [|g r IH]; intros f; [reflexivity|]. unfold put_all in *. simpl. rewrite IH. apply w_pg_put_rootlink.
Qed.
Lemma put_all_nodup k pgs : forall f, NoDup (map fst (flat f)) -> NoDup (map fst (flat (put_all k pgs f))).
Proof.
  induction pgs as [|g r IH]; intros f H; [exact H|]. unfold put_all in *. simpl. apply IH. apply w_pg_put_nodup. exact H.
Qed.

Lemma put_pgs_frame k a y f : y <> k -> fget y (flat (put_pgs k a f)) = fget y (flat f).
Proof. intros H. unfold put_pgs. destruct (apgs a); [reflexivity | apply w_pgs_frame; exact H]. Qed.
Lemma put_pgs_rootlink k a f : rootlink (put_pgs k a f) = rootlink f.
Proof. unfold put_pgs. destruct (apgs a); [reflexivity | apply w_pgs_rootlink]. Qed.

Definition copy_frame_ok (t : tree) : Prop :=
  forall p f y, y <> p -> ~ In y (keys_of t) -> fget y (flat (save_copy p t f)) = fget y (flat f).

Lemma copy_kids_frame k l y : Forall copy_frame_ok l -> y <> k -> ~ In y (flat_map keys_of l) ->
  forall f, fget y (flat (copy_kids k l f)) = fget y (flat f).
Proof.
  intros H Hk. induction H as [|c r Hc Hr IHr]; intros Hl f; [reflexivity|].
  simpl in Hl. unfold copy_kids in *. simpl. rewrite IHr.
  - apply Hc; [exact Hk | intros Hy; apply Hl; apply in_or_app; left; exact Hy].
  - intros Hy. apply Hl. apply in_or_app. right. exact Hy.
Qed.

Lemma save_copy_frame t : copy_frame_ok t.
Proof.
  induction t as [k a l IH] using tree_ind'. intros p f y Hp Hy. rewrite save_copy_eq. rewrite keys_of_eq in Hy.
  assert (Hk : y <> k) by (intros ->; apply Hy; left; reflexivity).
  rewrite put_pgs_frame by exact Hk. rewrite put_all_frame by exact Hk.
  rewrite copy_kids_frame; [| exact IH | exact Hk | intros Hl; apply Hy; right; exact Hl].
  rewrite w_link_frame by exact Hp. apply w_entity_frame. exact Hk.
Qed.

Lemma copy_kids_rootlink k l : (forall c p f, In c l -> rootlink (save_copy p c f) = rootlink f) ->
  forall f, rootlink (copy_kids k l f) = rootlink f.
Proof.
  induction l as [|c r IH]; intros H f; [reflexivity|].
  unfold copy_kids in *. simpl. rewrite IH.
  - apply H. left. reflexivity.
  - intros c' p' f' Hc'. apply H. right. exact Hc'.
Qed.

Lemma save_copy_rootlink t : forall p f, rootlink (save_copy p t f) = rootlink f.
Proof.
  induction t as [k a l IH] using tree_ind'. intros p f. rewrite save_copy_eq, put_pgs_rootlink, put_all_rootlink.
  rewrite copy_kids_rootlink; [rewrite w_link_rootlink; apply w_entity_rootlink|].
  rewrite Forall_forall in IH. intros c p' f' Hc. apply IH. exact Hc.
Qed.

(* the file written by close *)
Definition sweep_file (w : ws) (k : kind) : file :=
  del_all (filter (fun x => kind_eqb (fst x) k) (wpend w)) (wfile w).

Lemma do_sweep_file w k : wfile (do_sweep w k) = sweep_file w k.
Proof. reflexivity. Qed.

Lemma close_file_file w :
  wfile (close_file w) = save_kids (tkey (wmem w)) (tkids (wmem w)) (w_entity (tkey (wmem w)) (tattrs (wmem w)) (sweep_file w KG)).
Proof. unfold close_file. simpl. destruct (wmem w) as [k a l]. reflexivity. Qed.

Lemma close_file_mem w : wmem (close_file w) = wmem w.
Proof. unfold close_file. simpl. destruct (wmem w) as [k a l]. reflexivity. Qed.

Lemma close_file_pend w : wpend (close_file w) = filter (fun x => negb (kind_eqb (fst x) KG)) (wpend w).
Proof. unfold close_file. simpl. destruct (wmem w) as [k a l]. reflexivity. Qed.

Lemma reopen_file w : wfile (fst (do_reopen w)) = wfile (close_file w).
Proof.
  unfold do_reopen. destruct (rootlink (wfile (close_file w))) as [[r ad]|]; [|reflexivity].
  destruct (load _ _ _ r) as [[t sn]|]; reflexivity.
Qed.

Lemma close_file_frame w y :
  ~ In y (filter (fun x => kind_eqb (fst x) KG) (wpend w) ++ keys_of (wmem w)) ->
  fget y (flat (wfile (close_file w))) = fget y (flat (wfile w)).
Proof.
  intros H. rewrite close_file_file. destruct (wmem w) as [k a l]. simpl.
  assert (Hk : y <> k) by (intros ->; apply H; apply in_or_app; right; left; reflexivity).
  rewrite save_kids_frame'; [|exact Hk | intros Hl; apply H; apply in_or_app; right; right; exact Hl].
  rewrite w_entity_frame by exact Hk. unfold sweep_file. apply del_all_frame.
  intros Hd. apply H. apply in_or_app. left. exact Hd.
Qed.

Lemma close_file_rootlink w : rootlink (wfile (close_file w)) = rootlink (wfile w).
Proof.
  rewrite close_file_file. rewrite save_kids_rootlink by (intros; apply save_tree_rootlink).
  rewrite w_entity_rootlink. unfold sweep_file. apply del_all_rootlink.
Qed.

Theorem step_frame : forall w o x, ~ In x (footprint w o) ->
  fget x (flat (wfile (fst (step w o)))) = fget x (flat (wfile w)).
Proof.
  intros w o x Hx.
  destruct o as [k u p nm ar | e n | e b | e v | e q | e | e | k | | o g nm ms | o g | e q ids]; unfold step.
  - (* Create *) simpl in Hx. unfold do_create. destruct (find p (wmem w)); [|reflexivity].
    destruct (negb (can_hold (fst p) k) || mem_key (k, u) (keys_of (wmem w))); [reflexivity|]. simpl.
    rewrite w_link_frame by (intros ->; apply Hx; right; left; reflexivity).
    apply w_entity_frame. intros ->. apply Hx. left. reflexivity.
  - simpl in Hx. unfold do_set. destruct (find e (wmem w)); [|reflexivity].
    destruct (key_eqb e rootkey); [reflexivity|]. simpl.
    apply w_scalars_frame. intros ->. apply Hx. left. reflexivity.
  - simpl in Hx. unfold do_set. destruct (find e (wmem w)); [|reflexivity].
    destruct (key_eqb e rootkey); [reflexivity|]. simpl.
    apply w_scalars_frame. intros ->. apply Hx. left. reflexivity.
  - simpl in Hx. unfold do_set. destruct (find e (wmem w)); [|reflexivity].
    destruct (key_eqb e rootkey); [reflexivity|]. simpl.
    apply w_array_frame. intros ->. apply Hx. left. reflexivity.
  - (* Move *) unfold footprint, parent_list, subtree_keys in Hx. unfold do_move.
    destruct (find e (wmem w)) as [te|]; [|reflexivity].
    destruct (find q (wmem w)); [|reflexivity].
    destruct (parent_of e (wmem w)) as [p|]; [|reflexivity].
    destruct (negb (can_hold (fst q) (fst e)) || mem_key q (keys_of te)); [reflexivity|].
    destruct (key_eqb p q); [reflexivity|]. simpl.
    rewrite save_tree_frame.
    + assert (Hp : x <> p) by (intros ->; apply Hx; left; reflexivity).
      rewrite w_unlink_frame by exact Hp. destruct (fst e); try reflexivity. apply w_scrub_frame. exact Hp.
    + intros ->. apply Hx. right. left. reflexivity.
    + intros Hk. apply Hx. right. right. exact Hk.
  - (* RemoveWs *) destruct (key_eqb e rootkey); [reflexivity|].
    unfold footprint, parent_list, subtree_keys in Hx. unfold do_remove_ws.
    destruct (find e (wmem w)) as [te|]; [|reflexivity].
    destruct (parent_of e (wmem w)) as [p|]; [|reflexivity].
    match goal with |- context [rm_ws p ?pp te (wfile w)] => set (ppgs := pp) end.
    pose proof (rm_ws_frame te p ppgs (wfile w) x) as E.
    destruct (rm_ws p ppgs te (wfile w)) as [f' ok]. destruct (rm_ws_done te) as [gone b]. simpl in *.
    apply E; [intros ->; apply Hx; left; reflexivity | intros Hk; apply Hx; right; exact Hk].
  - (* RemoveParent *) destruct (key_eqb e rootkey); [reflexivity|].
    unfold footprint, parent_list in Hx. unfold do_remove_parent.
    destruct (find e (wmem w)) as [te|]; [|reflexivity].
    destruct (parent_of e (wmem w)) as [p|]; [|reflexivity]. simpl.
    assert (Hp : x <> p) by (intros ->; apply Hx; left; reflexivity).
    rewrite w_unlink_frame by exact Hp. destruct (fst e); try reflexivity. apply w_scrub_frame. exact Hp.
  - (* Sweep *) simpl. apply del_all_frame. exact Hx.
  - (* Reopen *) rewrite reopen_file. apply close_file_frame. exact Hx.
  - (* PgAdd *) simpl in Hx. unfold do_pg_add. destruct (find o (wmem w)) as [t|]; [|reflexivity].
    destruct (negb (kind_eqb (fst o) KO)); [reflexivity|].
    destruct (filter (fun m => kind_eqb (fst m) KD && mem_key m (kid_keys t)) ms); [reflexivity|]. simpl.
    apply w_pg_put_frame. intros ->. apply Hx. left. reflexivity.
  - (* PgRemove *) simpl in Hx. unfold do_pg_remove. destruct (find o (wmem w)) as [t|]; [|reflexivity].
    destruct (existsb (fun h => N.eqb (pg_id h) g) (apgs (tattrs t))); [|reflexivity]. simpl.
    apply w_pg_del_frame. intros ->. apply Hx. left. reflexivity.
  - (* Copy *) unfold footprint in Hx. unfold do_copy.
    destruct (find e (wmem w)) as [te|]; [|reflexivity].
    destruct (find q (wmem w)); [|reflexivity].
    destruct (negb (can_hold (fst q) (fst e)) || mem_key q (keys_of te) || key_eqb e rootkey); [reflexivity|].
    destruct (copy_sub te ids) as [[t' [|i r]]|]; try reflexivity.
    destruct (existsb (fun k => mem_key k (keys_of (wmem w))) (keys_of t')); [reflexivity|]. simpl.
    apply save_copy_frame; [intros ->; apply Hx; left; reflexivity | intros Hk; apply Hx; right; exact Hk].
Qed.

Theorem step_rootlink : forall w o, rootlink (wfile (fst (step w o))) = rootlink (wfile w).
Proof.
  intros w o.
  destruct o as [k u p nm ar | e n | e b | e v | e q | e | e | k | | o g nm ms | o g | e q ids]; unfold step.
  - unfold do_create. destruct (find p (wmem w)); [|reflexivity].
    destruct (negb (can_hold (fst p) k) || mem_key (k, u) (keys_of (wmem w))); [reflexivity|]. simpl.
    rewrite w_link_rootlink. apply w_entity_rootlink.
  - unfold do_set. destruct (find e (wmem w)); [|reflexivity].
    destruct (key_eqb e rootkey); [reflexivity|]. simpl. apply w_scalars_rootlink.
  - unfold do_set. destruct (find e (wmem w)); [|reflexivity].
    destruct (key_eqb e rootkey); [reflexivity|]. simpl. apply w_scalars_rootlink.
  - unfold do_set. destruct (find e (wmem w)); [|reflexivity].
    destruct (key_eqb e rootkey); [reflexivity|]. simpl. apply w_array_rootlink.
  - unfold do_move.
    destruct (find e (wmem w)) as [te|]; [|reflexivity].
    destruct (find q (wmem w)); [|reflexivity].
    destruct (parent_of e (wmem w)) as [p|]; [|reflexivity].
    destruct (negb (can_hold (fst q) (fst e)) || mem_key q (keys_of te)); [reflexivity|].
    destruct (key_eqb p q); [reflexivity|]. simpl.
    rewrite save_tree_rootlink, w_unlink_rootlink. destruct (fst e); try reflexivity. apply w_scrub_rootlink.
  - destruct (key_eqb e rootkey); [reflexivity|]. unfold do_remove_ws.
    destruct (find e (wmem w)) as [te|]; [|reflexivity].
    destruct (parent_of e (wmem w)) as [p|]; [|reflexivity].
    match goal with |- context [rm_ws p ?pp te (wfile w)] => set (ppgs := pp) end.
    pose proof (rm_ws_rootlink te p ppgs (wfile w)) as E.
    destruct (rm_ws p ppgs te (wfile w)) as [f' ok]. destruct (rm_ws_done te) as [gone b]. exact E.
  - destruct (key_eqb e rootkey); [reflexivity|]. unfold do_remove_parent.
    destruct (find e (wmem w)) as [te|]; [|reflexivity].
    destruct (parent_of e (wmem w)) as [p|]; [|reflexivity]. simpl. rewrite w_unlink_rootlink.
    destruct (fst e); try reflexivity. apply w_scrub_rootlink.
  - simpl. apply del_all_rootlink.
  - rewrite reopen_file. apply close_file_rootlink.
  - unfold do_pg_add. destruct (find o (wmem w)) as [t|]; [|reflexivity].
    destruct (negb (kind_eqb (fst o) KO)); [reflexivity|].
    destruct (filter (fun m => kind_eqb (fst m) KD && mem_key m (kid_keys t)) ms); [reflexivity|]. simpl.
    apply w_pg_put_rootlink.
  - unfold do_pg_remove. destruct (find o (wmem w)) as [t|]; [|reflexivity].
    destruct (existsb (fun h => N.eqb (pg_id h) g) (apgs (tattrs t))); [|reflexivity]. simpl. apply w_pg_del_rootlink.
  - unfold do_copy.
    destruct (find e (wmem w)) as [te|]; [|reflexivity].
    destruct (find q (wmem w)); [|reflexivity].
    destruct (negb (can_hold (fst q) (fst e)) || mem_key q (keys_of te) || key_eqb e rootkey); [reflexivity|].
    destruct (copy_sub te ids) as [[t' [|i r]]|]; try reflexivity.
    destruct (existsb (fun k => mem_key k (keys_of (wmem w))) (keys_of t')); [reflexivity|]. simpl.
    apply save_copy_rootlink.
Qed.

(* ======================================================================================================== *)
(* Rep toolkit                                                                                               *)
(* ======================================================================================================== *)

Definition addr_pres (m m' : flatmap) (c : key) : Prop :=
  forall cn, fget c m = Some cn -> exists cn', fget c m' = Some cn' /\ faddr cn' = faddr cn.

Lemma addr_pres_same m m' c : fget c m' = fget c m -> addr_pres m m' c.
Proof. intros E cn H. exists cn. rewrite E. auto. Qed.

Lemma node_matches_frame m m' r : node_matches m r -> fget (rkey r) m' = fget (rkey r) m ->
  (forall c, In c (rkids r) -> addr_pres m m' c) -> node_matches m' r.
Proof.
  intros [n [Hg [Ha [Hnd [Hk Hl]]]]] E Hp. exists n. split; [rewrite E; exact Hg|].
  split; [exact Ha|]. split; [exact Hnd|]. split; [exact Hk|].
  intros c ad Hin. destruct (Hl c ad Hin) as [cn [Hc Had]].
  assert (Hc' : In c (rkids r)).
  { apply Hk. apply in_map_iff. exists (c, ad). split; [reflexivity | exact Hin]. }
  destruct (Hp c Hc' cn Hc) as [cn' [Hc2 Had2]]. exists cn'. split; [exact Hc2 | congruence].
Qed.

Lemma node_matches_same m m' r : node_matches m r -> fget (rkey r) m' = fget (rkey r) m ->
  (forall c, In c (rkids r) -> fget c m' = fget c m) -> node_matches m' r.
Proof.
  intros H E Hk. eapply node_matches_frame; [exact H | exact E |].
  intros c Hc. apply addr_pres_same. apply Hk. exact Hc.
Qed.

Lemma in_keys_hole p a l1 te l2 x :
  In x (keys_of (Node p a (l1 ++ te :: l2))) <->
  p = x \/ In x (flat_map keys_of l1) \/ In x (keys_of te) \/ In x (flat_map keys_of l2).
Proof. rewrite keys_of_eq, flat_map_app. simpl. rewrite !in_app_iff. tauto. Qed.

Lemma in_keys_nohole p a l1 l2 x :
  In x (keys_of (Node p a (l1 ++ l2))) <-> p = x \/ In x (flat_map keys_of l1) \/ In x (flat_map keys_of l2).
Proof. rewrite keys_of_eq, flat_map_app. simpl. rewrite !in_app_iff. tauto. Qed.

Lemma in_rows_hole p a l1 te l2 r :
  In r (rows (Node p a (l1 ++ te :: l2))) <->
  (p, a, map tkey (l1 ++ te :: l2)) = r \/ In r (flat_map rows l1) \/ In r (rows te) \/ In r (flat_map rows l2).
Proof. rewrite rows_eq, flat_map_app. simpl. rewrite !in_app_iff. tauto. Qed.

Lemma in_rows_nohole p a l1 l2 r :
  In r (rows (Node p a (l1 ++ l2))) <->
  (p, a, map tkey (l1 ++ l2)) = r \/ In r (flat_map rows l1) \/ In r (flat_map rows l2).
Proof. rewrite rows_eq, flat_map_app. simpl. rewrite !in_app_iff. tauto. Qed.

Lemma nodup_hole_remove p a l1 te l2 :
  NoDup (keys_of (Node p a (l1 ++ te :: l2))) -> NoDup (keys_of (Node p a (l1 ++ l2))).
Proof.
  rewrite !keys_of_eq, !flat_map_app. simpl. intros H. inversion H as [|? ? Hn Hr]; subst.
  apply nodup_app_iff in Hr. destruct Hr as [H1 [H2 H3]].
  apply nodup_app_iff in H2. destruct H2 as [H4 [H5 H6]].
  constructor.
  - intros Hin. apply Hn. apply in_app_or in Hin. apply in_or_app.
    destruct Hin as [Hin|Hin]; [left; exact Hin | right; apply in_or_app; right; exact Hin].
  - apply nodup_app_iff. repeat split; [exact H1 | exact H5 |].
    intros x Hx Hx2. apply (H3 x Hx). apply in_or_app. right. exact Hx2.
Qed.

(* replacing the subtree at a hole by one with the same root identifier *)
Lemma rep_replace C s s' f f' P P' :
  Rep (plug C s) f P ->
  tkey s' = tkey s ->
  NoDup (keys_of s') ->
  (forall x, In x (keys_of s') -> ~ In x (ctx_keys C)) ->
  NoDup (map fst (flat f')) ->
  (forall r, In r (rows s') -> node_matches (flat f') r) ->
  (forall x, In x (ctx_keys C) -> fget x (flat f') = fget x (flat f)) ->
  addr_pres (flat f) (flat f') (tkey s) ->
  (forall k n, fget k (flat f') = Some n -> In k (keys_of s') \/ In k (ctx_keys C) \/ In k P') ->
  (forall k, In k P' -> ~ In k (keys_of s') /\ ~ In k (ctx_keys C)) ->
  rootlink f' = rootlink f ->
  (forall r, In r (rows s') -> pgs_ok r) ->
  Rep (plug C s') f' P'.
Proof.
  intros R Hk Hnd Hdis Hfnd Hrows Hctx Hap Honly Hpend Hrl Hpgs.
  destruct R as [Rroot Rnd Rfnd Rrows Ronly Rpend Rrl Rpgs].
  constructor.
  - rewrite <- Rroot. apply tkey_plug. exact Hk.
  - apply keys_plug_nodup. apply keys_plug_nodup in Rnd. destruct Rnd as [_ [Hc _]]. repeat split; assumption.
  - exact Hfnd.
  - intros r Hr. apply rows_plug_in in Hr. destruct Hr as [Hr|Hr]; [apply Hrows; exact Hr|].
    rewrite Hk in Hr. apply node_matches_frame with (m := flat f).
    + apply Rrows. apply rows_plug_in. right. exact Hr.
    + apply Hctx. eapply ctx_rows_key. exact Hr.
    + intros c Hc. destruct (ctx_rows_kids _ _ _ _ Hr Hc) as [->|Hin];
        [exact Hap | apply addr_pres_same; apply Hctx; exact Hin].
  - intros k n Hg. rewrite keys_plug_in. destruct (Honly k n Hg) as [H|[H|H]]; auto.
  - intros k Hin. rewrite keys_plug_in. destruct (Hpend k Hin). tauto.
  - destruct Rrl as [n [Hg Hl]].
    assert (Hr : addr_pres (flat f) (flat f') rootkey).
    { rewrite <- Rroot. destruct (tkey_plug_in C s) as [E|Hin];
        [rewrite <- E; exact Hap | apply addr_pres_same; apply Hctx; exact Hin]. }
    destruct (Hr n Hg) as [n' [Hg' Ha']]. exists n'. split; [exact Hg'|]. rewrite Hrl, Hl, Ha'. reflexivity.
  - intros r Hr. apply rows_plug_in in Hr. destruct Hr as [Hr|Hr]; [apply Hpgs; exact Hr|].
    rewrite Hk in Hr. apply Rpgs. apply rows_plug_in. right. exact Hr.
Qed.

Lemma rep_pend_change t f P P' : Rep t f P ->
  (forall k, In k P' -> In k P) ->
  (forall k n, fget k (flat f) = Some n -> In k P -> In k P') ->
  Rep t f P'.
Proof.
  intros [Rroot Rnd Rfnd Rrows Ronly Rpend Rrl Rpgs] H1 H2. constructor; try assumption.
  - intros k n Hg. destruct (Ronly k n Hg) as [H|H]; [left; exact H | right; eapply H2; eassumption].
  - intros k Hk. apply Rpend. apply H1. exact Hk.
Qed.

Lemma rep_pend_equiv t f P P' : Rep t f P -> (forall k, In k P <-> In k P') -> Rep t f P'.
Proof.
  intros R H. eapply rep_pend_change; [exact R | intros k; apply H | intros k n _; apply H].
Qed.

(* facts every Rep gives about the subtree at a hole *)
Lemma rep_hole_facts C s f P : Rep (plug C s) f P ->
  NoDup (keys_of s) /\
  (forall x, In x (keys_of s) -> ~ In x (ctx_keys C)) /\
  (forall r, In r (rows s) -> node_matches (flat f) r) /\
  (forall k, In k P -> ~ In k (keys_of s) /\ ~ In k (ctx_keys C)) /\
  (forall r, In r (rows s) -> pgs_ok r).
Proof.
  intros [Rroot Rnd Rfnd Rrows Ronly Rpend Rrl Rpgs]. apply keys_plug_nodup in Rnd. destruct Rnd as [H1 [H2 H3]].
  split; [exact H1|]. split; [exact H3|]. split; [intros r Hr; apply Rrows; apply rows_plug_in; left; exact Hr|].
  split; [|intros r Hr; apply Rpgs; apply rows_plug_in; left; exact Hr].
  intros k H. split; intros Hk; apply (Rpend k H); apply keys_plug_in; [left|right]; exact Hk.
Qed.

(* ---- attribute update ---- *)
Lemma rep_attrs C x a l a' f f' P n n' :
  Rep (plug C (Node x a l)) f P ->
  fget x (flat f) = Some n ->
  fget x (flat f') = Some n' -> attrs_equiv (fattrs n') a' -> faddr n' = faddr n -> flinks n' = flinks n ->
  (forall y, y <> x -> fget y (flat f') = fget y (flat f)) ->
  NoDup (map fst (flat f')) -> rootlink f' = rootlink f ->
  pgs_ok (x, a', map tkey l) ->
  Rep (plug C (Node x a' l)) f' P.
Proof.
  intros R Hn Hn' Ha' Had Hli Hfr Hfnd Hrl Hpg.
  destruct (rep_hole_facts _ _ _ _ R) as [Hnd [Hdis [Hrows [Hpend Hpgs]]]].
  assert (Hxl : ~ In x (flat_map keys_of l)) by (rewrite keys_of_eq in Hnd; inversion Hnd; assumption).
  apply rep_replace with (s := Node x a l) (f := f) (P := P); try assumption.
  - reflexivity.
  - intros r Hr. rewrite rows_eq in Hr. destruct Hr as [<-|Hr].
    + destruct (Hrows (x, a, map tkey l)) as [n0 [Hg0 [Ha0 [Hnd0 [Hk0 Hl0]]]]]; [rewrite rows_eq; left; reflexivity|].
      unfold rkey, rattrs, rkids in *. simpl in *. rewrite Hn in Hg0. inversion Hg0; subst n0.
      exists n'. unfold rkey, rattrs, rkids. simpl. rewrite Hli.
      split; [exact Hn'|]. split; [exact Ha'|]. split; [exact Hnd0|]. split; [exact Hk0|].
      { intros c ad Hin. destruct (Hl0 c ad Hin) as [cn [Hc Hcad]]. exists cn. split; [|exact Hcad].
        rewrite Hfr; [exact Hc|]. intros ->. apply Hxl. apply tkeys_sub. apply Hk0.
        apply in_map_iff. exists (x, ad). split; [reflexivity | exact Hin]. }
    + apply node_matches_same with (m := flat f).
      * apply Hrows. rewrite rows_eq. right. exact Hr.
      * apply Hfr. intros E. apply Hxl. rewrite <- E. apply rows_list_keys. exact Hr.
      * intros c Hc. apply Hfr. intros ->. apply Hxl. eapply rows_list_kids; eassumption.
  - intros y Hy. apply Hfr. intros ->. apply (Hdis x); [left; reflexivity | exact Hy].
  - intros cn Hc. simpl in Hc. rewrite Hn in Hc. inversion Hc; subst cn. exists n'. split; assumption.
  - intros k n0 Hg. destruct (key_dec k x) as [->|Hne]; [left; left; reflexivity|].
    rewrite Hfr in Hg by exact Hne. destruct (rep_only _ _ _ R k n0 Hg) as [H|H]; [|right; right; exact H].
    apply keys_plug_in in H. destruct H as [H|H]; [left; exact H | right; left; exact H].
  - intros r Hr. rewrite rows_eq in Hr. destruct Hr as [<-|Hr]; [exact Hpg | apply Hpgs; rewrite rows_eq; right; exact Hr].
Qed.

(* ---- detaching a child subtree (removal through the parent) ---- *)
Lemma rep_detach C p a l1 te l2 f P :
  Rep (plug C (Node p a (l1 ++ te :: l2))) f P ->
  (forall g, In g (apgs a) -> ~ In (tkey te) (pg_members g)) ->
  Rep (plug C (Node p a (l1 ++ l2))) (w_unlink p (tkey te) f) (P ++ keys_of te).
Proof.
  intros R Hnm. destruct (rep_hole_facts _ _ _ _ R) as [Hnd [Hdis [Hrows [Hpend Hpgs]]]].
  assert (Hpg0 : pgs_ok (p, a, map tkey (l1 ++ te :: l2))) by (apply Hpgs; rewrite rows_eq; left; reflexivity).
  assert (Hpgl : forall r, In r (flat_map rows (l1 ++ te :: l2)) -> pgs_ok r)
    by (intros r Hr; apply Hpgs; rewrite rows_eq; right; exact Hr).
  clear Hpgs.
  pose proof (nodup_hole _ _ _ _ _ Hnd) as [Hte [Hpte Hd]].
  pose proof (nodup_hole_remove _ _ _ _ _ Hnd) as Hnd'.
  assert (Hsub : forall x, In x (keys_of (Node p a (l1 ++ l2))) -> In x (keys_of (Node p a (l1 ++ te :: l2)))).
  { intros x. rewrite in_keys_hole, in_keys_nohole. tauto. }
  assert (Hp1 : ~ In p (flat_map keys_of (l1 ++ l2))) by (rewrite keys_of_eq in Hnd'; inversion Hnd'; assumption).
  assert (Hp0 : ~ In p (flat_map keys_of (l1 ++ te :: l2))) by (rewrite keys_of_eq in Hnd; inversion Hnd; assumption).
  destruct (Hrows (p, a, map tkey (l1 ++ te :: l2))) as [pn [Hg [Ha [Hlnd [Hk Hl]]]]]; [rewrite rows_eq; left; reflexivity|].
  unfold rkey, rattrs, rkids in *. simpl in *.
  pose proof (w_unlink_same p (tkey te) f pn Hg) as Hg'.
  assert (Hfr : forall y, y <> p -> fget y (flat (w_unlink p (tkey te) f)) = fget y (flat f)).
  { intros y Hy. apply w_unlink_frame. exact Hy. }
  apply rep_replace with (s := Node p a (l1 ++ te :: l2)) (f := f) (P := P).
  - exact R.
  - reflexivity.
  - exact Hnd'.
  - intros x Hx. apply Hdis. apply Hsub. exact Hx.
  - apply w_unlink_nodup. exact (rep_flatnd _ _ _ R).
  - intros r Hr. rewrite rows_eq in Hr. destruct Hr as [<-|Hr].
    + eexists. unfold rkey, rattrs, rkids. simpl. split; [exact Hg'|]. simpl.
      split; [exact Ha|]. split; [apply ldel_keys_NoDup; exact Hlnd|]. split.
      * intros c. rewrite (ldel_keys_In (tkey te) (flinks pn) c Hlnd). rewrite Hk.
        rewrite !map_app. simpl. rewrite !in_app_iff. simpl.
        assert (H1 : In c (map tkey l1) -> c <> tkey te).
        { intros Hc ->. apply (proj1 (Hd (tkey te) (tkey_in_keys te))). apply tkeys_sub. exact Hc. }
        assert (H2 : In c (map tkey l2) -> c <> tkey te).
        { intros Hc ->. apply (proj2 (Hd (tkey te) (tkey_in_keys te))). apply tkeys_sub. exact Hc. }
        split; [intros [Hne [H|[H|H]]]; [left; exact H | congruence | right; exact H]
               | intros [H|H]; [split; [apply H1; exact H | left; exact H] | split; [apply H2; exact H | right; right; exact H]]].
      * intros c ad Hin. apply ldel_In in Hin. destruct (Hl c ad Hin) as [cn [Hc Hcad]]. exists cn. split; [|exact Hcad].
        rewrite Hfr; [exact Hc|]. intros ->. apply Hp0. apply tkeys_sub. apply Hk.
        apply in_map_iff. exists (p, ad). split; [reflexivity | exact Hin].
    + assert (Hr0 : In r (flat_map rows (l1 ++ te :: l2))).
      { rewrite flat_map_app in *. simpl. apply in_app_or in Hr. apply in_or_app.
        destruct Hr as [Hr|Hr]; [left; exact Hr | right; apply in_or_app; right; exact Hr]. }
      apply node_matches_same with (m := flat f).
      * apply Hrows. right. exact Hr0.
      * apply Hfr. intros E. apply Hp0. rewrite <- E. apply rows_list_keys. exact Hr0.
      * intros c Hc. apply Hfr. intros ->. apply Hp0. eapply rows_list_kids; eassumption.
  - intros y Hy. apply Hfr. intros ->. apply (Hdis p); [left; reflexivity | exact Hy].
  - intros cn Hc. simpl in Hc. rewrite Hg in Hc. inversion Hc; subst cn. eexists. split; [exact Hg' | reflexivity].
  - intros k n0 Hk0. destruct (key_dec k p) as [->|Hne]; [left; left; reflexivity|].
    rewrite Hfr in Hk0 by exact Hne. destruct (rep_only _ _ _ R k n0 Hk0) as [H|H].
    + apply keys_plug_in in H. destruct H as [H|H]; [|right; left; exact H].
      apply in_keys_hole in H. rewrite in_keys_nohole, in_app_iff. tauto.
    + right. right. apply in_or_app. left. exact H.
  - intros k Hk0. apply in_app_or in Hk0. destruct Hk0 as [Hk0|Hk0].
    + destruct (Hpend k Hk0) as [H1 H2]. split; [intros H; apply H1; apply Hsub; exact H | exact H2].
    + split.
      * rewrite in_keys_nohole. intros [<-|[H|H]]; [exact (Hpte Hk0) | exact (proj1 (Hd k Hk0) H) | exact (proj2 (Hd k Hk0) H)].
      * apply Hdis. apply (in_keys_hole p a l1 te l2 k). right. right. left. exact Hk0.
  - apply w_unlink_rootlink.
  - intros r Hr. rewrite rows_eq in Hr. destruct Hr as [<-|Hr].
    + destruct Hpg0 as [G1 [G2 G3]]. split; [exact G1|]. split; [exact G2|].
      intros g m Hgg Hmm. destruct (G3 g m Hgg Hmm) as [Hin Hkd]. split; [|exact Hkd].
      unfold rkids in Hin. unfold rkids. simpl in Hin. simpl. rewrite map_app in Hin. rewrite map_app. simpl in Hin.
      apply in_app_or in Hin. apply in_or_app.
      destruct Hin as [Hin|[Hin|Hin]]; [left; exact Hin | exfalso; apply (Hnm g Hgg); rewrite Hin; exact Hmm | right; exact Hin].
    + apply Hpgl. rewrite flat_map_app in *. simpl. apply in_app_or in Hr. apply in_or_app.
      destruct Hr as [Hr|Hr]; [left; exact Hr | right; apply in_or_app; right; exact Hr].
Qed.

(* ---- attaching an orphan subtree under an entity of the tree (creation, second half of a move) ---- *)
Lemma rep_attach C q a l te f P0 P' :
  Rep (plug C (Node q a l)) f P0 ->
  NoDup (keys_of te) ->
  (forall r, In r (rows te) -> node_matches (flat f) r) ->
  (forall r, In r (rows te) -> pgs_ok r) ->
  (forall k, In k (keys_of te) -> In k P0) ->
  (forall k, In k P0 -> In k P' \/ In k (keys_of te)) ->
  (forall k, In k P' -> In k P0 /\ ~ In k (keys_of te)) ->
  Rep (plug C (Node q a (l ++ [te]))) (w_link q (tkey te) f) P'.
Proof.
  intros R Hte Hrte Hpte Hsub Hcov Hnew.
  destruct (rep_hole_facts _ _ _ _ R) as [Hnd [Hdis [Hrows [Hpend Hpgs]]]].
  assert (Hql : ~ In q (flat_map keys_of l)) by (rewrite keys_of_eq in Hnd; inversion Hnd; assumption).
  assert (Hfresh : forall k, In k (keys_of te) -> ~ In k (keys_of (Node q a l)) /\ ~ In k (ctx_keys C)).
  { intros k Hk. apply Hpend. apply Hsub. exact Hk. }
  destruct (Hrows (q, a, map tkey l)) as [qn [Hg [Ha [Hlnd [Hk Hl]]]]]; [rewrite rows_eq; left; reflexivity|].
  unfold rkey, rattrs, rkids in Hg, Ha, Hlnd, Hk, Hl. simpl in Hg, Ha, Hlnd, Hk, Hl.
  destruct (Hrte (tkey te, tattrs te, map tkey (tkids te))) as [en [Hge _]].
  { destruct te as [k' a' l']. rewrite rows_eq. left. reflexivity. }
  unfold rkey in Hge. simpl in Hge.
  assert (Heq : tkey te <> q).
  { intros E. apply (proj1 (Hfresh (tkey te) (tkey_in_keys te))). rewrite E. left. reflexivity. }
  assert (Hlg : lget (tkey te) (flinks qn) = None).
  { apply lget_None_notin. intros Hin. apply Hk in Hin.
    apply (proj1 (Hfresh (tkey te) (tkey_in_keys te))). right. apply tkeys_sub. exact Hin. }
  pose proof (w_link_new q (tkey te) f qn en Hg Hge Hlg) as Hg'.
  assert (Hfr : forall y, y <> q -> fget y (flat (w_link q (tkey te) f)) = fget y (flat f)).
  { intros y Hy. apply w_link_frame. exact Hy. }
  apply rep_replace with (s := Node q a l) (f := f) (P := P0).
  - exact R.
  - reflexivity.
  - rewrite keys_of_eq, flat_map_app. simpl. rewrite app_nil_r. constructor.
    + intros Hin. apply in_app_or in Hin. destruct Hin as [Hin|Hin]; [exact (Hql Hin)|].
      apply (proj1 (Hfresh q Hin)). left. reflexivity.
    + apply nodup_app_iff. repeat split.
      * rewrite keys_of_eq in Hnd. inversion Hnd; assumption.
      * exact Hte.
      * intros x Hx Hx2. apply (proj1 (Hfresh x Hx2)). right. exact Hx.
  - intros x Hx. rewrite keys_of_eq, flat_map_app in Hx. simpl in Hx. rewrite app_nil_r in Hx.
    destruct Hx as [<-|Hx]; [apply Hdis; left; reflexivity|].
    apply in_app_or in Hx. destruct Hx as [Hx|Hx]; [apply Hdis; right; exact Hx | apply Hfresh; exact Hx].
  - apply w_link_nodup. exact (rep_flatnd _ _ _ R).
  - intros r Hr. rewrite rows_eq, flat_map_app in Hr. simpl in Hr. rewrite app_nil_r in Hr.
    destruct Hr as [<-|Hr].
    + eexists. unfold rkey, rattrs, rkids. simpl. split; [exact Hg'|]. simpl.
      split; [exact Ha|]. rewrite map_app. simpl. split.
      { apply nodup_app_iff. repeat split; [exact Hlnd | constructor; [intros [] | constructor] |].
        intros x Hx [<-|[]]. apply lget_None_notin in Hlg. exact (Hlg Hx). }
      split.
      * intros c. rewrite map_app, !in_app_iff. simpl. rewrite Hk. tauto.
      * intros c ad Hin. apply in_app_or in Hin. destruct Hin as [Hin|[Hin|[]]].
        -- destruct (Hl c ad Hin) as [cn [Hc Hcad]]. exists cn. split; [|exact Hcad].
           rewrite Hfr; [exact Hc|]. intros ->. apply Hql. apply tkeys_sub. apply Hk.
           apply in_map_iff. exists (q, ad). split; [reflexivity | exact Hin].
        -- inversion Hin; subst. exists en. split; [|reflexivity]. rewrite Hfr by exact Heq. exact Hge.
    + apply in_app_or in Hr. destruct Hr as [Hr|Hr].
      * apply node_matches_same with (m := flat f).
        -- apply Hrows. rewrite rows_eq. right. exact Hr.
        -- apply Hfr. intros E. apply Hql. rewrite <- E. apply rows_list_keys. exact Hr.
        -- intros c Hc. apply Hfr. intros ->. apply Hql. eapply rows_list_kids; eassumption.
      * apply node_matches_same with (m := flat f).
        -- apply Hrte. exact Hr.
        -- apply Hfr. intros E.
           assert (Hq : In q (keys_of te)) by (rewrite <- E; apply rows_keys; exact Hr).
           apply (proj1 (Hfresh q Hq)). left. reflexivity.
        -- intros c Hc. apply Hfr. intros ->.
           assert (Hq : In q (keys_of te)) by (eapply rows_kids_keys; eassumption).
           apply (proj1 (Hfresh q Hq)). left. reflexivity.
  - intros y Hy. apply Hfr. intros ->. apply (Hdis q); [left; reflexivity | exact Hy].
  - intros cn Hc. simpl in Hc. rewrite Hg in Hc. inversion Hc; subst cn. eexists. split; [exact Hg' | reflexivity].
  - intros k n0 Hk0. destruct (key_dec k q) as [->|Hne]; [left; left; reflexivity|].
    rewrite Hfr in Hk0 by exact Hne. destruct (rep_only _ _ _ R k n0 Hk0) as [H|H].
    + apply keys_plug_in in H. destruct H as [H|H]; [|right; left; exact H].
      left. rewrite keys_of_eq in H. rewrite keys_of_eq, flat_map_app. simpl.
      destruct H as [H|H]; [left; exact H | right; apply in_or_app; left; exact H].
    + destruct (Hcov k H) as [H'|H']; [right; right; exact H'|].
      left. rewrite keys_of_eq, flat_map_app. simpl. rewrite app_nil_r. right. apply in_or_app. right. exact H'.
  - intros k Hk0. destruct (Hnew k Hk0) as [H1 H2]. destruct (Hpend k H1) as [H3 H4]. split; [|exact H4].
    rewrite keys_of_eq, flat_map_app. simpl. rewrite app_nil_r. rewrite keys_of_eq in H3.
    intros [H|H]; [apply H3; left; exact H|]. apply in_app_or in H.
    destruct H as [H|H]; [apply H3; right; exact H | exact (H2 H)].
  - apply w_link_rootlink.
  - intros r Hr. rewrite rows_eq, flat_map_app in Hr. simpl in Hr. rewrite app_nil_r in Hr. destruct Hr as [<-|Hr].
    + destruct (Hpgs (q, a, map tkey l)) as [G1 [G2 G3]]; [rewrite rows_eq; left; reflexivity|].
      split; [exact G1|]. split; [exact G2|]. intros g m Hgg Hmm. destruct (G3 g m Hgg Hmm) as [Hin Hkd]. split; [|exact Hkd].
      unfold rkids in Hin. unfold rkids. simpl in Hin. simpl. rewrite map_app. apply in_or_app. left. exact Hin.
    + apply in_app_or in Hr. destruct Hr as [Hr|Hr]; [apply Hpgs; rewrite rows_eq; right; exact Hr | apply Hpte; exact Hr].
Qed.

(* ---- deleting flat nodes of pending identifiers ---- *)
Lemma rep_delete t f P D P' : Rep t f P ->
  (forall d, In d D -> In d P) ->
  (forall k, In k P -> In k D \/ In k P') ->
  (forall k, In k P' -> In k P) ->
  Rep t (del_all D f) P'.
Proof.
  intros [Rroot Rnd Rfnd Rrows Ronly Rpend Rrl Rpgs] HD Hcov Hsub.
  assert (Hfr : forall y, In y (keys_of t) -> fget y (flat (del_all D f)) = fget y (flat f)).
  { intros y Hy. apply del_all_frame. intros Hd. exact (Rpend y (HD y Hd) Hy). }
  constructor.
  - exact Rroot.
  - exact Rnd.
  - apply del_all_nodup. exact Rfnd.
  - intros r Hr. apply node_matches_same with (m := flat f).
    + apply Rrows. exact Hr.
    + apply Hfr. apply rows_keys. exact Hr.
    + intros c Hc. apply Hfr. eapply rows_kids_keys; eassumption.
  - intros k n Hg. apply del_all_Some in Hg; [|exact Rfnd]. destruct Hg as [Hd Hg].
    destruct (Ronly k n Hg) as [H|H]; [left; exact H|].
    destruct (Hcov k H) as [H'|H']; [contradiction | right; exact H'].
  - intros k Hk. apply Rpend. apply Hsub. exact Hk.
  - destruct Rrl as [n [Hg Hl]]. exists n. split.
    + rewrite Hfr; [exact Hg|]. rewrite <- Rroot. apply tkey_in_keys.
    + rewrite del_all_rootlink. exact Hl.
  - exact Rpgs.
Qed.

(* ---- writing a fresh flat node that nothing links to ---- *)
Lemma rep_add_orphan t f P x a : Rep t f P -> fget x (flat f) = None -> ~ In x (keys_of t) ->
  Rep t (w_entity x a f) (x :: P).
Proof.
  intros [Rroot Rnd Rfnd Rrows Ronly Rpend Rrl Rpgs] Hx Hnx.
  assert (Hfr : forall y, In y (keys_of t) -> fget y (flat (w_entity x a f)) = fget y (flat f)).
  { intros y Hy. apply w_entity_frame. intros ->. exact (Hnx Hy). }
  constructor.
  - exact Rroot.
  - exact Rnd.
  - apply w_entity_nodup. exact Rfnd.
  - intros r Hr. apply node_matches_same with (m := flat f).
    + apply Rrows. exact Hr.
    + apply Hfr. apply rows_keys. exact Hr.
    + intros c Hc. apply Hfr. eapply rows_kids_keys; eassumption.
  - intros k n Hg. destruct (key_dec k x) as [->|Hne]; [right; left; reflexivity|].
    rewrite w_entity_frame in Hg by exact Hne.
    destruct (Ronly k n Hg) as [H|H]; [left; exact H | right; right; exact H].
  - intros k [<-|Hk]; [exact Hnx | apply Rpend; exact Hk].
  - destruct Rrl as [n [Hg Hl]]. exists n. split.
    + rewrite Hfr; [exact Hg|]. rewrite <- Rroot. apply tkey_in_keys.
    + rewrite w_entity_rootlink. exact Hl.
  - exact Rpgs.
Qed.

(* ---- re-visiting stored entities rewrites nothing ---- *)
Definition stored (m : flatmap) (t : tree) : Prop :=
  forall r, In r (rows t) ->
  exists n, fget (rkey r) m = Some n /\ forall c, In c (rkids r) -> exists ad, lget c (flinks n) = Some ad.

Lemma node_matches_stored m t : (forall r, In r (rows t) -> node_matches m r) -> stored m t.
Proof.
  intros H r Hr. destruct (H r Hr) as [n [Hg [_ [_ [Hk _]]]]]. exists n. split; [exact Hg|].
  intros c Hc. apply lget_In_Some. apply Hk. exact Hc.
Qed.

Lemma save_kids_fix k l f : (forall c, In c l -> save_tree k c f = f) -> save_kids k l f = f.
Proof.
  induction l as [|c r IH]; intros H; [reflexivity|].
  unfold save_kids in *. simpl. rewrite (H c (or_introl eq_refl)). apply IH.
  intros c' Hc'. apply H. right. exact Hc'.
Qed.

Lemma save_tree_stored t : forall p f, stored (flat f) t -> save_tree p t f = w_link p (tkey t) f.
Proof.
  induction t as [k a l IH] using tree_ind'. intros p f Hs. rewrite save_tree_eq. simpl.
  destruct (Hs (k, a, map tkey l)) as [n [Hg Hk]]; [rewrite rows_eq; left; reflexivity|].
  unfold rkey, rkids in Hg, Hk. simpl in Hg, Hk.
  rewrite (w_entity_old k a f n Hg). rewrite save_kids_fix; [reflexivity|].
  intros c Hc. rewrite Forall_forall in IH. rewrite (IH c Hc).
  - destruct (Hk (tkey c)) as [ad Had]; [apply in_map; exact Hc|].
    destruct (Hs (tkey c, tattrs c, map tkey (tkids c))) as [cn [Hgc _]].
    { rewrite rows_eq. right. apply in_flat_map. exists c. split; [exact Hc|].
      destruct c as [k' a' l']. rewrite rows_eq. left. reflexivity. }
    unfold rkey in Hgc. simpl in Hgc. eapply w_link_old; eassumption.
  - intros r Hr. apply Hs. rewrite rows_eq. right. apply in_flat_map. exists c. split; assumption.
Qed.

Lemma save_kids_stored k a l f : stored (flat f) (Node k a l) -> save_kids k l (w_entity k a f) = f.
Proof.
  intros Hs.
  destruct (Hs (k, a, map tkey l)) as [n [Hg Hk]]; [rewrite rows_eq; left; reflexivity|].
  unfold rkey, rkids in Hg, Hk. simpl in Hg, Hk.
  rewrite (w_entity_old k a f n Hg). apply save_kids_fix.
  intros c Hc. rewrite save_tree_stored.
  - destruct (Hk (tkey c)) as [ad Had]; [apply in_map; exact Hc|].
    destruct (Hs (tkey c, tattrs c, map tkey (tkids c))) as [cn [Hgc _]].
    { rewrite rows_eq. right. apply in_flat_map. exists c. split; [exact Hc|].
      destruct c as [k' a' l']. rewrite rows_eq. left. reflexivity. }
    unfold rkey in Hgc. simpl in Hgc. eapply w_link_old; eassumption.
  - intros r Hr. apply Hs. rewrite rows_eq. right. apply in_flat_map. exists c. split; assumption.
Qed.

(* the save_entity that follows a move only adds the link under the new parent *)
Lemma move_file C p a l1 te l2 f P q pp :
  Rep (plug C (Node p a (l1 ++ te :: l2))) f P ->
  save_tree q te (w_unlink p (tkey te) (kd_wscrub p (tkey te) pp f))
  = w_link q (tkey te) (w_unlink p (tkey te) (kd_wscrub p (tkey te) pp f)).
Proof.
  intros R. destruct (rep_hole_facts _ _ _ _ R) as [Hnd [Hdis [Hrows [Hpend Hpgs]]]].
  pose proof (nodup_hole _ _ _ _ _ Hnd) as [Hte [Hpte Hd]].
  apply save_tree_stored. intros r Hr.
  destruct (node_matches_stored (flat f) te) with (r := r) as [n [Hg Hk]]; [|exact Hr|].
  - intros r' Hr'. apply Hrows. apply in_rows_hole. right. right. left. exact Hr'.
  - exists n. split; [|exact Hk].
    assert (Hne : rkey r <> p) by (intros E; apply Hpte; rewrite <- E; apply rows_keys; exact Hr).
    rewrite w_unlink_frame by exact Hne. rewrite kd_wscrub_frame by exact Hne. exact Hg.
Qed.

(* closing a file that represents the tree only sweeps the dead groups *)
Lemma close_file_rep_file w P : Rep (wmem w) (wfile w) P -> (forall k, In k (wpend w) -> In k P) ->
  wfile (close_file w) = sweep_file w KG /\ Rep (wmem w) (sweep_file w KG) P.
Proof.
  intros R Hin.
  assert (R' : Rep (wmem w) (sweep_file w KG) P).
  { unfold sweep_file. apply rep_delete with (P := P); [exact R | | intros k Hk; right; exact Hk | intros k Hk; exact Hk].
    intros d Hd. apply filter_In in Hd. apply Hin. apply Hd. }
  split; [|exact R'].
  rewrite close_file_file. destruct (wmem w) as [k a l]. simpl. apply save_kids_stored.
  apply node_matches_stored. exact (rep_rows _ _ _ R').
Qed.

Theorem step_frame_rep_gen : forall w o x P, Rep (wmem w) (wfile w) P -> (forall k, In k (wpend w) -> In k P) ->
  ~ In x (footprint_rep w o) ->
  fget x (flat (wfile (fst (step w o)))) = fget x (flat (wfile w)).
Proof.
  intros w o x P R Hin Hx.
  destruct o as [k u p nm ar | e n | e b | e v | e q | e | e | k | | o g nm ms | o g | e q ids];
    try (apply step_frame; exact Hx).
  - (* Move *) unfold footprint_rep, parent_list in Hx. unfold step, do_move.
    destruct (find e (wmem w)) as [te|] eqn:Fe; [|reflexivity].
    destruct (find q (wmem w)); [|reflexivity].
    destruct (parent_of e (wmem w)) as [p|] eqn:Pe; [|reflexivity].
    destruct (negb (can_hold (fst q) (fst e)) || mem_key q (keys_of te)); [reflexivity|].
    destruct (key_eqb p q); [reflexivity|]. simpl.
    destruct (child_ctx _ _ _ _ (rep_nodup _ _ _ R) Fe Pe) as [C [a [l1 [l2 [Ht Hk]]]]].
    rewrite Ht in R. subst e.
    match goal with |- context [w_scrub p (tkey te) ?pp (wfile w)] =>
      pose proof (move_file _ _ _ _ _ _ _ _ q pp R) as Hm end.
    unfold kd_wscrub in Hm. rewrite Hm.
    rewrite w_link_frame by (intros ->; apply Hx; right; left; reflexivity).
    assert (Hp : x <> p) by (intros ->; apply Hx; left; reflexivity).
    rewrite w_unlink_frame by exact Hp. destruct (fst (tkey te)); try reflexivity. apply w_scrub_frame. exact Hp.
  - (* Reopen *) unfold step. rewrite reopen_file.
    destruct (close_file_rep_file w P R Hin) as [-> _]. unfold sweep_file. apply del_all_frame. exact Hx.
Qed.

Theorem step_frame_rep : forall w o x, Rep (wmem w) (wfile w) (wpend w) -> ~ In x (footprint_rep w o) ->
  fget x (flat (wfile (fst (step w o)))) = fget x (flat (wfile w)).
Proof. intros w o x R. apply step_frame_rep_gen with (P := wpend w); [exact R | intros k Hk; exact Hk]. Qed.


(* ---- property-group blocks of the entity at a hole ---- *)
Lemma rep_hole_node C x a l f P : Rep (plug C (Node x a l)) f P ->
  exists n, fget x (flat f) = Some n /\ attrs_equiv (fattrs n) a.
Proof.
  intros R. destruct (rep_hole_facts _ _ _ _ R) as [_ [_ [Hrows _]]].
  destruct (Hrows (x, a, map tkey l)) as [n [Hg [Ha _]]]; [rewrite rows_eq; left; reflexivity|].
  exists n. split; assumption.
Qed.

Lemma rep_hole_pgs C x a l f P : Rep (plug C (Node x a l)) f P -> pgs_ok (x, a, map tkey l).
Proof.
  intros R. destruct (rep_hole_facts _ _ _ _ R) as [_ [_ [_ [_ Hpgs]]]]. apply Hpgs. rewrite rows_eq. left. reflexivity.
Qed.

Lemma rep_set_pgs C x a l f f' P n M' F' :
  Rep (plug C (Node x a l)) f P -> fget x (flat f) = Some n ->
  fget x (flat f') = Some (set_pgs n F') -> pgs_equiv F' M' ->
  (forall y, y <> x -> fget y (flat f') = fget y (flat f)) -> NoDup (map fst (flat f')) -> rootlink f' = rootlink f ->
  pgs_ok (x, with_pgs a M', map tkey l) ->
  Rep (plug C (Node x (with_pgs a M') l)) f' P.
Proof.
  intros R Hn Hn' He Hfr Hnd Hrl Hpg.
  destruct (rep_hole_node _ _ _ _ _ _ R) as [n0 [Hg0 Ha0]]. rewrite Hn in Hg0. inversion Hg0; subst n0.
  eapply rep_attrs; try eassumption; try reflexivity.
  simpl. apply attrs_equiv_with; assumption.
Qed.

Lemma pgs_ok_scrub x a kids c : pgs_ok (x, a, kids) ->
  pgs_ok (x, with_pgs a (scrub c (apgs a)), kids) /\ forall g, In g (scrub c (apgs a)) -> ~ In c (pg_members g).
Proof.
  intros [G1 [G2 G3]]. unfold rattrs, rkids in *. simpl in *. split; [split; [|split]|].
  - apply scrub_ids_nodup. exact G1.
  - intros g Hg. apply scrub_In in Hg. destruct Hg as [g0 [Hg0 Hs]]. apply (scrub1_members c g0 g (G2 g0 Hg0) Hs).
  - intros g m Hg Hm. apply scrub_In in Hg. destruct Hg as [g0 [Hg0 Hs]].
    destruct (scrub1_members c g0 g (G2 g0 Hg0) Hs) as [_ Hmem]. apply Hmem in Hm. apply (G3 g0 m Hg0). apply Hm.
  - intros g Hg Hc. apply scrub_In in Hg. destruct Hg as [g0 [Hg0 Hs]].
    destruct (scrub1_members c g0 g (G2 g0 Hg0) Hs) as [_ Hmem]. apply Hmem in Hc. destruct Hc as [_ Hc]. congruence.
Qed.

(* a completed removal of the child te of p: scrub (data only), unlink *)
Lemma rep_forget C p a l1 te l2 f P :
  Rep (plug C (Node p a (l1 ++ te :: l2))) f P ->
  Rep (plug C (Node p (kd_attrs (tkey te) a) (l1 ++ l2)))
      (w_unlink p (tkey te) (kd_wscrub p (tkey te) (apgs a) f)) (P ++ keys_of te).
Proof.
  intros R. pose proof (rep_hole_pgs _ _ _ _ _ _ R) as Hpg0.
  destruct (rep_hole_node _ _ _ _ _ _ R) as [n [Hg Ha]].
  unfold kd_attrs, kd_wscrub. destruct (fst (tkey te)) eqn:Ek.
  - apply rep_detach; [exact R|]. intros g Hgin Hm. destruct Hpg0 as [_ [_ G3]].
    destruct (G3 g _ Hgin Hm) as [_ Hkd]. congruence.
  - apply rep_detach; [exact R|]. intros g Hgin Hm. destruct Hpg0 as [_ [_ G3]].
    destruct (G3 g _ Hgin Hm) as [_ Hkd]. congruence.
  - destruct (pgs_ok_scrub _ _ _ (tkey te) Hpg0) as [Hok Hno].
    apply rep_detach; [|exact Hno].
    eapply rep_set_pgs with (n := n).
    + exact R.
    + exact Hg.
    + apply w_scrub_same. exact Hg.
    + apply scrub_equiv; [apply Hpg0 | apply attrs_equiv_pgs; exact Ha].
    + intros y Hy. apply w_scrub_frame. exact Hy.
    + apply w_scrub_nodup. exact (rep_flatnd _ _ _ R).
    + apply w_scrub_rootlink.
    + exact Hok.
Qed.

(* ======================================================================================================== *)
(* Part B — the invariant is preserved by every operation                                                    *)
(* ======================================================================================================== *)

Lemma rep_init : Rep (wmem init) (wfile init) (wpend init).
Proof.
  constructor.
  - reflexivity.
  - simpl. constructor; [intros [] | constructor].
  - simpl. constructor; [intros [] | constructor].
  - intros r [<-|[]]. eexists. split; [reflexivity|]. simpl.
    split; [apply attrs_equiv_refl|]. split; [constructor|]. split; [intros c; split; intros []|]. intros c ad [].
  - intros k n Hg. simpl in Hg. destruct (key_eqb k rootkey) eqn:E; [|discriminate].
    apply key_eqb_eq in E. left. left. congruence.
  - intros k [].
  - eexists. split; reflexivity.
  - intros r [<-|[]]. split; [constructor|]. split; [intros g [] | intros g m []].
Qed.

Lemma pgs_ok_nil x a kids : apgs a = [] -> pgs_ok (x, a, kids).
Proof.
  intros E. unfold pgs_ok, rattrs. simpl. rewrite E. split; [constructor|]. split; [intros g [] | intros g m []].
Qed.

Lemma rep_create t f P x a p sp : Rep t f P -> fget x (flat f) = None -> find p t = Some sp -> ~ In x (keys_of t) ->
  apgs a = [] ->
  Rep (upd p (add_kid (Node x a [])) t) (w_link p x (w_entity x a f)) (rm_key x P).
Proof.
  intros R Hx Hf Hnx Hpg.
  pose proof (find_tkey _ _ _ Hf) as Hk. apply find_ctx in Hf. destruct Hf as [C ->].
  destruct sp as [p' ap lp]. simpl in Hk. subst p'.
  rewrite upd_hole by exact (rep_nodup _ _ _ R). simpl.
  pose proof (rep_add_orphan _ _ _ x a R Hx Hnx) as R1.
  change x with (tkey (Node x a [])) at 2.
  apply rep_attach with (P0 := x :: P); try exact R1.
  - simpl. constructor; [intros [] | constructor].
  - intros r [<-|[]]. eexists. unfold rkey, rattrs, rkids. simpl. split; [apply w_entity_new; exact Hx|]. simpl.
    split; [apply attrs_equiv_refl|]. split; [constructor|]. split; [intros c; split; intros []|]. intros c ad [].
  - intros r [<-|[]]. apply pgs_ok_nil. exact Hpg.
  - intros k [<-|[]]. left. reflexivity.
  - intros k [<-|Hk]; [right; left; reflexivity|].
    destruct (key_dec k x) as [->|Hne]; [right; left; reflexivity | left; apply rm_key_In; split; assumption].
  - intros k Hk. apply rm_key_In in Hk. destruct Hk as [Hk Hne]. split; [right; exact Hk|].
    intros [E|[]]. congruence.
Qed.

Lemma rep_do_set w e g wr P :
  (forall a, apgs (g a) = apgs a) ->
  (forall x a f n, fget x (flat f) = Some n -> attrs_equiv (fattrs n) a ->
     exists n', fget x (flat (wr x (g a) f)) = Some n' /\ attrs_equiv (fattrs n') (g a) /\ faddr n' = faddr n /\ flinks n' = flinks n) ->
  (forall x a f y, y <> x -> fget y (flat (wr x a f)) = fget y (flat f)) ->
  (forall x a f, NoDup (map fst (flat f)) -> NoDup (map fst (flat (wr x a f)))) ->
  (forall x a f, rootlink (wr x a f) = rootlink f) ->
  Rep (wmem w) (wfile w) P ->
  Rep (wmem (fst (do_set w e g wr))) (wfile (fst (do_set w e g wr))) P /\ wpend (fst (do_set w e g wr)) = wpend w.
Proof.
  intros H0 H1 H2 H3 H4 R. unfold do_set.
  destruct (find e (wmem w)) as [te|] eqn:F; [|split; [exact R | reflexivity]].
  destruct (key_eqb e rootkey); [split; [exact R | reflexivity]|]. simpl. split; [|reflexivity].
  pose proof (find_tkey _ _ _ F) as Hk. apply find_ctx in F. destruct F as [C HC].
  destruct te as [e' a l]. simpl in Hk. subst e'. rewrite HC in *.
  rewrite upd_hole by exact (rep_nodup _ _ _ R). simpl.
  destruct (rep_hole_node _ _ _ _ _ _ R) as [n [Hg Ha]].
  pose proof (rep_hole_pgs _ _ _ _ _ _ R) as Hpg.
  destruct (H1 e a (wfile w) n Hg Ha) as [n' [Hg' [Ha' [Had Hli]]]].
  eapply rep_attrs; try eassumption.
  - intros y Hy. apply H2. exact Hy.
  - apply H3. exact (rep_flatnd _ _ _ R).
  - apply H4.
  - unfold pgs_ok, rattrs, rkids in *. simpl in *. rewrite H0. exact Hpg.
Qed.

Lemma find_plug_hole C p a L : NoDup (keys_of (plug C (Node p a L))) -> find p (plug C (Node p a L)) = Some (Node p a L).
Proof. intros H. rewrite find_plug; [apply (find_self (Node p a L)) | exact H | left; reflexivity]. Qed.

Lemma rep_remove_parent t f P e te p : Rep t f P -> find e t = Some te -> parent_of e t = Some p ->
  Rep (forget e t)
      (w_unlink p e (kd_wscrub p e (match find p t with Some tp => apgs (tattrs tp) | None => [] end) f))
      (P ++ keys_of te).
Proof.
  intros R Fe Pe. destruct (child_ctx _ _ _ _ (rep_nodup _ _ _ R) Fe Pe) as [C [a [l1 [l2 [-> Hk]]]]].
  subst e. rewrite forget_hole by exact (rep_nodup _ _ _ R).
  rewrite find_plug_hole by exact (rep_nodup _ _ _ R). simpl. apply rep_forget. exact R.
Qed.

Lemma rep_move t f P e te q sq p : Rep t f P -> find e t = Some te -> find q t = Some sq -> parent_of e t = Some p ->
  ~ In q (keys_of te) ->
  Rep (upd q (add_kid te) (forget e t))
      (save_tree q te (w_unlink p e (kd_wscrub p e (match find p t with Some tp => apgs (tattrs tp) | None => [] end) f))) P.
Proof.
  intros R Fe Fq Pe Hq.
  destruct (child_ctx _ _ _ _ (rep_nodup _ _ _ R) Fe Pe) as [C [a [l1 [l2 [-> Hk]]]]]. subst e.
  rewrite (move_file _ _ _ _ _ _ _ _ q _ R).
  rewrite find_plug_hole by exact (rep_nodup _ _ _ R). simpl tattrs.
  destruct (rep_hole_facts _ _ _ _ R) as [Hnd [Hdis [Hrows [Hpend Hpgs]]]].
  pose proof (nodup_hole _ _ _ _ _ Hnd) as [Hte [Hpte Hd]].
  pose proof (rep_forget _ _ _ _ _ _ _ _ R) as R1.
  rewrite forget_hole by exact (rep_nodup _ _ _ R).
  assert (Hq1 : In q (keys_of (plug C (Node p (kd_attrs (tkey te) a) (l1 ++ l2))))).
  { apply find_Some_in in Fq. apply keys_plug_in in Fq. apply keys_plug_in.
    destruct Fq as [Fq|Fq]; [left | right; exact Fq].
    apply in_keys_hole in Fq. apply in_keys_nohole. tauto. }
  destruct (find_in _ _ Hq1) as [sq1 Fq1].
  pose proof (find_tkey _ _ _ Fq1) as Hk1. apply find_ctx in Fq1. destruct Fq1 as [C2 HC2].
  destruct sq1 as [q' aq lq]. simpl in Hk1. subst q'. rewrite HC2 in *.
  rewrite upd_hole by exact (rep_nodup _ _ _ R1). simpl.
  apply rep_attach with (P0 := P ++ keys_of te).
  - exact R1.
  - exact Hte.
  - intros r Hr. apply node_matches_same with (m := flat f).
    + apply Hrows. apply in_rows_hole. right. right. left. exact Hr.
    + assert (Hne : rkey r <> p) by (intros E; apply Hpte; rewrite <- E; apply rows_keys; exact Hr).
      rewrite w_unlink_frame by exact Hne. apply kd_wscrub_frame. exact Hne.
    + intros c Hc. assert (Hne : c <> p) by (intros ->; apply Hpte; eapply rows_kids_keys; eassumption).
      rewrite w_unlink_frame by exact Hne. apply kd_wscrub_frame. exact Hne.
  - intros r Hr. apply Hpgs. apply in_rows_hole. right. right. left. exact Hr.
  - intros k Hk. apply in_or_app. right. exact Hk.
  - intros k Hk. apply in_app_or in Hk. exact Hk.
  - intros k Hk. split; [apply in_or_app; left; exact Hk|].
    intros Hk2. apply (proj1 (Hpend k Hk)). apply in_keys_hole. right. right. left. exact Hk2.
Qed.

(* ---- removal through the workspace, including the partial (raised) outcome ---- *)
Definition forget_all (gone : list key) (t : tree) : tree := fold_left (fun m k => forget k m) gone t.

Definition rm_ok (te : tree) : Prop := forall C p a l1 l2 f P,
  Rep (plug C (Node p a (l1 ++ te :: l2))) f P ->
  exists f' gone ok, rm_ws p (apgs a) te f = (f', ok) /\ rm_ws_done te = (gone, ok) /\
     Rep (forget_all gone (plug C (Node p a (l1 ++ te :: l2)))) f' P /\
     (ok = true -> gone = [tkey te]).

Lemma rm_list_ok k C' P r : Forall rm_ok r -> forall f ak, Rep (plug C' (Node k ak r)) f P ->
  exists f' pgs' gone ok, rm_list k r (f, apgs ak) = (f', pgs', ok) /\ done_list r = (gone, ok) /\
     Rep (forget_all gone (plug C' (Node k ak r))) f' P /\
     (ok = true -> exists ak', forget_all gone (plug C' (Node k ak r)) = plug C' (Node k ak' [])).
Proof.
  intros H. induction H as [|c r' Hc Hr IH]; intros f ak R.
  - exists f, (apgs ak), [], true. split; [reflexivity|]. split; [reflexivity|]. split; [exact R|].
    intros _. exists ak. reflexivity.
  - destruct (Hc C' k ak [] r' f P R) as [f1 [g1 [ok1 [E1 [E2 [R1 G1]]]]]].
    pose proof (forget_hole C' k ak [] c r' (rep_nodup _ _ _ R)) as Hp. simpl in Hp.
    simpl. rewrite E1, E2. destruct ok1.
    + rewrite (G1 eq_refl) in R1. unfold forget_all in R1. simpl in R1. rewrite Hp in R1.
      rewrite kd_scrub_attrs.
      destruct (IH f1 _ R1) as [f2 [pgs2 [g2 [ok2 [E3 [E4 [R2 G2]]]]]]].
      exists f2, pgs2, (g1 ++ g2), ok2. rewrite E3, E4. rewrite (G1 eq_refl). unfold forget_all. simpl. rewrite Hp.
      split; [reflexivity|]. split; [reflexivity|]. split; [exact R2 | exact G2].
    + exists f1, (apgs ak), g1, false. split; [reflexivity|]. split; [reflexivity|]. split; [exact R1 | discriminate].
Qed.

Lemma rm_ws_ok t : rm_ok t.
Proof.
  induction t as [k ak l IH] using tree_ind'. intros C p a l1 l2 f P R.
  rewrite rm_ws_eq, rm_ws_done_eq. destruct (negb (adel ak)).
  - exists f, [], false. split; [reflexivity|]. split; [reflexivity|]. split; [exact R | discriminate].
  - destruct (rm_list_ok k ((p, a, l1, l2) :: C) P l IH f ak R) as [f1 [pgs1 [g [ok [E1 [E2 [R1 G]]]]]]].
    rewrite E1, E2. destruct ok; simpl.
    + exists (w_delete k (w_unlink p k (kd_wscrub p k (apgs a) f1))), [k], true.
      split; [reflexivity|]. split; [reflexivity|]. split; [|reflexivity].
      destruct (G eq_refl) as [ak' Hak]. rewrite Hak in R1. simpl in R1.
      pose proof (forget_hole C p a l1 (Node k ak l) l2 (rep_nodup _ _ _ R)) as Hp. simpl in Hp.
      unfold forget_all. simpl. rewrite Hp.
      pose proof (rep_forget _ _ _ _ _ _ _ _ R1) as R2. simpl in R2.
      apply (rep_delete _ _ _ [k] P) in R2.
      * exact R2.
      * intros d [<-|[]]. apply in_or_app. right. left. reflexivity.
      * intros k' Hk'. apply in_app_or in Hk'. destruct Hk' as [Hk'|Hk']; [right; exact Hk' | left; exact Hk'].
      * intros k' Hk'. apply in_or_app. left. exact Hk'.
    + exists f1, g, false. split; [reflexivity|]. split; [reflexivity|]. split; [exact R1 | discriminate].
Qed.

Lemma rep_remove_ws t f P e te p : Rep t f P -> find e t = Some te -> parent_of e t = Some p ->
  let ppgs := match find p t with Some tp => apgs (tattrs tp) | None => [] end in
  Rep (forget_all (fst (rm_ws_done te)) t) (fst (rm_ws p ppgs te f)) P /\ snd (rm_ws p ppgs te f) = snd (rm_ws_done te).
Proof.
  intros R Fe Pe. destruct (child_ctx _ _ _ _ (rep_nodup _ _ _ R) Fe Pe) as [C [a [l1 [l2 [-> Hk]]]]].
  rewrite find_plug_hole by exact (rep_nodup _ _ _ R). simpl.
  destruct (rm_ws_ok te C p a l1 l2 f P R) as [f' [g [ok [E1 [E2 [R1 _]]]]]].
  rewrite E1, E2. simpl. split; [exact R1 | reflexivity].
Qed.

(* ---- sweep ---- *)
Lemma rep_sweep w k orph : Rep (wmem w) (wfile w) (wpend w ++ orph) ->
  Rep (wmem w) (sweep_file w k) (filter (fun x => negb (kind_eqb (fst x) k)) (wpend w) ++ orph).
Proof.
  intros R. unfold sweep_file. eapply rep_delete; [exact R | | |].
  - intros d Hd. apply filter_In in Hd. apply in_or_app. left. apply Hd.
  - intros x Hx. apply in_app_or in Hx. destruct Hx as [Hx|Hx].
    + destruct (kind_eqb (fst x) k) eqn:E.
      * left. apply filter_In. split; assumption.
      * right. apply in_or_app. left. apply filter_In. split; [exact Hx | rewrite E; reflexivity].
    + right. apply in_or_app. right. exact Hx.
  - intros x Hx. apply in_app_or in Hx. apply in_or_app. destruct Hx as [Hx|Hx]; [left | right; exact Hx].
    apply filter_In in Hx. apply Hx.
Qed.

(* ---- property-group operations ---- *)
Lemma pg_put_equiv g M F : NoDup (map pg_id M) -> pgs_equiv F M -> pgs_equiv (pg_put g F) (pg_put g M).
Proof.
  intros HM He. pose proof (pgs_equiv_ids _ _ HM (pgs_equiv_sym _ _ He)) as HF.
  apply pgs_equiv_of_nodup; [apply pg_put_ids_nodup; exact HF | apply pg_put_ids_nodup; exact HM|].
  intros h. rewrite (pg_put_In g F h HF), (pg_put_In g M h HM). destruct He as [He _]. rewrite (He h). tauto.
Qed.

Lemma pg_del_equiv i M F : NoDup (map pg_id M) -> pgs_equiv F M -> pgs_equiv (pg_del i F) (pg_del i M).
Proof.
  intros HM He. pose proof (pgs_equiv_ids _ _ HM (pgs_equiv_sym _ _ He)) as HF.
  apply pgs_equiv_of_nodup; [apply pg_del_ids_nodup; exact HF | apply pg_del_ids_nodup; exact HM|].
  intros h. rewrite !pg_del_In. destruct He as [He _]. rewrite (He h). tauto.
Qed.

Lemma pg_by_name_In name L h : pg_by_name name L = Some h -> In h L.
Proof.
  induction L as [|x r IH]; simpl; [discriminate|].
  destruct (N.eqb (pg_name x) name); [intros E; inversion E; left; reflexivity | intros E; right; apply IH; exact E].
Qed.

(* writing one group block g at the entity x of the tree *)
Lemma rep_pg_put C x a l f P g :
  Rep (plug C (Node x a l)) f P ->
  NoDup (pg_members g) -> (forall m, In m (pg_members g) -> In m (map tkey l) /\ fst m = KD) ->
  Rep (plug C (Node x (with_pgs a (pg_put g (apgs a))) l)) (w_pg_put x g f) P.
Proof.
  intros R Hgn Hgm. destruct (rep_hole_node _ _ _ _ _ _ R) as [n [Hg Ha]].
  pose proof (rep_hole_pgs _ _ _ _ _ _ R) as [G1 [G2 G3]]. unfold rattrs, rkids in G1, G2, G3. simpl in G1, G2, G3.
  eapply rep_set_pgs with (n := n).
  - exact R.
  - exact Hg.
  - apply w_pg_put_same. exact Hg.
  - apply pg_put_equiv; [exact G1 | apply attrs_equiv_pgs; exact Ha].
  - intros y Hy. apply w_pg_put_frame. exact Hy.
  - apply w_pg_put_nodup. exact (rep_flatnd _ _ _ R).
  - apply w_pg_put_rootlink.
  - unfold pgs_ok, rattrs, rkids. simpl. split; [apply pg_put_ids_nodup; exact G1|]. split.
    + intros h Hh. apply (pg_put_In g _ h G1) in Hh. destruct Hh as [->|[Hh _]]; [exact Hgn | apply G2; exact Hh].
    + intros h m Hh Hm. apply (pg_put_In g _ h G1) in Hh. destruct Hh as [->|[Hh _]]; [apply Hgm; exact Hm | eapply G3; eassumption].
Qed.

Lemma rep_pg_add w o g name ms P : Rep (wmem w) (wfile w) P ->
  Rep (wmem (fst (do_pg_add w o g name ms))) (wfile (fst (do_pg_add w o g name ms))) P
  /\ wpend (fst (do_pg_add w o g name ms)) = wpend w.
Proof.
  intros R. unfold do_pg_add.
  destruct (find o (wmem w)) as [t|] eqn:F; [|split; [exact R | reflexivity]].
  destruct (negb (kind_eqb (fst o) KO)); [split; [exact R | reflexivity]|].
  destruct (filter (fun m => kind_eqb (fst m) KD && mem_key m (kid_keys t)) ms) as [|v0 vr] eqn:Ev; [split; [exact R | reflexivity]|].
  rewrite <- Ev. simpl. split; [|reflexivity].
  pose proof (find_tkey _ _ _ F) as Hk. apply find_ctx in F. destruct F as [C HC].
  destruct t as [o' a l]. simpl in Hk. subst o'. rewrite HC in *.
  rewrite upd_hole by exact (rep_nodup _ _ _ R). simpl.
  pose proof (rep_hole_pgs _ _ _ _ _ _ R) as [G1 [G2 G3]]. unfold rattrs, rkids in G1, G2, G3. simpl in G1, G2, G3.
  set (valid := filter (fun m => kind_eqb (fst m) KD && mem_key m (kid_keys (Node o a l))) ms) in *.
  set (g0 := match pg_by_name name (apgs a) with Some h => h | None => (g, name, []) end).
  assert (Hg0n : NoDup (pg_members g0)).
  { unfold g0. destruct (pg_by_name name (apgs a)) as [h|] eqn:E; [apply G2; eapply pg_by_name_In; exact E | constructor]. }
  assert (Hg0m : forall m, In m (pg_members g0) -> In m (map tkey l) /\ fst m = KD).
  { unfold g0. destruct (pg_by_name name (apgs a)) as [h|] eqn:E; [|intros m []].
    intros m Hm. eapply G3; [eapply pg_by_name_In; exact E | exact Hm]. }
  apply rep_pg_put; [exact R | |].
  - unfold pg_members at 1. simpl. apply add_new_nodup. exact Hg0n.
  - unfold pg_members at 1. simpl. intros m Hm. apply add_new_In in Hm. destruct Hm as [Hm|Hm]; [apply Hg0m; exact Hm|].
    unfold valid in Hm. apply filter_In in Hm. destruct Hm as [_ Hm]. apply andb_true_iff in Hm. destruct Hm as [H1 H2].
    apply kind_eqb_eq in H1. apply mem_key_In in H2. split; [exact H2 | exact H1].
Qed.

Lemma rep_pg_remove w o g P : Rep (wmem w) (wfile w) P ->
  Rep (wmem (fst (do_pg_remove w o g))) (wfile (fst (do_pg_remove w o g))) P
  /\ wpend (fst (do_pg_remove w o g)) = wpend w.
Proof.
  intros R. unfold do_pg_remove.
  destruct (find o (wmem w)) as [t|] eqn:F; [|split; [exact R | reflexivity]].
  destruct (existsb (fun h => N.eqb (pg_id h) g) (apgs (tattrs t))); [|split; [exact R | reflexivity]].
  simpl. split; [|reflexivity].
  pose proof (find_tkey _ _ _ F) as Hk. apply find_ctx in F. destruct F as [C HC].
  destruct t as [o' a l]. simpl in Hk. subst o'. rewrite HC in *.
  rewrite upd_hole by exact (rep_nodup _ _ _ R). simpl.
  destruct (rep_hole_node _ _ _ _ _ _ R) as [n [Hg Ha]].
  pose proof (rep_hole_pgs _ _ _ _ _ _ R) as [G1 [G2 G3]]. unfold rattrs, rkids in G1, G2, G3. simpl in G1, G2, G3.
  eapply rep_set_pgs with (n := n).
  - exact R.
  - exact Hg.
  - apply w_pg_del_same. exact Hg.
  - apply pg_del_equiv; [exact G1 | apply attrs_equiv_pgs; exact Ha].
  - intros y Hy. apply w_pg_del_frame. exact Hy.
  - apply w_pg_del_nodup. exact (rep_flatnd _ _ _ R).
  - apply w_pg_del_rootlink.
  - unfold pgs_ok, rattrs, rkids. simpl. split; [apply pg_del_ids_nodup; exact G1|]. split.
    + intros h Hh. apply pg_del_In in Hh. apply G2. apply Hh.
    + intros h m Hh Hm. apply pg_del_In in Hh. eapply G3; [apply Hh | exact Hm].
Qed.

(* ---- copy: a sequence of creations (node + link), children after their parent, then the group blocks ---- *)
Definition drop (K P : list key) : list key := filter (fun k => negb (mem_key k K)) P.

Lemma drop_In K P k : In k (drop K P) <-> In k P /\ ~ In k K.
Proof. unfold drop. rewrite filter_In, negb_true_iff, mem_key_false. tauto. Qed.

Lemma drop_app K P Q : drop K (P ++ Q) = drop K P ++ drop K Q.
Proof. apply filter_app. Qed.

Lemma with_pgs_nil_back a : with_pgs (with_pgs a []) (apgs a) = a.
Proof. destruct a; reflexivity. Qed.

Lemma rep_put_all C k a0 l : forall G M f P,
  Rep (plug C (Node k (with_pgs a0 M) l)) f P ->
  NoDup (map pg_id (M ++ G)) ->
  (forall g, In g G -> NoDup (pg_members g) /\ forall m, In m (pg_members g) -> In m (map tkey l) /\ fst m = KD) ->
  Rep (plug C (Node k (with_pgs a0 (M ++ G)) l)) (put_all k G f) P.
Proof.
  induction G as [|g G IH]; intros M f P R Hn HG.
  - rewrite app_nil_r. exact R.
  - change (put_all k (g :: G) f) with (put_all k G (w_pg_put k g f)).
    replace (M ++ g :: G) with ((M ++ [g]) ++ G) by (rewrite <- app_assoc; reflexivity).
    apply IH.
    + destruct (HG g (or_introl eq_refl)) as [Hg1 Hg2].
      pose proof (rep_pg_put _ _ _ _ _ _ g R Hg1 Hg2) as R1. simpl in R1.
      rewrite pg_put_fresh in R1; [exact R1|].
      rewrite map_app in Hn. apply nodup_app_iff in Hn. destruct Hn as [_ [_ Hd]].
      intros Hin. apply (Hd _ Hin). left. reflexivity.
    + rewrite <- app_assoc. exact Hn.
    + intros g' Hg'. apply HG. right. exact Hg'.
Qed.

(* the final rewrite of the whole block set from memory *)
Lemma rep_put_pgs C k a l f P : Rep (plug C (Node k a l)) f P -> Rep (plug C (Node k a l)) (put_pgs k a f) P.
Proof.
  intros R. unfold put_pgs. destruct (apgs a) as [|g0 gs] eqn:Ea; [exact R|].
  destruct (rep_hole_node _ _ _ _ _ _ R) as [n [Hg Ha]]. pose proof (rep_hole_pgs _ _ _ _ _ _ R) as Hpg.
  assert (G : Rep (plug C (Node k (with_pgs a (apgs a)) l)) (w_pgs k a f) P).
  { eapply rep_set_pgs with (n := n).
    - exact R.
    - exact Hg.
    - apply w_pgs_same. exact Hg.
    - apply pgs_equiv_refl.
    - intros y Hy. apply w_pgs_frame. exact Hy.
    - apply w_pgs_nodup. exact (rep_flatnd _ _ _ R).
    - apply w_pgs_rootlink.
    - rewrite with_pgs_id. exact Hpg. }
  rewrite with_pgs_id in G. exact G.
Qed.

Definition copy_ok (t' : tree) : Prop := forall C q aq lq f P,
  Rep (plug C (Node q aq lq)) f P ->
  NoDup (keys_of t') ->
  (forall x, In x (keys_of t') -> ~ In x (keys_of (plug C (Node q aq lq))) /\ fget x (flat f) = None) ->
  (forall r, In r (rows t') -> pgs_ok r) ->
  Rep (plug C (Node q aq (lq ++ [t']))) (save_copy q t' f) (drop (keys_of t') P).

Lemma keys_plug_snoc C q aq lq t' x :
  In x (keys_of (plug C (Node q aq (lq ++ [t'])))) <-> In x (keys_of (plug C (Node q aq lq))) \/ In x (keys_of t').
Proof. rewrite !keys_plug_in, !keys_of_eq, flat_map_app. simpl. rewrite app_nil_r, in_app_iff. tauto. Qed.

Lemma copy_kids_ok k a0 C' : forall l, Forall copy_ok l -> forall ls f P,
  Rep (plug C' (Node k a0 ls)) f P ->
  NoDup (flat_map keys_of l) ->
  (forall x, In x (flat_map keys_of l) -> ~ In x (keys_of (plug C' (Node k a0 ls))) /\ fget x (flat f) = None) ->
  (forall r, In r (flat_map rows l) -> pgs_ok r) ->
  Rep (plug C' (Node k a0 (ls ++ l))) (copy_kids k l f) (drop (flat_map keys_of l) P).
Proof.
  intros l H. induction H as [|c r Hc Hr IH]; intros ls f P R Hnd Hfresh Hpg.
  - rewrite app_nil_r. eapply rep_pend_equiv; [exact R|]. intros x. rewrite drop_In. simpl. tauto.
  - simpl in Hnd. apply nodup_app_iff in Hnd. destruct Hnd as [N1 [N2 N3]].
    change (copy_kids k (c :: r) f) with (copy_kids k r (save_copy k c f)).
    replace (ls ++ c :: r) with ((ls ++ [c]) ++ r) by (rewrite <- app_assoc; reflexivity).
    assert (Hcx : forall x, In x (keys_of c) -> In x (flat_map keys_of (c :: r))) by (intros x Hx; simpl; apply in_or_app; left; exact Hx).
    assert (Hrx : forall x, In x (flat_map keys_of r) -> In x (flat_map keys_of (c :: r))) by (intros x Hx; simpl; apply in_or_app; right; exact Hx).
    eapply rep_pend_equiv; [apply IH with (P := drop (keys_of c) P)|].
    + apply Hc; [exact R | exact N1 | intros x Hx; apply Hfresh; apply Hcx; exact Hx |].
      intros r0 Hr0. apply Hpg. simpl. apply in_or_app. left. exact Hr0.
    + exact N2.
    + intros x Hx. destruct (Hfresh x (Hrx x Hx)) as [F1 F2]. split.
      * rewrite keys_plug_snoc. intros [H1|H1]; [exact (F1 H1) | exact (N3 x H1 Hx)].
      * rewrite save_copy_frame; [exact F2 | | intros H1; exact (N3 x H1 Hx)].
        intros ->. apply F1. apply keys_plug_in. left. left. reflexivity.
    + intros r0 Hr0. apply Hpg. simpl. apply in_or_app. right. exact Hr0.
    + intros x. rewrite !drop_In. simpl. rewrite in_app_iff. tauto.
Qed.

Lemma save_copy_ok t' : copy_ok t'.
Proof.
  induction t' as [k a l IH] using tree_ind'. intros C q aq lq f P R Hnd Hfresh Hpg.
  rewrite save_copy_eq.
  destruct (Hfresh k (or_introl eq_refl)) as [Hk1 Hk2].
  pose proof (rep_create _ _ _ k (with_pgs a []) q _ R Hk2 (find_plug_hole _ _ _ _ (rep_nodup _ _ _ R)) Hk1 eq_refl) as R1.
  rewrite upd_hole in R1 by exact (rep_nodup _ _ _ R). simpl add_kid in R1.
  rewrite keys_of_eq in Hnd. inversion Hnd as [|? ? Hkl Hndl]; subst.
  assert (Hq : In q (keys_of (plug C (Node q aq lq)))) by (apply keys_plug_in; left; left; reflexivity).
  pose proof (copy_kids_ok k (with_pgs a []) ((q, aq, lq, []) :: C) l IH [] _ _ R1 Hndl) as R2.
  simpl app in R2.
  assert (Hpg0 : pgs_ok (k, a, map tkey l)) by (apply Hpg; rewrite rows_eq; left; reflexivity).
  destruct Hpg0 as [G1 [G2 G3]]. unfold rattrs, rkids in G1, G2, G3. simpl in G1, G2, G3.
  pose proof (rep_put_all ((q, aq, lq, []) :: C) k (with_pgs a []) l (apgs a) []) as R3. simpl app in R3.
  rewrite with_pgs_nil_back in R3.
  eapply rep_pend_equiv; [apply (rep_put_pgs ((q, aq, lq, []) :: C) k a l); apply R3|].
  - apply R2.
    + intros x Hx. destruct (Hfresh x (or_intror Hx)) as [F1 F2]. split.
      * change (plug ((q, aq, lq, []) :: C) (Node k (with_pgs a []) [])) with (plug C (Node q aq (lq ++ [Node k (with_pgs a []) []]))).
        rewrite keys_plug_snoc. simpl. intros [H1|[H1|[]]]; [exact (F1 H1) | subst x; exact (Hkl Hx)].
      * rewrite w_link_frame by (intros ->; exact (F1 Hq)).
        rewrite w_entity_frame by (intros ->; exact (Hkl Hx)). exact F2.
    + intros r0 Hr0. apply Hpg. rewrite rows_eq. right. exact Hr0.
  - exact G1.
  - intros g Hg. split; [apply G2; exact Hg | intros m Hm; eapply G3; eassumption].
  - intros x. rewrite !drop_In, rm_key_In. simpl.
    split; [intros [[H1 H2] H3]; split; [exact H1 | intros [E|E]; [apply H2; symmetry; exact E | exact (H3 E)]]
           | intros [H1 H2]; split; [split; [exact H1 | intros E; apply H2; left; symmetry; exact E] | intros E; apply H2; right; exact E]].
Qed.

Lemma rep_copy t f P q sq t' : Rep t f P -> find q t = Some sq -> NoDup (keys_of t') ->
  (forall x, In x (keys_of t') -> ~ In x (keys_of t) /\ fget x (flat f) = None) ->
  (forall r, In r (rows t') -> pgs_ok r) ->
  Rep (upd q (add_kid t') t) (save_copy q t' f) (drop (keys_of t') P).
Proof.
  intros R Fq Hnd Hfresh Hpg.
  pose proof (find_tkey _ _ _ Fq) as Hk. apply find_ctx in Fq. destruct Fq as [C ->].
  destruct sq as [q' aq lq]. simpl in Hk. subst q'.
  rewrite upd_hole by exact (rep_nodup _ _ _ R). simpl. apply save_copy_ok; assumption.
Qed.

(* ---- what copy_sub builds from pairwise distinct drawn identifiers ---- *)
Lemma nodupN_NoDup l : nodupN l = true -> NoDup l.
Proof.
  induction l as [|a l IH]; simpl; intros H; [constructor|].
  apply andb_true_iff in H. destruct H as [H1 H2]. constructor; [|apply IH; exact H2].
  intros Hin. apply negb_true_iff in H1.
  assert (E : existsb (N.eqb a) l = true) by (apply existsb_exists; exists a; split; [exact Hin | apply N.eqb_refl]).
  congruence.
Qed.

Lemma map_snd_combine {A B} (l : list A) (l' : list B) : length l = length l' -> map snd (combine l l') = l'.
Proof.
  revert l'. induction l as [|x r IH]; intros [|y r'] H; simpl in *; try reflexivity; try discriminate.
  f_equal. apply IH. congruence.
Qed.

Lemma firstn_plus {A} n m (l : list A) : firstn (n + m) l = firstn n l ++ firstn m (skipn n l).
Proof.
  revert l. induction n as [|n IH]; intros l; simpl; [reflexivity|].
  destruct l as [|x r]; simpl; [rewrite firstn_nil; reflexivity|]. f_equal. apply IH.
Qed.

Lemma nodup_flat_map_opt {A B} (f : A -> option B) l : NoDup l ->
  (forall x1 x2 y, In x1 l -> In x2 l -> f x1 = Some y -> f x2 = Some y -> x1 = x2) ->
  NoDup (flat_map (fun x => match f x with Some y => [y] | None => [] end) l).
Proof.
  induction l as [|x r IH]; intros Hn Hinj; simpl; [constructor|].
  inversion Hn as [|? ? Hx Hr]; subst.
  assert (IH' : NoDup (flat_map (fun x => match f x with Some y => [y] | None => [] end) r)).
  { apply IH; [exact Hr|]. intros x1 x2 y H1 H2. apply Hinj; right; assumption. }
  destruct (f x) as [y|] eqn:E; simpl; [|exact IH']. constructor; [|exact IH'].
  intros Hin. apply in_flat_map in Hin. destruct Hin as [x2 [Hx2 Hy]].
  destruct (f x2) as [y2|] eqn:E2; [|destruct Hy]. destruct Hy as [<-|[]].
  assert (x = x2) by (eapply Hinj; [left; reflexivity | right; exact Hx2 | exact E | exact E2]). subst x2. exact (Hx Hx2).
Qed.

Lemma assoc_key_In x m y : assoc_key x m = Some y -> In (x, y) m.
Proof.
  induction m as [|[a b] r IH]; simpl; [discriminate|].
  keq x a; [intros H; inversion H; subst; left; reflexivity | intros H; right; apply IH; exact H].
Qed.

Lemma remap_In cmap ms y : In y (remap cmap ms) -> exists x, In x ms /\ In (x, y) cmap.
Proof.
  unfold remap. intros H. apply in_flat_map in H. destruct H as [x [Hx Hy]].
  destruct (assoc_key x cmap) as [y'|] eqn:E; [|destruct Hy]. destruct Hy as [<-|[]].
  exists x. split; [exact Hx | apply assoc_key_In; exact E].
Qed.

Lemma remap_nodup cmap ms : NoDup ms -> NoDup (map snd cmap) -> NoDup (remap cmap ms).
Proof.
  intros H1 H2. unfold remap. apply nodup_flat_map_opt with (f := fun x => assoc_key x cmap); [exact H1|].
  intros x1 x2 y _ _ E1 E2. apply assoc_key_In in E1. apply assoc_key_In in E2.
  assert (E : (x1, y) = (x2, y)) by (eapply NoDup_map_inj_in; [exact H2 | exact E1 | exact E2 | reflexivity]).
  inversion E. reflexivity.
Qed.

Definition kidk (cj : tree * N) : key := (KD, snd cj).
Definition kid_copy (cj : tree * N) : tree := let '(c, j) := cj in Node (KD, j) (with_pgs (tattrs c) []) [].
Definition kid_pair (cj : tree * N) : key * key := let '(c, j) := cj in (tkey c, (KD, j)).

Lemma kid_copy_keys L : flat_map keys_of (map kid_copy L) = map kidk L.
Proof. induction L as [|[c j] r IH]; simpl; [reflexivity|]. f_equal. exact IH. Qed.
Lemma kid_copy_tkeys L : map tkey (map kid_copy L) = map kidk L.
Proof. induction L as [|[c j] r IH]; simpl; [reflexivity|]. f_equal. exact IH. Qed.
Lemma kid_copy_rows L r : In r (flat_map rows (map kid_copy L)) -> pgs_ok r.
Proof.
  induction L as [|[c j] L IH]; simpl; [intros []|]. intros [<-|H]; [apply pgs_ok_nil; reflexivity | apply IH; exact H].
Qed.
Lemma kid_pair_snd L : map snd (map kid_pair L) = map kidk L.
Proof. induction L as [|[c j] r IH]; simpl; [reflexivity|]. f_equal. exact IH. Qed.
Lemma kidk_snd L : map snd (map kidk L) = map snd L.
Proof. rewrite map_map. reflexivity. Qed.
Lemma kidk_kind L y : In y (map kidk L) -> fst y = KD.
Proof. intros H. apply in_map_iff in H. destruct H as [cj [<- _]]. reflexivity. Qed.

Definition copy_facts_out (ids : list N) (t' : tree) (rest : list N) : Prop :=
  exists U, ids = U ++ rest /\ (forall x, In x (keys_of t') -> In (snd x) U) /\
    (NoDup U -> NoDup (map snd (keys_of t')) /\ forall r', In r' (rows t') -> pgs_ok r').

Lemma copy_obj_facts i a l ids1 t' rest : copy_obj i a l ids1 = Some (t', rest) ->
  (forall g, In g (apgs a) -> NoDup (pg_members g)) ->
  copy_facts_out (i :: ids1) t' rest.
Proof.
  unfold copy_obj. intros H Hga.
  destruct (Nat.ltb (length ids1) (length l + length (apgs a))) eqn:El; [discriminate|].
  apply Nat.ltb_ge in El. inversion H; subst t' rest. clear H.
  set (n := length l) in *. set (m := length (apgs a)) in *.
  set (kid_ids := firstn n ids1). set (pg_ids := firstn m (skipn n ids1)).
  set (L := combine l kid_ids).
  assert (Hlk : length kid_ids = n) by (unfold kid_ids; apply firstn_length_le; lia).
  assert (Hlp : length pg_ids = m) by (unfold pg_ids; apply firstn_length_le; rewrite skipn_length; lia).
  assert (HLs : map snd L = kid_ids) by (apply map_snd_combine; unfold n in Hlk; congruence).
  exists (i :: kid_ids ++ pg_ids). split; [|split].
  - simpl. f_equal. unfold kid_ids, pg_ids. rewrite <- firstn_plus. symmetry. apply firstn_skipn.
  - change (map (fun '(c, j) => Node (KD, j) (with_pgs (tattrs c) []) []) L) with (map kid_copy L).
    intros x Hx. rewrite keys_of_eq, kid_copy_keys in Hx. destruct Hx as [<-|Hx]; [left; reflexivity|].
    right. apply in_or_app. left. rewrite <- HLs. apply in_map_iff in Hx. destruct Hx as [cj [<- Hcj]].
    change (snd (kidk cj)) with (snd cj). apply (in_map snd). exact Hcj.
  - intros HU. change (map (fun '(c, j) => Node (KD, j) (with_pgs (tattrs c) []) []) L) with (map kid_copy L).
    change (map (fun '(c, j) => (tkey c, (KD, j))) L) with (map kid_pair L).
    inversion HU as [|? ? Hi HU']; subst. apply nodup_app_iff in HU'. destruct HU' as [Hnk [Hnp _]].
    assert (Hkk : NoDup (map kidk L)) by (apply (NoDup_map_inv snd); rewrite kidk_snd, HLs; exact Hnk).
    split.
    + rewrite keys_of_eq, kid_copy_keys. simpl. rewrite kidk_snd, HLs. constructor; [|exact Hnk].
      intros Hin. apply Hi. apply in_or_app. left. exact Hin.
    + intros r' Hr'. rewrite rows_eq in Hr'. destruct Hr' as [<-|Hr']; [|eapply kid_copy_rows; exact Hr'].
      unfold pgs_ok, rattrs, rkids. simpl. rewrite kid_copy_tkeys.
      set (PL := combine (apgs a) pg_ids).
      assert (Hids : map pg_id (map (fun '(g, j) => (j, pg_name g, remap (map kid_pair L) (pg_members g))) PL) = pg_ids).
      { transitivity (map snd PL); [|apply map_snd_combine; unfold m in Hlp; congruence].
        rewrite map_map. apply map_ext. intros [g j]. reflexivity. }
      split; [rewrite Hids; exact Hnp|]. split.
      * intros h Hh. apply in_map_iff in Hh. destruct Hh as [[g j] [<- Hgj]]. unfold pg_members at 1. simpl.
        apply remap_nodup; [apply Hga; eapply in_combine_l; exact Hgj | rewrite kid_pair_snd; exact Hkk].
      * intros h y Hh Hy. apply in_map_iff in Hh. destruct Hh as [[g j] [<- Hgj]]. unfold pg_members at 1 in Hy. simpl in Hy.
        apply remap_In in Hy. destruct Hy as [x [_ Hxy]].
        assert (Hyk : In y (map kidk L)).
        { rewrite <- kid_pair_snd. apply in_map_iff. exists (x, y). split; [reflexivity | exact Hxy]. }
        split; [exact Hyk | eapply kidk_kind; exact Hyk].
Qed.

Definition copy_facts (t : tree) : Prop := forall ids t' rest,
  copy_sub t ids = Some (t', rest) -> (forall r, In r (rows t) -> pgs_ok r) -> copy_facts_out ids t' rest.

Lemma copy_list_facts l : Forall copy_facts l -> forall ids l' rest,
  copy_list l ids = Some (l', rest) -> (forall r, In r (flat_map rows l) -> pgs_ok r) ->
  exists U, ids = U ++ rest /\ (forall x, In x (flat_map keys_of l') -> In (snd x) U) /\
    (NoDup U -> NoDup (map snd (flat_map keys_of l')) /\ forall r', In r' (flat_map rows l') -> pgs_ok r').
Proof.
  intros H. induction H as [|c r Hc Hr IH]; intros ids l' rest E Hpg; simpl in E.
  - inversion E; subst. exists []. split; [reflexivity|]. split; [intros x []|]. intros _. split; [constructor | intros r' []].
  - destruct (copy_sub c ids) as [[c' ids']|] eqn:E1; [|discriminate].
    destruct (copy_list r ids') as [[r' ids'']|] eqn:E2; [|discriminate]. inversion E; subst l' rest. clear E.
    destruct (Hc _ _ _ E1) as [U1 [A1 [B1 C1]]]. { intros r0 Hr0. apply Hpg. simpl. apply in_or_app. left. exact Hr0. }
    destruct (IH _ _ _ E2) as [U2 [A2 [B2 C2]]]. { intros r0 Hr0. apply Hpg. simpl. apply in_or_app. right. exact Hr0. }
    exists (U1 ++ U2). split; [rewrite A1, A2, app_assoc; reflexivity|]. split.
    + intros x Hx. simpl in Hx. apply in_app_or in Hx. apply in_or_app.
      destruct Hx as [Hx|Hx]; [left; apply B1; exact Hx | right; apply B2; exact Hx].
    + intros HU. apply nodup_app_iff in HU. destruct HU as [N1 [N2 N3]].
      destruct (C1 N1) as [D1 F1]. destruct (C2 N2) as [D2 F2]. split.
      * simpl. rewrite map_app. apply nodup_app_iff. split; [exact D1|]. split; [exact D2|].
        intros y Hy1 Hy2. apply in_map_iff in Hy1. destruct Hy1 as [x1 [<- Hx1]].
        apply in_map_iff in Hy2. destruct Hy2 as [x2 [Ex Hx2]].
        apply (N3 (snd x1)); [apply B1; exact Hx1 | rewrite <- Ex; apply B2; exact Hx2].
      * intros r0 Hr0. simpl in Hr0. apply in_app_or in Hr0. destruct Hr0 as [Hr0|Hr0]; [apply F1 | apply F2]; exact Hr0.
Qed.

Lemma copy_sub_facts t : copy_facts t.
Proof.
  induction t as [k a l IH] using tree_ind'. intros ids t' rest E Hpg. rewrite copy_sub_eq in E.
  destruct ids as [|i ids1]; [discriminate|]. destruct (fst k).
  - destruct (copy_list l ids1) as [[l' ids2]|] eqn:E1; [|discriminate]. inversion E; subst t' rest. clear E.
    destruct (copy_list_facts l IH _ _ _ E1) as [U [A [B Cc]]].
    { intros r0 Hr0. apply Hpg. rewrite rows_eq. right. exact Hr0. }
    exists (i :: U). split; [rewrite A; reflexivity|]. split.
    + intros x Hx. rewrite keys_of_eq in Hx. destruct Hx as [<-|Hx]; [left; reflexivity | right; apply B; exact Hx].
    + intros HU. inversion HU as [|? ? Hi HU']; subst. destruct (Cc HU') as [D F]. split.
      * rewrite keys_of_eq. simpl. constructor; [|exact D]. intros Hin. apply Hi.
        apply in_map_iff in Hin. destruct Hin as [x [<- Hx]]. apply B. exact Hx.
      * intros r0 Hr0. rewrite rows_eq in Hr0. destruct Hr0 as [<-|Hr0]; [apply pgs_ok_nil; reflexivity | apply F; exact Hr0].
  - apply copy_obj_facts in E; [exact E|].
    intros g Hg. destruct (Hpg (k, a, map tkey l)) as [_ [G2 _]]; [rewrite rows_eq; left; reflexivity|]. apply G2. exact Hg.
  - inversion E; subst t' rest. clear E. exists [i]. split; [reflexivity|]. split.
    + intros x [<-|[]]. left. reflexivity.
    + intros _. split; [simpl; constructor; [intros [] | constructor]|].
      intros r0 [<-|[]]. apply pgs_ok_nil. reflexivity.
Qed.

Lemma copy_sub_nodup t ids t' : copy_sub t ids = Some (t', []) -> NoDup ids -> (forall r, In r (rows t) -> pgs_ok r) ->
  NoDup (keys_of t') /\ forall r', In r' (rows t') -> pgs_ok r'.
Proof.
  intros E Hn Hpg. destruct (copy_sub_facts t _ _ _ E Hpg) as [U [A [_ Cc]]]. rewrite app_nil_r in A. subst U.
  destruct (Cc Hn) as [D F]. split; [eapply NoDup_map_inv; exact D | exact F].
Qed.

(* ======================================================================================================== *)
(* The loader rebuilds the tree                                                                              *)
(* ======================================================================================================== *)
Definition load_step (fuel' : nat) (m : flatmap) (acc : list tree * list key) (l : key * N) : list tree * list key :=
  let '(ks, sn) := acc in
  if mem_key (fst l) sn then (ks, sn)
  else match load fuel' m sn (fst l) with Some (t, sn') => (ks ++ [t], sn') | None => (ks, sn) end.

Lemma load_eq fuel' m seen x :
  load (S fuel') m seen x =
  match fget x m with
  | None => None
  | Some n =>
      let '(kids, seen') := fold_left (load_step fuel' m) (sort_links (flinks n)) ([], x :: seen) in
      Some (Node x (with_pgs (fattrs n) (sort_pgs (apgs (fattrs n)))) kids, seen')
  end.
Proof. reflexivity. Qed.

Lemma ins_link_perm x l : Permutation (ins_link x l) (x :: l).
Proof.
  induction l as [|y r IH]; simpl; [apply Permutation_refl|].
  destruct (key_leb (fst x) (fst y)); [apply Permutation_refl|].
  eapply Permutation_trans; [apply perm_skip; exact IH | apply perm_swap].
Qed.

Lemma sort_links_perm l : Permutation (sort_links l) l.
Proof.
  induction l as [|x r IH]; simpl; [constructor|].
  eapply Permutation_trans; [apply ins_link_perm | apply perm_skip; exact IH].
Qed.

Lemma ins_pg_perm g l : Permutation (ins_pg g l) (g :: l).
Proof.
  induction l as [|h r IH]; simpl; [apply Permutation_refl|].
  destruct (N.leb (pg_id g) (pg_id h)); [apply Permutation_refl|].
  eapply Permutation_trans; [apply perm_skip; exact IH | apply perm_swap].
Qed.

Lemma sort_pgs_perm l : Permutation (sort_pgs l) l.
Proof.
  induction l as [|x r IH]; simpl; [constructor|].
  eapply Permutation_trans; [apply ins_pg_perm | apply perm_skip; exact IH].
Qed.

Lemma sorted_attrs_equiv b : attrs_equiv (with_pgs b (sort_pgs (apgs b))) b.
Proof.
  pose proof (sort_pgs_perm (apgs b)) as Hp.
  split; [reflexivity|]. split; [reflexivity|]. split; [reflexivity|]. simpl. split.
  - intros g. split; apply Permutation_in; [exact Hp | apply Permutation_sym; exact Hp].
  - apply Permutation_length. exact Hp.
Qed.

Lemma perm_flat_map {A B} (f : A -> list B) l l' : Permutation l l' -> Permutation (flat_map f l) (flat_map f l').
Proof.
  induction 1 as [| x l l' HP IH | x y l | l l' l'' HP1 IH1 HP2 IH2]; simpl.
  - constructor.
  - apply Permutation_app_head. exact IH.
  - rewrite !app_assoc. apply Permutation_app_tail. apply Permutation_app_comm.
  - eapply Permutation_trans; eassumption.
Qed.

Lemma forall2_in_l {A B} (R : A -> B -> Prop) l1 l2 : Forall2 R l1 l2 -> forall x, In x l1 -> exists y, In y l2 /\ R x y.
Proof.
  induction 1 as [|a b l1 l2 Hab HF IH]; intros x Hx; [destruct Hx|].
  destruct Hx as [<-|Hx]; [exists b; split; [left; reflexivity | exact Hab]|].
  destruct (IH x Hx) as [y [Hy Hr]]. exists y. split; [right; exact Hy | exact Hr].
Qed.

Lemma forall2_in_r {A B} (R : A -> B -> Prop) l1 l2 : Forall2 R l1 l2 -> forall y, In y l2 -> exists x, In x l1 /\ R x y.
Proof.
  induction 1 as [|a b l1 l2 Hab HF IH]; intros y Hy; [destruct Hy|].
  destruct Hy as [<-|Hy]; [exists a; split; [left; reflexivity | exact Hab]|].
  destruct (IH y Hy) as [x [Hx Hr]]. exists x. split; [right; exact Hx | exact Hr].
Qed.

Lemma forall2_length {A B} (R : A -> B -> Prop) l1 l2 : Forall2 R l1 l2 -> length l1 = length l2.
Proof. induction 1; simpl; [reflexivity | f_equal; assumption]. Qed.

Lemma nodup_kid l c : NoDup (flat_map keys_of l) -> In c l -> NoDup (keys_of c).
Proof.
  intros H Hc. apply in_split in Hc. destruct Hc as [l1 [l2 ->]]. rewrite flat_map_app in H. simpl in H.
  apply nodup_app_iff in H. destruct H as [_ [H _]]. apply nodup_app_iff in H. apply H.
Qed.

Definition load_rel (t' c : tree) : Prop := tree_equiv t' c /\ Permutation (keys_of t') (keys_of c).

Lemma forall2_flat_perm new lk : Forall2 load_rel new lk -> Permutation (flat_map keys_of new) (flat_map keys_of lk).
Proof.
  induction 1 as [|a b l1 l2 Hab HF IH]; simpl; [constructor|]. apply Permutation_app; [apply Hab | exact IH].
Qed.

Definition load_kid_ok (fuel' : nat) (m : flatmap) (c : tree) : Prop :=
  forall seen, (forall y, In y (keys_of c) -> ~ In y seen) ->
  exists s' seen', load fuel' m seen (tkey c) = Some (s', seen') /\ load_rel s' c /\
     (forall y, In y seen' <-> In y seen \/ In y (keys_of c)).

Lemma load_fold_ok fuel' m : forall lk L ks sn,
  map fst L = map tkey lk -> Forall (load_kid_ok fuel' m) lk -> NoDup (flat_map keys_of lk) ->
  (forall y, In y (flat_map keys_of lk) -> ~ In y sn) ->
  exists new sn', fold_left (load_step fuel' m) L (ks, sn) = (ks ++ new, sn') /\ Forall2 load_rel new lk /\
     (forall y, In y sn' <-> In y sn \/ In y (flat_map keys_of lk)).
Proof.
  induction lk as [|c lk IH]; intros L ks sn HL HF Hnd Hdis.
  - destruct L; [|discriminate]. exists [], sn. simpl. rewrite app_nil_r.
    split; [reflexivity|]. split; [constructor|]. intros y; tauto.
  - destruct L as [|[c0 ad] L]; [discriminate|]. simpl in HL. inversion HL as [[Hc0 HL']].
    inversion HF as [|? ? Hc HF']; subst.
    simpl in Hnd. apply nodup_app_iff in Hnd. destruct Hnd as [N1 [N2 N3]].
    assert (Hm : mem_key (tkey c) sn = false).
    { apply mem_key_false. apply Hdis. simpl. apply in_or_app. left. apply tkey_in_keys. }
    destruct (Hc sn) as [s' [sn1 [E1 [Rl Hs1]]]].
    { intros y Hy. apply Hdis. simpl. apply in_or_app. left. exact Hy. }
    destruct (IH L (ks ++ [s']) sn1 HL' HF' N2) as [new [sn' [E2 [F2 Hs2]]]].
    { intros y Hy Hin. apply Hs1 in Hin. destruct Hin as [Hin|Hin].
      - apply (Hdis y); [simpl; apply in_or_app; right; exact Hy | exact Hin].
      - exact (N3 y Hin Hy). }
    exists (s' :: new), sn'. split; [|split].
    + change (fold_left (load_step fuel' m) ((tkey c, ad) :: L) (ks, sn))
        with (fold_left (load_step fuel' m) L (load_step fuel' m (ks, sn) (tkey c, ad))).
      assert (E : load_step fuel' m (ks, sn) (tkey c, ad) = (ks ++ [s'], sn1)).
      { unfold load_step. simpl. rewrite Hm, E1. reflexivity. }
      rewrite E, E2, <- app_assoc. reflexivity.
    + constructor; assumption.
    + intros y. rewrite Hs2, Hs1. simpl. rewrite in_app_iff. tauto.
Qed.

Definition load_ok (m : flatmap) (s : tree) : Prop := forall fuel seen,
  height s <= fuel -> (forall r, In r (rows s) -> node_matches m r) -> NoDup (keys_of s) ->
  (forall y, In y (keys_of s) -> ~ In y seen) ->
  exists s' seen', load fuel m seen (tkey s) = Some (s', seen') /\ load_rel s' s /\
     (forall y, In y seen' <-> In y seen \/ In y (keys_of s)).

Lemma load_sub m s : load_ok m s.
Proof.
  induction s as [k a l IH] using tree_ind'. intros fuel seen Hh Hrows Hnd Hdis.
  destruct fuel as [|fuel']; [simpl in Hh; lia|].
  destruct (Hrows (k, a, map tkey l)) as [n [Hg [Ha [Hlnd [Hk Hl]]]]]; [rewrite rows_eq; left; reflexivity|].
  unfold rkey, rattrs, rkids in Hg, Ha, Hlnd, Hk, Hl; simpl in Hg, Ha, Hlnd, Hk, Hl.
  simpl tkey. rewrite load_eq, Hg.
  pose proof (sort_links_perm (flinks n)) as Hsp.
  assert (Hkl : ~ In k (flat_map keys_of l) /\ NoDup (flat_map keys_of l))
    by (rewrite keys_of_eq in Hnd; inversion Hnd; split; assumption).
  destruct Hkl as [Hkl Hndl].
  assert (Hperm : Permutation (map fst (sort_links (flinks n))) (map tkey l)).
  { apply NoDup_Permutation.
    - eapply Permutation_NoDup; [apply Permutation_sym; apply Permutation_map; exact Hsp | exact Hlnd].
    - apply nodup_tkeys. exact Hndl.
    - intros c. rewrite <- Hk. split; apply Permutation_in; [|apply Permutation_sym]; apply Permutation_map; exact Hsp. }
  apply Permutation_map_inv in Hperm. destruct Hperm as [lk [HL Hlk]].
  pose proof (perm_flat_map keys_of _ _ Hlk) as Hfk.
  destruct (load_fold_ok fuel' m lk (sort_links (flinks n)) [] (k :: seen) HL) as [new [sn' [E [F Hs]]]].
  - apply Forall_forall. intros c Hc.
    assert (Hcl : In c l) by (eapply Permutation_in; [apply Permutation_sym; exact Hlk | exact Hc]).
    rewrite Forall_forall in IH. intros seen0 Hd0. apply (IH c Hcl fuel' seen0).
    + pose proof (height_kid k a l c Hcl). lia.
    + intros r Hr. apply Hrows. rewrite rows_eq. right. apply in_flat_map. exists c. split; assumption.
    + eapply nodup_kid; eassumption.
    + exact Hd0.
  - eapply Permutation_NoDup; [exact Hfk | exact Hndl].
  - intros y Hy [<-|Hin].
    + apply Hkl. eapply Permutation_in; [apply Permutation_sym; exact Hfk | exact Hy].
    + apply (Hdis y); [right; eapply Permutation_in; [apply Permutation_sym; exact Hfk | exact Hy] | exact Hin].
  - rewrite E. simpl. exists (Node k (with_pgs (fattrs n) (sort_pgs (apgs (fattrs n)))) new), sn'. split; [reflexivity|]. split; [split|].
    + constructor; [eapply attrs_equiv_trans; [apply sorted_attrs_equiv | exact Ha]|]. constructor.
      * rewrite (forall2_length _ _ _ F). symmetry. apply Permutation_length. exact Hlk.
      * intros c1 H1. destruct (forall2_in_l _ _ _ F c1 H1) as [c2 [H2 [He _]]]. exists c2.
        split; [eapply Permutation_in; [apply Permutation_sym; exact Hlk | exact H2] | exact He].
      * intros c2 H2. assert (H2' : In c2 lk) by (eapply Permutation_in; eassumption).
        destruct (forall2_in_r _ _ _ F c2 H2') as [c1 [H1 [He _]]]. exists c1. split; assumption.
    + rewrite !keys_of_eq. apply perm_skip.
      eapply Permutation_trans; [apply forall2_flat_perm; exact F | apply Permutation_sym; exact Hfk].
    + intros y. rewrite Hs. simpl.
      assert (Hyy : In y (flat_map keys_of lk) <-> In y (flat_map keys_of l)).
      { split; apply Permutation_in; [apply Permutation_sym|]; exact Hfk. }
      rewrite Hyy. tauto.
Qed.

Lemma rep_keys_in_flat t f P : Rep t f P -> incl (keys_of t) (map fst (flat f)).
Proof.
  intros R x Hx. rewrite keys_of_rows in Hx. apply in_map_iff in Hx. destruct Hx as [r [<- Hr]].
  destruct (rep_rows _ _ _ R r Hr) as [n [Hg _]]. eapply fget_Some_In. exact Hg.
Qed.

Theorem load_rep_perm : forall t f pend, Rep t f pend ->
  exists t' sn, load (S (length (flat f))) (flat f) [] rootkey = Some (t', sn)
     /\ tree_equiv t' t /\ Permutation (keys_of t') (keys_of t).
Proof.
  intros t f P R. rewrite <- (rep_root _ _ _ R).
  destruct (load_sub (flat f) t (S (length (flat f))) []) as [t' [sn [E [[He Hp] _]]]].
  - pose proof (height_le_keys t). pose proof (NoDup_incl_length (rep_nodup _ _ _ R) (rep_keys_in_flat _ _ _ R)) as Hl.
    rewrite map_length in Hl. lia.
  - exact (rep_rows _ _ _ R).
  - exact (rep_nodup _ _ _ R).
  - intros y _ [].
  - exists t', sn. split; [exact E|]. split; assumption.
Qed.

Theorem load_rep : forall t f pend, Rep t f pend ->
  exists t' sn, load (S (length (flat f))) (flat f) [] rootkey = Some (t', sn)
     /\ tree_equiv t' t /\ NoDup (keys_of t').
Proof.
  intros t f P R. destruct (load_rep_perm t f P R) as [t' [sn [E [He Hp]]]].
  exists t', sn. split; [exact E|]. split; [exact He|].
  eapply Permutation_NoDup; [apply Permutation_sym; exact Hp | exact (rep_nodup _ _ _ R)].
Qed.

(* ---- a tree equal up to the order of children / group blocks is represented by the same file ---- *)
Lemma tree_equiv_inv t' t : tree_equiv t' t ->
  tkey t' = tkey t /\ attrs_equiv (tattrs t') (tattrs t) /\ length (tkids t') = length (tkids t) /\
  (forall c1, In c1 (tkids t') -> exists c2, In c2 (tkids t) /\ tree_equiv c1 c2) /\
  (forall c2, In c2 (tkids t) -> exists c1, In c1 (tkids t') /\ tree_equiv c1 c2).
Proof.
  intros H. destruct H as [k a1 a2 l1 l2 Ha Hk]. destruct Hk as [l1 l2 Hlen H12 H21]. simpl.
  split; [reflexivity|]. split; [exact Ha|]. split; [exact Hlen|]. split; assumption.
Qed.

Lemma rows_equiv t' : forall t, tree_equiv t' t -> forall r', In r' (rows t') ->
  exists r, In r (rows t) /\ rkey r = rkey r' /\ attrs_equiv (rattrs r') (rattrs r) /\ (forall c, In c (rkids r') <-> In c (rkids r)).
Proof.
  induction t' as [k a l1 IH] using tree_ind'. intros t He r' Hr'.
  destruct (tree_equiv_inv _ _ He) as [Ek [Ea [_ [H12 H21]]]]. destruct t as [k2 a2 l2]. simpl in *. subst k2.
  destruct Hr' as [<-|Hr'].
  - exists (k, a2, map tkey l2). split; [left; reflexivity|]. split; [reflexivity|]. split; [exact Ea|].
    unfold rkids. simpl. intros c. split; intros Hc; apply in_map_iff in Hc; destruct Hc as [c1 [<- Hc1]].
    + destruct (H12 c1 Hc1) as [c2 [Hc2 He2]]. rewrite (proj1 (tree_equiv_inv _ _ He2)). apply in_map. exact Hc2.
    + destruct (H21 c1 Hc1) as [c0 [Hc0 He0]]. rewrite <- (proj1 (tree_equiv_inv _ _ He0)). apply in_map. exact Hc0.
  - apply in_flat_map in Hr'. destruct Hr' as [c1 [Hc1 Hr1]]. destruct (H12 c1 Hc1) as [c2 [Hc2 He2]].
    rewrite Forall_forall in IH. destruct (IH c1 Hc1 c2 He2 r' Hr1) as [r [Hr Hrest]]. exists r. split; [|exact Hrest].
    right. apply in_flat_map. exists c2. split; assumption.
Qed.

Lemma node_matches_ext m r r' : node_matches m r -> rkey r = rkey r' -> attrs_equiv (rattrs r') (rattrs r) ->
  (forall c, In c (rkids r') <-> In c (rkids r)) -> node_matches m r'.
Proof.
  intros [n [Hg [Ha [Hnd [Hk Hl]]]]] E1 E2 E3. exists n. rewrite <- E1.
  split; [exact Hg|]. split; [eapply attrs_equiv_trans; [exact Ha | apply attrs_equiv_sym; exact E2]|].
  split; [exact Hnd|]. split; [|exact Hl].
  intros c. rewrite Hk. symmetry. apply E3.
Qed.

Lemma pgs_ok_ext r r' : pgs_ok r -> attrs_equiv (rattrs r') (rattrs r) -> (forall c, In c (rkids r') <-> In c (rkids r)) -> pgs_ok r'.
Proof.
  intros [G1 [G2 G3]] Ea Ek. pose proof (attrs_equiv_pgs _ _ Ea) as Hp. split; [|split].
  - eapply pgs_equiv_ids; [exact G1 | apply pgs_equiv_sym; exact Hp].
  - intros g Hg. apply G2. apply Hp. exact Hg.
  - intros g m Hg Hm. destruct (G3 g m (proj1 (proj1 Hp g) Hg) Hm) as [H1 H2]. split; [apply Ek; exact H1 | exact H2].
Qed.

Lemma rep_equiv t t' f P : Rep t f P -> tree_equiv t' t -> Permutation (keys_of t') (keys_of t) -> Rep t' f P.
Proof.
  intros [Rroot Rnd Rfnd Rrows Ronly Rpend Rrl Rpgs] He Hp. constructor.
  - rewrite (proj1 (tree_equiv_inv _ _ He)). exact Rroot.
  - eapply Permutation_NoDup; [apply Permutation_sym; exact Hp | exact Rnd].
  - exact Rfnd.
  - intros r' Hr'. destruct (rows_equiv _ _ He r' Hr') as [r [Hr [E1 [E2 E3]]]].
    eapply node_matches_ext; [apply Rrows; exact Hr | | |]; assumption.
  - intros k n Hg. destruct (Ronly k n Hg) as [H|H]; [|right; exact H].
    left. eapply Permutation_in; [apply Permutation_sym; exact Hp | exact H].
  - intros k Hk Hin. apply (Rpend k Hk). eapply Permutation_in; eassumption.
  - exact Rrl.
  - intros r' Hr'. destruct (rows_equiv _ _ He r' Hr') as [r [Hr [E1 [E2 E3]]]].
    eapply pgs_ok_ext; [apply Rpgs; exact Hr | |]; assumption.
Qed.

Definition nonKG (x : key) : bool := negb (kind_eqb (fst x) KG).

Lemma rep_reopen w orph : Rep (wmem w) (wfile w) (wpend w ++ orph) ->
  snd (do_reopen w) = Done /\ tree_equiv (wmem (fst (do_reopen w))) (wmem w) /\
  Rep (wmem (fst (do_reopen w))) (wfile (fst (do_reopen w)))
      (wpend (fst (do_reopen w)) ++ (filter nonKG (wpend w) ++ orph)).
Proof.
  intros R.
  destruct (close_file_rep_file w _ R) as [Hf _]. { intros k Hk; apply in_or_app; left; exact Hk. }
  pose proof (rep_sweep w KG orph R) as R1.
  destruct (load_rep_perm _ _ _ R1) as [t' [sn [E [He Hp]]]].
  destruct (rep_rootln _ _ _ R1) as [n [Hg Hl]].
  unfold do_reopen. cbv zeta. rewrite Hf, Hl, E. simpl.
  split; [reflexivity|]. split; [exact He|]. eapply rep_equiv; eassumption.
Qed.

(* ---- one step ---- *)
Definition copy_keys (w : ws) (e : key) (ids : list N) : list key :=
  match find e (wmem w) with
  | Some te => match copy_sub te ids with Some (t', _) => keys_of t' | None => [] end
  | None => []
  end.

Definition next_orph (w : ws) (o : op) (orph : list key) : list key :=
  match o with
  | Create k u _ _ _ => rm_key (k, u) orph
  | Reopen => filter nonKG (wpend w) ++ orph
  | Copy e q ids => drop (copy_keys w e ids) orph
  | _ => orph
  end.

Lemma w_scalars_set g : (forall a, aarr (g a) = aarr a) -> (forall a, apgs (g a) = apgs a) ->
  forall x a f n, fget x (flat f) = Some n -> attrs_equiv (fattrs n) a ->
  exists n', fget x (flat (w_scalars x (g a) f)) = Some n' /\ attrs_equiv (fattrs n') (g a) /\ faddr n' = faddr n /\ flinks n' = flinks n.
Proof.
  intros Hg Hp x a f n Hn [A1 [A2 [A3 [A4 A5]]]]. unfold w_scalars. rewrite Hn. simpl. eexists. split; [apply fget_fset_same|]. simpl.
  split; [|split; reflexivity]. split; [reflexivity|]. split; [reflexivity|]. simpl. rewrite Hg, Hp. split; [exact A3|]. split; assumption.
Qed.

Lemma w_array_set g : (forall a, aname (g a) = aname a /\ adel (g a) = adel a) -> (forall a, apgs (g a) = apgs a) ->
  forall x a f n, fget x (flat f) = Some n -> attrs_equiv (fattrs n) a ->
  exists n', fget x (flat (w_array x (g a) f)) = Some n' /\ attrs_equiv (fattrs n') (g a) /\ faddr n' = faddr n /\ flinks n' = flinks n.
Proof.
  intros Hg Hp x a f n Hn [A1 [A2 [A3 [A4 A5]]]]. unfold w_array. rewrite Hn. simpl. eexists. split; [apply fget_fset_same|]. simpl.
  split; [|split; reflexivity]. destruct (Hg a) as [E1 E2]. split; [simpl; congruence|]. split; [simpl; congruence|].
  simpl. rewrite Hp. split; [reflexivity|]. split; assumption.
Qed.

Lemma rep_find_rows t f P e te : Rep t f P -> find e t = Some te -> forall r, In r (rows te) -> pgs_ok r.
Proof.
  intros R F r Hr. apply find_ctx in F. destruct F as [C ->]. apply (rep_pgs _ _ _ R). apply rows_plug_in. left. exact Hr.
Qed.

Theorem rep_step_gen : forall w o orph, Rep (wmem w) (wfile w) (wpend w ++ orph) -> fresh_op w o = true ->
  Rep (wmem (fst (step w o))) (wfile (fst (step w o))) (wpend (fst (step w o)) ++ next_orph w o orph).
Proof.
  intros w o orph R Hf.
  destruct o as [k u p nm ar | e n | e b | e v | e q | e | e | k | | o g nm ms | o g | e q ids]; unfold step, next_orph.
  - (* Create *) simpl in Hf. destruct (fget (k, u) (flat (wfile w))) eqn:Hx; [discriminate|].
    assert (Rref : Rep (wmem w) (wfile w) (wpend w ++ rm_key (k, u) orph)).
    { eapply rep_pend_change; [exact R | |].
      - intros x Hx'. apply in_app_or in Hx'. apply in_or_app.
        destruct Hx' as [H|H]; [left; exact H | right; apply rm_key_In in H; apply H].
      - intros x n Hg Hin. apply in_app_or in Hin. apply in_or_app.
        destruct Hin as [H|H]; [left; exact H | right; apply rm_key_In; split; [exact H | intros ->; congruence]]. }
    unfold do_create. destruct (find p (wmem w)) as [sp|] eqn:Fp; [|exact Rref].
    destruct (negb (can_hold (fst p) k) || mem_key (k, u) (keys_of (wmem w))) eqn:Ec; [exact Rref|].
    simpl. apply orb_false_iff in Ec. destruct Ec as [_ Ec]. apply mem_key_false in Ec.
    rewrite <- rm_key_app. eapply rep_create; try eassumption. reflexivity.
  - (* SetName *)
    set (g := fun a => {| aname := n; adel := adel a; aarr := aarr a; apgs := apgs a |}).
    destruct (rep_do_set w e g w_scalars _ (fun a => eq_refl)
                (w_scalars_set g (fun a => eq_refl) (fun a => eq_refl)) w_scalars_frame w_scalars_nodup w_scalars_rootlink R) as [R' Hp].
    rewrite Hp. exact R'.
  - (* SetDel *)
    set (g := fun a => {| aname := aname a; adel := b; aarr := aarr a; apgs := apgs a |}).
    destruct (rep_do_set w e g w_scalars _ (fun a => eq_refl)
                (w_scalars_set g (fun a => eq_refl) (fun a => eq_refl)) w_scalars_frame w_scalars_nodup w_scalars_rootlink R) as [R' Hp].
    rewrite Hp. exact R'.
  - (* SetArr *)
    set (g := fun a => {| aname := aname a; adel := adel a; aarr := v; apgs := apgs a |}).
    destruct (rep_do_set w e g w_array _ (fun a => eq_refl)
                (w_array_set g (fun a => conj eq_refl eq_refl) (fun a => eq_refl)) w_array_frame w_array_nodup w_array_rootlink R) as [R' Hp].
    rewrite Hp. exact R'.
  - (* Move *) unfold do_move.
    destruct (find e (wmem w)) as [te|] eqn:Fe; [|exact R].
    destruct (find q (wmem w)) as [sq|] eqn:Fq; [|exact R].
    destruct (parent_of e (wmem w)) as [p|] eqn:Pe; [|exact R].
    destruct (negb (can_hold (fst q) (fst e)) || mem_key q (keys_of te)) eqn:Ec; [exact R|].
    destruct (key_eqb p q); [exact R|]. simpl.
    apply orb_false_iff in Ec. destruct Ec as [_ Ec]. apply mem_key_false in Ec.
    pose proof (rep_move _ _ _ _ _ _ _ _ R Fe Fq Pe Ec) as R'. unfold kd_wscrub in R'. exact R'.
  - (* RemoveWs *) destruct (key_eqb e rootkey); [exact R|]. unfold do_remove_ws.
    destruct (find e (wmem w)) as [te|] eqn:Fe; [|exact R].
    destruct (parent_of e (wmem w)) as [p|] eqn:Pe; [|exact R].
    destruct (rep_remove_ws _ _ _ _ _ _ R Fe Pe) as [R' _]. cbv zeta.
    destruct (rm_ws p _ te (wfile w)) as [f' ok]. destruct (rm_ws_done te) as [gone b]. simpl in *. exact R'.
  - (* RemoveParent *) destruct (key_eqb e rootkey); [exact R|]. unfold do_remove_parent.
    destruct (find e (wmem w)) as [te|] eqn:Fe; [|exact R].
    destruct (parent_of e (wmem w)) as [p|] eqn:Pe; [|exact R]. simpl.
    pose proof (rep_remove_parent _ _ _ _ _ _ R Fe Pe) as R'. unfold kd_wscrub in R'.
    eapply rep_pend_equiv; [exact R'|].
    intros x. rewrite !in_app_iff. tauto.
  - (* Sweep *) simpl. exact (rep_sweep w k orph R).
  - (* Reopen *) apply rep_reopen. exact R.
  - (* PgAdd *) destruct (rep_pg_add w o g nm ms _ R) as [R' Hp]. rewrite Hp. exact R'.
  - (* PgRemove *) destruct (rep_pg_remove w o g _ R) as [R' Hp]. rewrite Hp. exact R'.
  - (* Copy *) simpl in Hf. apply andb_true_iff in Hf. destruct Hf as [Hn Hf]. apply nodupN_NoDup in Hn.
    assert (Hfr : forall x, In x (copy_keys w e ids) -> fget x (flat (wfile w)) = None).
    { unfold copy_keys. destruct (find e (wmem w)) as [te|]; [|intros x []].
      destruct (copy_sub te ids) as [[t' rest]|]; [|intros x []].
      intros x Hx. rewrite forallb_forall in Hf. specialize (Hf x Hx).
      destruct (fget x (flat (wfile w))); [discriminate | reflexivity]. }
    assert (Rref : Rep (wmem w) (wfile w) (wpend w ++ drop (copy_keys w e ids) orph)).
    { eapply rep_pend_change; [exact R | |].
      - intros x Hx'. apply in_app_or in Hx'. apply in_or_app.
        destruct Hx' as [H|H]; [left; exact H | right; apply drop_In in H; apply H].
      - intros x n Hg Hin. apply in_app_or in Hin. apply in_or_app.
        destruct Hin as [H|H]; [left; exact H | right; apply drop_In; split; [exact H|]].
        intros Hk. rewrite (Hfr x Hk) in Hg. discriminate. }
    unfold do_copy. unfold copy_keys in *.
    destruct (find e (wmem w)) as [te|] eqn:Fe; [|exact Rref].
    destruct (find q (wmem w)) as [sq|] eqn:Fq; [|exact Rref].
    destruct (negb (can_hold (fst q) (fst e)) || mem_key q (keys_of te) || key_eqb e rootkey); [exact Rref|].
    destruct (copy_sub te ids) as [[t' [|i r]]|] eqn:Ec; try exact Rref.
    destruct (existsb (fun k => mem_key k (keys_of (wmem w))) (keys_of t')) eqn:Ex; [exact Rref|]. simpl.
    destruct (copy_sub_nodup _ _ _ Ec Hn (rep_find_rows _ _ _ _ _ R Fe)) as [Hnd Hpg].
    change (filter (fun k => negb (mem_key k (keys_of t'))) (wpend w)) with (drop (keys_of t') (wpend w)).
    rewrite <- drop_app. eapply rep_copy; try eassumption.
    intros x Hx. split; [|apply Hfr; exact Hx].
    intros Hin. assert (E : existsb (fun k => mem_key k (keys_of (wmem w))) (keys_of t') = true).
    { apply existsb_exists. exists x. split; [exact Hx | apply mem_key_In; exact Hin]. }
    congruence.
Qed.

Lemma next_orph_nonKG w o orph : (forall k, In k orph -> nonKG k = true) ->
  forall k, In k (next_orph w o orph) -> nonKG k = true.
Proof.
  intros H k Hk. destruct o; unfold next_orph in Hk; try (apply H; exact Hk).
  - apply rm_key_In in Hk. apply H. apply Hk.
  - apply in_app_or in Hk. destruct Hk as [Hk|Hk]; [apply filter_In in Hk; apply Hk | apply H; exact Hk].
  - apply drop_In in Hk. apply H. apply Hk.
Qed.

(* ---- histories ---- *)
Fixpoint orph_run (ops : list op) (w : ws) (orph : list key) : list key :=
  match ops with
  | [] => orph
  | o :: r => orph_run r (fst (step w o)) (next_orph w o orph)
  end.

Lemma run_cons o r w : run (o :: r) w = run r (fst (step w o)).
Proof. reflexivity. Qed.

Lemma rep_run_from ops : forall w orph, Rep (wmem w) (wfile w) (wpend w ++ orph) -> fresh_run ops w = true ->
  Rep (wmem (run ops w)) (wfile (run ops w)) (wpend (run ops w) ++ orph_run ops w orph).
Proof.
  induction ops as [|o r IH]; intros w orph R Hf; [exact R|].
  simpl in Hf. apply andb_true_iff in Hf. destruct Hf as [H1 H2]. rewrite run_cons. simpl orph_run.
  apply IH; [apply rep_step_gen; assumption | exact H2].
Qed.

Lemma orph_run_nonKG ops : forall w orph, (forall k, In k orph -> nonKG k = true) ->
  forall k, In k (orph_run ops w orph) -> nonKG k = true.
Proof.
  induction ops as [|o r IH]; intros w orph H; [exact H|]. simpl. apply IH. apply next_orph_nonKG. exact H.
Qed.

Lemma next_orph_clean w o : clean_op w o = true -> next_orph w o [] = [].
Proof.
  destruct o; simpl; intros H; try reflexivity. rewrite app_nil_r.
  induction (wpend w) as [|x l IH]; simpl in *; [reflexivity|].
  apply andb_true_iff in H. destruct H as [H1 H2]. unfold nonKG at 1. rewrite H1. simpl. apply IH. exact H2.
Qed.

Lemma orph_run_clean ops : forall w, clean_run ops w = true -> orph_run ops w [] = [].
Proof.
  induction ops as [|o r IH]; intros w H; [reflexivity|]. simpl in *.
  apply andb_true_iff in H. destruct H as [H1 H2]. rewrite next_orph_clean by exact H1. apply IH. exact H2.
Qed.

Lemma rep_init_app : Rep (wmem init) (wfile init) (wpend init ++ []).
Proof. exact rep_init. Qed.

(* valid up to the orphans: pending dead identifiers plus object/data orphans forgotten by a re-open *)
Theorem rep_run_orphans : forall ops, fresh_run ops init = true ->
  let w := run ops init in
  exists orph, (forall k, In k orph -> fst k <> KG) /\ Rep (wmem w) (wfile w) (wpend w ++ orph).
Proof.
  intros ops Hf w. exists (orph_run ops init []). split.
  - intros k Hk E. pose proof (orph_run_nonKG ops init [] (fun k H => match H with end) k Hk) as Hn.
    unfold nonKG in Hn. rewrite E in Hn. discriminate.
  - apply rep_run_from; [exact rep_init_app | exact Hf].
Qed.

Theorem rep_step : forall w o, Rep (wmem w) (wfile w) (wpend w) -> fresh_op w o = true -> clean_op w o = true ->
  Rep (wmem (fst (step w o))) (wfile (fst (step w o))) (wpend (fst (step w o))).
Proof.
  intros w o R Hf Hc. rewrite <- (app_nil_r (wpend w)) in R.
  pose proof (rep_step_gen w o [] R Hf) as R'. rewrite next_orph_clean in R' by exact Hc.
  rewrite app_nil_r in R'. exact R'.
Qed.

Theorem rep_run : forall ops, fresh_run ops init = true -> clean_run ops init = true ->
  let w := run ops init in Rep (wmem w) (wfile w) (wpend w).
Proof.
  intros ops Hf Hc w. pose proof (rep_run_from ops init [] rep_init_app Hf) as R.
  rewrite orph_run_clean in R by exact Hc. rewrite app_nil_r in R. exact R.
Qed.

(* C01 *)
Theorem reopen_equiv : forall ops, fresh_run ops init = true ->
  let w := run ops init in
  snd (step w Reopen) = Done /\ tree_equiv (wmem (fst (step w Reopen))) (wmem w).
Proof.
  intros ops Hf w. pose proof (rep_run_from ops init [] rep_init_app Hf) as R.
  destruct (rep_reopen _ _ R) as [H1 [H2 _]]. split; assumption.
Qed.

(* C02 *)
Lemma close_valid_gen w orph : Rep (wmem w) (wfile w) (wpend w ++ orph) ->
  (forall k, In k orph -> nonKG k = true) ->
  (forall k n, fget k (flat (wfile w)) = Some n -> fst k <> KG -> In k (keys_of (wmem w))) ->
  Valid (wfile (close_file w)).
Proof.
  intros R Hn H.
  destruct (close_file_rep_file w _ R) as [Hf _]. { intros k Hk; apply in_or_app; left; exact Hk. }
  pose proof (rep_sweep w KG orph R) as R1. rewrite Hf. exists (wmem w).
  eapply rep_pend_change; [exact R1 | intros k [] |].
  intros k n Hg Hin. exfalso.
  assert (Hk : nonKG k = true).
  { apply in_app_or in Hin. destruct Hin as [Hin|Hin]; [apply filter_In in Hin; apply Hin | apply Hn; exact Hin]. }
  apply (rep_pend _ _ _ R1 k Hin). apply (H k n).
  - unfold sweep_file in Hg. apply del_all_Some in Hg; [apply Hg | exact (rep_flatnd _ _ _ R)].
  - intros E. unfold nonKG in Hk. rewrite E in Hk. discriminate.
Qed.

Theorem close_valid_nolinger : forall ops, fresh_run ops init = true ->
  let w := run ops init in
  (forall k n, fget k (flat (wfile w)) = Some n -> fst k <> KG -> In k (keys_of (wmem w))) ->
  Valid (wfile (close_file w)).
Proof.
  intros ops Hf w H. pose proof (rep_run_from ops init [] rep_init_app Hf) as R.
  eapply close_valid_gen; [exact R | | exact H].
  apply orph_run_nonKG. intros k [].
Qed.

Theorem close_valid : forall ops, fresh_run ops init = true -> clean_run ops init = true ->
  let w := run ops init in
  (forall k, In k (wpend w) -> fst k = KG) ->
  Valid (wfile (close_file w)).
Proof.
  intros ops Hf Hc w Hp. pose proof (rep_run ops Hf Hc) as R. cbv zeta in R. fold w in R.
  assert (R0 : Rep (wmem w) (wfile w) (wpend w ++ [])) by (rewrite app_nil_r; exact R). clear R. rename R0 into R.
  destruct (close_file_rep_file w _ R) as [Hfile _]. { intros k Hk; apply in_or_app; left; exact Hk. }
  pose proof (rep_sweep w KG [] R) as R1. rewrite Hfile. exists (wmem w).
  eapply rep_pend_change; [exact R1 | intros k [] |].
  intros k n _ Hin. rewrite app_nil_r in Hin. apply filter_In in Hin. destruct Hin as [Hin Hk].
  rewrite (Hp k Hin) in Hk. discriminate.
Qed.


(* ======================================================================================================== *)
(* Full-strength statements that the faithful model refutes, with concrete witnesses                         *)
(* ======================================================================================================== *)

(* C01 without the freshness side condition *)
Definition C01_full : Prop :=
  forall ops, let w := run ops init in tree_equiv (wmem (fst (step w Reopen))) (wmem w).

(* group G1, object O2 under it with data D3, O2 removed through its parent (flat node stays), O2 created again with
   other attributes: write_entity keeps the stale node, re-opening resurrects the old name / array / child *)
Definition ops_stale : list op :=
  [Create KG 1 rootkey 10 0; Create KO 2 (KG, 1%N) 5 6; Create KD 3 (KO, 2%N) 7 8;
   RemoveParent (KO, 2%N); Create KO 2 (KG, 1%N) 50 60].

Theorem C01_full_refuted : ~ C01_full.
Proof.
  intros H. specialize (H ops_stale). cbv zeta in H.
  destruct (rows_equiv _ _ H ((KO, 2%N), {| aname := 5; adel := true; aarr := 6; apgs := [] |}, [(KD, 3%N)]))
    as [r [Hr [E1 [E2 _]]]].
  - vm_compute. right. right. left. reflexivity.
  - vm_compute in Hr. destruct Hr as [<-|[<-|[<-|[]]]]; vm_compute in E1; try discriminate E1.
    destruct E2 as [E2 _]. vm_compute in E2. discriminate E2.
Qed.

Lemma ops_stale_not_fresh : fresh_run ops_stale init = false.
Proof. vm_compute. reflexivity. Qed.

(* C02 without side conditions *)
Definition C02_full : Prop := forall ops, Valid (wfile (close_file (run ops init))).

Lemma nonroot_has_parent t x : In x (keys_of t) -> x <> tkey t -> exists r, In r (rows t) /\ In x (rkids r).
Proof.
  induction t as [k a l IH] using tree_ind'. rewrite keys_of_eq. simpl. intros [E|Hx] Hne; [congruence|].
  apply in_flat_map in Hx. destruct Hx as [c [Hc Hx]].
  destruct (key_dec x (tkey c)) as [->|Hn].
  - exists (k, a, map tkey l). split; [left; reflexivity | apply in_map; exact Hc].
  - rewrite Forall_forall in IH. destruct (IH c Hc Hx Hn) as [r [Hr Hk]]. exists r. split; [|exact Hk].
    right. apply in_flat_map. exists c. split; assumption.
Qed.

(* a stored node that no stored node links to, other than Root, makes the file invalid *)
Lemma not_valid_orphan f x : (exists n, fget x (flat f) = Some n) -> x <> rootkey ->
  (forall k n, In (k, n) (flat f) -> ~ In x (map fst (flinks n))) -> ~ Valid f.
Proof.
  intros [n E] Hne Hno [t R].
  destruct (rep_only _ _ _ R _ _ E) as [Hx|[]].
  destruct (nonroot_has_parent t x Hx) as [r [Hr Hk]]; [rewrite (rep_root _ _ _ R); exact Hne|].
  destruct (rep_rows _ _ _ R r Hr) as [n' [Hg [_ [_ [Hkk _]]]]]. apply Hkk in Hk.
  apply fget_pair_In in Hg. exact (Hno _ _ Hg Hk).
Qed.

(* an object removed through its parent and never listed: close sweeps groups only *)
Definition ops_orphan : list op := [Create KO 1 rootkey 1 1; RemoveParent (KO, 1%N)].

Theorem C02_full_refuted : ~ C02_full.
Proof.
  intros H. specialize (H ops_orphan). revert H. apply not_valid_orphan with (x := (KO, 1%N)).
  - vm_compute. eexists. reflexivity.
  - discriminate.
  - intros k n Hin. vm_compute in Hin. destruct Hin as [Hin|[Hin|[]]]; inversion Hin; subst; simpl; tauto.
Qed.

(* the invariant with exactly the pending identifiers, and the close theorem under "only groups are pending", as first
   stated: refuted by a re-open that forgets a pending object *)
Definition rep_run_full : Prop :=
  forall ops, fresh_run ops init = true -> let w := run ops init in Rep (wmem w) (wfile w) (wpend w).
Definition close_valid_full : Prop :=
  forall ops, fresh_run ops init = true -> let w := run ops init in
  (forall k, In k (wpend w) -> fst k = KG) -> Valid (wfile (close_file w)).

Definition ops_forgot : list op := [Create KO 1 rootkey 1 1; RemoveParent (KO, 1%N); Reopen].

Lemma ops_forgot_fresh : fresh_run ops_forgot init = true.
Proof. vm_compute. reflexivity. Qed.

Theorem rep_run_full_refuted : ~ rep_run_full.
Proof.
  intros H. pose proof (H ops_forgot ops_forgot_fresh) as R. cbv zeta in R.
  assert (E : exists n, fget (KO, 1%N) (flat (wfile (run ops_forgot init))) = Some n) by (vm_compute; eexists; reflexivity).
  destruct E as [n E]. destruct (rep_only _ _ _ R _ _ E) as [Hx|Hx]; vm_compute in Hx.
  - destruct Hx as [Hx|[]]. discriminate Hx.
  - exact Hx.
Qed.

Theorem close_valid_full_refuted : ~ close_valid_full.
Proof.
  intros H. pose proof (H ops_forgot ops_forgot_fresh) as V. cbv zeta in V.
  assert (Hp : forall k, In k (wpend (run ops_forgot init)) -> fst k = KG) by (intros k Hk; vm_compute in Hk; destruct Hk).
  specialize (V Hp). revert V. apply not_valid_orphan with (x := (KO, 1%N)).
  - vm_compute. eexists. reflexivity.
  - discriminate.
  - intros k n Hin. vm_compute in Hin. destruct Hin as [Hin|[Hin|[]]]; inversion Hin; subst; simpl; tauto.
Qed.

(* ---- the one-step invariant as first stated (without [clean_op]) is refuted as well ---- *)
Definition rep_step_full : Prop :=
  forall w o, Rep (wmem w) (wfile w) (wpend w) -> fresh_op w o = true ->
  Rep (wmem (fst (step w o))) (wfile (fst (step w o))) (wpend (fst (step w o))).

Theorem rep_step_full_refuted : ~ rep_step_full.
Proof.
  intros H. apply rep_run_full_refuted. intros ops.
  assert (G : forall w, Rep (wmem w) (wfile w) (wpend w) -> fresh_run ops w = true ->
              Rep (wmem (run ops w)) (wfile (run ops w)) (wpend (run ops w))).
  { induction ops as [|o r IH]; intros w R Hf; [exact R|].
    simpl in Hf. apply andb_true_iff in Hf. destruct Hf as [H1 H2]. rewrite run_cons.
    apply IH; [apply H; assumption | exact H2]. }
  intros Hf. apply G; [exact rep_init | exact Hf].
Qed.

(* ---- C09 at every state reached by a history without stale identifier re-use ---- *)
Theorem step_frame_run : forall ops o x, fresh_run ops init = true ->
  let w := run ops init in
  ~ In x (footprint_rep w o) ->
  fget x (flat (wfile (fst (step w o)))) = fget x (flat (wfile w)).
Proof.
  intros ops o x Hf w Hx. pose proof (rep_run_from ops init [] rep_init_app Hf) as R.
  eapply step_frame_rep_gen; [exact R | | exact Hx].
  intros k Hk. apply in_or_app. left. exact Hk.
Qed.

(* ======================================================================================================== *)
(* Non-vacuity                                                                                               *)
(* ======================================================================================================== *)
(* two groups, an object with two data and two property groups, a copy of that object (own identifier, two data, two
   groups), rename, move of the object, removal of a data through the workspace (one group loses a member, the other is
   emptied and deleted), move of a data to the copy (its last group is emptied), a group removed through its parent and
   swept, a non-deletable object, removal of a property group, a re-open, a removal through the workspace that raises
   half-way, a complete removal *)
Definition ops_demo : list op :=
  [Create KG 1 rootkey 10 0; Create KG 2 rootkey 11 0; Create KO 3 (KG, 1%N) 12 1; Create KD 4 (KO, 3%N) 13 2;
   Create KD 7 (KO, 3%N) 16 4;
   PgAdd (KO, 3%N) 100 77 [(KD, 4%N); (KD, 7%N)];
   PgAdd (KO, 3%N) 101 78 [(KD, 7%N)];
   Copy (KO, 3%N) (KG, 2%N) [20; 21; 22; 23; 24]%N;
   SetName (KO, 3%N) 99; Move (KO, 3%N) (KG, 2%N);
   RemoveWs (KD, 7%N);
   Move (KD, 4%N) (KO, 20%N);
   Create KG 5 (KG, 1%N) 14 0; RemoveParent (KG, 5%N); Sweep KG;
   Create KO 6 (KG, 2%N) 15 3; SetDel (KO, 6%N) false;
   PgRemove (KO, 20%N) 24;
   Reopen;
   RemoveWs (KG, 2%N); RemoveWs (KG, 1%N)].

Lemma ops_demo_ok :
  fresh_run ops_demo init = true /\ clean_run ops_demo init = true /\
  map (fun n => snd (step (run (firstn n ops_demo) init) (nth n ops_demo Reopen))) (seq 0 21)
  = [Done; Done; Done; Done; Done; Done; Done; Done; Done; Done; Done;
     Done; Done; Done; Done; Done; Done; Done; Done; Raised; Done].
Proof. vm_compute. repeat split. Qed.

Lemma ops_demo_rep : let w := run ops_demo init in Rep (wmem w) (wfile w) (wpend w).
Proof. apply rep_run; apply ops_demo_ok. Qed.

(* the data removal of step 10 empties group 101 and shrinks group 100; the copy of step 7 carries both groups *)
Lemma ops_demo_groups :
  apgs (tattrs (match find (KO, 20%N) (wmem (run (firstn 8 ops_demo) init)) with Some t => t | None => wmem init end))
  = [(23%N, 77%N, [(KD, 21%N); (KD, 22%N)]); (24%N, 78%N, [(KD, 22%N)])] /\
  apgs (tattrs (match find (KO, 3%N) (wmem (run (firstn 11 ops_demo) init)) with Some t => t | None => wmem init end))
  = [(100%N, 77%N, [(KD, 4%N)])].
Proof. vm_compute. split; reflexivity. Qed.

(* a pending dead group: the hypothesis of close_valid is met non-trivially *)
Definition ops_dead_group : list op := [Create KG 1 rootkey 1 0; Create KO 2 rootkey 2 1; RemoveParent (KG, 1%N)].

Lemma ops_dead_group_ok :
  fresh_run ops_dead_group init = true /\ clean_run ops_dead_group init = true /\
  wpend (run ops_dead_group init) = [(KG, 1%N)].
Proof. vm_compute. repeat split. Qed.
