(* Algebra of the flat-map file of Model/Ws.v: fget/fset/fdel, lget/ldel, and the effect of each w_* primitive. *)
From GV Require Import Prelude.Base Model.WsX Model.WsXSpec.

(* ---------------- keys ---------------- *)
Lemma kind_eqb_eq a b : kind_eqb a b = true <-> a = b.
Proof. destruct a, b; simpl; split; intros H; try reflexivity; try discriminate. Qed.

Lemma key_eqb_eq a b : key_eqb a b = true <-> a = b.
Proof.
  destruct a as [k1 n1], b as [k2 n2]; unfold key_eqb; simpl.
  rewrite andb_true_iff, kind_eqb_eq, N.eqb_eq.
  split; [intros [-> ->]; reflexivity | intros H; inversion H; auto].
Qed.

Lemma key_eqb_refl a : key_eqb a a = true.
Proof. apply key_eqb_eq; reflexivity. Qed.

Lemma key_eqb_neq a b : key_eqb a b = false <-> a <> b.
Proof. rewrite <- key_eqb_eq. destruct (key_eqb a b); split; congruence. Qed.

Lemma key_eqb_sym a b : key_eqb a b = key_eqb b a.
Proof.
  destruct (key_eqb a b) eqn:E; symmetry.
  - apply key_eqb_eq in E. subst. apply key_eqb_refl.
  - apply key_eqb_neq in E. apply key_eqb_neq. congruence.
Qed.

Lemma key_dec (a b : key) : {a = b} + {a <> b}.
Proof.
  destruct (key_eqb a b) eqn:E; [left; apply key_eqb_eq; exact E | right; apply key_eqb_neq; exact E].
Defined.

Ltac keq a b :=
  let E := fresh "E" in
  destruct (key_eqb a b) eqn:E; [apply key_eqb_eq in E | apply key_eqb_neq in E].

Lemma key_eqb_false a b : a <> b -> key_eqb a b = false.
Proof. apply key_eqb_neq. Qed.

Lemma mem_key_In x l : mem_key x l = true <-> In x l.
Proof.
  unfold mem_key. rewrite existsb_exists. split.
  - intros [y [Hy E]]. apply key_eqb_eq in E. subst. exact Hy.
  - intros H. exists x. split; [exact H | apply key_eqb_refl].
Qed.

Lemma mem_key_false x l : mem_key x l = false <-> ~ In x l.
Proof. rewrite <- mem_key_In. destruct (mem_key x l); split; congruence. Qed.

Lemma rm_key_In x l y : In y (rm_key x l) <-> In y l /\ y <> x.
Proof.
  unfold rm_key. rewrite filter_In. rewrite negb_true_iff, key_eqb_neq.
  split; intros [A B]; split; congruence.
Qed.

Lemma rm_key_app x l1 l2 : rm_key x (l1 ++ l2) = rm_key x l1 ++ rm_key x l2.
Proof. apply filter_app. Qed.

Lemma rm_key_notin x l : ~ In x l -> rm_key x l = l.
Proof.
  induction l as [|y r IH]; simpl; intros H; [reflexivity|].
  keq x y; simpl.
  - exfalso. apply H. left. congruence.
  - f_equal. apply IH. intros H1. apply H. right. exact H1.
Qed.

(* ---------------- fget / fset / fdel ---------------- *)
Lemma fget_fset x y n m : fget y (fset x n m) = if key_eqb y x then Some n else fget y m.
Proof.
  induction m as [|[k o] r IH]; simpl.
  - reflexivity.
  - keq x k; simpl.
    + subst k. destruct (key_eqb y x); reflexivity.
    + rewrite IH. keq y k; [|reflexivity].
      subst k. rewrite key_eqb_false by congruence. reflexivity.
Qed.

Lemma fget_fset_same x n m : fget x (fset x n m) = Some n.
Proof. rewrite fget_fset, key_eqb_refl. reflexivity. Qed.

Lemma fget_fset_other x y n m : y <> x -> fget y (fset x n m) = fget y m.
Proof. intros H. rewrite fget_fset, key_eqb_false by exact H. reflexivity. Qed.

Lemma fget_fdel_other x y m : y <> x -> fget y (fdel x m) = fget y m.
Proof.
  intros H. induction m as [|[k o] r IH]; simpl; [reflexivity|].
  keq x k; simpl.
  - subst k. rewrite key_eqb_false by exact H. reflexivity.
  - rewrite IH. reflexivity.
Qed.

Lemma fget_Some_In x m n : fget x m = Some n -> In x (map fst m).
Proof.
  induction m as [|[k o] r IH]; simpl; [discriminate|].
  keq x k; [left; congruence | intros H; right; apply IH; exact H].
Qed.

Lemma fget_In_Some x m : In x (map fst m) -> exists n, fget x m = Some n.
Proof.
  induction m as [|[k o] r IH]; simpl; [intros []|].
  intros H. keq x k; [eexists; reflexivity|].
  destruct H as [H|H]; [congruence | apply IH; exact H].
Qed.

Lemma fget_None_notin x m : fget x m = None <-> ~ In x (map fst m).
Proof.
  split.
  - intros H Hin. apply fget_In_Some in Hin. destruct Hin as [n Hn]. congruence.
  - intros H. destruct (fget x m) eqn:E; [|reflexivity]. exfalso. apply H. eapply fget_Some_In. exact E.
Qed.

Lemma fget_pair_In x m n : fget x m = Some n -> In (x, n) m.
Proof.
  induction m as [|[k o] r IH]; simpl; [discriminate|].
  keq x k; [intros H; left; congruence | intros H; right; apply IH; exact H].
Qed.

Lemma fdel_keys_In x y m : In y (map fst (fdel x m)) -> In y (map fst m).
Proof.
  induction m as [|[k o] r IH]; simpl; [intros []|].
  keq x k; simpl.
  - intros H. right. exact H.
  - intros [H|H]; [left; exact H | right; apply IH; exact H].
Qed.

Lemma fdel_keys_NoDup x m : NoDup (map fst m) -> NoDup (map fst (fdel x m)).
Proof.
  induction m as [|[k o] r IH]; simpl; intros H; [constructor|].
  inversion H as [|? ? Hn Hr]; subst.
  keq x k; simpl; [exact Hr|].
  constructor; [|apply IH; exact Hr].
  intros Hin. apply Hn. eapply fdel_keys_In. exact Hin.
Qed.

Lemma fget_fdel_same x m : NoDup (map fst m) -> fget x (fdel x m) = None.
Proof.
  induction m as [|[k o] r IH]; simpl; intros H; [reflexivity|].
  inversion H as [|? ? Hn Hr]; subst.
  keq x k; simpl.
  - subst k. apply fget_None_notin. exact Hn.
  - rewrite key_eqb_false by exact E. apply IH. exact Hr.
Qed.

Lemma fget_fdel x y m : NoDup (map fst m) ->
  fget y (fdel x m) = if key_eqb y x then None else fget y m.
Proof.
  intros H. keq y x.
  - subst y. apply fget_fdel_same. exact H.
  - apply fget_fdel_other. exact E.
Qed.

Lemma fset_keys_In x n m y : In y (map fst (fset x n m)) <-> y = x \/ In y (map fst m).
Proof.
  induction m as [|[k o] r IH]; simpl.
  - split; [intros [H|[]]; left; congruence | intros [H|[]]; left; congruence].
  - keq x k; simpl.
    + subst k. split; [intros [H|H]; [left; congruence | right; right; exact H]
                      | intros [H|[H|H]]; [left; congruence | left; exact H | right; exact H]].
    + rewrite IH. split; [intros [H|[H|H]]; auto | intros [H|[H|H]]; auto].
Qed.

Lemma fset_keys_NoDup x n m : NoDup (map fst m) -> NoDup (map fst (fset x n m)).
Proof.
  induction m as [|[k o] r IH]; simpl; intros H.
  - constructor; [intros [] | constructor].
  - inversion H as [|? ? Hn Hr]; subst.
    keq x k; simpl.
    + constructor; assumption.
    + constructor; [|apply IH; exact Hr].
      intros Hin. apply fset_keys_In in Hin. destruct Hin as [Hin|Hin]; [congruence | exact (Hn Hin)].
Qed.

Lemma fset_length_ge x n m : length m <= length (fset x n m).
Proof.
  induction m as [|[k o] r IH]; simpl; [lia|].
  destruct (key_eqb x k); simpl; lia.
Qed.

(* ---------------- lget / ldel ---------------- *)
Lemma lget_Some_In x l a : lget x l = Some a -> In (x, a) l.
Proof.
  induction l as [|[k o] r IH]; simpl; [discriminate|].
  keq x k; [intros H; left; congruence | intros H; right; apply IH; exact H].
Qed.

Lemma lget_In_Some x l : In x (map fst l) -> exists a, lget x l = Some a.
Proof.
  induction l as [|[k o] r IH]; simpl; [intros []|].
  intros H. keq x k; [eexists; reflexivity|].
  destruct H as [H|H]; [congruence | apply IH; exact H].
Qed.

Lemma lget_None_notin x l : lget x l = None <-> ~ In x (map fst l).
Proof.
  split.
  - intros H Hin. apply lget_In_Some in Hin. destruct Hin as [n Hn]. congruence.
  - intros H. destruct (lget x l) eqn:E; [|reflexivity]. exfalso. apply H.
    apply lget_Some_In in E. apply in_map with (f := fst) in E. exact E.
Qed.

Lemma ldel_In x l c ad : In (c, ad) (ldel x l) -> In (c, ad) l.
Proof.
  induction l as [|[k o] r IH]; simpl; [intros []|].
  keq x k; simpl.
  - intros H. right. exact H.
  - intros [H|H]; [left; exact H | right; apply IH; exact H].
Qed.

Lemma ldel_keys_In x l c : NoDup (map fst l) -> (In c (map fst (ldel x l)) <-> c <> x /\ In c (map fst l)).
Proof.
  induction l as [|[k o] r IH]; simpl; intros H.
  - split; [intros [] | intros [_ []]].
  - inversion H as [|? ? Hn Hr]; subst.
    keq x k; simpl.
    + subst k. split.
      * intros Hc. split; [intros ->; exact (Hn Hc) | right; exact Hc].
      * intros [Hne [Hc|Hc]]; [congruence | exact Hc].
    + rewrite (IH Hr). split.
      * intros [Hc|[Hne Hc]]; [split; [congruence | left; exact Hc] | split; [exact Hne | right; exact Hc]].
      * intros [Hne [Hc|Hc]]; [left; exact Hc | right; split; assumption].
Qed.

Lemma ldel_keys_NoDup x l : NoDup (map fst l) -> NoDup (map fst (ldel x l)).
Proof.
  induction l as [|[k o] r IH]; simpl; intros H; [constructor|].
  inversion H as [|? ? Hn Hr]; subst.
  keq x k; simpl; [exact Hr|].
  constructor; [|apply IH; exact Hr].
  intros Hin. apply (ldel_keys_In x r k Hr) in Hin. destruct Hin as [_ Hin]. exact (Hn Hin).
Qed.

Lemma ldel_notin x l : ~ In x (map fst l) -> ldel x l = l.
Proof.
  induction l as [|[k o] r IH]; simpl; intros H; [reflexivity|].
  keq x k.
  - exfalso. apply H. left. congruence.
  - f_equal. apply IH. intros H1. apply H. right. exact H1.
Qed.

(* ---------------- primitives: rootlink, frame ---------------- *)
Lemma w_entity_rootlink x a f : rootlink (w_entity x a f) = rootlink f.
Proof. unfold w_entity. destruct (fget x (flat f)); reflexivity. Qed.
Lemma w_link_rootlink p x f : rootlink (w_link p x f) = rootlink f.
Proof.
  unfold w_link. destruct (fget p (flat f)) as [pn|]; [|reflexivity].
  destruct (fget x (flat f)) as [xn|]; [|reflexivity].
  destruct (lget x (flinks pn)); reflexivity.
Qed.
Lemma w_unlink_rootlink p x f : rootlink (w_unlink p x f) = rootlink f.
Proof. unfold w_unlink. destruct (fget p (flat f)); reflexivity. Qed.
Lemma w_delete_rootlink x f : rootlink (w_delete x f) = rootlink f.
Proof. reflexivity. Qed.
Lemma w_scalars_rootlink x a f : rootlink (w_scalars x a f) = rootlink f.
Proof. unfold w_scalars. destruct (fget x (flat f)); reflexivity. Qed.
Lemma w_array_rootlink x a f : rootlink (w_array x a f) = rootlink f.
Proof. unfold w_array. destruct (fget x (flat f)); reflexivity. Qed.

Lemma w_entity_frame x a f y : y <> x -> fget y (flat (w_entity x a f)) = fget y (flat f).
Proof.
  intros H. unfold w_entity. destruct (fget x (flat f)); simpl; [reflexivity|].
  apply fget_fset_other. exact H.
Qed.
Lemma w_link_frame p x f y : y <> p -> fget y (flat (w_link p x f)) = fget y (flat f).
Proof.
  intros H. unfold w_link. destruct (fget p (flat f)) as [pn|]; [|reflexivity].
  destruct (fget x (flat f)) as [xn|]; [|reflexivity].
  destruct (lget x (flinks pn)); simpl; [reflexivity|].
  apply fget_fset_other. exact H.
Qed.
Lemma w_unlink_frame p x f y : y <> p -> fget y (flat (w_unlink p x f)) = fget y (flat f).
Proof.
  intros H. unfold w_unlink. destruct (fget p (flat f)); simpl; [|reflexivity].
  apply fget_fset_other. exact H.
Qed.
Lemma w_delete_frame x f y : y <> x -> fget y (flat (w_delete x f)) = fget y (flat f).
Proof. intros H. simpl. apply fget_fdel_other. exact H. Qed.
Lemma w_scalars_frame x a f y : y <> x -> fget y (flat (w_scalars x a f)) = fget y (flat f).
Proof.
  intros H. unfold w_scalars. destruct (fget x (flat f)); simpl; [|reflexivity].
  apply fget_fset_other. exact H.
Qed.
Lemma w_array_frame x a f y : y <> x -> fget y (flat (w_array x a f)) = fget y (flat f).
Proof.
  intros H. unfold w_array. destruct (fget x (flat f)); simpl; [|reflexivity].
  apply fget_fset_other. exact H.
Qed.

(* ---------------- primitives: NoDup of the flat keys ---------------- *)
Lemma w_entity_nodup x a f : NoDup (map fst (flat f)) -> NoDup (map fst (flat (w_entity x a f))).
Proof.
  intros H. unfold w_entity. destruct (fget x (flat f)); simpl; [exact H|]. apply fset_keys_NoDup. exact H.
Qed.
Lemma w_link_nodup p x f : NoDup (map fst (flat f)) -> NoDup (map fst (flat (w_link p x f))).
Proof.
  intros H. unfold w_link. destruct (fget p (flat f)) as [pn|]; [|exact H].
  destruct (fget x (flat f)) as [xn|]; [|exact H].
  destruct (lget x (flinks pn)); simpl; [exact H|]. apply fset_keys_NoDup. exact H.
Qed.
Lemma w_unlink_nodup p x f : NoDup (map fst (flat f)) -> NoDup (map fst (flat (w_unlink p x f))).
Proof.
  intros H. unfold w_unlink. destruct (fget p (flat f)); simpl; [|exact H]. apply fset_keys_NoDup. exact H.
Qed.
Lemma w_delete_nodup x f : NoDup (map fst (flat f)) -> NoDup (map fst (flat (w_delete x f))).
Proof. intros H. simpl. apply fdel_keys_NoDup. exact H. Qed.
Lemma w_scalars_nodup x a f : NoDup (map fst (flat f)) -> NoDup (map fst (flat (w_scalars x a f))).
Proof.
  intros H. unfold w_scalars. destruct (fget x (flat f)); simpl; [|exact H]. apply fset_keys_NoDup. exact H.
Qed.
Lemma w_array_nodup x a f : NoDup (map fst (flat f)) -> NoDup (map fst (flat (w_array x a f))).
Proof.
  intros H. unfold w_array. destruct (fget x (flat f)); simpl; [|exact H]. apply fset_keys_NoDup. exact H.
Qed.

(* ---------------- primitives: exact effect on the touched node ---------------- *)
Lemma w_unlink_same p x f pn : fget p (flat f) = Some pn ->
  fget p (flat (w_unlink p x f)) = Some {| fattrs := fattrs pn; faddr := faddr pn; flinks := ldel x (flinks pn) |}.
Proof. intros H. unfold w_unlink. rewrite H. simpl. apply fget_fset_same. Qed.

Lemma w_delete_same x f : NoDup (map fst (flat f)) -> fget x (flat (w_delete x f)) = None.
Proof. intros H. simpl. apply fget_fdel_same. exact H. Qed.

Lemma w_entity_new x a f : fget x (flat f) = None ->
  fget x (flat (w_entity x a f)) = Some {| fattrs := a; faddr := next f; flinks := [] |}.
Proof. intros H. unfold w_entity. rewrite H. simpl. apply fget_fset_same. Qed.

Lemma w_entity_old x a f n : fget x (flat f) = Some n -> w_entity x a f = f.
Proof. intros H. unfold w_entity. rewrite H. reflexivity. Qed.

Lemma w_link_new p x f pn xn : fget p (flat f) = Some pn -> fget x (flat f) = Some xn -> lget x (flinks pn) = None ->
  fget p (flat (w_link p x f))
  = Some {| fattrs := fattrs pn; faddr := faddr pn; flinks := flinks pn ++ [(x, faddr xn)] |}.
Proof. intros H1 H2 H3. unfold w_link. rewrite H1, H2, H3. simpl. apply fget_fset_same. Qed.

Lemma w_link_old p x f pn xn ad : fget p (flat f) = Some pn -> fget x (flat f) = Some xn -> lget x (flinks pn) = Some ad ->
  w_link p x f = f.
Proof. intros H1 H2 H3. unfold w_link. rewrite H1, H2, H3. reflexivity. Qed.

(* deleting a list of keys *)
Definition del_all (d : list key) (f : file) : file := fold_left (fun f x => w_delete x f) d f.

Lemma del_all_cons x d f : del_all (x :: d) f = del_all d (w_delete x f).
Proof. reflexivity. Qed.

Lemma del_all_rootlink d f : rootlink (del_all d f) = rootlink f.
Proof. revert f. induction d as [|x r IH]; intros f; [reflexivity|]. rewrite del_all_cons, IH. reflexivity. Qed.

Lemma del_all_frame d f y : ~ In y d -> fget y (flat (del_all d f)) = fget y (flat f).
Proof.
  revert f. induction d as [|x r IH]; intros f H; [reflexivity|].
  rewrite del_all_cons, IH by (intros H1; apply H; right; exact H1).
  apply w_delete_frame. intros ->. apply H. left. reflexivity.
Qed.

Lemma del_all_nodup d f : NoDup (map fst (flat f)) -> NoDup (map fst (flat (del_all d f))).
Proof.
  revert f. induction d as [|x r IH]; intros f H; [exact H|].
  rewrite del_all_cons. apply IH. apply w_delete_nodup. exact H.
Qed.

Lemma del_all_gone d f y : NoDup (map fst (flat f)) -> In y d -> fget y (flat (del_all d f)) = None.
Proof.
  revert f. induction d as [|x r IH]; intros f H Hin; [destruct Hin|].
  rewrite del_all_cons.
  destruct (in_dec key_dec y r) as [Hr|Hr].
  - apply IH; [apply w_delete_nodup; exact H | exact Hr].
  - destruct Hin as [->|Hin]; [|contradiction].
    rewrite (del_all_frame r (w_delete y f) y Hr). apply w_delete_same. exact H.
Qed.

Lemma del_all_Some d f y n : NoDup (map fst (flat f)) -> fget y (flat (del_all d f)) = Some n ->
  ~ In y d /\ fget y (flat f) = Some n.
Proof.
  intros H E. destruct (in_dec key_dec y d) as [Hd|Hd].
  - rewrite (del_all_gone d f y H Hd) in E. discriminate.
  - split; [exact Hd|]. rewrite del_all_frame in E by exact Hd. exact E.
Qed.

(* ======================================================================================================== *)
(* Property groups: list algebra                                                                             *)
(* ======================================================================================================== *)
From Coq Require Import Permutation.

Definition pgs_equiv (M F : list pgroup) : Prop := (forall g, In g M <-> In g F) /\ length M = length F.

Lemma pgs_equiv_refl M : pgs_equiv M M.
Proof. split; [intros g; tauto | reflexivity]. Qed.
Lemma pgs_equiv_sym M F : pgs_equiv M F -> pgs_equiv F M.
Proof. intros [H1 H2]. split; [intros g; symmetry; apply H1 | congruence]. Qed.
Lemma pgs_equiv_trans A B C : pgs_equiv A B -> pgs_equiv B C -> pgs_equiv A C.
Proof. intros [H1 H2] [H3 H4]. split; [intros g; rewrite H1; apply H3 | congruence]. Qed.

Lemma attrs_equiv_refl a : attrs_equiv a a.
Proof. repeat split; intros; assumption. Qed.
Lemma attrs_equiv_sym a b : attrs_equiv a b -> attrs_equiv b a.
Proof.
  intros [H1 [H2 [H3 [H4 H5]]]]. split; [congruence|]. split; [congruence|]. split; [congruence|].
  split; [intros g; symmetry; apply H4 | congruence].
Qed.
Lemma attrs_equiv_trans a b c : attrs_equiv a b -> attrs_equiv b c -> attrs_equiv a c.
Proof.
  intros [H1 [H2 [H3 [H4 H5]]]] [G1 [G2 [G3 [G4 G5]]]]. split; [congruence|]. split; [congruence|]. split; [congruence|].
  split; [intros g; rewrite H4; apply G4 | congruence].
Qed.
Lemma attrs_equiv_pgs a b : attrs_equiv a b -> pgs_equiv (apgs a) (apgs b).
Proof. intros [_ [_ [_ H]]]. exact H. Qed.
Lemma attrs_equiv_with a b M F : attrs_equiv a b -> pgs_equiv M F -> attrs_equiv (with_pgs a M) (with_pgs b F).
Proof. intros [H1 [H2 [H3 _]]] [G1 G2]. repeat split; simpl; try assumption; apply G1. Qed.

Lemma with_pgs_id a : with_pgs a (apgs a) = a.
Proof. destruct a; reflexivity. Qed.

Lemma nodup_ids_nodup (L : list pgroup) : NoDup (map pg_id L) -> NoDup L.
Proof. apply NoDup_map_inv. Qed.

Lemma nodup_equiv_len {A} (l1 l2 : list A) : NoDup l1 -> NoDup l2 -> (forall x, In x l1 <-> In x l2) -> length l1 = length l2.
Proof. intros H1 H2 H. apply Permutation_length. apply NoDup_Permutation; assumption. Qed.

Lemma pgs_equiv_perm M F : NoDup (map pg_id M) -> pgs_equiv M F -> Permutation M F.
Proof.
  intros Hn [H1 H2]. apply NoDup_Permutation_bis; [apply nodup_ids_nodup; exact Hn | rewrite H2; apply le_n |].
  intros g Hg. apply H1. exact Hg.
Qed.

Lemma pgs_equiv_ids M F : NoDup (map pg_id M) -> pgs_equiv M F -> NoDup (map pg_id F).
Proof.
  intros Hn He. eapply Permutation_NoDup; [apply Permutation_map; apply pgs_equiv_perm; eassumption | exact Hn].
Qed.

Lemma pgs_equiv_of_nodup M F : NoDup (map pg_id M) -> NoDup (map pg_id F) -> (forall g, In g M <-> In g F) -> pgs_equiv M F.
Proof.
  intros H1 H2 H. split; [exact H|]. apply nodup_equiv_len; [apply nodup_ids_nodup; exact H1 | apply nodup_ids_nodup; exact H2 | exact H].
Qed.

Lemma ids_inj (L : list pgroup) g h : NoDup (map pg_id L) -> In g L -> In h L -> pg_id g = pg_id h -> g = h.
Proof.
  induction L as [|x r IH]; simpl; intros H Ha Hb E; [destruct Ha|].
  inversion H as [|? ? Hn Hr]; subst.
  destruct Ha as [->|Ha], Hb as [->|Hb].
  - reflexivity.
  - exfalso. apply Hn. rewrite E. apply in_map. exact Hb.
  - exfalso. apply Hn. rewrite <- E. apply in_map. exact Ha.
  - apply IH; assumption.
Qed.

(* ---- pg_put ---- *)
Lemma pg_put_ids_In g L x : In x (map pg_id (pg_put g L)) <-> x = pg_id g \/ In x (map pg_id L).
Proof.
  induction L as [|h r IH]; simpl.
  - split; [intros [H|[]]; left; congruence | intros [H|[]]; left; congruence].
  - destruct (N.eqb (pg_id h) (pg_id g)) eqn:E; simpl.
    + apply N.eqb_eq in E. split; [intros [H|H]; [left; congruence | right; right; exact H]
                                  | intros [H|[H|H]]; [left; congruence | left; congruence | right; exact H]].
    + rewrite IH. tauto.
Qed.

Lemma pg_put_ids_nodup g L : NoDup (map pg_id L) -> NoDup (map pg_id (pg_put g L)).
Proof.
  induction L as [|h r IH]; simpl; intros H.
  - constructor; [intros [] | constructor].
  - inversion H as [|? ? Hn Hr]; subst. destruct (N.eqb (pg_id h) (pg_id g)) eqn:E; simpl.
    + apply N.eqb_eq in E. constructor; [rewrite <- E; exact Hn | exact Hr].
    + apply N.eqb_neq in E. constructor; [|apply IH; exact Hr].
      intros Hin. apply pg_put_ids_In in Hin. destruct Hin as [Hin|Hin]; [congruence | exact (Hn Hin)].
Qed.

Lemma pg_put_In g L h : NoDup (map pg_id L) -> (In h (pg_put g L) <-> h = g \/ (In h L /\ pg_id h <> pg_id g)).
Proof.
  induction L as [|x r IH]; simpl; intros H.
  - split; [intros [E|[]]; left; congruence | intros [E|[[] _]]; left; congruence].
  - inversion H as [|? ? Hn Hr]; subst. destruct (N.eqb (pg_id x) (pg_id g)) eqn:E; simpl.
    + apply N.eqb_eq in E. split.
      * intros [Hh|Hh]; [left; congruence|]. right. split; [right; exact Hh|].
        intros E2. apply Hn. rewrite E, <- E2. apply in_map. exact Hh.
      * intros [Hh|[[Hh|Hh] Hne]]; [left; congruence | congruence | right; exact Hh].
    + apply N.eqb_neq in E. rewrite (IH Hr). split.
      * intros [Hh|[Hh|[Hh Hne]]]; [right; split; [left; exact Hh | congruence] | left; exact Hh | right; split; [right; exact Hh | exact Hne]].
      * intros [Hh|[[Hh|Hh] Hne]]; [right; left; exact Hh | left; exact Hh | right; right; split; assumption].
Qed.

Lemma pg_put_fresh g L : ~ In (pg_id g) (map pg_id L) -> pg_put g L = L ++ [g].
Proof.
  induction L as [|x r IH]; simpl; intros H; [reflexivity|].
  destruct (N.eqb (pg_id x) (pg_id g)) eqn:E.
  - apply N.eqb_eq in E. exfalso. apply H. left. exact E.
  - f_equal. apply IH. intros Hin. apply H. right. exact Hin.
Qed.

(* ---- pg_del ---- *)
Lemma pg_del_In i L h : In h (pg_del i L) <-> In h L /\ pg_id h <> i.
Proof. unfold pg_del. rewrite filter_In, negb_true_iff, N.eqb_neq. tauto. Qed.

Lemma nodup_map_filter {A B} (f : A -> B) (p : A -> bool) l : NoDup (map f l) -> NoDup (map f (filter p l)).
Proof.
  induction l as [|x r IH]; simpl; intros H; [constructor|].
  inversion H as [|? ? Hn Hr]; subst. destruct (p x); simpl; [|apply IH; exact Hr].
  constructor; [|apply IH; exact Hr]. intros Hin. apply Hn.
  apply in_map_iff in Hin. destruct Hin as [y [Ey Hy]]. apply filter_In in Hy. rewrite <- Ey. apply in_map. apply Hy.
Qed.

Lemma pg_del_ids_nodup i L : NoDup (map pg_id L) -> NoDup (map pg_id (pg_del i L)).
Proof. apply nodup_map_filter. Qed.

(* ---- rm_member, add_new ---- *)
Lemma rm_member_cons c h r : rm_member c (h :: r) = if key_eqb c h then r else h :: rm_member c r.
Proof. reflexivity. Qed.

Lemma rm_member_In c l m : NoDup l -> (In m (rm_member c l) <-> In m l /\ m <> c).
Proof.
  induction l as [|h r IH]; intros H.
  - simpl. tauto.
  - inversion H as [|? ? Hn Hr]; subst. rewrite rm_member_cons. keq c h.
    + subst h. simpl. split; [intros Hm; split; [right; exact Hm | intros ->; exact (Hn Hm)] | intros [[E|Hm] Hne]; [congruence | exact Hm]].
    + simpl. rewrite (IH Hr). split; [intros [Hm|[Hm Hne]]; [split; [left; exact Hm | congruence] | split; [right; exact Hm | exact Hne]]
                                     | intros [[Hm|Hm] Hne]; [left; exact Hm | right; split; assumption]].
Qed.

Lemma rm_member_nodup c l : NoDup l -> NoDup (rm_member c l).
Proof.
  induction l as [|h r IH]; intros H; [constructor|].
  inversion H as [|? ? Hn Hr]; subst. rewrite rm_member_cons. keq c h; [exact Hr|].
  constructor; [|apply IH; exact Hr]. intros Hin. apply (rm_member_In c r h Hr) in Hin. apply Hn. apply Hin.
Qed.

Lemma add_new_In l new m : In m (add_new l new) <-> In m l \/ In m new.
Proof.
  revert l. induction new as [|h r IH]; intros l; simpl; [tauto|].
  destruct (mem_key h l) eqn:E.
  - rewrite IH. apply mem_key_In in E. split; [tauto | intros [H|[<-|H]]; auto].
  - rewrite IH, in_app_iff. simpl. tauto.
Qed.

Lemma nodup_snoc {A} (l : list A) h : NoDup l -> ~ In h l -> NoDup (l ++ [h]).
Proof.
  induction l as [|x r IH]; simpl; intros H Hn; [constructor; [intros [] | constructor]|].
  inversion H as [|? ? Hx Hr]; subst. constructor.
  - intros Hin. apply in_app_or in Hin. destruct Hin as [Hin|[Hin|[]]]; [exact (Hx Hin) | apply Hn; left; congruence].
  - apply IH; [exact Hr | intros Hin; apply Hn; right; exact Hin].
Qed.

Lemma add_new_nodup l new : NoDup l -> NoDup (add_new l new).
Proof.
  revert l. induction new as [|h r IH]; intros l H; simpl; [exact H|].
  destruct (mem_key h l) eqn:E; [apply IH; exact H|].
  apply IH. apply mem_key_false in E. apply nodup_snoc; assumption.
Qed.

(* ---- scrub: memory side (flat_map) and file side (fold of put / delete) ---- *)
Definition scrub1 (c : key) (g : pgroup) : option pgroup :=
  if mem_key c (pg_members g)
  then match rm_member c (pg_members g) with [] => None | ms => Some (pg_id g, pg_name g, ms) end
  else Some g.

Lemma scrub_In c L h : In h (scrub c L) <-> exists g, In g L /\ scrub1 c g = Some h.
Proof.
  unfold scrub. rewrite in_flat_map. unfold scrub1. split; intros [g [Hg H]]; exists g; (split; [exact Hg|]).
  - destruct (mem_key c (pg_members g)); [|destruct H as [<-|[]]; reflexivity].
    destruct (rm_member c (pg_members g)); [destruct H | destruct H as [<-|[]]; reflexivity].
  - destruct (mem_key c (pg_members g)); [|inversion H; left; reflexivity].
    destruct (rm_member c (pg_members g)); [discriminate | inversion H; left; reflexivity].
Qed.

Lemma scrub1_id c g h : scrub1 c g = Some h -> pg_id h = pg_id g.
Proof.
  unfold scrub1. destruct (mem_key c (pg_members g)); [|intros H; inversion H; reflexivity].
  destruct (rm_member c (pg_members g)); [discriminate | intros H; inversion H; reflexivity].
Qed.

Lemma scrub1_members c g h : NoDup (pg_members g) -> scrub1 c g = Some h ->
  NoDup (pg_members h) /\ forall m, In m (pg_members h) <-> In m (pg_members g) /\ m <> c.
Proof.
  intros Hn. unfold scrub1. destruct (mem_key c (pg_members g)) eqn:E.
  - pose proof (rm_member_nodup c _ Hn) as H1. pose proof (fun m => rm_member_In c _ m Hn) as H2.
    destruct (rm_member c (pg_members g)) as [|x r]; [discriminate|]. intros H; inversion H; subst h.
    unfold pg_members at 1 3. simpl. split; [exact H1 | exact H2].
  - intros H; inversion H; subst h. split; [exact Hn|]. intros m. apply mem_key_false in E.
    split; [intros Hm; split; [exact Hm | intros ->; exact (E Hm)] | tauto].
Qed.

Lemma scrub_ids_sub c L x : In x (map pg_id (scrub c L)) -> In x (map pg_id L).
Proof.
  intros H. apply in_map_iff in H. destruct H as [h [<- Hh]]. apply scrub_In in Hh. destruct Hh as [g [Hg Hs]].
  rewrite (scrub1_id _ _ _ Hs). apply in_map. exact Hg.
Qed.

Lemma scrub_cons c g L : scrub c (g :: L) = (match scrub1 c g with Some h => [h] | None => [] end) ++ scrub c L.
Proof.
  unfold scrub at 1. simpl. f_equal. unfold scrub1. destruct (mem_key c (pg_members g)); [|reflexivity].
  destruct (rm_member c (pg_members g)); reflexivity.
Qed.

Lemma scrub_ids_nodup c L : NoDup (map pg_id L) -> NoDup (map pg_id (scrub c L)).
Proof.
  induction L as [|g r IH]; intros H; [constructor|].
  simpl in H. inversion H as [|? ? Hn Hr]; subst. rewrite scrub_cons.
  destruct (scrub1 c g) as [h|] eqn:E; simpl; [|apply IH; exact Hr].
  constructor; [|apply IH; exact Hr]. rewrite (scrub1_id _ _ _ E). intros Hin. apply Hn. eapply scrub_ids_sub. exact Hin.
Qed.

Definition sstep (c : key) (L : list pgroup) (g : pgroup) : list pgroup :=
  if mem_key c (pg_members g)
  then match rm_member c (pg_members g) with
       | [] => pg_del (pg_id g) L
       | ms => pg_put (pg_id g, pg_name g, ms) L
       end
  else L.

Lemma sstep_spec c L g : NoDup (map pg_id L) -> In g L ->
  NoDup (map pg_id (sstep c L g)) /\
  forall h, In h (sstep c L g) <-> (In h L /\ pg_id h <> pg_id g) \/ scrub1 c g = Some h.
Proof.
  intros Hn Hg. unfold sstep, scrub1. destruct (mem_key c (pg_members g)).
  - destruct (rm_member c (pg_members g)) as [|x r].
    + split; [apply pg_del_ids_nodup; exact Hn|]. intros h. rewrite pg_del_In.
      split; [intros H; left; exact H | intros [H|H]; [exact H | discriminate]].
    + split; [apply pg_put_ids_nodup; exact Hn|]. intros h. rewrite (pg_put_In _ _ _ Hn).
      change (pg_id (pg_id g, pg_name g, x :: r)) with (pg_id g).
      split; [intros [H|H]; [right; subst h; reflexivity | left; exact H] | intros [H|H]; [right; exact H | left; inversion H; reflexivity]].
  - split; [exact Hn|]. intros h. split.
    + intros Hh. destruct (N.eq_dec (pg_id h) (pg_id g)) as [E|E]; [right | left; split; assumption].
      f_equal. symmetry. eapply ids_inj; eassumption.
    + intros [[H _]|H]; [exact H | inversion H; subst; exact Hg].
Qed.

Lemma sfold_spec c : forall T L, NoDup (map pg_id L) -> NoDup (map pg_id T) -> (forall g, In g T -> In g L) ->
  NoDup (map pg_id (fold_left (sstep c) T L)) /\
  forall h, In h (fold_left (sstep c) T L) <->
            (In h L /\ ~ In (pg_id h) (map pg_id T)) \/ exists g, In g T /\ scrub1 c g = Some h.
Proof.
  induction T as [|g T IH]; intros L HL HT Hsub; simpl.
  - split; [exact HL|]. intros h. split; [intros H; left; split; [exact H | intros []] | intros [[H _]|[g [[] _]]]; exact H].
  - inversion HT as [|? ? Hn Hr]; subst.
    destruct (sstep_spec c L g HL (Hsub g (or_introl eq_refl))) as [H1 H2].
    destruct (IH (sstep c L g) H1 Hr) as [H3 H4].
    { intros g' Hg'. apply H2. left. split; [apply Hsub; right; exact Hg'|].
      intros E. apply Hn. rewrite <- E. apply in_map. exact Hg'. }
    split; [exact H3|]. intros h. rewrite H4, H2. split.
    + intros [[[[Hh Hne]|Hs] Hni]|[g' [Hg' Hs]]].
      * left. split; [exact Hh|]. intros [E|Hin]; [congruence | exact (Hni Hin)].
      * right. exists g. split; [left; reflexivity | exact Hs].
      * right. exists g'. split; [right; exact Hg' | exact Hs].
    + intros [[Hh Hni]|[g' [[<-|Hg'] Hs]]].
      * left. split; [left; split; [exact Hh | intros E; apply Hni; left; congruence] | intros Hin; apply Hni; right; exact Hin].
      * left. split; [right; exact Hs|]. rewrite (scrub1_id _ _ _ Hs). exact Hn.
      * right. exists g'. split; assumption.
Qed.

(* memory scrubs its own list M; the file applies, block by block, what memory says, to its list F (same blocks) *)
Lemma scrub_equiv c M F : NoDup (map pg_id M) -> pgs_equiv F M ->
  pgs_equiv (fold_left (sstep c) M F) (scrub c M).
Proof.
  intros HM He. pose proof (pgs_equiv_ids _ _ HM (pgs_equiv_sym _ _ He)) as HF.
  destruct (sfold_spec c M F HF HM) as [H1 H2]; [intros g Hg; apply He; exact Hg|].
  apply pgs_equiv_of_nodup; [exact H1 | apply scrub_ids_nodup; exact HM|].
  intros h. rewrite H2, scrub_In. split; [|intros H; right; exact H].
  intros [[Hh Hni]|H]; [|exact H]. exfalso. apply Hni. apply in_map. apply He. exact Hh.
Qed.

(* ---- file primitives on the property-group block ---- *)
Definition set_pgs (n : fnode) (L : list pgroup) : fnode :=
  {| fattrs := with_pgs (fattrs n) L; faddr := faddr n; flinks := flinks n |}.

Lemma set_pgs_id n : set_pgs n (apgs (fattrs n)) = n.
Proof. destruct n as [a ad li]. unfold set_pgs. simpl. rewrite with_pgs_id. reflexivity. Qed.

Lemma w_pgs_same x a f n : fget x (flat f) = Some n -> fget x (flat (w_pgs x a f)) = Some (set_pgs n (apgs a)).
Proof. intros H. unfold w_pgs. rewrite H. simpl. apply fget_fset_same. Qed.
Lemma w_pgs_none x a f : fget x (flat f) = None -> w_pgs x a f = f.
Proof. intros H. unfold w_pgs. rewrite H. reflexivity. Qed.
Lemma w_pgs_frame x a f y : y <> x -> fget y (flat (w_pgs x a f)) = fget y (flat f).
Proof. intros H. unfold w_pgs. destruct (fget x (flat f)); simpl; [|reflexivity]. apply fget_fset_other. exact H. Qed.
Lemma w_pgs_nodup x a f : NoDup (map fst (flat f)) -> NoDup (map fst (flat (w_pgs x a f))).
Proof. intros H. unfold w_pgs. destruct (fget x (flat f)); simpl; [|exact H]. apply fset_keys_NoDup. exact H. Qed.
Lemma w_pgs_rootlink x a f : rootlink (w_pgs x a f) = rootlink f.
Proof. unfold w_pgs. destruct (fget x (flat f)); reflexivity. Qed.

Lemma w_pg_put_same x g f n : fget x (flat f) = Some n ->
  fget x (flat (w_pg_put x g f)) = Some (set_pgs n (pg_put g (apgs (fattrs n)))).
Proof. intros H. unfold w_pg_put. rewrite H. rewrite (w_pgs_same _ _ _ _ H). reflexivity. Qed.
Lemma w_pg_put_frame x g f y : y <> x -> fget y (flat (w_pg_put x g f)) = fget y (flat f).
Proof. intros H. unfold w_pg_put. destruct (fget x (flat f)); [apply w_pgs_frame; exact H | reflexivity]. Qed.
Lemma w_pg_put_nodup x g f : NoDup (map fst (flat f)) -> NoDup (map fst (flat (w_pg_put x g f))).
Proof. intros H. unfold w_pg_put. destruct (fget x (flat f)); [apply w_pgs_nodup; exact H | exact H]. Qed.
Lemma w_pg_put_rootlink x g f : rootlink (w_pg_put x g f) = rootlink f.
Proof. unfold w_pg_put. destruct (fget x (flat f)); [apply w_pgs_rootlink | reflexivity]. Qed.

Lemma w_pg_del_same x i f n : fget x (flat f) = Some n ->
  fget x (flat (w_pg_del x i f)) = Some (set_pgs n (pg_del i (apgs (fattrs n)))).
Proof. intros H. unfold w_pg_del. rewrite H. rewrite (w_pgs_same _ _ _ _ H). reflexivity. Qed.
Lemma w_pg_del_frame x i f y : y <> x -> fget y (flat (w_pg_del x i f)) = fget y (flat f).
Proof. intros H. unfold w_pg_del. destruct (fget x (flat f)); [apply w_pgs_frame; exact H | reflexivity]. Qed.
Lemma w_pg_del_nodup x i f : NoDup (map fst (flat f)) -> NoDup (map fst (flat (w_pg_del x i f))).
Proof. intros H. unfold w_pg_del. destruct (fget x (flat f)); [apply w_pgs_nodup; exact H | exact H]. Qed.
Lemma w_pg_del_rootlink x i f : rootlink (w_pg_del x i f) = rootlink f.
Proof. unfold w_pg_del. destruct (fget x (flat f)); [apply w_pgs_rootlink | reflexivity]. Qed.

Definition wstep (x c : key) (f : file) (g : pgroup) : file :=
  if mem_key c (pg_members g)
  then match rm_member c (pg_members g) with
       | [] => w_pg_del x (pg_id g) f
       | ms => w_pg_put x (pg_id g, pg_name g, ms) f
       end
  else f.

Lemma w_scrub_eq x c M f : w_scrub x c M f = fold_left (wstep x c) M f.
Proof. reflexivity. Qed.

Lemma wstep_same x c f g n : fget x (flat f) = Some n ->
  fget x (flat (wstep x c f g)) = Some (set_pgs n (sstep c (apgs (fattrs n)) g)).
Proof.
  intros H. unfold wstep, sstep. destruct (mem_key c (pg_members g)).
  - destruct (rm_member c (pg_members g)); [apply w_pg_del_same; exact H | apply w_pg_put_same; exact H].
  - rewrite set_pgs_id. exact H.
Qed.
Lemma wstep_frame x c f g y : y <> x -> fget y (flat (wstep x c f g)) = fget y (flat f).
Proof.
  intros H. unfold wstep. destruct (mem_key c (pg_members g)); [|reflexivity].
  destruct (rm_member c (pg_members g)); [apply w_pg_del_frame; exact H | apply w_pg_put_frame; exact H].
Qed.
Lemma wstep_nodup x c f g : NoDup (map fst (flat f)) -> NoDup (map fst (flat (wstep x c f g))).
Proof.
  intros H. unfold wstep. destruct (mem_key c (pg_members g)); [|exact H].
  destruct (rm_member c (pg_members g)); [apply w_pg_del_nodup; exact H | apply w_pg_put_nodup; exact H].
Qed.
Lemma wstep_rootlink x c f g : rootlink (wstep x c f g) = rootlink f.
Proof.
  unfold wstep. destruct (mem_key c (pg_members g)); [|reflexivity].
  destruct (rm_member c (pg_members g)); [apply w_pg_del_rootlink | apply w_pg_put_rootlink].
Qed.

Lemma w_scrub_same x c M : forall f n, fget x (flat f) = Some n ->
  fget x (flat (w_scrub x c M f)) = Some (set_pgs n (fold_left (sstep c) M (apgs (fattrs n)))).
Proof.
  intros f n. rewrite w_scrub_eq. revert f n. induction M as [|g M IH]; intros f n H; simpl.
  - rewrite set_pgs_id. exact H.
  - rewrite (IH _ _ (wstep_same x c f g n H)). reflexivity.
Qed.
Lemma w_scrub_frame x c M y : y <> x -> forall f, fget y (flat (w_scrub x c M f)) = fget y (flat f).
Proof.
  intros H f. rewrite w_scrub_eq. revert f. induction M as [|g M IH]; intros f; simpl; [reflexivity|].
  rewrite IH. apply wstep_frame. exact H.
Qed.
Lemma w_scrub_nodup x c M : forall f, NoDup (map fst (flat f)) -> NoDup (map fst (flat (w_scrub x c M f))).
Proof.
  intros f. rewrite w_scrub_eq. revert f. induction M as [|g M IH]; intros f H; simpl; [exact H|]. apply IH. apply wstep_nodup. exact H.
Qed.
Lemma w_scrub_rootlink x c M : forall f, rootlink (w_scrub x c M f) = rootlink f.
Proof.
  intros f. rewrite w_scrub_eq. revert f. induction M as [|g M IH]; intros f; simpl; [reflexivity|]. rewrite IH. apply wstep_rootlink.
Qed.
