(* Proofs about Model/Geometry.v (properties C07 and C13). *)
From GV Require Import Prelude.Base Model.Geometry.

Arguments rank : simpl never.

(* ================================================================== masks: select / rank / count *)
Lemma select_length {A} : forall (m : list bool) (l : list A),
  length m = length l -> length (select m l) = count m.
Proof.
  induction m as [|b m IH]; intros [|x l] H; simpl in *; try discriminate; try reflexivity.
  destruct b; simpl; rewrite IH by lia; reflexivity.
Qed.

Lemma rank_0 m : rank m 0 = 0.
Proof. reflexivity. Qed.

Lemma rank_cons b m i : rank (b :: m) (S i) = (if b then 1 else 0) + rank m i.
Proof. reflexivity. Qed.

Lemma rank_le_count : forall m i, rank m i <= count m.
Proof.
  induction m as [|b m IH]; intros i.
  - unfold rank. destruct i; simpl; lia.
  - destruct i as [|i]; [rewrite rank_0; lia|].
    rewrite rank_cons. simpl count. specialize (IH i). lia.
Qed.

Lemma rank_lt_count : forall m i, nth_error m i = Some true -> rank m i < count m.
Proof.
  induction m as [|b m IH]; intros [|i] H; simpl in H; try discriminate.
  - inversion H; subst. rewrite rank_0. simpl. lia.
  - rewrite rank_cons. simpl count. specialize (IH i H). lia.
Qed.

Lemma rank_mono : forall m i j, i <= j -> rank m i <= rank m j.
Proof.
  induction m as [|b m IH]; intros i j H.
  - unfold rank. destruct i, j; simpl; lia.
  - destruct i as [|i]; [rewrite rank_0; lia|]. destruct j as [|j]; [lia|].
    rewrite !rank_cons. specialize (IH i j). lia.
Qed.

Lemma rank_strict : forall m i j, nth_error m i = Some true -> i < j -> rank m i < rank m j.
Proof.
  induction m as [|b m IH]; intros [|i] [|j] H Hij; simpl in H; try discriminate; try lia.
  - inversion H; subst. rewrite rank_0, rank_cons. lia.
  - rewrite !rank_cons. assert (i < j) by lia. specialize (IH i j H H0). lia.
Qed.

Lemma rank_inj m i j :
  nth_error m i = Some true -> nth_error m j = Some true -> rank m i = rank m j -> i = j.
Proof.
  intros Hi Hj E. destruct (Nat.lt_trichotomy i j) as [L|[L|L]]; [|assumption|].
  - pose proof (rank_strict m i j Hi L). lia.
  - pose proof (rank_strict m j i Hj L). lia.
Qed.

(* element i of the input, when kept, sits at position rank m i of the output *)
Lemma select_nth {A} : forall (m : list bool) (l : list A) i,
  length m = length l -> nth_error m i = Some true ->
  nth_error (select m l) (rank m i) = nth_error l i.
Proof.
  induction m as [|b m IH]; intros [|x l] [|i] Hl H; simpl in *; try discriminate.
  - inversion H; subst. reflexivity.
  - rewrite rank_cons. destruct b; simpl; (apply IH; [lia|exact H]).
Qed.

(* every element of the output comes from exactly one kept element of the input *)
Lemma select_from {A} : forall (m : list bool) (l : list A) j x,
  length m = length l -> nth_error (select m l) j = Some x ->
  exists i, nth_error m i = Some true /\ rank m i = j /\ nth_error l i = Some x.
Proof.
  induction m as [|b m IH]; intros [|y l] j x Hl H; simpl in *; try discriminate.
  - destruct j; discriminate.
  - destruct b.
    + destruct j as [|j]; simpl in H.
      * inversion H; subst. exists 0. repeat split.
      * destruct (IH l j x) as [i [H1 [H2 H3]]]; auto.
        exists (S i). rewrite rank_cons. repeat split; auto; try lia.
    + destruct (IH l j x) as [i [H1 [H2 H3]]]; auto.
      exists (S i). rewrite rank_cons. repeat split; auto.
Qed.

Lemma select_map {A B} (f : A -> B) : forall m (l : list A), select m (map f l) = map f (select m l).
Proof.
  induction m as [|b m IH]; intros [|x l]; simpl; try reflexivity.
  destruct b; simpl; rewrite IH; reflexivity.
Qed.

Lemma select_In {A} : forall m (l : list A) x, In x (select m l) -> In x l.
Proof.
  induction m as [|b m IH]; intros [|y l] x H; simpl in *; try contradiction.
  destruct b; simpl in H; [destruct H as [H|H]; [left; exact H|]|]; right; apply IH; exact H.
Qed.

Lemma select_all_true {A} : forall m (l : list A), length m = length l -> count m = length m -> select m l = l.
Proof.
  induction m as [|b m IH]; intros [|x l] Hl Hc; simpl in *; try discriminate; try reflexivity.
  destruct b.
  - f_equal. apply IH; lia.
  - pose proof (rank_le_count m (length m)). exfalso.
    assert (count m <= length m).
    { clear. induction m as [|b m IH]; simpl; [lia|]. destruct b; lia. }
    lia.
Qed.

Lemma count_le_length : forall m, count m <= length m.
Proof. induction m as [|b m IH]; simpl; [lia|]. destruct b; lia. Qed.

Lemma count_repeat_true n : count (repeat true n) = n.
Proof. induction n; simpl; lia. Qed.

Lemma rank_repeat_true : forall n i, i <= n -> rank (repeat true n) i = i.
Proof.
  induction n as [|n IH]; intros [|i] H; try reflexivity; try lia.
  simpl repeat. rewrite rank_cons, IH by lia. reflexivity.
Qed.

Lemma nth_error_repeat {A} (x : A) : forall n i, i < n -> nth_error (repeat x n) i = Some x.
Proof. induction n as [|n IH]; intros [|i] H; simpl; try lia; [reflexivity|apply IH; lia]. Qed.

Lemma nth_nth_error_true : forall (m : list bool) i, nth i m false = true <-> nth_error m i = Some true.
Proof.
  induction m as [|b m IH]; intros [|i]; simpl; split; intros H; try discriminate; try congruence.
  - apply IH; exact H.
  - apply IH; exact H.
Qed.

(* ================================================================== index normalisation, keep masks *)
Lemma keep_mask_length n I : length (keep_mask n I) = n.
Proof. unfold keep_mask. rewrite map_length, seq_length. reflexivity. Qed.

Lemma keep_mask_nth n I i : i < n -> nth_error (keep_mask n I) i = Some (negb (memb i I)).
Proof.
  intros H. unfold keep_mask. rewrite nth_error_map.
  rewrite (nth_error_nth' (seq 0 n) 0) by (rewrite seq_length; exact H).
  rewrite seq_nth by exact H. reflexivity.
Qed.

Lemma memb_In i I : memb i I = true <-> In i I.
Proof.
  unfold memb. rewrite existsb_exists. split.
  - intros [x [Hx E]]. apply Nat.eqb_eq in E. subst. exact Hx.
  - intros H. exists i. split; [exact H|apply Nat.eqb_refl].
Qed.

(* a vertex is kept exactly when its index is not among the (normalised) removal indices *)
Lemma keep_mask_true n I i : nth_error (keep_mask n I) i = Some true <-> i < n /\ ~ In i I.
Proof.
  split.
  - intros H. assert (Hi : i < n).
    { rewrite <- (keep_mask_length n I). apply nth_error_Some. congruence. }
    split; [exact Hi|]. rewrite keep_mask_nth in H by exact Hi. inversion H as [E].
    intros Hin. apply memb_In in Hin. rewrite Hin in E. discriminate.
  - intros [Hi Hn]. rewrite keep_mask_nth by exact Hi. f_equal.
    destruct (memb i I) eqn:E; [apply memb_In in E; contradiction|reflexivity].
Qed.

Lemma norm_index_lt n i k : norm_index n i = Some k -> k < n.
Proof.
  unfold norm_index. intros H.
  destruct (0 <=? i)%Z eqn:E0.
  - destruct (i <? Z.of_nat n)%Z eqn:E1; inversion H; subst. apply Z.leb_le in E0. apply Z.ltb_lt in E1. lia.
  - destruct (- Z.of_nat n <=? i)%Z eqn:E1; inversion H; subst. apply Z.leb_gt in E0. apply Z.leb_le in E1. lia.
Qed.

Lemma norm_all_lt : forall n I I', norm_all n I = Some I' -> Forall (fun k => k < n) I'.
Proof.
  induction I as [|i r IH]; intros I' H; simpl in H.
  - inversion H. constructor.
  - destruct (norm_index n i) eqn:E1; [|discriminate]. destruct (norm_all n r) eqn:E2; [|discriminate].
    inversion H; subst. constructor; [eapply norm_index_lt; eauto|apply IH; reflexivity].
Qed.

Lemma norm_all_of_nat : forall n T, Forall (fun k => k < n) T -> norm_all n (map Z.of_nat T) = Some T.
Proof.
  induction T as [|t r IH]; intros H; simpl; [reflexivity|].
  inversion H; subst. rewrite IH by assumption.
  unfold norm_index.
  destruct (0 <=? Z.of_nat t)%Z eqn:E0; [|apply Z.leb_gt in E0; lia].
  destruct (Z.of_nat t <? Z.of_nat n)%Z eqn:E1; [|apply Z.ltb_ge in E1; lia].
  rewrite Nat2Z.id. reflexivity.
Qed.

Lemma np_delete_ok {A} (l : list A) I l' :
  np_delete l I = Ok l' -> exists I', norm_all (length l) I = Some I' /\ l' = select (keep_mask (length l) I') l.
Proof.
  unfold np_delete. destruct (norm_all (length l) I) as [I'|]; intros H; inversion H. exists I'. auto.
Qed.

(* where_false recovers the mask it was computed from *)
Lemma where_false_from_spec : forall bs s i, In i (where_false_from s bs) <-> (s <= i /\ nth_error bs (i - s) = Some false).
Proof.
  induction bs as [|b r IH]; intros s i; simpl.
  - split; [contradiction|]. intros [_ H]. destruct (i - s); discriminate.
  - destruct b; simpl; rewrite ?IH.
    + split.
      * intros [H1 H2]. split; [lia|]. replace (i - s) with (S (i - S s)) by lia. exact H2.
      * intros [H1 H2]. destruct (i - s) as [|k] eqn:E; [discriminate|]. split; [lia|].
        replace (i - S s) with k by lia. exact H2.
    + split.
      * intros [H|[H1 H2]]; [subst; split; [lia|]; rewrite Nat.sub_diag; reflexivity|].
        split; [lia|]. replace (i - s) with (S (i - S s)) by lia. exact H2.
      * intros [H1 H2]. destruct (i - s) as [|k] eqn:E; [left; lia|]. right. split; [lia|].
        replace (i - S s) with k by lia. exact H2.
Qed.

Lemma where_false_spec bs i : In i (where_false bs) <-> nth_error bs i = Some false.
Proof.
  unfold where_false. rewrite where_false_from_spec, Nat.sub_0_r. split; [intros [_ H]; exact H|intros H; split; [lia|exact H]].
Qed.

Lemma where_false_lt bs : Forall (fun k => k < length bs) (where_false bs).
Proof.
  apply Forall_forall. intros i H. apply where_false_spec in H. apply nth_error_Some. congruence.
Qed.

Lemma nth_error_ext {A} : forall (l1 l2 : list A), (forall i, nth_error l1 i = nth_error l2 i) -> l1 = l2.
Proof.
  induction l1 as [|x r IH]; intros [|y r2] H.
  - reflexivity.
  - specialize (H 0). discriminate.
  - specialize (H 0). discriminate.
  - pose proof (H 0) as H0. simpl in H0. inversion H0; subst. f_equal. apply IH. intros i. exact (H (S i)).
Qed.

Lemma keep_mask_where_false bs : keep_mask (length bs) (where_false bs) = bs.
Proof.
  apply nth_error_ext. intros i.
  destruct (Nat.lt_ge_cases i (length bs)) as [H|H].
  - rewrite keep_mask_nth by exact H.
    destruct (nth_error bs i) as [b|] eqn:E; [|apply nth_error_None in E; lia].
    f_equal. destruct (memb i (where_false bs)) eqn:M.
    + apply memb_In, where_false_spec in M. simpl. congruence.
    + destruct b; [reflexivity|]. exfalso.
      assert (In i (where_false bs)) by (apply where_false_spec; exact E).
      apply memb_In in H0. congruence.
  - transitivity (@None bool); [|symmetry]; apply nth_error_None; rewrite ?keep_mask_length; lia.
Qed.

Lemma where_false_nil bs : where_false bs = [] -> count bs = length bs.
Proof.
  intros H. assert (A : forall i, nth_error bs i <> Some false).
  { intros i E. apply where_false_spec in E. rewrite H in E. contradiction. }
  clear H. induction bs as [|b r IH]; [reflexivity|].
  destruct b; [|exfalso; apply (A 0); reflexivity].
  simpl. f_equal. apply IH. intros i. exact (A (S i)).
Qed.

(* ================================================================== check_max *)
Lemma fold_left_max_le : forall r x b, (x <= b)%Z -> Forall (fun y => (y <= b)%Z) r -> (fold_left Z.max r x <= b)%Z.
Proof.
  induction r as [|y r IH]; intros x b Hx Hr; simpl; [exact Hx|].
  inversion Hr; subst. apply IH; [lia|assumption].
Qed.

Lemma fold_left_max_ge : forall r x, (x <= fold_left Z.max r x)%Z.
Proof.
  induction r as [|y r IH]; intros x; simpl; [lia|]. specialize (IH (Z.max x y)). lia.
Qed.

Lemma check_max_of_nat n T : T <> [] -> Forall (fun k => k < n) T -> check_max n (map Z.of_nat T) = Ok tt.
Proof.
  intros Hne H. unfold check_max. destruct T as [|t r]; [congruence|]. simpl.
  inversion H; subst.
  assert (fold_left Z.max (map Z.of_nat r) (Z.of_nat t) <= Z.of_nat n - 1)%Z.
  { apply fold_left_max_le; [lia|]. apply Forall_forall. intros y Hy. apply in_map_iff in Hy as [k [<- Hk]].
    rewrite Forall_forall in H3. specialize (H3 k Hk). lia. }
  destruct (Z.of_nat n - 1 <? _)%Z eqn:E; [apply Z.ltb_lt in E; lia|reflexivity].
Qed.

(* ================================================================== selections: the common shape of the results *)
(* cm restricted to cells all of whose vertices are kept by vm *)
Definition closed (vm cm : list bool) (cs : list (list nat)) : Prop :=
  forall j c, nth_error cm j = Some true -> nth_error cs j = Some c ->
              Forall (fun v => nth_error vm v = Some true) c.

Definition sel_kid (vm cm : list bool) (k k' : kid) : Prop :=
  kid_id k' = kid_id k /\ kassoc k' = kassoc k /\ kkind k' = kkind k /\
  kvals k' = match kassoc k with
             | AVertex => option_map (select vm) (kvals k)
             | ACell => option_map (select cm) (kvals k)
             | AObject => kvals k
             end.

(* o' is o restricted to the vertices of vm and the cells of cm, cells renumbered *)
Definition selection (vm cm : list bool) (o o' : obj) : Prop :=
  length vm = length (verts o) /\ length cm = length (cells o) /\ closed vm cm (cells o) /\
  ok o' = ok o /\
  verts o' = select vm (verts o) /\
  cells o' = map (map (rank vm)) (select cm (cells o)) /\
  Forall2 (sel_kid vm cm) (kids o) (kids o').

Lemma Forall2_nth_l {A B} (R : A -> B -> Prop) : forall l l' i x,
  Forall2 R l l' -> nth_error l i = Some x -> exists y, nth_error l' i = Some y /\ R x y.
Proof.
  intros l l' i x H. revert i x. induction H as [|a b l l' Hab H IH]; intros [|i] x E; simpl in *; try discriminate.
  - inversion E; subst. exists b. auto.
  - apply IH. exact E.
Qed.

Lemma Forall2_nth_r {A B} (R : A -> B -> Prop) : forall l l' i y,
  Forall2 R l l' -> nth_error l' i = Some y -> exists x, nth_error l i = Some x /\ R x y.
Proof.
  intros l l' i y H. revert i y. induction H as [|a b l l' Hab H IH]; intros [|i] y E; simpl in *; try discriminate.
  - inversion E; subst. exists a. auto.
  - apply IH. exact E.
Qed.

(* ---- consequences of a selection (C07: lengths / values / cells; reused by C13 for the extent copy) ---- *)
Lemma select_nil_r {A} (m : list bool) : select m (@nil A) = [].
Proof. destruct m as [|[|] m]; reflexivity. Qed.

Theorem selection_wf vm cm o o' : wf o -> selection vm cm o o' -> wf o'.
Proof.
  intros (Hc & Hk & Hp) (Lv & Lc & Hcl & Eo & Ev & Ec & Hks). split; [|split].
  - rewrite Ec, Ev. apply Forall_forall. intros c' Hin.
    apply in_map_iff in Hin as [c [<- Hin]].
    apply In_nth_error in Hin as [j Hj].
    destruct (select_from cm (cells o) j c Lc Hj) as [i [Hi [_ Hci]]].
    specialize (Hcl i c Hi Hci).
    unfold cell_ok. apply Forall_forall. intros w Hw. apply in_map_iff in Hw as [v [<- Hv]].
    rewrite Forall_forall in Hcl. specialize (Hcl v Hv).
    rewrite select_length by exact Lv. apply rank_lt_count. exact Hcl.
  - apply Forall_forall. intros k' Hin. apply In_nth_error in Hin as [p Hp'].
    destruct (Forall2_nth_r _ _ _ _ _ Hks Hp') as [k [Hkp (E1 & E2 & E3 & E4)]].
    assert (Hkok : kid_ok o k) by (rewrite Forall_forall in Hk; apply Hk; eapply nth_error_In; eauto).
    unfold kid_ok in *. rewrite E4, E2. rewrite Ev, Ec, !map_length.
    destruct (kassoc k); destruct (kvals k) as [v|]; simpl; auto.
    + rewrite !select_length by lia. reflexivity.
    + rewrite !select_length by lia. reflexivity.
  - intros H. rewrite Eo in H. destruct (Hp H) as [Hp1 Hp2]. split.
    + rewrite Ec, Hp1, select_nil_r. reflexivity.
    + apply Forall_forall. intros k' Hin. apply In_nth_error in Hin as [p Hp'].
      destruct (Forall2_nth_r _ _ _ _ _ Hks Hp') as [k [Hkp (E1 & E2 & E3 & E4)]].
      rewrite Forall_forall in Hp2. specialize (Hp2 k (nth_error_In _ _ Hkp)).
      unfold not_cell in *. congruence.
Qed.

Theorem selection_vertex_count vm cm o o' : selection vm cm o o' -> length (verts o') = count vm.
Proof. intros (Lv & _ & _ & _ & Ev & _). rewrite Ev. apply select_length. exact Lv. Qed.

Theorem selection_cell_count vm cm o o' : selection vm cm o o' -> length (cells o') = count cm.
Proof. intros (_ & Lc & _ & _ & _ & Ec & _). rewrite Ec, map_length. apply select_length. exact Lc. Qed.

(* a kept vertex keeps its coordinates and its value in every vertex-associated child *)
Theorem selection_vertex_kept vm cm o o' i :
  wf o -> selection vm cm o o' -> nth_error vm i = Some true ->
  nth_error (verts o') (rank vm i) = nth_error (verts o) i /\
  forall p k v, nth_error (kids o) p = Some k -> kassoc k = AVertex -> kvals k = Some v ->
    exists k' v', nth_error (kids o') p = Some k' /\ kid_id k' = kid_id k /\ kassoc k' = AVertex /\ kvals k' = Some v' /\
                  nth_error v' (rank vm i) = nth_error v i.
Proof.
  intros (_ & Hk & _) (Lv & Lc & _ & _ & Ev & _ & Hks) Hi. split.
  - rewrite Ev. apply select_nth; assumption.
  - intros p k v Hp Ha Hv.
    destruct (Forall2_nth_l _ _ _ _ _ Hks Hp) as [k' [Hp' (E1 & E2 & E3 & E4)]].
    rewrite Ha, Hv in E4. simpl in E4.
    exists k', (select vm v). repeat split; auto; try congruence.
    apply select_nth; [|exact Hi].
    rewrite Forall_forall in Hk. specialize (Hk k (nth_error_In _ _ Hp)). unfold kid_ok in Hk. rewrite Hv, Ha in Hk. lia.
Qed.

(* every vertex of the result is a kept vertex of the source (nothing invented, nothing duplicated: rank is injective) *)
Theorem selection_vertex_from vm cm o o' j x :
  selection vm cm o o' -> nth_error (verts o') j = Some x ->
  exists i, nth_error vm i = Some true /\ rank vm i = j /\ nth_error (verts o) i = Some x.
Proof. intros (Lv & _ & _ & _ & Ev & _) H. rewrite Ev in H. apply select_from; assumption. Qed.

(* a kept cell survives at position rank cm j, connects the same coordinates, and keeps its value in every cell child *)
Theorem selection_cell_kept vm cm o o' j c :
  wf o -> selection vm cm o o' -> nth_error cm j = Some true -> nth_error (cells o) j = Some c ->
  exists c', nth_error (cells o') (rank cm j) = Some c' /\ length c' = length c /\
             map (nth_error (verts o')) c' = map (nth_error (verts o)) c /\
             cell_ok (length (verts o')) c' /\
             forall p k v, nth_error (kids o) p = Some k -> kassoc k = ACell -> kvals k = Some v ->
               exists k' v', nth_error (kids o') p = Some k' /\ kid_id k' = kid_id k /\ kvals k' = Some v' /\
                             nth_error v' (rank cm j) = nth_error v j.
Proof.
  intros (_ & Hk & _) (Lv & Lc & Hcl & _ & Ev & Ec & Hks) Hj Hc.
  exists (map (rank vm) c). split; [|split; [|split; [|split]]].
  - rewrite Ec. rewrite nth_error_map. rewrite select_nth by assumption. rewrite Hc. reflexivity.
  - apply map_length.
  - rewrite map_map. apply map_ext_in. intros v Hv.
    specialize (Hcl j c Hj Hc). rewrite Forall_forall in Hcl. specialize (Hcl v Hv).
    rewrite Ev. apply select_nth; assumption.
  - unfold cell_ok. apply Forall_forall. intros w Hw. apply in_map_iff in Hw as [v [<- Hv]].
    specialize (Hcl j c Hj Hc). rewrite Forall_forall in Hcl. specialize (Hcl v Hv).
    rewrite Ev, select_length by exact Lv. apply rank_lt_count. exact Hcl.
  - intros p k v Hp Ha Hv.
    destruct (Forall2_nth_l _ _ _ _ _ Hks Hp) as [k' [Hp' (E1 & E2 & E3 & E4)]].
    rewrite Ha, Hv in E4. simpl in E4.
    exists k', (select cm v). repeat split; auto.
    apply select_nth; [|exact Hj].
    rewrite Forall_forall in Hk. specialize (Hk k (nth_error_In _ _ Hp)). unfold kid_ok in Hk. rewrite Hv, Ha in Hk. lia.
Qed.

(* every cell of the result is the image of exactly one kept cell of the source, in order *)
Theorem selection_cell_from vm cm o o' q c' :
  selection vm cm o o' -> nth_error (cells o') q = Some c' ->
  exists j c, nth_error cm j = Some true /\ rank cm j = q /\ nth_error (cells o) j = Some c /\ c' = map (rank vm) c /\
              map (nth_error (verts o')) c' = map (nth_error (verts o)) c.
Proof.
  intros (Lv & Lc & Hcl & _ & Ev & Ec & _) H. rewrite Ec, nth_error_map in H.
  destruct (nth_error (select cm (cells o)) q) as [c|] eqn:E; [|discriminate]. inversion H; subst.
  destruct (select_from cm (cells o) q c Lc E) as [j [H1 [H2 H3]]].
  exists j, c. repeat split; auto.
  rewrite map_map. apply map_ext_in. intros v Hv.
  specialize (Hcl j c H1 H3). rewrite Forall_forall in Hcl. specialize (Hcl v Hv).
  rewrite Ev. apply select_nth; assumption.
Qed.

(* ================================================================== format_length (pad / reject) *)
Lemma format_length_eq n k a v : length v = n -> format_length n k a v = Ok v.
Proof.
  intros H. unfold format_length. rewrite H, Nat.ltb_irrefl. simpl. reflexivity.
Qed.

Lemma format_length_pad n k a v : k <> KText -> length v < n -> format_length n k a v = Ok (v ++ repeat (ndv k) (n - length v)).
Proof. intros Hk H. unfold format_length. apply Nat.ltb_lt in H. rewrite H. destruct k; try reflexivity. congruence. Qed.

Lemma format_length_text_short n a v : length v < n -> format_length n KText a v = Ok v.
Proof. intros H. unfold format_length. apply Nat.ltb_lt in H. rewrite H. reflexivity. Qed.

Lemma format_length_reject n k a v : n < length v -> a <> AObject -> format_length n k a v = Err ValueError.
Proof.
  intros H Ha. unfold format_length.
  destruct (length v <? n) eqn:E; [apply Nat.ltb_lt in E; lia|].
  apply Nat.ltb_lt in H. rewrite H. destruct a; simpl; try reflexivity. congruence.
Qed.

Lemma format_length_ok_length n k a v v' : a <> AObject -> (k = KText -> n <= length v) ->
  format_length n k a v = Ok v' -> length v' = n.
Proof.
  intros Ha Hk. unfold format_length.
  destruct (length v <? n) eqn:E.
  - apply Nat.ltb_lt in E. destruct k; intros H; inversion H; subst; try (rewrite app_length, repeat_length; lia).
    specialize (Hk eq_refl). lia.
  - destruct (n <? length v) eqn:E2.
    + destruct a; simpl; try discriminate. congruence.
    + simpl. intros H; inversion H; subst. apply Nat.ltb_ge in E, E2. lia.
Qed.

(* ================================================================== remove_children_values *)
Definition rcv_kid (m : list bool) (a : assoc) (k k' : kid) : Prop :=
  kid_id k' = kid_id k /\ kassoc k' = kassoc k /\ kkind k' = kkind k /\
  kvals k' = if assoc_eqb (kassoc k) a then option_map (select m) (kvals k) else kvals k.

Definition kids_len (a : assoc) (N : nat) (ks : list kid) : Prop :=
  forall k v, In k ks -> kassoc k = a -> kvals k = Some v -> length v = N.

Definition valued (a : assoc) (ks : list kid) : Prop :=
  forall k, In k ks -> kassoc k = a -> kvals k <> None.

(* no text child of association a / zero-length text arrays cannot be written *)
Definition text_free (a : assoc) (ks : list kid) : Prop := forall k, In k ks -> kassoc k = a -> kkind k <> KText.

Lemma text_blocked_false fl k (v : vals) : k <> KText \/ 0 < length v -> text_blocked fl k v = false.
Proof.
  intros H. unfold text_blocked, text_empty. destruct H as [H|H].
  - destruct k; try reflexivity. congruence.
  - destruct v; [simpl in H; lia|]. rewrite andb_false_r. reflexivity.
Qed.

Lemma text_empty_false k (v : vals) : k <> KText \/ 0 < length v -> text_empty k v = false.
Proof.
  unfold text_empty. intros [H|H].
  - destruct k; try reflexivity. congruence.
  - destruct v; [simpl in H; lia|]. apply andb_false_r.
Qed.

Lemma assoc_eqb_eq a b : assoc_eqb a b = true <-> a = b.
Proof. destruct a, b; simpl; split; intros H; try reflexivity; try discriminate. Qed.

Lemma rcv_done fl I I' a N : forall ks ks',
  kids_len a N ks -> norm_all N I = Some I' ->
  rcv fl I a (count (keep_mask N I')) ks = (ks', None) ->
  Forall2 (rcv_kid (keep_mask N I') a) ks ks'.
Proof.
  induction ks as [|k r IH]; intros ks' HL HN H; simpl in H.
  - inversion H. constructor.
  - assert (HLr : kids_len a N r) by (intros k0 v0 Hin; apply HL; right; exact Hin).
    destruct (assoc_eqb (kassoc k) a) eqn:Ea.
    + pose proof (proj1 (assoc_eqb_eq _ _) Ea) as Ea'.
      destruct (kvals k) as [v|] eqn:Ev.
      * assert (Lv : length v = N) by (apply (HL k v); [left; reflexivity|exact Ea'|exact Ev]).
        unfold np_delete in H. rewrite Lv, HN in H.
        rewrite format_length_eq in H by (rewrite select_length; rewrite ?keep_mask_length; auto).
        destruct (text_blocked fl (kkind k) (select (keep_mask N I') v)); [discriminate|].
        destruct (rcv fl I a (count (keep_mask N I')) r) as [r' e] eqn:R. injection H as E1 E2; subst ks' e.
        constructor; [|apply IH; auto].
        unfold rcv_kid. simpl. rewrite Ev. repeat split; auto.
        rewrite Ea. reflexivity.
      * destruct (f_skip_valueless fl); [|inversion H].
        destruct (rcv fl I a (count (keep_mask N I')) r) as [r' e] eqn:R. injection H as E1 E2; subst ks' e.
        constructor; [|apply IH; auto].
        unfold rcv_kid. rewrite Ev. repeat split; auto.
        rewrite Ea. reflexivity.
    + destruct (rcv fl I a (count (keep_mask N I')) r) as [r' e] eqn:R. injection H as E1 E2; subst ks' e.
      constructor; [|apply IH; auto].
      unfold rcv_kid. rewrite Ea. repeat split; auto.
Qed.

Lemma rcv_total fl I I' a N : forall ks,
  kids_len a N ks -> norm_all N I = Some I' ->
  (f_skip_valueless fl = true \/ valued a ks) ->
  (text_free a ks \/ 0 < count (keep_mask N I')) ->
  exists ks', rcv fl I a (count (keep_mask N I')) ks = (ks', None).
Proof.
  induction ks as [|k r IH]; intros HL HN HS HT; simpl.
  - eexists; reflexivity.
  - assert (HLr : kids_len a N r) by (intros k0 v0 Hin; apply HL; right; exact Hin).
    assert (HSr : f_skip_valueless fl = true \/ valued a r).
    { destruct HS as [HS|HS]; [left; exact HS|right]. intros k0 Hin. apply HS. right. exact Hin. }
    assert (HTr : text_free a r \/ 0 < count (keep_mask N I')).
    { destruct HT as [HT|HT]; [left|right; exact HT]. intros k0 Hin. apply HT. right. exact Hin. }
    destruct (IH HLr HN HSr HTr) as [r' Hr]. rewrite Hr.
    destruct (assoc_eqb (kassoc k) a) eqn:Ea; [|eexists; reflexivity].
    apply assoc_eqb_eq in Ea.
    destruct (kvals k) as [v|] eqn:Ev.
    + assert (Lv : length v = N) by (apply (HL k v); [left; reflexivity|exact Ea|exact Ev]).
      unfold np_delete. rewrite Lv, HN.
      rewrite format_length_eq by (rewrite select_length; rewrite ?keep_mask_length; auto).
      rewrite text_blocked_false; [eexists; reflexivity|].
      destruct HT as [HT|HT]; [left; apply (HT k); [left; reflexivity|exact Ea]|right].
      rewrite select_length by (rewrite keep_mask_length; auto). exact HT.
    + destruct HS as [HS|HS]; [rewrite HS; eexists; reflexivity|].
      exfalso. apply (HS k); [left; reflexivity|exact Ea|exact Ev].
Qed.

Lemma rcv_kid_keeps_text_free m a b ks ks' : Forall2 (rcv_kid m a) ks ks' -> text_free b ks -> text_free b ks'.
Proof.
  intros H HT k' Hin Hb.
  apply In_nth_error in Hin as [p Hp].
  destruct (Forall2_nth_r _ _ _ _ _ H Hp) as [k [Hk (E1 & E2 & E3 & E4)]].
  rewrite E3. apply (HT k); [eapply nth_error_In; eauto|congruence].
Qed.

(* two passes (vertex children, then cell children) make a selection of the children *)
Lemma rcv_compose vm cm ks ks1 ks2 :
  Forall2 (rcv_kid vm AVertex) ks ks1 -> Forall2 (rcv_kid cm ACell) ks1 ks2 -> Forall2 (sel_kid vm cm) ks ks2.
Proof.
  intros H1. revert ks2. induction H1 as [|k k1 r r1 Hk H1 IH]; intros ks2 H2; inversion H2; subst; constructor.
  - destruct Hk as (A1 & A2 & A3 & A4). destruct H3 as (B1 & B2 & B3 & B4).
    unfold sel_kid. rewrite B1, B2, B3, A1, A2, A3. repeat split; auto.
    rewrite B4, A2, A4. destruct (kassoc k); simpl; try reflexivity.
  - apply IH. assumption.
Qed.

Lemma rcv_kid_keeps_other m a b ks ks' N :
  a <> b -> Forall2 (rcv_kid m a) ks ks' -> kids_len b N ks -> kids_len b N ks'.
Proof.
  intros Hab H HL k' v' Hin Hb Hv.
  apply In_nth_error in Hin as [p Hp].
  destruct (Forall2_nth_r _ _ _ _ _ H Hp) as [k [Hk (E1 & E2 & E3 & E4)]].
  rewrite E2 in Hb.
  assert (assoc_eqb (kassoc k) a = false).
  { destruct (assoc_eqb (kassoc k) a) eqn:E; [|reflexivity]. apply assoc_eqb_eq in E. congruence. }
  rewrite H0 in E4. apply (HL k v'); [eapply nth_error_In; eauto|exact Hb|congruence].
Qed.

Lemma rcv_kid_keeps_valued m a b ks ks' :
  Forall2 (rcv_kid m a) ks ks' -> valued b ks -> valued b ks'.
Proof.
  intros H HV k' Hin Hb Hn.
  apply In_nth_error in Hin as [p Hp].
  destruct (Forall2_nth_r _ _ _ _ _ H Hp) as [k [Hk (E1 & E2 & E3 & E4)]].
  rewrite E2 in Hb. apply (HV k); [eapply nth_error_In; eauto|exact Hb|].
  rewrite Hn in E4. destruct (assoc_eqb (kassoc k) a); destruct (kvals k); simpl in E4; congruence.
Qed.

Lemma wf_kids_len_v o : wf o -> kids_len AVertex (length (verts o)) (kids o).
Proof.
  intros (_ & Hk & _) k v Hin Ha Hv. rewrite Forall_forall in Hk. specialize (Hk k Hin).
  unfold kid_ok in Hk. rewrite Hv, Ha in Hk. exact Hk.
Qed.

Lemma wf_kids_len_c o : wf o -> kids_len ACell (length (cells o)) (kids o).
Proof.
  intros (_ & Hk & _) k v Hin Ha Hv. rewrite Forall_forall in Hk. specialize (Hk k Hin).
  unfold kid_ok in Hk. rewrite Hv, Ha in Hk. exact Hk.
Qed.

(* ================================================================== cell masks *)
Lemma cell_kept_wf m : forall c, cell_ok (length m) c -> cell_kept m c = Some (forallb (fun v => nth v m false) c).
Proof.
  induction c as [|v r IH]; intros H; simpl; [reflexivity|].
  inversion H; subst. rewrite IH by assumption.
  destruct (nth_error m v) as [b|] eqn:E; [|apply nth_error_None in E; lia].
  rewrite (nth_error_nth _ _ false E). reflexivity.
Qed.

Lemma cells_kept_wf m : forall cs, Forall (cell_ok (length m)) cs -> cells_kept m cs = Some (cell_mask m cs).
Proof.
  induction cs as [|c r IH]; intros H; simpl; [reflexivity|].
  inversion H; subst. rewrite cell_kept_wf, IH by assumption. reflexivity.
Qed.

Lemma cell_mask_length m cs : length (cell_mask m cs) = length cs.
Proof. apply map_length. Qed.

Lemma cell_mask_closed m cs : closed m (cell_mask m cs) cs.
Proof.
  intros j c Hj Hc. unfold cell_mask in Hj. rewrite nth_error_map, Hc in Hj. simpl in Hj.
  assert (E : forallb (fun v => nth v m false) c = true) by congruence.
  apply Forall_forall. intros v Hv. rewrite forallb_forall in E. apply nth_nth_error_true. apply E. exact Hv.
Qed.

(* kept cells: exactly those all of whose vertices are kept *)
Lemma cell_mask_true m cs j c : nth_error cs j = Some c ->
  (nth_error (cell_mask m cs) j = Some true <-> Forall (fun v => nth_error m v = Some true) c).
Proof.
  intros Hc. unfold cell_mask. rewrite nth_error_map, Hc. simpl. split.
  - intros H. assert (E : forallb (fun v => nth v m false) c = true) by congruence.
    apply Forall_forall. intros v Hv. rewrite forallb_forall in E.
    apply nth_nth_error_true. apply E. exact Hv.
  - intros H. f_equal. apply forallb_forall. intros v Hv. rewrite Forall_forall in H.
    apply nth_nth_error_true. apply H. exact Hv.
Qed.

Lemma new_index_rank_sel vm cm cs : closed vm cm cs -> length cm = length cs ->
  map (map (new_index vm)) (select cm cs) = map (map (rank vm)) (select cm cs).
Proof.
  intros Hcl L. apply map_ext_in. intros c Hin. apply map_ext_in. intros v Hv.
  apply In_nth_error in Hin as [q Hq].
  destruct (select_from cm cs q c L Hq) as [j [H1 [_ H3]]].
  specialize (Hcl j c H1 H3). rewrite Forall_forall in Hcl. specialize (Hcl v Hv).
  unfold new_index. apply nth_nth_error_true in Hcl. rewrite Hcl. reflexivity.
Qed.

(* ================================================================== remove_cells *)
Lemma remove_cells_done fl o I o' :
  kids_len ACell (length (cells o)) (kids o) -> remove_cells fl o I = Done o' ->
  exists I', norm_all (length (cells o)) I = Some I' /\
    ok o' = ok o /\ verts o' = verts o /\
    cells o' = select (keep_mask (length (cells o)) I') (cells o) /\
    Forall2 (rcv_kid (keep_mask (length (cells o)) I') ACell) (kids o) (kids o').
Proof.
  intros HL. unfold remove_cells.
  destruct (check_max (length (cells o)) I); [|discriminate].
  destruct (np_delete (cells o) I) as [cs'|] eqn:D; [|discriminate].
  apply np_delete_ok in D as [I' [HN ->]]. simpl.
  rewrite select_length by (rewrite keep_mask_length; reflexivity).
  destruct (rcv fl I ACell _ (kids o)) as [ks' e] eqn:R. unfold finish. simpl.
  destruct e; [discriminate|]. intros H; inversion H; subst. simpl.
  exists I'. repeat split; auto. eapply rcv_done; eauto.
Qed.

Definition text_safe_rc (o : obj) (I : list Z) : Prop :=
  text_free ACell (kids o) \/
  forall I', norm_all (length (cells o)) I = Some I' -> 0 < count (keep_mask (length (cells o)) I').

Lemma remove_cells_failed fl o I e o' :
  kids_len ACell (length (cells o)) (kids o) ->
  (f_skip_valueless fl = true \/ valued ACell (kids o)) -> text_safe_rc o I ->
  remove_cells fl o I = Failed e o' -> o' = o.
Proof.
  intros HL HS HT. unfold remove_cells.
  destruct (check_max (length (cells o)) I); [|intros H; inversion H; reflexivity].
  destruct (np_delete (cells o) I) as [cs'|] eqn:D; [|intros H; inversion H; reflexivity].
  apply np_delete_ok in D as [I' [HN ->]]. simpl.
  rewrite select_length by (rewrite keep_mask_length; reflexivity).
  destruct (rcv_total fl I I' ACell (length (cells o)) (kids o) HL HN HS) as [ks' Hr].
  { destruct HT as [HT|HT]; [left; exact HT|right; apply HT; exact HN]. }
  rewrite Hr. unfold finish. simpl. discriminate.
Qed.

(* ================================================================== remove_vertices *)
Definition vmask (o : obj) (I' : list nat) : list bool := keep_mask (length (verts o)) I'.

Lemma points_rv_done fl o I o' : wf o -> ok o = OPoints -> points_remove_vertices fl o I = Done o' ->
  exists I', norm_all (length (verts o)) I = Some I' /\
             selection (vmask o I') (cell_mask (vmask o I') (cells o)) o o'.
Proof.
  intros W Hp. unfold points_remove_vertices.
  destruct (check_max (length (verts o)) I); [|discriminate].
  destruct (np_delete (verts o) I) as [vs'|] eqn:D; [|discriminate].
  apply np_delete_ok in D as [I' [HN ->]]. simpl.
  rewrite select_length by (rewrite keep_mask_length; reflexivity).
  destruct (rcv fl I AVertex _ (kids o)) as [ks' e] eqn:R. unfold finish. simpl.
  destruct e; [discriminate|]. intros H; inversion H; subst.
  exists I'. split; [exact HN|].
  pose proof (rcv_done fl I I' AVertex (length (verts o)) (kids o) ks' (wf_kids_len_v o W) HN R) as HK.
  destruct W as (Wc & Wk & Wp). destruct (Wp Hp) as [Wp' _]. clear Wp. rename Wp' into Wp.
  unfold selection, vmask. simpl. rewrite Wp. simpl.
  split; [apply keep_mask_length|]. split; [reflexivity|].
  split; [intros j c Hj; destruct j; discriminate|].
  split; [reflexivity|]. split; [reflexivity|]. split; [rewrite ?select_nil_r; reflexivity|].
  clear R H. induction HK as [|k k' r r' Hk HK IH]; constructor.
  - destruct Hk as (A1 & A2 & A3 & A4). unfold sel_kid. repeat split; auto.
    rewrite A4. assert (Hko : kid_ok o k) by (inversion Wk; assumption).
    unfold kid_ok in Hko. rewrite Wp in Hko.
    destruct (kassoc k); simpl; try reflexivity.
    destruct (kvals k) as [v|]; simpl; [|reflexivity]. simpl in Hko.
    destruct v; [|discriminate]. reflexivity.
  - apply IH. inversion Wk; assumption.
Qed.

Lemma points_rv_failed fl o I e o' : wf o ->
  (f_skip_valueless fl = true \/ valued AVertex (kids o)) ->
  (text_free AVertex (kids o) \/ forall I', norm_all (length (verts o)) I = Some I' -> 0 < count (vmask o I')) ->
  points_remove_vertices fl o I = Failed e o' -> o' = o.
Proof.
  intros W HS HT. unfold points_remove_vertices.
  destruct (check_max (length (verts o)) I); [|intros H; inversion H; reflexivity].
  destruct (np_delete (verts o) I) as [vs'|] eqn:D; [|intros H; inversion H; reflexivity].
  apply np_delete_ok in D as [I' [HN ->]]. simpl.
  rewrite select_length by (rewrite keep_mask_length; reflexivity).
  destruct (rcv_total fl I I' AVertex (length (verts o)) (kids o) (wf_kids_len_v o W) HN HS) as [ks' Hr].
  { destruct HT as [HT|HT]; [left; exact HT|right; apply HT; exact HN]. }
  rewrite Hr. unfold finish. simpl. discriminate.
Qed.

Lemma cell_rv_done fl o I o' : wf o -> cell_remove_vertices fl o I = Done o' ->
  exists I', norm_all (length (verts o)) I = Some I' /\
             selection (vmask o I') (cell_mask (vmask o I') (cells o)) o o'.
Proof.
  intros W. unfold cell_remove_vertices. cbv zeta.
  destruct (check_max (length (verts o)) I); [|discriminate].
  destruct (norm_all (length (verts o)) I) as [I'|] eqn:HN; [|discriminate].
  unfold vmask. remember (keep_mask (length (verts o)) I') as m eqn:Em.
  assert (Lm : length m = length (verts o)) by (subst m; apply keep_mask_length).
  simpl. rewrite select_length by exact Lm.
  destruct (rcv fl I AVertex (count m) (kids o)) as [ks1 e1] eqn:R1.
  unfold finish; simpl. destruct e1; [discriminate|]. simpl.
  assert (HK1 : Forall2 (rcv_kid m AVertex) (kids o) ks1).
  { subst m. eapply rcv_done; eauto. apply wf_kids_len_v; exact W. }
  rewrite cells_kept_wf by (rewrite Lm; apply W).
  remember (cell_mask m (cells o)) as cm eqn:Ecm.
  assert (Lcm : length cm = length (cells o)) by (subst cm; apply cell_mask_length).
  assert (Hcl : closed m cm (cells o)) by (subst cm; apply cell_mask_closed).
  assert (HL1 : kids_len ACell (length (cells o)) ks1).
  { eapply rcv_kid_keeps_other; [|exact HK1|apply wf_kids_len_c; exact W]. discriminate. }
  destruct (f_guard_cells fl && match where_false cm with [] => true | _ :: _ => false end) eqn:G.
  - intros H; injection H as <-. simpl.
    apply andb_true_iff in G as [_ G]. destruct (where_false cm) eqn:T; [|discriminate].
    pose proof (where_false_nil cm T) as Call.
    exists I'. split; [reflexivity|]. rewrite <- Em, <- Ecm.
    unfold selection. simpl.
    split; [exact Lm|]. split; [exact Lcm|]. split; [exact Hcl|].
    split; [reflexivity|]. split; [reflexivity|]. split.
    + rewrite (select_all_true cm (cells o)) by lia.
      rewrite <- (select_all_true cm (cells o)) at 1 by lia.
      rewrite <- (select_all_true cm (cells o)) at 2 by lia.
      apply new_index_rank_sel; [exact Hcl|exact Lcm].
    + clear R1. revert HL1. induction HK1 as [|k k1 r r1 Hk HK1 IH]; intros HL1; constructor.
      * destruct Hk as (A1 & A2 & A3 & A4). unfold sel_kid. repeat split; auto.
        rewrite A4. destruct (kassoc k) eqn:Ea; simpl; try reflexivity.
        destruct (kvals k) as [v|] eqn:Ev; simpl; [|reflexivity].
        f_equal. symmetry. apply select_all_true; [|lia].
        rewrite Lcm. symmetry. apply (HL1 k1 v); [left; reflexivity|congruence|].
        rewrite A4. simpl. reflexivity.
      * apply IH. intros k0 v0 Hin. apply HL1. right. exact Hin.
  - remember (set_kids (set_verts o (select m (verts o))) ks1) as o2 eqn:Eo2.
    destruct (remove_cells fl o2 (map Z.of_nat (where_false cm))) as [o3|e3 o3] eqn:RC; [|discriminate].
    intros H; injection H as <-.
    apply remove_cells_done in RC; [|subst o2; exact HL1].
    destruct RC as [T' [HT (E1 & E2 & E3 & HK2)]]. subst o2. simpl in *.
    rewrite norm_all_of_nat in HT by (rewrite <- Lcm; apply where_false_lt).
    injection HT as <-.
    rewrite <- Lcm, keep_mask_where_false in E3, HK2.
    exists I'. split; [reflexivity|]. rewrite <- Em, <- Ecm.
    unfold selection. simpl.
    split; [exact Lm|]. split; [exact Lcm|]. split; [exact Hcl|].
    split; [exact E1|]. split; [exact E2|]. split.
    + rewrite E3. apply new_index_rank_sel; [exact Hcl|exact Lcm].
    + eapply rcv_compose; eauto.
Qed.

(* the removal indices hit at least one vertex used by a cell *)
Definition touches (o : obj) (I : list Z) : Prop :=
  forall I', norm_all (length (verts o)) I = Some I' -> exists c v, In c (cells o) /\ In v c /\ In v I'.

Lemma touches_where_false o I I' : wf o -> norm_all (length (verts o)) I = Some I' -> touches o I ->
  where_false (cell_mask (keep_mask (length (verts o)) I') (cells o)) <> [].
Proof.
  intros (Wc & _ & _) HN HT. destruct (HT I' HN) as [c [v [Hc [Hv Hi]]]].
  apply In_nth_error in Hc as [j Hj].
  assert (In j (where_false (cell_mask (keep_mask (length (verts o)) I') (cells o)))).
  { apply where_false_spec. unfold cell_mask. rewrite nth_error_map, Hj. simpl. f_equal.
    apply not_true_is_false. intros E. rewrite forallb_forall in E. specialize (E v Hv).
    apply nth_nth_error_true in E.
    rewrite Forall_forall in Wc. specialize (Wc c (nth_error_In _ _ Hj)).
    unfold cell_ok in Wc. rewrite Forall_forall in Wc. specialize (Wc v Hv).
    apply keep_mask_true in E as [_ E]. contradiction. }
  intros E. rewrite E in H. contradiction.
Qed.

Definition valueless_safe (fl : flags) (o : obj) : Prop :=
  f_skip_valueless fl = true \/ (valued AVertex (kids o) /\ valued ACell (kids o)).

(* vertex-/cell-associated text data survive a removal only if at least one vertex / cell survives *)
Definition keeps_some (o : obj) (I : list Z) : Prop :=
  forall I', norm_all (length (verts o)) I = Some I' ->
    0 < count (vmask o I') /\ 0 < count (cell_mask (vmask o I') (cells o)).
Definition text_safe_rv (o : obj) (I : list Z) : Prop :=
  (text_free AVertex (kids o) /\ text_free ACell (kids o)) \/ (ok o = OPoints /\ text_free AVertex (kids o)) \/ keeps_some o I.

Lemma cell_rv_failed fl o I e o' : wf o -> valueless_safe fl o ->
  (f_guard_cells fl = true \/ touches o I) ->
  ((text_free AVertex (kids o) /\ text_free ACell (kids o)) \/ keeps_some o I) ->
  cell_remove_vertices fl o I = Failed e o' -> o' = o.
Proof.
  intros W HS HG HT. unfold cell_remove_vertices. cbv zeta.
  destruct (check_max (length (verts o)) I); [|intros H; injection H as _ <-; reflexivity].
  destruct (norm_all (length (verts o)) I) as [I'|] eqn:HN; [|intros H; injection H as _ <-; reflexivity].
  assert (HT1 : text_free AVertex (kids o) \/ 0 < count (keep_mask (length (verts o)) I')).
  { destruct HT as [[HT _]|HT]; [left; exact HT|right; apply (HT I' HN)]. }
  assert (HT2 : text_free ACell (kids o) \/ 0 < count (cell_mask (keep_mask (length (verts o)) I') (cells o))).
  { destruct HT as [[_ HT]|HT]; [left; exact HT|right; apply (HT I' HN)]. }
  remember (keep_mask (length (verts o)) I') as m eqn:Em.
  assert (Lm : length m = length (verts o)) by (subst m; apply keep_mask_length).
  simpl. rewrite select_length by exact Lm.
  assert (HS1 : f_skip_valueless fl = true \/ valued AVertex (kids o)) by (destruct HS as [HS|[HS _]]; auto).
  assert (R1 : exists ks1, rcv fl I AVertex (count m) (kids o) = (ks1, None)).
  { subst m. apply rcv_total; auto. apply wf_kids_len_v; exact W. }
  destruct R1 as [ks1 R1]. rewrite R1. unfold finish; simpl.
  assert (HK1 : Forall2 (rcv_kid m AVertex) (kids o) ks1).
  { subst m. eapply rcv_done; eauto. apply wf_kids_len_v; exact W. }
  rewrite cells_kept_wf by (rewrite Lm; apply W).
  remember (cell_mask m (cells o)) as cm eqn:Ecm.
  assert (Lcm : length cm = length (cells o)) by (subst cm; apply cell_mask_length).
  assert (HL1 : kids_len ACell (length (cells o)) ks1).
  { eapply rcv_kid_keeps_other; [|exact HK1|apply wf_kids_len_c; exact W]. discriminate. }
  assert (HS2 : f_skip_valueless fl = true \/ valued ACell ks1).
  { destruct HS as [HS|[_ HS]]; [left; exact HS|right]. eapply rcv_kid_keeps_valued; eauto. }
  assert (HT2' : text_free ACell ks1 \/ 0 < count cm).
  { destruct HT2 as [H|H]; [left; eapply rcv_kid_keeps_text_free; eauto|right; exact H]. }
  destruct (f_guard_cells fl && match where_false cm with [] => true | _ :: _ => false end) eqn:G; [discriminate|].
  assert (HTw : where_false cm <> []).
  { destruct HG as [HG|HG].
    - rewrite HG in G. simpl in G. destruct (where_false cm); [discriminate|]. discriminate.
    - subst cm m. apply (touches_where_false o I I'); assumption. }
  remember (set_kids (set_verts o (select m (verts o))) ks1) as o2 eqn:Eo2.
  destruct (remove_cells fl o2 (map Z.of_nat (where_false cm))) as [o3|e3 o3] eqn:RC; [discriminate|].
  exfalso. unfold remove_cells in RC. subst o2. simpl in RC.
  rewrite check_max_of_nat in RC by (auto; rewrite <- Lcm; apply where_false_lt).
  unfold np_delete in RC. rewrite norm_all_of_nat in RC by (rewrite <- Lcm; apply where_false_lt).
  rewrite <- Lcm, keep_mask_where_false in RC.
  rewrite select_length in RC by exact Lcm.
  destruct (rcv_total fl (map Z.of_nat (where_false cm)) (where_false cm) ACell (length (cells o)) ks1 HL1) as [ks2 R2]; auto.
  { apply norm_all_of_nat. rewrite <- Lcm. apply where_false_lt. }
  { rewrite <- Lcm, keep_mask_where_false. exact HT2'. }
  rewrite <- Lcm, keep_mask_where_false in R2. rewrite R2 in RC. unfold finish in RC. simpl in RC. discriminate.
Qed.

(* ================================================================== remove_vertices, both classes *)
Lemma remove_vertices_done fl o I o' : wf o -> remove_vertices fl o I = Done o' ->
  exists I', norm_all (length (verts o)) I = Some I' /\
             selection (vmask o I') (cell_mask (vmask o I') (cells o)) o o'.
Proof.
  intros W. unfold remove_vertices. destruct (ok o) eqn:Ek.
  - apply points_rv_done; assumption.
  - apply cell_rv_done; assumption.
  - apply cell_rv_done; assumption.
Qed.

Lemma remove_vertices_failed fl o I e o' : wf o -> valueless_safe fl o ->
  (f_guard_cells fl = true \/ ok o = OPoints \/ touches o I) -> text_safe_rv o I ->
  remove_vertices fl o I = Failed e o' -> o' = o.
Proof.
  intros W HS HG HT. unfold remove_vertices. destruct (ok o) eqn:Ek.
  - apply points_rv_failed; [exact W| |].
    + destruct HS as [HS|[HS _]]; auto.
    + destruct HT as [[HT _]|[[_ HT]|HT]]; [left; exact HT|left; exact HT|right; intros I' HN; apply (HT I' HN)].
  - apply cell_rv_failed; auto.
    + destruct HG as [HG|[HG|HG]]; auto. discriminate.
    + destruct HT as [HT|[[HT _]|HT]]; [left; exact HT|congruence|right; exact HT].
  - apply cell_rv_failed; auto.
    + destruct HG as [HG|[HG|HG]]; auto. discriminate.
    + destruct HT as [HT|[[HT _]|HT]]; [left; exact HT|congruence|right; exact HT].
Qed.

(* ================================================================== masked copy *)
Definition mask_or_all (om : option (list bool)) (n : nat) : list bool :=
  match om with Some m => m | None => repeat true n end.

Lemma fill_masked_all_true nd : forall m v, length m = length v -> count m = length m -> fill_masked nd m v = v.
Proof.
  induction m as [|b m IH]; intros [|x v] L C; simpl in *; try discriminate; try reflexivity.
  pose proof (count_le_length m). destruct b; [|lia]. f_equal. apply IH; lia.
Qed.

Lemma data_copy_some fl n m k k' v : kvals k = Some v -> n = count m -> data_copy fl n (Some m) k = Ok k' ->
  length m = length v /\ kid_id k' = kid_id k /\ kassoc k' = kassoc k /\ kkind k' = kkind k /\ kvals k' = Some (select m v).
Proof.
  intros Hv Hn. unfold data_copy. rewrite Hv.
  destruct (Nat.eqb (length m) (length v)) eqn:E; simpl; [|discriminate].
  apply Nat.eqb_eq in E.
  assert (Hsel : (if n <? length v then select m v else fill_masked (ndv (kkind k)) m v) = select m v).
  { destruct (n <? length v) eqn:E2; [reflexivity|]. apply Nat.ltb_ge in E2.
    pose proof (count_le_length m).
    rewrite fill_masked_all_true by lia. symmetry. apply select_all_true; lia. }
  destruct (negb (n <? length v) && dkind_eqb (kkind k) KText && negb (f_copy_text fl)); [discriminate|].
  rewrite Hsel. rewrite format_length_eq by (rewrite select_length; lia).
  destruct (text_blocked fl (kkind k) (select m v)); [discriminate|].
  intros H; injection H as <-. simpl. auto.
Qed.

Lemma data_copy_plain fl n om k k' : (kvals k = None \/ om = None) -> data_copy fl n om k = Ok k' ->
  kid_id k' = kid_id k /\ kassoc k' = kassoc k /\ kkind k' = kkind k /\ kvals k' = kvals k.
Proof.
  intros H. unfold data_copy. destruct H as [H|H]; rewrite H.
  - intros E; injection E as <-. simpl. auto.
  - destruct (kvals k); intros E; injection E as <-; simpl; auto.
Qed.

Lemma select_repeat_true {A} (v : list A) n : length v = n -> select (repeat true n) v = v.
Proof. intros H. apply select_all_true; rewrite ?count_repeat_true, repeat_length; auto. Qed.

Lemma copy_kids_sel fl Nv Nc nv nc ovm ocm : forall ks ks',
  kids_len AVertex Nv ks -> kids_len ACell Nc ks ->
  nv = count (mask_or_all ovm Nv) ->
  (Forall not_cell ks \/ nc = count (mask_or_all ocm Nc)) ->
  copy_kids fl nv nc ovm ocm ks = Ok ks' ->
  Forall2 (sel_kid (mask_or_all ovm Nv) (mask_or_all ocm Nc)) ks ks'.
Proof.
  induction ks as [|k r IH]; intros ks' HLv HLc Hnv Hnc H; simpl in H.
  - injection H as <-. constructor.
  - assert (HLv' : kids_len AVertex Nv r) by (intros k0 v0 Hin; apply HLv; right; exact Hin).
    assert (HLc' : kids_len ACell Nc r) by (intros k0 v0 Hin; apply HLc; right; exact Hin).
    assert (Hnc' : Forall not_cell r \/ nc = count (mask_or_all ocm Nc)).
    { destruct Hnc as [Hnc|Hnc]; [left; inversion Hnc; assumption|right; exact Hnc]. }
    destruct (data_copy fl _ _ k) as [k'|] eqn:D; [|discriminate].
    destruct (copy_kids fl nv nc ovm ocm r) as [r'|] eqn:C; [|discriminate].
    injection H as <-. constructor; [|apply IH; auto].
    unfold sel_kid.
    destruct (kassoc k) eqn:Ea.
    + destruct (kvals k) as [v|] eqn:Ev.
      * destruct ovm as [m|].
        -- destruct (data_copy_some fl _ m k k' v Ev Hnv D) as (L & A1 & A2 & A3 & A4). rewrite Ea in A2. simpl. auto.
        -- destruct (data_copy_plain fl _ None k k' (or_intror eq_refl) D) as (A1 & A2 & A3 & A4).
           rewrite Ea in A2. repeat split; auto. rewrite A4, Ev. simpl. rewrite select_repeat_true; [reflexivity|].
           apply (HLv k v); [left; reflexivity|exact Ea|exact Ev].
      * destruct (data_copy_plain fl _ ovm k k' (or_introl Ev) D) as (A1 & A2 & A3 & A4).
        rewrite Ea in A2. repeat split; auto. rewrite A4, Ev. reflexivity.
    + destruct Hnc as [Hnc|Hnc]; [inversion Hnc; subst; unfold not_cell in *; congruence|].
      destruct (kvals k) as [v|] eqn:Ev.
      * destruct ocm as [m|].
        -- destruct (data_copy_some fl _ m k k' v Ev Hnc D) as (L & A1 & A2 & A3 & A4). rewrite Ea in A2. simpl. auto.
        -- destruct (data_copy_plain fl _ None k k' (or_intror eq_refl) D) as (A1 & A2 & A3 & A4).
           rewrite Ea in A2. repeat split; auto. rewrite A4, Ev. simpl. rewrite select_repeat_true; [reflexivity|].
           apply (HLc k v); [left; reflexivity|exact Ea|exact Ev].
      * destruct (data_copy_plain fl _ ocm k k' (or_introl Ev) D) as (A1 & A2 & A3 & A4).
        rewrite Ea in A2. repeat split; auto. rewrite A4, Ev. reflexivity.
    + destruct (data_copy_plain fl _ None k k' (or_intror eq_refl) D) as (A1 & A2 & A3 & A4).
      rewrite Ea in A2. repeat split; auto.
Qed.

Lemma sel_kid_no_cell vm cm1 cm2 ks ks' :
  Forall not_cell ks -> Forall2 (sel_kid vm cm1) ks ks' -> Forall2 (sel_kid vm cm2) ks ks'.
Proof.
  intros Hn H. induction H as [|k k' r r' Hk H IH]; constructor.
  - inversion Hn; subst. destruct Hk as (A1 & A2 & A3 & A4). unfold sel_kid. repeat split; auto.
    rewrite A4. unfold not_cell in *. destruct (kassoc k); try reflexivity. congruence.
  - apply IH. inversion Hn; assumption.
Qed.

Lemma cell_mask_all_true n cs : Forall (cell_ok n) cs -> cell_mask (repeat true n) cs = repeat true (length cs).
Proof.
  induction cs as [|c r IH]; intros H; simpl; [reflexivity|]. inversion H; subst. rewrite IH by assumption. f_equal.
  apply forallb_forall. intros v Hv. unfold cell_ok in H2. rewrite Forall_forall in H2. specialize (H2 v Hv).
  apply nth_nth_error_true. apply nth_error_repeat. exact H2.
Qed.

Lemma closed_all_true n cm cs : Forall (cell_ok n) cs -> closed (repeat true n) cm cs.
Proof.
  intros H j c _ Hc. rewrite Forall_forall in H. specialize (H c (nth_error_In _ _ Hc)).
  unfold cell_ok in H. apply Forall_forall. intros v Hv. rewrite Forall_forall in H. apply nth_error_repeat. apply H. exact Hv.
Qed.

Lemma rank_all_true_cells n cs : Forall (cell_ok n) cs -> map (map (rank (repeat true n))) cs = cs.
Proof.
  intros H. rewrite <- (map_id cs) at 2. apply map_ext_in. intros c Hc.
  rewrite <- (map_id c) at 2. apply map_ext_in. intros v Hv.
  rewrite Forall_forall in H. specialize (H c Hc). unfold cell_ok in H. rewrite Forall_forall in H. specialize (H v Hv).
  apply rank_repeat_true. lia.
Qed.

Lemma Forall_select {A} (P : A -> Prop) : forall m l, Forall P l -> Forall P (select m l).
Proof.
  intros m l H. apply Forall_forall. intros x Hx. apply select_In in Hx. rewrite Forall_forall in H. auto.
Qed.

Definition copy_cmask (o : obj) (vm : list bool) (ocm : option (list bool)) : list bool :=
  match ocm with Some c => c | None => cell_mask vm (cells o) end.

(* an explicit cell mask: none on Points, and of the cells' length (numpy accepts a zero-length boolean index on any array) *)
Definition cmask_ok (o : obj) (ocm : option (list bool)) : Prop :=
  (ok o = OPoints -> ocm = None) /\ (forall c, ocm = Some c -> length c = length (cells o)).

Lemma cmask_ok_none o : cmask_ok o None.
Proof. split; [reflexivity|intros c E; discriminate]. Qed.

Lemma masked_copy_done fl o ovm ocm o' : wf o -> (ovm = None \/ ocm = None) -> cmask_ok o ocm ->
  masked_copy fl o ovm ocm = Done o' ->
  selection (mask_or_all ovm (length (verts o))) (copy_cmask o (mask_or_all ovm (length (verts o))) ocm) o o'.
Proof.
  intros W Hex [Hpt Hlen]. pose proof W as (Wc & Wk & Wp).
  pose proof (wf_kids_len_v o W) as HLv. pose proof (wf_kids_len_c o W) as HLc.
  unfold masked_copy. destruct (ok o) eqn:Ek.
  - (* Points *)
    rewrite (Hpt eq_refl). destruct (Wp eq_refl) as [Wp1 Wp2]. unfold copy_cmask. rewrite Wp1. simpl cell_mask.
    destruct ovm as [m|]; simpl mask_or_all.
    + destruct (Nat.eqb (length m) (length (verts o))) eqn:E; simpl; [|discriminate]. apply Nat.eqb_eq in E.
      destruct (copy_kids fl _ 0 (Some m) (Some m) (kids o)) as [ks|] eqn:C; [|discriminate].
      intros H; injection H as <-. unfold selection. simpl. rewrite Wp1.
      split; [exact E|]. split; [reflexivity|]. split; [intros j c Hj; destruct j; discriminate|].
      split; [simpl; congruence|]. split; [reflexivity|]. split; [rewrite ?select_nil_r; reflexivity|].
      apply (sel_kid_no_cell m m []); [exact Wp2|].
      apply (copy_kids_sel fl (length (verts o)) (length (cells o)) _ _ (Some m) (Some m)) in C; auto.
      simpl. apply select_length. exact E.
    + destruct (copy_kids fl _ 0 None None (kids o)) as [ks|] eqn:C; [|discriminate].
      intros H; injection H as <-. unfold selection. simpl. rewrite Wp1.
      split; [apply repeat_length|]. split; [reflexivity|]. split; [intros j c Hj; destruct j; discriminate|].
      split; [simpl; congruence|]. split; [rewrite select_repeat_true; reflexivity|]. split; [reflexivity|].
      apply (sel_kid_no_cell _ (mask_or_all None (length (cells o))) []); [exact Wp2|].
      apply (copy_kids_sel fl (length (verts o)) (length (cells o)) _ _ None None) in C; auto.
      simpl. rewrite count_repeat_true. reflexivity.
  - (* Curve *)
    destruct ovm as [m|]; simpl mask_or_all.
    + destruct Hex as [Hex|Hex]; [discriminate|]. subst ocm. unfold copy_cmask.
      destruct (Nat.eqb (length m) (length (verts o))) eqn:E; simpl; [|discriminate]. apply Nat.eqb_eq in E.
      rewrite cells_kept_wf by (rewrite E; exact Wc).
      rewrite cell_mask_length, Nat.eqb_refl. simpl.
      destruct (copy_kids fl _ _ (Some m) (Some (cell_mask m (cells o))) (kids o)) as [ks|] eqn:C; [|discriminate].
      intros H; injection H as <-. unfold selection. simpl.
      split; [exact E|]. split; [apply cell_mask_length|]. split; [apply cell_mask_closed|].
      split; [simpl; congruence|]. split; [reflexivity|]. split.
      * rewrite select_map. change (new_id m) with (new_index m).
        apply new_index_rank_sel; [apply cell_mask_closed|apply cell_mask_length].
      * apply (copy_kids_sel fl (length (verts o)) (length (cells o)) _ _ (Some m) (Some (cell_mask m (cells o)))) in C; auto.
        -- simpl. apply select_length. exact E.
        -- right. simpl. apply select_length. rewrite map_length. apply cell_mask_length.
    + destruct ocm as [c|]; unfold copy_cmask.
      * pose proof (Hlen c eq_refl) as E. rewrite E, Nat.eqb_refl. simpl.
        destruct (copy_kids fl _ _ None (Some c) (kids o)) as [ks|] eqn:C; [|discriminate].
        intros H; injection H as <-. unfold selection. simpl.
        split; [apply repeat_length|]. split; [exact E|]. split; [apply closed_all_true; exact Wc|].
        split; [simpl; congruence|]. split; [rewrite select_repeat_true; reflexivity|]. split.
        -- rewrite rank_all_true_cells; [reflexivity|]. apply Forall_select. exact Wc.
        -- apply (copy_kids_sel fl (length (verts o)) (length (cells o)) _ _ None (Some c)) in C; auto.
           ++ simpl. rewrite count_repeat_true. reflexivity.
           ++ right. simpl. apply select_length. exact E.
      * destruct (copy_kids fl _ _ None None (kids o)) as [ks|] eqn:C; [|discriminate].
        intros H; injection H as <-. unfold selection. simpl.
        rewrite cell_mask_all_true by exact Wc.
        split; [apply repeat_length|]. split; [apply repeat_length|]. split; [apply closed_all_true; exact Wc|].
        split; [simpl; congruence|]. split; [rewrite select_repeat_true; reflexivity|]. split.
        -- rewrite select_repeat_true by reflexivity. rewrite rank_all_true_cells; [reflexivity|exact Wc].
        -- apply (copy_kids_sel fl (length (verts o)) (length (cells o)) _ _ None None) in C; auto.
           ++ simpl. rewrite count_repeat_true. reflexivity.
           ++ right. simpl. rewrite count_repeat_true. reflexivity.
  - (* Surface: same code path *)
    destruct ovm as [m|]; simpl mask_or_all.
    + destruct Hex as [Hex|Hex]; [discriminate|]. subst ocm. unfold copy_cmask.
      destruct (Nat.eqb (length m) (length (verts o))) eqn:E; simpl; [|discriminate]. apply Nat.eqb_eq in E.
      rewrite cells_kept_wf by (rewrite E; exact Wc).
      rewrite cell_mask_length, Nat.eqb_refl. simpl.
      destruct (copy_kids fl _ _ (Some m) (Some (cell_mask m (cells o))) (kids o)) as [ks|] eqn:C; [|discriminate].
      intros H; injection H as <-. unfold selection. simpl.
      split; [exact E|]. split; [apply cell_mask_length|]. split; [apply cell_mask_closed|].
      split; [simpl; congruence|]. split; [reflexivity|]. split.
      * rewrite select_map. change (new_id m) with (new_index m).
        apply new_index_rank_sel; [apply cell_mask_closed|apply cell_mask_length].
      * apply (copy_kids_sel fl (length (verts o)) (length (cells o)) _ _ (Some m) (Some (cell_mask m (cells o)))) in C; auto.
        -- simpl. apply select_length. exact E.
        -- right. simpl. apply select_length. rewrite map_length. apply cell_mask_length.
    + destruct ocm as [c|]; unfold copy_cmask.
      * pose proof (Hlen c eq_refl) as E. rewrite E, Nat.eqb_refl. simpl.
        destruct (copy_kids fl _ _ None (Some c) (kids o)) as [ks|] eqn:C; [|discriminate].
        intros H; injection H as <-. unfold selection. simpl.
        split; [apply repeat_length|]. split; [exact E|]. split; [apply closed_all_true; exact Wc|].
        split; [simpl; congruence|]. split; [rewrite select_repeat_true; reflexivity|]. split.
        -- rewrite rank_all_true_cells; [reflexivity|]. apply Forall_select. exact Wc.
        -- apply (copy_kids_sel fl (length (verts o)) (length (cells o)) _ _ None (Some c)) in C; auto.
           ++ simpl. rewrite count_repeat_true. reflexivity.
           ++ right. simpl. apply select_length. exact E.
      * destruct (copy_kids fl _ _ None None (kids o)) as [ks|] eqn:C; [|discriminate].
        intros H; injection H as <-. unfold selection. simpl.
        rewrite cell_mask_all_true by exact Wc.
        split; [apply repeat_length|]. split; [apply repeat_length|]. split; [apply closed_all_true; exact Wc|].
        split; [simpl; congruence|]. split; [rewrite select_repeat_true; reflexivity|]. split.
        -- rewrite select_repeat_true by reflexivity. rewrite rank_all_true_cells; [reflexivity|exact Wc].
        -- apply (copy_kids_sel fl (length (verts o)) (length (cells o)) _ _ None None) in C; auto.
           ++ simpl. rewrite count_repeat_true. reflexivity.
           ++ right. simpl. rewrite count_repeat_true. reflexivity.
Qed.

Lemma masked_copy_failed fl o ovm ocm e o' : masked_copy fl o ovm ocm = Failed e o' -> o' = o.
Proof.
  unfold masked_copy.
  repeat match goal with
         | |- context [match ?x with _ => _ end] => destruct x
         | |- context [if ?x then _ else _] => destruct x
         end; intros H; try discriminate; injection H as _ <-; reflexivity.
Qed.

(* ================================================================== values setter, add_data *)
Lemma set_values_failed o id v e o' : set_values o id v = Failed e o' -> o' = o.
Proof.
  unfold set_values. destruct (update_kid _ _ _) as [[ks|e0]|]; intros H; try discriminate; injection H as _ <-; reflexivity.
Qed.

Lemma kid_ok_set_kids o ks k : kid_ok (set_kids o ks) k <-> kid_ok o k.
Proof. unfold kid_ok. simpl. reflexivity. Qed.

Lemma update_kid_Forall (P : kid -> Prop) id f : forall ks ks',
  (forall k k', In k ks -> kid_id k = id -> P k -> f k = Ok k' -> P k') ->
  update_kid id f ks = Some (Ok ks') -> Forall P ks -> Forall P ks'.
Proof.
  induction ks as [|k r IH]; intros ks' Hf H HP; simpl in H; [discriminate|].
  inversion HP; subst.
  destruct (Nat.eqb (kid_id k) id) eqn:Eid.
  - destruct (f k) as [k'|] eqn:E; [|discriminate]. injection H as <-. constructor; [|assumption].
    apply (Hf k k'); auto. left; reflexivity. apply Nat.eqb_eq; exact Eid.
  - destruct (update_kid id f r) as [[r'|e]|] eqn:U; try discriminate. injection H as <-.
    constructor; [assumption|]. apply IH; auto. intros k0 k0' Hin. apply Hf. right; exact Hin.
Qed.

(* text data are never padded: the consistency theorems need text arrays that are not shorter than the element count *)
Definition text_fits (o : obj) (k : dkind) (a : assoc) (v : vals) : Prop := k = KText -> n_values o a <= length v.
Definition set_fits (o : obj) (id : nat) (v : vals) : Prop :=
  forall k, In k (kids o) -> kid_id k = id -> text_fits o (kkind k) (kassoc k) v.

Lemma set_values_wf o id v o' : wf o -> set_fits o id v -> set_values o id v = Done o' -> wf o'.
Proof.
  intros (Wc & Wk & Wp) HF. unfold set_values.
  destruct (update_kid _ _ _) as [[ks|e0]|] eqn:U; intros H; try discriminate. injection H as <-.
  split; [exact Wc|]. split.
  - simpl. apply Forall_forall. intros k Hk. apply kid_ok_set_kids. revert k Hk. apply Forall_forall.
    eapply update_kid_Forall; [|exact U|exact Wk].
    intros k k' Hin Hid Hok. cbv beta. destruct (format_length _ _ _ v) as [v'|] eqn:F; [|discriminate]. intros E; injection E as <-.
    pose proof (HF k Hin Hid) as Hfit. unfold text_fits in Hfit.
    unfold kid_ok. simpl. destruct (kassoc k) eqn:Ea; auto; simpl in F, Hfit.
    + (eapply format_length_ok_length; [|exact Hfit|exact F]; discriminate).
    + (eapply format_length_ok_length; [|exact Hfit|exact F]; discriminate).
  - simpl. intros Hp. destruct (Wp Hp) as [Wp1 Wp2]. split; [exact Wp1|].
    eapply update_kid_Forall; [|exact U|exact Wp2].
    intros k k' _ _ Hn. cbv beta. destruct (format_length _ _ _ v) as [v'|]; [|discriminate]. intros E; injection E as <-.
    unfold not_cell in *. simpl. exact Hn.
Qed.

(* pad / reject, stated on the setter: the first child carrying the id is the one assigned *)
Lemma update_kid_at id f : forall ks p k,
  nth_error ks p = Some k -> kid_id k = id ->
  (forall q k0, q < p -> nth_error ks q = Some k0 -> kid_id k0 <> id) ->
  update_kid id f ks = Some (match f k with
                             | Ok k' => Ok (firstn p ks ++ k' :: skipn (S p) ks)
                             | Err e => Err e
                             end).
Proof.
  induction ks as [|x r IH]; intros [|p] k Hp Hid Hfirst; simpl in Hp; try discriminate.
  - injection Hp as ->. simpl. rewrite Hid, Nat.eqb_refl. destruct (f k); reflexivity.
  - simpl. assert (Hx : kid_id x <> id) by (apply (Hfirst 0 x); [lia|reflexivity]).
    apply Nat.eqb_neq in Hx. rewrite Hx.
    rewrite (IH p k Hp Hid) by (intros q k0 Hq Hk0; apply (Hfirst (S q) k0); [lia|exact Hk0]).
    destruct (f k); reflexivity.
Qed.

Lemma set_values_at o id v p k :
  nth_error (kids o) p = Some k -> kid_id k = id ->
  (forall q k0, q < p -> nth_error (kids o) q = Some k0 -> kid_id k0 <> id) ->
  set_values o id v =
    match format_length (n_values o (kassoc k)) (kkind k) (kassoc k) v with
    | Ok v' => Done (set_kids o (firstn p (kids o) ++ set_vals k (Some v') :: skipn (S p) (kids o)))
    | Err e => Failed e o
    end.
Proof.
  intros Hp Hid Hf. unfold set_values. rewrite (update_kid_at id _ (kids o) p k Hp Hid Hf).
  destruct (format_length _ _ _ v); reflexivity.
Qed.

Definition add_fits (o : obj) (a : assoc) (k : dkind) (v : option vals) : Prop :=
  forall vv, v = Some vv -> text_fits o k a vv.

Lemma add_data_wf fl o id a k v : wf o -> (ok o = OPoints -> a <> ACell) -> add_fits o a k v -> wf (state_of (add_data fl o id a k v)).
Proof.
  intros (Wc & Wk & Wp) Ha HF. unfold add_data.
  assert (G : forall nk, kid_ok o nk -> kassoc nk = a -> wf (set_kids o (kids o ++ [nk]))).
  { intros nk Hnk Hna. split; [exact Wc|]. split.
    - simpl. apply Forall_app. split; [exact Wk|]. constructor; [exact Hnk|constructor].
    - simpl. intros Hp. destruct (Wp Hp) as [Wp1 Wp2]. split; [exact Wp1|].
      apply Forall_app. split; [exact Wp2|]. constructor; [|constructor]. unfold not_cell. rewrite Hna. auto. }
  destruct v as [v|].
  - destruct (format_length (n_values o a) k a v) as [v'|] eqn:F; simpl.
    + apply G; [|reflexivity]. pose proof (HF v eq_refl) as Hfit. unfold text_fits in Hfit.
      unfold kid_ok. simpl. destruct a; auto; simpl in F, Hfit.
      * (eapply format_length_ok_length; [|exact Hfit|exact F]; discriminate).
      * (eapply format_length_ok_length; [|exact Hfit|exact F]; discriminate).
    + destruct (f_add_rollback fl); simpl; [exact (conj Wc (conj Wk Wp))|].
      apply G; [|reflexivity]. unfold kid_ok. simpl. auto.
  - simpl. apply G; [|reflexivity]. unfold kid_ok. simpl. auto.
Qed.

Lemma add_data_failed fl o id a k v e o' : add_data fl o id a k v = Failed e o' ->
  ok o' = ok o /\ verts o' = verts o /\ cells o' = cells o /\
  (kids o' = kids o \/ exists g, kids o' = kids o ++ [g] /\ kvals g = None /\ kkind g = k).
Proof.
  unfold add_data. destruct v as [v|]; [|discriminate].
  destruct (format_length _ _ _ v); [discriminate|].
  destruct (f_add_rollback fl); intros H; injection H as _ <-; simpl.
  - repeat split; auto.
  - repeat split; auto. right. eexists; repeat split; reflexivity.
Qed.

(* with the roll-back a refused add_data leaves nothing behind *)
Lemma add_data_failed_rollback fl o id a k v e o' : f_add_rollback fl = true -> add_data fl o id a k v = Failed e o' -> o' = o.
Proof.
  intros R. unfold add_data. destruct v as [v|]; [|discriminate].
  destruct (format_length _ _ _ v); [discriminate|]. rewrite R. intros H; injection H as _ <-. reflexivity.
Qed.

(* ================================================================== re-open *)
Lemma take_kid_Forall (P : kid -> Prop) id : forall ks k r, take_kid id ks = Some (k, r) -> Forall P ks -> P k /\ Forall P r.
Proof.
  induction ks as [|x xs IH]; intros k r H HP; simpl in H; [discriminate|]. inversion HP; subst.
  destruct (Nat.eqb (kid_id x) id).
  - injection H as <- <-. auto.
  - destruct (take_kid id xs) as [[y r']|] eqn:T; [|discriminate]. injection H as <- <-.
    destruct (IH y r' eq_refl H3) as [Py Pr]. split; [exact Py|constructor; assumption].
Qed.

Lemma reorder_Forall (P : kid -> Prop) : forall order ks ks', reorder order ks = Some ks' -> Forall P ks -> Forall P ks'.
Proof.
  induction order as [|i r IH]; intros ks ks' H HP; simpl in H.
  - destruct ks; [injection H as <-; constructor|discriminate].
  - destruct (take_kid i ks) as [[k rest]|] eqn:T; [|discriminate].
    destruct (reorder r rest) as [l|] eqn:R; [|discriminate]. injection H as <-.
    destruct (take_kid_Forall P i ks k rest T HP) as [Pk Pr]. constructor; [exact Pk|]. eapply IH; eauto.
Qed.

Lemma reopen_wf o order o' : wf o -> reopen o order = Some o' -> wf o'.
Proof.
  intros (Wc & Wk & Wp). unfold reopen. destruct (reorder order (kids o)) as [ks|] eqn:R; [|discriminate].
  intros H; injection H as <-. split; [exact Wc|]. split.
  - simpl. apply Forall_forall. intros k Hk. apply kid_ok_set_kids. revert k Hk. apply Forall_forall.
    eapply reorder_Forall; eauto.
  - simpl. intros Hp. destruct (Wp Hp) as [Wp1 Wp2]. split; [exact Wp1|]. eapply reorder_Forall; eauto.
Qed.

(* ================================================================== single steps and histories *)
(* side conditions under which the pinned code behaves (always true for the repaired code) *)
Definition op_safe (fl : flags) (o : obj) (p : op) : Prop :=
  match p with
  | RemoveVertices ix => valueless_safe fl o /\ (f_guard_cells fl = true \/ ok o = OPoints \/ touches o ix) /\ text_safe_rv o ix
  | RemoveCells ix => (f_skip_valueless fl = true \/ valued ACell (kids o)) /\ text_safe_rc o ix
  | MaskedCopy vm cm => (vm = None \/ cm = None) /\ cmask_ok o cm
  | SetValues id v => set_fits o id v
  | AddData _ a k v => add_fits o a k v
  | Reopen _ => True
  end.

(* what a failing operation may leave behind *)
Definition unchanged_or_stub (o o' : obj) : Prop :=
  ok o' = ok o /\ verts o' = verts o /\ cells o' = cells o /\
  (kids o' = kids o \/ exists g, kids o' = kids o ++ [g] /\ kvals g = None).

Lemma unchanged_refl o : unchanged_or_stub o o.
Proof. unfold unchanged_or_stub. auto. Qed.

Lemma step_failed fl o p e o' : wf o -> op_safe fl o p -> step fl o p = Some (Failed e o') -> unchanged_or_stub o o'.
Proof.
  intros W HS. destruct p as [ix|ix|id v|id a k v|vm cm|order]; simpl in *.
  - intros H; injection H as H. destruct HS as (H1 & H2 & H3).
    apply remove_vertices_failed in H; auto. subst. apply unchanged_refl.
  - intros H; injection H as H. destruct HS as [H1 H3]. destruct (ok o) eqn:Ek.
    + injection H as _ <-. apply unchanged_refl.
    + apply remove_cells_failed in H; auto; [subst; apply unchanged_refl|apply wf_kids_len_c; exact W].
    + apply remove_cells_failed in H; auto; [subst; apply unchanged_refl|apply wf_kids_len_c; exact W].
  - intros H; injection H as H. apply set_values_failed in H. subst. apply unchanged_refl.
  - assert (G : Some (add_data fl o id a k v) = Some (Failed e o') -> unchanged_or_stub o o').
    { intros E; injection E as E. apply add_data_failed in E as (H0 & H1 & H2 & [H3|[g (H3 & H4 & _)]]); unfold unchanged_or_stub;
        (split; [exact H0|split; [exact H1|split; [exact H2|]]]); [left; exact H3|right; exists g; auto]. }
    destruct (ok o); destruct a; intros H; try discriminate; apply G; exact H.
  - intros H; injection H as H. apply masked_copy_failed in H. subst. apply unchanged_refl.
  - destruct (reopen o order); discriminate.
Qed.

Lemma step_done_wf fl o p o' : wf o -> op_safe fl o p -> step fl o p = Some (Done o') -> wf o'.
Proof.
  intros W HS. destruct p as [ix|ix|id v|id a k v|vm cm|order]; simpl in *.
  - intros H; injection H as H. destruct (remove_vertices_done fl o ix o' W H) as [I' [_ S]].
    eapply selection_wf; eauto.
  - intros H; injection H as H. destruct (ok o) eqn:Ek; [discriminate| |].
    + destruct (remove_cells_done fl o ix o' (wf_kids_len_c o W) H) as [I' [HN (E1 & E2 & E3 & HK)]].
      destruct W as (Wc & Wk & Wp). split; [|split].
      * rewrite E2, E3. apply Forall_select. exact Wc.
      * apply Forall_forall. intros k' Hin. apply In_nth_error in Hin as [q Hq].
        destruct (Forall2_nth_r _ _ _ _ _ HK Hq) as [k0 [Hk0 (A1 & A2 & A3 & A4)]].
        rewrite Forall_forall in Wk. specialize (Wk k0 (nth_error_In _ _ Hk0)).
        unfold kid_ok in *. rewrite A4, A2, E2, E3. destruct (kassoc k0); simpl; auto.
        destruct (kvals k0) as [v0|]; simpl; auto.
        rewrite !select_length by (rewrite keep_mask_length; auto). reflexivity.
      * intros Hp. congruence.
    + destruct (remove_cells_done fl o ix o' (wf_kids_len_c o W) H) as [I' [HN (E1 & E2 & E3 & HK)]].
      destruct W as (Wc & Wk & Wp). split; [|split].
      * rewrite E2, E3. apply Forall_select. exact Wc.
      * apply Forall_forall. intros k' Hin. apply In_nth_error in Hin as [q Hq].
        destruct (Forall2_nth_r _ _ _ _ _ HK Hq) as [k0 [Hk0 (A1 & A2 & A3 & A4)]].
        rewrite Forall_forall in Wk. specialize (Wk k0 (nth_error_In _ _ Hk0)).
        unfold kid_ok in *. rewrite A4, A2, E2, E3. destruct (kassoc k0); simpl; auto.
        destruct (kvals k0) as [v0|]; simpl; auto.
        rewrite !select_length by (rewrite keep_mask_length; auto). reflexivity.
      * intros Hp. congruence.
  - intros H; injection H as H. eapply set_values_wf; eauto.
  - intros H.
    assert (G : Some (add_data fl o id a k v) = Some (Done o') -> (ok o = OPoints -> a <> ACell) -> wf o').
    { intros E Ha. injection E as E. pose proof (add_data_wf fl o id a k v W Ha HS) as X. rewrite E in X. exact X. }
    destruct (ok o) eqn:Ek; destruct a; try discriminate; apply G; auto; intros; discriminate.
  - intros H; injection H as H. destruct HS as [H1 H2]. eapply selection_wf; [exact W|]. eapply masked_copy_done; eauto.
  - destruct (reopen o order) as [o1|] eqn:R; [|discriminate]. simpl. intros H; injection H as <-.
    eapply reopen_wf; eauto.
Qed.

Lemma unchanged_wf o o' : wf o -> unchanged_or_stub o o' -> (forall g, kids o' = kids o ++ [g] -> ok o = OPoints -> kassoc g <> ACell) -> wf o'.
Proof.
  intros (Wc & Wk & Wp) (E0 & E1 & E2 & E3) Hg. split; [|split].
  - rewrite E1, E2. exact Wc.
  - destruct E3 as [E3|[g [E3 Hv]]]; rewrite E3.
    + apply Forall_forall. intros k Hk. rewrite Forall_forall in Wk. specialize (Wk k Hk).
      unfold kid_ok in *. rewrite E1, E2. exact Wk.
    + apply Forall_app. split.
      * apply Forall_forall. intros k Hk. rewrite Forall_forall in Wk. specialize (Wk k Hk).
        unfold kid_ok in *. rewrite E1, E2. exact Wk.
      * constructor; [|constructor]. unfold kid_ok. rewrite Hv. exact I.
  - rewrite E0, E2. intros Hp. destruct (Wp Hp) as [Wp1 Wp2]. split; [exact Wp1|].
    destruct E3 as [E3|[g [E3 Hv]]]; rewrite E3; [exact Wp2|].
    apply Forall_app. split; [exact Wp2|]. constructor; [|constructor]. unfold not_cell. apply (Hg g E3 Hp).
Qed.

Lemma step_wf fl o p : wf o -> op_safe fl o p -> wf (step_state fl o p).
Proof.
  intros W HS. unfold step_state. destruct (step fl o p) as [[o'|e o']|] eqn:S; simpl; [| |exact W].
  - eapply step_done_wf; eauto.
  - destruct p as [ix|ix|id v|id a k v|vm cm|order].
    + pose proof (step_failed fl o _ e o' W HS S) as U. eapply unchanged_wf; eauto.
      intros g Hg. simpl in S. injection S as S. destruct HS as (H1 & H2 & H3).
      apply remove_vertices_failed in S; auto. subst o'. exfalso.
      apply (f_equal (@length kid)) in Hg. rewrite app_length in Hg. simpl in Hg. lia.
    + pose proof (step_failed fl o _ e o' W HS S) as U. eapply unchanged_wf; eauto.
      intros g Hg. exfalso. simpl in S. injection S as S. destruct HS as [H1 H3]. destruct (ok o) eqn:Ek.
      * injection S as _ <-. apply (f_equal (@length kid)) in Hg. rewrite app_length in Hg. simpl in Hg. lia.
      * apply remove_cells_failed in S; auto; [|apply wf_kids_len_c; exact W]. subst o'.
        apply (f_equal (@length kid)) in Hg. rewrite app_length in Hg. simpl in Hg. lia.
      * apply remove_cells_failed in S; auto; [|apply wf_kids_len_c; exact W]. subst o'.
        apply (f_equal (@length kid)) in Hg. rewrite app_length in Hg. simpl in Hg. lia.
    + simpl in S. injection S as S. apply set_values_failed in S. subst. exact W.
    + simpl in S.
      assert (G : Some (add_data fl o id a k v) = Some (Failed e o') -> (ok o = OPoints -> a <> ACell) -> wf o').
      { intros E Ha. injection E as E. pose proof (add_data_wf fl o id a k v W Ha HS) as X. rewrite E in X. exact X. }
      destruct (ok o) eqn:Ek; destruct a; try discriminate; apply G; auto; intros; discriminate.
    + simpl in S. injection S as S. apply masked_copy_failed in S. subst. exact W.
    + simpl in S. destruct (reopen o order); discriminate.
Qed.

(* for the repaired code only the masked-copy argument discipline remains as a side condition *)
Definition copy_args_ok (o : obj) (p : op) : Prop :=
  match p with
  | MaskedCopy vm cm => (vm = None \/ cm = None) /\ cmask_ok o cm
  | SetValues id v => set_fits o id v          (* text arrays are not padded: they must not be shorter than the count *)
  | AddData _ a k v => add_fits o a k v
  | RemoveVertices ix => text_safe_rv o ix     (* a zero-length text array cannot be written *)
  | RemoveCells ix => text_safe_rc o ix
  | Reopen _ => True
  end.

Lemma op_safe_repaired o p : copy_args_ok o p -> op_safe repaired o p.
Proof.
  destruct p; simpl; auto; intros H; repeat split; auto; left; reflexivity.
Qed.

Fixpoint run_ok (fl : flags) (o : obj) (ops : list op) : Prop :=
  match ops with
  | [] => True
  | p :: r => op_safe fl o p /\ run_ok fl (step_state fl o p) r
  end.

Lemma run_wf fl : forall ops o, wf o -> run_ok fl o ops -> wf (run fl o ops).
Proof.
  induction ops as [|p r IH]; intros o W H; simpl in *; [exact W|].
  destruct H as [H1 H2]. apply IH; [apply step_wf; assumption|exact H2].
Qed.

Fixpoint copies_ok (o : obj) (ops : list op) : Prop :=
  match ops with
  | [] => True
  | p :: r => copy_args_ok o p /\ copies_ok (step_state repaired o p) r
  end.

Lemma run_wf_repaired : forall ops o, wf o -> copies_ok o ops -> wf (run repaired o ops).
Proof.
  induction ops as [|p r IH]; intros o W H; simpl in *; [exact W|].
  destruct H as [H1 H2]. apply IH; [apply step_wf; [exact W|apply op_safe_repaired; exact H1]|exact H2].
Qed.

(* ================================================================== the pinned tree violates atomicity: witness *)
Definition witness_obj : obj :=
  {| ok := OCurve; verts := [(0,0,0); (1,0,0); (2,0,0); (3,0,0)]%Z; cells := [[1;2];[2;3]];
     kids := [{| kid_id := 1; kassoc := AVertex; kkind := KFloat; kvals := Some [Some 10; Some 11; Some 12; Some 13]%Z |}] |}.

Lemma witness_wf : wf witness_obj.
Proof.
  split; [|split].
  - repeat constructor.
  - repeat constructor.
  - discriminate.
Qed.

Lemma witness_as_is :
  step as_is witness_obj (RemoveVertices [0%Z]) =
  Some (Failed ValueError
    {| ok := OCurve; verts := [(1,0,0); (2,0,0); (3,0,0)]%Z; cells := [[1;2];[2;3]];
       kids := [{| kid_id := 1; kassoc := AVertex; kkind := KFloat; kvals := Some [Some 11; Some 12; Some 13]%Z |}] |}).
Proof. vm_compute. reflexivity. Qed.

Lemma witness_repaired :
  step repaired witness_obj (RemoveVertices [0%Z]) =
  Some (Done
    {| ok := OCurve; verts := [(1,0,0); (2,0,0); (3,0,0)]%Z; cells := [[0;1];[1;2]];
       kids := [{| kid_id := 1; kassoc := AVertex; kkind := KFloat; kvals := Some [Some 11; Some 12; Some 13]%Z |}] |}).
Proof. vm_compute. reflexivity. Qed.

(* ================================================================== remove_cells as a selection *)
Lemma rcv_cell_sel n cm : forall ks ks', kids_len AVertex n ks ->
  Forall2 (rcv_kid cm ACell) ks ks' -> Forall2 (sel_kid (repeat true n) cm) ks ks'.
Proof.
  intros ks ks' HLv HK. induction HK as [|k k' r r' Hk HK IH]; constructor.
  - destruct Hk as (A1 & A2 & A3 & A4). unfold sel_kid. repeat split; auto. rewrite A4.
    destruct (kassoc k) eqn:Ea; simpl; try reflexivity.
    destruct (kvals k) as [v|] eqn:Ev; simpl; [|reflexivity]. rewrite select_repeat_true; [reflexivity|].
    apply (HLv k v); [left; reflexivity|exact Ea|exact Ev].
  - apply IH. intros k0 v0 Hin. apply HLv. right. exact Hin.
Qed.

Lemma remove_cells_selection fl o I o' : wf o -> remove_cells fl o I = Done o' ->
  exists I', norm_all (length (cells o)) I = Some I' /\
             selection (repeat true (length (verts o))) (keep_mask (length (cells o)) I') o o'.
Proof.
  intros W H. pose proof W as (Wc & Wk & Wp).
  destruct (remove_cells_done fl o I o' (wf_kids_len_c o W) H) as [I' [HN (E1 & E2 & E3 & HK)]].
  exists I'. split; [exact HN|]. unfold selection.
  split; [apply repeat_length|]. split; [apply keep_mask_length|]. split; [apply closed_all_true; exact Wc|].
  split; [exact E1|]. split; [rewrite E2, select_repeat_true; reflexivity|]. split.
  - rewrite E3, rank_all_true_cells; [reflexivity|]. apply Forall_select. exact Wc.
  - apply rcv_cell_sel; [apply wf_kids_len_v; exact W|exact HK].
Qed.

(* a vertex mask entry is true exactly for the indices that are not removed *)
Lemma vmask_true o I' i : nth_error (vmask o I') i = Some true <-> i < length (verts o) /\ ~ In i I'.
Proof. apply keep_mask_true. Qed.

(* a cell is kept by remove_vertices exactly when none of its vertices is removed *)
Lemma rv_cell_kept o I' j c : wf o -> nth_error (cells o) j = Some c ->
  (nth_error (cell_mask (vmask o I') (cells o)) j = Some true <-> Forall (fun v => ~ In v I') c).
Proof.
  intros (Wc & _ & _) Hc. rewrite (cell_mask_true _ _ _ _ Hc).
  rewrite Forall_forall in Wc. specialize (Wc c (nth_error_In _ _ Hc)). unfold cell_ok in Wc.
  rewrite !Forall_forall. split.
  - intros H v Hv. apply (proj1 (vmask_true o I' v) (H v Hv)).
  - intros H v Hv. apply vmask_true. split; [|apply H; exact Hv]. rewrite Forall_forall in Wc. apply Wc. exact Hv.
Qed.

(* ================================================================== histories without per-element text data *)
Definition no_text_kids (o : obj) : Prop := Forall (fun k => kkind k <> KText) (kids o).

(* what remains to be asked of an operation when no text data are involved: masks of a copy are a vertex mask or a cell
   mask (none on Points), and the operation does not add text data *)
Definition op_plain (o : obj) (p : op) : Prop :=
  match p with
  | MaskedCopy vm cm => (vm = None \/ cm = None) /\ cmask_ok o cm
  | AddData _ _ k _ => k <> KText
  | _ => True
  end.

Lemma no_text_free a o : no_text_kids o -> text_free a (kids o).
Proof. intros H k Hin _. unfold no_text_kids in H. rewrite Forall_forall in H. apply H. exact Hin. Qed.

Lemma plain_args_ok o p : no_text_kids o -> op_plain o p -> copy_args_ok o p.
Proof.
  intros HT HP. destruct p as [ix|ix|id v|id a k v|vm cm|order]; simpl in *; auto.
  - left. split; apply no_text_free; exact HT.
  - left. apply no_text_free; exact HT.
  - intros k Hin _ Hk. unfold no_text_kids in HT. rewrite Forall_forall in HT. exfalso. apply (HT k Hin Hk).
  - intros vv _ Hk. contradiction.
Qed.

Lemma sel_kids_no_text vm cm ks ks' : Forall2 (sel_kid vm cm) ks ks' ->
  Forall (fun k => kkind k <> KText) ks -> Forall (fun k => kkind k <> KText) ks'.
Proof.
  intros H. induction H as [|k k' r r' Hk H IH]; intros HT; constructor; inversion HT; subst.
  - destruct Hk as (_ & _ & E & _). congruence.
  - apply IH. assumption.
Qed.

Lemma rcv_kids_no_text m a ks ks' : Forall2 (rcv_kid m a) ks ks' ->
  Forall (fun k => kkind k <> KText) ks -> Forall (fun k => kkind k <> KText) ks'.
Proof.
  intros H. induction H as [|k k' r r' Hk H IH]; intros HT; constructor; inversion HT; subst.
  - destruct Hk as (_ & _ & E & _). congruence.
  - apply IH. assumption.
Qed.

Lemma step_no_text o p : wf o -> no_text_kids o -> op_plain o p -> no_text_kids (step_state repaired o p).
Proof.
  intros W HT HP. pose proof (plain_args_ok o p HT HP) as HC. pose proof (op_safe_repaired o p HC) as HS.
  unfold step_state. destruct (step repaired o p) as [[o'|e o']|] eqn:S; simpl; [| |exact HT].
  - (* Done *)
    destruct p as [ix|ix|id v|id a k v|vm cm|order]; simpl in S.
    + injection S as S. destruct (remove_vertices_done repaired o ix o' W S) as [I' [_ (_ & _ & _ & _ & _ & _ & HK)]].
      eapply sel_kids_no_text; eauto.
    + injection S as S. destruct (ok o) eqn:Ek; [discriminate| |];
        destruct (remove_cells_done repaired o ix o' (wf_kids_len_c o W) S) as [I' [_ (_ & _ & _ & HK)]];
        eapply rcv_kids_no_text; eauto.
    + injection S as S. unfold set_values in S.
      destruct (update_kid _ _ _) as [[ks|e0]|] eqn:U; try discriminate. injection S as <-. simpl.
      eapply update_kid_Forall; [|exact U|exact HT].
      intros k0 k0' _ _ Hk. cbv beta. destruct (format_length _ _ _ v) as [v'|]; [|discriminate].
      intros E; injection E as <-. exact Hk.
    + assert (G : Some (add_data repaired o id a k v) = Some (Done o') -> no_text_kids o').
      { intros E; injection E as E. unfold add_data in E. simpl in HP.
        destruct v as [v|]; [destruct (format_length _ _ _ v); [|discriminate]|]; injection E as <-;
          unfold no_text_kids; simpl; apply Forall_app; (split; [exact HT|constructor; [exact HP|constructor]]). }
      destruct (ok o); destruct a; try discriminate; apply G; exact S.
    + injection S as S. simpl in HP. destruct HP as [H1 H2].
      pose proof (masked_copy_done repaired o vm cm o' W H1 H2 S) as (_ & _ & _ & _ & _ & _ & HK).
      eapply sel_kids_no_text; eauto.
    + destruct (reopen o order) as [o1|] eqn:R; [|discriminate]. injection S as <-.
      unfold reopen in R. destruct (reorder order (kids o)) as [ks|] eqn:RR; [|discriminate]. injection R as <-.
      unfold no_text_kids. simpl. eapply reorder_Forall; eauto.
  - (* Failed *)
    destruct p as [ix|ix|id v|id a k v|vm cm|order]; simpl in S.
    + injection S as S. simpl in HS. destruct HS as (H1 & H2 & H3).
      apply remove_vertices_failed in S; auto. subst. exact HT.
    + injection S as S. simpl in HS. destruct HS as [H1 H3]. destruct (ok o) eqn:Ek.
      * injection S as _ <-. exact HT.
      * apply remove_cells_failed in S; auto; [subst; exact HT|apply wf_kids_len_c; exact W].
      * apply remove_cells_failed in S; auto; [subst; exact HT|apply wf_kids_len_c; exact W].
    + injection S as S. apply set_values_failed in S. subst. exact HT.
    + assert (G : Some (add_data repaired o id a k v) = Some (Failed e o') -> no_text_kids o').
      { intros E; injection E as E. apply add_data_failed_rollback in E; [subst; exact HT|reflexivity]. }
      destruct (ok o); destruct a; try discriminate; apply G; exact S.
    + injection S as S. apply masked_copy_failed in S. subst. exact HT.
    + destruct (reopen o order); discriminate.
Qed.

Fixpoint plain_ok (o : obj) (ops : list op) : Prop :=
  match ops with
  | [] => True
  | p :: r => op_plain o p /\ plain_ok (step_state repaired o p) r
  end.

(* consistency is an invariant of every history that involves no per-element text data *)
Lemma run_wf_repaired_no_text : forall ops o, wf o -> no_text_kids o -> plain_ok o ops ->
  wf (run repaired o ops) /\ no_text_kids (run repaired o ops).
Proof.
  induction ops as [|p r IH]; intros o W HT H; simpl in *; [auto|].
  destruct H as [H1 H2]. apply IH; [|apply step_no_text; assumption|exact H2].
  apply step_wf; [exact W|]. apply op_safe_repaired. apply plain_args_ok; assumption.
Qed.

(* ================================================================== Data.copy onto any parent *)
Lemma fill_masked_length nd : forall m v, length m = length v -> length (fill_masked nd m v) = length v.
Proof. induction m as [|b m IH]; intros [|x v] L; simpl in *; try discriminate; auto. Qed.

Lemma fill_masked_nth nd : forall m v i b x, nth_error m i = Some b -> nth_error v i = Some x ->
  nth_error (fill_masked nd m v) i = Some (if b then x else nd).
Proof.
  induction m as [|c m IH]; intros [|y v] [|i] b x Hm Hv; simpl in *; try discriminate.
  - injection Hm as <-. injection Hv as <-. reflexivity.
  - apply IH; assumption.
Qed.

(* target with fewer elements than the source array: the kept entries, compacted (then the target's pad / reject rule);
   target with at least as many: every kept element stays at its own index, the others are no-data (then padded at the tail) *)
Lemma data_copy_any_parent fl n m k k' v : kvals k = Some v -> data_copy fl n (Some m) k = Ok k' ->
  length m = length v /\
  (n < length v -> exists v'', format_length n (kkind k) (kassoc k) (select m v) = Ok v'' /\ kvals k' = Some v'') /\
  (length v <= n -> exists tail, kvals k' = Some (fill_masked (ndv (kkind k)) m v ++ tail) /\
     forall i b x, nth_error m i = Some b -> nth_error v i = Some x ->
       nth_error (fill_masked (ndv (kkind k)) m v ++ tail) i = Some (if b then x else ndv (kkind k))).
Proof.
  intros Hv. unfold data_copy. rewrite Hv.
  destruct (Nat.eqb (length m) (length v)) eqn:E; simpl; [|discriminate]. apply Nat.eqb_eq in E.
  destruct (negb (n <? length v) && dkind_eqb (kkind k) KText && negb (f_copy_text fl)); [discriminate|].
  destruct (n <? length v) eqn:Lt.
  - apply Nat.ltb_lt in Lt.
    destruct (format_length n (kkind k) (kassoc k) (select m v)) as [v''|] eqn:F; [|discriminate].
    destruct (text_blocked fl (kkind k) v''); [discriminate|]. intros H; injection H as <-. simpl.
    split; [exact E|]. split; [intros _; exists v''; auto|intros H; lia].
  - apply Nat.ltb_ge in Lt.
    destruct (format_length n (kkind k) (kassoc k) (fill_masked (ndv (kkind k)) m v)) as [v''|] eqn:F; [|discriminate].
    destruct (text_blocked fl (kkind k) v''); [discriminate|]. intros H; injection H as <-. simpl.
    split; [exact E|]. split; [intros H; lia|]. intros _.
    assert (Lf : length (fill_masked (ndv (kkind k)) m v) = length v) by (apply fill_masked_length; exact E).
    assert (T : exists tail, v'' = fill_masked (ndv (kkind k)) m v ++ tail).
    { unfold format_length in F. rewrite Lf in F. destruct (length v <? n) eqn:E2.
      - destruct (kkind k); injection F as <-; try (eexists; reflexivity); exists []; rewrite app_nil_r; reflexivity.
      - destruct (n <? length v) eqn:E3; [apply Nat.ltb_lt in E3; lia|]. simpl in F. injection F as <-.
        exists []. rewrite app_nil_r. reflexivity. }
    destruct T as [tail ->]. exists tail. split; [reflexivity|].
    intros i b x Hm Hx. rewrite nth_error_app1 by (rewrite Lf; apply nth_error_Some; congruence).
    apply fill_masked_nth; assumption.
Qed.
