(* Proofs about Model/Removal.v, part 2 (property C05): the property-group lists of an object during removals.
   The state-level loops of remove_data_from_groups compute exactly PGroups.scrub / scrub_snap on the object's list. *)
From GV Require Import Prelude.Base Model.PGroups Model.Removal Proofs.PGroupsProofs Proofs.RemovalProofs.

(* ---------------- the extra invariant: groups are children, never empty, only objects have them ---------------- *)
Definition pgch (w : st) (o : nat) : Prop := forall g, In g (ids (pgs (E w o))) -> In g (ch (E w o)).

Record pginv (w : st) : Prop := {
  pi_ch : forall o, pgch w o;
  pi_ne : forall o g l, In (g, l) (pgs (E w o)) -> l <> [];
  pi_obj : forall o, ekind (E w o) <> KObject -> pgs (E w o) = [] }.
Arguments pi_ch {w}. Arguments pi_ne {w}. Arguments pi_obj {w}.

(* ---------------- list facts ---------------- *)
Lemma In_remove_grp g gs h m :
  NoDup (ids gs) -> In (h, m) (remove_grp g gs) -> In (h, m) gs /\ h <> g.
Proof.
  unfold ids. induction gs as [|[k l] r IH]; simpl; intros ND Hin; [destruct Hin|].
  inversion ND as [|? ? Hk NDr]; subst.
  destruct (Nat.eqb g k) eqn:E.
  - apply Nat.eqb_eq in E. subst k. split; [right; exact Hin|].
    intros ->. apply Hk. change g with (fst (g, m)). apply in_map. exact Hin.
  - destruct Hin as [Hin|Hin].
    + inversion Hin; subst. split; [left; reflexivity|]. intros ->. rewrite Nat.eqb_refl in E. discriminate.
    + destruct (IH NDr Hin) as [H1 H2]. split; [right; exact H1 | exact H2].
Qed.

Lemma ids_remove_grp g gs h : NoDup (ids gs) -> In h (ids (remove_grp g gs)) -> In h (ids gs) /\ h <> g.
Proof.
  intros ND Hin. unfold ids in Hin. apply in_map_iff in Hin as [[h' m] [Hf Hin]]. simpl in Hf. subst h'.
  destruct (In_remove_grp g gs h m ND Hin) as [H1 H2]. split; [|exact H2].
  unfold ids. change h with (fst (h, m)). apply in_map. exact H1.
Qed.

Lemma set_nth_nonnil {A} i (a : A) l x : nth_error l i = Some x -> is_nil (set_nth i a l) = false.
Proof. destruct l, i; simpl; intros; try discriminate; reflexivity. Qed.

Lemma nth_error_ids (gs : list grp) i g l : nth_error gs i = Some (g, l) -> In g (ids gs).
Proof. intros H. unfold ids. change g with (fst (g, l)). apply in_map. eapply nth_error_In. exact H. Qed.

(* ---------------- one visit: PropertyGroup.remove_properties([d]) ---------------- *)
Lemma rp_visit_pgs w o d i g l :
  In g (ch (E w o)) -> nth_error (pgs (E w o)) i = Some (g, l) ->
  pgs (E (rp_visit w o d i g l) o) = scrub_visit d (pgs (E w o)) i g l
  /\ ch (E (rp_visit w o d i g l) o) = if is_nil (remove_first d l) then remove_first g (ch (E w o)) else ch (E w o).
Proof.
  intros Hg Hn. unfold rp_visit, scrub_visit.
  destruct (is_nil (remove_first d l)) eqn:En.
  - unfold remove_pg. rewrite E_del_fpg. rewrite E_upd_same. simpl ch.
    apply memb_In in Hg. rewrite Hg. rewrite E_upd_same. simpl. rewrite ?Nat.eqb_refl. simpl.
    rewrite (set_nth_nonnil i (g, remove_first d l) _ _ Hn). simpl. split; reflexivity.
  - rewrite E_write_fpg, E_upd_same. simpl. split; reflexivity.
Qed.

Lemma rp_visit_pginv w o d i g l :
  wf w -> pginv w -> nth_error (pgs (E w o)) i = Some (g, l) -> pginv (rp_visit w o d i g l).
Proof.
  intros H P Hn.
  assert (Hgi : In g (ids (pgs (E w o)))) by (eapply nth_error_ids; exact Hn).
  assert (Hg : In g (ch (E w o))) by (apply (pi_ch P o); exact Hgi).
  destruct (rp_visit_pgs w o d i g l Hg Hn) as [Epgs Ech].
  pose proof (rp_visit_shrink w o d i g l Hn) as Hs.
  pose proof (rp_visit_frame w o d i g l) as Hf.
  assert (ND1 : NoDup (ids (set_nth i (g, remove_first d l) (pgs (E w o))))).
  { unfold ids. rewrite (set_nth_ids i g l _ _ Hn). apply (wf_pgnd H). }
  constructor.
  - intros x. destruct (Nat.eq_dec x o) as [->|Hx].
    + intros h Hh. rewrite Epgs in Hh. rewrite Ech. unfold scrub_visit in Hh.
      destruct (is_nil (remove_first d l)).
      * destruct (ids_remove_grp g _ h ND1 Hh) as [Hh1 Hh2].
        unfold ids in Hh1. rewrite (set_nth_ids i g l _ _ Hn) in Hh1.
        apply remove_first_In_other; [exact Hh2 | apply (pi_ch P o); exact Hh1].
      * unfold ids in Hh. rewrite (set_nth_ids i g l _ _ Hn) in Hh. apply (pi_ch P o). exact Hh.
    + intros h. rewrite (Hf x Hx). apply (pi_ch P x).
  - intros x h m Hm. destruct (Nat.eq_dec x o) as [->|Hx].
    + rewrite Epgs in Hm. unfold scrub_visit in Hm. destruct (is_nil (remove_first d l)) eqn:En.
      * destruct (In_remove_grp g _ h m ND1 Hm) as [Hm1 Hm2].
        apply set_nth_In in Hm1 as [Hm1|Hm1]; [inversion Hm1; congruence | eapply (pi_ne P); exact Hm1].
      * apply set_nth_In in Hm as [Hm|Hm]; [|eapply (pi_ne P); exact Hm].
        inversion Hm; subst. intros E0. rewrite E0 in En. discriminate.
    + rewrite (Hf x Hx) in Hm. eapply (pi_ne P); exact Hm.
  - intros x Hk. rewrite (es_kind (sh_E Hs x)) in Hk. pose proof (pi_obj P x Hk) as Hnil.
    destruct (Nat.eq_dec x o) as [->|Hx]; [rewrite Hnil in Hn; destruct i; discriminate|].
    rewrite (Hf x Hx). exact Hnil.
Qed.

(* ---------------- the loops ---------------- *)
Lemma rdfg_loop_spec k : forall w o d i,
  wf w -> pginv w ->
  pginv (rdfg_loop k w o d i) /\ pgs (E (rdfg_loop k w o d i) o) = scrub_loop k d (pgs (E w o)) i.
Proof.
  induction k as [|k IH]; intros w o d i H P; simpl; [split; [exact P | reflexivity]|].
  destruct (nth_error (pgs (E w o)) i) as [[g l]|] eqn:En; [|split; [exact P | reflexivity]].
  assert (Hg : In g (ch (E w o))) by (apply (pi_ch P o); eapply nth_error_ids; exact En).
  destruct (rp_visit_pgs w o d i g l Hg En) as [Epgs _]. rewrite <- Epgs.
  apply IH.
  - eapply wf_shrink; [apply rp_visit_shrink; exact En | exact H].
  - apply rp_visit_pginv; assumption.
Qed.

Lemma rp_visit_id_spec w o d g :
  wf w -> pginv w ->
  wf (rp_visit_id w o d g) /\ pginv (rp_visit_id w o d g)
  /\ pgs (E (rp_visit_id w o d g) o) = visit_id d (pgs (E w o)) g.
Proof.
  intros H P. unfold rp_visit_id, visit_id.
  destruct (index_of g (pgs (E w o))) as [i|] eqn:Ei; [|split; [exact H | split; [exact P | reflexivity]]].
  destruct (index_of_nth _ _ _ Ei) as [l Hl]. rewrite Hl.
  assert (Hg : In g (ch (E w o))) by (apply (pi_ch P o); eapply nth_error_ids; exact Hl).
  split; [eapply wf_shrink; [apply rp_visit_shrink; exact Hl | exact H]|].
  split; [apply rp_visit_pginv; assumption|].
  apply (rp_visit_pgs w o d i g l Hg Hl).
Qed.

Lemma fold_visit_spec o d l : forall w,
  wf w -> pginv w ->
  pginv (fold_left (fun w g => rp_visit_id w o d g) l w)
  /\ pgs (E (fold_left (fun w g => rp_visit_id w o d g) l w) o) = fold_left (visit_id d) l (pgs (E w o)).
Proof.
  induction l as [|g r IH]; intros w H P; simpl; [split; [exact P | reflexivity]|].
  destruct (rp_visit_id_spec w o d g H P) as [H1 [P1 E1]]. rewrite <- E1. apply IH; assumption.
Qed.

Definition cur_scrub (c : cfg) (d : nat) (gs : list grp) : list grp :=
  if snap_pg c then scrub_snap d gs else scrub d gs.

Lemma rdfg_spec c w o d :
  wf w -> pginv w -> pginv (rdfg c w o d) /\ pgs (E (rdfg c w o d) o) = cur_scrub c d (pgs (E w o)).
Proof.
  intros H P. unfold rdfg, cur_scrub. destruct (pgs (E w o)) as [|g0 gs] eqn:Eg.
  - simpl. split; [exact P|]. rewrite Eg. destruct (snap_pg c); reflexivity.
  - cbn [is_nil]. destruct (snap_pg c).
    + unfold scrub_snap. rewrite <- Eg. apply fold_visit_spec; assumption.
    + unfold scrub. rewrite <- Eg. apply rdfg_loop_spec; assumption.
Qed.

(* ---------------- parent.remove_children([x]) keeps the invariant; for a data child it scrubs the groups ---------------- *)
Lemma pginv_drop_child w o x :
  wf w -> pginv w -> ekind (E w x) <> KPG -> pginv (upd w o (fun r => set_ch r (remove_first x (ch r)))).
Proof.
  intros H P Hk. constructor.
  - intros y h Hh. simpl in *. destruct (Nat.eqb y o) eqn:Ey; [|apply (pi_ch P y); exact Hh].
    apply Nat.eqb_eq in Ey. subst y. simpl in *. apply remove_first_In_other; [|apply (pi_ch P o); exact Hh].
    intros ->. apply Hk. apply (wf_pgk H o). exact Hh.
  - intros y h m. simpl. destruct (Nat.eqb y o); apply (pi_ne P).
  - intros y. simpl. destruct (Nat.eqb y o); apply (pi_obj P).
Qed.

Lemma pginv_file w w' : E w' = E w -> pginv w -> pginv w'.
Proof. intros HE P. constructor; intros; unfold pgch; rewrite HE in *; [apply (pi_ch P) | eapply (pi_ne P); eassumption | apply (pi_obj P); assumption]. Qed.

Lemma remove_pg_pginv w o g : wf w -> pginv w -> pginv (remove_pg w o g).
Proof.
  intros H P. unfold remove_pg. eapply pginv_file; [apply E_del_fpg|].
  destruct (memb g (ch (E w o))) eqn:Em; [|exact P].
  constructor.
  - intros y h Hh. simpl in *. destruct (Nat.eqb y o) eqn:Ey; [|apply (pi_ch P y); exact Hh].
    apply Nat.eqb_eq in Ey. subst y. simpl in *.
    destruct (is_nil (pgs (E w o))) eqn:En.
    + apply is_nil_true in En. rewrite En in Hh. destruct Hh.
    + simpl in Hh. destruct (ids_remove_grp g _ h (wf_pgnd H o) Hh) as [H1 H2].
      apply remove_first_In_other; [exact H2 | apply (pi_ch P o); exact H1].
  - intros y h m Hm. simpl in Hm. destruct (Nat.eqb y o); [|eapply (pi_ne P); exact Hm].
    simpl in Hm. destruct (is_nil (pgs (E w y))); [eapply (pi_ne P); exact Hm|].
    simpl in Hm. eapply (pi_ne P). eapply sub_In; [apply sub_remove_grp | exact Hm].
  - intros y Hk. simpl in *. destruct (Nat.eqb y o); [|apply (pi_obj P); exact Hk].
    simpl in *. destruct (is_nil (pgs (E w y))) eqn:En; simpl in *; [apply (pi_obj P); exact Hk|].
    rewrite (pi_obj P y Hk) in En. discriminate.
Qed.

Lemma object_remove_child_pginv c w o x : wf w -> pginv w -> pginv (object_remove_child c w o x).
Proof.
  intros H P. unfold object_remove_child.
  assert (G : forall w', wf w' -> pginv w' -> ekind (E w' x) <> KPG ->
     pginv (del_link (if memb x (ch (E w o)) then upd w' o (fun r => set_ch r (remove_first x (ch r))) else w) o x)).
  { intros w' H' P' Hk. eapply pginv_file; [apply E_del_link|].
    destruct (memb x (ch (E w o))); [apply pginv_drop_child; assumption | exact P]. }
  destruct (ekind (E w x)) eqn:Ek.
  - apply G; [exact H | exact P | congruence].
  - apply G; [exact H | exact P | congruence].
  - apply G.
    + eapply wf_shrink; [apply rdfg_shrink | exact H].
    + apply rdfg_spec; assumption.
    + rewrite (es_kind (sh_E (rdfg_shrink c w o x) x)). congruence.
  - apply remove_pg_pginv; assumption.
Qed.

Lemma group_remove_child_pginv w p x : ekind (E w p) <> KObject -> pginv w -> pginv (group_remove_child w p x).
Proof.
  intros Hk P. unfold group_remove_child. eapply pginv_file; [apply E_del_link|].
  constructor.
  - intros y h Hh. simpl in *. destruct (Nat.eqb y p) eqn:Ey; [|apply (pi_ch P y); exact Hh].
    apply Nat.eqb_eq in Ey. subst y. simpl in Hh. rewrite (pi_obj P p Hk) in Hh. destruct Hh.
  - intros y h m. simpl. destruct (Nat.eqb y p); apply (pi_ne P).
  - intros y. simpl. destruct (Nat.eqb y p); apply (pi_obj P).
Qed.

Lemma parent_remove_child_pginv c w p x : wf w -> pginv w -> pginv (parent_remove_child c w p x).
Proof.
  intros H P. unfold parent_remove_child. destruct (ekind (E w p)) eqn:Ek;
    try (apply group_remove_child_pginv; [congruence | exact P]).
  apply object_remove_child_pginv; assumption.
Qed.

Lemma remove_entity_pginv c f : forall w e w' o,
  wf w -> pginv w -> remove_entity c f w e = (w', o) -> pginv w'.
Proof.
  induction f as [|f IH]; intros w e w' o H P Hr.
  - simpl in Hr. inversion Hr; subst. exact P.
  - rewrite remove_entity_unfold in Hr. destruct (negb (adel (E w e))); [inversion Hr; subst; exact P|].
    destruct (children_loop c f w e) as [w1 o1] eqn:Hl.
    assert (I1 : wf w1 /\ pginv w1).
    { set (Inv := fun wi => wf wi /\ pginv wi).
      assert (Hstep : forall wi x wi' oi, Inv wi -> remove_entity c f wi x = (wi', oi) -> Inv wi').
      { intros wi x wi' oi [Hw Pw] Hx. split; [|eapply IH; eassumption].
        destruct (remove_entity_fp c f wi x wi' oi (wf_par Hw) Hx) as [Hs _]. eapply wf_shrink; eassumption. }
      assert (I0 : Inv w) by (split; assumption).
      unfold children_loop in Hl. destruct (ekind (E w e)).
      - eapply iter_snapshot_inv with (I := Inv); [|exact I0 | exact Hl]. intros; eapply Hstep; eauto.
      - destruct (snap_ch c).
        + eapply iter_snapshot_inv with (I := Inv); [|exact I0 | exact Hl]. intros; eapply Hstep; eauto.
        + eapply iter_inplace_inv with (I := Inv); [|exact I0 | exact Hl]. intros; eapply Hstep; eauto.
      - inversion Hl; subst. exact I0.
      - inversion Hl; subst. exact I0. }
    destruct I1 as [H1 P1]. destruct (is_ok o1); [|inversion Hr; subst; exact P1].
    inversion Hr; subst. eapply pginv_file; [apply E_finish|].
    apply parent_remove_child_pginv; assumption.
Qed.

(* ---------------- every history keeps the invariant ---------------- *)
Lemma pginv_init : pginv init.
Proof. constructor; simpl; intros; try contradiction; try reflexivity. intros g []. Qed.

Lemma pginv_grow w w' :
  (forall y, pgs (E w' y) = [] \/
             (pgs (E w' y) = pgs (E w y) /\ incl (ch (E w y)) (ch (E w' y)) /\ ekind (E w' y) = ekind (E w y))) ->
  pginv w -> pginv w'.
Proof.
  intros Hy P. constructor.
  - intros y h Hh. destruct (Hy y) as [E0|[E1 [E2 _]]]; [rewrite E0 in Hh; destruct Hh|].
    rewrite E1 in Hh. apply E2. apply (pi_ch P y). exact Hh.
  - intros y h m Hm. destruct (Hy y) as [E0|[E1 _]]; [rewrite E0 in Hm; destruct Hm|].
    rewrite E1 in Hm. eapply (pi_ne P). exact Hm.
  - intros y Hk. destruct (Hy y) as [E0|[E1 [_ E3]]]; [exact E0|].
    rewrite E1. apply (pi_obj P). rewrite <- E3. exact Hk.
Qed.

Lemma add_props_incl och isd : forall ds l d, In d l -> In d (add_props och isd l ds).
Proof.
  induction ds as [|x r IH]; intros l d Hd; simpl; [exact Hd|]. apply IH.
  destruct (memb x och && isd x && negb (memb x l)); [apply in_or_app; left; exact Hd | exact Hd].
Qed.

Lemma fold_prc_pginv c p es : forall w, wf w -> pginv w -> pginv (fold_left (fun w e => parent_remove_child c w p e) es w).
Proof.
  induction es as [|e r IH]; intros w H P; simpl; [exact P|].
  apply IH; [eapply wf_shrink; [apply parent_remove_child_shrink | exact H] | apply parent_remove_child_pginv; assumption].
Qed.

Lemma step_pginv c w a : wf w -> pginv w -> pginv (fst (step c w a)).
Proof.
  intros H P. destruct a as [p|p|o|o ds|g ds|e b|e|e| |k|e|es]; unfold step.
  - destruct (attachedb w p && kind_eqb (ekind (E w p)) KGroup); [|exact P]. cbn [fst].
    eapply pginv_grow; [|exact P]. intros y. simpl.
    destruct (Nat.eqb y (n w)); [left; reflexivity|]. right.
    destruct (Nat.eqb y p) eqn:Ey; [|repeat split; try reflexivity; apply incl_refl].
    apply Nat.eqb_eq in Ey. subst y. simpl. repeat split; try reflexivity. apply incl_appl, incl_refl.
  - destruct (attachedb w p && kind_eqb (ekind (E w p)) KGroup); [|exact P]. cbn [fst].
    eapply pginv_grow; [|exact P]. intros y. simpl.
    destruct (Nat.eqb y (n w)); [left; reflexivity|]. right.
    destruct (Nat.eqb y p) eqn:Ey; [|repeat split; try reflexivity; apply incl_refl].
    apply Nat.eqb_eq in Ey. subst y. simpl. repeat split; try reflexivity. apply incl_appl, incl_refl.
  - destruct (attachedb w o && kind_eqb (ekind (E w o)) KObject); [|exact P]. cbn [fst].
    eapply pginv_grow; [|exact P]. intros y. simpl.
    destruct (Nat.eqb y (n w)); [left; reflexivity|]. right.
    destruct (Nat.eqb y o) eqn:Ey; [|repeat split; try reflexivity; apply incl_refl].
    apply Nat.eqb_eq in Ey. subst y. simpl. repeat split; try reflexivity. apply incl_appl, incl_refl.
  - destruct (attachedb w o && kind_eqb (ekind (E w o)) KObject && negb (is_nil (add_props (ch (E w o)) (isdata w) [] ds))) eqn:G; [|exact P].
    cbn [fst]. apply andb_true_iff in G as [G Gne]. apply andb_true_iff in G as [Ga Gk]. apply kind_eqb_eq in Gk.
    eapply pginv_file; [apply E_write_fpg|].
    set (l := add_props (ch (E w o)) (isdata w) [] ds) in *.
    assert (Hox : Nat.eqb o (n w) = false) by (apply Nat.eqb_neq; pose proof (attachedb_lt w o Ga); lia).
    constructor.
    + intros y h Hh. simpl in *. destruct (Nat.eqb y (n w)); [destruct Hh|].
      destruct (Nat.eqb y o) eqn:Ey; [|apply (pi_ch P y); exact Hh].
      apply Nat.eqb_eq in Ey. subst y. simpl in *. unfold ids in Hh. rewrite map_app in Hh.
      apply in_or_app. apply in_app_or in Hh as [Hh|Hh]; [left; apply (pi_ch P o); exact Hh | right; exact Hh].
    + intros y h m Hm. simpl in Hm. destruct (Nat.eqb y (n w)); [destruct Hm|].
      destruct (Nat.eqb y o); [|eapply (pi_ne P); exact Hm]. simpl in Hm.
      apply in_app_or in Hm as [Hm|[Hm|[]]]; [eapply (pi_ne P); exact Hm|].
      inversion Hm; subst. intros E0. rewrite E0 in Gne. discriminate.
    + intros y Hk. simpl in *. destruct (Nat.eqb y (n w)); [reflexivity|].
      destruct (Nat.eqb y o) eqn:Ey; [|apply (pi_obj P); exact Hk].
      apply Nat.eqb_eq in Ey. subst y. simpl in Hk. congruence.
  - destruct (attachedb w g && kind_eqb (ekind (E w g)) KPG); [|exact P].
    destruct (index_of g (pgs (E w (par (E w g))))) as [i|] eqn:Ei; [|exact P].
    destruct (index_of_nth _ _ _ Ei) as [l0 Hl0]. rewrite Hl0. cbn [fst].
    set (o := par (E w g)) in *. eapply pginv_file; [apply E_write_fpg|].
    constructor.
    + intros y h Hh. simpl in *. destruct (Nat.eqb y o) eqn:Ey; [|apply (pi_ch P y); exact Hh].
      apply Nat.eqb_eq in Ey. subst y. simpl in *. unfold ids in Hh. rewrite (set_nth_ids i g l0 _ _ Hl0) in Hh.
      apply (pi_ch P o). exact Hh.
    + intros y h m Hm. simpl in Hm. destruct (Nat.eqb y o) eqn:Ey; [|eapply (pi_ne P); exact Hm].
      apply Nat.eqb_eq in Ey. subst y. simpl in Hm. apply set_nth_In in Hm as [Hm|Hm]; [|eapply (pi_ne P); exact Hm].
      inversion Hm; subst. intros E0.
      assert (Hne : l0 <> []) by (eapply (pi_ne P o g); eapply nth_error_In; exact Hl0).
      destruct l0 as [|d0 r0]; [congruence|].
      pose proof (add_props_incl (ch (E w o)) (isdata w) ds (d0 :: r0) d0 (or_introl eq_refl)) as Hin.
      rewrite E0 in Hin. destruct Hin.
    + intros y Hk. simpl in *. destruct (Nat.eqb y o) eqn:Ey; [|apply (pi_obj P); exact Hk].
      apply Nat.eqb_eq in Ey. subst y. simpl in *. rewrite (pi_obj P o Hk) in Hl0. destruct i; discriminate.
  - destruct (attachedb w e && negb (kind_eqb (ekind (E w e)) KPG) && negb (Nat.eqb e 0)); [|exact P]. cbn [fst].
    eapply pginv_grow; [|exact P]. intros y. right. simpl. destruct (Nat.eqb y e); repeat split; try reflexivity; apply incl_refl.
  - destruct (attachedb w e && negb (Nat.eqb e 0)); [|exact P].
    destruct (remove_entity c (fuel_of w) w e) as [w' o] eqn:Hr. cbn [fst].
    eapply remove_entity_pginv; eassumption.
  - destruct (attachedb w e && negb (Nat.eqb e 0)); [|exact P]. cbn [fst].
    apply parent_remove_child_pginv; assumption.
  - eapply pginv_file; [|exact P]. reflexivity.
  - destruct k; cbn [fst];
      try (destruct (pg_list_ok c); [eapply pginv_file; [|exact P]; reflexivity | destruct (is_nil _); exact P]);
      (eapply pginv_file; [|exact P]; simpl; apply (proj1 (E_fold_del_flat _ w))).
  - destruct (Nat.ltb e (n w)); [|exact P]. destruct (memb e (reg w)); [|exact P].
    destruct (memb e (held w)); [exact P|]. cbn [fst]. eapply pginv_file; [|exact P]. reflexivity.
  - destruct es as [|e0 r]; [exact P|]. destruct (forallb _ (e0 :: r)); [|exact P]. cbn [fst].
    apply (fold_prc_pginv c (par (E w e0)) (e0 :: r) w H P).
Qed.

Theorem run_inv c : forall h w, wf w -> pginv w -> wf (run c w h) /\ pginv (run c w h).
Proof.
  induction h as [|a r IH]; intros w H P; simpl; [split; assumption|].
  apply IH; [apply step_wf; exact H | apply step_pginv; assumption].
Qed.

Corollary reachable_inv c h : wf (run c init h) /\ pginv (run c init h).
Proof. apply run_inv; [apply wf_init | apply pginv_init]. Qed.

(* ================= removing a data child: what its parent's groups become ================= *)
Lemma dangling_false d gs : dangling d gs = false <-> forall g l, In (g, l) gs -> ~ In d l.
Proof.
  unfold dangling. split.
  - intros H g l Hin Hd. assert (existsb (fun p : grp => memb d (snd p)) gs = true); [|congruence].
    apply existsb_exists. exists (g, l). split; [exact Hin | apply memb_In; exact Hd].
  - intros H. destruct (existsb (fun p : grp => memb d (snd p)) gs) eqn:E; [|reflexivity].
    apply existsb_exists in E as [[g l] [Hin Hm]]. apply memb_In in Hm. exfalso. exact (H g l Hin Hm).
Qed.

Lemma data_parent_remove c w e :
  wf w -> pginv w -> att w e -> e <> 0 -> ekind (E w e) = KData ->
  let p := par (E w e) in
  let w2 := parent_remove_child c w p e in
  pgs (E w2 p) = cur_scrub c e (pgs (E w p)) /\ (forall o, o <> p -> E w2 o = E w o).
Proof.
  intros H P Ha Hne Hk p w2.
  destruct (att_parent H Ha Hne) as [_ Hep]. fold p in Hep.
  assert (Hkp : ekind (E w p) = KObject) by (eapply (wf_datapar H); eassumption).
  split.
  - unfold w2, parent_remove_child. rewrite Hkp. unfold object_remove_child. rewrite Hk.
    rewrite E_del_link. apply memb_In in Hep. rewrite Hep. rewrite E_upd_same. simpl.
    apply (rdfg_spec c w p e H P).
  - intros o Ho. apply (parent_remove_child_frame c w p e). exact Ho.
Qed.

Lemma grp_ok_of_inv w o : wf w -> pginv w -> grp_ok (pgs (E w o)).
Proof.
  intros H P. split; [apply (wf_pgnd H)|]. apply Forall_forall. intros [g l] Hin. simpl.
  split; [eapply (wf_memnd H); exact Hin | eapply (pi_ne P); exact Hin].
Qed.

Theorem no_dangling_parent_remove c w e :
  wf w -> pginv w -> att w e -> e <> 0 -> ekind (E w e) = KData ->
  (snap_pg c = true \/ no_skip e (pgs (E w (par (E w e)))) = true) ->
  forall o g l, In (g, l) (pgs (E (parent_remove_child c w (par (E w e)) e) o)) -> ~ In e l.
Proof.
  intros H P Ha Hne Hk Hside o g l Hin.
  destruct (data_parent_remove c w e H P Ha Hne Hk) as [Hp Hoth].
  destruct (Nat.eq_dec o (par (E w e))) as [->|Ho].
  - rewrite Hp in Hin. revert g l Hin. apply dangling_false. unfold cur_scrub.
    pose proof (grp_ok_of_inv w (par (E w e)) H P) as OK.
    destruct (snap_pg c) eqn:Es.
    + rewrite scrub_snap_eq_spec by (apply OK). apply spec_no_dangling.
      destruct OK as [_ F]. eapply Forall_impl; [|exact F]. intros q [Hq _]. exact Hq.
    + destruct Hside as [Hs|Hs]; [discriminate|]. apply scrub_no_dangling_partial; assumption.
  - rewrite (Hoth o Ho) in Hin. intros Hd. apply Ho. symmetry. eapply (wf_mempar H); eassumption.
Qed.

(* the pinned loop: a member survives exactly when the side condition fails *)
Theorem dangling_parent_remove_iff c w e :
  wf w -> pginv w -> att w e -> e <> 0 -> ekind (E w e) = KData -> snap_pg c = false ->
  dangling e (pgs (E (parent_remove_child c w (par (E w e)) e) (par (E w e))))
  = negb (no_skip e (pgs (E w (par (E w e))))).
Proof.
  intros H P Ha Hne Hk Hs.
  destruct (data_parent_remove c w e H P Ha Hne Hk) as [Hp _]. rewrite Hp. unfold cur_scrub. rewrite Hs.
  apply scrub_dangling_iff. apply grp_ok_of_inv; assumption.
Qed.

(* removal of a data through the workspace does the same to the tables *)
Lemma data_ws_remove c f w e w' :
  ekind (E w e) = KData -> remove_entity c f w e = (w', Ok) ->
  E w' = E (parent_remove_child c w (par (E w e)) e).
Proof.
  intros Hk Hr. destruct f as [|f]; [simpl in Hr; discriminate|].
  rewrite remove_entity_unfold in Hr. destruct (negb (adel (E w e))); [discriminate|].
  unfold children_loop in Hr. rewrite Hk in Hr. cbn [is_ok] in Hr. inversion Hr. reflexivity.
Qed.
