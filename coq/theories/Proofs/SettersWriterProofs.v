(* C03 — proofs about the writer-side model (Model/SettersWriter.v). *)
From GV Require Import Prelude.Base Model.SettersWriter.

Lemma wrap8_id z : (-128 <= z < 128)%Z -> wrap8 z = z.
Proof. intros H. unfold wrap8. rewrite Z.mod_small by lia. lia. Qed.

(* a branch that passes [action_ok] stores a well-formed value faithfully, whatever was stored before *)
Lemma action_ok_faithful a old v :
  action_ok a (s_tag v) = true -> wf v ->
  exists st, do_action a old v = Some st /\ faithful st v.
Proof.
  intros Hok Hwf. unfold faithful, wf in *.
  destruct a; destruct (s_tag v) eqn:E; simpl in Hok; try discriminate;
    (eexists; split; [simpl; rewrite ?E; reflexivity|]); simpl; rewrite ?E; simpl;
    try reflexivity;
    try (destruct Hwf as [Hw F]; rewrite ?F; split; [try reflexivity; apply wrap8_id; lia | reflexivity]);
    try (destruct Hwf as [_ F]; rewrite F; split; reflexivity);
    try (rewrite Hwf; split; reflexivity);
    try (split; reflexivity).
Qed.

Lemma table_ok_select T t b : table_ok T = true -> In t all_tags -> action_ok (select T t b) t = true.
Proof.
  intros H Hin. unfold table_ok in H. rewrite forallb_forall in H. specialize (H t Hin).
  apply andb_true_iff in H as [H1 H2]. destruct b; assumption.
Qed.

Lemma wf_in_all_tags v : wf v -> In (s_tag v) all_tags.
Proof. unfold wf, all_tags. destruct (s_tag v); simpl; intros H; try tauto. Qed.

(* "after set k v the stored value decodes to v, whatever was stored before" *)
Theorem scalar_write_faithful T old v :
  table_ok T = true -> wf v -> exists st, write_scalar T old v = Some st /\ faithful st v.
Proof.
  intros HT Hwf. unfold write_scalar. apply action_ok_faithful; [|exact Hwf].
  apply table_ok_select; [exact HT | apply wf_in_all_tags; exact Hwf].
Qed.

(* dataset writers: the file holds exactly the assigned value (or nothing for None), whatever it held before *)
Theorem dataset_write_exact {A} steps (old v : option A) :
  writer_ok steps = true -> wfinal steps old v = Some v.
Proof.
  unfold writer_ok, wfinal, wcase_ok. intros H.
  apply andb_true_iff in H as [H H4]. apply andb_true_iff in H as [H H3]. apply andb_true_iff in H as [H1 H2].
  destruct old as [o|], v as [x|]; simpl.
  - destruct (wrun steps true true Kept); simpl in H4; try discriminate; reflexivity.
  - destruct (wrun steps true false Kept); simpl in H3; try discriminate; reflexivity.
  - destruct (wrun steps false true Kept); simpl in H2; try discriminate; reflexivity.
  - destruct (wrun steps false false Kept); simpl in H1; try discriminate; reflexivity.
Qed.
