(* Proofs about Model/Removal.v, part 5 (property C05): the statements over all histories, and the witnesses that refute
   the full-strength statements for the pinned loops. *)
From GV Require Import Prelude.Base Model.PGroups Model.Removal.
From GV Require Import Proofs.PGroupsProofs Proofs.RemovalProofs Proofs.RemovalGroups Proofs.RemovalTotal Proofs.RemovalFile.

(* ---------------- a successful step from a reachable state: what its guard gives ---------------- *)
Lemma step_remove_ws_ok c w e w' o :
  wf w -> step c w (ORemoveWs e) = (w', o) -> o <> BadOp ->
  att w e /\ e <> 0 /\ remove_entity c (fuel_of w) w e = (w', o).
Proof.
  intros H Hs Ho. unfold step in Hs.
  destruct (attachedb w e && negb (Nat.eqb e 0)) eqn:G; [|inversion Hs; subst; congruence].
  apply andb_true_iff in G as [Ga Ge]. apply negb_true_iff, Nat.eqb_neq in Ge.
  split; [apply (attachedb_att w e H); exact Ga | split; assumption].
Qed.

Lemma step_remove_parent_ok c w e w' o :
  wf w -> step c w (ORemoveParent e) = (w', o) -> o <> BadOp ->
  att w e /\ e <> 0 /\ w' = parent_remove_child c w (par (E w e)) e.
Proof.
  intros H Hs Ho. unfold step in Hs.
  destruct (attachedb w e && negb (Nat.eqb e 0)) eqn:G; [|inversion Hs; subst; congruence].
  apply andb_true_iff in G as [Ga Ge]. apply negb_true_iff, Nat.eqb_neq in Ge.
  split; [apply (attachedb_att w e H); exact Ga | split; [assumption | inversion Hs; reflexivity]].
Qed.

(* ---------------- tree level: removal through the workspace prunes exactly the subtree ---------------- *)
Theorem remove_exact c h e w' :
  let w := run c init h in
  step c w (ORemoveWs e) = (w', Ok) ->
  let p := par (E w e) in
  (forall x, ekind (E w x) <> KPG -> (attachedb w' x = true <-> attachedb w x = true /\ ~ desc w e x))
  /\ (forall x, attachedb w' x = true -> x <> p -> E w' x = E w x)
  /\ (forall x, ekind (E w x) <> KPG -> (In x (ch (E w' p)) <-> In x (ch (E w p)) /\ x <> e))
  /\ sub (ch (E w' p)) (ch (E w p)).
Proof.
  intros w Hs p.
  pose proof (reachable_wf c h) as H. fold w in H.
  destruct (step_remove_ws_ok c w e w' Ok H Hs ltac:(discriminate)) as [Ha [Hne Hr]].
  destruct (remove_ws_tree c (fuel_of w) w e w' H Ha Hne Hr) as [Hsh [Hf [HA [HB [HC HD]]]]].
  fold p in HA, HB.
  assert (H' : wf w') by (eapply wf_shrink; eassumption).
  split; [|split; [|split]].
  - intros x Hk. rewrite (attachedb_att w' x H'), (attachedb_att w x H). split; [apply HC|].
    intros [Hx Hnd]. apply HD; assumption.
  - intros x Hx Hxp. apply (attachedb_att w' x H') in Hx. destruct (HC x Hx) as [_ Hnd].
    apply Hf. intros [Hd|Hd]; [exact (Hnd Hd) | exact (Hxp Hd)].
  - intros x Hk. split.
    + intros Hin. split; [eapply sub_In; [apply (es_ch (sh_E Hsh p)) | exact Hin]|]. intros ->. exact (HA Hin).
    + intros [Hin Hxe]. apply HB; assumption.
  - apply (es_ch (sh_E Hsh p)).
Qed.

(* ---------------- file level, repaired remove_recursively ---------------- *)
Theorem ws_removal_file_exact c h e w' :
  snap_ch c = true ->
  let w := run c init h in
  step c w (ORemoveWs e) = (w', Ok) -> ekind (E w e) <> KPG ->
  (forall x, ekind (E w x) <> KPG -> (In x (flat w') <-> In x (flat w) /\ ~ desc w e x))
  /\ sub (flat w') (flat w) /\ sub (links w') (links w).
Proof.
  intros Hc w Hs Hk.
  pose proof (reachable_wf c h) as H. fold w in H.
  destruct (step_remove_ws_ok c w e w' Ok H Hs ltac:(discriminate)) as [Ha [Hne Hr]].
  destruct (remove_ws_file_exact c (fuel_of w) w e w' Hc H Hr Hk) as [H1 H2].
  split; [exact H1 | split; [exact H2|]].
  destruct (remove_entity_fp c (fuel_of w) w e w' Ok (wf_par H) Hr) as [Hsh _]. apply (sh_links Hsh).
Qed.

(* ---------------- no dangling property-group member ---------------- *)
Definition no_dangling_full (c : cfg) : Prop :=
  forall h e entry w',
    let w := run c init h in
    ekind (E w e) = KData -> entry = ORemoveWs e \/ entry = ORemoveParent e ->
    step c w entry = (w', Ok) ->
    forall o g l, In (g, l) (pgs (E w' o)) -> ~ In e l.

Lemma data_removal_tables c h e entry w' :
  let w := run c init h in
  ekind (E w e) = KData -> entry = ORemoveWs e \/ entry = ORemoveParent e ->
  step c w entry = (w', Ok) ->
  att w e /\ e <> 0 /\ E w' = E (parent_remove_child c w (par (E w e)) e).
Proof.
  intros w Hk He Hs. pose proof (reachable_wf c h) as H. fold w in H.
  destruct He as [-> | ->].
  - destruct (step_remove_ws_ok c w e w' Ok H Hs ltac:(discriminate)) as [Ha [Hne Hr]].
    split; [exact Ha | split; [exact Hne|]]. eapply data_ws_remove; eassumption.
  - destruct (step_remove_parent_ok c w e w' Ok H Hs ltac:(discriminate)) as [Ha [Hne ->]].
    split; [exact Ha | split; [exact Hne | reflexivity]].
Qed.

Theorem no_dangling_side c h e entry w' :
  let w := run c init h in
  ekind (E w e) = KData -> entry = ORemoveWs e \/ entry = ORemoveParent e ->
  step c w entry = (w', Ok) ->
  snap_pg c = true \/ no_skip e (pgs (E w (par (E w e)))) = true ->
  forall o g l, In (g, l) (pgs (E w' o)) -> ~ In e l.
Proof.
  intros w Hk He Hs Hside o g l.
  destruct (reachable_inv c h) as [H P]. fold w in H, P.
  destruct (data_removal_tables c h e entry w' Hk He Hs) as [Ha [Hne HE]]. fold w in Ha, HE.
  rewrite HE. apply no_dangling_parent_remove; assumption.
Qed.

Theorem no_dangling_repaired c : snap_pg c = true -> no_dangling_full c.
Proof. intros Hc h e entry w' w Hk He Hs. apply (no_dangling_side c h e entry w' Hk He Hs). left. exact Hc. Qed.

Theorem no_dangling_exact c h e entry w' :
  snap_pg c = false ->
  let w := run c init h in
  ekind (E w e) = KData -> entry = ORemoveWs e \/ entry = ORemoveParent e ->
  step c w entry = (w', Ok) ->
  dangling e (pgs (E w' (par (E w e)))) = negb (no_skip e (pgs (E w (par (E w e))))).
Proof.
  intros Hc w Hk He Hs.
  destruct (reachable_inv c h) as [H P]. fold w in H, P.
  destruct (data_removal_tables c h e entry w' Hk He Hs) as [Ha [Hne HE]]. fold w in Ha, HE.
  rewrite HE. apply dangling_parent_remove_iff; assumption.
Qed.

(* witness: object 1 with data 2,3,4; groups 5 = [2], 6 = [2;3], 7 = [2;4]; remove data 2 *)
Definition h_dangling : list op :=
  [OObject 0; OData 1; OData 1; OData 1; OPgNew 1 [2]; OPgNew 1 [2; 3]; OPgNew 1 [2; 4]].

Lemma h_dangling_result :
  pgs (E (fst (step pinned (run pinned init h_dangling) (ORemoveWs 2))) 1) = [(6, [2; 3]); (7, [4])]
  /\ snd (step pinned (run pinned init h_dangling) (ORemoveWs 2)) = Ok.
Proof. vm_compute. split; reflexivity. Qed.

Theorem no_dangling_refuted : ~ no_dangling_full pinned.
Proof.
  intros F.
  destruct (step pinned (run pinned init h_dangling) (ORemoveWs 2)) as [w' o] eqn:Hs.
  destruct h_dangling_result as [Hp Ho]. rewrite Hs in Hp, Ho. simpl in Hp, Ho. subst o.
  apply (F h_dangling 2 (ORemoveWs 2) w' eq_refl (or_introl eq_refl) Hs 1 6 [2; 3]).
  - rewrite Hp. left. reflexivity.
  - left. reflexivity.
Qed.

(* ---------------- refusal ---------------- *)
Theorem refused_changes_nothing c w e :
  attachedb w e = true -> e <> 0 -> adel (E w e) = false -> step c w (ORemoveWs e) = (w, Refused).
Proof.
  intros Ha Hne Hd. unfold step. rewrite Ha. apply Nat.eqb_neq in Hne. rewrite Hne. simpl.
  rewrite Hd. reflexivity.
Qed.

(* a protected descendant: the request is refused after part of the subtree is gone (recorded finding) *)
Definition h_protected : list op := [OGroup 0; OObject 1; OObject 1; OAllowDelete 3 false].
Lemma protected_descendant_partial_effect :
  forall c, snd (step c (run c init h_protected) (ORemoveWs 1)) = Refused
       /\ flat (run c init h_protected) = [0; 1; 2; 3]
       /\ flat (fst (step c (run c init h_protected) (ORemoveWs 1))) = [0; 1; 3].
Proof. intros [[] [] []]; vm_compute; repeat split; reflexivity. Qed.

(* ---------------- survivors: a further removal is never stuck ---------------- *)
Theorem removal_total c h x :
  let w := run c init h in
  attachedb w x = true -> x <> 0 ->
  (snd (step c w (ORemoveWs x)) = Ok \/ snd (step c w (ORemoveWs x)) = Refused)
  /\ ((forall y, desc w x y -> adel (E w y) = true) -> snd (step c w (ORemoveWs x)) = Ok)
  /\ snd (step c w (ORemoveParent x)) = Ok.
Proof.
  intros w Ha Hne. pose proof (reachable_wf c h) as H. fold w in H.
  pose proof (attachedb_lt w x Ha) as Hlt.
  unfold step. rewrite Ha. apply Nat.eqb_neq in Hne. rewrite Hne. cbn [negb andb].
  split; [|split; [|reflexivity]].
  - apply remove_entity_good; [exact H | exact Hlt | unfold fuel_of; lia].
  - intros Hall. apply remove_entity_ok; [exact H | exact Hlt | unfold fuel_of; lia | exact Hall].
Qed.

(* ---------------- removal through the parent leaves the node in the flat container ---------------- *)
Definition file_exact_via_parent_full (c : cfg) : Prop :=
  forall h e, let w := run c init h in
    attachedb w e = true -> e <> 0 -> ekind (E w e) <> KPG ->
    ~ In e (flat (fst (step c w (ORemoveParent e)))).

Theorem file_exact_via_parent_refuted : forall c, ~ file_exact_via_parent_full c.
Proof.
  intros c F. apply (F [OObject 0] 1); [destruct c as [[] [] []]; reflexivity | discriminate | destruct c as [[] [] []]; discriminate |].
  destruct c as [[] [] []]; vm_compute; right; left; reflexivity.
Qed.

(* the flat node of e goes only when the caller drops its references and a listing getter of that kind runs *)
Lemma via_parent_then_drop_and_list :
  forall c, flat (run c init [OObject 0; ORemoveParent 1]) = [0; 1]
       /\ flat (run c init [OObject 0; ORemoveParent 1; ODrop]) = [0; 1]
       /\ flat (run c init [OObject 0; ORemoveParent 1; OList KObject]) = [0; 1]
       /\ flat (run c init [OObject 0; ORemoveParent 1; ODrop; OList KObject]) = [0].
Proof. intros [[] [] []]; vm_compute; repeat split; reflexivity. Qed.

(* ---------------- the pre-repair remove_recursively (in-place iteration) skipped every second child ---------------- *)
Definition ws_file_exact_full (c : cfg) : Prop :=
  forall h e w', let w := run c init h in
    step c w (ORemoveWs e) = (w', Ok) -> ekind (E w e) <> KPG ->
    forall x, ekind (E w x) <> KPG -> desc w e x -> ~ In x (flat w').

Definition h_four_data : list op := [OObject 0; OData 1; OData 1; OData 1; OData 1].

Theorem old_rec_refuted : forall c, snap_ch c = false -> ~ ws_file_exact_full c.
Proof.
  intros c Hc F.
  destruct (step c (run c init h_four_data) (ORemoveWs 1)) as [w' o] eqn:Hs.
  assert (Hres : o = Ok /\ flat w' = [0; 3; 5]).
  { destruct c as [sp sc pl]. simpl in Hc. subst sc. destruct sp, pl; vm_compute in Hs; inversion Hs; split; reflexivity. }
  destruct Hres as [-> Hfl].
  apply (F h_four_data 1 w' Hs) with (x := 3).
  - destruct c as [[] [] []]; discriminate.
  - destruct c as [[] [] []]; discriminate.
  - apply desc_step with 3; [destruct c as [[] [] []]; vm_compute; tauto | constructor].
  - rewrite Hfl. right. left. reflexivity.
Qed.

Theorem ws_file_exact_repaired c : snap_ch c = true -> ws_file_exact_full c.
Proof.
  intros Hc h e w' w Hs Hk x Hkx Hd Hin.
  destruct (ws_removal_file_exact c h e w' Hc Hs Hk) as [H1 _].
  destruct (proj1 (H1 x Hkx) Hin) as [_ Hnd]. exact (Hnd Hd).
Qed.

(* ---------------- non-vacuity ---------------- *)
Definition h_example : list op :=
  [OGroup 0; OObject 1; OData 2; OData 2; OPgNew 2 [3; 4]; OPgNew 2 [3]; OObject 0; OData 7].

Example example_remove_ws :
  forall c, snd (step c (run c init h_example) (ORemoveWs 1)) = Ok
       /\ flat (run c init h_example) = [0; 1; 2; 3; 4; 7; 8]
       /\ (snap_ch c = true -> flat (fst (step c (run c init h_example) (ORemoveWs 1))) = [0; 7; 8]).
Proof. intros [[] [] []]; vm_compute; repeat split; try reflexivity; discriminate. Qed.

Example example_remove_data :
  forall c, snd (step c (run c init h_example) (ORemoveWs 3)) = Ok
       /\ pgs (E (run c init h_example) 2) = [(5, [3; 4]); (6, [3])]
       /\ no_skip 3 (pgs (E (run c init h_example) 2)) = true
       /\ pgs (E (fst (step c (run c init h_example) (ORemoveWs 3))) 2) = [(5, [4])].
Proof. intros [[] [] []]; vm_compute; repeat split; reflexivity. Qed.
