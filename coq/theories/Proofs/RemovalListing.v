(* Proofs about Model/Removal.v, part 6 (property C05): what listings and look-ups yield once the caller has dropped its
   references; the file side of a removal (child links); both entry points. *)
From GV Require Import Prelude.Base Model.PGroups Model.Removal.
From GV Require Import Proofs.PGroupsProofs Proofs.RemovalProofs Proofs.RemovalGroups Proofs.RemovalTotal Proofs.RemovalFile Proofs.RemovalWitness.

(* what ws.groups / ws.objects / ws.data / ws.property_groups return: the live referents of the registry of that kind *)
Definition listed (w : st) (k : kind) : list nat :=
  filter (fun x => kind_eqb (ekind (E w x)) k && memb x (held w)) (reg w).

Lemma listed_held w k x : In x (listed w k) -> In x (held w).
Proof. unfold listed. intros H. apply filter_In in H as [_ H]. apply andb_true_iff in H as [_ H]. apply memb_In. exact H. Qed.

Lemma drop_held c w x : In x (held (fst (step c w ODrop))) -> attachedb w x = true.
Proof. simpl. intros H. apply filter_In in H. tauto. Qed.

Lemma held_fold_del_flat l : forall w, held (fold_left del_flat l w) = held w.
Proof. induction l as [|a r IH]; intros w; simpl; [reflexivity | rewrite IH; reflexivity]. Qed.

Lemma held_after_list c w k : held (fst (step c w (OList k))) = held w.
Proof.
  unfold step. destruct k; cbn [fst]; try (simpl; apply held_fold_del_flat).
  destruct (pg_list_ok c); [reflexivity | destruct (is_nil _); reflexivity].
Qed.

Lemma lookup_found c w x : snd (step c w (OLookup x)) = Found -> In x (held w).
Proof.
  unfold step. destruct (Nat.ltb x (n w)); [|discriminate]. destruct (memb x (reg w)); [|discriminate].
  destruct (memb x (held w)) eqn:E; [intros _; apply memb_In; exact E | discriminate].
Qed.

(* nothing that is not attached is yielded once the references are dropped *)
Theorem not_attached_not_yielded c w x :
  attachedb w x = false ->
  let w1 := fst (step c w ODrop) in
  ~ In x (held w1)
  /\ snd (step c w1 (OLookup x)) <> Found
  /\ forall k k', ~ In x (listed (fst (step c w1 (OList k))) k').
Proof.
  intros Hx w1.
  assert (Hn : ~ In x (held w1)) by (intros H; apply drop_held in H; congruence).
  split; [exact Hn|]. split.
  - intros H. apply Hn. apply (lookup_found c w1 x H).
  - intros k k' H. apply listed_held in H. rewrite held_after_list in H. exact (Hn H).
Qed.

(* ---------------- a detached subtree is unreachable (both entry points) ---------------- *)
Lemma detached_subtree w w' e :
  wf w -> shrink w w' -> In e (ch (E w (par (E w e)))) -> ~ In e (ch (E w' (par (E w e)))) ->
  forall x, att w' x -> att w x /\ ~ desc w e x.
Proof.
  intros H Hs Hep HA x Hx. induction Hx as [|q x Hq IH Hx].
  - split; [constructor|]. intros Hd. pose proof (desc_ge H Hd) as Hle.
    destruct (wf_ord H _ _ Hep). lia.
  - destruct IH as [IHa IHd].
    assert (Hxw : In x (ch (E w q))) by (eapply sub_In; [apply (es_ch (sh_E Hs q)) | exact Hx]).
    split; [eapply att_step; eassumption|].
    intros Hd. destruct (Nat.eq_dec x e) as [->|Hxe].
    + assert (q = par (E w e)) by (symmetry; apply (wf_par H); exact Hxw). subst q. exact (HA Hx).
    + apply IHd. pose proof (desc_parent H Hd Hxe) as Hd'. rewrite (wf_par H q x Hxw) in Hd'. exact Hd'.
Qed.

Definition removal_of (e : nat) (a : op) : Prop := a = ORemoveWs e \/ a = ORemoveParent e.

Lemma removal_facts c h e a w' :
  let w := run c init h in
  removal_of e a -> step c w a = (w', Ok) ->
  wf w /\ att w e /\ e <> 0 /\ shrink w w' /\ ~ In e (ch (E w' (par (E w e)))).
Proof.
  intros w Ha Hs. pose proof (reachable_wf c h) as H. fold w in H.
  destruct Ha as [-> | ->].
  - destruct (step_remove_ws_ok c w e w' Ok H Hs ltac:(discriminate)) as [Hat [Hne Hr]].
    pose proof (remove_ws_tree c (fuel_of w) w e w' H Hat Hne Hr) as T. cbv zeta in T.
    destruct T as [Hsh [_ [HA _]]]. split; [exact H|]. split; [exact Hat|]. split; [exact Hne|]. split; [exact Hsh | exact HA].
  - destruct (step_remove_parent_ok c w e w' Ok H Hs ltac:(discriminate)) as [Hat [Hne ->]].
    destruct (att_parent H Hat Hne) as [_ Hep].
    destruct (parent_remove_child_children c w (par (E w e)) e H Hep) as [HA _].
    split; [exact H|]. split; [exact Hat|]. split; [exact Hne|]. split; [apply parent_remove_child_shrink | exact HA].
Qed.

Theorem removed_subtree_unattached c h e a w' :
  let w := run c init h in
  removal_of e a -> step c w a = (w', Ok) ->
  forall x, desc w e x -> attachedb w' x = false.
Proof.
  intros w Ha Hs x Hd.
  destruct (removal_facts c h e a w' Ha Hs) as [H [Hat [Hne [Hsh HA]]]]. fold w in H, Hat, Hsh, HA.
  destruct (att_parent H Hat Hne) as [_ Hep].
  assert (H' : wf w') by (eapply wf_shrink; eassumption).
  destruct (attachedb w' x) eqn:Eb; [|reflexivity]. exfalso.
  apply (attachedb_att w' x H') in Eb.
  destruct (detached_subtree w w' e H Hsh Hep HA x Eb) as [_ Hnd]. exact (Hnd Hd).
Qed.

(* C05, "once the caller has dropped its own references": nothing of the removed subtree is yielded by a listing or a
   look-up, whichever entry point was used (what removal through the parent leaves behind is only the node in the file) *)
Theorem removed_not_yielded c h e a w' :
  let w := run c init h in
  removal_of e a -> step c w a = (w', Ok) ->
  forall x, desc w e x ->
  let w1 := fst (step c w' ODrop) in
  ~ In x (held w1)
  /\ snd (step c w1 (OLookup x)) <> Found
  /\ forall k k', ~ In x (listed (fst (step c w1 (OList k))) k').
Proof.
  intros w Ha Hs x Hd. apply not_attached_not_yielded. eapply removed_subtree_unattached; eassumption.
Qed.

(* ... and it stays so: an entity that is not attached is never attached again *)
Lemma att_lt_n w x : wf w -> att w x -> x < n w.
Proof. apply att_lt. Qed.

(* ---------------- child links ---------------- *)
Definition links_ok (w : st) : Prop := forall a b, In (a, b) (links w) -> par (E w b) = a /\ b < n w.

Lemma links_ok_shrink w w' : shrink w w' -> links_ok w -> links_ok w'.
Proof.
  intros Hs L a b Hin. rewrite (es_par (sh_E Hs b)), (sh_n Hs). apply L. eapply sub_In; [apply (sh_links Hs) | exact Hin].
Qed.

Lemma links_fold_del_flat l : forall w, links (fold_left del_flat l w) = links w.
Proof. induction l as [|a r IH]; intros w; simpl; [reflexivity | rewrite IH; reflexivity]. Qed.

Lemma links_write_fpg w g l : links (write_fpg w g l) = links w.
Proof. unfold write_fpg. destruct (memb _ _); reflexivity. Qed.

Lemma step_links_ok c w a : wf w -> links_ok w -> links_ok (fst (step c w a)).
Proof.
  intros H L. destruct a as [p|p|o|o ds|g ds|e b|e|e| |k|e|es]; unfold step.
  - destruct (attachedb w p && kind_eqb (ekind (E w p)) KGroup); [|exact L]. cbn [fst].
    intros a b Hin. simpl in Hin. apply in_app_or in Hin as [Hin|[Hin|[]]].
    + destruct (L a b Hin) as [L1 L2]. simpl. assert (Nat.eqb b (n w) = false) by (apply Nat.eqb_neq; lia). rewrite H0.
      split; [|lia]. destruct (Nat.eqb b p) eqn:Eb; [apply Nat.eqb_eq in Eb; subst b; simpl; exact L1 | exact L1].
    + inversion Hin; subst. simpl. rewrite Nat.eqb_refl. split; [reflexivity | lia].
  - destruct (attachedb w p && kind_eqb (ekind (E w p)) KGroup); [|exact L]. cbn [fst].
    intros a b Hin. simpl in Hin. apply in_app_or in Hin as [Hin|[Hin|[]]].
    + destruct (L a b Hin) as [L1 L2]. simpl. assert (Nat.eqb b (n w) = false) by (apply Nat.eqb_neq; lia). rewrite H0.
      split; [|lia]. destruct (Nat.eqb b p) eqn:Eb; [apply Nat.eqb_eq in Eb; subst b; simpl; exact L1 | exact L1].
    + inversion Hin; subst. simpl. rewrite Nat.eqb_refl. split; [reflexivity | lia].
  - destruct (attachedb w o && kind_eqb (ekind (E w o)) KObject); [|exact L]. cbn [fst].
    intros a b Hin. simpl in Hin. apply in_app_or in Hin as [Hin|[Hin|[]]].
    + destruct (L a b Hin) as [L1 L2]. simpl. assert (Nat.eqb b (n w) = false) by (apply Nat.eqb_neq; lia). rewrite H0.
      split; [|lia]. destruct (Nat.eqb b o) eqn:Eb; [apply Nat.eqb_eq in Eb; subst b; simpl; exact L1 | exact L1].
    + inversion Hin; subst. simpl. rewrite Nat.eqb_refl. split; [reflexivity | lia].
  - destruct (attachedb w o && kind_eqb (ekind (E w o)) KObject && negb (is_nil (add_props (ch (E w o)) (isdata w) [] ds))); [|exact L].
    cbn [fst]. intros a b Hin. rewrite links_write_fpg in Hin. simpl in Hin. rewrite E_write_fpg, n_write_fpg. simpl.
    destruct (L a b Hin) as [L1 L2]. assert (Nat.eqb b (n w) = false) by (apply Nat.eqb_neq; lia). rewrite H0.
    split; [|lia]. destruct (Nat.eqb b o) eqn:Eb; [apply Nat.eqb_eq in Eb; subst b; simpl; exact L1 | exact L1].
  - destruct (attachedb w g && kind_eqb (ekind (E w g)) KPG); [|exact L].
    destruct (index_of g (pgs (E w (par (E w g))))) as [i|]; [|exact L].
    destruct (nth_error (pgs (E w (par (E w g)))) i) as [[h l0]|]; [|exact L]. cbn [fst].
    intros a b Hin. rewrite links_write_fpg in Hin. simpl in Hin. rewrite E_write_fpg, n_write_fpg. simpl.
    destruct (L a b Hin) as [L1 L2]. split; [|exact L2]. destruct (Nat.eqb b (par (E w g))) eqn:Eb; [apply Nat.eqb_eq in Eb; subst b; simpl; exact L1 | exact L1].
  - destruct (attachedb w e && negb (kind_eqb (ekind (E w e)) KPG) && negb (Nat.eqb e 0)); [|exact L]. cbn [fst].
    intros a b0 Hin. simpl in Hin. simpl. destruct (L a b0 Hin) as [L1 L2]. split; [|exact L2].
    destruct (Nat.eqb b0 e) eqn:Eb; [apply Nat.eqb_eq in Eb; subst b0; simpl; exact L1 | exact L1].
  - destruct (attachedb w e && negb (Nat.eqb e 0)); [|exact L].
    destruct (remove_entity c (fuel_of w) w e) as [w' o] eqn:Hr. cbn [fst].
    destruct (remove_entity_fp c (fuel_of w) w e w' o (wf_par H) Hr) as [Hs _]. eapply links_ok_shrink; eassumption.
  - destruct (attachedb w e && negb (Nat.eqb e 0)); [|exact L]. cbn [fst].
    eapply links_ok_shrink; [apply parent_remove_child_shrink | exact L].
  - exact L.
  - destruct k; cbn [fst]; try (destruct (pg_list_ok c); [exact L | destruct (is_nil _); exact L]);
      (intros a b Hin; simpl in Hin; rewrite links_fold_del_flat in Hin; simpl;
       rewrite (proj1 (E_fold_del_flat _ w)), (proj2 (E_fold_del_flat _ w)); apply L; exact Hin).
  - destruct (Nat.ltb e (n w)); [|exact L]. destruct (memb e (reg w)); [|exact L]. destruct (memb e (held w)); exact L.
  - destruct es as [|e0 r]; [exact L|]. destruct (forallb _ (e0 :: r)); [|exact L]. cbn [fst].
    eapply links_ok_shrink; [apply fold_prc_shrink | exact L].
Qed.

Lemma reachable_links_ok c : forall h, links_ok (run c init h).
Proof.
  assert (G : forall h w, wf w -> links_ok w -> links_ok (run c w h)).
  { induction h as [|a r IH]; intros w H L; simpl; [exact L|]. apply IH; [apply step_wf; exact H | apply step_links_ok; assumption]. }
  intros h. apply G; [apply wf_init|]. intros a b [].
Qed.

(* the link from the parent to the removed entity is gone from the parent's node (both entry points) *)
Lemma flat_sub_in w w' x : sub (flat w') (flat w) -> memb x (flat w') = true -> memb x (flat w) = true.
Proof. intros S H. apply memb_In. apply memb_In in H. eapply sub_In; eassumption. Qed.

Lemma del_link_gone w p x : memb p (flat w) = true -> ~ In (p, x) (links (del_link w p x)).
Proof.
  intros Hp. unfold del_link. rewrite Hp. simpl. intros H. apply filter_In in H as [_ H].
  unfold link_eqb in H. simpl in H. rewrite !Nat.eqb_refl in H. discriminate.
Qed.

Lemma flat_object_remove_child c w o x : flat (object_remove_child c w o x) = flat w.
Proof. pose proof (flat_parent_remove_child c w o x) as H. unfold parent_remove_child in H.
  unfold object_remove_child. destruct (ekind (E w x)); try apply flat_remove_pg; rewrite flat_del_link;
    destruct (memb _ _); try reflexivity; simpl; apply flat_rdfg.
Qed.

Lemma parent_link_gone c w p e :
  ekind (E w e) <> KPG -> memb p (flat w) = true -> ~ In (p, e) (links (parent_remove_child c w p e)).
Proof.
  intros Hk Hp. unfold parent_remove_child.
  destruct (ekind (E w p)); try (unfold group_remove_child; apply del_link_gone; exact Hp).
  unfold object_remove_child. destruct (ekind (E w e)) eqn:Ek; try congruence; apply del_link_gone;
    destruct (memb e (ch (E w p))); try exact Hp; simpl; try exact Hp.
  rewrite flat_rdfg. exact Hp.
Qed.

Lemma desc_child_of_parent w e b : wf w -> desc w e b -> b <> e -> In b (ch (E w (par (E w b)))).
Proof.
  intros H. induction 1 as [|e c x Hc Hd IH]; intros Hne; [congruence|].
  destruct (Nat.eq_dec x c) as [->|Hxc]; [rewrite (wf_par H e c Hc); exact Hc | apply IH; exact Hxc].
Qed.

Lemma links_finish c w1 p e k : links (finish c w1 p e k) = links (parent_remove_child c w1 p e).
Proof. unfold finish. destruct k; reflexivity. Qed.

Lemma flat_finish_sub c w1 p e k x : memb x (flat (finish c w1 p e k)) = true -> memb x (flat w1) = true.
Proof. intros H. apply memb_In in H. apply flat_finish in H as [H _]. apply memb_In. exact H. Qed.

(* the parent's node no longer links the removed entity (both entry points) *)
Theorem parent_link_removed c h e a w' :
  let w := run c init h in
  removal_of e a -> step c w a = (w', Ok) -> ekind (E w e) <> KPG ->
  memb (par (E w e)) (flat w') = true -> ~ In (par (E w e), e) (links w').
Proof.
  intros w Ha Hs Hk Hp. pose proof (reachable_wf c h) as H. fold w in H.
  destruct Ha as [-> | ->].
  - destruct (step_remove_ws_ok c w e w' Ok H Hs ltac:(discriminate)) as [Hat [Hne Hr]].
    unfold fuel_of in Hr. rewrite remove_entity_unfold in Hr.
    destruct (negb (adel (E w e))); [discriminate|].
    destruct (children_loop c (S (n w)) w e) as [w1 o1] eqn:Hl.
    destruct (children_loop_fp c (S (n w)) w e w1 o1 (wf_par H) Hl) as [Hs1 _].
    destruct (is_ok o1) eqn:Eo; [|inversion Hr; subst; discriminate]. assert (Hw' : w' = finish c w1 (par (E w e)) e (ekind (E w e))) by (inversion Hr; reflexivity). rewrite Hw' in Hp |- *.
    rewrite links_finish. apply parent_link_gone.
    + rewrite (es_kind (sh_E Hs1 e)). exact Hk.
    + eapply flat_finish_sub. exact Hp.
  - destruct (step_remove_parent_ok c w e w' Ok H Hs ltac:(discriminate)) as [Hat [Hne ->]].
    apply parent_link_gone; [exact Hk|]. rewrite flat_parent_remove_child in Hp. exact Hp.
Qed.

(* with the repaired remove_recursively no node that is still in the file links anything of the removed subtree *)
Theorem visible_links_clean c h e w' :
  snap_ch c = true ->
  let w := run c init h in
  step c w (ORemoveWs e) = (w', Ok) -> ekind (E w e) <> KPG ->
  forall a b, In (a, b) (links w') -> memb a (flat w') = true -> ~ desc w e b.
Proof.
  intros Hc w Hs Hk a b Hin Ha Hd.
  pose proof (reachable_wf c h) as H. fold w in H.
  pose proof (reachable_links_ok c h) as L. fold w in L.
  destruct (ws_removal_file_exact c h e w' Hc Hs Hk) as [Hfile [_ Hsub]]. fold w in Hfile, Hsub.
  destruct (L a b (sub_In _ _ _ Hsub Hin)) as [Hpar _].
  destruct (Nat.eq_dec b e) as [->|Hbe].
  - subst a. exact (parent_link_removed c h e (ORemoveWs e) w' (or_introl eq_refl) Hs Hk Ha Hin).
  - pose proof (desc_parent H Hd Hbe) as Hda. rewrite Hpar in Hda.
    pose proof (desc_child_of_parent w e b H Hd Hbe) as Hch. rewrite Hpar in Hch.
    assert (Hka : ekind (E w a) <> KPG) by (intros Hk'; rewrite (wf_leaf H a Hk') in Hch; destruct Hch).
    apply memb_In in Ha. destruct (proj1 (Hfile a Hka) Ha) as [_ Hnd]. exact (Hnd Hda).
Qed.
