(* flatten (GENERATED) and the enabled states before / after the round trip (property C14). *)
From Coq Require Import String Ascii.
From GV Require Import Prelude.Base Model.PyVal Model.UiRules Model.Enforcers Model.UiForms Model.UiCodec
     Proofs.PyValProofs Proofs.UiRulesProofs Proofs.UiCodecProofs Proofs.UiTreeProofs.
From GVgen Require Import PyLite_SharedUtils PyLite_UiUtils Table_UiValidations PyLite_InputFile.
Local Open Scope string_scope. Local Open Scope list_scope.


(* what flatten reports for one parameter: a disabled form gives None, an enabled one its value (or property) member;
   [None] = the member is missing (KeyError) *)
Definition form_enabled (f : alist) : bool := truthy (mem_default "enabled" f (PBool true)).
Definition flat_value (f : alist) : option pv :=
  if form_enabled f then mem (if truthy (mem_default "isValue" f (PBool true)) then "value" else "property") f else Some PNone.
(* [None]: not reported at all (a dictionary that is not a form) *)
Definition flat_entry (v : pv) : option pv :=
  match v with
  | PDict f => match form_members v with Some _ => match flat_value f with Some x => Some x | None => None end | None => None end
  | _ => Some v
  end.
Definition flat_ok (v : pv) : bool :=
  match v with PDict f => match form_members v with Some _ => is_some (flat_value f) | None => true end | _ => true end.
Fixpoint filter_map_snd (h : pv -> option pv) (d : alist) : alist :=
  match d with [] => [] | (k, v) :: r => match h v with Some x => (k, x) :: filter_map_snd h r | None => filter_map_snd h r end end.

Lemma truth_eq d name f member dflt :
  dict_find (PStr name) d = Some (PDict f) ->
  dict_find (PStr member) [(PStr "enabled", PBool true); (PStr "optional", PBool false); (PStr "groupOptional", PBool false);
                           (PStr "main", PBool false); (PStr "isValue", PBool true)] = Some dflt ->
  truth (PDict d) (PStr name) (PStr member) = Ok (mem_default member f dflt).
Proof.
  intros Hn Hm. unfold truth. cbv zeta. rewrite !getitem_dict_str, !Hn. cbn [bind]. rewrite contains_dict_str. cbn [bind].
  unfold mem_default, mem, dict_has. destruct (dict_find (PStr member) f) as [x|] eqn:E.
  - rewrite getitem_dict_str, E. reflexivity.
  - rewrite contains_dict_str. unfold dict_has. rewrite !Hm. cbn [bind]. reflexivity.
Qed.

Lemma flatten_step d name v acc :
  dict_find (PStr name) d = Some v -> flat_ok v = true ->
  (if isinst v [TDict] then
     t8 <- (t1 <- is_form v ;; Ok (truthy t1)) ;;
     if t8 then
       v_field <- (t3 <- (t2 <- truth (PDict d) (PStr name) (PStr "isValue") ;; Ok (truthy t2)) ;; Ok (if t3 then (PStr "value") else (PStr "property"))) ;;
       t7 <- (t5 <- (t4 <- truth (PDict d) (PStr name) (PStr "enabled") ;; Ok (truthy t4)) ;; Ok (negb t5)) ;;
       if t7 then
         v_data <- setitem acc (PStr name) PNone ;; Ok v_data
       else
         v_data <- (t6 <- getitem v v_field ;; setitem acc (PStr name) t6) ;; Ok v_data
     else Ok acc
   else
     v_data <- setitem acc (PStr name) v ;; Ok v_data)
  = match flat_entry v with Some x => setitem acc (PStr name) x | None => Ok acc end.
Proof.
  intros Hn Hok. destruct (isinst v [TDict]) eqn:Ed.
  - destruct v as [ | | | | | | k' ? | | | | | f ]; try destruct k'; try discriminate.
    rewrite is_form_eq. unfold is_formb. cbn [bind truthy]. unfold flat_entry, flat_ok in *.
    destruct (form_members (PDict f)) as [f'|] eqn:Ef; [|reflexivity].
    rewrite (truth_eq d name f "isValue" (PBool true) Hn eq_refl), (truth_eq d name f "enabled" (PBool true) Hn eq_refl).
    cbn [bind]. unfold flat_value, form_enabled in *.
    destruct (truthy (mem_default "enabled" f (PBool true))); cbn [negb].
    + destruct (truthy (mem_default "isValue" f (PBool true))); rewrite getitem_dict_str; unfold mem in *;
        match goal with |- context [dict_find ?K f] => destruct (dict_find K f) as [x|] eqn:E end; try discriminate; cbn [bind]; apply bind_ret.
    + apply bind_ret.
  - unfold flat_entry. destruct v as [ | | | | | | k' ? | | | | | f ]; try destruct k'; try discriminate; apply bind_ret.
Qed.

Lemma existsb_filter_map_false (q : pv -> bool) h r :
  existsb q (map fst r) = false -> existsb q (map fst (filter_map_snd h r)) = false.
Proof.
  induction r as [|[k v] r IH]; simpl; intros H; [reflexivity|]. apply orb_false_iff in H as [H1 H2].
  destruct (h v); simpl; [rewrite H1|]; apply IH; assumption.
Qed.

Lemma keys_ok_filter_map h d : keys_ok d -> keys_ok (filter_map_snd h d).
Proof.
  intros [H1 H2]. split.
  - clear H2. induction d as [|[k v] r IH]; simpl in *; [reflexivity|]. apply andb_true_iff in H1 as [X Y].
    destruct (h v); simpl; [rewrite X|]; apply IH; assumption.
  - clear H1. induction d as [|[k v] r IH]; simpl in *; [reflexivity|]. apply andb_true_iff in H2 as [X Y].
    destruct (h v); simpl; [|apply IH; assumption].
    apply negb_true_iff in X. rewrite (existsb_filter_map_false _ h r X). simpl. apply IH; assumption.
Qed.

Lemma in_filter_map h d k v x : In (k, v) d -> h v = Some x -> In (k, x) (filter_map_snd h d).
Proof.
  induction d as [|[k2 w] r IH]; intros Hin Hh; [contradiction|]. simpl.
  destruct Hin as [E|Hin].
  - inversion E; subst. rewrite Hh. left; reflexivity.
  - destruct (h w); [right|]; apply IH; assumption.
Qed.

Lemma fold_fresh_opt (step : pv -> pv * pv -> res pv) (h : pv -> option pv) :
  forall rest pre,
  forallb (fun kv : pv * pv => is_pstr (fst kv)) rest = true ->
  keys_distinct (map fst pre ++ map fst rest) = true ->
  (forall acc k v, In (k, v) rest ->
     step (PDict acc) (k, v) = match h v with Some x => setitem (PDict acc) k x | None => Ok (PDict acc) end) ->
  fold_res step rest (PDict pre) = Ok (PDict (pre ++ filter_map_snd h rest)).
Proof.
  induction rest as [|[k v] r IH]; intros pre Hs Hk Hstep; [simpl; rewrite app_nil_r; reflexivity|].
  simpl in Hs. apply andb_true_iff in Hs as [Hs1 Hs2].
  cbn [fold_res]. rewrite Hstep by (left; reflexivity).
  simpl map in Hk. destruct (keys_distinct_app_cons _ _ _ Hk) as (Fresh & K1 & K2).
  cbn [filter_map_snd]. destruct (h v) as [x|].
  - unfold setitem. assert (Hh : hashable k = true) by (destruct k; try discriminate; reflexivity). rewrite Hh.
    rewrite dict_set_fresh by assumption. cbn [bind].
    rewrite IH; [rewrite <- app_assoc; reflexivity | assumption | | intros; apply Hstep; right; assumption].
    rewrite map_app. simpl. exact K1.
  - cbn [bind]. apply IH; [assumption | exact K2 | intros; apply Hstep; right; assumption].
Qed.

(* flatten, as generated, is the entry-wise report *)
Theorem flatten_eq d : keys_ok d -> (forall k v, In (k, v) d -> flat_ok v = true) ->
  flatten (PDict d) = Ok (PDict (filter_map_snd flat_entry d)).
Proof.
  intros K Hok. unfold flatten. cbn [dict_items bind]. destruct K as [K1 K2].
  rewrite (fold_fresh_opt _ flat_entry d [] K1 K2); [reflexivity|].
  intros acc k v Hkv. cbv beta iota.
  assert (Hk : is_pstr k = true) by (rewrite forallb_forall in K1; apply (K1 _ Hkv)).
  destruct k; try discriminate.
  apply (flatten_step d s v (PDict acc)); [apply dict_find_first; [split; assumption | exact Hkv] | apply (Hok _ _ Hkv)].
Qed.

(* None exactly for disabled forms (or an enabled form whose member is itself None) *)
Theorem flatten_form_entry d k f : keys_ok d -> (forall k v, In (k, v) d -> flat_ok v = true) ->
  In (PStr k, PDict f) d -> form_members (PDict f) = Some f ->
  exists data x, flatten (PDict d) = Ok (PDict data) /\ dict_find (PStr k) data = Some x
    /\ (form_enabled f = false -> x = PNone)
    /\ (form_enabled f = true -> mem (if truthy (mem_default "isValue" f (PBool true)) then "value" else "property") f = Some x).
Proof.
  intros K Hok Hin Ef. pose proof (Hok _ _ Hin) as Ok1. unfold flat_ok in Ok1. rewrite Ef in Ok1.
  destruct (flat_value f) as [x|] eqn:Ev; [|discriminate].
  exists (filter_map_snd flat_entry d), x. split; [apply flatten_eq; assumption|]. split.
  - apply dict_find_first; [apply keys_ok_filter_map; exact K|].
    apply (in_filter_map flat_entry d (PStr k) (PDict f) x Hin). unfold flat_entry. rewrite Ef, Ev. reflexivity.
  - unfold flat_value in Ev. split; intros He; rewrite He in Ev; [inversion Ev; reflexivity | exact Ev].
Qed.

(* ---------------------------------------------------------------- the enabled states survive the trip *)
Lemma dict_find_map_snd (h : pv -> pv) key f :
  dict_find key (map (fun kv => (fst kv, h (snd kv))) f) = option_map h (dict_find key f).
Proof. induction f as [|[k v] r IH]; simpl; [reflexivity|]. destruct (py_eq key k); [reflexivity | exact IH]. Qed.

Lemma truthy_canon tup x : tshape tup atom_safe x = true -> truthy (tmap canon x) = truthy x.
Proof.
  destruct x as [ | | | | | | k ? | | | l | l | d ]; try destruct k; intros _; try reflexivity.
  - destruct l; reflexivity.
  - destruct l; reflexivity.
  - destruct d; reflexivity.
Qed.

Theorem enabled_preserved d k f :
  tshape true atom_safe (PDict d) = true -> In (k, PDict f) d ->
  exists f', In (k, PDict f') (match canon_tree (PDict d) with PDict d' => d' | _ => [] end)
             /\ form_enabled f' = form_enabled f
             /\ (dict_has (PStr "label") f' = dict_has (PStr "label") f) /\ (dict_has (PStr "value") f' = dict_has (PStr "value") f).
Proof.
  intros Hs Hin. exists (map (fun kv => (fst kv, tmap canon (snd kv))) f). split; [|split].
  - unfold canon_tree. rewrite tmap_dict. apply in_map_iff. exists (k, PDict f). split; [reflexivity | exact Hin].
  - unfold form_enabled, mem_default, mem. rewrite dict_find_map_snd.
    destruct (dict_find (PStr "enabled") f) as [x|] eqn:E; [|reflexivity]. cbn [option_map].
    destruct (tshape_dict _ _ _ Hs) as (_ & _ & Hd). pose proof (Hd _ _ Hin) as Sf.
    destruct (tshape_dict _ _ _ Sf) as (_ & _ & Hf).
    assert (exists k2, In (k2, x) f) as [k2 Hx] by (apply (dict_find_in _ _ _ E)).
    apply (truthy_canon true x (Hf _ _ Hx)).
  - unfold dict_has. rewrite !dict_find_map_snd. split.
    + destruct (dict_find (PStr "label") f); reflexivity.
    + destruct (dict_find (PStr "value") f); reflexivity.
Qed.

(* ---------------------------------------------------------------- promotion gives the entities back *)
Definition promotable (W : world) (a : pv) : bool :=
  match a with
  | PUuid _ => false                                   (* a raw identifier would come back as an entity (or None) *)
  | PEnt k u => match w_kind W u with Some k' => ekind_eqb k' k | None => false end
  | _ => true
  end.

Lemma uid_promotion_canon W key a : is_atom a = true -> promotable W a = true -> uid_promotion W false key (canon a) = Ok a.
Proof.
  destruct a as [ | | | | | | k u | | | | | ]; try discriminate; intros _ H; try reflexivity.
  simpl in H. simpl. destruct (w_kind W u) as [k'|]; [|discriminate]. apply ekind_eqb_eq in H. subst. reflexivity.
Qed.

Theorem promote_canon W : forall m v, tshape false (promotable W) v = true -> isinst v [TDict] = true -> depth v < m ->
  promote m W false (canon_tree v) = Ok v.
Proof.
  induction m as [|m IH]; intros v Hs Hd Hdep; [lia|].
  destruct v as [ | | | | | | k' ? | | | | | d ]; try destruct k'; try discriminate.
  destruct (tshape_dict _ _ _ Hs) as (_ & _ & Hin).
  unfold canon_tree. rewrite tmap_dict. cbn [promote].
  assert (G : forall dd, (forall k v, In (k, v) dd -> In (k, v) d) ->
     map_res (fun kv : pv * pv => match snd kv with
                | PDict _ => x <- promote m W false (snd kv) ;; Ok (fst kv, x)
                | PList l => l' <- map_res (uid_promotion W false (fst kv)) l ;; Ok (fst kv, PList l')
                | x => y <- uid_promotion W false (fst kv) x ;; Ok (fst kv, y) end)
       (map (fun kv => (fst kv, tmap canon (snd kv))) dd) = Ok dd).
  { induction dd as [|[k v] r IHd]; intros Sub; [reflexivity|].
    assert (Hkv : In (k, v) d) by (apply Sub; left; reflexivity). pose proof (Hin k v Hkv) as Sv. pose proof (depth_dict_in d k v Hkv) as Dv.
    cbn [map map_res fst snd]. rewrite IHd by (intros; apply Sub; right; assumption).
    destruct v as [ | b | z | f | s | u | k2 u | p | t | l | l | d2 ]; try destruct k2; simpl in Sv; try discriminate;
      try (cbn [tmap canon]; rewrite ?uid_promotion_canon by (try reflexivity; exact Sv); reflexivity).
    - (* entity *) change (tmap canon (PEnt KEntity u)) with (canon (PEnt KEntity u)). cbn [canon].
      pose proof (uid_promotion_canon W k (PEnt KEntity u) eq_refl Sv) as X. cbn [canon] in X. rewrite X. reflexivity.
    - change (tmap canon (PEnt (KPropGroup pgtype) u)) with (canon (PEnt (KPropGroup pgtype) u)). cbn [canon].
      pose proof (uid_promotion_canon W k (PEnt (KPropGroup pgtype) u) eq_refl Sv) as X. cbn [canon] in X. rewrite X. reflexivity.
    - (* list *) cbn [tmap].
      rewrite (map_res_ok (uid_promotion W false k) (fun y => match y with PUuid u => uuid2entity W y | _ => y end) (map canon l)).
      + cbn [bind]. rewrite map_map.
        assert (E : map (fun x => match canon x with PUuid u => uuid2entity W (canon x) | _ => canon x end) l = l).
        { rewrite <- (map_id l) at 2. apply map_ext_in. intros a Ha.
          rewrite forallb_forall in Sv. specialize (Sv a Ha). apply andb_true_iff in Sv as [A B].
          pose proof (uid_promotion_canon W k a A B) as X. destruct a as [ | | | | | | k3 u3 | | | | | ]; try discriminate; try reflexivity.
          cbn [canon] in *. unfold uid_promotion in X. cbn [bind] in X. inversion X. reflexivity. }
        rewrite E. reflexivity.
      + intros y Hy. destruct y; reflexivity.
    - (* nested dictionary *) change (tmap canon (PDict d2)) with (canon_tree (PDict d2)).
      rewrite IH; [reflexivity | exact Sv | reflexivity | simpl in Dv, Hdep |- *; lia]. }
  rewrite (G d (fun k v H => H)). reflexivity.
Qed.

(* ---------------------------------------------------------------- write, read, promote: the same dictionary *)
Lemma tshape_mono (L L' : pv -> bool) (tup tup' : bool) : (forall a, L a = true -> L' a = true) -> (tup = true -> tup' = true) ->
  forall m v, depth v < m -> tshape tup L v = true -> tshape tup' L' v = true.
Proof.
  intros H Ht. induction m as [|m IH]; intros v Hdep Hs; [lia|].
  destruct v as [ | | | | | | k ? | | | l | l | d ]; try destruct k; cbn [tshape is_atom andb] in Hs |- *; try discriminate;
    try (apply H; exact Hs).
  - rewrite forallb_forall in *. intros x Hx. specialize (Hs x Hx). apply andb_true_iff in Hs as [A B]. rewrite A, (H x B). reflexivity.
  - apply andb_true_iff in Hs as [T Hs]. rewrite (Ht T). cbn [andb].
    rewrite forallb_forall in *. intros x Hx. specialize (Hs x Hx). apply andb_true_iff in Hs as [A B]. rewrite A, (H x B). reflexivity.
  - apply andb_true_iff in Hs as [Hs Kd]. rewrite Kd, andb_true_r. rewrite forallb_forall in *. intros [k v] Hkv.
    specialize (Hs _ Hkv). apply andb_true_iff in Hs as [A B]. cbn [fst snd] in *. rewrite A.
    rewrite (IH v); [reflexivity | pose proof (depth_dict_in d k v Hkv); lia | exact B].
Qed.

Theorem file_roundtrip_promoted W m d :
  tshape false (fun a => atom_safe a && promotable W a) (PDict d) = true -> depth (PDict d) < m ->
  forms_pass true (text_tree (PDict d)) = true ->
  (j <- file_trip m (PDict d) ;; promote m W false j) = Ok (PDict d).
Proof.
  intros Hs Hdep Hf.
  rewrite (file_roundtrip m d); [| | exact Hdep | exact Hf].
  - cbn [bind]. apply promote_canon; [|reflexivity|exact Hdep].
    apply (tshape_mono (fun a => atom_safe a && promotable W a) (promotable W) false false) with (m := m); [| auto | exact Hdep | exact Hs].
    intros a Ha. apply andb_true_iff in Ha as [_ B]. exact B.
  - apply (tshape_mono (fun a => atom_safe a && promotable W a) atom_safe false true) with (m := m); [| discriminate | exact Hdep | exact Hs].
    intros a Ha. apply andb_true_iff in Ha as [A _]. exact A.
Qed.
