(* Proofs about Model/Octree.v (property C17): the default octree tiles the base grid exactly once,
   for all power-of-two dimensions (unbounded: all exponents eu ev ew). *)
From GV Require Import Prelude.Base Model.GridIndex Model.Octree Proofs.GridIndexProofs.
From Coq Require Import QArith.
Close Scope Q_scope.

(* multiples of s: [0; s; 2s; ...; (n-1)s] *)
Definition mults (n : nat) (s : Z) : list Z := map (fun q => (Z.of_nat q * s)%Z) (seq 0 n).

Definition grid_cells (ni nj nk : nat) (s : Z) : list ocell :=
  flat_map (fun k => flat_map (fun j => map (fun i => (i, j, k, s)) (mults ni s)) (mults nj s)) (mults nk s).

Lemma nth_error_seq : forall n a q, q < n -> nth_error (seq a n) q = Some (a + q).
Proof.
  induction n as [|n IH]; intros a q H; [lia|]. destruct q as [|q]; simpl.
  - f_equal. lia.
  - rewrite IH by lia. f_equal. lia.
Qed.

Lemma mults_length n s : length (mults n s) = n.
Proof. unfold mults. rewrite map_length. apply seq_length. Qed.

Lemma mults_nth n s q : q < n -> nth_error (mults n s) q = Some (Z.of_nat q * s)%Z.
Proof.
  intros H. unfold mults. apply map_nth_error with (f := fun q0 => (Z.of_nat q0 * s)%Z).
  rewrite nth_error_seq by exact H. reflexivity.
Qed.

Lemma grid_cells_length ni nj nk s : length (grid_cells ni nj nk s) = nk * (nj * ni).
Proof.
  unfold grid_cells. rewrite (flat_map_length_uniform _ (nj * ni)), mults_length; [reflexivity|].
  intros k _. rewrite (flat_map_length_uniform _ ni), mults_length; [reflexivity|].
  intros j _. rewrite map_length. apply mults_length.
Qed.

Lemma grid_cells_nth ni nj nk s i j k : i < ni -> j < nj -> k < nk ->
  nth_error (grid_cells ni nj nk s) (k * (nj * ni) + (j * ni + i))
  = Some (Z.of_nat i * s, Z.of_nat j * s, Z.of_nat k * s, s)%Z.
Proof.
  intros Hi Hj Hk. unfold grid_cells.
  rewrite (nth_error_flat_map_uniform _ (nj * ni)) with (x := (Z.of_nat k * s)%Z).
  - rewrite (nth_error_flat_map_uniform _ ni) with (x := (Z.of_nat j * s)%Z).
    + apply map_nth_error with (f := fun i0 : Z => (i0, (Z.of_nat j * s)%Z, (Z.of_nat k * s)%Z, s)).
      apply mults_nth. exact Hi.
    + intros a _. rewrite map_length. apply mults_length.
    + apply mults_nth. exact Hj.
    + exact Hi.
  - intros a _. rewrite (flat_map_length_uniform _ ni), mults_length; [reflexivity|].
    intros b _. rewrite map_length. apply mults_length.
  - apply mults_nth. exact Hk.
  - nia.
Qed.

(* every position of the list is one of those *)
Lemma grid_cells_decompose ni nj nk p : p < nk * (nj * ni) ->
  exists i j k, i < ni /\ j < nj /\ k < nk /\ p = k * (nj * ni) + (j * ni + i).
Proof.
  intros Hp.
  assert (Hni : ni <> 0) by (intros E; subst; lia).
  assert (Hnj : nj <> 0) by (intros E; subst; lia).
  exists ((p mod (nj * ni)) mod ni), ((p mod (nj * ni)) / ni), (p / (nj * ni)).
  assert (Hm : nj * ni <> 0) by lia.
  pose proof (Nat.div_mod p (nj * ni) Hm) as E1.
  pose proof (Nat.mod_upper_bound p (nj * ni) Hm) as B1.
  pose proof (Nat.div_mod (p mod (nj * ni)) ni Hni) as E2.
  pose proof (Nat.mod_upper_bound (p mod (nj * ni)) ni Hni) as B2.
  repeat split.
  - exact B2.
  - apply Nat.div_lt_upper_bound; [exact Hni|]. lia.
  - apply Nat.div_lt_upper_bound; [exact Hm|]. lia.
  - lia.
Qed.

Lemma cover_unique s q a : (0 < s)%Z -> (Z.of_nat q * s <= a < Z.of_nat q * s + s)%Z -> Z.of_nat q = (a / s)%Z.
Proof.
  intros Hs H. apply Z.div_unique with (r := (a - Z.of_nat q * s)%Z); lia.
Qed.

(* exactly one POSITION of the cell list holds a cell covering base cell (a, b, d) *)
Lemma grid_cells_tile ni nj nk s a b d :
  (0 < s)%Z -> (0 <= a < Z.of_nat ni * s)%Z -> (0 <= b < Z.of_nat nj * s)%Z -> (0 <= d < Z.of_nat nk * s)%Z ->
  exists p, (exists c, nth_error (grid_cells ni nj nk s) p = Some c /\ covers c a b d)
    /\ forall p', (exists c, nth_error (grid_cells ni nj nk s) p' = Some c /\ covers c a b d) -> p' = p.
Proof.
  intros Hs Ha Hb Hd.
  assert (Bi : (0 <= a / s < Z.of_nat ni)%Z)
    by (split; [apply Z.div_pos; lia | apply Z.div_lt_upper_bound; lia]).
  assert (Bj : (0 <= b / s < Z.of_nat nj)%Z)
    by (split; [apply Z.div_pos; lia | apply Z.div_lt_upper_bound; lia]).
  assert (Bk : (0 <= d / s < Z.of_nat nk)%Z)
    by (split; [apply Z.div_pos; lia | apply Z.div_lt_upper_bound; lia]).
  set (i := Z.to_nat (a / s)). set (j := Z.to_nat (b / s)). set (k := Z.to_nat (d / s)).
  assert (Ei : Z.of_nat i = (a / s)%Z) by (subst i; lia).
  assert (Ej : Z.of_nat j = (b / s)%Z) by (subst j; lia).
  assert (Ek : Z.of_nat k = (d / s)%Z) by (subst k; lia).
  exists (k * (nj * ni) + (j * ni + i)). split.
  - eexists. split; [apply grid_cells_nth; lia|].
    unfold covers. rewrite Ei, Ej, Ek.
    pose proof (Z.mul_div_le a s Hs). pose proof (Z.mod_pos_bound a s Hs). pose proof (Z.div_mod a s).
    pose proof (Z.mul_div_le b s Hs). pose proof (Z.mod_pos_bound b s Hs). pose proof (Z.div_mod b s).
    pose proof (Z.mul_div_le d s Hs). pose proof (Z.mod_pos_bound d s Hs). pose proof (Z.div_mod d s).
    lia.
  - intros p' [c [Hc Hcov]].
    assert (Hp : p' < nk * (nj * ni)).
    { rewrite <- (grid_cells_length ni nj nk s). apply nth_error_Some. congruence. }
    destruct (grid_cells_decompose ni nj nk p' Hp) as [i' [j' [k' [Hi' [Hj' [Hk' E]]]]]].
    subst p'. rewrite grid_cells_nth in Hc by assumption. inversion Hc; subst c. clear Hc.
    unfold covers in Hcov. destruct Hcov as [Ca [Cb Cd]].
    apply (cover_unique s i' a Hs) in Ca. apply (cover_unique s j' b Hs) in Cb. apply (cover_unique s k' d Hs) in Cd.
    assert (i' = i) by lia. assert (j' = j) by lia. assert (k' = k) by lia. subst. reflexivity.
Qed.

(* ---------------- base_refine is such a grid ---------------- *)
Lemma arange_mults e m : m <= e ->
  arange (2 ^ Z.of_nat e) (2 ^ Z.of_nat m) = mults (2 ^ (e - m)) (2 ^ Z.of_nat m).
Proof.
  intros H. unfold arange, mults. f_equal. f_equal.
  assert (Hs : (0 < 2 ^ Z.of_nat m)%Z) by (apply Z.pow_pos_nonneg; lia).
  replace (Z.of_nat e) with (Z.of_nat (e - m) + Z.of_nat m)%Z by lia.
  rewrite Z.pow_add_r by lia.
  replace (2 ^ Z.of_nat (e - m) * 2 ^ Z.of_nat m + 2 ^ Z.of_nat m - 1)%Z
    with (2 ^ Z.of_nat (e - m) * 2 ^ Z.of_nat m + (2 ^ Z.of_nat m - 1))%Z by lia.
  rewrite Z.div_add_l by lia. rewrite Z.div_small by lia. rewrite Z.add_0_r.
  change 2%Z with (Z.of_nat 2). rewrite <- Nat2Z.inj_pow. apply Nat2Z.id.
Qed.

Lemma base_refine_grid eu ev ew :
  let m := Nat.min eu (Nat.min ev ew) in
  base_refine eu ev ew = grid_cells (2 ^ (eu - m)) (2 ^ (ev - m)) (2 ^ (ew - m)) (2 ^ Z.of_nat m).
Proof.
  intros m. unfold base_refine, grid_cells.
  assert (Em : Z.min (Z.of_nat eu) (Z.min (Z.of_nat ev) (Z.of_nat ew)) = Z.of_nat m) by (subst m; lia).
  rewrite Em.
  replace (Z.min 0 (Z.of_nat m)) with 0%Z by lia.
  replace (Z.of_nat ev - (Z.of_nat ev - Z.of_nat m) - 0)%Z with (Z.of_nat m) by lia.
  replace (Z.of_nat ew - (Z.of_nat ew - Z.of_nat m) - 0)%Z with (Z.of_nat m) by lia.
  replace (Z.of_nat eu - (Z.of_nat eu - Z.of_nat m) - 0)%Z with (Z.of_nat m) by lia.
  replace (Z.of_nat m - 0)%Z with (Z.of_nat m) by lia.
  rewrite !arange_mults by (subst m; lia). reflexivity.
Qed.

Lemma pow_split e m : m <= e -> (Z.of_nat (2 ^ (e - m)) * 2 ^ Z.of_nat m = 2 ^ Z.of_nat e)%Z.
Proof.
  intros H. rewrite Nat2Z.inj_pow. change (Z.of_nat 2) with 2%Z. rewrite <- Z.pow_add_r by lia. f_equal. lia.
Qed.

(* the default octree tiles the u_count x v_count x w_count base grid exactly once *)
Lemma base_refine_tiles_once eu ev ew a b d :
  (0 <= a < 2 ^ Z.of_nat eu)%Z -> (0 <= b < 2 ^ Z.of_nat ev)%Z -> (0 <= d < 2 ^ Z.of_nat ew)%Z ->
  exists p, (exists c, nth_error (base_refine eu ev ew) p = Some c /\ covers c a b d)
    /\ forall p', (exists c, nth_error (base_refine eu ev ew) p' = Some c /\ covers c a b d) -> p' = p.
Proof.
  intros Ha Hb Hd. rewrite base_refine_grid. set (m := Nat.min eu (Nat.min ev ew)).
  apply grid_cells_tile.
  - apply Z.pow_pos_nonneg; lia.
  - rewrite pow_split by (subst m; lia). exact Ha.
  - rewrite pow_split by (subst m; lia). exact Hb.
  - rewrite pow_split by (subst m; lia). exact Hd.
Qed.

(* every default cell lies inside the base grid and is a cube of 2^min(eu,ev,ew) base cells *)
Lemma base_refine_inside eu ev ew c :
  In c (base_refine eu ev ew) ->
  let '(i, j, k, s) := c in
  (s = 2 ^ Z.of_nat (Nat.min eu (Nat.min ev ew)) /\ 0 <= i /\ i + s <= 2 ^ Z.of_nat eu
   /\ 0 <= j /\ j + s <= 2 ^ Z.of_nat ev /\ 0 <= k /\ k + s <= 2 ^ Z.of_nat ew)%Z.
Proof.
  intros H. apply In_nth_error in H. destruct H as [p Hp]. revert Hp.
  rewrite base_refine_grid. set (m := Nat.min eu (Nat.min ev ew)). intros Hp.
  assert (Hlt : p < 2 ^ (ew - m) * (2 ^ (ev - m) * 2 ^ (eu - m))).
  { rewrite <- (grid_cells_length _ _ _ (2 ^ Z.of_nat m)). apply nth_error_Some. congruence. }
  destruct (grid_cells_decompose _ _ _ p Hlt) as [i [j [k [Hi [Hj [Hk E]]]]]]. subst p.
  rewrite grid_cells_nth in Hp by assumption. inversion Hp; subst c. clear Hp.
  assert (Hs : (0 < 2 ^ Z.of_nat m)%Z) by (apply Z.pow_pos_nonneg; lia).
  pose proof (pow_split eu m ltac:(subst m; lia)) as Pu.
  pose proof (pow_split ev m ltac:(subst m; lia)) as Pv.
  pose proof (pow_split ew m ltac:(subst m; lia)) as Pw.
  repeat split; try nia.
Qed.

Lemma base_refine_length eu ev ew :
  let m := Nat.min eu (Nat.min ev ew) in
  length (base_refine eu ev ew) = 2 ^ (ew - m) * (2 ^ (ev - m) * 2 ^ (eu - m)).
Proof. intros m. rewrite base_refine_grid. apply grid_cells_length. Qed.

(* ---------------- centroids ---------------- *)
Section WithRot.
  Variable rotm : Q -> V3 -> V3.

  Lemma o_n_centroids o : length (o_compute rotm o) = o_n_cells o.
  Proof. unfold o_compute, o_n_cells. apply map_length. Qed.

  (* centre of cell p is computed from ITS (I, J, K, NCells) record *)
  Lemma o_centroid_nth o p c : nth_error (o_cells_or_default o) p = Some c ->
    nth_error (o_compute rotm o) p
    = Some (vadd (rotm (o_rotation o) (o_local (o_su o) (o_sv o) (o_sw o) c)) (origin_or_zero (o_origin o))).
  Proof.
    intros H. unfold o_compute.
    apply map_nth_error with
      (f := fun c0 => o_place rotm o (origin_or_zero (o_origin o)) (o_local (o_su o) (o_sv o) (o_sw o) c0)).
    exact H.
  Qed.

  Definition o_coherent (o : octree) : Prop := o_cache o = None \/ o_cache o = Some (o_compute rotm o).

  Definition o_api (op : o_op) : Prop := match op with OOriginX false _ => False | _ => True end.

  Lemma o_step_coherent o op : o_api op -> o_coherent o -> o_coherent (fst (o_step rotm o op)).
  Proof.
    intros Ha H. destruct op as [|p|a|q|q|q|c|[|] x]; unfold o_step; cbn; try (left; reflexivity); try exact H; try contradiction.
    destruct (o_cache o) eqn:E; cbn; [exact H|]. right.
    destruct o as [org r eu ev ew su sv sw cells cache]. cbn. unfold o_compute, o_cells_or_default. cbn.
    destruct cells; reflexivity.
  Qed.

  Fixpoint o_attrs_after (o : octree) (ops : list o_op) : octree :=
    match ops with [] => o | op :: r => o_attrs_after (fst (o_step rotm o op)) r end.

  Lemma o_run_app o ops1 ops2 :
    snd (o_run rotm o (ops1 ++ ops2)) = snd (o_run rotm o ops1) ++ snd (o_run rotm (o_attrs_after o ops1) ops2).
  Proof.
    revert o; induction ops1 as [|op r IH]; intros o; [reflexivity|].
    simpl app. simpl o_run. simpl o_attrs_after.
    destruct (o_step rotm o op) as [o1 out] eqn:E1. simpl fst.
    specialize (IH o1).
    destruct (o_run rotm o1 (r ++ ops2)) as [o2 outs] eqn:E2.
    destruct (o_run rotm o1 r) as [o3 outs3] eqn:E3. simpl in *.
    rewrite IH. destruct out; reflexivity.
  Qed.

  Lemma o_attrs_after_coherent o ops : Forall o_api ops -> o_coherent o -> o_coherent (o_attrs_after o ops).
  Proof.
    revert o; induction ops as [|op r IH]; intros o Ha H; simpl; [exact H|]. inversion Ha; subst.
    apply IH; [assumption|]. apply o_step_coherent; assumption.
  Qed.

  Lemma o_history_read o ops : Forall o_api ops -> o_coherent o ->
    snd (o_run rotm o (ops ++ [ORead])) = snd (o_run rotm o ops) ++ [o_compute rotm (o_attrs_after o ops)].
  Proof.
    intros Ha H. rewrite o_run_app. f_equal.
    pose proof (o_attrs_after_coherent o ops Ha H) as Hc.
    set (o' := o_attrs_after o ops) in *.
    unfold o_run, o_step. destruct Hc as [Hc|Hc]; rewrite Hc; reflexivity.
  Qed.
End WithRot.
