(* Proofs about Model/Removal.v (property C05). *)
From GV Require Import Prelude.Base Model.PGroups Model.Removal Proofs.PGroupsProofs.

(* ================= subsequences ================= *)
Inductive sub {A} : list A -> list A -> Prop :=
| sub_nil : sub [] []
| sub_skip x l' l : sub l' l -> sub l' (x :: l)
| sub_keep x l' l : sub l' l -> sub (x :: l') (x :: l).

Lemma sub_refl {A} (l : list A) : sub l l.
Proof. induction l; constructor; assumption. Qed.

Lemma sub_nil_l {A} (l : list A) : sub [] l.
Proof. induction l; constructor; assumption. Qed.

Lemma sub_trans {A} (a b c : list A) : sub a b -> sub b c -> sub a c.
Proof.
  intros H1 H2. revert a H1. induction H2; intros a H1.
  - exact H1.
  - constructor. apply IHsub. exact H1.
  - inversion H1; subst.
    + constructor. apply IHsub. assumption.
    + apply sub_keep. apply IHsub. assumption.
Qed.

Lemma sub_In {A} (l' l : list A) x : sub l' l -> In x l' -> In x l.
Proof. induction 1; simpl; intuition. Qed.

Lemma sub_NoDup {A} (l' l : list A) : sub l' l -> NoDup l -> NoDup l'.
Proof.
  induction 1; intros ND.
  - constructor.
  - inversion ND; subst. apply IHsub. assumption.
  - inversion ND; subst. constructor; [|apply IHsub; assumption].
    intros Hin. apply H2. eapply sub_In; eassumption.
Qed.

Lemma sub_length {A} (l' l : list A) : sub l' l -> length l' <= length l.
Proof. induction 1; simpl; lia. Qed.

Lemma sub_filter {A} (f : A -> bool) l : sub (filter f l) l.
Proof. induction l; simpl; [constructor|]. destruct (f a); constructor; assumption. Qed.

Lemma sub_remove_first x l : sub (remove_first x l) l.
Proof.
  induction l as [|y r IH]; simpl; [constructor|].
  destruct (Nat.eqb x y); [constructor; apply sub_refl | apply sub_keep; exact IH].
Qed.

Lemma sub_map {A B} (f : A -> B) l' l : sub l' l -> sub (map f l') (map f l).
Proof. induction 1; simpl; constructor; assumption. Qed.

Lemma sub_remove_grp g gs : sub (remove_grp g gs) gs.
Proof.
  induction gs as [|[h l] r IH]; simpl; [constructor|].
  destruct (Nat.eqb g h); [constructor; apply sub_refl | apply sub_keep; exact IH].
Qed.

Lemma set_nth_ids {A} i (g : nat) (a b : A) (gs : list (nat * A)) :
  nth_error gs i = Some (g, a) -> map fst (set_nth i (g, b) gs) = map fst gs.
Proof.
  revert i; induction gs as [|[h m] r IH]; intros [|i]; simpl; try discriminate.
  - intros E. inversion E; subst. reflexivity.
  - intros E. f_equal. apply IH. exact E.
Qed.

Lemma set_nth_In {A} i (a : A) l x : In x (set_nth i a l) -> x = a \/ In x l.
Proof.
  revert i; induction l as [|y r IH]; intros [|i]; simpl; try tauto.
  - intros [H|H]; [left; congruence | right; right; exact H].
  - intros [H|H]; [right; left; exact H|]. destruct (IH i H); [left | right; right]; assumption.
Qed.

Lemma nth_error_In' {A} (l : list A) i x : nth_error l i = Some x -> In x l.
Proof. apply nth_error_In. Qed.

Lemma remove_first_not_in x l : NoDup l -> ~ In x (remove_first x l).
Proof. apply remove_first_NoDup_notin. Qed.

Lemma remove_first_In_other x y l : y <> x -> In y l -> In y (remove_first x l).
Proof. apply remove_first_other. Qed.

(* ================= the "only shrinks" relation between states ================= *)
Definition grps_shrink (new old : list grp) : Prop :=
  sub (map fst new) (map fst old) /\
  forall g l', In (g, l') new -> exists l, In (g, l) old /\ sub l' l.

Lemma grps_shrink_refl gs : grps_shrink gs gs.
Proof. split; [apply sub_refl|]. intros g l H. exists l. split; [exact H | apply sub_refl]. Qed.

Lemma grps_shrink_trans a b c : grps_shrink a b -> grps_shrink b c -> grps_shrink a c.
Proof.
  intros [S1 M1] [S2 M2]. split; [eapply sub_trans; eassumption|].
  intros g l Ha. destruct (M1 g l Ha) as [l1 [Hb S]]. destruct (M2 g l1 Hb) as [l2 [Hc S']].
  exists l2. split; [exact Hc | eapply sub_trans; eassumption].
Qed.

Record ent_shrink (new old : ent) : Prop := {
  es_kind : ekind new = ekind old;
  es_par : par new = par old;
  es_adel : adel new = adel old;
  es_ch : sub (ch new) (ch old);
  es_pgs : grps_shrink (pgs new) (pgs old) }.

Arguments es_kind {new old}. Arguments es_par {new old}. Arguments es_adel {new old}.
Arguments es_ch {new old}. Arguments es_pgs {new old}.

Lemma ent_shrink_refl r : ent_shrink r r.
Proof. constructor; try reflexivity; [apply sub_refl | apply grps_shrink_refl]. Qed.

Lemma ent_shrink_trans a b c : ent_shrink a b -> ent_shrink b c -> ent_shrink a c.
Proof.
  intros [] []. constructor; try congruence.
  - eapply sub_trans; eassumption.
  - eapply grps_shrink_trans; eassumption.
Qed.

Record shrink (w w' : st) : Prop := {
  sh_n : n w' = n w;
  sh_E : forall x, ent_shrink (E w' x) (E w x);
  sh_flat : sub (flat w') (flat w);
  sh_links : sub (links w') (links w);
  sh_reg : reg w' = reg w;
  sh_held : held w' = held w }.

Arguments sh_n {w w'}. Arguments sh_E {w w'}. Arguments sh_flat {w w'}. Arguments sh_links {w w'}.
Arguments sh_reg {w w'}. Arguments sh_held {w w'}.

Lemma shrink_refl w : shrink w w.
Proof. constructor; try reflexivity; try apply sub_refl. intros; apply ent_shrink_refl. Qed.

Lemma shrink_trans a b c : shrink a b -> shrink b c -> shrink a c.
Proof.
  intros [] []. constructor; try congruence.
  - intros x. eapply ent_shrink_trans; [apply sh_E1 | apply sh_E0].
  - eapply sub_trans; eassumption.
  - eapply sub_trans; eassumption.
Qed.

(* a change of one record by a shrinking function *)
Lemma shrink_upd w x f : (forall r, ent_shrink (f r) r) -> shrink w (upd w x f).
Proof.
  intros Hf. constructor; simpl; try reflexivity; try apply sub_refl.
  intros y. destruct (Nat.eqb y x); [apply Hf | apply ent_shrink_refl].
Qed.

Lemma shrink_file w fl lk fp : sub fl (flat w) -> sub lk (links w) -> shrink w (set_file w fl lk fp).
Proof. intros. constructor; simpl; try reflexivity; try assumption. intros; apply ent_shrink_refl. Qed.

Lemma shrink_del_link w p x : shrink w (del_link w p x).
Proof. unfold del_link. destruct (memb p (flat w)); [|apply shrink_refl]. apply shrink_file; [apply sub_refl | apply sub_filter]. Qed.
Lemma shrink_del_flat w e : shrink w (del_flat w e).
Proof. apply shrink_file; [apply sub_filter | apply sub_refl]. Qed.
Lemma shrink_del_fpg w g : shrink w (del_fpg w g).
Proof. unfold del_fpg. destruct (memb _ _); [|apply shrink_refl]. apply shrink_file; apply sub_refl. Qed.
Lemma shrink_write_fpg w g l : shrink w (write_fpg w g l).
Proof. unfold write_fpg. destruct (memb _ _); [|apply shrink_refl]. apply shrink_file; apply sub_refl. Qed.

(* the file primitives do not touch the entity table *)
Lemma E_del_link w p x : E (del_link w p x) = E w.
Proof. unfold del_link. destruct (memb _ _); reflexivity. Qed.
Lemma E_del_flat w e : E (del_flat w e) = E w.
Proof. reflexivity. Qed.
Lemma E_del_fpg w g : E (del_fpg w g) = E w.
Proof. unfold del_fpg. destruct (memb _ _); reflexivity. Qed.
Lemma E_write_fpg w g l : E (write_fpg w g l) = E w.
Proof. unfold write_fpg. destruct (memb _ _); reflexivity. Qed.

Lemma E_upd_same w x f : E (upd w x f) x = f (E w x).
Proof. simpl. rewrite Nat.eqb_refl. reflexivity. Qed.
Lemma E_upd_other w x f y : y <> x -> E (upd w x f) y = E w y.
Proof. intros H. simpl. apply Nat.eqb_neq in H. rewrite H. reflexivity. Qed.

(* ---- entity-level shrinking functions ---- *)
Lemma es_set_ch r l : sub l (ch r) -> ent_shrink (set_ch r l) r.
Proof. intros H. constructor; simpl; try reflexivity; [exact H | apply grps_shrink_refl]. Qed.

Lemma es_set_pgs r gs : grps_shrink gs (pgs r) -> ent_shrink (set_pgs r gs) r.
Proof. intros H. constructor; simpl; try reflexivity; [apply sub_refl | exact H]. Qed.

Lemma gs_remove_grp g gs : grps_shrink (remove_grp g gs) gs.
Proof.
  split; [apply sub_map; apply sub_remove_grp|].
  intros h l H. exists l. split; [eapply sub_In; [apply sub_remove_grp | exact H] | apply sub_refl].
Qed.

Lemma gs_set_nth i g l l' gs :
  nth_error gs i = Some (g, l) -> sub l' l -> grps_shrink (set_nth i (g, l') gs) gs.
Proof.
  intros Hn Hs. split.
  - rewrite (set_nth_ids i g l l' gs Hn). apply sub_refl.
  - intros h m H. apply set_nth_In in H as [H|H].
    + inversion H; subst. exists l. split; [eapply nth_error_In; exact Hn | exact Hs].
    + exists m. split; [exact H | apply sub_refl].
Qed.

(* ================= frames: which records an operation may touch ================= *)
Definition frame (S : nat -> Prop) (w w' : st) : Prop := forall x, ~ S x -> E w' x = E w x.

Lemma frame_refl S w : frame S w w.
Proof. intros x _. reflexivity. Qed.

Lemma frame_trans S a b c : frame S a b -> frame S b c -> frame S a c.
Proof. intros H1 H2 x Hx. rewrite (H2 x Hx). apply H1. exact Hx. Qed.

Lemma frame_weaken (S S' : nat -> Prop) w w' : (forall x, S x -> S' x) -> frame S w w' -> frame S' w w'.
Proof. intros H F x Hx. apply F. intros Hs. apply Hx. apply H. exact Hs. Qed.

Definition only (o : nat) : nat -> Prop := fun x => x = o.

(* ================= remove_pg / rp_visit / rdfg: effect on the object, nothing else ================= *)
Lemma remove_pg_shrink w o g : shrink w (remove_pg w o g).
Proof.
  unfold remove_pg. eapply shrink_trans; [|apply shrink_del_fpg].
  destruct (memb g (ch (E w o))); [|apply shrink_refl].
  apply shrink_upd. intros r.
  eapply ent_shrink_trans; [apply es_set_ch|].
  - destruct (is_nil (pgs r)); simpl; apply sub_remove_first.
  - destruct (is_nil (pgs r)); [apply ent_shrink_refl | apply es_set_pgs, gs_remove_grp].
Qed.

Lemma remove_pg_frame w o g : frame (only o) w (remove_pg w o g).
Proof.
  intros x Hx. unfold remove_pg. rewrite E_del_fpg.
  destruct (memb g (ch (E w o))); [|reflexivity]. apply E_upd_other. exact Hx.
Qed.

Lemma rp_visit_shrink w o d i g l :
  nth_error (pgs (E w o)) i = Some (g, l) -> shrink w (rp_visit w o d i g l).
Proof.
  intros Hn. unfold rp_visit.
  assert (S1 : shrink w (upd w o (fun r => set_pgs r (set_nth i (g, remove_first d l) (pgs r))))).
  { constructor; simpl; try reflexivity; try apply sub_refl.
    intros y. destruct (Nat.eqb y o) eqn:Ey; [|apply ent_shrink_refl].
    apply Nat.eqb_eq in Ey. subst y. apply es_set_pgs. eapply gs_set_nth; [exact Hn | apply sub_remove_first]. }
  destruct (is_nil (remove_first d l)).
  - eapply shrink_trans; [exact S1 | apply remove_pg_shrink].
  - eapply shrink_trans; [exact S1 | apply shrink_write_fpg].
Qed.

Lemma rp_visit_frame w o d i g l : frame (only o) w (rp_visit w o d i g l).
Proof.
  intros x Hx. unfold rp_visit. destruct (is_nil (remove_first d l)).
  - rewrite remove_pg_frame by exact Hx. apply E_upd_other. exact Hx.
  - rewrite E_write_fpg. apply E_upd_other. exact Hx.
Qed.

Lemma rdfg_loop_shrink k : forall w o d i, shrink w (rdfg_loop k w o d i).
Proof.
  induction k as [|k IH]; intros w o d i; simpl; [apply shrink_refl|].
  destruct (nth_error (pgs (E w o)) i) as [[g l]|] eqn:En; [|apply shrink_refl].
  eapply shrink_trans; [apply rp_visit_shrink; exact En | apply IH].
Qed.

Lemma rdfg_loop_frame k : forall w o d i, frame (only o) w (rdfg_loop k w o d i).
Proof.
  induction k as [|k IH]; intros w o d i; simpl; [apply frame_refl|].
  destruct (nth_error (pgs (E w o)) i) as [[g l]|]; [|apply frame_refl].
  eapply frame_trans; [apply rp_visit_frame | apply IH].
Qed.

Lemma index_of_nth g gs i : index_of g gs = Some i -> exists l, nth_error gs i = Some (g, l).
Proof.
  revert i; induction gs as [|[h m] r IH]; simpl; intros i; [discriminate|].
  destruct (Nat.eqb g h) eqn:E.
  - intros H. inversion H; subst. apply Nat.eqb_eq in E. subst. exists m. reflexivity.
  - destruct (index_of g r) as [j|]; simpl; [|discriminate]. intros H. inversion H; subst.
    destruct (IH j eq_refl) as [l Hl]. exists l. exact Hl.
Qed.

Lemma rp_visit_id_shrink w o d g : shrink w (rp_visit_id w o d g).
Proof.
  unfold rp_visit_id. destruct (index_of g (pgs (E w o))) as [i|] eqn:Ei; [|apply shrink_refl].
  destruct (index_of_nth _ _ _ Ei) as [l Hl]. rewrite Hl. apply rp_visit_shrink. exact Hl.
Qed.

Lemma rp_visit_id_frame w o d g : frame (only o) w (rp_visit_id w o d g).
Proof.
  unfold rp_visit_id. destruct (index_of g (pgs (E w o))) as [i|]; [|apply frame_refl].
  destruct (nth_error (pgs (E w o)) i) as [[h l]|]; [apply rp_visit_frame | apply frame_refl].
Qed.

Lemma fold_visit_shrink o d ids : forall w, shrink w (fold_left (fun w g => rp_visit_id w o d g) ids w).
Proof.
  induction ids as [|g r IH]; intros w; simpl; [apply shrink_refl|].
  eapply shrink_trans; [apply rp_visit_id_shrink | apply IH].
Qed.

Lemma fold_visit_frame o d ids : forall w, frame (only o) w (fold_left (fun w g => rp_visit_id w o d g) ids w).
Proof.
  induction ids as [|g r IH]; intros w; simpl; [apply frame_refl|].
  eapply frame_trans; [apply rp_visit_id_frame | apply IH].
Qed.

Lemma rdfg_shrink c w o d : shrink w (rdfg c w o d).
Proof.
  unfold rdfg. destruct (is_nil _); [apply shrink_refl|].
  destruct (snap_pg c); [apply fold_visit_shrink | apply rdfg_loop_shrink].
Qed.

Lemma rdfg_frame c w o d : frame (only o) w (rdfg c w o d).
Proof.
  unfold rdfg. destruct (is_nil _); [apply frame_refl|].
  destruct (snap_pg c); [apply fold_visit_frame | apply rdfg_loop_frame].
Qed.

(* ================= parent.remove_children([x]) ================= *)
Lemma object_remove_child_shrink c w o x : shrink w (object_remove_child c w o x).
Proof.
  unfold object_remove_child.
  assert (G : forall w', shrink w w' ->
              shrink w (del_link (if memb x (ch (E w o)) then upd w' o (fun r => set_ch r (remove_first x (ch r))) else w) o x)).
  { intros w' Hs. eapply shrink_trans; [|apply shrink_del_link].
    destruct (memb x (ch (E w o))); [|apply shrink_refl].
    eapply shrink_trans; [exact Hs|]. apply shrink_upd. intros r. apply es_set_ch, sub_remove_first. }
  destruct (ekind (E w x)); try (apply G; apply shrink_refl).
  - apply G. apply rdfg_shrink.
  - apply remove_pg_shrink.
Qed.

Lemma object_remove_child_frame c w o x : frame (only o) w (object_remove_child c w o x).
Proof.
  intros y Hy. unfold object_remove_child.
  assert (G : forall w', E w' y = E w y ->
     E (del_link (if memb x (ch (E w o)) then upd w' o (fun r => set_ch r (remove_first x (ch r))) else w) o x) y = E w y).
  { intros w' Hw. rewrite E_del_link. destruct (memb x (ch (E w o))); [|reflexivity].
    rewrite E_upd_other by exact Hy. exact Hw. }
  destruct (ekind (E w x)); try (apply G; reflexivity).
  - apply G. apply rdfg_frame. exact Hy.
  - apply remove_pg_frame. exact Hy.
Qed.

Lemma group_remove_child_shrink w p x : shrink w (group_remove_child w p x).
Proof.
  unfold group_remove_child. eapply shrink_trans; [|apply shrink_del_link].
  apply shrink_upd. intros r. apply es_set_ch, sub_filter.
Qed.

Lemma group_remove_child_frame w p x : frame (only p) w (group_remove_child w p x).
Proof. intros y Hy. unfold group_remove_child. rewrite E_del_link. apply E_upd_other. exact Hy. Qed.

Lemma parent_remove_child_shrink c w p x : shrink w (parent_remove_child c w p x).
Proof.
  unfold parent_remove_child. destruct (ekind (E w p));
    try apply group_remove_child_shrink; apply object_remove_child_shrink.
Qed.

Lemma parent_remove_child_frame c w p x : frame (only p) w (parent_remove_child c w p x).
Proof.
  unfold parent_remove_child. destruct (ekind (E w p));
    try apply group_remove_child_frame; apply object_remove_child_frame.
Qed.

(* ================= descendants; the footprint of Workspace.remove_entity ================= *)
Inductive desc (w : st) : nat -> nat -> Prop :=
| desc_refl e : desc w e e
| desc_step e c x : In c (ch (E w e)) -> desc w c x -> desc w e x.

Lemma desc_shrink w w' e x : shrink w w' -> desc w' e x -> desc w e x.
Proof.
  intros Hs. induction 1 as [|e c x Hc _ IH]; [constructor|].
  apply desc_step with c; [|exact IH]. eapply sub_In; [apply (es_ch (sh_E Hs e)) | exact Hc].
Qed.

Lemma desc_trans w a b c : desc w a b -> desc w b c -> desc w a c.
Proof. induction 1; intros H2; [exact H2|]. eapply desc_step; [eassumption | apply IHdesc; exact H2]. Qed.

(* every child points back to its parent (Entity.parent setter + add_children; never changed by a removal) *)
Definition wfp (w : st) : Prop := forall p x, In x (ch (E w p)) -> par (E w x) = p.

Lemma wfp_shrink w w' : shrink w w' -> wfp w -> wfp w'.
Proof.
  intros Hs H p x Hx. rewrite (es_par (sh_E Hs x)). apply H.
  eapply sub_In; [apply (es_ch (sh_E Hs p)) | exact Hx].
Qed.

Definition touched (w : st) (e : nat) : nat -> Prop := fun x => desc w e x \/ x = par (E w e).

Lemma iter_snapshot_inv (I : st -> Prop) rec l :
  (forall w x w' o, I w -> In x l -> rec w x = (w', o) -> I w') ->
  forall w w' o, I w -> iter_snapshot rec w l = (w', o) -> I w'.
Proof.
  induction l as [|a l IH]; simpl; intros Hstep w w' o Hi H.
  - inversion H; subst. exact Hi.
  - destruct (rec w a) as [w1 o1] eqn:Er.
    assert (I1 : I w1) by (eapply Hstep; [exact Hi | left; reflexivity | exact Er]).
    destruct (is_ok o1).
    + eapply IH; [|exact I1 | exact H]. intros; eapply Hstep; eauto.
    + inversion H; subst. exact I1.
Qed.

Lemma iter_inplace_inv (I : st -> Prop) rec e k :
  (forall w x w' o, I w -> In x (ch (E w e)) -> rec w x = (w', o) -> I w') ->
  forall w i w' o, I w -> iter_inplace rec k w e i = (w', o) -> I w'.
Proof.
  intros Hstep. induction k as [|k IH]; simpl; intros w i w' o Hi H.
  - inversion H; subst. exact Hi.
  - destruct (nth_error (ch (E w e)) i) as [x|] eqn:En.
    + destruct (rec w x) as [w1 o1] eqn:Er.
      assert (I1 : I w1) by (eapply Hstep; [exact Hi | eapply nth_error_In; exact En | exact Er]).
      destruct (is_ok o1); [eapply IH; eassumption | inversion H; subst; exact I1].
    + inversion H; subst. exact Hi.
Qed.

Lemma remove_entity_fp c f : forall w e w' o,
  wfp w -> remove_entity c f w e = (w', o) -> shrink w w' /\ frame (touched w e) w w'.
Proof.
  induction f as [|f IH]; intros w e w' o Hwf H.
  - simpl in H. inversion H; subst. split; [apply shrink_refl | apply frame_refl].
  - cbn [remove_entity] in H. destruct (negb (adel (E w e))).
    { inversion H; subst. split; [apply shrink_refl | apply frame_refl]. }
    set (Inv := fun wi => shrink w wi /\ frame (desc w e) w wi).
    assert (Hstep : forall wi x wi' oi, Inv wi -> In x (ch (E w e)) -> remove_entity c f wi x = (wi', oi) -> Inv wi').
    { intros wi x wi' oi [Hs Hf] Hx Hr.
      destruct (IH wi x wi' oi (wfp_shrink w wi Hs Hwf) Hr) as [Hs' Hf'].
      split; [eapply shrink_trans; eassumption|].
      eapply frame_trans; [exact Hf|]. eapply frame_weaken; [|exact Hf'].
      intros y [Hy|Hy].
      - apply desc_step with x; [exact Hx|]. eapply desc_shrink; eassumption.
      - subst y. rewrite (es_par (sh_E Hs x)). rewrite (Hwf e x Hx). constructor. }
    assert (Hloop : forall w1 o1,
      match ekind (E w e) with
      | KGroup => iter_snapshot (remove_entity c f) w (ch (E w e))
      | KObject => if snap_ch c then iter_snapshot (remove_entity c f) w (ch (E w e))
                   else iter_inplace (remove_entity c f) (S (length (ch (E w e)))) w e 0
      | _ => (w, Ok)
      end = (w1, o1) -> Inv w1).
    { intros w1 o1 Hl.
      assert (I0 : Inv w) by (split; [apply shrink_refl | apply frame_refl]).
      destruct (ekind (E w e)).
      - eapply iter_snapshot_inv with (I := Inv); [|exact I0 | exact Hl]. intros; eapply Hstep; eauto.
      - destruct (snap_ch c).
        + eapply iter_snapshot_inv with (I := Inv); [|exact I0 | exact Hl]. intros; eapply Hstep; eauto.
        + eapply iter_inplace_inv with (I := Inv); [|exact I0 | exact Hl].
          intros wi x wi' oi Hi Hx Hr. eapply Hstep; [exact Hi | | exact Hr].
          destruct Hi as [Hs _]. eapply sub_In; [apply (es_ch (sh_E Hs e)) | exact Hx].
      - inversion Hl; subst. exact I0.
      - inversion Hl; subst. exact I0. }
    destruct (match ekind (E w e) with
      | KGroup => iter_snapshot (remove_entity c f) w (ch (E w e))
      | KObject => if snap_ch c then iter_snapshot (remove_entity c f) w (ch (E w e))
                   else iter_inplace (remove_entity c f) (S (length (ch (E w e)))) w e 0
      | _ => (w, Ok)
      end) as [w1 o1] eqn:Hl.
    destruct (Hloop w1 o1 eq_refl) as [Hs1 Hf1].
    assert (Hf1' : frame (touched w e) w w1).
    { eapply frame_weaken; [|exact Hf1]. intros y Hy. left. exact Hy. }
    destruct (is_ok o1).
    + inversion H; subst o.
      assert (Hs2 : shrink w (parent_remove_child c w1 (par (E w e)) e))
        by (eapply shrink_trans; [exact Hs1 | apply parent_remove_child_shrink]).
      assert (Hf2 : frame (touched w e) w (parent_remove_child c w1 (par (E w e)) e)).
      { eapply frame_trans; [exact Hf1'|]. eapply frame_weaken; [|apply parent_remove_child_frame].
        intros y Hy. right. exact Hy. }
      destruct (ekind (E w e)); subst w'; try (split; [eapply shrink_trans; [exact Hs2 | apply shrink_del_flat] | exact Hf2]).
      split; assumption.
    + inversion H; subst. split; assumption.
Qed.

(* ================= one unfolding of remove_entity, with names for its parts ================= *)
Definition children_loop (c : cfg) (f : nat) (w : st) (e : nat) : st * outcome :=
  match ekind (E w e) with
  | KGroup => iter_snapshot (remove_entity c f) w (ch (E w e))
  | KObject => if snap_ch c then iter_snapshot (remove_entity c f) w (ch (E w e))
               else iter_inplace (remove_entity c f) (S (length (ch (E w e)))) w e 0
  | _ => (w, Ok)
  end.

Definition finish (c : cfg) (w1 : st) (p e : nat) (k : kind) : st :=
  let w2 := parent_remove_child c w1 p e in
  match k with KPG => w2 | _ => del_flat w2 e end.

Lemma remove_entity_unfold c f w e :
  remove_entity c (S f) w e =
  if negb (adel (E w e)) then (w, Refused)
  else let (w1, o1) := children_loop c f w e in
       if is_ok o1 then (finish c w1 (par (E w e)) e (ekind (E w e)), Ok) else (w1, o1).
Proof. reflexivity. Qed.

Lemma E_finish c w1 p e k : E (finish c w1 p e k) = E (parent_remove_child c w1 p e).
Proof. unfold finish. destruct k; reflexivity. Qed.

Lemma children_loop_fp c f w e w1 o1 :
  wfp w -> children_loop c f w e = (w1, o1) -> shrink w w1 /\ frame (desc w e) w w1.
Proof.
  intros Hwf Hl.
  set (Inv := fun wi => shrink w wi /\ frame (desc w e) w wi).
  assert (Hstep : forall wi x wi' oi, Inv wi -> In x (ch (E w e)) -> remove_entity c f wi x = (wi', oi) -> Inv wi').
  { intros wi x wi' oi [Hs Hf] Hx Hr.
    destruct (remove_entity_fp c f wi x wi' oi (wfp_shrink w wi Hs Hwf) Hr) as [Hs' Hf'].
    split; [eapply shrink_trans; eassumption|].
    eapply frame_trans; [exact Hf|]. eapply frame_weaken; [|exact Hf'].
    intros y [Hy|Hy].
    - apply desc_step with x; [exact Hx|]. eapply desc_shrink; eassumption.
    - subst y. rewrite (es_par (sh_E Hs x)). rewrite (Hwf e x Hx). constructor. }
  assert (I0 : Inv w) by (split; [apply shrink_refl | apply frame_refl]).
  unfold children_loop in Hl. destruct (ekind (E w e)).
  - eapply iter_snapshot_inv with (I := Inv); [|exact I0 | exact Hl]. intros; eapply Hstep; eauto.
  - destruct (snap_ch c).
    + eapply iter_snapshot_inv with (I := Inv); [|exact I0 | exact Hl]. intros; eapply Hstep; eauto.
    + eapply iter_inplace_inv with (I := Inv); [|exact I0 | exact Hl].
      intros wi x wi' oi Hi Hx Hr. eapply Hstep; [exact Hi | | exact Hr].
      destruct Hi as [Hs _]. eapply sub_In; [apply (es_ch (sh_E Hs e)) | exact Hx].
  - inversion Hl; subst. exact I0.
  - inversion Hl; subst. exact I0.
Qed.

(* ================= well-formed states ================= *)
Definition ids (gs : list grp) : list nat := map fst gs.

Record wf (w : st) : Prop := {
  wf_par : wfp w;
  wf_ord : forall p x, In x (ch (E w p)) -> p < x /\ x < n w;
  wf_nodup : forall p, NoDup (ch (E w p));
  wf_pgk : forall o g, In g (ids (pgs (E w o))) -> ekind (E w g) = KPG;
  wf_pgnd : forall o, NoDup (ids (pgs (E w o)));
  wf_memnd : forall o g l, In (g, l) (pgs (E w o)) -> NoDup l;
  wf_mempar : forall o g l d, In (g, l) (pgs (E w o)) -> In d l -> par (E w d) = o;
  wf_leaf : forall x, ekind (E w x) = KPG -> ch (E w x) = [];
  wf_bound : forall o g l, In (g, l) (pgs (E w o)) -> g < n w /\ forall d, In d l -> d < n w;
  wf_datapar : forall p x, In x (ch (E w p)) -> ekind (E w x) = KData -> ekind (E w p) = KObject;
  wf_npos : 0 < n w;
  wf_dleaf : forall x, ekind (E w x) = KData -> ch (E w x) = [] }.

Arguments wf_par {w}. Arguments wf_ord {w}. Arguments wf_nodup {w}. Arguments wf_pgk {w}.
Arguments wf_pgnd {w}. Arguments wf_memnd {w}. Arguments wf_mempar {w}. Arguments wf_leaf {w}. Arguments wf_bound {w}. Arguments wf_datapar {w}. Arguments wf_npos {w}. Arguments wf_dleaf {w}.

Lemma wf_shrink w w' : shrink w w' -> wf w -> wf w'.
Proof.
  intros Hs H. constructor.
  - eapply wfp_shrink; [exact Hs | apply (wf_par H)].
  - intros p x Hx. rewrite (sh_n Hs). apply (wf_ord H). eapply sub_In; [apply (es_ch (sh_E Hs p)) | exact Hx].
  - intros p. eapply sub_NoDup; [apply (es_ch (sh_E Hs p)) | apply (wf_nodup H)].
  - intros o g Hg. rewrite (es_kind (sh_E Hs g)). apply (wf_pgk H o).
    eapply sub_In; [apply (proj1 (es_pgs (sh_E Hs o))) | exact Hg].
  - intros o. eapply sub_NoDup; [apply (proj1 (es_pgs (sh_E Hs o))) | apply (wf_pgnd H)].
  - intros o g l Hl. destruct (proj2 (es_pgs (sh_E Hs o)) g l Hl) as [l0 [H0 S]].
    eapply sub_NoDup; [exact S | eapply (wf_memnd H); exact H0].
  - intros o g l d Hl Hd. destruct (proj2 (es_pgs (sh_E Hs o)) g l Hl) as [l0 [H0 S]].
    rewrite (es_par (sh_E Hs d)). eapply (wf_mempar H); [exact H0 | eapply sub_In; eassumption].
  - intros x Hk. rewrite (es_kind (sh_E Hs x)) in Hk. pose proof (es_ch (sh_E Hs x)) as S.
    rewrite (wf_leaf H x Hk) in S. inversion S. reflexivity.
  - intros o g l Hl. destruct (proj2 (es_pgs (sh_E Hs o)) g l Hl) as [l0 [H0 S]].
    rewrite (sh_n Hs). destruct (wf_bound H o g l0 H0) as [Hg Hd]. split; [exact Hg|].
    intros d Hd'. apply Hd. eapply sub_In; eassumption.
  - intros p x Hx Hk. rewrite (es_kind (sh_E Hs p)). rewrite (es_kind (sh_E Hs x)) in Hk.
    eapply (wf_datapar H); [|exact Hk]. eapply sub_In; [apply (es_ch (sh_E Hs p)) | exact Hx].
  - rewrite (sh_n Hs). apply (wf_npos H).
  - intros x Hk. rewrite (es_kind (sh_E Hs x)) in Hk. pose proof (es_ch (sh_E Hs x)) as S.
    rewrite (wf_dleaf H x Hk) in S. inversion S. reflexivity.
Qed.

Lemma desc_ge w e x : wf w -> desc w e x -> e <= x.
Proof.
  intros H. induction 1 as [|e c x Hc _ IH]; [lia|].
  destruct (wf_ord H e c Hc). lia.
Qed.

(* a node below e that is not e has its parent below e: the subtree of e is entered only through e *)
Lemma desc_parent w e x : wf w -> desc w e x -> x <> e -> desc w e (par (E w x)).
Proof.
  intros H. induction 1 as [|e c x Hc Hd IH]; intros Hx; [congruence|].
  destruct (Nat.eq_dec x c) as [->|Hne].
  - rewrite (wf_par H e c Hc). constructor.
  - apply desc_step with c; [exact Hc | apply IH; exact Hne].
Qed.

Arguments desc_ge {w e x}. Arguments desc_parent {w e x}.

(* ================= what parent.remove_children([e]) does to the parent's children list ================= *)
Lemma ch_remove_pg w o g : In g (ch (E w o)) -> ch (E (remove_pg w o g) o) = remove_first g (ch (E w o)).
Proof.
  intros Hg. unfold remove_pg. rewrite E_del_fpg.
  apply memb_In in Hg. rewrite Hg. rewrite E_upd_same. reflexivity.
Qed.

Lemma remove_pg_keep w o g x : x <> g -> In x (ch (E w o)) -> In x (ch (E (remove_pg w o g) o)).
Proof.
  intros Hx Hin. unfold remove_pg. rewrite E_del_fpg.
  destruct (memb g (ch (E w o))); [|exact Hin]. rewrite E_upd_same. simpl.
  apply remove_first_In_other; assumption.
Qed.

Definition keeps (w : st) (o x : nat) : Prop := In x (ch (E w o)) /\ ~ In x (ids (pgs (E w o))).

Lemma rp_visit_keep w o d i g l x :
  nth_error (pgs (E w o)) i = Some (g, l) -> keeps w o x -> keeps (rp_visit w o d i g l) o x.
Proof.
  intros Hn [Hin Hni].
  assert (Hxg : x <> g).
  { intros ->. apply Hni. unfold ids. change g with (fst (g, l)). apply in_map. eapply nth_error_In. exact Hn. }
  split.
  - unfold rp_visit. destruct (is_nil (remove_first d l)).
    + apply remove_pg_keep; [exact Hxg|]. rewrite E_upd_same. exact Hin.
    + rewrite E_write_fpg, E_upd_same. exact Hin.
  - intros H. apply Hni. pose proof (rp_visit_shrink w o d i g l Hn) as Hs.
    eapply sub_In; [apply (proj1 (es_pgs (sh_E Hs o))) | exact H].
Qed.

Lemma rdfg_loop_keep k : forall w o d i x, keeps w o x -> keeps (rdfg_loop k w o d i) o x.
Proof.
  induction k as [|k IH]; intros w o d i x H; simpl; [exact H|].
  destruct (nth_error (pgs (E w o)) i) as [[g l]|] eqn:En; [|exact H].
  apply IH. apply rp_visit_keep; assumption.
Qed.

Lemma rp_visit_id_keep w o d g x : keeps w o x -> keeps (rp_visit_id w o d g) o x.
Proof.
  intros H. unfold rp_visit_id. destruct (index_of g (pgs (E w o))) as [i|] eqn:Ei; [|exact H].
  destruct (index_of_nth _ _ _ Ei) as [l Hl]. rewrite Hl. apply rp_visit_keep; assumption.
Qed.

Lemma fold_visit_keep o d x l : forall w, keeps w o x -> keeps (fold_left (fun w g => rp_visit_id w o d g) l w) o x.
Proof. induction l as [|g r IH]; intros w H; simpl; [exact H|]. apply IH. apply rp_visit_id_keep. exact H. Qed.

Lemma rdfg_keep c w o d x : keeps w o x -> keeps (rdfg c w o d) o x.
Proof.
  intros H. unfold rdfg. destruct (is_nil _); [exact H|].
  destruct (snap_pg c); [apply fold_visit_keep | apply rdfg_loop_keep]; exact H.
Qed.

Lemma filter_neqb_In e l x : In x (filter (neqb e) l) <-> In x l /\ x <> e.
Proof.
  rewrite filter_In. unfold neqb. split; intros [H1 H2]; split; try exact H1.
  - intros ->. rewrite Nat.eqb_refl in H2. discriminate.
  - apply negb_true_iff. apply Nat.eqb_neq. congruence.
Qed.

Lemma parent_remove_child_children c w p e :
  wf w -> In e (ch (E w p)) ->
  ~ In e (ch (E (parent_remove_child c w p e) p)) /\
  forall x, In x (ch (E w p)) -> x <> e -> ekind (E w x) <> KPG -> In x (ch (E (parent_remove_child c w p e) p)).
Proof.
  intros H He. unfold parent_remove_child.
  assert (Grp : ~ In e (ch (E (group_remove_child w p e) p)) /\
          forall x, In x (ch (E w p)) -> x <> e -> ekind (E w x) <> KPG -> In x (ch (E (group_remove_child w p e) p))).
  { unfold group_remove_child. rewrite E_del_link, E_upd_same. simpl. split.
    - intros Hin. apply filter_neqb_In in Hin. destruct Hin as [_ Hne]. congruence.
    - intros x Hx Hne _. apply filter_neqb_In. split; assumption. }
  destruct (ekind (E w p)); try exact Grp.
  unfold object_remove_child.
  assert (G : forall w', shrink w w' -> (forall x, keeps w p x -> keeps w' p x) ->
     let w2 := del_link (if memb e (ch (E w p)) then upd w' p (fun r => set_ch r (remove_first e (ch r))) else w) p e in
     ~ In e (ch (E w2 p)) /\
     forall x, In x (ch (E w p)) -> x <> e -> ekind (E w x) <> KPG -> In x (ch (E w2 p))).
  { intros w' Hs Hk w2. subst w2. rewrite E_del_link. apply memb_In in He. rewrite He.
    rewrite E_upd_same. simpl. split.
    - apply remove_first_not_in. eapply sub_NoDup; [apply (es_ch (sh_E Hs p)) | apply (wf_nodup H)].
    - intros x Hx Hne Hkind. apply remove_first_In_other; [exact Hne|].
      apply Hk. split; [exact Hx|]. intros Hi. apply Hkind. eapply (wf_pgk H). exact Hi. }
  destruct (ekind (E w e)) eqn:Ek.
  - apply (G w (shrink_refl w)). tauto.
  - apply (G w (shrink_refl w)). tauto.
  - apply (G (rdfg c w p e) (rdfg_shrink c w p e)). intros x. apply rdfg_keep.
  - rewrite (ch_remove_pg w p e He). split.
    + apply remove_first_not_in. apply (wf_nodup H).
    + intros x Hx Hne _. apply remove_first_In_other; assumption.
Qed.

(* ================= attachment to the root; removal through the workspace prunes the tree ================= *)
Inductive att (w : st) : nat -> Prop :=
| att_root : att w 0
| att_step p x : att w p -> In x (ch (E w p)) -> att w x.

Lemma att_parent w e : wf w -> att w e -> e <> 0 -> att w (par (E w e)) /\ In e (ch (E w (par (E w e)))).
Proof.
  intros H Ha Hne. destruct Ha as [|p x Hp Hx]; [congruence|].
  rewrite (wf_par H p x Hx). split; assumption.
Qed.

Arguments att_parent {w e}.

Theorem remove_ws_tree c f w e w' :
  wf w -> att w e -> e <> 0 -> remove_entity c f w e = (w', Ok) ->
  let p := par (E w e) in
  shrink w w' /\ frame (touched w e) w w'
  /\ ~ In e (ch (E w' p))
  /\ (forall x, In x (ch (E w p)) -> x <> e -> ekind (E w x) <> KPG -> In x (ch (E w' p)))
  /\ (forall x, att w' x -> att w x /\ ~ desc w e x)
  /\ (forall x, att w x -> ~ desc w e x -> ekind (E w x) <> KPG -> att w' x).
Proof.
  intros H Ha Hne Hr p.
  destruct (remove_entity_fp c f w e w' Ok (wf_par H) Hr) as [Hs Hf].
  destruct (att_parent H Ha Hne) as [Hap Hep]. fold p in Hap, Hep.
  destruct f as [|f]; [simpl in Hr; discriminate|].
  rewrite remove_entity_unfold in Hr.
  destruct (negb (adel (E w e))); [discriminate|].
  destruct (children_loop c f w e) as [w1 o1] eqn:Hl.
  destruct (children_loop_fp c f w e w1 o1 (wf_par H) Hl) as [Hs1 Hf1].
  destruct (is_ok o1) eqn:Eo; [|inversion Hr; subst; discriminate]. inversion Hr as [Hw']. clear Hr.
  assert (Hpnd : ~ desc w e p).
  { intros Hd. pose proof (desc_ge H Hd). destruct (wf_ord H p e Hep). lia. }
  assert (Hp1 : E w1 p = E w p) by (apply Hf1; exact Hpnd).
  assert (Hwf1 : wf w1) by (eapply wf_shrink; eassumption).
  assert (Hep1 : In e (ch (E w1 p))) by (rewrite Hp1; exact Hep).
  destruct (parent_remove_child_children c w1 p e Hwf1 Hep1) as [Ha1 Hb1].
  assert (Hch : ch (E w' p) = ch (E (parent_remove_child c w1 p e) p)).
  { rewrite <- Hw'. rewrite E_finish. reflexivity. }
  assert (HA : ~ In e (ch (E w' p))) by (rewrite Hch; exact Ha1).
  assert (HB : forall x, In x (ch (E w p)) -> x <> e -> ekind (E w x) <> KPG -> In x (ch (E w' p))).
  { intros x Hx Hxe Hk. rewrite Hch. apply Hb1; [rewrite Hp1; exact Hx | exact Hxe |].
    rewrite (es_kind (sh_E Hs1 x)). exact Hk. }
  rewrite ?Hw'.
  split; [exact Hs|]. split; [exact Hf|]. split; [exact HA|]. split; [exact HB|]. split.
  - intros x Hx. induction Hx as [|q x Hq IH Hx].
    + split; [constructor|]. intros Hd. pose proof (desc_ge H Hd). lia.
    + destruct IH as [IHa IHd].
      assert (Hxw : In x (ch (E w q))) by (eapply sub_In; [apply (es_ch (sh_E Hs q)) | exact Hx]).
      split; [eapply att_step; eassumption|].
      intros Hd. destruct (Nat.eq_dec x e) as [->|Hxe].
      * assert (q = p) by (unfold p; symmetry; apply (wf_par H); exact Hxw). subst q. exact (HA Hx).
      * apply IHd. pose proof (desc_parent H Hd Hxe) as Hd'. rewrite (wf_par H q x Hxw) in Hd'. exact Hd'.
  - intros x Hx. induction Hx as [|q x Hq IH Hx]; intros Hnd Hk; [constructor|].
    assert (Hqd : ~ desc w e q) by (intros Hd; apply Hnd; eapply desc_trans; [exact Hd | eapply desc_step; [exact Hx | constructor]]).
    assert (Hqk : ekind (E w q) <> KPG).
    { intros Hk'. rewrite (wf_leaf H q Hk') in Hx. destruct Hx. }
    apply att_step with q; [apply IH; assumption|].
    destruct (Nat.eq_dec q p) as [->|Hqp].
    + apply HB; [exact Hx | | exact Hk]. intros ->. apply Hnd. constructor.
    + rewrite (Hf q); [exact Hx|]. intros [Hd|Hd]; [exact (Hqd Hd) | exact (Hqp Hd)].
Qed.

(* ================= every history leads to a well-formed state ================= *)
Lemma wf_same_shape w w' :
  n w' = n w ->
  (forall x, ekind (E w' x) = ekind (E w x) /\ par (E w' x) = par (E w x) /\ ch (E w' x) = ch (E w x) /\ pgs (E w' x) = pgs (E w x)) ->
  wf w -> wf w'.
Proof.
  intros Hn HE H.
  assert (Ek : forall x, ekind (E w' x) = ekind (E w x)) by (intros x; apply HE).
  assert (Ep : forall x, par (E w' x) = par (E w x)) by (intros x; apply HE).
  assert (Ec : forall x, ch (E w' x) = ch (E w x)) by (intros x; apply HE).
  assert (Eg : forall x, pgs (E w' x) = pgs (E w x)) by (intros x; apply HE).
  constructor.
  - intros p x. rewrite Ec, Ep. apply (wf_par H).
  - intros p x. rewrite Ec, Hn. apply (wf_ord H).
  - intros p. rewrite Ec. apply (wf_nodup H).
  - intros o g. rewrite Eg, Ek. apply (wf_pgk H).
  - intros o. rewrite Eg. apply (wf_pgnd H).
  - intros o g l. rewrite Eg. apply (wf_memnd H).
  - intros o g l d. rewrite Eg, Ep. apply (wf_mempar H).
  - intros x. rewrite Ek, Ec. apply (wf_leaf H).
  - intros o g l. rewrite Eg, Hn. apply (wf_bound H).
  - intros p x. rewrite Ec, !Ek. apply (wf_datapar H).
  - rewrite Hn. apply (wf_npos H).
  - intros x. rewrite Ek, Ec. apply (wf_dleaf H).
Qed.

Lemma wf_init : wf init.
Proof.
  constructor; unfold init, ids; simpl.
  - intros p x [].
  - intros p x [].
  - intros p. constructor.
  - intros o g [].
  - intros o. constructor.
  - intros o g l [].
  - intros o g l d [].
  - intros x _. reflexivity.
  - intros o g l [].
  - intros p x [].
  - lia.
  - intros x _. reflexivity.
Qed.

Lemma NoDup_app_snoc {A} (l : list A) x : NoDup l -> ~ In x l -> NoDup (l ++ [x]).
Proof.
  induction 1 as [|y r Hy Hr IH]; simpl; intros Hx; [constructor; [tauto | constructor]|].
  constructor.
  - intros Hin. apply in_app_or in Hin as [Hin|[Hin|[]]]; [exact (Hy Hin) | subst; apply Hx; left; reflexivity].
  - apply IH. intros Hin. apply Hx. right. exact Hin.
Qed.

(* a new entity x = n w under p; p's record gains the child (and possibly one new property group) *)
Lemma wf_add w w' k p extra :
  wf w -> p < n w -> ekind (E w p) <> KPG -> ekind (E w p) <> KData ->
  n w' = S (n w) ->
  E w' (n w) = blank k p ->
  (forall z, z <> n w -> z <> p -> E w' z = E w z) ->
  ekind (E w' p) = ekind (E w p) -> par (E w' p) = par (E w p) ->
  ch (E w' p) = ch (E w p) ++ [n w] -> pgs (E w' p) = pgs (E w p) ++ extra ->
  (k = KData -> ekind (E w p) = KObject) ->
  (extra = [] \/ exists l, extra = [(n w, l)] /\ k = KPG /\ NoDup l /\ forall d, In d l -> In d (ch (E w p))) ->
  wf w'.
Proof.
  intros H Hp Hkp Hkd Hn Hx Hoth Hk Hpar Hch Hpgs Hdata Hex.
  set (x := n w) in *.
  assert (Hxp : p <> x) by (unfold x; lia).
  assert (Kd : forall z, z <> x -> ekind (E w' z) = ekind (E w z)).
  { intros z Hz. destruct (Nat.eq_dec z p) as [->|Hzp]; [exact Hk | rewrite Hoth by assumption; reflexivity]. }
  assert (Pr : forall z, z <> x -> par (E w' z) = par (E w z)).
  { intros z Hz. destruct (Nat.eq_dec z p) as [->|Hzp]; [exact Hpar | rewrite Hoth by assumption; reflexivity]. }
  assert (Cx : ch (E w' x) = []) by (rewrite Hx; reflexivity).
  assert (Gx : pgs (E w' x) = []) by (rewrite Hx; reflexivity).
  assert (Co : forall z, z <> x -> z <> p -> ch (E w' z) = ch (E w z)) by (intros; rewrite Hoth by assumption; reflexivity).
  assert (Go : forall z, z <> x -> z <> p -> pgs (E w' z) = pgs (E w z)) by (intros; rewrite Hoth by assumption; reflexivity).
  assert (Chl : forall q z, In z (ch (E w' q)) -> (q = p /\ z = x) \/ (q <> x /\ In z (ch (E w q)))).
  { intros q z Hz. destruct (Nat.eq_dec q x) as [->|Hqx]; [rewrite Cx in Hz; destruct Hz|].
    destruct (Nat.eq_dec q p) as [->|Hqp].
    - rewrite Hch in Hz. apply in_app_or in Hz as [Hz|[Hz|[]]]; [right; split; assumption | left; split; [reflexivity | symmetry; exact Hz]].
    - rewrite Co in Hz by assumption. right. split; assumption. }
  assert (Oldlt : forall q z, In z (ch (E w q)) -> z <> x) by (intros q z Hz; destruct (wf_ord H q z Hz); unfold x; lia).
  assert (Pgl : forall o g l, In (g, l) (pgs (E w' o)) ->
            (o = p /\ In (g, l) extra) \/ (o <> x /\ In (g, l) (pgs (E w o)))).
  { intros o g l Hl. destruct (Nat.eq_dec o x) as [->|Hox]; [rewrite Gx in Hl; destruct Hl|].
    destruct (Nat.eq_dec o p) as [->|Hop].
    - rewrite Hpgs in Hl. apply in_app_or in Hl as [Hl|Hl]; [right; split; assumption | left; split; [reflexivity | exact Hl]].
    - rewrite Go in Hl by assumption. right. split; assumption. }
  constructor.
  - intros q z Hz. destruct (Chl q z Hz) as [[-> ->]|[Hqx Hz']].
    + rewrite Hx. reflexivity.
    + rewrite Pr by (eapply Oldlt; exact Hz'). apply (wf_par H). exact Hz'.
  - intros q z Hz. rewrite Hn. destruct (Chl q z Hz) as [[-> ->]|[Hqx Hz']].
    + fold x. lia.
    + destruct (wf_ord H q z Hz'). lia.
  - intros q. destruct (Nat.eq_dec q x) as [->|Hqx]; [rewrite Cx; constructor|].
    destruct (Nat.eq_dec q p) as [->|Hqp].
    + rewrite Hch. apply NoDup_app_snoc; [apply (wf_nodup H)|]. intros Hin. exact (Oldlt p x Hin eq_refl).
    + rewrite Co by assumption. apply (wf_nodup H).
  - intros o g Hg. unfold ids in Hg. apply in_map_iff in Hg as [[g' l] [Hfst Hl]]. simpl in Hfst. subst g'.
    destruct (Pgl o g l Hl) as [[-> Hin]|[Hox Hl']].
    + destruct Hex as [->|[l0 [-> [Hkk _]]]]; [destruct Hin|].
      destruct Hin as [Hin|[]]. inversion Hin; subst g l. rewrite Hx. simpl. exact Hkk.
    + destruct (wf_bound H o g l Hl') as [Hg _]. rewrite Kd by (unfold x; lia).
      apply (wf_pgk H o). unfold ids. change g with (fst (g, l)). apply in_map. exact Hl'.
  - intros o. destruct (Nat.eq_dec o x) as [->|Hox]; [rewrite Gx; constructor|].
    destruct (Nat.eq_dec o p) as [->|Hop].
    + rewrite Hpgs. unfold ids. rewrite map_app. destruct Hex as [->|[l0 [-> _]]].
      * simpl. rewrite app_nil_r. apply (wf_pgnd H).
      * simpl. apply NoDup_app_snoc; [apply (wf_pgnd H)|]. intros Hin.
        apply in_map_iff in Hin as [[g' l'] [Hfst Hl']]. simpl in Hfst. subst g'.
        destruct (wf_bound H p x l' Hl') as [Hlt _]. unfold x in Hlt. lia.
    + rewrite Go by assumption. apply (wf_pgnd H).
  - intros o g l Hl. destruct (Pgl o g l Hl) as [[-> Hin]|[Hox Hl']].
    + destruct Hex as [->|[l0 [-> [_ [Hnd _]]]]]; [destruct Hin|].
      destruct Hin as [Hin|[]]. inversion Hin; subst. exact Hnd.
    + eapply (wf_memnd H). exact Hl'.
  - intros o g l d Hl Hd. destruct (Pgl o g l Hl) as [[-> Hin]|[Hox Hl']].
    + destruct Hex as [->|[l0 [-> [_ [_ Hmem]]]]]; [destruct Hin|].
      destruct Hin as [Hin|[]]. inversion Hin; subst.
      pose proof (Hmem d Hd) as Hdc. rewrite Pr by (eapply Oldlt; exact Hdc). apply (wf_par H). exact Hdc.
    + destruct (wf_bound H o g l Hl') as [_ Hb]. rewrite Pr by (pose proof (Hb d Hd); unfold x; lia).
      eapply (wf_mempar H); eassumption.
  - intros z Hz. destruct (Nat.eq_dec z x) as [->|Hzx]; [exact Cx|].
    rewrite Kd in Hz by exact Hzx. destruct (Nat.eq_dec z p) as [->|Hzp]; [contradiction|].
    rewrite Co by assumption. apply (wf_leaf H). exact Hz.
  - intros o g l Hl. rewrite Hn. destruct (Pgl o g l Hl) as [[-> Hin]|[Hox Hl']].
    + destruct Hex as [->|[l0 [-> [_ [_ Hmem]]]]]; [destruct Hin|].
      destruct Hin as [Hin|[]]. inversion Hin; subst. fold x. split; [lia|].
      intros d Hd. destruct (wf_ord H p d (Hmem d Hd)). lia.
    + destruct (wf_bound H o g l Hl') as [Hg Hb]. split; [lia|]. intros d Hd. pose proof (Hb d Hd). lia.
  - intros q z Hz Hkz. destruct (Chl q z Hz) as [[-> ->]|[Hqx Hz']].
    + rewrite Hx in Hkz. simpl in Hkz. rewrite Hk. apply Hdata. exact Hkz.
    + rewrite Kd in Hkz by (eapply Oldlt; exact Hz'). rewrite Kd by exact Hqx.
      eapply (wf_datapar H); eassumption.
  - rewrite Hn. lia.
  - intros z Hz. destruct (Nat.eq_dec z x) as [->|Hzx]; [exact Cx|].
    rewrite Kd in Hz by exact Hzx. destruct (Nat.eq_dec z p) as [->|Hzp]; [contradiction|].
    rewrite Co by assumption. apply (wf_dleaf H). exact Hz.
Qed.

Lemma wf_create w k p :
  wf w -> p < n w -> ekind (E w p) <> KPG -> ekind (E w p) <> KData -> (k = KData -> ekind (E w p) = KObject) -> wf (create w k p).
Proof.
  intros H Hp Hk Hkd Hd.
  assert (Hpx : Nat.eqb p (n w) = false) by (apply Nat.eqb_neq; lia).
  apply wf_add with (w := w) (k := k) (p := p) (extra := []); try assumption; simpl.
  - reflexivity.
  - rewrite Nat.eqb_refl. reflexivity.
  - intros z Hz Hzp. apply Nat.eqb_neq in Hz, Hzp. rewrite Hz, Hzp. reflexivity.
  - rewrite Hpx, Nat.eqb_refl. reflexivity.
  - rewrite Hpx, Nat.eqb_refl. reflexivity.
  - rewrite Hpx, Nat.eqb_refl. reflexivity.
  - rewrite Hpx, Nat.eqb_refl. simpl. rewrite app_nil_r. reflexivity.
  - left. reflexivity.
Qed.

Lemma add_props_ok och isd : forall ds l,
  NoDup l -> NoDup (add_props och isd l ds) /\ forall d, In d (add_props och isd l ds) -> In d l \/ In d och.
Proof.
  induction ds as [|d r IH]; intros l Hl; simpl; [split; [exact Hl | tauto]|].
  destruct (memb d och && isd d && negb (memb d l)) eqn:Ec.
  - apply andb_true_iff in Ec as [Ec Hnl]. apply andb_true_iff in Ec as [Hoch _].
    apply negb_true_iff in Hnl. apply memb_false in Hnl. apply memb_In in Hoch.
    destruct (IH (l ++ [d]) (NoDup_app_snoc l d Hl Hnl)) as [H1 H2]. split; [exact H1|].
    intros x Hx. destruct (H2 x Hx) as [Hx'|Hx']; [|right; exact Hx'].
    apply in_app_or in Hx' as [Hx'|[Hx'|[]]]; [left; exact Hx' | right; subst; exact Hoch].
  - apply IH. exact Hl.
Qed.

Lemma n_write_fpg w g l : n (write_fpg w g l) = n w.
Proof. unfold write_fpg. destruct (memb _ _); reflexivity. Qed.

Lemma wf_set_members w o i g l0 l :
  wf w -> nth_error (pgs (E w o)) i = Some (g, l0) -> NoDup l ->
  (forall d, In d l -> In d l0 \/ In d (ch (E w o))) ->
  wf (upd w o (fun r => set_pgs r (set_nth i (g, l) (pgs r)))).
Proof.
  intros H Hn Hnd Hmem.
  set (w' := upd w o (fun r => set_pgs r (set_nth i (g, l) (pgs r)))).
  assert (Hin0 : In (g, l0) (pgs (E w o))) by (eapply nth_error_In; exact Hn).
  assert (Ek : forall x, ekind (E w' x) = ekind (E w x)) by (intros x; simpl; destruct (Nat.eqb x o); reflexivity).
  assert (Ep : forall x, par (E w' x) = par (E w x)) by (intros x; simpl; destruct (Nat.eqb x o); reflexivity).
  assert (Ec : forall x, ch (E w' x) = ch (E w x)) by (intros x; simpl; destruct (Nat.eqb x o); reflexivity).
  assert (Eids : forall x, ids (pgs (E w' x)) = ids (pgs (E w x))).
  { intros x. simpl. destruct (Nat.eqb x o) eqn:Ex; [|reflexivity]. apply Nat.eqb_eq in Ex. subst x.
    simpl. unfold ids. apply (set_nth_ids i g l0 l _ Hn). }
  assert (Eent : forall x h m, In (h, m) (pgs (E w' x)) -> (x = o /\ h = g /\ m = l) \/ In (h, m) (pgs (E w x))).
  { intros x h m. simpl. destruct (Nat.eqb x o) eqn:Ex; [|tauto]. apply Nat.eqb_eq in Ex. subst x. simpl.
    intros Hi. apply set_nth_In in Hi as [Hi|Hi]; [left; inversion Hi; auto | right; exact Hi]. }
  constructor.
  - intros p x. rewrite Ec, Ep. apply (wf_par H).
  - intros p x. rewrite Ec. apply (wf_ord H).
  - intros p. rewrite Ec. apply (wf_nodup H).
  - intros x h. rewrite Eids, Ek. apply (wf_pgk H).
  - intros x. rewrite Eids. apply (wf_pgnd H).
  - intros x h m Hi. destruct (Eent x h m Hi) as [[-> [-> ->]]|Hi']; [exact Hnd | eapply (wf_memnd H); exact Hi'].
  - intros x h m d Hi Hd. rewrite Ep. destruct (Eent x h m Hi) as [[-> [-> ->]]|Hi'].
    + destruct (Hmem d Hd) as [Hd'|Hd']; [eapply (wf_mempar H); eassumption | apply (wf_par H); exact Hd'].
    + eapply (wf_mempar H); eassumption.
  - intros x. rewrite Ek, Ec. apply (wf_leaf H).
  - intros x h m Hi. change (n w') with (n w). destruct (Eent x h m Hi) as [[-> [-> ->]]|Hi'].
    + destruct (wf_bound H o g l0 Hin0) as [Hg Hb]. split; [exact Hg|]. intros d Hd.
      destruct (Hmem d Hd) as [Hd'|Hd']; [apply Hb; exact Hd' | destruct (wf_ord H o d Hd'); lia].
    + apply (wf_bound H x h m Hi').
  - intros p x. rewrite Ec, !Ek. apply (wf_datapar H).
  - apply (wf_npos H).
  - intros x. rewrite Ek, Ec. apply (wf_dleaf H).
Qed.

Lemma attachedb_lt w x : attachedb w x = true -> x < n w.
Proof. unfold attachedb. intros H. apply andb_true_iff in H as [H _]. apply Nat.ltb_lt. exact H. Qed.

Lemma kind_eqb_eq a b : kind_eqb a b = true <-> a = b.
Proof. destruct a, b; simpl; split; intros; congruence. Qed.

Lemma E_fold_del_flat l : forall w, E (fold_left del_flat l w) = E w /\ n (fold_left del_flat l w) = n w.
Proof. induction l as [|a r IH]; intros w; simpl; [split; reflexivity|]. destruct (IH (del_flat w a)) as [H1 H2]. rewrite H1, H2. split; reflexivity. Qed.

Lemma wf_same_E w w' : n w' = n w -> E w' = E w -> wf w -> wf w'.
Proof. intros Hn HE. apply wf_same_shape; [exact Hn|]. intros x. rewrite HE. repeat split; reflexivity. Qed.

Lemma fold_prc_shrink c p es : forall w, shrink w (fold_left (fun w e => parent_remove_child c w p e) es w).
Proof.
  induction es as [|e r IH]; intros w; simpl; [apply shrink_refl|].
  eapply shrink_trans; [apply parent_remove_child_shrink | apply IH].
Qed.

Lemma step_wf c w a : wf w -> wf (fst (step c w a)).
Proof.
  intros H. destruct a as [p|p|o|o ds|g ds|e b|e|e| |k|e|es]; unfold step.
  - destruct (attachedb w p && kind_eqb (ekind (E w p)) KGroup) eqn:G; [|exact H]. simpl.
    apply andb_true_iff in G as [Ga Gk]. apply kind_eqb_eq in Gk.
    apply wf_create; [exact H | apply attachedb_lt; exact Ga | congruence | congruence | discriminate].
  - destruct (attachedb w p && kind_eqb (ekind (E w p)) KGroup) eqn:G; [|exact H]. simpl.
    apply andb_true_iff in G as [Ga Gk]. apply kind_eqb_eq in Gk.
    apply wf_create; [exact H | apply attachedb_lt; exact Ga | congruence | congruence | discriminate].
  - destruct (attachedb w o && kind_eqb (ekind (E w o)) KObject) eqn:G; [|exact H]. simpl.
    apply andb_true_iff in G as [Ga Gk]. apply kind_eqb_eq in Gk.
    apply wf_create; [exact H | apply attachedb_lt; exact Ga | congruence | congruence | intros _; exact Gk].
  - destruct (attachedb w o && kind_eqb (ekind (E w o)) KObject && negb (is_nil (add_props (ch (E w o)) (isdata w) [] ds))) eqn:G; [|exact H].
    simpl. apply andb_true_iff in G as [G _]. apply andb_true_iff in G as [Ga Gk]. apply kind_eqb_eq in Gk.
    pose proof (attachedb_lt w o Ga) as Hlt.
    assert (Hox : Nat.eqb o (n w) = false) by (apply Nat.eqb_neq; lia).
    destruct (add_props_ok (ch (E w o)) (isdata w) ds [] (NoDup_nil nat)) as [Hnd Hmem].
    eapply wf_add with (w := w) (k := KPG) (p := o) (extra := [(n w, add_props (ch (E w o)) (isdata w) [] ds)]);
      try exact H; try exact Hlt; try congruence; try rewrite E_write_fpg; try rewrite n_write_fpg; simpl.
    + reflexivity.
    + rewrite Nat.eqb_refl. reflexivity.
    + intros z Hz Hzo. apply Nat.eqb_neq in Hz, Hzo. rewrite Hz, Hzo. reflexivity.
    + rewrite Hox, Nat.eqb_refl. reflexivity.
    + rewrite Hox, Nat.eqb_refl. reflexivity.
    + rewrite Hox, Nat.eqb_refl. reflexivity.
    + rewrite Hox, Nat.eqb_refl. reflexivity.
    + right. eexists. split; [reflexivity|]. split; [reflexivity|]. split; [exact Hnd|].
      intros d Hd. destruct (Hmem d Hd) as [[]|Hd']. exact Hd'.
  - destruct (attachedb w g && kind_eqb (ekind (E w g)) KPG); [|exact H].
    destruct (index_of g (pgs (E w (par (E w g))))) as [i|] eqn:Ei; [|exact H].
    destruct (index_of_nth _ _ _ Ei) as [l0 Hl0]. rewrite Hl0. simpl.
    set (o := par (E w g)) in *.
    assert (Hnd0 : NoDup l0) by (eapply (wf_memnd H o g); eapply nth_error_In; exact Hl0).
    destruct (add_props_ok (ch (E w o)) (isdata w) ds l0 Hnd0) as [Hnd Hmem].
    match goal with |- wf (write_fpg ?w1 _ _) => apply wf_same_E with (w := w1) end; [apply n_write_fpg | apply E_write_fpg |].
    eapply wf_set_members; eassumption.
  - destruct (attachedb w e && negb (kind_eqb (ekind (E w e)) KPG) && negb (Nat.eqb e 0)); [|exact H]. simpl.
    apply wf_same_shape with (w := w); [reflexivity | | exact H]. intros x. simpl. destruct (Nat.eqb x e); repeat split; reflexivity.
  - destruct (attachedb w e && negb (Nat.eqb e 0)); [|exact H].
    destruct (remove_entity c (fuel_of w) w e) as [w' o] eqn:Hr. cbn [fst].
    destruct (remove_entity_fp c (fuel_of w) w e w' o (wf_par H) Hr) as [Hs _]. eapply wf_shrink; eassumption.
  - destruct (attachedb w e && negb (Nat.eqb e 0)); [|exact H]. simpl.
    eapply wf_shrink; [apply parent_remove_child_shrink | exact H].
  - apply wf_same_E with (w := w); [reflexivity | reflexivity | exact H].
  - destruct k; simpl;
      try (destruct (pg_list_ok c); [apply wf_same_E with (w := w); [reflexivity | reflexivity | exact H] | destruct (is_nil _); exact H]);
      (apply wf_same_E with (w := w); [| |exact H]; simpl; [apply (proj2 (E_fold_del_flat _ w)) | apply (proj1 (E_fold_del_flat _ w))]).
  - destruct (Nat.ltb e (n w)); [|exact H]. destruct (memb e (reg w)); [|exact H].
    destruct (memb e (held w)); [exact H|]. simpl. apply wf_same_E with (w := w); [reflexivity | reflexivity | exact H].
  - destruct es as [|e0 r]; [exact H|]. destruct (forallb _ (e0 :: r)); [|exact H]. cbn [fst].
    eapply wf_shrink; [apply fold_prc_shrink | exact H].
Qed.

Theorem run_wf c : forall h w, wf w -> wf (run c w h).
Proof. induction h as [|a r IH]; intros w H; simpl; [exact H|]. apply IH. apply step_wf. exact H. Qed.

Corollary reachable_wf c h : wf (run c init h).
Proof. apply run_wf. apply wf_init. Qed.

(* ================= the executable attachment test agrees with reachability from the root ================= *)
Lemma attached_f_att f : forall w x, attached_f f w x = true -> att w x.
Proof.
  induction f as [|f IH]; intros w x H; simpl in H; [discriminate|].
  apply orb_true_iff in H as [H|H].
  - apply Nat.eqb_eq in H. subst. constructor.
  - apply andb_true_iff in H as [H1 H2]. apply memb_In in H1. eapply att_step; [apply IH; exact H2 | exact H1].
Qed.

Lemma att_attached_f w x : wf w -> att w x -> forall f, x < f -> attached_f f w x = true.
Proof.
  intros H. induction 1 as [|p x Hp IH Hx]; intros f Hf.
  - destruct f; [lia|]. reflexivity.
  - destruct f; [lia|]. simpl. apply orb_true_iff. right.
    rewrite (wf_par H p x Hx). apply andb_true_iff. split; [apply memb_In; exact Hx|].
    apply IH. destruct (wf_ord H p x Hx). lia.
Qed.

Lemma att_lt w x : wf w -> att w x -> x < n w.
Proof. intros H [|p y _ Hy]; [apply (wf_npos H) | apply (wf_ord H p y Hy)]. Qed.

Lemma attachedb_att w x : wf w -> (attachedb w x = true <-> att w x).
Proof.
  intros H. unfold attachedb. split.
  - intros Hb. apply andb_true_iff in Hb as [_ Hb]. eapply attached_f_att. exact Hb.
  - intros Ha. pose proof (att_lt w x H Ha). apply andb_true_iff. split; [apply Nat.ltb_lt; assumption|].
    apply att_attached_f; [exact H | exact Ha | lia].
Qed.
