(* Proofs about Model/Removal.v, part 4 (property C05): the flat containers of the file.
   Removal through the workspace never deletes the node of a survivor; with the repaired remove_recursively
   (snapshot iteration) it deletes the node of every entity of the removed subtree. *)
From GV Require Import Prelude.Base Model.PGroups Model.Removal Proofs.PGroupsProofs Proofs.RemovalProofs.

(* ---------------- only H5Writer.remove_entity touches the flat containers ---------------- *)
Lemma flat_del_link w p x : flat (del_link w p x) = flat w.
Proof. unfold del_link. destruct (memb _ _); reflexivity. Qed.
Lemma flat_del_fpg w g : flat (del_fpg w g) = flat w.
Proof. unfold del_fpg. destruct (memb _ _); reflexivity. Qed.
Lemma flat_write_fpg w g l : flat (write_fpg w g l) = flat w.
Proof. unfold write_fpg. destruct (memb _ _); reflexivity. Qed.

Lemma flat_remove_pg w o g : flat (remove_pg w o g) = flat w.
Proof. unfold remove_pg. rewrite flat_del_fpg. destruct (memb _ _); reflexivity. Qed.

Lemma flat_rp_visit w o d i g l : flat (rp_visit w o d i g l) = flat w.
Proof. unfold rp_visit. destruct (is_nil _); [rewrite flat_remove_pg | rewrite flat_write_fpg]; reflexivity. Qed.

Lemma flat_rdfg_loop k : forall w o d i, flat (rdfg_loop k w o d i) = flat w.
Proof.
  induction k as [|k IH]; intros; simpl; [reflexivity|].
  destruct (nth_error _ _) as [[g l]|]; [|reflexivity]. rewrite IH. apply flat_rp_visit.
Qed.

Lemma flat_rp_visit_id w o d g : flat (rp_visit_id w o d g) = flat w.
Proof.
  unfold rp_visit_id. destruct (index_of _ _); [|reflexivity].
  destruct (nth_error _ _) as [[h l]|]; [apply flat_rp_visit | reflexivity].
Qed.

Lemma flat_fold_visit o d l : forall w, flat (fold_left (fun w g => rp_visit_id w o d g) l w) = flat w.
Proof. induction l as [|g r IH]; intros w; simpl; [reflexivity|]. rewrite IH. apply flat_rp_visit_id. Qed.

Lemma flat_rdfg c w o d : flat (rdfg c w o d) = flat w.
Proof.
  unfold rdfg. destruct (is_nil _); [reflexivity|].
  destruct (snap_pg c); [apply flat_fold_visit | apply flat_rdfg_loop].
Qed.

Lemma flat_parent_remove_child c w p x : flat (parent_remove_child c w p x) = flat w.
Proof.
  unfold parent_remove_child, object_remove_child, group_remove_child.
  destruct (ekind (E w p)); try (rewrite flat_del_link; reflexivity).
  destruct (ekind (E w x)); try apply flat_remove_pg; rewrite flat_del_link;
    destruct (memb _ _); try reflexivity; simpl; apply flat_rdfg.
Qed.

Lemma flat_finish c w1 p e k x :
  In x (flat (finish c w1 p e k)) <-> In x (flat w1) /\ (k = KPG \/ x <> e).
Proof.
  unfold finish. destruct k; simpl; rewrite ?filter_neqb_In, flat_parent_remove_child;
    split; intros H; try tauto; try (destruct H as [H1 [H2|H2]]; [discriminate | tauto]).
Qed.

(* ---------------- a generic invariant rule for the loop over the children ---------------- *)
Lemma children_loop_inv (Inv : st -> Prop) c f w e w1 o1 :
  Inv w -> (forall wi, Inv wi -> shrink w wi) ->
  (forall wi x wi' oi, Inv wi -> In x (ch (E w e)) -> remove_entity c f wi x = (wi', oi) -> Inv wi') ->
  children_loop c f w e = (w1, o1) -> Inv w1.
Proof.
  intros I0 Hsh Hstep Hl. unfold children_loop in Hl. destruct (ekind (E w e)).
  - eapply iter_snapshot_inv with (I := Inv); [|exact I0 | exact Hl]. intros; eapply Hstep; eauto.
  - destruct (snap_ch c).
    + eapply iter_snapshot_inv with (I := Inv); [|exact I0 | exact Hl]. intros; eapply Hstep; eauto.
    + eapply iter_inplace_inv with (I := Inv); [|exact I0 | exact Hl].
      intros wi x wi' oi Hi Hx Hr. eapply Hstep; [exact Hi | | exact Hr].
      eapply sub_In; [apply (es_ch (sh_E (Hsh wi Hi) e)) | exact Hx].
  - inversion Hl; subst. exact I0.
  - inversion Hl; subst. exact I0.
Qed.

(* ---------------- survivors keep their node ---------------- *)
Lemma remove_entity_flat_frame c f : forall w e w' o,
  wfp w -> remove_entity c f w e = (w', o) ->
  forall x, ~ desc w e x -> In x (flat w) -> In x (flat w').
Proof.
  induction f as [|f IH]; intros w e w' o Hwf Hr x Hnd Hx.
  - simpl in Hr. inversion Hr; subst. exact Hx.
  - rewrite remove_entity_unfold in Hr. destruct (negb (adel (E w e))); [inversion Hr; subst; exact Hx|].
    destruct (children_loop c f w e) as [w1 o1] eqn:Hl.
    set (Inv := fun wi => shrink w wi /\ forall y, ~ desc w e y -> In y (flat w) -> In y (flat wi)).
    assert (I1 : Inv w1).
    { eapply (children_loop_inv Inv); [| | |exact Hl].
      - split; [apply shrink_refl | tauto].
      - intros wi [Hs _]. exact Hs.
      - intros wi c0 wi' oi [Hs Hfl] Hc Hrc.
        destruct (remove_entity_fp c f wi c0 wi' oi (wfp_shrink w wi Hs Hwf) Hrc) as [Hs' _].
        split; [eapply shrink_trans; eassumption|].
        intros y Hy Hyf. eapply (IH wi c0 wi' oi (wfp_shrink w wi Hs Hwf) Hrc); [|apply Hfl; assumption].
        intros Hd. apply Hy. apply desc_step with c0; [exact Hc | eapply desc_shrink; eassumption]. }
    destruct I1 as [_ Hfl1]. destruct (is_ok o1); inversion Hr; subst; [|apply Hfl1; assumption].
    apply flat_finish. split; [apply Hfl1; assumption|]. right. intros ->. apply Hnd. constructor.
Qed.

(* ---------------- the subtree structure ---------------- *)
Lemma desc_inv w e x : desc w e x -> x = e \/ exists c0, In c0 (ch (E w e)) /\ desc w c0 x.
Proof. intros [|e0 c0 x0 Hc Hd]; [left; reflexivity | right; exists c0; split; assumption]. Qed.

Lemma desc_ext w w' c0 x : (forall y, desc w c0 y -> E w' y = E w y) -> desc w c0 x -> desc w' c0 x.
Proof.
  intros Heq Hd. induction Hd as [|a b x Hb Hd IH]; [constructor|].
  apply desc_step with b.
  - rewrite (Heq a (desc_refl w a)). exact Hb.
  - apply IH. intros y Hy. apply Heq. apply desc_step with b; assumption.
Qed.

Lemma desc_comparable w a b y : wf w -> desc w a y -> desc w b y -> desc w a b \/ desc w b a.
Proof.
  intros H Ha. revert b. induction Ha as [|a c0 y Hc Hd IH]; intros b Hb; [right; exact Hb|].
  destruct (IH b Hb) as [Hcb|Hbc].
  - left. apply desc_step with c0; assumption.
  - destruct (Nat.eq_dec c0 b) as [->|Hne].
    + left. apply desc_step with b; [exact Hc | constructor].
    + right. pose proof (desc_parent H Hbc Hne) as Hp. rewrite (wf_par H a c0 Hc) in Hp. exact Hp.
Qed.

Lemma siblings_disjoint w e a b y :
  wf w -> In a (ch (E w e)) -> In b (ch (E w e)) -> a <> b -> desc w a y -> desc w b y -> False.
Proof.
  intros H Ha Hb Hab Hda Hdb.
  assert (Hside : forall u v, In u (ch (E w e)) -> In v (ch (E w e)) -> u <> v -> desc w u v -> False).
  { intros u v Hu Hv Huv Hd. assert (Hvu : v <> u) by congruence.
    pose proof (desc_parent H Hd Hvu) as Hp. rewrite (wf_par H e v Hv) in Hp.
    pose proof (desc_ge H Hp). destruct (wf_ord H e u Hu). lia. }
  destruct (desc_comparable w a b y H Hda Hdb) as [Hd|Hd]; [eapply (Hside a b) | eapply (Hside b a)]; eauto.
Qed.

(* ---------------- with the snapshot loop every node of the removed subtree is deleted ---------------- *)
Section Complete.
Variable c : cfg.
Hypothesis Hsnap : snap_ch c = true.

Lemma children_loop_snapshot f w e :
  ekind (E w e) = KGroup \/ ekind (E w e) = KObject ->
  children_loop c f w e = iter_snapshot (remove_entity c f) w (ch (E w e)).
Proof. unfold children_loop. intros [-> | ->]; [reflexivity | rewrite Hsnap; reflexivity]. Qed.

Lemma iter_snapshot_shrink f : forall l w w1 o1,
  wfp w -> iter_snapshot (remove_entity c f) w l = (w1, o1) -> shrink w w1.
Proof.
  intros l w w1 o1 Hwf Hl.
  eapply iter_snapshot_inv with (I := fun wi => shrink w wi); [|apply shrink_refl | exact Hl].
  intros wi x wi' oi Hs _ Hr.
  destruct (remove_entity_fp c f wi x wi' oi (wfp_shrink w wi Hs Hwf) Hr) as [Hs' _].
  eapply shrink_trans; eassumption.
Qed.

Definition complete_at (f : nat) : Prop :=
  forall w e w', wf w -> remove_entity c f w e = (w', Ok) ->
  forall x, desc w e x -> ekind (E w x) <> KPG -> ~ In x (flat w').

Lemma iter_snapshot_complete f (w0 : st) (e : nat) :
  complete_at f -> wf w0 ->
  forall l wi w1,
    NoDup l -> (forall a, In a l -> In a (ch (E w0 e))) ->
    shrink w0 wi ->
    (forall a y, In a l -> desc w0 a y -> E wi y = E w0 y) ->
    iter_snapshot (remove_entity c f) wi l = (w1, Ok) ->
    forall a x, In a l -> desc w0 a x -> ekind (E w0 x) <> KPG -> ~ In x (flat w1).
Proof.
  intros IHf H0. induction l as [|b r IHl]; intros wi w1 ND Hsub Hs Hun Hl a x Ha Hd Hk; [destruct Ha|].
  simpl in Hl. destruct (remove_entity c f wi b) as [wi' ob] eqn:Hr.
  assert (Hwi : wf wi) by (eapply wf_shrink; eassumption).
  destruct (is_ok ob) eqn:Eo; [|inversion Hl; subst; discriminate].
  destruct ob; try discriminate. clear Eo.
  destruct (remove_entity_fp c f wi b wi' Ok (wf_par Hwi) Hr) as [Hs' Hf'].
  assert (Hsw : shrink w0 wi') by (eapply shrink_trans; eassumption).
  inversion ND as [|? ? Hbr NDr]; subst.
  assert (Hbe : In b (ch (E w0 e))) by (apply Hsub; left; reflexivity).
  destruct Ha as [<-|Ha].
  - (* x is below the child removed now *)
    assert (Hdi : desc wi b x).
    { eapply desc_ext; [|exact Hd]. intros y Hy. apply (Hun b y (or_introl eq_refl) Hy). }
    assert (Hki : ekind (E wi x) <> KPG) by (rewrite (es_kind (sh_E Hs x)); exact Hk).
    pose proof (IHf wi b wi' Hwi Hr x Hdi Hki) as Hnot.
    intros Hin. apply Hnot.
    pose proof (iter_snapshot_shrink f r wi' w1 Ok (wfp_shrink w0 wi' Hsw (wf_par H0)) Hl) as Hs1.
    eapply sub_In; [apply (sh_flat Hs1) | exact Hin].
  - (* x is below a later child: its subtree is untouched by the removal of b *)
    eapply (IHl wi' w1 NDr); try eassumption.
    + intros a' Ha'. apply Hsub. right. exact Ha'.
    + intros a' y Ha' Hy. rewrite <- (Hun a' y (or_intror Ha') Hy). apply Hf'.
      intros [Hdb|Hpb].
      * assert (Hab : b <> a') by (intros ->; exact (Hbr Ha')).
        apply (siblings_disjoint w0 e b a' y H0 Hbe (Hsub a' (or_intror Ha')) Hab); [|exact Hy].
        apply (desc_shrink w0 wi b y Hs Hdb).
      * rewrite (es_par (sh_E Hs b)), (wf_par H0 e b Hbe) in Hpb. subst y.
        pose proof (desc_ge H0 Hy). destruct (wf_ord H0 e a' (Hsub a' (or_intror Ha'))). lia.
Qed.

Lemma remove_entity_flat_complete f : complete_at f.
Proof.
  induction f as [|f IH]; intros w e w' H Hr x Hd Hk; [simpl in Hr; discriminate|].
  rewrite remove_entity_unfold in Hr. destruct (negb (adel (E w e))); [discriminate|].
  destruct (children_loop c f w e) as [w1 o1] eqn:Hl.
  destruct (is_ok o1) eqn:Eo; [|inversion Hr; subst; discriminate].
  destruct o1; try discriminate. inversion Hr as [Hw']. clear Hr Eo.
  rewrite flat_finish. intros [Hin Hor].
  destruct (desc_inv w e x Hd) as [->|[c0 [Hc0 Hd0]]].
  - destruct Hor as [Hor|Hor]; [exact (Hk Hor) | exact (Hor eq_refl)].
  - assert (Hke : ekind (E w e) = KGroup \/ ekind (E w e) = KObject).
    { destruct (ekind (E w e)) eqn:Ek; [left; reflexivity | right; reflexivity | |].
      - rewrite (wf_dleaf H e Ek) in Hc0. destruct Hc0.
      - rewrite (wf_leaf H e Ek) in Hc0. destruct Hc0. }
    rewrite (children_loop_snapshot f w e Hke) in Hl.
    apply (iter_snapshot_complete f w e IH H (ch (E w e)) w w1 (wf_nodup H (e)) (fun a Ha => Ha) (shrink_refl w)
             (fun a y _ _ => eq_refl) Hl c0 x Hc0 Hd0 Hk Hin).
Qed.
End Complete.

Theorem remove_ws_file_exact c f w e w' :
  snap_ch c = true -> wf w -> remove_entity c f w e = (w', Ok) -> ekind (E w e) <> KPG ->
  (forall x, ekind (E w x) <> KPG -> (In x (flat w') <-> In x (flat w) /\ ~ desc w e x))
  /\ sub (flat w') (flat w).
Proof.
  intros Hs H Hr Hke.
  destruct (remove_entity_fp c f w e w' Ok (wf_par H) Hr) as [Hsh _].
  split; [|apply (sh_flat Hsh)].
  intros x Hk. split.
  - intros Hin. split; [eapply sub_In; [apply (sh_flat Hsh) | exact Hin]|].
    intros Hd. exact (remove_entity_flat_complete c Hs f w e w' H Hr x Hd Hk Hin).
  - intros [Hin Hnd]. eapply remove_entity_flat_frame; [apply (wf_par H) | exact Hr | exact Hnd | exact Hin].
Qed.
