(* Proofs about Model/Removal.v, part 3 (property C05): the recursion/iteration bounds are never exhausted, and
   a removal through the workspace is refused only because of a protected entity. *)
From GV Require Import Prelude.Base Model.PGroups Model.Removal Proofs.PGroupsProofs Proofs.RemovalProofs.

Definition good (o : outcome) : Prop := o = Ok \/ o = Refused.

Lemma iter_snapshot_good (I : st -> Prop) rec l :
  (forall w x, I w -> In x l -> good (snd (rec w x)) /\ I (fst (rec w x))) ->
  forall w, I w -> good (snd (iter_snapshot rec w l)) /\ I (fst (iter_snapshot rec w l)).
Proof.
  induction l as [|a l IH]; simpl; intros Hstep w Hi.
  - split; [left; reflexivity | exact Hi].
  - destruct (Hstep w a Hi (or_introl eq_refl)) as [Hg Hi1]. destruct (rec w a) as [w1 o1]. simpl in Hg, Hi1.
    destruct (is_ok o1); [apply IH; [intros; apply Hstep; [assumption | right; assumption] | exact Hi1]|].
    split; assumption.
Qed.

Lemma iter_inplace_good (I : st -> Prop) rec e :
  (forall w x, I w -> In x (ch (E w e)) ->
     good (snd (rec w x)) /\ I (fst (rec w x)) /\ length (ch (E (fst (rec w x)) e)) <= length (ch (E w e))) ->
  forall k w i, I w -> length (ch (E w e)) <= i + k ->
  good (snd (iter_inplace rec (S k) w e i)) /\ I (fst (iter_inplace rec (S k) w e i)).
Proof.
  intros Hstep. induction k as [|k IH]; intros w i Hi Hlen.
  - cbn [iter_inplace]. destruct (nth_error (ch (E w e)) i) as [x|] eqn:En; [|split; [left; reflexivity | exact Hi]].
    assert (i < length (ch (E w e))) by (apply nth_error_Some; congruence). lia.
  - cbn [iter_inplace]. destruct (nth_error (ch (E w e)) i) as [x|] eqn:En; [|split; [left; reflexivity | exact Hi]].
    assert (Hx : In x (ch (E w e))) by (eapply nth_error_In; exact En).
    destruct (Hstep w x Hi Hx) as [Hg [Hi1 Hl1]]. destruct (rec w x) as [w1 o1]. simpl in Hg, Hi1, Hl1.
    destruct (is_ok o1); [|split; assumption].
    apply IH; [exact Hi1 | lia].
Qed.

(* enough recursion fuel: one unit per level of the tree below e *)
Lemma remove_entity_good c f : forall w e,
  wf w -> e < n w -> n w - e < f ->
  good (snd (remove_entity c f w e)).
Proof.
  induction f as [|f IH]; intros w e H He Hf; [lia|].
  rewrite remove_entity_unfold. destruct (negb (adel (E w e))); [right; reflexivity|].
  set (Inv := fun wi => shrink w wi).
  assert (Hstep : forall wi x, Inv wi -> In x (ch (E w e)) ->
            good (snd (remove_entity c f wi x)) /\ Inv (fst (remove_entity c f wi x))
            /\ length (ch (E (fst (remove_entity c f wi x)) e)) <= length (ch (E wi e))).
  { intros wi x Hs Hx. destruct (wf_ord H e x Hx) as [Hex Hxn].
    assert (Hwi : wf wi) by (eapply wf_shrink; eassumption).
    destruct (remove_entity c f wi x) as [wi' oi] eqn:Hr.
    destruct (remove_entity_fp c f wi x wi' oi (wf_par Hwi) Hr) as [Hs' _].
    split; [|split].
    - replace oi with (snd (remove_entity c f wi x)) by (rewrite Hr; reflexivity).
      apply IH; [exact Hwi | rewrite (sh_n Hs); exact Hxn | rewrite (sh_n Hs); lia].
    - simpl. eapply shrink_trans; eassumption.
    - simpl. apply sub_length. apply (es_ch (sh_E Hs' e)). }
  assert (Hloop : good (snd (children_loop c f w e))).
  { unfold children_loop. destruct (ekind (E w e)); try (left; reflexivity).
    - apply (iter_snapshot_good Inv (remove_entity c f) (ch (E w e))); [|apply shrink_refl].
      intros wi x Hi Hx. destruct (Hstep wi x Hi Hx) as [A [B _]]. split; assumption.
    - destruct (snap_ch c).
      + apply (iter_snapshot_good Inv (remove_entity c f) (ch (E w e))); [|apply shrink_refl].
        intros wi x Hi Hx. destruct (Hstep wi x Hi Hx) as [A [B _]]. split; assumption.
      + apply (iter_inplace_good Inv (remove_entity c f) e); [|apply shrink_refl | simpl; lia].
        intros wi x Hi Hx. apply Hstep; [exact Hi|].
        eapply sub_In; [apply (es_ch (sh_E Hi e)) | exact Hx]. }
  destruct (children_loop c f w e) as [w1 o1]. simpl in Hloop.
  destruct (is_ok o1); [left; reflexivity | exact Hloop].
Qed.

Lemma iter_snapshot_ok (I : st -> Prop) rec l :
  (forall w x, I w -> In x l -> snd (rec w x) = Ok /\ I (fst (rec w x))) ->
  forall w, I w -> snd (iter_snapshot rec w l) = Ok /\ I (fst (iter_snapshot rec w l)).
Proof.
  induction l as [|a l IH]; simpl; intros Hstep w Hi.
  - split; [reflexivity | exact Hi].
  - destruct (Hstep w a Hi (or_introl eq_refl)) as [Hg Hi1]. destruct (rec w a) as [w1 o1]. simpl in Hg, Hi1.
    subst o1. cbn [is_ok]. apply IH; [intros; apply Hstep; [assumption | right; assumption] | exact Hi1].
Qed.

Lemma iter_inplace_ok (I : st -> Prop) rec e :
  (forall w x, I w -> In x (ch (E w e)) ->
     snd (rec w x) = Ok /\ I (fst (rec w x)) /\ length (ch (E (fst (rec w x)) e)) <= length (ch (E w e))) ->
  forall k w i, I w -> length (ch (E w e)) <= i + k ->
  snd (iter_inplace rec (S k) w e i) = Ok /\ I (fst (iter_inplace rec (S k) w e i)).
Proof.
  intros Hstep. induction k as [|k IH]; intros w i Hi Hlen.
  - cbn [iter_inplace]. destruct (nth_error (ch (E w e)) i) as [x|] eqn:En; [|split; [reflexivity | exact Hi]].
    assert (i < length (ch (E w e))) by (apply nth_error_Some; congruence). lia.
  - cbn [iter_inplace]. destruct (nth_error (ch (E w e)) i) as [x|] eqn:En; [|split; [reflexivity | exact Hi]].
    assert (Hx : In x (ch (E w e))) by (eapply nth_error_In; exact En).
    destruct (Hstep w x Hi Hx) as [Hg [Hi1 Hl1]]. destruct (rec w x) as [w1 o1]. simpl in Hg, Hi1, Hl1.
    subst o1. cbn [is_ok]. apply IH; [exact Hi1 | lia].
Qed.

(* ... and it succeeds when nothing below e is protected *)
Lemma remove_entity_ok c f : forall w e,
  wf w -> e < n w -> n w - e < f -> (forall x, desc w e x -> adel (E w x) = true) ->
  snd (remove_entity c f w e) = Ok.
Proof.
  induction f as [|f IH]; intros w e H He Hf Had; [lia|].
  rewrite remove_entity_unfold. rewrite (Had e (desc_refl w e)). cbn [negb].
  set (Inv := fun wi => shrink w wi).
  assert (Hstep : forall wi x, Inv wi -> In x (ch (E w e)) ->
            snd (remove_entity c f wi x) = Ok /\ Inv (fst (remove_entity c f wi x))
            /\ length (ch (E (fst (remove_entity c f wi x)) e)) <= length (ch (E wi e))).
  { intros wi x Hs Hx. destruct (wf_ord H e x Hx) as [Hex Hxn].
    assert (Hwi : wf wi) by (eapply wf_shrink; eassumption).
    destruct (remove_entity c f wi x) as [wi' oi] eqn:Hr.
    destruct (remove_entity_fp c f wi x wi' oi (wf_par Hwi) Hr) as [Hs' _].
    split; [|split].
    - replace oi with (snd (remove_entity c f wi x)) by (rewrite Hr; reflexivity).
      apply IH; [exact Hwi | rewrite (sh_n Hs); exact Hxn | rewrite (sh_n Hs); lia |].
      intros y Hy. rewrite (es_adel (sh_E Hs y)). apply Had.
      apply desc_step with x; [exact Hx | eapply desc_shrink; eassumption].
    - simpl. eapply shrink_trans; eassumption.
    - simpl. apply sub_length. apply (es_ch (sh_E Hs' e)). }
  assert (Hloop : snd (children_loop c f w e) = Ok).
  { unfold children_loop. destruct (ekind (E w e)); try reflexivity.
    - apply (iter_snapshot_ok Inv (remove_entity c f) (ch (E w e))); [|apply shrink_refl].
      intros wi x Hi Hx. destruct (Hstep wi x Hi Hx) as [A [B _]]. split; assumption.
    - destruct (snap_ch c).
      + apply (iter_snapshot_ok Inv (remove_entity c f) (ch (E w e))); [|apply shrink_refl].
        intros wi x Hi Hx. destruct (Hstep wi x Hi Hx) as [A [B _]]. split; assumption.
      + apply (iter_inplace_ok Inv (remove_entity c f) e); [|apply shrink_refl | simpl; lia].
        intros wi x Hi Hx. apply Hstep; [exact Hi|].
        eapply sub_In; [apply (es_ch (sh_E Hi e)) | exact Hx]. }
  destruct (children_loop c f w e) as [w1 o1]. simpl in Hloop. subst o1. reflexivity.
Qed.
