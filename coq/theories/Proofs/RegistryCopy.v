(* Proofs about Model/Registry.v, part 5 (property C06): the identifier rule of a copy, end to end (do_copy / OCopy). *)
From GV Require Import Prelude.Base Model.Registry.
From GV Require Import Proofs.RegistryProofs Proofs.RegistryTheorems Proofs.RegistryTypes Proofs.RegistryChildren.

(* what an operation leaves alone: instances below b keep identifier, kind, workspace, registration and (types apart)
   liveness; below b only the records in P may change at all *)
Record stable (b : nat) (P : nat -> Prop) (w w' : st) : Prop := {
  sb_n : n w <= n w';
  sb_fresh : fresh w <= fresh w';
  sb_ids : forall y, y < b -> euid (E w' y) = euid (E w y) /\ ekind (E w' y) = ekind (E w y) /\ ews (E w' y) = ews (E w y) /\ ereg (E w' y) = ereg (E w y);
  sb_alive : forall y, y < b -> ekind (E w y) <> KType -> alive w' y = alive w y;
  sb_E : forall y, y < b -> ~ P y -> E w' y = E w y }.
Arguments sb_n {b P w w'}. Arguments sb_fresh {b P w w'}. Arguments sb_ids {b P w w'}. Arguments sb_alive {b P w w'}. Arguments sb_E {b P w w'}.

Lemma stable_refl b P w : stable b P w w.
Proof. constructor; try lia; intros; try reflexivity. repeat split; reflexivity. Qed.

Lemma stable_trans b P a m z : stable b P a m -> stable b P m z -> stable b P a z.
Proof.
  intros S1 S2. constructor.
  - pose proof (sb_n S1). pose proof (sb_n S2). lia.
  - pose proof (sb_fresh S1). pose proof (sb_fresh S2). lia.
  - intros y Hy. destruct (sb_ids S1 y Hy) as [A [B [C D]]]. destruct (sb_ids S2 y Hy) as [A' [B' [C' D']]]. repeat split; congruence.
  - intros y Hy Hk. rewrite (sb_alive S2 y Hy); [apply (sb_alive S1 y Hy Hk)|]. rewrite (proj1 (proj2 (sb_ids S1 y Hy))). exact Hk.
  - intros y Hy Hp. rewrite (sb_E S2 y Hy Hp). apply (sb_E S1 y Hy Hp).
Qed.

Lemma stable_E b P w w' : n w <= n w' -> fresh w <= fresh w' -> dead w' = dead w -> E w' = E w -> stable b P w w'.
Proof.
  intros Hn Hf Hd HE. constructor; try assumption; intros; rewrite ?HE; try reflexivity; try (repeat split; reflexivity).
  unfold alive. rewrite Hd. reflexivity.
Qed.

Lemma stable_upd_new b P w x f : b <= x -> stable b P w (upd w x f).
Proof.
  intros Hx. constructor; try (simpl; lia); intros y Hy; simpl; assert (Nat.eqb y x = false) by (apply Nat.eqb_neq; lia); rewrite ?H; try reflexivity.
  repeat split; reflexivity.
Qed.

Lemma stable_upd_ch b (P : nat -> Prop) w x f :
  P x -> (forall r, euid (f r) = euid r /\ ekind (f r) = ekind r /\ ews (f r) = ews r /\ ereg (f r) = ereg r) -> stable b P w (upd w x f).
Proof.
  intros Hp Hf. constructor; try (simpl; lia).
  - intros y Hy. simpl. destruct (Nat.eqb y x); [apply Hf | repeat split; reflexivity].
  - intros y Hy Hk. reflexivity.
  - intros y Hy Hnp. simpl. destruct (Nat.eqb y x) eqn:E0; [apply Nat.eqb_eq in E0; subst; contradiction | reflexivity].
Qed.

Lemma stable_alloc b P w r : b <= n w -> stable b P w (fst (alloc w r)).
Proof.
  intros Hb. constructor; try (simpl; lia); intros y Hy; simpl; assert (Nat.eqb y (n w) = false) by (apply Nat.eqb_neq; lia); rewrite ?H; try reflexivity.
  repeat split; reflexivity.
Qed.

Lemma stable_kill b P w es : (forall x, In x es -> b <= x) -> stable b P w (kill w es).
Proof.
  intros Hes. constructor; try (simpl; lia); intros y Hy; try reflexivity; try (repeat split; reflexivity).
  intros Hk. destruct (alive w y) eqn:Ea.
  - apply alive_kill_old; [exact Ea | intros Hin; pose proof (Hes y Hin); lia | exact Hk].
  - apply alive_kill_dead. exact Ea.
Qed.

Lemma stable_add_child b (P : nat -> Prop) w p x : P p -> stable b P w (add_child w p x).
Proof.
  intros Hp. unfold add_child. destruct (ekind (E w p)); try (apply stable_upd_ch; [exact Hp | intros r; apply with_ch_ids]).
  destruct (memb _ _); [apply stable_refl | apply stable_upd_ch; [exact Hp | intros r; apply with_ch_ids]].
Qed.

Lemma stable_find_in b P w ws k u : stable b P w (fst (find_in w ws k u)).
Proof. unfold find_in. destruct (get_clean_ref _ _ _). apply stable_E; simpl; try lia; reflexivity. Qed.

Lemma dead_get_entity w ws u : dead (fst (get_entity w ws u)) = dead w /\ fresh (fst (get_entity w ws u)) = fresh w.
Proof.
  unfold get_entity, find_in.
  destruct (get_clean_ref (alive w) (R w ws KGroup) u) as [d1 [x|]]; [split; reflexivity|].
  destruct (get_clean_ref _ (R (set_R w ws KGroup d1) ws KData) u) as [d2 [x|]]; [split; reflexivity|].
  destruct (get_clean_ref _ (R (set_R (set_R w ws KGroup d1) ws KData d2) ws KObject) u) as [d3 [x|]]; [split; reflexivity|].
  destruct (get_clean_ref _ _ u) as [d4 r]. split; reflexivity.
Qed.

Lemma stable_get_entity b P w ws u : stable b P w (fst (get_entity w ws u)).
Proof.
  destruct (En_get_entity w ws u) as [A B]. destruct (dead_get_entity w ws u) as [D F].
  apply stable_E; [lia | lia | exact D | exact A].
Qed.

Lemma stable_touch b P w ws k u : stable b P w (touch_metadata w ws k u).
Proof. unfold touch_metadata. destruct (kidx_storable k); [apply stable_get_entity | apply stable_refl]. Qed.

Lemma stable_save_node b P w ws par k u : stable b P w (save_node w ws par k u).
Proof. destruct (save_node_facts w ws par k u) as [A [B [C [D _]]]]. apply stable_E; [lia | lia | exact D | exact C]. Qed.

Lemma stable_copy_uid b P w ws u : stable b P w (fst (copy_uid w ws u)).
Proof.
  unfold copy_uid. pose proof (stable_get_entity b P w ws u) as S. destruct (get_entity w ws u) as [w1 [x|]]; simpl in *; [|exact S].
  apply (stable_trans b P w w1); [exact S | apply stable_E; simpl; try lia; reflexivity].
Qed.

(* the constructor: what the new instance looks like, and what it leaves alone *)
Lemma construct_spec c w ws k cls par u ty props (P : nat -> Prop) b :
  b <= n w -> P par ->
  let r := construct c w ws k cls par u ty props in
  stable b P w (fst (fst r)) /\ snd r = n w /\ n (fst (fst r)) = S (n w)
  /\ euid (E (fst (fst r)) (n w)) = u /\ ekind (E (fst (fst r)) (n w)) = k /\ ews (E (fst (fst r)) (n w)) = ws
  /\ (snd (fst r) <> Ok -> ereg (E (fst (fst r)) (n w)) = false \/ par = n w).
Proof.
  intros Hb Hp r. unfold r, construct.
  destruct (alloc_facts w (blank u k ws cls par ty)) as [Hx [Hn [HE _]]].
  pose proof (stable_alloc b P w (blank u k ws cls par ty) Hb) as S1.
  destruct (alloc w (blank u k ws cls par ty)) as [w1 x]. simpl in Hx, Hn, HE, S1. subst x.
  pose proof (stable_add_child b P w1 par (n w) Hp) as S2.
  destruct (add_child_facts w1 par (n w)) as [Hn2 [_ [_ [_ Hs2]]]].
  set (w2 := add_child w1 par (n w)) in *.
  destruct (Hs2 (n w)) as [I1 [I2 [I3 I4]]]. rewrite HE in I1, I2, I3, I4. simpl in I1, I2, I3, I4.
  destruct (insert_once (alive w2) (R w2 ws k) u (n w)) as [d|]; cbn [fst snd].
  - set (w3 := upd (set_R w2 ws k d) (n w) (fun r0 => with_reg r0 props)).
    assert (S3 : stable b P w2 w3).
    { apply (stable_trans b P w2 (set_R w2 ws k d) w3); [apply stable_E; simpl; try lia; reflexivity | apply stable_upd_new; exact Hb]. }
    set (w4 := touch_metadata (save_node w3 ws par k u) ws k u).
    assert (S4 : stable b P w3 w4) by (eapply stable_trans; [apply stable_save_node | apply stable_touch]).
    assert (E4 : E w4 (n w) = with_reg (E w2 (n w)) props).
    { unfold w4. rewrite (proj1 (En_touch _ ws k u)), (proj1 (En_save_node _ ws par k u)). unfold w3. simpl. rewrite Nat.eqb_refl. reflexivity. }
    assert (N4 : n w4 = S (n w)).
    { unfold w4. rewrite (proj2 (En_touch _ ws k u)), (proj2 (En_save_node _ ws par k u)). simpl. congruence. }
    assert (Sall : stable b P w w4) by (eapply stable_trans; [exact S1|]; eapply stable_trans; [exact S2|]; eapply stable_trans; eassumption).
    assert (Fin : forall wf, (wf = w4 \/ wf = kill w4 [n w]) ->
      stable b P w wf /\ n w = n w /\ n wf = S (n w) /\ euid (E wf (n w)) = u /\ ekind (E wf (n w)) = k /\ ews (E wf (n w)) = ws
      /\ (Ok <> Ok -> ereg (E wf (n w)) = false \/ par = n w)).
    { intros wf [-> | ->].
      - split; [exact Sall|]. split; [reflexivity|]. split; [exact N4|]. rewrite E4. simpl. repeat split; try assumption. congruence.
      - split; [eapply stable_trans; [exact Sall | apply stable_kill; intros y [<-|[]]; exact Hb]|].
        split; [reflexivity|]. split; [exact N4|]. change (E (kill w4 [n w])) with (E w4). rewrite E4. simpl. repeat split; try assumption. congruence. }
    destruct (memb (n w) (ech (E w4 par))); apply Fin; [left | right]; reflexivity.
  - set (w2' := if rollback c then upd w2 par (fun r0 => with_ch r0 (remove_one (n w) (ech r0)) (remove_one (n w) (epgs r0))) else w2).
    assert (S2' : stable b P w2 w2') by (unfold w2'; destruct (rollback c); [apply stable_upd_ch; [exact Hp | intros r0; apply with_ch_ids] | apply stable_refl]).
    assert (N2' : n w2' = S (n w)) by (unfold w2'; destruct (rollback c); simpl; congruence).
    assert (I' : euid (E w2' (n w)) = u /\ ekind (E w2' (n w)) = k /\ ews (E w2' (n w)) = ws /\ ereg (E w2' (n w)) = false).
    { unfold w2'. destruct (rollback c); [|repeat split; assumption].
      simpl. destruct (Nat.eqb (n w) par); simpl; repeat split; assumption. }
    destruct I' as [J1 [J2 [J3 J4]]].
    assert (Sall : stable b P w w2') by (eapply stable_trans; [exact S1|]; eapply stable_trans; eassumption).
    destruct (memb (n w) (ech (E w2' par))).
    + split; [exact Sall|]. split; [reflexivity|]. split; [exact N2'|]. repeat split; try assumption. intros _. left. exact J4.
    + split; [eapply stable_trans; [exact Sall | apply stable_kill; intros y [<-|[]]; exact Hb]|].
      split; [reflexivity|]. split; [exact N2'|]. change (E (kill w2' [n w])) with (E w2'). repeat split; try assumption. intros _. left. exact J4.
Qed.

Lemma stable_type b P w ws cls : b <= n w -> stable b P w (fst (find_or_create_type w ws cls))
  /\ (forall x, n w <= x < n (fst (find_or_create_type w ws cls)) -> ekind (E (fst (find_or_create_type w ws cls)) x) = KType).
Proof.
  intros Hb. unfold find_or_create_type. destruct (get_clean_ref (alive w) (R w ws KType) (tuid cls)) as [d [t|]]; cbn [fst snd].
  - split; [apply stable_E; simpl; try lia; reflexivity | simpl; intros x Hx; lia].
  - set (w1 := set_R w ws KType d).
    assert (S1 : stable b P w w1) by (apply stable_E; simpl; try lia; reflexivity).
    destruct (alloc_facts w1 (blank (tuid cls) KType ws cls 0 0)) as [Hx [Hn [HE _]]].
    pose proof (stable_alloc b P w1 (blank (tuid cls) KType ws cls 0 0) Hb) as S2.
    destruct (alloc w1 (blank (tuid cls) KType ws cls 0 0)) as [w2 t]. cbn [fst snd] in *. subst t. change (n w1) with (n w) in *.
    destruct (insert_once (alive w2) (R w2 ws KType) (tuid cls) (n w)) as [d'|]; cbn [fst snd].
    + split.
      * eapply stable_trans; [exact S1|]. eapply stable_trans; [exact S2|].
        apply (stable_trans b P w2 (set_R w2 ws KType d')); [apply stable_E; simpl; try lia; reflexivity | apply stable_upd_new; exact Hb].
      * simpl. intros x Hx. assert (x = n w) by lia. subst x. rewrite Nat.eqb_refl. simpl.
        rewrite HE. reflexivity.
    + split; [eapply stable_trans; eassumption|]. intros x Hx. assert (x = n w) by lia. subst x. rewrite HE. reflexivity.
Qed.

(* ================= the identifiers a copy hands out ================= *)
(* nobody in workspace ws holds u (for a property group: no property group holds it -- its registry is the only one asked) *)
Definition nohold (w : st) (ws u : nat) (k : kind) : Prop :=
  forall y, holds w ws u y -> (k = KPG -> ekind (E w y) = KPG) -> False.

(* every registered new instance carries a brand-new identifier or the identifier of one of the source pieces L that was
   free in the target workspace *)
Definition newok (w0 : st) (ws : nat) (L : kind -> list nat) (w' : st) : Prop :=
  forall x, n w0 <= x < n w' -> ekind (E w' x) <> KType -> ereg (E w' x) = true ->
    ews (E w' x) = ws /\
    (fresh w0 <= euid (E w' x)
     \/ exists s, In s (L (ekind (E w' x))) /\ euid (E w' x) = euid (E w0 s) /\ nohold w0 ws (euid (E w0 s)) (ekind (E w' x))).

Lemma holds_transfer b P w0 w ws u y : stable b P w0 w -> b = n w0 -> holds w0 ws u y -> holds w ws u y.
Proof.
  intros S -> [[Hy [Ha Hr]] [Hw [Hu Hk]]]. destruct (sb_ids S y Hy) as [A [B [C D]]].
  split; [split; [pose proof (sb_n S); lia | split; [rewrite (sb_alive S y Hy Hk); exact Ha | congruence]]|].
  split; [congruence | split; congruence].
Qed.

Lemma newok_stable w0 ws L w w' P : newok w0 ws L w -> stable (n w) P w w' -> n w' = n w -> newok w0 ws L w'.
Proof.
  intros N S Hn x Hx Hk Hr. rewrite Hn in Hx. destruct (sb_ids S x (proj2 Hx)) as [A [B [C D]]].
  rewrite A, B, C in *. rewrite D in Hr. apply N; assumption.
Qed.

Lemma newok_construct c w0 ws L w k cls par u ty props :
  n w0 <= n w -> newok w0 ws L w -> k <> KType ->
  (fresh w0 <= u \/ exists s, In s (L k) /\ u = euid (E w0 s) /\ nohold w0 ws u k) ->
  newok w0 ws L (fst (fst (construct c w ws k cls par u ty props))).
Proof.
  intros Hn0 N Hk Hu.
  destruct (construct_spec c w ws k cls par u ty props (fun y => y = par) (n w) (le_n _) eq_refl) as [S [_ [Hn [I1 [I2 [I3 _]]]]]].
  intros x Hx Hkx Hrx. rewrite Hn in Hx.
  destruct (Nat.eq_dec x (n w)) as [->|Hne].
  - rewrite I1, I2, I3. split; [reflexivity|]. destruct Hu as [Hu|[s [Hs [-> Hno]]]]; [left; exact Hu | right; exists s; repeat split; assumption].
  - assert (Hxl : x < n w) by lia. destruct (sb_ids S x Hxl) as [A [B [C D]]]. rewrite A, B, C in *. rewrite D in Hrx.
    apply N; [lia | assumption | assumption].
Qed.

Lemma copy_uid_choice w0 P w ws u :
  good w -> stable (n w0) P w0 w ->
  fresh w0 <= snd (copy_uid w ws u) \/ (snd (copy_uid w ws u) = u /\ forall k, nohold w0 ws u k).
Proof.
  intros G S. destruct (copy_uid_spec w ws u G) as [Hsome Hnone].
  destruct (get_entity_spec w ws u G) as [HS HN].
  unfold copy_uid in *. destruct (get_entity_fresh w ws u) as [Hf _].
  destruct (get_entity w ws u) as [w1 [x|]]; simpl in *.
  - left. pose proof (sb_fresh S). lia.
  - right. split; [reflexivity|]. intros k y Hy _. apply (HN eq_refl y). eapply holds_transfer; [exact S | reflexivity | exact Hy].
Qed.

Lemma pg_uid_choice w0 P w ws u :
  good w -> stable (n w0) P w0 w ->
  let r := find_in w ws KPG u in
  let r2 := match snd r with None => (fst r, u) | Some _ => take_fresh (fst r) end in
  fresh w0 <= snd r2 \/ (snd r2 = u /\ nohold w0 ws u KPG).
Proof.
  intros G S r r2. unfold r2, r. destruct (find_in_spec w ws KPG u G) as [_ [_ [_ [Hsp _]]]].
  assert (Hf : fresh (fst (find_in w ws KPG u)) = fresh w) by (unfold find_in; destruct (get_clean_ref _ _ _); reflexivity).
  destruct (find_in w ws KPG u) as [w1 [x|]] eqn:Ef; simpl in *.
  - left. pose proof (sb_fresh S). lia.
  - right. split; [reflexivity|]. intros y Hy Hk. pose proof (Hk eq_refl) as Hky.
    assert (Hy' : holds w ws u y) by (eapply holds_transfer; [exact S | reflexivity | exact Hy]).
    pose proof (holds_entry w ws u y G Hy') as Hin.
    assert (Hkw : ekind (E w y) = KPG).
    { destruct Hy as [[Hyn _] _]. rewrite (proj1 (proj2 (sb_ids S y Hyn))). exact Hky. }
    rewrite Hkw in Hin. destruct Hy' as [[_ [Hal _]] _].
    assert (@None nat = Some y) by (apply Hsp; split; assumption). discriminate.
Qed.

Definition only_par (p : nat) : nat -> Prop := fun y => y = p.

Lemma copy_children_newok c w0 ws L x' (P : nat -> Prop) : P x' -> forall cs w cmap,
  good w -> stable (n w0) P w0 w -> n w0 <= x' -> newok w0 ws L w ->
  (forall a, In a cs -> a < n w0 /\ In a (L KData)) ->
  let r := copy_children c w ws x' cs cmap in
  good (fst (fst r)) /\ stable (n w0) P w0 (fst (fst r)) /\ newok w0 ws L (fst (fst r)).
Proof.
  intros HP. induction cs as [|a r IH]; intros w cmap G S Hx' N Hcs; simpl; [split; [exact G | split; assumption]|].
  destruct (kind_eqb (ekind (E w a)) KPG); [apply IH; try assumption; intros a' Ha'; apply Hcs; right; exact Ha'|].
  destruct (Hcs a (or_introl eq_refl)) as [Hal HaL].
  pose proof (good_touch w (ews (E w a)) KData (euid (E w a)) G) as G0.
  pose proof (stable_touch (n w0) P w (ews (E w a)) KData (euid (E w a))) as S0'.
  pose proof (stable_touch (n w) P w (ews (E w a)) KData (euid (E w a))) as S0n.
  set (w1 := touch_metadata w (ews (E w a)) KData (euid (E w a))) in *.
  assert (S0 : stable (n w0) P w0 w1) by (eapply stable_trans; eassumption).
  assert (N0 : newok w0 ws L w1) by (eapply newok_stable; [exact N | exact S0n | apply (proj2 (En_touch _ _ _ _))]).
  assert (Hu : euid (E w a) < fresh w1).
  { unfold w1, touch_metadata. simpl. rewrite (proj1 (get_entity_fresh w (ews (E w a)) (euid (E w a)))). apply (g_fresh G). }
  destruct (good_copy_uid w1 ws (euid (E w a)) G0 Hu) as [G1 Hu1].
  pose proof (copy_uid_choice w0 P w1 ws (euid (E w a)) G0 S0) as Hch.
  pose proof (stable_copy_uid (n w0) P w1 ws (euid (E w a))) as S1'.
  pose proof (stable_copy_uid (n w1) P w1 ws (euid (E w a))) as S1n.
  pose proof (proj2 (En_copy_uid w1 ws (euid (E w a)))) as Hn1.
  destruct (copy_uid w1 ws (euid (E w a))) as [w2 u']. simpl in G1, Hu1, Hch, S1', S1n, Hn1.
  assert (S1 : stable (n w0) P w0 w2) by (eapply stable_trans; eassumption).
  assert (N1 : newok w0 ws L w2) by (eapply newok_stable; [exact N0 | exact S1n | exact Hn1]).
  assert (Hua : euid (E w a) = euid (E w0 a)) by (apply (sb_ids S a Hal)).
  assert (Hn02 : n w0 <= n w2) by (apply (sb_n S1)).
  pose proof (good_construct c w2 ws KData 3 x' u' 0 [] G1 Hu1) as G2.
  pose proof (newok_construct c w0 ws L w2 KData 3 x' u' 0 [] Hn02 N1 ltac:(discriminate)) as N2.
  destruct (construct_spec c w2 ws KData 3 x' u' 0 [] P (n w0) Hn02 HP) as [S2 _].
  assert (N2' : newok w0 ws L (fst (fst (construct c w2 ws KData 3 x' u' 0 [])))).
  { apply N2. destruct Hch as [Hch|[-> Hno]]; [left; exact Hch|]. right. exists a. rewrite <- Hua. repeat split; [exact HaL | apply Hno]. }
  destruct (construct c w2 ws KData 3 x' u' 0 []) as [[w3 o] y]. simpl in G2, S2, N2'.
  assert (S3 : stable (n w0) P w0 w3) by (eapply stable_trans; eassumption).
  destruct o; try (split; [exact G2 | split; assumption]).
  apply IH; try assumption. intros a' Ha'. apply Hcs. right. exact Ha'.
Qed.

Lemma copy_pgs_newok c w0 ws L x' (P : nat -> Prop) : P x' -> forall gs w cmap,
  good w -> stable (n w0) P w0 w -> n w0 <= x' -> newok w0 ws L w ->
  (forall g, In g gs -> g < n w0 /\ In g (L KPG)) ->
  newok w0 ws L (fst (copy_pgs c w ws x' gs cmap)).
Proof.
  intros HP. induction gs as [|g r IH]; intros w cmap G S Hx' N Hgs; simpl; [exact N|].
  destruct (map_props cmap (eprops (E w g))) as [ps|]; [|exact N].
  destruct (Hgs g (or_introl eq_refl)) as [Hgl HgL].
  pose proof (good_find_in w ws KPG (euid (E w g)) G) as G1.
  pose proof (pg_uid_choice w0 P w ws (euid (E w g)) G S) as Hch. cbv zeta in Hch.
  pose proof (stable_find_in (n w0) P w ws KPG (euid (E w g))) as S1'.
  pose proof (stable_find_in (n w) P w ws KPG (euid (E w g))) as S1n.
  pose proof (proj2 (En_find_in w ws KPG (euid (E w g)))) as Hn1.
  assert (Hf1 : fresh (fst (find_in w ws KPG (euid (E w g)))) = fresh w) by (unfold find_in; destruct (get_clean_ref _ _ _); reflexivity).
  destruct (find_in w ws KPG (euid (E w g))) as [w1 f]. simpl in G1, Hch, S1', S1n, Hn1, Hf1.
  assert (S1 : stable (n w0) P w0 w1) by (eapply stable_trans; eassumption).
  assert (N1 : newok w0 ws L w1) by (eapply newok_stable; [exact N | exact S1n | exact Hn1]).
  assert (H2 : good (fst (match f with None => (w1, euid (E w g)) | Some _ => take_fresh w1 end))
               /\ stable (n w0) P w0 (fst (match f with None => (w1, euid (E w g)) | Some _ => take_fresh w1 end))
               /\ newok w0 ws L (fst (match f with None => (w1, euid (E w g)) | Some _ => take_fresh w1 end))
               /\ snd (match f with None => (w1, euid (E w g)) | Some _ => take_fresh w1 end)
                  < fresh (fst (match f with None => (w1, euid (E w g)) | Some _ => take_fresh w1 end))).
  { destruct f.
    - destruct (good_take_fresh w1 G1) as [A B]. split; [exact A|]. split; [|split; [|exact B]].
      + apply (stable_trans _ _ w0 w1); [exact S1 | apply stable_E; simpl; try lia; reflexivity].
      + apply (newok_stable w0 ws L w1 (fst (take_fresh w1)) P); [exact N1 | apply stable_E; simpl; try lia; reflexivity | reflexivity].
    - simpl. split; [exact G1|]. split; [exact S1|]. split; [exact N1|]. rewrite Hf1. apply (g_fresh G). }
  destruct (match f with None => (w1, euid (E w g)) | Some _ => take_fresh w1 end) as [w2 u']. simpl in H2, Hch. destruct H2 as [G2 [S2 [N2 Hu2]]].
  assert (Hug : euid (E w g) = euid (E w0 g)) by (apply (sb_ids S g Hgl)).
  assert (Hn02 : n w0 <= n w2) by (apply (sb_n S2)).
  pose proof (good_construct c w2 ws KPG 4 x' u' 0 ps G2 Hu2) as G3.
  destruct (construct_spec c w2 ws KPG 4 x' u' 0 ps P (n w0) Hn02 HP) as [S3' _].
  assert (N3 : newok w0 ws L (fst (fst (construct c w2 ws KPG 4 x' u' 0 ps)))).
  { apply newok_construct; [exact Hn02 | exact N2 | discriminate|].
    destruct Hch as [Hch|[-> Hno]]; [left; exact Hch|]. right. exists g. rewrite <- Hug. repeat split; assumption. }
  destruct (construct c w2 ws KPG 4 x' u' 0 ps) as [[w3 o] y]. simpl in G3, S3', N3.
  assert (S3 : stable (n w0) P w0 w3) by (eapply stable_trans; eassumption).
  destruct o; try exact N3.
  apply IH; try assumption. intros g' Hg'. apply Hgs. right. exact Hg'.
Qed.

(* the source pieces a copy of kind k can take its identifier from *)
Definition pieces (w : st) (e : nat) (k : kind) : list nat :=
  match k with KPG => epgs (E w e) | _ => e :: ech (E w e) end.

Lemma newok_none w ws L w' : n w' = n w -> newok w ws L w'.
Proof. intros Hn x Hx. lia. Qed.

Lemma newok_types w0 ws L w w' P :
  newok w0 ws L w -> stable (n w) P w w' -> (forall x, n w <= x < n w' -> ekind (E w' x) = KType) -> newok w0 ws L w'.
Proof.
  intros N S Hty x Hx Hk Hr. destruct (Nat.lt_ge_cases x (n w)) as [Hlt|Hge].
  - destruct (sb_ids S x Hlt) as [A [B [C D]]]. rewrite A, B, C in *. rewrite D in Hr. apply N; [lia | assumption | assumption].
  - exfalso. apply Hk. apply Hty. lia.
Qed.

Theorem do_copy_newok c w e target :
  good w -> chb w -> e < n w -> target < n w ->
  newok w (ews (E w target)) (pieces w e) (fst (do_copy c w e target)).
Proof.
  intros G C He Ht. unfold do_copy.
  set (ws := ews (E w target)). set (L := pieces w e).
  pose proof (good_touch w (ews (E w e)) (ekind (E w e)) (euid (E w e)) G) as G0.
  destruct (En_touch w (ews (E w e)) (ekind (E w e)) (euid (E w e))) as [E0 N0].
  set (w0 := touch_metadata w (ews (E w e)) (ekind (E w e)) (euid (E w e))) in *.
  set (P := fun y : nat => y = target \/ n w <= y).
  assert (S0 : stable (n w) P w w0) by apply stable_touch.
  assert (K0 : newok w ws L w0) by (apply newok_none; exact N0).
  assert (Hu : euid (E w0 e) < fresh w0) by apply (g_fresh G0).
  assert (Hue : euid (E w0 e) = euid (E w e)) by (rewrite E0; reflexivity).
  destruct (good_copy_uid w0 ws (euid (E w0 e)) G0 Hu) as [G1 Hu1].
  pose proof (copy_uid_choice w P w0 ws (euid (E w0 e)) G0 S0) as Hch.
  pose proof (stable_copy_uid (n w) P w0 ws (euid (E w0 e))) as S1'.
  destruct (En_copy_uid w0 ws (euid (E w0 e))) as [E1 N1].
  assert (Hchoice : forall k, k <> KPG -> fresh w <= snd (copy_uid w0 ws (euid (E w0 e)))
            \/ exists s, In s (L k) /\ snd (copy_uid w0 ws (euid (E w0 e))) = euid (E w s) /\ nohold w ws (snd (copy_uid w0 ws (euid (E w0 e)))) k).
  { intros k Hk. destruct Hch as [Hch|[Hq Hno]]; [left; exact Hch|]. right. exists e. rewrite Hq, Hue. repeat split.
    - unfold L, pieces. destruct k; try congruence; left; reflexivity.
    - rewrite <- Hue. apply Hno. }
  destruct (ekind (E w0 e)) eqn:Ek; try exact K0.
  - destruct (usable w0 target KGroup); [|exact K0].
    destruct (copy_uid w0 ws (euid (E w0 e))) as [w1 u']. cbn [fst snd] in *.
    assert (S1 : stable (n w) P w w1) by (eapply stable_trans; eassumption).
    assert (K1 : newok w ws L w1) by (apply newok_none; congruence).
    destruct (good_type w1 ws (ecls (E w0 e)) G1) as [G2 Hf2].
    destruct (stable_type (n w1) P w1 ws (ecls (E w0 e)) (le_n _)) as [S2n Hty].
    destruct (find_or_create_type w1 ws (ecls (E w0 e))) as [w2 t]. cbn [fst snd] in *.
    assert (K2 : newok w ws L w2) by (eapply newok_types; eassumption).
    assert (Hn2 : n w <= n w2) by (pose proof (sb_n S2n); pose proof (sb_n S1); lia).
    pose proof (newok_construct c w ws L w2 KGroup (ecls (E w0 e)) target u' t [] Hn2 K2 ltac:(discriminate) (Hchoice KGroup ltac:(discriminate))) as K3.
    destruct (construct c w2 ws KGroup (ecls (E w0 e)) target u' t []) as [[w3 o] y]. exact K3.
  - destruct (usable w0 target KGroup) eqn:Hus; [|exact K0].
    assert (Hkt : ekind (E w target) = KGroup).
    { unfold usable in Hus. apply andb_true_iff in Hus as [_ Hus]. apply kind_eqb_eq in Hus. rewrite E0 in Hus. exact Hus. }
    assert (Het : e <> target) by (intros ->; rewrite E0 in Ek; congruence).
    destruct (copy_uid w0 ws (euid (E w0 e))) as [w1 u']. cbn [fst snd] in *.
    assert (S1 : stable (n w) P w w1) by (eapply stable_trans; eassumption).
    assert (K1 : newok w ws L w1) by (apply newok_none; congruence).
    assert (Hn1 : n w <= n w1) by (pose proof (sb_n S1); lia).
    destruct (good_type w1 ws (ecls (E w0 e)) G1) as [G2 Hf2].
    destruct (stable_type (n w1) P w1 ws (ecls (E w0 e)) (le_n _)) as [S2n Hty].
    destruct (stable_type (n w) P w1 ws (ecls (E w0 e)) Hn1) as [S2' _].
    destruct (find_or_create_type w1 ws (ecls (E w0 e))) as [w2 t]. cbn [fst snd] in *.
    assert (S2 : stable (n w) P w w2) by (eapply stable_trans; eassumption).
    assert (K2 : newok w ws L w2) by (eapply newok_types; eassumption).
    assert (Hn2 : n w <= n w2) by (pose proof (sb_n S2); lia).
    assert (Hu2 : u' < fresh w2) by (rewrite Hf2; exact Hu1).
    pose proof (good_construct c w2 ws KObject (ecls (E w0 e)) target u' t [] G2 Hu2) as G3.
    pose proof (newok_construct c w ws L w2 KObject (ecls (E w0 e)) target u' t [] Hn2 K2 ltac:(discriminate) (Hchoice KObject ltac:(discriminate))) as K3.
    destruct (construct_spec c w2 ws KObject (ecls (E w0 e)) target u' t [] P (n w) Hn2 (or_introl eq_refl)) as [S3' [Hx' _]].
    destruct (construct c w2 ws KObject (ecls (E w0 e)) target u' t []) as [[w3 o] x']. cbn [fst snd] in *.
    destruct o; try exact K3. subst x'.
    assert (S3 : stable (n w) P w w3) by (eapply stable_trans; eassumption).
    assert (HPe : ~ P e) by (unfold P; intros [H|H]; [exact (Het H) | lia]).
    assert (E3 : E w3 e = E w e) by (apply (sb_E S3 e He HPe)).
    assert (HPx : P (n w2)) by (right; exact Hn2).
    assert (Hcs : forall a, In a (ech (E w3 e)) -> a < n w /\ In a (L KData)).
    { intros a Ha. rewrite E3 in Ha. split; [apply (C e a); left; exact Ha | right; exact Ha]. }
    destruct (copy_children_newok c w ws L (n w2) P HPx (ech (E w3 e)) w3 [] G3 S3 Hn2 K3 Hcs) as [G4 [S4 K4]].
    destruct (copy_children c w3 ws (n w2) (ech (E w3 e)) []) as [[w4 o4] cmap]. cbn [fst snd] in *.
    destruct o4; try exact K4.
    assert (E4 : E w4 e = E w e) by (apply (sb_E S4 e He HPe)).
    apply (copy_pgs_newok c w ws L (n w2) P HPx); try assumption.
    intros g Hg. rewrite E4 in Hg. split; [apply (C e g); right; exact Hg | exact Hg].
  - destruct (usable w0 target KObject); [|exact K0].
    destruct (copy_uid w0 ws (euid (E w0 e))) as [w1 u']. cbn [fst snd] in *.
    assert (K1 : newok w ws L w1) by (apply newok_none; congruence).
    assert (Hn1 : n w <= n w1) by lia.
    pose proof (newok_construct c w ws L w1 KData 3 target u' 0 [] Hn1 K1 ltac:(discriminate) (Hchoice KData ltac:(discriminate))) as K3.
    destruct (construct c w1 ws KData 3 target u' 0 []) as [[w3 o] y]. exact K3.
Qed.

(* the statement over all histories, for the operation OCopy: every registered instance the copy creates is in the target
   workspace and carries either a brand-new identifier, or the identifier of a source piece that nobody held there *)
Theorem copy_end_to_end c h e target :
  let w := run c init h in
  let w' := fst (step c w (OCopy e target)) in
  forall x, n w <= x < n w' -> ekind (E w' x) <> KType -> ereg (E w' x) = true ->
    ews (E w' x) = ews (E w target)
    /\ (fresh w <= euid (E w' x)
        \/ exists s, In s (pieces w e (ekind (E w' x))) /\ euid (E w' x) = euid (E w s)
                     /\ nohold w (ews (E w target)) (euid (E w s)) (ekind (E w' x))).
Proof.
  intros w w'. unfold w', step.
  destruct (Nat.ltb e (n w) && alive w e && Nat.ltb target (n w) && alive w target) eqn:Gd; [|cbn [fst]; intros x Hx; lia].
  apply andb_true_iff in Gd as [Gd _]. apply andb_true_iff in Gd as [Gd Ht]. apply andb_true_iff in Gd as [He _].
  apply Nat.ltb_lt in He, Ht.
  apply (do_copy_newok c w e target (reachable_good c h) (reachable_chb c h) He Ht).
Qed.

(* same workspace (or any target where the source identifiers are held): every registered new instance is fresh *)
Corollary copy_all_fresh_when_held c h e target :
  let w := run c init h in
  let w' := fst (step c w (OCopy e target)) in
  (forall k s, In s (pieces w e k) -> exists y, holds w (ews (E w target)) (euid (E w s)) y /\ (k = KPG -> ekind (E w y) = KPG)) ->
  forall x, n w <= x < n w' -> ekind (E w' x) <> KType -> ereg (E w' x) = true ->
    fresh w <= euid (E w' x) /\ forall y, euid (E w y) <> euid (E w' x).
Proof.
  intros w w' Hheld x Hx Hk Hr.
  assert (Hfr : fresh w <= euid (E w' x)).
  { destruct (copy_end_to_end c h e target x Hx Hk Hr) as [_ [Hf|[s [Hs [Hq Hno]]]]]; [exact Hf|].
    exfalso. destruct (Hheld _ s Hs) as [y [Hy Hyk]]. exact (Hno y Hy Hyk). }
  split; [exact Hfr|]. intros y Hy. pose proof (g_fresh (reachable_good c h) y) as Hlt. fold w in Hlt. lia.
Qed.

(* kept when free: a registered new instance whose identifier is not new carries a source identifier nobody held *)
Corollary copy_kept_only_when_free c h e target :
  let w := run c init h in
  let w' := fst (step c w (OCopy e target)) in
  forall x, n w <= x < n w' -> ekind (E w' x) <> KType -> ereg (E w' x) = true -> euid (E w' x) < fresh w ->
    exists s, In s (pieces w e (ekind (E w' x))) /\ euid (E w' x) = euid (E w s)
              /\ nohold w (ews (E w target)) (euid (E w s)) (ekind (E w' x)).
Proof.
  intros w w' x Hx Hk Hr Hlt. destruct (copy_end_to_end c h e target x Hx Hk Hr) as [_ [Hf|H]]; [|exact H].
  exfalso. apply (Nat.lt_irrefl (fresh w)). eapply Nat.le_lt_trans; [exact Hf | exact Hlt].
Qed.
