(* Proofs about Model/Registry.v (property C06): the registry invariant holds after every history. *)
From GV Require Import Prelude.Base Model.Registry.

(* ================= dictionaries ================= *)
Lemma memb_In x l : memb x l = true <-> In x l.
Proof.
  unfold memb. rewrite existsb_exists. split.
  - intros [y [Hy E]]. apply Nat.eqb_eq in E. subst. exact Hy.
  - intros H. exists x. split; [exact H | apply Nat.eqb_refl].
Qed.

Definition keys (d : dict) : list nat := map fst d.

Lemma in_keys (d : dict) k v : In (k, v) d -> In k (keys d).
Proof. intros H. unfold keys. change k with (fst (k, v)). apply in_map. exact H. Qed.

Lemma dget_In d k v : NoDup (keys d) -> (dget d k = Some v <-> In (k, v) d).
Proof.
  unfold keys. induction d as [|[k' v'] r IH]; simpl; intros ND; [split; [discriminate | tauto]|].
  inversion ND as [|? ? Hk NDr]; subst.
  destruct (Nat.eqb k k') eqn:E.
  - apply Nat.eqb_eq in E. subst k'. split.
    + intros H. inversion H; subst. left. reflexivity.
    + intros [H|H]; [inversion H; reflexivity|]. exfalso. apply Hk. eapply in_keys. exact H.
  - rewrite (IH NDr). split; [intros H; right; exact H|].
    intros [H|H]; [inversion H; subst; rewrite Nat.eqb_refl in E; discriminate | exact H].
Qed.

Lemma dget_None d k : dget d k = None -> ~ In k (keys d).
Proof.
  unfold keys. induction d as [|[k' v'] r IH]; simpl; [tauto|].
  destruct (Nat.eqb k k') eqn:E; [discriminate|]. intros H [H1|H1].
  - subst. rewrite Nat.eqb_refl in E. discriminate.
  - exact (IH H H1).
Qed.

Lemma keys_dset d k v : In k (keys d) -> keys (dset d k v) = keys d.
Proof.
  unfold keys. induction d as [|[k0 v0] r IH]; simpl; [tauto|].
  destruct (Nat.eqb k k0) eqn:E.
  - apply Nat.eqb_eq in E. subst. reflexivity.
  - intros [H|H]; [subst; rewrite Nat.eqb_refl in E; discriminate|]. simpl. f_equal. apply IH. exact H.
Qed.

Lemma keys_dset_new d k v : ~ In k (keys d) -> keys (dset d k v) = keys d ++ [k].
Proof.
  unfold keys. induction d as [|[k0 v0] r IH]; simpl; [reflexivity|].
  destruct (Nat.eqb k k0) eqn:E.
  - apply Nat.eqb_eq in E. subst. tauto.
  - intros H. simpl. f_equal. apply IH. tauto.
Qed.

Lemma NoDup_snoc {A} (l : list A) x : NoDup l -> ~ In x l -> NoDup (l ++ [x]).
Proof.
  induction 1 as [|y r Hy Hr IH]; simpl; intros Hx; [constructor; [tauto | constructor]|].
  constructor.
  - intros Hin. apply in_app_or in Hin as [Hin|[Hin|[]]]; [exact (Hy Hin) | subst; apply Hx; left; reflexivity].
  - apply IH. tauto.
Qed.

Lemma NoDup_dset d k v : NoDup (keys d) -> NoDup (keys (dset d k v)).
Proof.
  intros ND. destruct (in_dec Nat.eq_dec k (keys d)) as [Hin|Hni].
  - rewrite keys_dset by exact Hin. exact ND.
  - rewrite keys_dset_new by exact Hni. apply NoDup_snoc; assumption.
Qed.

Lemma In_dset d k v k' v' :
  NoDup (keys d) -> In (k', v') (dset d k v) -> (k' = k /\ v' = v) \/ (k' <> k /\ In (k', v') d).
Proof.
  unfold keys. induction d as [|[k0 v0] r IH]; simpl; intros ND.
  - intros [H|[]]. inversion H; subst. left. split; reflexivity.
  - inversion ND as [|? ? Hk NDr]; subst. destruct (Nat.eqb k k0) eqn:E.
    + apply Nat.eqb_eq in E. subst k0. intros [H|H].
      * inversion H; subst. left. split; reflexivity.
      * right. split; [|right; exact H]. intros ->. apply Hk. eapply in_keys. exact H.
    + intros [H|H].
      * inversion H; subst. right. split; [|left; reflexivity]. intros ->. rewrite Nat.eqb_refl in E. discriminate.
      * destruct (IH NDr H) as [H1|[H1 H2]]; [left; exact H1 | right; split; [exact H1 | right; exact H2]].
Qed.

Lemma In_dset_same d k v : In (k, v) (dset d k v).
Proof.
  induction d as [|[k0 v0] r IH]; simpl; [left; reflexivity|].
  destruct (Nat.eqb k k0); [left; reflexivity | right; exact IH].
Qed.

Lemma In_dset_other d k v k' v' : k' <> k -> In (k', v') d -> In (k', v') (dset d k v).
Proof.
  intros Hne. induction d as [|[k0 v0] r IH]; simpl; [tauto|].
  destruct (Nat.eqb k k0) eqn:E.
  - apply Nat.eqb_eq in E. subst k0. intros [H|H]; [inversion H; subst; congruence | right; exact H].
  - intros [H|H]; [left; exact H | right; apply IH; exact H].
Qed.

Lemma In_ddel d k p : In p (ddel d k) -> In p d.
Proof.
  induction d as [|[k0 v0] r IH]; simpl; [tauto|].
  destruct (Nat.eqb k k0); [intros H; right; exact H|]. intros [H|H]; [left; exact H | right; apply IH; exact H].
Qed.

Lemma In_ddel_other d k k' v' : k' <> k -> In (k', v') d -> In (k', v') (ddel d k).
Proof.
  intros Hne. induction d as [|[k0 v0] r IH]; simpl; [tauto|].
  destruct (Nat.eqb k k0) eqn:E.
  - apply Nat.eqb_eq in E. subst k0. intros [H|H]; [inversion H; subst; congruence | exact H].
  - intros [H|H]; [left; exact H | right; apply IH; exact H].
Qed.

Lemma NoDup_ddel d k : NoDup (keys d) -> NoDup (keys (ddel d k)).
Proof.
  unfold keys. induction d as [|[k0 v0] r IH]; simpl; intros ND; [constructor|].
  inversion ND as [|? ? Hk NDr]; subst. destruct (Nat.eqb k k0); [exact NDr|].
  simpl. constructor; [|apply IH; exact NDr].
  intros Hin. apply Hk. apply in_map_iff in Hin as [[a b] [Hf Hin]]. simpl in Hf. subst a.
  eapply in_keys. eapply In_ddel. exact Hin.
Qed.

Lemma NoDup_filter_keys (f : nat * nat -> bool) d : NoDup (keys d) -> NoDup (keys (filter f d)).
Proof.
  unfold keys. induction d as [|p r IH]; simpl; intros ND; [constructor|].
  inversion ND as [|? ? Hk NDr]; subst. destruct (f p); [|apply IH; exact NDr].
  simpl. constructor; [|apply IH; exact NDr].
  intros Hin. apply Hk. apply in_map_iff in Hin as [q [Hf Hin]]. apply filter_In in Hin as [Hin _].
  rewrite <- Hf. apply in_map. exact Hin.
Qed.

(* ================= the invariant ================= *)
Record good (w : st) : Prop := {
  g_nodup : forall ws k, NoDup (keys (R w ws k));
  g_entry : forall ws k u e, In (u, e) (R w ws k) ->
              e < n w /\ euid (E w e) = u /\ ekind (E w e) = k /\ ews (E w e) = ws /\ ereg (E w e) = true;
  g_owner : forall e, e < n w -> alive w e = true -> ereg (E w e) = true ->
              In (euid (E w e), e) (R w (ews (E w e)) (ekind (E w e)));
  g_dead : forall e, In e (dead w) -> e < n w;
  g_fresh : forall e, euid (E w e) < fresh w;
  g_f100 : 100 <= fresh w }.

Arguments g_nodup {w}. Arguments g_entry {w}. Arguments g_owner {w}. Arguments g_dead {w}. Arguments g_fresh {w}. Arguments g_f100 {w}.

Definition same_ids (w w' : st) : Prop :=
  forall e, euid (E w' e) = euid (E w e) /\ ekind (E w' e) = ekind (E w e) /\ ews (E w' e) = ews (E w e) /\ ereg (E w' e) = ereg (E w e).

Lemma good_ext w w' :
  n w' = n w -> dead w' = dead w -> R w' = R w -> fresh w <= fresh w' -> same_ids w w' -> good w -> good w'.
Proof.
  intros Hn Hd HR Hf Hs G.
  assert (Ha : forall e, alive w' e = alive w e) by (intros e; unfold alive; rewrite Hd; reflexivity).
  constructor.
  - intros ws k. rewrite HR. apply (g_nodup G).
  - intros ws k u e. rewrite HR, Hn. intros Hin. destruct (g_entry G ws k u e Hin) as [A [B [C [D F]]]].
    destruct (Hs e) as [S1 [S2 [S3 S4]]]. rewrite S1, S2, S3, S4. repeat split; assumption.
  - intros e. rewrite Hn, Ha, HR. destruct (Hs e) as [S1 [S2 [S3 S4]]]. rewrite S1, S2, S3, S4. apply (g_owner G).
  - intros e. rewrite Hd, Hn. apply (g_dead G).
  - intros e. destruct (Hs e) as [S1 _]. rewrite S1. pose proof (g_fresh G e). lia.
  - pose proof (g_f100 G). lia.
Qed.

Lemma same_ids_refl w : same_ids w w.
Proof. intros e. repeat split; reflexivity. Qed.

Lemma same_ids_E w w' : E w' = E w -> same_ids w w'.
Proof. intros H e. rewrite H. repeat split; reflexivity. Qed.

Lemma same_ids_upd_ch w x f :
  (forall r, euid (f r) = euid r /\ ekind (f r) = ekind r /\ ews (f r) = ews r /\ ereg (f r) = ereg r) -> same_ids w (upd w x f).
Proof. intros Hf e. simpl. destruct (Nat.eqb e x); [apply Hf | repeat split; reflexivity]. Qed.

Lemma with_ch_ids r c g : euid (with_ch r c g) = euid r /\ ekind (with_ch r c g) = ekind r /\ ews (with_ch r c g) = ews r /\ ereg (with_ch r c g) = ereg r.
Proof. repeat split; reflexivity. Qed.

Lemma good_upd_ch w x f :
  (forall r, euid (f r) = euid r /\ ekind (f r) = ekind r /\ ews (f r) = ews r /\ ereg (f r) = ereg r) -> good w -> good (upd w x f).
Proof. intros Hf. apply good_ext; try reflexivity; try lia. apply same_ids_upd_ch; exact Hf. Qed.

Lemma good_set_flat w ws l : good w -> good (set_flat w ws l).
Proof. apply good_ext; try reflexivity; try lia. apply same_ids_E. reflexivity. Qed.

Lemma good_take_fresh w : good w -> good (fst (take_fresh w)) /\ snd (take_fresh w) < fresh (fst (take_fresh w)).
Proof. intros G. split; [|simpl; lia]. apply (good_ext w); try reflexivity; try (simpl; lia); [apply same_ids_E; reflexivity | exact G]. Qed.

(* ---------------- allocation ---------------- *)
Lemma good_alloc w r : good w -> euid r < fresh w -> ereg r = false -> good (fst (alloc w r)).
Proof.
  intros G Hu Hr. constructor; simpl.
  - apply (g_nodup G).
  - intros ws k u e Hin. destruct (g_entry G ws k u e Hin) as [A B].
    assert (Nat.eqb e (n w) = false) by (apply Nat.eqb_neq; lia). rewrite H. split; [lia | exact B].
  - intros e He Ha. unfold alive in Ha. simpl in Ha. destruct (Nat.eqb e (n w)) eqn:E.
    + rewrite Hr. discriminate.
    + apply Nat.eqb_neq in E. apply (g_owner G); [lia | exact Ha].
  - intros e He. pose proof (g_dead G e He). lia.
  - intros e. destruct (Nat.eqb e (n w)); [exact Hu | apply (g_fresh G)].
  - apply (g_f100 G).
Qed.

Lemma alloc_facts w r : snd (alloc w r) = n w /\ n (fst (alloc w r)) = S (n w) /\ E (fst (alloc w r)) (n w) = r
  /\ dead (fst (alloc w r)) = dead w /\ R (fst (alloc w r)) = R w /\ fresh (fst (alloc w r)) = fresh w.
Proof. simpl. rewrite Nat.eqb_refl. repeat split; reflexivity. Qed.

(* ---------------- the three registry transformers ---------------- *)
Lemma R_set_R_same w ws k d : R (set_R w ws k d) ws k = d.
Proof. simpl. rewrite Nat.eqb_refl. destruct k; reflexivity. Qed.

Lemma kind_eqb_eq a b : kind_eqb a b = true <-> a = b.
Proof. destruct a, b; simpl; split; intros; congruence. Qed.

Lemma R_set_R_other w ws k d ws' k' : (ws', k') <> (ws, k) -> R (set_R w ws k d) ws' k' = R w ws' k'.
Proof.
  intros H. simpl. destruct (Nat.eqb ws' ws) eqn:E1; [|reflexivity]. destruct (kind_eqb k' k) eqn:E2; [|reflexivity].
  apply Nat.eqb_eq in E1. apply kind_eqb_eq in E2. subst. congruence.
Qed.

Lemma pair_dec (ws ws' : nat) (k k' : kind) : {(ws', k') = (ws, k)} + {(ws', k') <> (ws, k)}.
Proof. decide equality; [decide equality | apply Nat.eq_dec]. Qed.

(* deleting / filtering entries whose referent is dead *)
Lemma good_set_R_sub w ws k d :
  good w -> NoDup (keys d) -> (forall p, In p d -> In p (R w ws k)) ->
  (forall u e, In (u, e) (R w ws k) -> alive w e = true -> In (u, e) d) ->
  good (set_R w ws k d).
Proof.
  intros G ND Hsub Hkeep. constructor.
  - intros ws' k'. destruct (pair_dec ws ws' k k') as [E|E].
    + inversion E; subst. rewrite R_set_R_same. exact ND.
    + rewrite R_set_R_other by exact E. apply (g_nodup G).
  - intros ws' k' u e Hin. destruct (pair_dec ws ws' k k') as [E|E].
    + inversion E; subst. rewrite R_set_R_same in Hin. apply (g_entry G ws k u e). apply Hsub. exact Hin.
    + rewrite R_set_R_other in Hin by exact E. apply (g_entry G ws' k' u e Hin).
  - intros e He Ha Hr. pose proof (g_owner G e He Ha Hr) as Hin. simpl E.
    destruct (pair_dec ws (ews (E w e)) k (ekind (E w e))) as [E0|E0].
    + inversion E0 as [[E1 E2]]. rewrite E1, E2. rewrite R_set_R_same. apply Hkeep; [rewrite <- E1, <- E2; exact Hin | exact Ha].
    + rewrite R_set_R_other by exact E0. exact Hin.
  - apply (g_dead G).
  - apply (g_fresh G).
  - apply (g_f100 G).
Qed.

Lemma good_clean w ws k u : good w -> good (set_R w ws k (fst (get_clean_ref (alive w) (R w ws k) u))).
Proof.
  intros G. unfold get_clean_ref. destruct (dget (R w ws k) u) as [e0|] eqn:Eg.
  - destruct (alive w e0) eqn:Ea; simpl.
    + apply good_set_R_sub; [exact G | apply (g_nodup G) | tauto | tauto].
    + apply good_set_R_sub; [exact G | apply NoDup_ddel, (g_nodup G) | intros p; apply In_ddel |].
      intros u' e Hin Hal. destruct (Nat.eq_dec u' u) as [->|Hne]; [|apply In_ddel_other; assumption].
      apply (dget_In _ _ _ (g_nodup G ws k)) in Hin. rewrite Hin in Eg. inversion Eg; subst. congruence.
  - simpl. apply good_set_R_sub; [exact G | apply (g_nodup G) | tauto | tauto].
Qed.

Lemma good_sweep_R w ws k : good w -> good (set_R w ws k (remove_none_referents (alive w) (R w ws k))).
Proof.
  intros G. apply good_set_R_sub; [exact G | apply NoDup_filter_keys, (g_nodup G) | |].
  - intros p Hp. apply filter_In in Hp. tauto.
  - intros u e Hin Ha. apply filter_In. split; [exact Hin | exact Ha].
Qed.

(* successful insert_once of a fresh, unregistered, live instance *)
Lemma good_insert w ws k u x d props :
  good w -> x < n w -> alive w x = true -> ereg (E w x) = false ->
  euid (E w x) = u -> ekind (E w x) = k -> ews (E w x) = ws ->
  insert_once (alive w) (R w ws k) u x = Some d ->
  good (upd (set_R w ws k d) x (fun r => with_reg r props)).
Proof.
  intros G Hx Hax Hrx Hu Hk Hws Hins.
  assert (Hd : d = dset (R w ws k) u x /\ forall e, In (u, e) (R w ws k) -> alive w e = false).
  { unfold insert_once in Hins. destruct (dget (R w ws k) u) as [e0|] eqn:Eg.
    - destruct (alive w e0) eqn:Ea; [discriminate|]. inversion Hins. split; [reflexivity|].
      intros e Hin. apply (dget_In _ _ _ (g_nodup G ws k)) in Hin. rewrite Hin in Eg. inversion Eg; subst. exact Ea.
    - inversion Hins. split; [reflexivity|]. intros e Hin. exfalso. apply (dget_None _ _ Eg). eapply in_keys. exact Hin. }
  destruct Hd as [-> Hdead].
  assert (Eid : forall e, e <> x -> E (upd (set_R w ws k (dset (R w ws k) u x)) x (fun r => with_reg r props)) e = E w e).
  { intros e He. simpl. apply Nat.eqb_neq in He. rewrite He. reflexivity. }
  assert (Ex : E (upd (set_R w ws k (dset (R w ws k) u x)) x (fun r => with_reg r props)) x = with_reg (E w x) props).
  { simpl. rewrite Nat.eqb_refl. reflexivity. }
  constructor.
  - intros ws' k'. change (R (upd (set_R w ws k (dset (R w ws k) u x)) x (fun r => with_reg r props)) ws' k')
      with (R (set_R w ws k (dset (R w ws k) u x)) ws' k').
    destruct (pair_dec ws ws' k k') as [E0|E0].
    + inversion E0; subst ws' k'. rewrite R_set_R_same. apply NoDup_dset, (g_nodup G).
    + rewrite R_set_R_other by exact E0. apply (g_nodup G).
  - intros ws' k' u' e.
    change (R (upd (set_R w ws k (dset (R w ws k) u x)) x (fun r => with_reg r props)) ws' k')
      with (R (set_R w ws k (dset (R w ws k) u x)) ws' k').
    change (n (upd (set_R w ws k (dset (R w ws k) u x)) x (fun r => with_reg r props))) with (n w).
    intros Hin.
    assert (Hold : In (u', e) (R w ws' k') -> e < n w /\ euid (E (upd (set_R w ws k (dset (R w ws k) u x)) x (fun r => with_reg r props)) e) = u'
              /\ ekind (E (upd (set_R w ws k (dset (R w ws k) u x)) x (fun r => with_reg r props)) e) = k'
              /\ ews (E (upd (set_R w ws k (dset (R w ws k) u x)) x (fun r => with_reg r props)) e) = ws'
              /\ ereg (E (upd (set_R w ws k (dset (R w ws k) u x)) x (fun r => with_reg r props)) e) = true).
    { intros Ho. destruct (g_entry G ws' k' u' e Ho) as [A [B [C [D F]]]].
      destruct (Nat.eq_dec e x) as [->|Hne]; [rewrite Ex; simpl; repeat split; assumption | rewrite (Eid e Hne); repeat split; assumption]. }
    destruct (pair_dec ws ws' k k') as [E0|E0].
    + inversion E0; subst ws' k'. rewrite R_set_R_same in Hin.
      destruct (In_dset _ _ _ _ _ (g_nodup G ws k) Hin) as [[-> ->]|[_ Ho]]; [|apply Hold; exact Ho].
      rewrite Ex. simpl. repeat split; assumption.
    + rewrite R_set_R_other in Hin by exact E0. apply Hold. exact Hin.
  - intros e.
    change (n (upd (set_R w ws k (dset (R w ws k) u x)) x (fun r => with_reg r props))) with (n w).
    change (alive (upd (set_R w ws k (dset (R w ws k) u x)) x (fun r => with_reg r props)) e) with (alive w e).
    change (R (upd (set_R w ws k (dset (R w ws k) u x)) x (fun r => with_reg r props))) with (R (set_R w ws k (dset (R w ws k) u x))).
    intros He Ha Hr. destruct (Nat.eq_dec e x) as [->|Hne].
    + rewrite Ex. unfold with_reg. cbn [euid ekind ews]. rewrite Hu, Hws, Hk, R_set_R_same. apply In_dset_same.
    + rewrite (Eid e Hne) in *. pose proof (g_owner G e He Ha Hr) as Hin.
      destruct (pair_dec ws (ews (E w e)) k (ekind (E w e))) as [E0|E0].
      * inversion E0 as [[E1 E2]]. rewrite E1, E2, R_set_R_same. rewrite E1, E2 in Hin.
        apply In_dset_other; [|exact Hin]. intros Hue. rewrite Hue in Hin. rewrite (Hdead e Hin) in Ha. discriminate.
      * rewrite R_set_R_other by exact E0. exact Hin.
  - apply (g_dead G).
  - intros e. destruct (Nat.eq_dec e x) as [->|Hne]; [rewrite Ex; simpl; apply (g_fresh G) | rewrite (Eid e Hne); apply (g_fresh G)].
  - apply (g_f100 G).
Qed.

(* ---------------- deaths ---------------- *)
Lemma good_more_dead w l :
  good w -> (forall e, In e l -> e < n w) -> (forall e, In e (dead w) -> In e l) -> good (set_dead w l).
Proof.
  intros G Hl Hsup. constructor; try apply (g_nodup G); try apply (g_entry G); try apply (g_fresh G); try apply (g_f100 G).
  - intros e He Ha Hr. apply (g_owner G e He); [|exact Hr].
    unfold alive in *. simpl in Ha. destruct (memb e (dead w)) eqn:Em; [|reflexivity].
    apply memb_In in Em. apply Hsup, memb_In in Em. rewrite Em in Ha. discriminate.
  - exact Hl.
Qed.

Lemma good_kill w es : good w -> (forall e, In e es -> e < n w) -> good (kill w es).
Proof.
  intros G Hes. unfold kill. apply good_more_dead; [exact G | |].
  - intros e He. apply in_app_or in He as [He|He].
    + apply in_app_or in He as [He|He]; [apply (g_dead G); exact He|]. apply filter_In in He as [He _]. apply Hes. exact He.
    + apply filter_In in He as [He _]. apply in_seq in He. lia.
  - intros e He. apply in_or_app. left. apply in_or_app. left. exact He.
Qed.

(* ================= composite steps ================= *)
Lemma good_find_in w ws k u : good w -> good (fst (find_in w ws k u)).
Proof.
  intros G. unfold find_in. pose proof (good_clean w ws k u G) as H.
  destruct (get_clean_ref (alive w) (R w ws k) u) as [d r]. exact H.
Qed.

Lemma good_get_entity w ws u : good w -> good (fst (get_entity w ws u)).
Proof.
  intros G. unfold get_entity.
  pose proof (good_find_in w ws KGroup u G) as G1. destruct (find_in w ws KGroup u) as [w1 [x|]]; [exact G1|]. simpl in G1.
  pose proof (good_find_in w1 ws KData u G1) as G2. destruct (find_in w1 ws KData u) as [w2 [x|]]; [exact G2|]. simpl in G2.
  pose proof (good_find_in w2 ws KObject u G2) as G3. destruct (find_in w2 ws KObject u) as [w3 [x|]]; [exact G3|]. simpl in G3.
  apply good_find_in. exact G3.
Qed.

Lemma good_touch w ws k u : good w -> good (touch_metadata w ws k u).
Proof. intros G. unfold touch_metadata. destruct (kidx_storable k); [apply good_get_entity; exact G | exact G]. Qed.

Lemma good_save_flat w ws k u : good w -> good (save_flat w ws k u).
Proof. intros G. unfold save_flat. destruct (_ && _); [apply good_set_flat; exact G | exact G]. Qed.

Lemma good_set_links w ws l : good w -> good (set_links w ws l).
Proof. apply good_ext; try reflexivity; try lia. apply same_ids_E. reflexivity. Qed.

Lemma good_save_node w ws par k u : good w -> good (save_node w ws par k u).
Proof.
  intros G. unfold save_node, save_link. pose proof (good_save_flat w ws k u G) as G1.
  destruct (kidx_storable k); [|exact G1]. destruct (existsb _ _); [exact G1 | apply good_set_links; exact G1].
Qed.

Lemma save_node_facts w ws par k u :
  n (save_node w ws par k u) = n w /\ fresh (save_node w ws par k u) = fresh w /\ E (save_node w ws par k u) = E w
  /\ dead (save_node w ws par k u) = dead w /\ R (save_node w ws par k u) = R w.
Proof.
  unfold save_node, save_link, save_flat. destruct (kidx_storable k); simpl.
  - destruct (negb _); simpl; destruct (existsb _ _); simpl; repeat split; reflexivity.
  - repeat split; reflexivity.
Qed.

Lemma get_entity_fresh w ws u : fresh (fst (get_entity w ws u)) = fresh w /\ n (fst (get_entity w ws u)) = n w.
Proof.
  unfold get_entity, find_in.
  destruct (get_clean_ref (alive w) (R w ws KGroup) u) as [d1 [x|]]; [split; reflexivity|].
  destruct (get_clean_ref (alive (set_R w ws KGroup d1)) (R (set_R w ws KGroup d1) ws KData) u) as [d2 [x|]]; [split; reflexivity|].
  destruct (get_clean_ref _ (R (set_R (set_R w ws KGroup d1) ws KData d2) ws KObject) u) as [d3 [x|]]; [split; reflexivity|].
  destruct (get_clean_ref _ _ u) as [d4 r]. split; reflexivity.
Qed.

Lemma good_copy_uid w ws u :
  good w -> u < fresh w -> good (fst (copy_uid w ws u)) /\ snd (copy_uid w ws u) < fresh (fst (copy_uid w ws u)).
Proof.
  intros G Hu. unfold copy_uid. pose proof (good_get_entity w ws u G) as G1.
  destruct (get_entity_fresh w ws u) as [Hf _]. destruct (get_entity w ws u) as [w1 [x|]]; simpl in *.
  - apply good_take_fresh. exact G1.
  - split; [exact G1 | lia].
Qed.

Lemma add_child_good w p x : good w -> good (add_child w p x).
Proof.
  intros G. unfold add_child. destruct (ekind (E w p));
    try (apply good_upd_ch; [intros r; apply with_ch_ids | exact G]).
  destruct (memb _ _); [exact G | apply good_upd_ch; [intros r; apply with_ch_ids | exact G]].
Qed.

Lemma add_child_facts w p x :
  n (add_child w p x) = n w /\ dead (add_child w p x) = dead w /\ R (add_child w p x) = R w
  /\ fresh (add_child w p x) = fresh w /\ same_ids w (add_child w p x).
Proof.
  unfold add_child. destruct (ekind (E w p));
    try (repeat split; try reflexivity; apply same_ids_upd_ch; intros r; apply with_ch_ids).
  destruct (memb _ _); [repeat split; try reflexivity; apply same_ids_refl|].
  repeat split; try reflexivity; apply same_ids_upd_ch; intros r; apply with_ch_ids.
Qed.

Lemma good_construct c w ws k cls par u ty props :
  good w -> u < fresh w -> good (fst (fst (construct c w ws k cls par u ty props))).
Proof.
  intros G Hu. unfold construct.
  destruct (alloc_facts w (blank u k ws cls par ty)) as [Hx [Hn [HE [Hd [HR Hf]]]]].
  pose proof (good_alloc w (blank u k ws cls par ty) G Hu eq_refl) as G1.
  destruct (alloc w (blank u k ws cls par ty)) as [w1 x]. simpl in *. subst x.
  pose proof (add_child_good w1 par (n w) G1) as G2.
  destruct (add_child_facts w1 par (n w)) as [Hn2 [Hd2 [HR2 [Hf2 Hs2]]]].
  set (w2 := add_child w1 par (n w)) in *.
  assert (Hxn : n w < n w2) by (rewrite Hn2, Hn; lia).
  assert (Hal : alive w2 (n w) = true).
  { unfold alive. rewrite Hd2, Hd. destruct (memb (n w) (dead w)) eqn:Em; [|reflexivity].
    apply memb_In in Em. pose proof (g_dead G _ Em). lia. }
  destruct (Hs2 (n w)) as [S1 [S2 [S3 S4]]]. rewrite HE in S1, S2, S3, S4. simpl in S1, S2, S3, S4.
  destruct (insert_once (alive w2) (R w2 ws k) u (n w)) as [d|] eqn:Hins.
  - cbn [fst].
    pose proof (good_insert w2 ws k u (n w) d props G2 Hxn Hal S4 S1 S2 S3 Hins) as G3.
    set (w3 := upd (set_R w2 ws k d) (n w) (fun r => with_reg r props)) in *.
    pose proof (good_touch (save_node w3 ws par k u) ws k u (good_save_node w3 ws par k u G3)) as G4.
    destruct (memb (n w) (ech (E (touch_metadata (save_node w3 ws par k u) ws k u) par))); [exact G4|].
    apply good_kill; [exact G4|]. intros e [<-|[]].
    unfold touch_metadata. destruct (kidx_storable k).
    + rewrite (proj2 (get_entity_fresh (save_node w3 ws par k u) ws u)). rewrite (proj1 (save_node_facts w3 ws par k u)). simpl; exact Hxn.
    + rewrite (proj1 (save_node_facts w3 ws par k u)). simpl; exact Hxn.
  - cbn [fst].
    assert (G2' : good (if rollback c then upd w2 par (fun r => with_ch r (remove_one (n w) (ech r)) (remove_one (n w) (epgs r))) else w2)).
    { destruct (rollback c); [apply good_upd_ch; [intros r; apply with_ch_ids | exact G2] | exact G2]. }
    destruct (memb (n w) (ech (E (if rollback c then _ else w2) par))); [exact G2'|].
    apply good_kill; [exact G2'|]. intros e [<-|[]]. destruct (rollback c); simpl; exact Hxn.
Qed.

Lemma construct_fresh c w ws k cls par u ty props :
  fresh (fst (fst (construct c w ws k cls par u ty props))) = fresh w.
Proof.
  unfold construct. destruct (alloc_facts w (blank u k ws cls par ty)) as [_ [_ [_ [_ [_ Hf]]]]].
  destruct (alloc w (blank u k ws cls par ty)) as [w1 x]. simpl in Hf.
  destruct (add_child_facts w1 par x) as [_ [_ [_ [Hf2 _]]]].
  destruct (insert_once _ _ u x) as [d|]; cbn [fst].
  - match goal with |- fresh (if ?b then ?a else kill ?a ?l) = _ => assert (Hk : fresh (if b then a else kill a l) = fresh a) by (destruct b; reflexivity) end.
    rewrite Hk. unfold touch_metadata. destruct (kidx_storable k).
    + rewrite (proj1 (get_entity_fresh _ ws u)). rewrite (proj1 (proj2 (save_node_facts _ ws par k u))). simpl; congruence.
    + rewrite (proj1 (proj2 (save_node_facts _ ws par k u))). simpl; congruence.
  - match goal with |- fresh (if ?b then ?a else kill ?a ?l) = _ => assert (Hk : fresh (if b then a else kill a l) = fresh a) by (destruct b; reflexivity) end.
    rewrite Hk. destruct (rollback c); simpl; congruence.
Qed.

Lemma good_type w ws cls : good w -> good (fst (find_or_create_type w ws cls)) /\ fresh (fst (find_or_create_type w ws cls)) = fresh w.
Proof.
  intros G. assert (Hc : tuid cls < fresh w) by (pose proof (g_f100 G); unfold tuid; lia). unfold find_or_create_type.
  pose proof (good_clean w ws KType (tuid cls) G) as G1.
  destruct (get_clean_ref (alive w) (R w ws KType) (tuid cls)) as [d [t|]]; simpl in G1; [split; [exact G1 | reflexivity]|].
  set (w1 := set_R w ws KType d) in *.
  destruct (alloc_facts w1 (blank (tuid cls) KType ws cls 0 0)) as [Hx [Hn [HE [Hd [HR Hf]]]]].
  pose proof (good_alloc w1 (blank (tuid cls) KType ws cls 0 0) G1 Hc eq_refl) as G2.
  destruct (alloc w1 (blank (tuid cls) KType ws cls 0 0)) as [w2 t]. simpl in *. subst t.
  destruct (insert_once (alive w2) (R w2 ws KType) (tuid cls) (n w)) as [d'|] eqn:Hins; [|split; [exact G2 | exact Hf]].
  split; [|simpl; exact Hf].
  apply (good_insert w2 ws KType (tuid cls) (n w) d' [] G2); try (rewrite HE; reflexivity); [rewrite Hn; lia | | exact Hins].
  unfold alive. rewrite Hd. destruct (memb (n w) (dead w)) eqn:Em; [|reflexivity].
  apply memb_In in Em. pose proof (g_dead G _ Em). lia.
Qed.

Lemma good_pick w u : good w -> good (fst (pick_uid w u)) /\ snd (pick_uid w u) < fresh (fst (pick_uid w u)).
Proof.
  intros G. destruct u as [|e]; simpl.
  - split; [|lia]. apply (good_ext w); try reflexivity; try (simpl; lia); [apply same_ids_E; reflexivity | exact G].
  - split; [exact G | apply (g_fresh G)].
Qed.

Lemma good_copy_children c : forall cs w ws x' cmap,
  good w -> good (fst (fst (copy_children c w ws x' cs cmap))).
Proof.
  induction cs as [|a r IH]; intros w ws x' cmap G; simpl; [exact G|].
  destruct (kind_eqb (ekind (E w a)) KPG); [apply IH; exact G|].
  pose proof (good_touch w (ews (E w a)) KData (euid (E w a)) G) as G0.
  set (w0 := touch_metadata w (ews (E w a)) KData (euid (E w a))) in *.
  assert (Hu : euid (E w a) < fresh w0).
  { unfold w0, touch_metadata. simpl. rewrite (proj1 (get_entity_fresh w (ews (E w a)) (euid (E w a)))). apply (g_fresh G). }
  destruct (good_copy_uid w0 ws (euid (E w a)) G0 Hu) as [G1 Hu1].
  destruct (copy_uid w0 ws (euid (E w a))) as [w1 u']. simpl in G1, Hu1.
  pose proof (good_construct c w1 ws KData 3 x' u' 0 [] G1 Hu1) as G2.
  destruct (construct c w1 ws KData 3 x' u' 0 []) as [[w2 o] y]. simpl in G2.
  destruct o; try exact G2. apply IH. exact G2.
Qed.

Lemma good_copy_pgs c : forall gs w ws x' cmap,
  good w -> good (fst (copy_pgs c w ws x' gs cmap)).
Proof.
  induction gs as [|g r IH]; intros w ws x' cmap G; simpl; [exact G|].
  destruct (map_props cmap (eprops (E w g))) as [ps|]; [|exact G].
  pose proof (good_find_in w ws KPG (euid (E w g)) G) as G1.
  assert (Hf1 : fresh (fst (find_in w ws KPG (euid (E w g)))) = fresh w).
  { unfold find_in. destruct (get_clean_ref _ _ _). reflexivity. }
  destruct (find_in w ws KPG (euid (E w g))) as [w1 f]. simpl in G1, Hf1.
  assert (H2 : good (fst (match f with None => (w1, euid (E w g)) | Some _ => take_fresh w1 end))
               /\ snd (match f with None => (w1, euid (E w g)) | Some _ => take_fresh w1 end)
                  < fresh (fst (match f with None => (w1, euid (E w g)) | Some _ => take_fresh w1 end))).
  { destruct f; [apply good_take_fresh; exact G1|]. simpl. split; [exact G1|]. rewrite Hf1. apply (g_fresh G). }
  destruct (match f with None => (w1, euid (E w g)) | Some _ => take_fresh w1 end) as [w2 u']. simpl in H2. destruct H2 as [G2 Hu2].
  pose proof (good_construct c w2 ws KPG 4 x' u' 0 ps G2 Hu2) as G3.
  destruct (construct c w2 ws KPG 4 x' u' 0 ps) as [[w3 o] y]. simpl in G3.
  destruct o; try exact G3. apply IH. exact G3.
Qed.

Lemma touch_fresh w ws k u : fresh (touch_metadata w ws k u) = fresh w.
Proof. unfold touch_metadata. destruct (kidx_storable k); [apply (get_entity_fresh w ws u) | reflexivity]. Qed.

Lemma good_do_copy c w e target : good w -> good (fst (do_copy c w e target)).
Proof.
  intros G. unfold do_copy.
  pose proof (good_touch w (ews (E w e)) (ekind (E w e)) (euid (E w e)) G) as G0.
  set (w0 := touch_metadata w (ews (E w e)) (ekind (E w e)) (euid (E w e))) in *.
  set (ws := ews (E w target)).
  assert (Hu : euid (E w0 e) < fresh w0) by apply (g_fresh G0).
  destruct (ekind (E w0 e)); try exact G0.
  - destruct (usable w0 target KGroup); [|exact G0].
    destruct (good_copy_uid w0 ws (euid (E w0 e)) G0 Hu) as [G1 Hu1].
    destruct (copy_uid w0 ws (euid (E w0 e))) as [w1 u']. simpl in G1, Hu1.
    destruct (good_type w1 ws (ecls (E w0 e)) G1) as [G2 Hf2].
    destruct (find_or_create_type w1 ws (ecls (E w0 e))) as [w2 t]. simpl in G2, Hf2.
    assert (Hu2 : u' < fresh w2) by (rewrite Hf2; exact Hu1).
    pose proof (good_construct c w2 ws KGroup (ecls (E w0 e)) target u' t [] G2 Hu2) as G3.
    destruct (construct c w2 ws KGroup (ecls (E w0 e)) target u' t []) as [[w3 o] y]. exact G3.
  - destruct (usable w0 target KGroup); [|exact G0].
    destruct (good_copy_uid w0 ws (euid (E w0 e)) G0 Hu) as [G1 Hu1].
    destruct (copy_uid w0 ws (euid (E w0 e))) as [w1 u']. simpl in G1, Hu1.
    destruct (good_type w1 ws (ecls (E w0 e)) G1) as [G2 Hf2].
    destruct (find_or_create_type w1 ws (ecls (E w0 e))) as [w2 t]. simpl in G2, Hf2.
    assert (Hu2 : u' < fresh w2) by (rewrite Hf2; exact Hu1).
    pose proof (good_construct c w2 ws KObject (ecls (E w0 e)) target u' t [] G2 Hu2) as G3.
    destruct (construct c w2 ws KObject (ecls (E w0 e)) target u' t []) as [[w3 o] x']. simpl in G3.
    destruct o; try exact G3.
    pose proof (good_copy_children c (ech (E w3 e)) w3 ws x' [] G3) as G4.
    destruct (copy_children c w3 ws x' (ech (E w3 e)) []) as [[w4 o4] cmap]. simpl in G4.
    destruct o4; try exact G4. apply good_copy_pgs. exact G4.
  - destruct (usable w0 target KObject); [|exact G0].
    destruct (good_copy_uid w0 ws (euid (E w0 e)) G0 Hu) as [G1 Hu1].
    destruct (copy_uid w0 ws (euid (E w0 e))) as [w1 u']. simpl in G1, Hu1.
    pose proof (good_construct c w1 ws KData 3 target u' 0 [] G1 Hu1) as G3.
    destruct (construct c w1 ws KData 3 target u' 0 []) as [[w3 o] y]. exact G3.
Qed.

Lemma good_sweep w ws k : good w -> good (sweep w ws k).
Proof.
  intros G. unfold sweep. pose proof (good_sweep_R w ws k G) as G1.
  destruct (kidx_storable k); [apply good_set_links, good_set_flat; exact G1 | exact G1].
Qed.

Lemma with_props_ids r p : euid (with_props r p) = euid r /\ ekind (with_props r p) = ekind r /\ ews (with_props r p) = ews r /\ ereg (with_props r p) = ereg r.
Proof. repeat split; reflexivity. Qed.

Lemma good_fold {A} (f : st -> A -> st) l : (forall w x, good w -> good (f w x)) -> forall w, good w -> good (fold_left f l w).
Proof. intros Hf. induction l as [|a r IH]; intros w G; simpl; [exact G | apply IH, Hf, G]. Qed.

Lemma good_drop_child w o x : good w -> good (drop_child w o x).
Proof. intros G. apply good_upd_ch; [intros r; apply with_ch_ids | exact G]. Qed.

Lemma good_scrub_groups w o u : good w -> good (scrub_groups w o u).
Proof.
  intros G. unfold scrub_groups. apply good_fold; [|exact G]. intros w0 g G0.
  destruct (eprops (E w0 g)) as [|a l]; [exact G0|].
  assert (G1 : good (upd w0 g (fun r => with_props r (filter (fun x => negb (Nat.eqb x u)) (a :: l)))))
    by (apply good_upd_ch; [intros r; apply with_props_ids | exact G0]).
  destruct (filter _ (a :: l)); [apply good_drop_child; exact G1 | exact G1].
Qed.

Lemma good_clear_children w o : good w -> good (clear_children w o).
Proof.
  intros G. unfold clear_children. apply good_fold; [|exact G]. intros w0 x G0.
  destruct (kind_eqb (ekind (E w0 x)) KPG); [apply good_drop_child; exact G0|].
  unfold drop_node_links, del_link. apply good_set_links, good_set_links, good_set_flat. apply good_drop_child. apply good_scrub_groups. exact G0.
Qed.

Lemma good_step c w a : good w -> good (fst (step c w a)).
Proof.
  intros G. destruct a as [ws isobj parent u|obj u|obj ds u|e target|e|es|ws k|ws e]; unfold step.
  - destruct (usable w parent KGroup && Nat.eqb (ews (E w parent)) ws && uspec_ok w u); [|exact G].
    destruct (good_pick w u G) as [G0 Hu0]. destruct (pick_uid w u) as [w0 uid]. simpl in G0, Hu0.
    destruct (good_type w0 ws (if isobj then 2 else 1) G0) as [G1 Hf1].
    destruct (find_or_create_type w0 ws (if isobj then 2 else 1)) as [w1 t]. simpl in G1, Hf1.
    assert (Hu1 : uid < fresh w1) by (rewrite Hf1; exact Hu0).
    pose proof (good_construct c w1 ws (if isobj then KObject else KGroup) (if isobj then 2 else 1) parent uid t [] G1 Hu1) as G2.
    destruct (construct c w1 ws (if isobj then KObject else KGroup) (if isobj then 2 else 1) parent uid t []) as [[w2 o] y]. exact G2.
  - destruct (usable w obj KObject && uspec_ok w u); [|exact G].
    destruct (good_pick w u G) as [G0 Hu0]. destruct (pick_uid w u) as [w0 uid]. simpl in G0, Hu0.
    pose proof (good_construct c w0 (ews (E w obj)) KData 3 obj uid 0 [] G0 Hu0) as G2.
    destruct (construct c w0 (ews (E w obj)) KData 3 obj uid 0 []) as [[w2 o] y]. exact G2.
  - destruct (usable w obj KObject && uspec_ok w u); [|exact G].
    destruct (good_pick w u G) as [G0 Hu0]. destruct (pick_uid w u) as [w0 uid]. simpl in G0, Hu0.
    match goal with |- context [construct c w0 ?a KPG 4 obj uid 0 ?ps] =>
      pose proof (good_construct c w0 a KPG 4 obj uid 0 ps G0 Hu0) as G2;
      destruct (construct c w0 a KPG 4 obj uid 0 ps) as [[w2 o] y] end. exact G2.
  - destruct (Nat.ltb e (n w) && alive w e && Nat.ltb target (n w) && alive w target); [apply good_do_copy; exact G | exact G].
  - match goal with |- context [if ?b then _ else _] => destruct b end; [|exact G]. cbn [fst].
    apply good_sweep. unfold drop_node_links, del_link. apply good_set_links, good_set_links, good_set_flat. apply good_upd_ch; [intros r; apply with_ch_ids|].
    destruct (kind_eqb (ekind (E w e)) KObject); [apply good_clear_children; exact G | exact G].
  - match goal with |- context [if ?b then _ else _] => destruct b eqn:Eb end; [|exact G]. cbn [fst].
    apply good_kill; [exact G|]. intros e He. apply andb_true_iff in Eb as [Eb _].
    rewrite forallb_forall in Eb. pose proof (Eb e He) as H. apply andb_true_iff in H as [H _]. apply andb_true_iff in H as [H _].
    apply Nat.ltb_lt. exact H.
  - destruct (kind_eqb k KPG); [exact G | apply good_sweep; exact G].
  - destruct (Nat.ltb e (n w)); [|exact G].
    pose proof (good_get_entity w ws (euid (E w e)) G) as G1. destruct (get_entity w ws (euid (E w e))) as [w1 r]. exact G1.
Qed.

Lemma good_init : good init.
Proof.
  constructor.
  - intros [|[|ws]] [| | | |]; simpl; repeat constructor; simpl; tauto.
  - intros [|[|ws]] [| | | |] u e; simpl; try tauto; intros [H|[]]; inversion H; subst; simpl; repeat split; lia.
  - intros e He _ _. simpl in He. destruct e as [|[|[|[|e]]]]; simpl; try (left; reflexivity); lia.
  - simpl. tauto.
  - intros e. destruct e as [|[|[|e]]]; simpl; lia.
  - simpl. lia.
Qed.

Theorem run_good c : forall h w, good w -> good (run c w h).
Proof. induction h as [|a r IH]; intros w G; simpl; [exact G | apply IH, good_step, G]. Qed.

Corollary reachable_good c h : good (run c init h).
Proof. apply run_good, good_init. Qed.
