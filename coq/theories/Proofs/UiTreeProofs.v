(* Whole-dictionary round trip through the GENERATED demote / stringify / dict_mapper / numify (property C14). *)
From Coq Require Import String Ascii.
From GV Require Import Prelude.Base Model.PyVal Model.UiRules Model.Enforcers Model.UiForms Model.UiCodec
     Proofs.PyValProofs Proofs.UiRulesProofs Proofs.UiCodecProofs.
From GVgen Require Import PyLite_SharedUtils PyLite_UiUtils Table_UiValidations PyLite_InputFile.
Local Open Scope string_scope. Local Open Scope list_scope.


(* ---------------------------------------------------------------- depth *)
Lemma depth_dict_in d k v : In (k, v) d -> depth v < depth (PDict d).
Proof.
  simpl. induction d as [|[k2 w] r IH]; intros Hin; [contradiction|]. simpl.
  destruct Hin as [E|Hin]; [inversion E; subst; lia | specialize (IH Hin); lia].
Qed.

(* ---------------------------------------------------------------- setitem folds over a dictionary with distinct string keys *)
Lemma dict_set_mid pre k v x rest :
  is_pstr k = true -> existsb (fun k2 => py_eq k k2 || py_eq k2 k) (map fst pre) = false ->
  dict_set (pre ++ (k, v) :: rest) k x = pre ++ (k, x) :: rest.
Proof.
  intros Hk. induction pre as [|[k2 w] r IH]; simpl; intros H.
  - destruct k; try discriminate. rewrite py_eq_str_refl. reflexivity.
  - apply orb_false_iff in H as [H1 H2]. apply orb_false_iff in H1 as [H1 _]. rewrite H1. rewrite IH by assumption. reflexivity.
Qed.

(* in place: every key of the dictionary is re-assigned to the image of its value *)
Lemma fold_inplace (step : pv -> pv * pv -> res pv) (h : pv -> pv) :
  forall rest pre,
  forallb (fun kv : pv * pv => is_pstr (fst kv)) rest = true ->
  keys_distinct (map fst pre ++ map fst rest) = true ->
  (forall acc k v, In (k, v) rest -> step (PDict acc) (k, v) = setitem (PDict acc) k (h v)) ->
  fold_res step rest (PDict (pre ++ rest)) = Ok (PDict (pre ++ map (fun kv => (fst kv, h (snd kv))) rest)).
Proof.
  induction rest as [|[k v] r IH]; intros pre Hs Hk Hstep; [reflexivity|].
  simpl in Hs. apply andb_true_iff in Hs as [Hs1 Hs2].
  cbn [fold_res]. rewrite Hstep by (left; reflexivity).
  simpl map in Hk. destruct (keys_distinct_app_cons _ _ _ Hk) as (Fresh & K1 & _).
  unfold setitem. assert (Hh : hashable k = true) by (destruct k; try discriminate; reflexivity). rewrite Hh.
  rewrite dict_set_mid by assumption. cbn [bind].
  replace (pre ++ (k, h v) :: r) with ((pre ++ [(k, h v)]) ++ r) by (rewrite <- app_assoc; reflexivity).
  rewrite IH; [rewrite <- app_assoc; reflexivity | assumption | | intros; apply Hstep; right; assumption].
  rewrite map_app. simpl. exact K1.
Qed.

(* fresh: a new dictionary receives every key with the image of its value *)
Lemma fold_fresh (step : pv -> pv * pv -> res pv) (h : pv -> pv) :
  forall rest pre,
  forallb (fun kv : pv * pv => is_pstr (fst kv)) rest = true ->
  keys_distinct (map fst pre ++ map fst rest) = true ->
  (forall acc k v, In (k, v) rest -> step (PDict acc) (k, v) = setitem (PDict acc) k (h v)) ->
  fold_res step rest (PDict pre) = Ok (PDict (pre ++ map (fun kv => (fst kv, h (snd kv))) rest)).
Proof.
  induction rest as [|[k v] r IH]; intros pre Hs Hk Hstep; [simpl; rewrite app_nil_r; reflexivity|].
  simpl in Hs. apply andb_true_iff in Hs as [Hs1 Hs2].
  cbn [fold_res]. rewrite Hstep by (left; reflexivity).
  simpl map in Hk. destruct (keys_distinct_app_cons _ _ _ Hk) as (Fresh & K1 & _).
  unfold setitem. assert (Hh : hashable k = true) by (destruct k; try discriminate; reflexivity). rewrite Hh.
  rewrite dict_set_fresh by assumption. cbn [bind].
  rewrite IH; [simpl; rewrite <- app_assoc; reflexivity | assumption | | intros; apply Hstep; right; assumption].
  rewrite map_app. simpl. exact K1.
Qed.

(* ---------------------------------------------------------------- shapes *)
Lemma tshape_dict tup L d : tshape tup L (PDict d) = true ->
  forallb (fun kv : pv * pv => is_pstr (fst kv)) d = true /\ keys_distinct (map fst d) = true
  /\ forall k v, In (k, v) d -> tshape tup L v = true.
Proof.
  simpl. intros H. apply andb_true_iff in H as [H1 H2]. split; [|split; [exact H2|]].
  - rewrite forallb_forall in *. intros kv Hin. specialize (H1 kv Hin). apply andb_true_iff in H1 as [X _]. exact X.
  - intros k v Hin. rewrite forallb_forall in H1. specialize (H1 _ Hin). apply andb_true_iff in H1 as [_ X]. exact X.
Qed.

Lemma tshape_atom tup L v : tshape tup L v = true -> isinst v [TDict; TList; TTuple] = false -> is_atom v = true /\ L v = true.
Proof.
  destruct v as [ | | | | | | k ? | | | | | ]; try destruct k; simpl; intros H X; try discriminate;
    (split; [reflexivity | exact H]).
Qed.

(* ---------------------------------------------------------------- dict_mapper over a whole tree *)
(* fs leaves dictionaries alone, and on the leaves that occur it returns g *)
Theorem dict_mapper_tree fs g L :
  (forall d, apply_all fs (PDict d) = Ok (PDict d)) ->
  (forall a, is_atom a = true -> L a = true -> apply_all fs a = Ok (g a)) ->
  forall m v, tshape false L v = true -> depth v < m -> dict_mapper m v fs = Ok (tmap g v).
Proof.
  intros Hd Hl. induction m as [|m IH]; intros v Hs Hdep; [lia|].
  destruct (isinst v [TDict; TList; TTuple]) eqn:Ek.
  - destruct v as [ | | | | | | k ? | | | l | l | d ]; try destruct k; try discriminate.
    + (* list *)
      rewrite dict_mapper_list. simpl in Hs.
      rewrite (map_res_ok (apply_all fs) g l); [reflexivity|].
      intros x Hx. rewrite forallb_forall in Hs. specialize (Hs x Hx). apply andb_true_iff in Hs as [A B]. apply Hl; assumption.
    + (* dictionary *)
      destruct (tshape_dict _ _ _ Hs) as (Ks & Kd & Hin).
      cbn [dict_mapper isinst existsb isinst1 orb dict_items bind].
      rewrite (fold_inplace _ (tmap g) d [] Ks Kd).
      * cbn [app bind isinst existsb isinst1 orb]. rewrite apply_all_eta. simpl tmap. rewrite Hd. reflexivity.
      * intros acc k v Hkv. cbv beta iota.
        rewrite IH; [cbn [bind]; apply bind_ret | apply (Hin k v Hkv) |].
        pose proof (depth_dict_in d k v Hkv). lia.
  - destruct (tshape_atom _ _ _ Hs Ek) as [A B].
    rewrite dict_mapper_scalar by (destruct v as [ | | | | | | k ? | | | | | ]; try destruct k; try discriminate; reflexivity).
    rewrite (Hl v A B). destruct v as [ | | | | | | k ? | | | | | ]; try discriminate; reflexivity.
Qed.

(* ---------------------------------------------------------------- tmap facts *)
Lemma tmap_dict g d : tmap g (PDict d) = PDict (map (fun kv => (fst kv, tmap g (snd kv))) d).
Proof. reflexivity. Qed.

Lemma keys_map_snd (h : pv -> pv) (d : list (pv * pv)) : map fst (map (fun kv => (fst kv, h (snd kv))) d) = map fst d.
Proof. induction d as [|[k v] r IH]; simpl; [reflexivity | rewrite IH; reflexivity]. Qed.

(* shapes are preserved when leaves go to leaves *)
Lemma tshape_tmap (L L' : pv -> bool) g :
  (forall a, is_atom a = true -> L a = true -> is_atom (g a) = true /\ L' (g a) = true) ->
  forall m v tup, depth v < m -> tshape tup L v = true -> tshape false L' (tmap g v) = true /\ depth (tmap g v) = depth v.
Proof.
  intros H. induction m as [|m IH]; intros v tup Hdep Hs; [lia|].
  destruct (isinst v [TDict; TList; TTuple]) eqn:Ek.
  - destruct v as [ | | | | | | k ? | | | l | l | d ]; try destruct k; try discriminate.
    + simpl in Hs. simpl. split.
      * rewrite forallb_forall in *. intros y Hy. apply in_map_iff in Hy as (x & <- & Hx). specialize (Hs x Hx).
        apply andb_true_iff in Hs as [A B]. destruct (H x A B) as [A' B']. rewrite A', B'. reflexivity.
      * f_equal. clear Hdep. induction l as [|x r IHl]; [reflexivity|]. simpl in Hs. apply andb_true_iff in Hs as [Hx Hr].
        apply andb_true_iff in Hx as [A B]. destruct (H x A B) as [A' _]. simpl. rewrite IHl by assumption.
        assert (D0 : forall a, is_atom a = true -> depth a = 0) by (intros a Ha; destruct a; try discriminate; reflexivity).
        rewrite (D0 x A), (D0 (g x) A'). reflexivity.
    + simpl in Hs. apply andb_true_iff in Hs as [_ Hs]. simpl. split.
      * rewrite forallb_forall in *. intros y Hy. apply in_map_iff in Hy as (x & <- & Hx). specialize (Hs x Hx).
        apply andb_true_iff in Hs as [A B]. destruct (H x A B) as [A' B']. rewrite A', B'. reflexivity.
      * f_equal. clear Hdep. induction l as [|x r IHl]; [reflexivity|]. simpl in Hs. apply andb_true_iff in Hs as [Hx Hr].
        apply andb_true_iff in Hx as [A B]. destruct (H x A B) as [A' _]. simpl. rewrite IHl by assumption.
        assert (D0 : forall a, is_atom a = true -> depth a = 0) by (intros a Ha; destruct a; try discriminate; reflexivity).
        rewrite (D0 x A), (D0 (g x) A'). reflexivity.
    + destruct (tshape_dict _ _ _ Hs) as (Ks & Kd & Hin). rewrite tmap_dict.
      assert (R : forall k v, In (k, v) d -> tshape false L' (tmap g v) = true /\ depth (tmap g v) = depth v).
      { intros k v Hkv. apply (IH v tup); [pose proof (depth_dict_in d k v Hkv); lia | apply (Hin k v Hkv)]. }
      split.
      * cbn [tshape]. rewrite keys_map_snd, Kd, andb_true_r. rewrite forallb_forall. intros kv Hkv.
        apply in_map_iff in Hkv as ([k v] & <- & Hkv). cbn [fst snd].
        rewrite forallb_forall in Ks. specialize (Ks _ Hkv). cbn [fst] in Ks. rewrite Ks. destruct (R k v Hkv) as [X _]. rewrite X. reflexivity.
      * cbn [depth]. f_equal. clear - R. induction d as [|[k v] r IHd]; [reflexivity|]. simpl.
        destruct (R k v (or_introl eq_refl)) as [_ X]. rewrite X. rewrite IHd; [reflexivity|]. intros; apply R with (k := k0); right; assumption.
  - destruct v as [ | | | | | | k ? | | | | | ]; try destruct k; try discriminate; simpl in Hs; try discriminate;
      (match type of Hs with L ?a = true => destruct (H a eq_refl Hs) as [A' B'] end);
      match goal with |- tshape false L' (tmap g ?a) = true /\ _ =>
        change (tmap g a) with (g a); split;
        [ destruct (g a) as [ | | | | | | k' ? | | | | | ]; try destruct k'; try discriminate; simpl; exact B'
        | destruct (g a); try discriminate; reflexivity ] end.
Qed.

(* tmap of a composition / of a function that fixes the leaves *)
Lemma tmap_ext (L : pv -> bool) g g' :
  (forall a, is_atom a = true -> L a = true -> g a = g' a) ->
  forall m v tup, depth v < m -> tshape tup L v = true -> tmap g v = tmap g' v.
Proof.
  intros H. induction m as [|m IH]; intros v tup Hdep Hs; [lia|].
  destruct v as [ | | | | | | k ? | | | l | l | d ]; try destruct k; simpl in Hs; try discriminate;
    try (simpl; apply H; [reflexivity | exact Hs]).
  - simpl. f_equal. apply map_ext_in. intros x Hx. rewrite forallb_forall in Hs. specialize (Hs x Hx).
    apply andb_true_iff in Hs as [A B]. apply H; assumption.
  - apply andb_true_iff in Hs as [_ Hs]. simpl. f_equal. apply map_ext_in. intros x Hx. rewrite forallb_forall in Hs. specialize (Hs x Hx).
    apply andb_true_iff in Hs as [A B]. apply H; assumption.
  - rewrite !tmap_dict. f_equal. apply map_ext_in. intros [k v] Hkv. cbn [fst snd]. f_equal.
    apply andb_true_iff in Hs as [Hs _]. rewrite forallb_forall in Hs. specialize (Hs _ Hkv). apply andb_true_iff in Hs as [_ X].
    apply (IH v tup); [pose proof (depth_dict_in d k v Hkv); lia | exact X].
Qed.

Lemma tmap_tmap (L : pv -> bool) g1 g2 :
  (forall a, is_atom a = true -> L a = true -> is_atom (g1 a) = true) ->
  forall m v tup, depth v < m -> tshape tup L v = true -> tmap g2 (tmap g1 v) = tmap (fun a => g2 (g1 a)) v.
Proof.
  intros H. induction m as [|m IH]; intros v tup Hdep Hs; [lia|].
  destruct v as [ | | | | | | k ? | | | l | l | d ]; try destruct k; simpl in Hs; try discriminate;
    try (match goal with |- tmap g2 (tmap g1 ?a) = _ => change (tmap g1 a) with (g1 a); cbn [tmap];
           pose proof (H a eq_refl Hs) as A; destruct (g1 a); try discriminate; reflexivity end).
  - cbn [tmap]. rewrite map_map. reflexivity.
  - cbn [tmap]. rewrite map_map. reflexivity.
  - rewrite !tmap_dict. f_equal. rewrite map_map. apply map_ext_in. intros [k v] Hkv. cbn [fst snd]. f_equal.
    apply andb_true_iff in Hs as [Hs _]. rewrite forallb_forall in Hs. specialize (Hs _ Hkv). apply andb_true_iff in Hs as [_ X].
    apply (IH v tup); [pose proof (depth_dict_in d k v Hkv); lia | exact X].
Qed.

(* ---------------------------------------------------------------- stringify *)
Lemma write_funs_dict d : apply_all write_funs (PDict d) = Ok (PDict d).
Proof. reflexivity. Qed.
Lemma read_funs_dict d : apply_all read_funs (PDict d) = Ok (PDict d).
Proof. reflexivity. Qed.
Lemma demote_funs_dict d : apply_all demote_funs (PDict d) = Ok (PDict d).
Proof. reflexivity. Qed.

Theorem stringify_tree g L :
  (forall a, is_atom a = true -> L a = true -> apply_all write_funs a = Ok (g a)) ->
  forall m d, tshape false L (PDict d) = true -> depth (PDict d) <= m -> InputFile_stringify m (PDict d) = Ok (tmap g (PDict d)).
Proof.
  intros Hl m d Hs Hdep. destruct (tshape_dict _ _ _ Hs) as (Ks & Kd & Hin).
  unfold InputFile_stringify, stringify. cbn [dict_items bind].
  rewrite (fold_fresh _ (tmap g) d [] Ks Kd).
  - reflexivity.
  - intros acc k v Hkv. cbv beta iota zeta. change [nan2str; inf2str; as_str_if_uuid; none2str] with write_funs.
    rewrite (dict_mapper_tree write_funs g L write_funs_dict Hl m v (Hin k v Hkv)).
    + cbn [bind]. apply bind_ret.
    + pose proof (depth_dict_in d k v Hkv). lia.
Qed.

(* ---------------------------------------------------------------- demote *)
Theorem demote_tree g L :
  (forall a, is_atom a = true -> L a = true -> apply_all demote_funs a = Ok (g a)) ->
  forall m d, tshape true L (PDict d) = true -> depth (PDict d) < m -> InputFile_demote m (PDict d) = Ok (tmap g (PDict d)).
Proof.
  intros Hl. induction m as [|m IH]; intros d Hs Hdep; [lia|].
  destruct (tshape_dict _ _ _ Hs) as (Ks & Kd & Hin).
  cbn [InputFile_demote dict_items bind].
  rewrite (fold_fresh _ (tmap g) d [] Ks Kd).
  - reflexivity.
  - intros acc k v Hkv. cbv beta iota zeta. change [entity2uuid; as_str_if_uuid; workspace2path; container_group2name] with demote_funs.
    pose proof (depth_dict_in d k v Hkv) as Dv. pose proof (Hin k v Hkv) as Sv.
    assert (Elems : forall l, forallb (fun x => is_atom x && L x) l = true -> 0 < m ->
              map_res (fun v_val => dict_mapper m v_val demote_funs) l = Ok (map g l)).
    { intros l Hl' Hm. apply map_res_ok. intros x Hx. rewrite forallb_forall in Hl'. specialize (Hl' x Hx).
      apply andb_true_iff in Hl' as [A B]. destruct m as [|m']; [lia|].
      rewrite dict_mapper_scalar by (destruct x as [ | | | | | | k' ? | | | | | ]; try destruct k'; try discriminate; reflexivity).
      apply Hl; assumption. }
    destruct v as [ | b | z | f | s | u | k' u | p | t | l | l | d' ]; try destruct k'; simpl in Sv; try discriminate;
      cbn [isinst existsb isinst1 orb iter_list bind].
    all: try (rewrite (Elems l) by (try (apply andb_true_iff in Sv as [_ Sv]); try exact Sv; simpl in Dv, Hdep; lia); cbn [bind tmap]; apply bind_ret).
    all: try (rewrite IH by (try exact Sv; try assumption; lia); cbn [bind]; apply bind_ret).
    all: destruct m as [|m']; [simpl in Dv, Hdep; lia|];
         (rewrite dict_mapper_scalar by reflexivity); rewrite Hl by (try reflexivity; exact Sv); cbn [bind tmap]; apply bind_ret.
Qed.

(* ---------------------------------------------------------------- json *)
Definition json_atom (a : pv) : bool :=
  match a with PNone | PBool _ | PInt _ | PStr _ => true | PFloat (FNaN _) => false | PFloat _ => true | _ => false end.

Lemma json_atom_fix a : json_atom a = true -> json_roundtrip a = Ok a.
Proof. destruct a as [ | | | f | | | | | | | | ]; try discriminate; try reflexivity. destruct f; try discriminate; reflexivity. Qed.

Lemma json_list l : (forall x, In x l -> json_roundtrip x = Ok x) -> json_roundtrip (PList l) = Ok (PList l).
Proof.
  induction l as [|x r IH]; intros H; [reflexivity|].
  assert (IHr : json_roundtrip (PList r) = Ok (PList r)) by (apply IH; intros; apply H; right; assumption).
  simpl in IHr |- *. rewrite (H x (or_introl eq_refl)). cbn [bind].
  match type of IHr with bind ?G _ = _ => destruct G as [ys|] eqn:E end; cbn [bind] in *; [|discriminate].
  inversion IHr; subst. reflexivity.
Qed.

Lemma json_dict d : forallb (fun kv : pv * pv => is_pstr (fst kv)) d = true ->
  (forall k v, In (k, v) d -> json_roundtrip v = Ok v) -> json_roundtrip (PDict d) = Ok (PDict d).
Proof.
  induction d as [|[k v] r IH]; intros Hk H; [reflexivity|].
  simpl in Hk. apply andb_true_iff in Hk as [Hk1 Hk2].
  assert (IHr : json_roundtrip (PDict r) = Ok (PDict r)) by (apply IH; [assumption | intros; eapply H; right; eassumption]).
  destruct k; try discriminate.
  simpl in IHr |- *. rewrite (H (PStr s) v (or_introl eq_refl)). cbn [bind].
  match type of IHr with bind ?G _ = _ => destruct G as [ys|] eqn:E end; cbn [bind] in *; [|discriminate].
  inversion IHr; subst. reflexivity.
Qed.

Theorem json_tree L : (forall a, is_atom a = true -> L a = true -> json_atom a = true) ->
  forall m v, depth v < m -> tshape false L v = true -> json_roundtrip v = Ok v.
Proof.
  intros H. induction m as [|m IH]; intros v Hdep Hs; [lia|].
  destruct v as [ | | | | | | k ? | | | l | l | d ]; try destruct k; simpl in Hs; try discriminate;
    try (apply json_atom_fix; apply H; [reflexivity | exact Hs]).
  - apply json_list. intros x Hx. rewrite forallb_forall in Hs. specialize (Hs x Hx). apply andb_true_iff in Hs as [A B].
    apply json_atom_fix. apply H; assumption.
  - apply andb_true_iff in Hs as [Hs Kd]. apply json_dict.
    + rewrite forallb_forall in *. intros kv Hkv. specialize (Hs kv Hkv). apply andb_true_iff in Hs as [X _]. exact X.
    + intros k v Hkv. rewrite forallb_forall in Hs. specialize (Hs _ Hkv). apply andb_true_iff in Hs as [_ X]. cbn [snd] in X.
      apply IH; [pose proof (depth_dict_in d k v Hkv); lia | exact X].
Qed.

(* ---------------------------------------------------------------- numify *)
Lemma forms_pass_weaken v : forms_pass false v = true -> forms_pass true v = true.
Proof. destruct v; simpl; try reflexivity. intros H. apply andb_true_iff in H as [_ H]. exact H. Qed.

(* the reader's functions r on leaves that they send to fixed points *)
Theorem numify_tree r L :
  (forall a, is_atom a = true -> L a = true ->
     apply_all read_funs a = Ok (r a) /\ is_atom (r a) = true /\ L (r a) = true /\ r (r a) = r a) ->
  forall m d, tshape false L (PDict d) = true -> forms_pass true (PDict d) = true -> depth (PDict d) < m ->
  InputFile_numify m (PDict d) = Ok (tmap r (PDict d)).
Proof.
  intros Hl. induction m as [|m IH]; intros d Hs Hf Hdep; [lia|].
  destruct (tshape_dict _ _ _ Hs) as (Ks & Kd & Hin).
  assert (Hl1 : forall a, is_atom a = true -> L a = true -> apply_all read_funs a = Ok (r a)) by (intros a A B; apply (Hl a A B)).
  cbn [InputFile_numify isinst existsb isinst1 orb negb dict_items bind].
  rewrite (fold_inplace _ (tmap r) d [] Ks Kd).
  - reflexivity.
  - intros acc k v Hkv. cbv beta iota zeta. change [str2none; str2inf; str2uuid; path2workspace] with read_funs.
    pose proof (depth_dict_in d k v Hkv) as Dv. pose proof (Hin k v Hkv) as Sv.
    assert (Fv : forms_pass false v = true).
    { simpl in Hf. rewrite forallb_forall in Hf. apply (Hf _ Hkv). }
    destruct (isinst v [TDict]) eqn:Ed.
    + destruct v as [ | | | | | | k' ? | | | | | d' ]; try destruct k'; try discriminate.
      cbn [forms_pass orb] in Fv. apply andb_true_iff in Fv as [Fv1 Fv2].
      destruct (ui_validation_with ui_validations_table (PDict d')) as [y|e] eqn:Ev; [|discriminate]. cbn [catch_validation bind].
      rewrite (IH d' Sv) by (first [exact Fv2 | lia]). cbn [bind].
      destruct (tshape_tmap L L r (fun a A B => conj (proj1 (proj2 (Hl a A B))) (proj1 (proj2 (proj2 (Hl a A B))))) (S (depth (PDict d'))) (PDict d') false (Nat.lt_succ_diag_r _) Sv) as [S2 D2].
      rewrite (dict_mapper_tree read_funs r L read_funs_dict Hl1 m _ S2) by (rewrite D2; lia). cbn [bind].
      rewrite (tmap_tmap L r r (fun a A B => proj1 (proj2 (Hl a A B))) (S (depth (PDict d'))) (PDict d') false (Nat.lt_succ_diag_r _) Sv).
      rewrite (tmap_ext L (fun a => r (r a)) r (fun a A B => proj2 (proj2 (proj2 (Hl a A B)))) (S (depth (PDict d'))) (PDict d') false (Nat.lt_succ_diag_r _) Sv).
      apply bind_ret.
    + cbn [isinst existsb] in Ed. rewrite Ed.
      rewrite (dict_mapper_tree read_funs r L read_funs_dict Hl1 m v Sv) by lia. cbn [bind]. apply bind_ret.
Qed.

(* ---------------------------------------------------------------- leaves *)
Lemma unwrap_ok fs a : is_ok (apply_all fs a) = true -> apply_all fs a = Ok (unwrap fs a).
Proof. unfold unwrap. destruct (apply_all fs a); [reflexivity | discriminate]. Qed.
Lemma unwrap_eq fs a x : apply_all fs a = Ok x -> unwrap fs a = x.
Proof. unfold unwrap. intros ->. reflexivity. Qed.

Lemma ekind_eqb_eq k1 k2 : ekind_eqb k1 k2 = true -> k1 = k2.
Proof. destruct k1, k2; simpl; try discriminate; try reflexivity. intros H. apply String.eqb_eq in H. subst. reflexivity. Qed.
Lemma ekind_eqb_refl k : ekind_eqb k k = true.
Proof. destruct k; simpl; [reflexivity | apply String.eqb_refl]. Qed.

Lemma atom_same_eq a b : is_atom a = true -> pv_same a b = true -> a = b.
Proof.
  destruct a as [ | x | x | f | s | u | k u | p | t | l | l | d ]; try discriminate; intros _;
    destruct b as [ | y | y | g | s2 | u2 | k2 u2 | p2 | t2 | l2 | l2 | d2 ]; simpl; try discriminate; intros H; try reflexivity.
  - apply Bool.eqb_prop in H. subst; reflexivity.
  - apply Z.eqb_eq in H. subst; reflexivity.
  - destruct f, g; simpl in H; try discriminate; try reflexivity.
    + apply andb_true_iff in H as [H1 H2]. apply Z.eqb_eq in H1. apply N.eqb_eq in H2. subst; reflexivity.
    + apply Bool.eqb_prop in H. subst; reflexivity.
  - apply String.eqb_eq in H. subst; reflexivity.
  - apply N.eqb_eq in H. subst; reflexivity.
  - apply andb_true_iff in H as [H1 H2]. apply ekind_eqb_eq in H1. apply N.eqb_eq in H2. subst; reflexivity.
  - apply String.eqb_eq in H. subst; reflexivity.
Qed.

Lemma atom_same_refl a : is_atom a = true -> pv_same a a = true.
Proof.
  destruct a as [ | x | x | f | s | u | k u | p | t | l | l | d ]; try discriminate; intros _; simpl; try reflexivity.
  - apply Bool.eqb_reflx.
  - apply Z.eqb_refl.
  - destruct f; simpl; try reflexivity; [rewrite Z.eqb_refl, N.eqb_refl; reflexivity | apply Bool.eqb_reflx].
  - apply String.eqb_refl.
  - apply N.eqb_refl.
  - rewrite ekind_eqb_refl, N.eqb_refl. reflexivity.
  - apply String.eqb_refl.
Qed.

Opaque uuid_text.
(* the four stages on one safe scalar *)
Lemma leaf_chain a : is_atom a = true -> atom_safe a = true ->
  exists x y, apply_all demote_funs a = Ok x /\ is_atom x = true /\ apply_all write_funs x = Ok y /\ is_atom y = true
              /\ json_atom y = true /\ apply_all read_funs y = Ok (canon a) /\ is_atom (canon a) = true
              /\ apply_all read_funs (canon a) = Ok (canon a).
Proof.
  intros Ha Hs.
  assert (Rstr : forall s, string_safe s = true -> apply_all read_funs (PStr s) = Ok (PStr s)).
  { intros s H. apply (string_roundtrip_iff 0) in H. rewrite value_trip_atom in H by reflexivity.
    cbn -[dict_mapper] in H. rewrite dict_mapper_scalar in H by reflexivity. exact H. }
  assert (Rint : forall z, int_safe z = true -> apply_all read_funs (PInt z) = Ok (PInt z)).
  { intros z H. apply (int_roundtrip_iff 0) in H. rewrite value_trip_atom in H by reflexivity.
    cbn -[dict_mapper dec_of_Z parse_uuid] in H. rewrite dict_mapper_scalar in H by reflexivity. exact H. }
  destruct a as [ | b | z | f | s | u | k u | p | t | l | l | d ]; try discriminate.
  - exists PNone, (PStr ""). repeat split; reflexivity.
  - exists (PBool b), (PBool b). destruct b; repeat split; reflexivity.
  - exists (PInt z), (PInt z). simpl in Hs. cbn [canon]. rewrite !(Rint z Hs). repeat split; reflexivity.
  - destruct f as [num dexp | | | np]; try discriminate.
    + exists (PFloat (FFin num dexp)), (PFloat (FFin num dexp)). repeat split; reflexivity.
    + exists (PFloat FPInf), (PStr "inf"). repeat split; reflexivity.
    + exists (PFloat FNInf), (PStr "-inf"). repeat split; reflexivity.
  - exists (PStr s), (PStr s). simpl in Hs. cbn [canon]. rewrite !(Rstr s Hs). repeat split; reflexivity.
  - simpl in Hs. unfold uuid_text_ok in Hs. apply andb_true_iff in Hs as [Hp Hg].
    change (("{" ++ uuid_text u) ++ "}")%string with (String "{" (uuid_text u ++ "}")) in Hp, Hg.
    destruct (parse_uuid (String "{" (uuid_text u ++ "}"))) as [w|] eqn:E; [|discriminate]. apply N.eqb_eq in Hp. subst w.
    exists (PStr (String "{" (uuid_text u ++ "}"))), (PStr (String "{" (uuid_text u ++ "}"))).
    rewrite uuid_demoted, uuid_written, (braced_read _ u E) by (apply negb_true_iff; exact Hg). repeat split; reflexivity.
  - simpl in Hs. unfold uuid_text_ok in Hs. apply andb_true_iff in Hs as [Hp Hg].
    change (("{" ++ uuid_text u) ++ "}")%string with (String "{" (uuid_text u ++ "}")) in Hp, Hg.
    destruct (parse_uuid (String "{" (uuid_text u ++ "}"))) as [w|] eqn:E; [|discriminate]. apply N.eqb_eq in Hp. subst w.
    exists (PStr (String "{" (uuid_text u ++ "}"))), (PStr (String "{" (uuid_text u ++ "}"))).
    rewrite ent_demoted, uuid_written, (braced_read _ u E) by (apply negb_true_iff; exact Hg). repeat split; reflexivity.
  - exists (PStr p), (PStr p).
    pose proof (atom_roundtrip 0 (PWs p) eq_refl Hs) as H. rewrite value_trip_atom in H by reflexivity.
    cbn -[dict_mapper] in H. rewrite dict_mapper_scalar in H by reflexivity.
    rewrite H. repeat split; reflexivity.
Qed.
Transparent uuid_text.

(* ---------------------------------------------------------------- the whole file *)
Definition gd := unwrap demote_funs.
Definition gw := unwrap write_funs.
Definition gr := unwrap read_funs.
Definition L3 (y : pv) : bool :=
  is_ok (apply_all read_funs y) && is_atom (gr y) && is_ok (apply_all read_funs (gr y)) && pv_same (gr y) (gr (gr y)).
Definition L2 (x : pv) : bool := is_ok (apply_all write_funs x) && is_atom (gw x) && json_atom (gw x) && L3 (gw x).

Lemma L3_facts y : is_atom y = true -> L3 y = true ->
  apply_all read_funs y = Ok (gr y) /\ is_atom (gr y) = true /\ L3 (gr y) = true /\ gr (gr y) = gr y.
Proof.
  intros _ H. unfold L3 in H. repeat (apply andb_true_iff in H as [H ?]).
  assert (E : gr (gr y) = gr y) by (symmetry; apply atom_same_eq; assumption).
  repeat split; try assumption; [apply unwrap_ok; exact H|].
  unfold L3. rewrite !E. rewrite H1, H2. rewrite atom_same_refl by assumption. reflexivity.
Qed.

Lemma safe_leaf a : is_atom a = true -> atom_safe a = true ->
  apply_all demote_funs a = Ok (gd a) /\ is_atom (gd a) = true /\ L2 (gd a) = true
  /\ is_atom (gw (gd a)) = true /\ json_atom (gw (gd a)) = true /\ L3 (gw (gd a)) = true /\ gr (gw (gd a)) = canon a.
Proof.
  intros Ha Hs. destruct (leaf_chain a Ha Hs) as (x & y & D & Ax & Wx & Ay & Jy & Ry & Ac & Rc).
  assert (Ex : gd a = x) by (apply unwrap_eq; exact D). assert (Ey : gw x = y) by (apply unwrap_eq; exact Wx).
  assert (Er : gr y = canon a) by (apply unwrap_eq; exact Ry). assert (Er2 : gr (canon a) = canon a) by (apply unwrap_eq; exact Rc).
  assert (H3 : L3 y = true).
  { unfold L3. rewrite Ry, Er, Rc, Er2, Ac. rewrite atom_same_refl by exact Ac. reflexivity. }
  rewrite Ex, Ey. repeat split; try assumption.
  unfold L2. rewrite Wx, Ey, Ay, Jy, H3. reflexivity.
Qed.

(* demote, stringify, json, numify on a whole ui.json dictionary: any nesting depth, any number of forms *)
Theorem file_roundtrip m d :
  tshape true atom_safe (PDict d) = true -> depth (PDict d) < m -> forms_pass true (text_tree (PDict d)) = true ->
  file_trip m (PDict d) = Ok (canon_tree (PDict d)).
Proof.
  intros Hs Hdep Hf. unfold file_trip.
  (* demote *)
  rewrite (demote_tree gd atom_safe (fun a A B => proj1 (safe_leaf a A B)) m d Hs Hdep). cbn [bind].
  destruct (tshape_tmap atom_safe L2 gd (fun a A B => conj (proj1 (proj2 (safe_leaf a A B))) (proj1 (proj2 (proj2 (safe_leaf a A B)))))
              m (PDict d) true Hdep Hs) as [S1 D1].
  (* stringify *)
  change (tmap gd (PDict d)) with (PDict (map (fun kv => (fst kv, tmap gd (snd kv))) d)) in *.
  set (d1 := map (fun kv => (fst kv, tmap gd (snd kv))) d) in *.
  rewrite (stringify_tree gw L2) with (m := m); [| | exact S1 | rewrite D1; lia].
  2:{ intros a A B. apply unwrap_ok. unfold L2 in B. repeat (apply andb_true_iff in B as [B ?]). exact B. }
  cbn [bind].
  assert (Hd1 : depth (PDict d1) < m) by (rewrite D1; exact Hdep).
  destruct (tshape_tmap L2 json_atom gw) with (m := m) (v := PDict d1) (tup := false) as [S2j D2]; [|exact Hd1|exact S1|].
  { intros a A B. unfold L2 in B. repeat (apply andb_true_iff in B as [B ?]). split; assumption. }
  destruct (tshape_tmap L2 L3 gw) with (m := m) (v := PDict d1) (tup := false) as [S2 _]; [|exact Hd1|exact S1|].
  { intros a A B. unfold L2 in B. repeat (apply andb_true_iff in B as [B ?]). split; assumption. }
  (* json *)
  rewrite (json_tree json_atom (fun a _ B => B) m (tmap gw (PDict d1))) by (try exact S2j; rewrite D2; exact Hd1). cbn [bind].
  (* the text on disk is text_tree (PDict d) *)
  assert (Et : tmap gw (PDict d1) = text_tree (PDict d)).
  { unfold text_tree, text_leaf. fold gw gd. unfold d1. change (PDict (map (fun kv => (fst kv, tmap gd (snd kv))) d)) with (tmap gd (PDict d)).
    apply (tmap_tmap atom_safe gd gw (fun a A B => proj1 (proj2 (safe_leaf a A B))) m (PDict d) true Hdep Hs). }
  (* numify *)
  change (tmap gw (PDict d1)) with (PDict (map (fun kv => (fst kv, tmap gw (snd kv))) d1)) in *.
  rewrite (numify_tree gr L3 L3_facts m _ S2); [| rewrite Et; exact Hf | rewrite D2; exact Hd1].
  f_equal. rewrite Et. unfold text_tree, canon_tree.
  rewrite (tmap_tmap atom_safe text_leaf gr) with (m := m) (tup := true); [| | exact Hdep | exact Hs].
  2:{ intros a A B. unfold text_leaf. fold gd gw. apply (safe_leaf a A B). }
  apply (tmap_ext atom_safe) with (m := m) (tup := true); [| exact Hdep | exact Hs].
  intros a A B. unfold text_leaf. fold gd gw. apply (safe_leaf a A B).
Qed.
