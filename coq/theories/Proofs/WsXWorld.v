(* Two workspaces: the invariant, re-open, frame across workspaces, shape of copies (C01 / C02 / C09 / C12 flavour). *)
From GV Require Import Prelude.Base Model.WsX Model.WsXSpec Proofs.WsXFile Proofs.WsXTree Proofs.WsXProofs.
From Coq Require Import Permutation.

(* Proofs/WsXFile.v has a helper also called [wstep] (one block of a scrub): here [wstep] is the world step of the model *)
Local Notation wstep := WsX.wstep.

(* ======================================================================================================== *)
(* W3 — frame across workspaces                                                                              *)
(* ======================================================================================================== *)
Lemma wsel_wput_same i w W : wsel i (wput i w W) = w.
Proof. destruct i; reflexivity. Qed.
Lemma wsel_wput_other i w W : wsel (negb i) (wput i w W) = wsel (negb i) W.
Proof. destruct i; reflexivity. Qed.
Lemma wsel_wput_other' i w W : wsel i (wput (negb i) w W) = wsel i W.
Proof. destruct i; reflexivity. Qed.

Lemma wstep_on i o W : fst (wstep W (On i o)) = wput i (fst (step (wsel i W) o)) W /\
                       snd (wstep W (On i o)) = snd (step (wsel i W) o).
Proof. unfold wstep. destruct (step (wsel i W) o) as [w' oc]. split; reflexivity. Qed.

Lemma wstep_copyx i e q ids W :
  fst (wstep W (CopyX i e q ids)) = wput (negb i) (fst (do_copy_x (wsel i W) (wsel (negb i) W) e q ids)) W /\
  snd (wstep W (CopyX i e q ids)) = snd (do_copy_x (wsel i W) (wsel (negb i) W) e q ids).
Proof. unfold wstep. destruct (do_copy_x (wsel i W) (wsel (negb i) W) e q ids) as [w' oc]. split; reflexivity. Qed.

(* an operation of one workspace leaves the other workspace -- tree, file, registries -- equal *)
Theorem wstep_on_other : forall W i o, wsel (negb i) (fst (wstep W (On i o))) = wsel (negb i) W.
Proof. intros W i o. rewrite (proj1 (wstep_on i o W)). apply wsel_wput_other. Qed.

(* a cross-workspace copy leaves the SOURCE workspace equal: the source entity, its children, the source file *)
Theorem wstep_copyx_source : forall W i e q ids, wsel i (fst (wstep W (CopyX i e q ids))) = wsel i W.
Proof. intros W i e q ids. rewrite (proj1 (wstep_copyx i e q ids W)). apply wsel_wput_other'. Qed.

(* the keys a cross-workspace copy creates in the target *)
Definition copyx_keys (src tgt : ws) (e : key) (ids : list N) : list key :=
  match find e (wmem src) with
  | Some te => match copy_x (map snd (keys_of (wmem tgt))) (all_pg_ids (wmem tgt)) te ids with
               | Some (t', _, _, _) => keys_of t'
               | None => []
               end
  | None => []
  end.

Lemma do_copy_x_frame src tgt e q ids x : ~ In x (q :: copyx_keys src tgt e ids) ->
  fget x (flat (wfile (fst (do_copy_x src tgt e q ids)))) = fget x (flat (wfile tgt)).
Proof.
  intros Hx. unfold do_copy_x, copyx_keys in *.
  destruct (find e (wmem src)) as [te|]; [|reflexivity].
  destruct (find q (wmem tgt)); [|reflexivity].
  destruct (negb (can_hold (fst q) (fst e)) || key_eqb e rootkey); [reflexivity|].
  destruct (copy_x (map snd (keys_of (wmem tgt))) (all_pg_ids (wmem tgt)) te ids) as [[[[t' u'] pu'] [|j r]]|]; try reflexivity.
  simpl. apply save_copy_frame; [intros ->; apply Hx; left; reflexivity | intros Hk; apply Hx; right; exact Hk].
Qed.

Lemma do_copy_x_rootlink src tgt e q ids :
  rootlink (wfile (fst (do_copy_x src tgt e q ids))) = rootlink (wfile tgt).
Proof.
  unfold do_copy_x.
  destruct (find e (wmem src)) as [te|]; [|reflexivity].
  destruct (find q (wmem tgt)); [|reflexivity].
  destruct (negb (can_hold (fst q) (fst e)) || key_eqb e rootkey); [reflexivity|].
  destruct (copy_x (map snd (keys_of (wmem tgt))) (all_pg_ids (wmem tgt)) te ids) as [[[[t' u'] pu'] [|j r]]|]; try reflexivity.
  simpl. apply save_copy_rootlink.
Qed.

(* in the target every flat node outside the new parent and the nodes the copy creates is unchanged; so is the Root link *)
Theorem wstep_copyx_target_frame : forall W i e q ids x,
  ~ In x (q :: copyx_keys (wsel i W) (wsel (negb i) W) e ids) ->
  fget x (flat (wfile (wsel (negb i) (fst (wstep W (CopyX i e q ids)))))) = fget x (flat (wfile (wsel (negb i) W))).
Proof.
  intros W i e q ids x Hx. rewrite (proj1 (wstep_copyx i e q ids W)), wsel_wput_same. apply do_copy_x_frame. exact Hx.
Qed.

Theorem wstep_copyx_target_rootlink : forall W i e q ids,
  rootlink (wfile (wsel (negb i) (fst (wstep W (CopyX i e q ids))))) = rootlink (wfile (wsel (negb i) W)).
Proof.
  intros W i e q ids. rewrite (proj1 (wstep_copyx i e q ids W)), wsel_wput_same. apply do_copy_x_rootlink.
Qed.

(* ======================================================================================================== *)
(* list forms of the nested fixpoints of copy_x                                                              *)
(* ======================================================================================================== *)
Fixpoint cx_list (l : list tree) (st : list N * list N * list N) : option (list tree * list N * list N * list N) :=
  match l with
  | [] => let '(u, pu, r) := st in Some ([], u, pu, r)
  | c :: rest =>
      let '(u, pu, r) := st in
      match copy_x u pu c r with
      | Some (c', u', pu', r') =>
          match cx_list rest (u', pu', r') with
          | Some (l', u'', pu'', r'') => Some (c' :: l', u'', pu'', r'')
          | None => None
          end
      | None => None
      end
  end.

Fixpoint cx_kids (l : list tree) (st : list N * list N) : option (list (tree * key) * list N * list N) :=
  match l with
  | [] => Some ([], fst st, snd st)
  | c :: rest =>
      match pick (fst st) (snd (tkey c)) (snd st) with
      | Some (j, r) =>
          match cx_kids rest (j :: fst st, r) with
          | Some (l', u', r') => Some ((Node (KD, j) (with_pgs (tattrs c) []) [], tkey c) :: l', u', r')
          | None => None
          end
      | None => None
      end
  end.

Fixpoint cx_pgs (cmap : list (key * key)) (gs : list pgroup) (st : list N * list N) : option (list pgroup * list N * list N) :=
  match gs with
  | [] => Some ([], fst st, snd st)
  | g :: rest =>
      match pick (fst st) (pg_id g) (snd st) with
      | Some (j, r) =>
          match cx_pgs cmap rest (j :: fst st, r) with
          | Some (gs', pu', r'') => Some ((j, pg_name g, remap cmap (pg_members g)) :: gs', pu', r'')
          | None => None
          end
      | None => None
      end
  end.

Definition kid_cmap (kids : list (tree * key)) : list (key * key) := map (fun p => (snd p, tkey (fst p))) kids.

Lemma copy_x_eq used pgused k a l ids :
  copy_x used pgused (Node k a l) ids =
  match pick used (snd k) ids with
  | None => None
  | Some (i, ids1) =>
      match fst k with
      | KD => Some (Node (KD, i) (with_pgs a []) [], i :: used, pgused, ids1)
      | KG => match cx_list l (i :: used, pgused, ids1) with
              | Some (l', u', pu', r') => Some (Node (KG, i) (with_pgs a []) l', u', pu', r')
              | None => None
              end
      | KO => match cx_kids l (i :: used, ids1) with
              | Some (kids, u', r') =>
                  match cx_pgs (kid_cmap kids) (apgs a) (pgused, r') with
                  | Some (pgs', pu', r'') => Some (Node (KO, i) (with_pgs a pgs') (map fst kids), u', pu', r'')
                  | None => None
                  end
              | None => None
              end
      end
  end.
Proof.
  simpl. destruct (pick used (snd k) ids) as [[i ids1]|]; [|reflexivity]. destruct (fst k).
  - match goal with |- match ?X with _ => _ end = _ => replace X with (cx_list l (i :: used, pgused, ids1)); [reflexivity|] end.
    generalize (i :: used, pgused, ids1) as st. induction l as [|c r IH]; intros [[u pu] rr]; simpl; [reflexivity|].
    destruct (copy_x u pu c rr) as [[[[c' u'] pu'] r']|]; [|reflexivity]. rewrite IH. reflexivity.
  - match goal with |- match ?X with _ => _ end = _ => replace X with (cx_kids l (i :: used, ids1)) end.
    + destruct (cx_kids l (i :: used, ids1)) as [[[kids u'] r']|]; [|reflexivity].
      match goal with |- match ?X with _ => _ end = _ => replace X with (cx_pgs (kid_cmap kids) (apgs a) (pgused, r')); [reflexivity|] end.
      generalize (pgused, r') as st. induction (apgs a) as [|g gs IH]; intros st; simpl; [reflexivity|].
      destruct (pick (fst st) (pg_id g) (snd st)) as [[j r]|]; [|reflexivity]. rewrite IH. reflexivity.
    + generalize (i :: used, ids1) as st. induction l as [|c r IH]; intros st; simpl; [reflexivity|].
      destruct (pick (fst st) (snd (tkey c)) (snd st)) as [[j rr]|]; [|reflexivity]. rewrite IH. reflexivity.
  - reflexivity.
Qed.

Global Opaque copy_x.

(* ======================================================================================================== *)
(* W6 — apart from the Set* target no existing node's name / flag / array token is ever rewritten            *)
(* ======================================================================================================== *)
Definition scal (n : fnode) : N * bool * N := (aname (fattrs n), adel (fattrs n), aarr (fattrs n)).

(* existing nodes persist, with the same scalars unless in T *)
Definition keepS (T : list key) (f f' : file) : Prop :=
  forall x n, fget x (flat f) = Some n -> exists n', fget x (flat f') = Some n' /\ (In x T \/ scal n' = scal n).
(* every node of f' was in f with the same scalars *)
Definition backS (f f' : file) : Prop :=
  forall x n', fget x (flat f') = Some n' -> exists n, fget x (flat f) = Some n /\ scal n' = scal n.

Lemma keepS_refl T f : keepS T f f.
Proof. intros x n H. exists n. split; [exact H | right; reflexivity]. Qed.
Lemma keepS_trans T f1 f2 f3 : keepS T f1 f2 -> keepS T f2 f3 -> keepS T f1 f3.
Proof.
  intros H1 H2 x n Hx. destruct (H1 x n Hx) as [n2 [Hx2 E2]]. destruct (H2 x n2 Hx2) as [n3 [Hx3 E3]].
  exists n3. split; [exact Hx3|]. destruct E2 as [E2|E2]; [left; exact E2|]. destruct E3 as [E3|E3]; [left; exact E3 | right; congruence].
Qed.
Lemma backS_refl f : backS f f.
Proof. intros x n H. exists n. split; [exact H | reflexivity]. Qed.
Lemma backS_trans f1 f2 f3 : backS f1 f2 -> backS f2 f3 -> backS f1 f3.
Proof.
  intros H1 H2 x n3 Hx. destruct (H2 x n3 Hx) as [n2 [Hx2 E2]]. destruct (H1 x n2 Hx2) as [n1 [Hx1 E1]].
  exists n1. split; [exact Hx1 | congruence].
Qed.

(* rewriting one existing node / adding a new one *)
Lemma keepS_set T f f' y ny n' : fget y (flat f) = Some ny -> fget y (flat f') = Some n' ->
  (forall x, x <> y -> fget x (flat f') = fget x (flat f)) -> In y T \/ scal n' = scal ny -> keepS T f f'.
Proof.
  intros Hy Hy' Hfr E x n Hx. destruct (key_dec x y) as [->|Hne].
  - exists n'. split; [exact Hy'|]. rewrite Hy in Hx. inversion Hx; subst. exact E.
  - exists n. split; [rewrite Hfr by exact Hne; exact Hx | right; reflexivity].
Qed.
Lemma keepS_new T f f' y : fget y (flat f) = None ->
  (forall x, x <> y -> fget x (flat f') = fget x (flat f)) -> keepS T f f'.
Proof.
  intros Hy Hfr x n Hx. assert (Hne : x <> y) by (intros ->; congruence).
  exists n. split; [rewrite Hfr by exact Hne; exact Hx | right; reflexivity].
Qed.
Lemma backS_set f f' y ny n' : fget y (flat f) = Some ny -> fget y (flat f') = Some n' ->
  (forall x, x <> y -> fget x (flat f') = fget x (flat f)) -> scal n' = scal ny -> backS f f'.
Proof.
  intros Hy Hy' Hfr E x n Hx. destruct (key_dec x y) as [->|Hne].
  - exists ny. split; [exact Hy|]. rewrite Hy' in Hx. inversion Hx; subst. exact E.
  - exists n. split; [rewrite <- Hfr by exact Hne; exact Hx | reflexivity].
Qed.

Lemma keepS_w_entity T x a f : keepS T f (w_entity x a f).
Proof.
  destruct (fget x (flat f)) as [n|] eqn:E.
  - rewrite (w_entity_old _ _ _ _ E). apply keepS_refl.
  - apply keepS_new with (y := x); [exact E | intros y Hy; apply w_entity_frame; exact Hy].
Qed.
Lemma keepS_w_link T p x f : keepS T f (w_link p x f).
Proof.
  unfold w_link. destruct (fget p (flat f)) as [pn|] eqn:Ep; [|apply keepS_refl].
  destruct (fget x (flat f)) as [xn|] eqn:Ex; [|apply keepS_refl].
  destruct (lget x (flinks pn)); [apply keepS_refl|].
  eapply keepS_set with (y := p); [exact Ep | simpl; apply fget_fset_same | intros y Hy; simpl; apply fget_fset_other; exact Hy | right; reflexivity].
Qed.
Lemma keepS_w_unlink T p x f : keepS T f (w_unlink p x f).
Proof.
  unfold w_unlink. destruct (fget p (flat f)) as [pn|] eqn:Ep; [|apply keepS_refl].
  eapply keepS_set with (y := p); [exact Ep | simpl; apply fget_fset_same | intros y Hy; simpl; apply fget_fset_other; exact Hy | right; reflexivity].
Qed.
Lemma backS_w_unlink p x f : backS f (w_unlink p x f).
Proof.
  unfold w_unlink. destruct (fget p (flat f)) as [pn|] eqn:Ep; [|apply backS_refl].
  eapply backS_set with (y := p); [exact Ep | simpl; apply fget_fset_same | intros y Hy; simpl; apply fget_fset_other; exact Hy | reflexivity].
Qed.
Lemma keepS_w_pgs T x a f : keepS T f (w_pgs x a f).
Proof.
  unfold w_pgs. destruct (fget x (flat f)) as [n|] eqn:E; [|apply keepS_refl].
  eapply keepS_set with (y := x); [exact E | simpl; apply fget_fset_same | intros y Hy; simpl; apply fget_fset_other; exact Hy | right; reflexivity].
Qed.
Lemma backS_w_pgs x a f : backS f (w_pgs x a f).
Proof.
  unfold w_pgs. destruct (fget x (flat f)) as [n|] eqn:E; [|apply backS_refl].
  eapply backS_set with (y := x); [exact E | simpl; apply fget_fset_same | intros y Hy; simpl; apply fget_fset_other; exact Hy | reflexivity].
Qed.
Lemma keepS_w_pg_put T x g f : keepS T f (w_pg_put x g f).
Proof. unfold w_pg_put. destruct (fget x (flat f)); [apply keepS_w_pgs | apply keepS_refl]. Qed.
Lemma keepS_w_pg_del T x g f : keepS T f (w_pg_del x g f).
Proof. unfold w_pg_del. destruct (fget x (flat f)); [apply keepS_w_pgs | apply keepS_refl]. Qed.
Lemma backS_w_pg_put x g f : backS f (w_pg_put x g f).
Proof. unfold w_pg_put. destruct (fget x (flat f)); [apply backS_w_pgs | apply backS_refl]. Qed.
Lemma backS_w_pg_del x g f : backS f (w_pg_del x g f).
Proof. unfold w_pg_del. destruct (fget x (flat f)); [apply backS_w_pgs | apply backS_refl]. Qed.

Lemma keepS_w_scrub T x c M : forall f, keepS T f (w_scrub x c M f).
Proof.
  intros f. rewrite w_scrub_eq. revert f. induction M as [|g M IH]; intros f; simpl; [apply keepS_refl|].
  eapply keepS_trans; [|apply IH]. unfold WsXFile.wstep. destruct (mem_key c (pg_members g)); [|apply keepS_refl].
  destruct (rm_member c (pg_members g)); [apply keepS_w_pg_del | apply keepS_w_pg_put].
Qed.
Lemma backS_w_scrub x c M : forall f, backS f (w_scrub x c M f).
Proof.
  intros f. rewrite w_scrub_eq. revert f. induction M as [|g M IH]; intros f; simpl; [apply backS_refl|].
  eapply backS_trans; [|apply IH]. unfold WsXFile.wstep. destruct (mem_key c (pg_members g)); [|apply backS_refl].
  destruct (rm_member c (pg_members g)); [apply backS_w_pg_del | apply backS_w_pg_put].
Qed.
Lemma keepS_kd_wscrub T p k ppgs f : keepS T f (kd_wscrub p k ppgs f).
Proof. unfold kd_wscrub. destruct (fst k); try apply keepS_refl. apply keepS_w_scrub. Qed.
Lemma backS_kd_wscrub p k ppgs f : backS f (kd_wscrub p k ppgs f).
Proof. unfold kd_wscrub. destruct (fst k); try apply backS_refl. apply backS_w_scrub. Qed.

Lemma backS_w_delete x f : NoDup (map fst (flat f)) -> backS f (w_delete x f).
Proof.
  intros Hn y n Hy. simpl in Hy. rewrite (fget_fdel x y _ Hn) in Hy. destruct (key_eqb y x); [discriminate|].
  exists n. split; [exact Hy | reflexivity].
Qed.
Lemma backS_del_all D : forall f, NoDup (map fst (flat f)) -> backS f (del_all D f).
Proof.
  induction D as [|x D IH]; intros f Hn; [apply backS_refl|]. rewrite del_all_cons.
  eapply backS_trans; [apply backS_w_delete; exact Hn | apply IH; apply w_delete_nodup; exact Hn].
Qed.

Lemma keepS_w_scalars x a f : keepS [x] f (w_scalars x a f).
Proof.
  unfold w_scalars. destruct (fget x (flat f)) as [n|] eqn:E; [|apply keepS_refl].
  eapply keepS_set with (y := x); [exact E | simpl; apply fget_fset_same | intros y Hy; simpl; apply fget_fset_other; exact Hy | left; left; reflexivity].
Qed.
Lemma keepS_w_array x a f : keepS [x] f (w_array x a f).
Proof.
  unfold w_array. destruct (fget x (flat f)) as [n|] eqn:E; [|apply keepS_refl].
  eapply keepS_set with (y := x); [exact E | simpl; apply fget_fset_same | intros y Hy; simpl; apply fget_fset_other; exact Hy | left; left; reflexivity].
Qed.

Lemma keepS_fold {A} T (step : file -> A -> file) l : (forall f a, keepS T f (step f a)) -> forall f, keepS T f (fold_left step l f).
Proof.
  intros H. induction l as [|a r IH]; intros f; simpl; [apply keepS_refl|]. eapply keepS_trans; [apply H | apply IH].
Qed.

Lemma keepS_save_tree T t : forall p f, keepS T f (save_tree p t f).
Proof.
  induction t as [k a l IH] using tree_ind'. intros p f. rewrite save_tree_eq.
  apply keepS_trans with (f2 := w_entity k a f); [apply keepS_w_entity|]. eapply keepS_trans; [|apply keepS_w_link].
  generalize (w_entity k a f) as g. unfold save_kids. induction IH as [|c r Hc Hr IHr]; intros g; simpl; [apply keepS_refl|].
  eapply keepS_trans; [apply Hc | apply IHr].
Qed.

Lemma keepS_put_pgs T k a f : keepS T f (put_pgs k a f).
Proof. unfold put_pgs. destruct (apgs a); [apply keepS_refl | apply keepS_w_pgs]. Qed.

Lemma keepS_save_copy T t : forall p f, keepS T f (save_copy p t f).
Proof.
  induction t as [k a l IH] using tree_ind'. intros p f. rewrite save_copy_eq.
  apply keepS_trans with (f2 := w_entity k (with_pgs a []) f); [apply keepS_w_entity|].
  apply keepS_trans with (f2 := w_link p k (w_entity k (with_pgs a []) f)); [apply keepS_w_link|].
  eapply keepS_trans; [|apply keepS_put_pgs].
  eapply keepS_trans; [|unfold put_all; apply keepS_fold; intros; apply keepS_w_pg_put].
  generalize (w_link p k (w_entity k (with_pgs a []) f)) as g. unfold copy_kids.
  induction IH as [|c r Hc Hr IHr]; intros g; simpl; [apply keepS_refl|].
  eapply keepS_trans; [apply Hc | apply IHr].
Qed.

Definition rm_back (t : tree) : Prop := forall p ppgs f, NoDup (map fst (flat f)) ->
  backS f (fst (rm_ws p ppgs t f)) /\ NoDup (map fst (flat (fst (rm_ws p ppgs t f)))).

Lemma rm_list_back k l : Forall rm_back l -> forall st, NoDup (map fst (flat (fst st))) ->
  backS (fst st) (fst (fst (rm_list k l st))) /\ NoDup (map fst (flat (fst (fst (rm_list k l st))))).
Proof.
  intros H. induction H as [|c r Hc Hr IH]; intros [f pgs] Hn; simpl; [split; [apply backS_refl | exact Hn]|].
  destruct (Hc k pgs f Hn) as [B1 N1]. destruct (rm_ws k pgs c f) as [f' ok]. simpl in B1, N1.
  destruct ok; simpl; [|split; assumption].
  destruct (IH (f', kd_scrub (tkey c) pgs) N1) as [B2 N2]. simpl in B2. split; [eapply backS_trans; eassumption | exact N2].
Qed.

Lemma rm_ws_back t : rm_back t.
Proof.
  induction t as [k a l IH] using tree_ind'. intros p ppgs f Hn. rewrite rm_ws_eq.
  destruct (negb (adel a)); [split; [apply backS_refl | exact Hn]|].
  destruct (rm_list_back k l IH (f, apgs a) Hn) as [B1 N1]. destruct (rm_list k l (f, apgs a)) as [[f1 pgs1] ok].
  simpl in B1, N1. destruct ok; simpl; [|split; assumption].
  assert (N2 : NoDup (map fst (flat (w_unlink p k (kd_wscrub p k ppgs f1))))) by (apply w_unlink_nodup; apply kd_wscrub_nodup; exact N1).
  split; [|apply fdel_keys_NoDup; exact N2].
  eapply backS_trans; [exact B1|]. eapply backS_trans; [apply backS_kd_wscrub|].
  eapply backS_trans; [apply backS_w_unlink|]. apply (backS_w_delete k _ N2).
Qed.

Lemma keepS_use T f f' x n n' : keepS T f f' -> ~ In x T -> fget x (flat f) = Some n -> fget x (flat f') = Some n' -> scal n' = scal n.
Proof.
  intros H Hx Hn Hn'. destruct (H x n Hn) as [n2 [E2 [E|E]]]; [contradiction|]. rewrite Hn' in E2. inversion E2; subst. exact E.
Qed.
Lemma backS_use f f' x n n' : backS f f' -> fget x (flat f) = Some n -> fget x (flat f') = Some n' -> scal n' = scal n.
Proof.
  intros H Hn Hn'. destruct (H x n' Hn') as [n2 [E2 E]]. rewrite Hn in E2. inversion E2; subst. exact E.
Qed.

Theorem step_scal : forall w o x n n',
  NoDup (map fst (flat (wfile w))) -> (forall k, In k (wpend w) -> ~ In k (keys_of (wmem w))) ->
  fget x (flat (wfile w)) = Some n -> fget x (flat (wfile (fst (step w o)))) = Some n' ->
  ~ In x (content_targets w o) -> scal n' = scal n.
Proof.
  intros w o x n n' Hnd Hpt Hn Hn' Hx.
  destruct o as [k u p nm ar | e nn | e b | e v | e q | e | e | k | | o g nm ms | o g | e q ids]; unfold step in Hn'.
  - (* Create *) eapply keepS_use with (T := []); [| intros [] | exact Hn | exact Hn'].
    unfold do_create. destruct (find p (wmem w)); [|apply keepS_refl].
    destruct (negb (can_hold (fst p) k) || mem_key (k, u) (keys_of (wmem w))); [apply keepS_refl|]. simpl.
    eapply keepS_trans; [apply keepS_w_entity | apply keepS_w_link].
  - eapply keepS_use with (T := [e]); [| exact Hx | exact Hn | exact Hn'].
    unfold do_set. destruct (find e (wmem w)); [|apply keepS_refl].
    destruct (key_eqb e rootkey); [apply keepS_refl|]. simpl. apply keepS_w_scalars.
  - eapply keepS_use with (T := [e]); [| exact Hx | exact Hn | exact Hn'].
    unfold do_set. destruct (find e (wmem w)); [|apply keepS_refl].
    destruct (key_eqb e rootkey); [apply keepS_refl|]. simpl. apply keepS_w_scalars.
  - eapply keepS_use with (T := [e]); [| exact Hx | exact Hn | exact Hn'].
    unfold do_set. destruct (find e (wmem w)); [|apply keepS_refl].
    destruct (key_eqb e rootkey); [apply keepS_refl|]. simpl. apply keepS_w_array.
  - (* Move *) eapply keepS_use with (T := []); [| intros [] | exact Hn | exact Hn'].
    unfold do_move. destruct (find e (wmem w)) as [te|]; [|apply keepS_refl].
    destruct (find q (wmem w)); [|apply keepS_refl].
    destruct (parent_of e (wmem w)) as [p|]; [|apply keepS_refl].
    destruct (negb (can_hold (fst q) (fst e)) || mem_key q (keys_of te)); [apply keepS_refl|].
    destruct (key_eqb p q); [apply keepS_refl|]. simpl.
    eapply keepS_trans; [|apply keepS_save_tree]. eapply keepS_trans; [|apply keepS_w_unlink].
    destruct (fst e); try apply keepS_refl. apply keepS_w_scrub.
  - (* RemoveWs *) destruct (key_eqb e rootkey); [simpl in Hn'; congruence|].
    eapply backS_use; [| exact Hn | exact Hn']. unfold do_remove_ws.
    destruct (find e (wmem w)) as [te|]; [|apply backS_refl].
    destruct (parent_of e (wmem w)) as [p|]; [|apply backS_refl]. cbv zeta.
    match goal with |- context [rm_ws p ?pp te (wfile w)] => destruct (rm_ws_back te p pp (wfile w) Hnd) as [B _];
      destruct (rm_ws p pp te (wfile w)) as [f' ok] end.
    destruct (rm_ws_done te) as [gone b]. exact B.
  - (* RemoveParent *) destruct (key_eqb e rootkey); [simpl in Hn'; congruence|].
    eapply keepS_use with (T := []); [| intros [] | exact Hn | exact Hn']. unfold do_remove_parent.
    destruct (find e (wmem w)) as [te|]; [|apply keepS_refl].
    destruct (parent_of e (wmem w)) as [p|]; [|apply keepS_refl]. simpl.
    eapply keepS_trans; [|apply keepS_w_unlink]. destruct (fst e); try apply keepS_refl. apply keepS_w_scrub.
  - (* Sweep *) eapply backS_use; [| exact Hn | exact Hn']. simpl. apply backS_del_all. exact Hnd.
  - (* Reopen *) rewrite reopen_file, close_file_file in Hn'.
    destruct (fget x (flat (sweep_file w KG))) as [n1|] eqn:E1.
    + pose proof E1 as E1'. unfold sweep_file in E1'. apply del_all_Some in E1'; [|exact Hnd]. destruct E1' as [_ E1'].
      rewrite Hn in E1'. inversion E1'; subst n1.
      eapply keepS_use with (T := []); [| intros [] | exact E1 | exact Hn'].
      eapply keepS_trans; [apply keepS_w_entity|].
      unfold save_kids. apply keepS_fold. intros f0 c. apply keepS_save_tree.
    + exfalso. destruct (wmem w) as [k a l] eqn:Em. simpl in Hn'.
      destruct (in_dec key_dec x (k :: flat_map keys_of l)) as [Hin|Hin].
      * assert (Hd : In x (filter (fun y => kind_eqb (fst y) KG) (wpend w))).
        { destruct (in_dec key_dec x (filter (fun y => kind_eqb (fst y) KG) (wpend w))) as [H|H]; [exact H|].
          unfold sweep_file in E1. rewrite del_all_frame in E1 by exact H. congruence. }
        apply filter_In in Hd. apply (Hpt x (proj1 Hd)). exact Hin.
      * rewrite save_kids_frame' in Hn'; [| intros ->; apply Hin; left; reflexivity | intros H; apply Hin; right; exact H].
        rewrite w_entity_frame in Hn' by (intros ->; apply Hin; left; reflexivity). congruence.
  - (* PgAdd *) eapply keepS_use with (T := []); [| intros [] | exact Hn | exact Hn'].
    unfold do_pg_add. destruct (find o (wmem w)) as [t|]; [|apply keepS_refl].
    destruct (negb (kind_eqb (fst o) KO)); [apply keepS_refl|].
    destruct (filter (fun m => kind_eqb (fst m) KD && mem_key m (kid_keys t)) ms); [apply keepS_refl|]. simpl.
    apply keepS_w_pg_put.
  - (* PgRemove *) eapply keepS_use with (T := []); [| intros [] | exact Hn | exact Hn'].
    unfold do_pg_remove. destruct (find o (wmem w)) as [t|]; [|apply keepS_refl].
    destruct (existsb (fun h => N.eqb (pg_id h) g) (apgs (tattrs t))); [|apply keepS_refl]. simpl. apply keepS_w_pg_del.
  - (* Copy *) eapply keepS_use with (T := []); [| intros [] | exact Hn | exact Hn'].
    unfold do_copy. destruct (find e (wmem w)) as [te|]; [|apply keepS_refl].
    destruct (find q (wmem w)); [|apply keepS_refl].
    destruct (negb (can_hold (fst q) (fst e)) || mem_key q (keys_of te) || key_eqb e rootkey); [apply keepS_refl|].
    destruct (copy_sub te ids) as [[t' [|i r]]|]; try apply keepS_refl.
    destruct (existsb (fun k => mem_key k (keys_of (wmem w))) (keys_of t')); [apply keepS_refl|]. simpl.
    apply keepS_save_copy.
Qed.

Theorem step_scalars : forall w o x n n',
  NoDup (map fst (flat (wfile w))) -> (forall k, In k (wpend w) -> ~ In k (keys_of (wmem w))) ->
  fget x (flat (wfile w)) = Some n -> fget x (flat (wfile (fst (step w o)))) = Some n' ->
  ~ In x (content_targets w o) ->
  aname (fattrs n') = aname (fattrs n) /\ adel (fattrs n') = adel (fattrs n) /\ aarr (fattrs n') = aarr (fattrs n).
Proof.
  intros w o x n n' H1 H2 H3 H4 H5. pose proof (step_scal w o x n n' H1 H2 H3 H4 H5) as E.
  unfold scal in E. inversion E. repeat split; assumption.
Qed.

(* at every state reached by a history without stale identifier re-use *)
Theorem step_scalars_run : forall ops o x n n', fresh_run ops init = true ->
  let w := run ops init in
  fget x (flat (wfile w)) = Some n -> fget x (flat (wfile (fst (step w o)))) = Some n' ->
  ~ In x (content_targets w o) ->
  aname (fattrs n') = aname (fattrs n) /\ adel (fattrs n') = adel (fattrs n) /\ aarr (fattrs n') = aarr (fattrs n).
Proof.
  intros ops o x n n' Hf w. pose proof (rep_run_from ops init [] rep_init_app Hf) as R. fold w in R.
  apply step_scalars; [exact (rep_flatnd _ _ _ R)|].
  intros k Hk. apply (rep_pend _ _ _ R). apply in_or_app. left. exact Hk.
Qed.

(* ======================================================================================================== *)
(* W1 — what copy_x builds                                                                                   *)
(* ======================================================================================================== *)
Lemma memN_In x l : memN x l = true <-> In x l.
Proof.
  unfold memN. rewrite existsb_exists. split.
  - intros [y [Hy E]]. apply N.eqb_eq in E. subst. exact Hy.
  - intros H. exists x. split; [exact H | apply N.eqb_refl].
Qed.
Lemma memN_false x l : memN x l = false <-> ~ In x l.
Proof. rewrite <- memN_In. destruct (memN x l); split; congruence. Qed.

Lemma pick_spec used src ids i ids1 : pick used src ids = Some (i, ids1) ->
  (i = src /\ ids1 = ids /\ ~ In src used) \/ (In src used /\ ids = i :: ids1).
Proof.
  unfold pick. destruct (memN src used) eqn:E.
  - destruct ids as [|j r]; [discriminate|]. intros H; inversion H; subst. right. split; [apply memN_In; exact E | reflexivity].
  - intros H; inversion H; subst. left. split; [reflexivity|]. split; [reflexivity | apply memN_false; exact E].
Qed.

(* the identifiers still to draw are pairwise distinct and avoid: entity identifiers in use, group identifiers in use,
   the entity identifiers and the group identifiers of the source subtree *)
Definition cx_pre (used pgused srcK srcG ids : list N) : Prop :=
  NoDup ids /\ forall j, In j ids -> ~ In j used /\ ~ In j pgused /\ ~ In j srcK /\ ~ In j srcG.

Lemma cx_pre_suffix used pgused srcK srcG D r : cx_pre used pgused srcK srcG (D ++ r) -> cx_pre used pgused srcK srcG r.
Proof.
  intros [H1 H2]. apply nodup_app_iff in H1. split; [apply H1|]. intros j Hj. apply H2. apply in_or_app. right. exact Hj.
Qed.

Lemma pick_pre_k used pgused srcK srcG src ids i ids1 :
  pick used src ids = Some (i, ids1) -> In src srcK -> cx_pre used pgused srcK srcG ids ->
  exists D, ids = D ++ ids1 /\ (forall y, In y D -> y = i) /\ (In i D \/ In i srcK) /\ ~ In i used /\
            cx_pre (i :: used) pgused srcK srcG ids1.
Proof.
  intros Hp Hs [Hn Ha]. destruct (pick_spec _ _ _ _ _ Hp) as [[-> [-> Hfree]]|[Hin ->]].
  - exists []. split; [reflexivity|]. split; [intros y []|]. split; [right; exact Hs|]. split; [exact Hfree|].
    split; [exact Hn|]. intros j Hj. destruct (Ha j Hj) as [A1 [A2 [A3 A4]]].
    split; [intros [E|E]; [subst j; exact (A3 Hs) | exact (A1 E)]|]. repeat split; assumption.
  - exists [i]. split; [reflexivity|]. split; [intros y [E|[]]; congruence|]. split; [left; left; reflexivity|].
    split; [apply (Ha i); left; reflexivity|]. inversion Hn as [|? ? Hi Hn']; subst.
    split; [exact Hn'|]. intros j Hj. destruct (Ha j (or_intror Hj)) as [A1 [A2 [A3 A4]]].
    split; [intros [E|E]; [subst j; exact (Hi Hj) | exact (A1 E)]|]. repeat split; assumption.
Qed.

Lemma pick_pre_g used pgused srcK srcG src ids i ids1 :
  pick pgused src ids = Some (i, ids1) -> In src srcG -> cx_pre used pgused srcK srcG ids ->
  exists D, ids = D ++ ids1 /\ (forall y, In y D -> y = i) /\ (In i D \/ In i srcG) /\ ~ In i pgused /\
            cx_pre used (i :: pgused) srcK srcG ids1.
Proof.
  intros Hp Hs [Hn Ha]. destruct (pick_spec _ _ _ _ _ Hp) as [[-> [-> Hfree]]|[Hin ->]].
  - exists []. split; [reflexivity|]. split; [intros y []|]. split; [right; exact Hs|]. split; [exact Hfree|].
    split; [exact Hn|]. intros j Hj. destruct (Ha j Hj) as [A1 [A2 [A3 A4]]].
    split; [exact A1|]. split; [intros [E|E]; [subst j; exact (A4 Hs) | exact (A2 E)]|]. split; assumption.
  - exists [i]. split; [reflexivity|]. split; [intros y [E|[]]; congruence|]. split; [left; left; reflexivity|].
    split; [apply (Ha i); left; reflexivity|]. inversion Hn as [|? ? Hi Hn']; subst.
    split; [exact Hn'|]. intros j Hj. destruct (Ha j (or_intror Hj)) as [A1 [A2 [A3 A4]]].
    split; [exact A1|]. split; [intros [E|E]; [subst j; exact (Hi Hj) | exact (A2 E)]|]. split; assumption.
Qed.

Definition kid_ids (kids : list (tree * key)) : list N := map (fun p => snd (tkey (fst p))) kids.

Lemma cx_kids_facts pgused srcK srcG : forall l used ids kids u' r',
  cx_kids l (used, ids) = Some (kids, u', r') ->
  (forall c, In c l -> In (snd (tkey c)) srcK) ->
  cx_pre used pgused srcK srcG ids ->
  exists D, ids = D ++ r' /\
    (forall y, In y (kid_ids kids) -> In y D \/ In y srcK) /\ NoDup (kid_ids kids) /\
    (forall y, In y (kid_ids kids) -> ~ In y used) /\
    (forall y, In y u' <-> In y used \/ In y (kid_ids kids)) /\
    map snd kids = map tkey l /\
    (forall p, In p kids -> exists j c, fst p = Node (KD, j) (with_pgs (tattrs c) []) []) /\
    cx_pre u' pgused srcK srcG r'.
Proof.
  induction l as [|c rest IH]; intros used ids kids u' r' E Hsrc Hpre; simpl in E.
  - inversion E; subst. exists []. split; [reflexivity|]. split; [intros y []|]. split; [constructor|].
    split; [intros y []|]. split; [intros y; simpl; tauto|]. split; [reflexivity|]. split; [intros p []|]. exact Hpre.
  - destruct (pick used (snd (tkey c)) ids) as [[j r]|] eqn:Ep; [|discriminate].
    destruct (cx_kids rest (j :: used, r)) as [[[l' u1] r1]|] eqn:Er; [|discriminate]. inversion E; subst kids u' r'. clear E.
    destruct (pick_pre_k _ _ _ _ _ _ _ _ Ep (Hsrc c (or_introl eq_refl)) Hpre) as [D0 [E0 [H0 [Hj [Hju Hpre1]]]]].
    destruct (IH _ _ _ _ _ Er (fun c' Hc' => Hsrc c' (or_intror Hc')) Hpre1) as [D1 [E1 [A1 [A2 [A3 [A4 [A5 [A6 A7]]]]]]]].
    exists (D0 ++ D1). split; [rewrite E0, E1, app_assoc; reflexivity|]. unfold kid_ids in *. simpl.
    split; [intros y [<-|Hy]; [destruct Hj as [Hj|Hj]; [left; apply in_or_app; left; exact Hj | right; exact Hj]
                            | destruct (A1 y Hy) as [H|H]; [left; apply in_or_app; right; exact H | right; exact H]]|].
    split; [constructor; [intros Hin; apply (A3 j Hin); left; reflexivity | exact A2]|].
    split; [intros y [<-|Hy]; [exact Hju | intros Hu; apply (A3 y Hy); right; exact Hu]|].
    split; [intros y; rewrite A4; simpl; tauto|].
    split; [f_equal; exact A5|].
    split; [intros p [<-|Hp]; [exists j, c; reflexivity | apply A6; exact Hp]|]. exact A7.
Qed.

Lemma cx_pgs_facts cmap used srcK srcG : forall gs pgused ids gs' pu' r'',
  cx_pgs cmap gs (pgused, ids) = Some (gs', pu', r'') ->
  (forall g, In g gs -> In (pg_id g) srcG) ->
  cx_pre used pgused srcK srcG ids ->
  exists D, ids = D ++ r'' /\
    (forall y, In y (map pg_id gs') -> In y D \/ In y srcG) /\ NoDup (map pg_id gs') /\
    (forall y, In y (map pg_id gs') -> ~ In y pgused) /\
    (forall y, In y pu' <-> In y pgused \/ In y (map pg_id gs')) /\
    (forall h, In h gs' -> exists g, In g gs /\ pg_members h = remap cmap (pg_members g)) /\
    cx_pre used pu' srcK srcG r''.
Proof.
  induction gs as [|g rest IH]; intros pgused ids gs' pu' r'' E Hsrc Hpre; simpl in E.
  - inversion E; subst. exists []. split; [reflexivity|]. split; [intros y []|]. split; [constructor|].
    split; [intros y []|]. split; [intros y; simpl; tauto|]. split; [intros h []|]. exact Hpre.
  - destruct (pick pgused (pg_id g) ids) as [[j r]|] eqn:Ep; [|discriminate].
    destruct (cx_pgs cmap rest (j :: pgused, r)) as [[[l' u1] r1]|] eqn:Er; [|discriminate]. inversion E; subst gs' pu' r''. clear E.
    destruct (pick_pre_g _ _ _ _ _ _ _ _ Ep (Hsrc g (or_introl eq_refl)) Hpre) as [D0 [E0 [H0 [Hj [Hju Hpre1]]]]].
    destruct (IH _ _ _ _ _ Er (fun c' Hc' => Hsrc c' (or_intror Hc')) Hpre1) as [D1 [E1 [A1 [A2 [A3 [A4 [A5 A7]]]]]]].
    exists (D0 ++ D1). split; [rewrite E0, E1, app_assoc; reflexivity|]. simpl.
    split; [intros y [<-|Hy]; [destruct Hj as [Hj|Hj]; [left; apply in_or_app; left; exact Hj | right; exact Hj]
                            | destruct (A1 y Hy) as [H|H]; [left; apply in_or_app; right; exact H | right; exact H]]|].
    split; [constructor; [intros Hin; apply (A3 j Hin); left; reflexivity | exact A2]|].
    split; [intros y [<-|Hy]; [exact Hju | intros Hu; apply (A3 y Hy); right; exact Hu]|].
    split; [intros y; rewrite A4; simpl; tauto|].
    split; [intros h [<-|Hh]; [exists g; split; [left; reflexivity | reflexivity]
                             | destruct (A5 h Hh) as [g' [Hg' Hm]]; exists g'; split; [right; exact Hg' | exact Hm]]|].
    exact A7.
Qed.

Definition cx_post (used pgused srcK srcG ids : list N) (K G : list N) (u' pu' rest : list N) : Prop :=
  exists D, ids = D ++ rest /\
   (forall y, In y K -> In y D \/ In y srcK) /\
   (forall y, In y G -> In y D \/ In y srcG) /\
   NoDup K /\ (forall y, In y K -> ~ In y used) /\
   (forall y, In y u' <-> In y used \/ In y K) /\
   (forall y, In y pu' <-> In y pgused \/ In y G) /\
   cx_pre u' pu' srcK srcG rest.

Definition cx_ok (t : tree) : Prop := forall used pgused ids t' u' pu' rest srcK srcG,
  copy_x used pgused t ids = Some (t', u', pu', rest) ->
  incl (map snd (keys_of t)) srcK -> incl (all_pg_ids t) srcG -> (forall r, In r (rows t) -> pgs_ok r) ->
  cx_pre used pgused srcK srcG ids ->
  cx_post used pgused srcK srcG ids (map snd (keys_of t')) (all_pg_ids t') u' pu' rest /\
  (forall r, In r (rows t') -> pgs_ok r).

Lemma cx_list_facts srcK srcG : forall l, Forall cx_ok l -> forall used pgused ids l' u' pu' rest,
  cx_list l (used, pgused, ids) = Some (l', u', pu', rest) ->
  incl (map snd (flat_map keys_of l)) srcK -> incl (flat_map all_pg_ids l) srcG -> (forall r, In r (flat_map rows l) -> pgs_ok r) ->
  cx_pre used pgused srcK srcG ids ->
  cx_post used pgused srcK srcG ids (map snd (flat_map keys_of l')) (flat_map all_pg_ids l') u' pu' rest /\
  (forall r, In r (flat_map rows l') -> pgs_ok r).
Proof.
  intros l H. induction H as [|c r Hc Hr IH]; intros used pgused ids l' u' pu' rest E HK HG Hpg Hpre; simpl in E.
  - inversion E; subst. split; [|intros r []]. exists []. split; [reflexivity|]. split; [intros y []|]. split; [intros y []|].
    split; [constructor|]. split; [intros y []|]. split; [intros y; simpl; tauto|]. split; [intros y; simpl; tauto|]. exact Hpre.
  - destruct (copy_x used pgused c ids) as [[[[c' u1] pu1] r1]|] eqn:E1; [|discriminate].
    destruct (cx_list r (u1, pu1, r1)) as [[[[l1 u2] pu2] r2]|] eqn:E2; [|discriminate]. inversion E; subst l' u' pu' rest. clear E.
    simpl in HK, HG. rewrite map_app in HK.
    destruct (Hc _ _ _ _ _ _ _ srcK srcG E1) as [[D1 [S1 [K1 [G1 [N1 [U1 [X1 [P1 Q1]]]]]]]] R1]; try assumption.
    { intros y Hy. apply HK. apply in_or_app. left. exact Hy. }
    { intros y Hy. apply HG. apply in_or_app. left. exact Hy. }
    { intros r0 Hr0. apply Hpg. simpl. apply in_or_app. left. exact Hr0. }
    destruct (IH _ _ _ _ _ _ _ E2) as [[D2 [S2 [K2 [G2 [N2 [U2 [X2 [P2 Q2]]]]]]]] R2]; try assumption.
    { intros y Hy. apply HK. apply in_or_app. right. exact Hy. }
    { intros y Hy. apply HG. apply in_or_app. right. exact Hy. }
    { intros r0 Hr0. apply Hpg. simpl. apply in_or_app. right. exact Hr0. }
    split.
    + exists (D1 ++ D2). split; [rewrite S1, S2, app_assoc; reflexivity|]. simpl. rewrite map_app.
      split; [intros y Hy; apply in_app_or in Hy; destruct Hy as [Hy|Hy];
              [destruct (K1 y Hy) as [H|H]; [left; apply in_or_app; left; exact H | right; exact H]
              |destruct (K2 y Hy) as [H|H]; [left; apply in_or_app; right; exact H | right; exact H]]|].
      split; [intros y Hy; apply in_app_or in Hy; destruct Hy as [Hy|Hy];
              [destruct (G1 y Hy) as [H|H]; [left; apply in_or_app; left; exact H | right; exact H]
              |destruct (G2 y Hy) as [H|H]; [left; apply in_or_app; right; exact H | right; exact H]]|].
      split; [apply nodup_app_iff; split; [exact N1|]; split; [exact N2|];
              intros y Hy1 Hy2; apply (U2 y Hy2); apply X1; right; exact Hy1|].
      split; [intros y Hy Hu; apply in_app_or in Hy; destruct Hy as [Hy|Hy];
              [exact (U1 y Hy Hu) | apply (U2 y Hy); apply X1; left; exact Hu]|].
      split; [intros y; rewrite X2, X1, in_app_iff; tauto|].
      split; [intros y; rewrite P2, P1, in_app_iff; tauto|]. exact Q2.
    + intros r0 Hr0. simpl in Hr0. apply in_app_or in Hr0. destruct Hr0 as [Hr0|Hr0]; [apply R1 | apply R2]; exact Hr0.
Qed.

Lemma kid_leaf_keys (kids : list (tree * key)) : (forall p, In p kids -> exists j c, fst p = Node (KD, j) (with_pgs (tattrs c) []) []) ->
  flat_map keys_of (map fst kids) = map (fun p => tkey (fst p)) kids /\
  flat_map all_pg_ids (map fst kids) = [] /\
  (forall r, In r (flat_map rows (map fst kids)) -> pgs_ok r) /\
  (forall p, In p kids -> fst (tkey (fst p)) = KD).
Proof.
  induction kids as [|p rk IH]; intros H; [split; [reflexivity|]; split; [reflexivity|]; split; [intros r0 [] | intros p0 []]|].
  destruct (IH (fun p' Hp' => H p' (or_intror Hp'))) as [I1 [I2 [I3 I4]]].
  destruct (H p (or_introl eq_refl)) as [j [c E]]. simpl. rewrite E. simpl. rewrite I1, I2.
  split; [reflexivity|]. split; [reflexivity|]. split.
  - intros r0 [<-|Hr0]; [apply pgs_ok_nil; reflexivity | apply I3; exact Hr0].
  - intros p' [<-|Hp']; [rewrite E; reflexivity | apply I4; exact Hp'].
Qed.

Lemma cx_facts t : cx_ok t.
Proof.
  induction t as [k a l IH] using tree_ind'.
  intros used pgused ids t' u' pu' rest srcK srcG E HK HG Hpg Hpre. rewrite copy_x_eq in E.
  destruct (pick used (snd k) ids) as [[i ids1]|] eqn:Ep; [|discriminate].
  assert (Hk : In (snd k) srcK) by (apply HK; rewrite keys_of_eq; left; reflexivity).
  destruct (pick_pre_k _ _ _ _ _ _ _ _ Ep Hk Hpre) as [D0 [E0 [H0 [Hi [Hiu Hpre1]]]]].
  assert (HKl : incl (map snd (flat_map keys_of l)) srcK) by (intros y Hy; apply HK; rewrite keys_of_eq; right; exact Hy).
  assert (HGl : incl (flat_map all_pg_ids l) srcG) by (intros y Hy; apply HG; simpl; apply in_or_app; right; exact Hy).
  destruct (fst k).
  - (* group *)
    destruct (cx_list l (i :: used, pgused, ids1)) as [[[[l' u1] pu1] r1]|] eqn:El; [|discriminate]. inversion E; subst t' u' pu' rest. clear E.
    destruct (cx_list_facts srcK srcG l IH _ _ _ _ _ _ _ El HKl HGl) as [[D1 [S1 [K1 [G1 [N1 [U1 [X1 [P1 Q1]]]]]]]] R1]; [|exact Hpre1|].
    { intros r0 Hr0. apply Hpg. rewrite rows_eq. right. exact Hr0. }
    split.
    + exists (D0 ++ D1). split; [rewrite E0, S1, app_assoc; reflexivity|]. rewrite keys_of_eq. simpl.
      split; [intros y [<-|Hy]; [destruct Hi as [Hi|Hi]; [left; apply in_or_app; left; exact Hi | right; exact Hi]
                              | destruct (K1 y Hy) as [H|H]; [left; apply in_or_app; right; exact H | right; exact H]]|].
      split; [intros y Hy; destruct (G1 y Hy) as [H|H]; [left; apply in_or_app; right; exact H | right; exact H]|].
      split; [constructor; [intros Hin; apply (U1 i Hin); left; reflexivity | exact N1]|].
      split; [intros y [<-|Hy]; [exact Hiu | intros Hu; apply (U1 y Hy); right; exact Hu]|].
      split; [intros y; rewrite X1; simpl; tauto|]. split; [exact P1 | exact Q1].
    + intros r0 Hr0. rewrite rows_eq in Hr0. destruct Hr0 as [<-|Hr0]; [apply pgs_ok_nil; reflexivity | apply R1; exact Hr0].
  - (* object *)
    destruct (cx_kids l (i :: used, ids1)) as [[[kids u1] r1]|] eqn:Ek; [|discriminate].
    destruct (cx_pgs (kid_cmap kids) (apgs a) (pgused, r1)) as [[[pgs' pu1] r2]|] eqn:Eg; [|discriminate].
    inversion E; subst t' u' pu' rest. clear E.
    destruct (cx_kids_facts pgused srcK srcG _ _ _ _ _ _ Ek) as [D1 [S1 [K1 [N1 [U1 [X1 [M1 [L1 Q1]]]]]]]]; [|exact Hpre1|].
    { intros c Hc. apply HKl. apply in_map. eapply kid_keys_sub; [exact Hc | apply tkey_in_keys]. }
    destruct (cx_pgs_facts (kid_cmap kids) u1 srcK srcG _ _ _ _ _ _ Eg) as [D2 [S2 [G2 [N2 [U2 [P2 [B2 Q2]]]]]]]; [|exact Q1|].
    { intros g Hg. apply HG. simpl. apply in_or_app. left. apply in_map. exact Hg. }
    destruct (kid_leaf_keys kids L1) as [F1 [F2 [F3 F4]]].
    assert (Hkeys : map snd (keys_of (Node (KO, i) (with_pgs a pgs') (map fst kids))) = i :: kid_ids kids).
    { rewrite keys_of_eq, F1. simpl. f_equal. unfold kid_ids. rewrite map_map. reflexivity. }
    assert (Hpgids : all_pg_ids (Node (KO, i) (with_pgs a pgs') (map fst kids)) = map pg_id pgs').
    { simpl. rewrite F2, app_nil_r. reflexivity. }
    split.
    + exists (D0 ++ D1 ++ D2). split; [rewrite E0, S1, S2, !app_assoc; reflexivity|]. rewrite Hkeys, Hpgids.
      split; [intros y [<-|Hy]; [destruct Hi as [Hi|Hi]; [left; apply in_or_app; left; exact Hi | right; exact Hi]
                              | destruct (K1 y Hy) as [H|H]; [left; apply in_or_app; right; apply in_or_app; left; exact H | right; exact H]]|].
      split; [intros y Hy; destruct (G2 y Hy) as [H|H]; [left; apply in_or_app; right; apply in_or_app; right; exact H | right; exact H]|].
      split; [constructor; [intros Hin; apply (U1 i Hin); left; reflexivity | exact N1]|].
      split; [intros y [<-|Hy]; [exact Hiu | intros Hu; apply (U1 y Hy); right; exact Hu]|].
      split; [intros y; rewrite X1; simpl; tauto|]. split; [exact P2 | exact Q2].
    + intros r0 Hr0. rewrite rows_eq in Hr0. destruct Hr0 as [<-|Hr0]; [|apply F3; exact Hr0].
      assert (Hnk : NoDup (map (fun p => tkey (fst p)) kids)).
      { apply (NoDup_map_inv snd). rewrite map_map. exact N1. }
      unfold pgs_ok, rattrs, rkids. simpl. split; [exact N2|]. split.
      * intros h Hh. destruct (B2 h Hh) as [g [Hg ->]]. apply remap_nodup.
        -- destruct (Hpg (k, a, map tkey l)) as [_ [Gm _]]; [rewrite rows_eq; left; reflexivity|]. apply Gm. exact Hg.
        -- unfold kid_cmap. rewrite map_map. simpl. exact Hnk.
      * intros h y Hh Hy. destruct (B2 h Hh) as [g [Hg Em]]. rewrite Em in Hy. apply remap_In in Hy. destruct Hy as [x [_ Hxy]].
        unfold kid_cmap in Hxy. apply in_map_iff in Hxy. destruct Hxy as [p [Ep' Hp]]. inversion Ep'; subst.
        split; [rewrite map_map; apply in_map_iff; exists p; split; [reflexivity | exact Hp] | apply F4; exact Hp].
  - (* data *)
    inversion E; subst t' u' pu' rest. clear E. split.
    + exists D0. split; [exact E0|]. simpl.
      split; [intros y [<-|[]]; exact Hi|]. split; [intros y []|].
      split; [constructor; [intros [] | constructor]|]. split; [intros y [<-|[]]; exact Hiu|].
      split; [intros y; simpl; tauto|]. split; [intros y; simpl; tauto | exact Hpre1].
    + intros r0 [<-|[]]. apply pgs_ok_nil. reflexivity.
Qed.

(* ---- a cross-workspace copy preserves the invariant of the target ---- *)
Definition fresh_copyx (src tgt : ws) (e : key) (ids : list N) : bool :=
  nodupN ids
  && forallb (fun j => negb (memN j (map snd (keys_of (wmem tgt))))) ids
  && forallb (fun j => negb (memN j (all_pg_ids (wmem tgt)))) ids
  && forallb (fun j => negb (memN j (map snd (wpend tgt)))) ids
  && match find e (wmem src) with
     | Some te =>
         forallb (fun j => negb (memN j (map snd (keys_of te)))) ids
         && forallb (fun j => negb (memN j (all_pg_ids te))) ids
         && match copy_x (map snd (keys_of (wmem tgt))) (all_pg_ids (wmem tgt)) te ids with
            | Some (t', _, _, _) =>
                forallb (fun k => match fget k (flat (wfile tgt)) with Some _ => false | None => true end) (keys_of t')
            | None => true
            end
     | None => true
     end.

Definition clean_copyx (src tgt : ws) (e : key) : bool :=
  match find e (wmem src) with
  | Some te => forallb (fun k => negb (memN (snd k) (map snd (keys_of te)))) (wpend tgt)
  | None => true
  end.

Lemma wfresh_copyx W i e q ids : wfresh_op W (CopyX i e q ids) = fresh_copyx (wsel i W) (wsel (negb i) W) e ids.
Proof. reflexivity. Qed.
Lemma wclean_copyx W i e q ids : wclean_op W (CopyX i e q ids) = clean_copyx (wsel i W) (wsel (negb i) W) e.
Proof. reflexivity. Qed.

Lemma forallb_notmem (L ids : list N) : forallb (fun j => negb (memN j L)) ids = true -> forall j, In j ids -> ~ In j L.
Proof. intros H j Hj. rewrite forallb_forall in H. specialize (H j Hj). apply negb_true_iff in H. apply memN_false. exact H. Qed.

Lemma filter_all {A} (p : A -> bool) l : forallb p l = true -> filter p l = l.
Proof.
  induction l as [|x r IH]; simpl; intros H; [reflexivity|]. apply andb_true_iff in H. destruct H as [H1 H2].
  rewrite H1. f_equal. apply IH. exact H2.
Qed.
Lemma filter_none {A} (p : A -> bool) l : forallb p l = true -> filter (fun x => negb (p x)) l = [].
Proof.
  induction l as [|x r IH]; simpl; intros H; [reflexivity|]. apply andb_true_iff in H. destruct H as [H1 H2].
  rewrite H1. simpl. apply IH. exact H2.
Qed.

Lemma rep_copy_x src tgt e q ids orph Ps :
  Rep (wmem src) (wfile src) Ps -> Rep (wmem tgt) (wfile tgt) (wpend tgt ++ orph) ->
  fresh_copyx src tgt e ids = true ->
  exists orph', Rep (wmem (fst (do_copy_x src tgt e q ids))) (wfile (fst (do_copy_x src tgt e q ids)))
                    (wpend (fst (do_copy_x src tgt e q ids)) ++ orph') /\
                (orph = [] -> clean_copyx src tgt e = true -> orph' = []).
Proof.
  intros Rs R Hf. unfold fresh_copyx in Hf. unfold do_copy_x, clean_copyx.
  assert (Hdef : exists orph', Rep (wmem tgt) (wfile tgt) (wpend tgt ++ orph') /\ (orph = [] -> orph' = [])).
  { exists orph. split; [exact R | tauto]. }
  destruct (find e (wmem src)) as [te|] eqn:Fe.
  2:{ destruct Hdef as [o' [H1 H2]]. exists o'. split; [exact H1 | intros H _; exact (H2 H)]. }
  destruct (find q (wmem tgt)) as [sq|] eqn:Fq.
  2:{ destruct Hdef as [o' [H1 H2]]. exists o'. split; [exact H1 | intros H _; exact (H2 H)]. }
  destruct (negb (can_hold (fst q) (fst e)) || key_eqb e rootkey).
  { destruct Hdef as [o' [H1 H2]]. exists o'. split; [exact H1 | intros H _; exact (H2 H)]. }
  destruct (copy_x (map snd (keys_of (wmem tgt))) (all_pg_ids (wmem tgt)) te ids) as [[[[t' u'] pu'] rest]|] eqn:Ec.
  2:{ destruct Hdef as [o' [H1 H2]]. exists o'. split; [exact H1 | intros H _; exact (H2 H)]. }
  destruct rest as [|j0 rest].
  2:{ destruct Hdef as [o' [H1 H2]]. exists o'. split; [exact H1 | intros H _; exact (H2 H)]. }
  clear Hdef. simpl.
  apply andb_true_iff in Hf. destruct Hf as [Hf Hinner].
  apply andb_true_iff in Hf. destruct Hf as [Hf Hpd].
  apply andb_true_iff in Hf. destruct Hf as [Hf HtG].
  apply andb_true_iff in Hf. destruct Hf as [Hf HtK].
  apply andb_true_iff in Hinner. destruct Hinner as [Hinner Hfile].
  apply andb_true_iff in Hinner. destruct Hinner as [HsK HsG].
  apply nodupN_NoDup in Hf.
  assert (Hpre : cx_pre (map snd (keys_of (wmem tgt))) (all_pg_ids (wmem tgt)) (map snd (keys_of te)) (all_pg_ids te) ids).
  { split; [exact Hf|]. intros j Hj. split; [eapply forallb_notmem; eassumption|]. split; [eapply forallb_notmem; eassumption|].
    split; eapply forallb_notmem; eassumption. }
  destruct (cx_facts te _ _ _ _ _ _ _ _ _ Ec (fun y H => H) (fun y H => H) (rep_find_rows _ _ _ _ _ Rs Fe) Hpre)
    as [[D [S [K1 [G1 [N1 [U1 [X1 [P1 Q1]]]]]]]] Rw].
  rewrite app_nil_r in S. subst D.
  assert (Hnd : NoDup (keys_of t')) by (eapply NoDup_map_inv; exact N1).
  assert (Hfresh : forall x, In x (keys_of t') -> ~ In x (keys_of (wmem tgt)) /\ fget x (flat (wfile tgt)) = None).
  { intros x Hx. split.
    - intros Hin. apply (U1 (snd x)); apply in_map; assumption.
    - rewrite forallb_forall in Hfile. specialize (Hfile x Hx). destruct (fget x (flat (wfile tgt))); [discriminate | reflexivity]. }
  pose proof (rep_copy _ _ _ q sq t' R Fq Hnd Hfresh Rw) as R'.
  set (F := fun k : key => negb (memN (snd k) (map snd (keys_of te)))).
  exists (drop (keys_of t') orph ++ filter (fun k => negb (F k)) (drop (keys_of t') (wpend tgt))). split.
  - eapply rep_pend_equiv; [exact R'|]. intros k. rewrite drop_app, !in_app_iff, !filter_In, !drop_In.
    assert (Hk : In k (wpend tgt) -> F k = true -> ~ In k (keys_of t')).
    { intros Hw HF Hin. unfold F in HF. apply negb_true_iff in HF. apply memN_false in HF.
      destruct (K1 (snd k) (in_map snd _ _ Hin)) as [Hd|Hs]; [|exact (HF Hs)].
      eapply (forallb_notmem _ _ Hpd); [exact Hd | apply in_map; exact Hw]. }
    change (negb (memN (snd k) (map snd (keys_of te)))) with (F k).
    destruct (F k) eqn:EF; simpl.
    + split; [intros [[H1 H2]|H]; [left; split; [exact H1 | reflexivity] | right; left; exact H]
             | intros [[H1 _]|[H|[_ H]]]; [left; split; [exact H1 | apply Hk; [exact H1 | reflexivity]] | right; exact H | discriminate]].
    + split; [intros [H|H]; [right; right; split; [exact H | reflexivity] | right; left; exact H]
             | intros [[_ H]|[H|[H _]]]; [discriminate | right; exact H | left; exact H]].
  - intros -> Hc. simpl. fold F in Hc. unfold drop at 1. simpl.
    assert (E : filter F (wpend tgt) = wpend tgt) by (apply filter_all; exact Hc).
    apply (filter_none F). rewrite forallb_forall in *. intros k Hk. apply Hc. apply drop_In in Hk. apply Hk.
Qed.

(* ---- the world invariant ---- *)
Definition WInv (W : world) (oa ob : list key) : Prop := WRep W (wpend (wa W) ++ oa) (wpend (wb W) ++ ob).

Lemma winv_init : WInv winit [] [].
Proof. split; exact rep_init_app. Qed.

Theorem wrep_step_gen : forall W o oa ob, WInv W oa ob -> wfresh_op W o = true ->
  exists oa' ob', WInv (fst (wstep W o)) oa' ob' /\
                  (oa = [] -> ob = [] -> wclean_op W o = true -> oa' = [] /\ ob' = []).
Proof.
  intros W o oa ob [Ra Rb] Hf. destruct o as [i o|i e q ids].
  - destruct (wstep_on i o W) as [E _]. rewrite E. destruct i; simpl in Hf |- *.
    + exists oa, (next_orph (wb W) o ob). split; [split; [exact Ra | apply rep_step_gen; assumption]|].
      intros -> -> Hc. split; [reflexivity | apply next_orph_clean; exact Hc].
    + exists (next_orph (wa W) o oa), ob. split; [split; [apply rep_step_gen; assumption | exact Rb]|].
      intros -> -> Hc. split; [apply next_orph_clean; exact Hc | reflexivity].
  - destruct (wstep_copyx i e q ids W) as [E _]. rewrite E. rewrite wfresh_copyx in Hf. rewrite wclean_copyx.
    destruct i; simpl in Hf |- *.
    + destruct (rep_copy_x (wb W) (wa W) e q ids oa _ Rb Ra Hf) as [oa' [R' Hc']].
      exists oa', ob. split; [split; [exact R' | exact Rb]|]. intros H1 H2 Hc. split; [apply Hc'; assumption | exact H2].
    + destruct (rep_copy_x (wa W) (wb W) e q ids ob _ Ra Rb Hf) as [ob' [R' Hc']].
      exists oa, ob'. split; [split; [exact Ra | exact R']|]. intros H1 H2 Hc. split; [exact H1 | apply Hc'; assumption].
Qed.

Lemma wrun_cons o r W : wrun (o :: r) W = wrun r (fst (wstep W o)).
Proof. reflexivity. Qed.

Lemma wrep_run_from ops : forall W oa ob, WInv W oa ob -> wfresh_run ops W = true ->
  exists oa' ob', WInv (wrun ops W) oa' ob' /\
                  (oa = [] -> ob = [] -> wclean_run ops W = true -> oa' = [] /\ ob' = []).
Proof.
  induction ops as [|o r IH]; intros W oa ob HI Hf.
  - exists oa, ob. split; [exact HI | intros H1 H2 _; split; assumption].
  - simpl in Hf. apply andb_true_iff in Hf. destruct Hf as [Hf1 Hf2].
    destruct (wrep_step_gen W o oa ob HI Hf1) as [oa1 [ob1 [HI1 Hc1]]].
    destruct (IH _ _ _ HI1 Hf2) as [oa2 [ob2 [HI2 Hc2]]].
    exists oa2, ob2. rewrite wrun_cons. split; [exact HI2|].
    intros H1 H2 Hc. simpl in Hc. apply andb_true_iff in Hc. destruct Hc as [Hc Hc'].
    destruct (Hc1 H1 H2 Hc) as [E1 E2]. apply Hc2; assumption.
Qed.

(* W1: both files are valid up to orphans after every history without stale identifier re-use *)
Theorem wrep_run_orphans : forall ops, wfresh_run ops winit = true ->
  let W := wrun ops winit in
  exists oa ob, Rep (wmem (wa W)) (wfile (wa W)) (wpend (wa W) ++ oa) /\ Rep (wmem (wb W)) (wfile (wb W)) (wpend (wb W) ++ ob).
Proof.
  intros ops Hf W. destruct (wrep_run_from ops winit [] [] winv_init Hf) as [oa [ob [HI _]]]. exists oa, ob. exact HI.
Qed.

Theorem wrep_run : forall ops, wfresh_run ops winit = true -> wclean_run ops winit = true ->
  let W := wrun ops winit in
  Rep (wmem (wa W)) (wfile (wa W)) (wpend (wa W)) /\ Rep (wmem (wb W)) (wfile (wb W)) (wpend (wb W)).
Proof.
  intros ops Hf Hc W. destruct (wrep_run_from ops winit [] [] winv_init Hf) as [oa [ob [[Ra Rb] Hcl]]].
  destruct (Hcl eq_refl eq_refl Hc) as [-> ->]. rewrite !app_nil_r in *. split; assumption.
Qed.

Lemma winv_sel W oa ob i : WInv W oa ob ->
  exists o, Rep (wmem (wsel i W)) (wfile (wsel i W)) (wpend (wsel i W) ++ o) /\ (oa = [] -> ob = [] -> o = []).
Proof. intros [Ra Rb]. destruct i; [exists ob | exists oa]; split; try assumption; tauto. Qed.

(* W2 *)
Theorem wreopen_equiv : forall ops i, wfresh_run ops winit = true ->
  let W := wrun ops winit in
  snd (wstep W (On i Reopen)) = Done /\
  tree_equiv (wmem (wsel i (fst (wstep W (On i Reopen))))) (wmem (wsel i W)).
Proof.
  intros ops i Hf W. destruct (wrep_run_from ops winit [] [] winv_init Hf) as [oa [ob [HI _]]].
  destruct (winv_sel _ _ _ i HI) as [o [R _]]. fold W in R.
  destruct (wstep_on i Reopen W) as [E1 E2]. rewrite E1, E2, wsel_wput_same.
  destruct (rep_reopen _ _ R) as [H1 [H2 _]]. split; assumption.
Qed.

Lemma close_valid_ws w : Rep (wmem w) (wfile w) (wpend w) -> (forall k, In k (wpend w) -> fst k = KG) ->
  Valid (wfile (close_file w)).
Proof.
  intros R Hp.
  assert (R0 : Rep (wmem w) (wfile w) (wpend w ++ [])) by (rewrite app_nil_r; exact R).
  destruct (close_file_rep_file w _ R0) as [Hfile _]. { intros k Hk; apply in_or_app; left; exact Hk. }
  pose proof (rep_sweep w KG [] R0) as R1. rewrite Hfile. exists (wmem w).
  eapply rep_pend_change; [exact R1 | intros k [] |].
  intros k n _ Hin. rewrite app_nil_r in Hin. apply filter_In in Hin. destruct Hin as [Hin Hk].
  rewrite (Hp k Hin) in Hk. discriminate.
Qed.

Theorem wclose_valid : forall ops i, wfresh_run ops winit = true -> wclean_run ops winit = true ->
  let W := wrun ops winit in
  (forall k, In k (wpend (wsel i W)) -> fst k = KG) ->
  Valid (wfile (close_file (wsel i W))).
Proof.
  intros ops i Hf Hc W Hp. destruct (wrep_run ops Hf Hc) as [Ra Rb]. fold W in Ra, Rb.
  apply close_valid_ws; [destruct i; assumption | exact Hp].
Qed.

(* without any condition on what was forgotten: every stored node is live or a pending dead group *)
Lemma close_valid_nolinger_ws w o : Rep (wmem w) (wfile w) (wpend w ++ o) ->
  (forall k n, fget k (flat (wfile w)) = Some n -> In k (keys_of (wmem w)) \/ (In k (wpend w) /\ fst k = KG)) ->
  Valid (wfile (close_file w)).
Proof.
  intros R H.
  destruct (close_file_rep_file w _ R) as [Hfile _]. { intros k Hk; apply in_or_app; left; exact Hk. }
  pose proof (rep_sweep w KG o R) as R1. rewrite Hfile. exists (wmem w).
  eapply rep_pend_change; [exact R1 | intros k [] |].
  intros k n Hg Hin. exfalso. unfold sweep_file in Hg.
  destruct (del_all_Some _ _ _ _ (rep_flatnd _ _ _ R) Hg) as [Hnd Hg0].
  destruct (H k n Hg0) as [Hk|[Hk Hkg]].
  - exact (rep_pend _ _ _ R1 k Hin Hk).
  - apply Hnd. apply filter_In. split; [exact Hk | rewrite Hkg; reflexivity].
Qed.

Theorem wclose_valid_nolinger : forall ops i, wfresh_run ops winit = true ->
  let W := wrun ops winit in let w := wsel i W in
  (forall k n, fget k (flat (wfile w)) = Some n -> In k (keys_of (wmem w)) \/ (In k (wpend w) /\ fst k = KG)) ->
  Valid (wfile (close_file w)).
Proof.
  intros ops i Hf W w H. destruct (wrep_run_from ops winit [] [] winv_init Hf) as [oa [ob [HI _]]].
  destruct (winv_sel _ _ _ i HI) as [o [R _]]. eapply close_valid_nolinger_ws; [exact R | exact H].
Qed.

(* ======================================================================================================== *)
(* W5 — the full C01 statement is refuted at world level without any caller-supplied identifier              *)
(* ======================================================================================================== *)
(* A: group G1, object O2 under it with data D3; copy O2 into B (identifiers free in B: kept); B removes the copy through
   its parent (flat nodes stay); A renames O2; copy again: the identifiers are free in B's registries, so they are kept,
   but B's file still holds the stale nodes, which write_entity leaves untouched: re-opening B shows the old name *)
Definition wops_stale : list wop :=
  [On false (Create KG 1 rootkey 10 0); On false (Create KO 2 (KG, 1%N) 5 6); On false (Create KD 3 (KO, 2%N) 7 8);
   CopyX false (KO, 2%N) rootkey [];
   On true (RemoveParent (KO, 2%N));
   On false (SetName (KO, 2%N) 55);
   CopyX false (KO, 2%N) rootkey []].

Definition C01_world_full : Prop :=
  forall ops, let W := wrun ops winit in
  tree_equiv (wmem (wb (fst (wstep W (On true Reopen))))) (wmem (wb W)).

Theorem C01_world_full_refuted : ~ C01_world_full.
Proof.
  intros H. specialize (H wops_stale). cbv zeta in H.
  destruct (rows_equiv _ _ H ((KO, 2%N), {| aname := 5; adel := true; aarr := 6; apgs := [] |}, [(KD, 3%N)]))
    as [r [Hr [E1 [E2 _]]]].
  - vm_compute. right. left. reflexivity.
  - vm_compute in Hr. destruct Hr as [<-|[<-|[<-|[]]]]; vm_compute in E1; try discriminate E1.
    destruct E2 as [E2 _]. vm_compute in E2. discriminate E2.
Qed.

Lemma wops_stale_not_fresh : wfresh_run wops_stale winit = false.
Proof. vm_compute. reflexivity. Qed.

(* ======================================================================================================== *)
(* Non-vacuity                                                                                               *)
(* ======================================================================================================== *)
(* A: a group, an object with two data and a property group.  B: a group with the same identifier 1.  Copy of the object
   A->B (identifiers 2, 3, 4 and group 100 are free in B: kept); copy of A's group G1 A->B (1, 2, 3, 4 and 100 are now in
   use in B: all five are re-drawn); in B a data removal (the group loses a member), a removal through the parent and the
   three sweeps; re-opens of B and of A; a copy back B->A (2, 4 and 100 in use in A: re-drawn) *)
Definition wops_demo : list wop :=
  [On false (Create KG 1 rootkey 10 0); On false (Create KO 2 (KG, 1%N) 5 6); On false (Create KD 3 (KO, 2%N) 7 8);
   On false (Create KD 4 (KO, 2%N) 9 1);
   On false (PgAdd (KO, 2%N) 100 77 [(KD, 3%N); (KD, 4%N)]);
   On true (Create KG 1 rootkey 20 0);
   CopyX false (KO, 2%N) (KG, 1%N) [];
   CopyX false (KG, 1%N) rootkey [30; 31; 32; 33; 34]%N;
   On true (RemoveWs (KD, 3%N));
   On true (RemoveParent (KG, 30%N)); On true (Sweep KG); On true (Sweep KO); On true (Sweep KD);
   On true Reopen; On false Reopen;
   CopyX true (KO, 2%N) (KG, 1%N) [40; 41; 42]%N].

Lemma wops_demo_ok :
  wfresh_run wops_demo winit = true /\ wclean_run wops_demo winit = true /\
  map (fun n => snd (wstep (wrun (firstn n wops_demo) winit) (nth n wops_demo (On true Reopen)))) (seq 0 16)
  = [Done; Done; Done; Done; Done; Done; Done; Done; Done; Done; Done; Done; Done; Done; Done; Done].
Proof. vm_compute. repeat split. Qed.

Lemma wops_demo_rep : let W := wrun wops_demo winit in
  Rep (wmem (wa W)) (wfile (wa W)) (wpend (wa W)) /\ Rep (wmem (wb W)) (wfile (wb W)) (wpend (wb W)).
Proof. apply wrep_run; apply wops_demo_ok. Qed.

(* the second copy re-draws every identifier, the last one re-draws the object, the surviving data and the group *)
Lemma wops_demo_ids :
  copyx_keys (wa (wrun (firstn 7 wops_demo) winit)) (wb (wrun (firstn 7 wops_demo) winit)) (KG, 1%N) [30; 31; 32; 33; 34]%N
  = [(KG, 30%N); (KO, 31%N); (KD, 32%N); (KD, 33%N)] /\
  copyx_keys (wb (wrun (firstn 15 wops_demo) winit)) (wa (wrun (firstn 15 wops_demo) winit)) (KO, 2%N) [40; 41; 42]%N
  = [(KO, 40%N); (KD, 41%N)].
Proof. vm_compute. split; reflexivity. Qed.

(* ======================================================================================================== *)
(* W4 — a copy has the shape of its source                                                                   *)
(* ======================================================================================================== *)
Lemma wk_group k a l : well_kinded (Node k a l) -> fst k = KG -> apgs a = [] /\ Forall well_kinded l.
Proof.
  simpl. intros H E. rewrite E in H. destruct H as [H1 H2]. split; [exact H1|].
  induction l as [|c r IH]; [constructor|]. destruct H2 as [Hc Hr]. constructor; [exact Hc | apply IH; exact Hr].
Qed.

Lemma assoc_pos pairs m : NoDup (map snd pairs) -> In m (map fst pairs) ->
  exists y, assoc_key m pairs = Some y /\ pos_of y (map snd pairs) = pos_of m (map fst pairs).
Proof.
  induction pairs as [|[a b] r IH]; simpl; intros Hn Hin; [destruct Hin|].
  inversion Hn as [|? ? Hb Hr]; subst. keq m a.
  - subst a. exists b. split; [reflexivity|]. rewrite key_eqb_refl. reflexivity.
  - destruct Hin as [Hin|Hin]; [congruence|]. destruct (IH Hr Hin) as [y [Hy Hp]]. exists y. split; [exact Hy|].
    assert (Hyb : y <> b).
    { intros ->. apply Hb. apply assoc_key_In in Hy. apply in_map_iff. exists (m, b). split; [reflexivity | exact Hy]. }
    rewrite (key_eqb_false _ _ Hyb), Hp. reflexivity.
Qed.

Lemma remap_positions pairs ms : NoDup (map snd pairs) -> (forall m, In m ms -> In m (map fst pairs)) ->
  map (fun y => pos_of y (map snd pairs)) (remap pairs ms) = map (fun m => pos_of m (map fst pairs)) ms.
Proof.
  intros Hn. induction ms as [|m r IH]; intros H; [reflexivity|].
  destruct (assoc_pos pairs m Hn (H m (or_introl eq_refl))) as [y [Hy Hp]].
  unfold remap in *. simpl. rewrite Hy. simpl. rewrite Hp. f_equal. apply IH. intros m' Hm'. apply H. right. exact Hm'.
Qed.

Lemma obj_shape k a l i pgs' (kids' : list tree) (pairs : list (key * key)) :
  fst k = KO -> (forall c, In c l -> leaf_data c) ->
  Forall2 (fun c c' => exists j, c' = Node (KD, j) (with_pgs (tattrs c) []) []) l kids' ->
  map fst pairs = map tkey l -> map snd pairs = map tkey kids' ->
  Forall2 (fun g h => pg_name h = pg_name g /\ pg_members h = remap pairs (pg_members g)) (apgs a) pgs' ->
  NoDup (map tkey kids') -> (forall g m, In g (apgs a) -> In m (pg_members g) -> In m (map tkey l)) ->
  erase (Node (KO, i) (with_pgs a pgs') kids') = erase (Node k a l).
Proof.
  intros Ek Hleaf Hkids Hf Hs Hpgs Hnd Hmem. simpl. rewrite Ek. f_equal.
  - revert Hmem. induction Hpgs as [|g h gs hs [Hn Hm] HF IH]; intros Hmem; [reflexivity|]. simpl. f_equal.
    + rewrite Hn, Hm. f_equal. rewrite <- Hs, <- Hf. apply remap_positions; [rewrite Hs; exact Hnd|].
      intros m Hm'. rewrite Hf. eapply Hmem; [left; reflexivity | exact Hm'].
    + apply IH. intros g' m Hg' Hm'. eapply Hmem; [right; exact Hg' | exact Hm'].
  - clear Hf Hs Hpgs Hnd Hmem. induction Hkids as [|c c' r r' [j Ec] HF IH]; [reflexivity|]. simpl. f_equal.
    + destruct (Hleaf c (or_introl eq_refl)) as [L1 [L2 L3]]. destruct c as [kc ac lc]. simpl in *. subst c' lc.
      simpl. rewrite L1, L2. reflexivity.
    + apply IH. intros c0 Hc0. apply Hleaf. right. exact Hc0.
Qed.

Lemma cx_kids_shape : forall l st kids u' r', cx_kids l st = Some (kids, u', r') ->
  Forall2 (fun c p => snd p = tkey c /\ exists j, fst p = Node (KD, j) (with_pgs (tattrs c) []) []) l kids.
Proof.
  induction l as [|c rest IH]; intros st kids u' r' E; simpl in E.
  - inversion E; subst. constructor.
  - destruct (pick (fst st) (snd (tkey c)) (snd st)) as [[j r]|]; [|discriminate].
    destruct (cx_kids rest (j :: fst st, r)) as [[[l' u1] r1]|] eqn:Er; [|discriminate]. inversion E; subst.
    constructor; [split; [reflexivity | exists j; reflexivity] | eapply IH; exact Er].
Qed.

Lemma cx_pgs_shape cmap : forall gs st gs' pu' r', cx_pgs cmap gs st = Some (gs', pu', r') ->
  Forall2 (fun g h => pg_name h = pg_name g /\ pg_members h = remap cmap (pg_members g)) gs gs'.
Proof.
  induction gs as [|g rest IH]; intros st gs' pu' r' E; simpl in E.
  - inversion E; subst. constructor.
  - destruct (pick (fst st) (pg_id g) (snd st)) as [[j r]|]; [|discriminate].
    destruct (cx_pgs cmap rest (j :: fst st, r)) as [[[l' u1] r1]|] eqn:Er; [|discriminate]. inversion E; subst.
    constructor; [split; reflexivity | eapply IH; exact Er].
Qed.

Lemma forall2_map_r {A B C} (R : A -> C -> Prop) (f : B -> C) l l' :
  Forall2 (fun a b => R a (f b)) l l' -> Forall2 R l (map f l').
Proof. induction 1; simpl; constructor; assumption. Qed.

Lemma forall2_map_eq {A B C} (f : A -> C) (g : B -> C) l l' : Forall2 (fun a b => g b = f a) l l' -> map g l' = map f l.
Proof. induction 1; simpl; [reflexivity | f_equal; assumption]. Qed.

Lemma Forall2_impl {A B} (R R' : A -> B -> Prop) l l' : (forall a b, R a b -> R' a b) -> Forall2 R l l' -> Forall2 R' l l'.
Proof. intros H. induction 1; constructor; auto. Qed.

Definition shape_ok (t : tree) : Prop := forall used pgused ids t' u' pu' rest,
  copy_x used pgused t ids = Some (t', u', pu', rest) ->
  well_kinded t -> (forall r, In r (rows t) -> pgs_ok r) -> NoDup (keys_of t') ->
  erase t' = erase t.

Lemma cx_list_shape : forall l, Forall shape_ok l -> forall st l' u' pu' rest,
  cx_list l st = Some (l', u', pu', rest) ->
  Forall well_kinded l -> (forall r, In r (flat_map rows l) -> pgs_ok r) -> NoDup (flat_map keys_of l') ->
  map erase l' = map erase l.
Proof.
  intros l H. induction H as [|c r Hc Hr IH]; intros [[u pu] rr] l' u' pu' rest E Hwk Hpg Hnd; simpl in E.
  - inversion E; subst. reflexivity.
  - destruct (copy_x u pu c rr) as [[[[c' u1] pu1] r1]|] eqn:E1; [|discriminate].
    destruct (cx_list r (u1, pu1, r1)) as [[[[l1 u2] pu2] r2]|] eqn:E2; [|discriminate]. inversion E; subst.
    inversion Hwk as [|? ? W1 W2]; subst. simpl in Hnd. apply nodup_app_iff in Hnd. destruct Hnd as [N1 [N2 _]].
    simpl. f_equal.
    + eapply Hc; [exact E1 | exact W1 | | exact N1]. intros r0 Hr0. apply Hpg. simpl. apply in_or_app. left. exact Hr0.
    + eapply IH; [exact E2 | exact W2 | | exact N2]. intros r0 Hr0. apply Hpg. simpl. apply in_or_app. right. exact Hr0.
Qed.

Theorem copy_x_shape_all t : shape_ok t.
Proof.
  induction t as [k a l IH] using tree_ind'. intros used pgused ids t' u' pu' rest E Hwk Hpg Hnd. rewrite copy_x_eq in E.
  destruct (pick used (snd k) ids) as [[i ids1]|]; [|discriminate]. destruct (fst k) eqn:Ek.
  - destruct (cx_list l (i :: used, pgused, ids1)) as [[[[l' u1] pu1] r1]|] eqn:El; [|discriminate]. inversion E; subst.
    destruct (wk_group _ _ _ Hwk Ek) as [Ha Hl]. simpl. rewrite Ek, Ha. f_equal.
    eapply cx_list_shape; [exact IH | exact El | exact Hl | |].
    + intros r0 Hr0. apply Hpg. rewrite rows_eq. right. exact Hr0.
    + rewrite keys_of_eq in Hnd. inversion Hnd; assumption.
  - destruct (cx_kids l (i :: used, ids1)) as [[[kids u1] r1]|] eqn:Ekd; [|discriminate].
    destruct (cx_pgs (kid_cmap kids) (apgs a) (pgused, r1)) as [[[pgs' pu1] r2]|] eqn:Eg; [|discriminate]. inversion E; subst.
    pose proof (cx_kids_shape _ _ _ _ _ Ekd) as Sk. pose proof (cx_pgs_shape _ _ _ _ _ _ Eg) as Sg.
    apply obj_shape with (pairs := kid_cmap kids).
    + exact Ek.
    + simpl in Hwk. rewrite Ek in Hwk. exact Hwk.
    + apply forall2_map_r. eapply Forall2_impl; [|exact Sk]. intros c p [_ [j Ej]]. exists j. exact Ej.
    + unfold kid_cmap. rewrite map_map. simpl. apply forall2_map_eq. eapply Forall2_impl; [|exact Sk]. intros c p [Es _]. exact Es.
    + unfold kid_cmap. rewrite !map_map. reflexivity.
    + exact Sg.
    + rewrite keys_of_eq in Hnd. inversion Hnd as [|? ? _ Hn2]; subst. apply nodup_tkeys. exact Hn2.
    + intros g m Hg Hm. destruct (Hpg (k, a, map tkey l)) as [_ [_ G3]]; [rewrite rows_eq; left; reflexivity|].
      apply (G3 g m Hg Hm).
  - inversion E; subst. simpl in Hwk. rewrite Ek in Hwk. destruct Hwk as [Ha Hl]. subst l. simpl. rewrite Ek, Ha. reflexivity.
Qed.

Theorem copy_x_shape : forall used pgused t ids t' u' pu' rest,
  copy_x used pgused t ids = Some (t', u', pu', rest) ->
  well_kinded t -> (forall r, In r (rows t) -> pgs_ok r) -> NoDup (keys_of t') ->
  erase t' = erase t.
Proof. intros used pgused t. apply copy_x_shape_all. Qed.

(* the same for a copy within one workspace *)
Lemma combine_map_forall2 {A B C} (R : A -> C -> Prop) (f : A * B -> C) : forall l js, length l = length js ->
  (forall a b, R a (f (a, b))) -> Forall2 R l (map f (combine l js)).
Proof.
  induction l as [|a r IH]; intros [|j js] H HR; simpl in *; try discriminate; constructor; [apply HR | apply IH; [congruence | exact HR]].
Qed.

Lemma map_fst_combine {A B} (l : list A) (js : list B) : length l = length js -> map fst (combine l js) = l.
Proof.
  revert js. induction l as [|a r IH]; intros [|j js] H; simpl in *; try discriminate; [reflexivity|]. f_equal. apply IH. congruence.
Qed.

Definition sub_shape_ok (t : tree) : Prop := forall ids t' rest,
  copy_sub t ids = Some (t', rest) ->
  well_kinded t -> (forall r, In r (rows t) -> pgs_ok r) -> NoDup (keys_of t') ->
  erase t' = erase t.

Lemma copy_list_shape : forall l, Forall sub_shape_ok l -> forall ids l' rest,
  copy_list l ids = Some (l', rest) ->
  Forall well_kinded l -> (forall r, In r (flat_map rows l) -> pgs_ok r) -> NoDup (flat_map keys_of l') ->
  map erase l' = map erase l.
Proof.
  intros l H. induction H as [|c r Hc Hr IH]; intros ids l' rest E Hwk Hpg Hnd; simpl in E.
  - inversion E; subst. reflexivity.
  - destruct (copy_sub c ids) as [[c' ids']|] eqn:E1; [|discriminate].
    destruct (copy_list r ids') as [[r' ids'']|] eqn:E2; [|discriminate]. inversion E; subst.
    inversion Hwk as [|? ? W1 W2]; subst. simpl in Hnd. apply nodup_app_iff in Hnd. destruct Hnd as [N1 [N2 _]].
    simpl. f_equal.
    + eapply Hc; [exact E1 | exact W1 | | exact N1]. intros r0 Hr0. apply Hpg. simpl. apply in_or_app. left. exact Hr0.
    + eapply IH; [exact E2 | exact W2 | | exact N2]. intros r0 Hr0. apply Hpg. simpl. apply in_or_app. right. exact Hr0.
Qed.

Theorem copy_sub_shape_all t : sub_shape_ok t.
Proof.
  induction t as [k a l IH] using tree_ind'. intros ids t' rest E Hwk Hpg Hnd. rewrite copy_sub_eq in E.
  destruct ids as [|i ids1]; [discriminate|]. destruct (fst k) eqn:Ek.
  - destruct (copy_list l ids1) as [[l' ids2]|] eqn:El; [|discriminate]. inversion E; subst.
    destruct (wk_group _ _ _ Hwk Ek) as [Ha Hl]. simpl. rewrite Ek, Ha. f_equal.
    eapply copy_list_shape; [exact IH | exact El | exact Hl | |].
    + intros r0 Hr0. apply Hpg. rewrite rows_eq. right. exact Hr0.
    + rewrite keys_of_eq in Hnd. inversion Hnd; assumption.
  - unfold copy_obj in E. destruct (Nat.ltb (length ids1) (length l + length (apgs a))) eqn:Elt; [discriminate|].
    apply Nat.ltb_ge in Elt. inversion E; subst t' rest. clear E.
    set (kid_ids := firstn (length l) ids1) in *. set (pg_ids := firstn (length (apgs a)) (skipn (length l) ids1)) in *.
    assert (Hlk : length l = length kid_ids) by (unfold kid_ids; symmetry; apply firstn_length_le; lia).
    assert (Hlp : length (apgs a) = length pg_ids) by (unfold pg_ids; symmetry; apply firstn_length_le; rewrite skipn_length; lia).
    set (L := combine l kid_ids) in *.
    apply obj_shape with (pairs := map (fun '(c, j) => (tkey c, (KD, j))) L).
    + exact Ek.
    + simpl in Hwk. rewrite Ek in Hwk. exact Hwk.
    + apply combine_map_forall2; [exact Hlk|]. intros c j. exists j. reflexivity.
    + rewrite map_map. transitivity (map tkey (map fst L)).
      * rewrite map_map. apply map_ext. intros [c j]. reflexivity.
      * unfold L. rewrite map_fst_combine by exact Hlk. reflexivity.
    + rewrite !map_map. apply map_ext. intros [c j]. reflexivity.
    + apply combine_map_forall2; [exact Hlp|]. intros g j. split; reflexivity.
    + rewrite keys_of_eq in Hnd. inversion Hnd as [|? ? _ Hn2]; subst. apply nodup_tkeys. exact Hn2.
    + intros g m Hg Hm. destruct (Hpg (k, a, map tkey l)) as [_ [_ G3]]; [rewrite rows_eq; left; reflexivity|].
      apply (G3 g m Hg Hm).
  - inversion E; subst. simpl in Hwk. rewrite Ek in Hwk. destruct Hwk as [Ha Hl]. subst l. simpl. rewrite Ek, Ha. reflexivity.
Qed.

Theorem copy_sub_shape : forall t ids t' rest,
  copy_sub t ids = Some (t', rest) ->
  well_kinded t -> (forall r, In r (rows t) -> pgs_ok r) -> NoDup (keys_of t') ->
  erase t' = erase t.
Proof. intros t. apply copy_sub_shape_all. Qed.

(* the copies of the demo history really have the shape of their sources *)
Lemma wops_demo_shape :
  let W := wrun (firstn 7 wops_demo) winit in
  match find (KG, 1%N) (wmem (wa W)), find (KG, 30%N) (wmem (wb (wrun (firstn 8 wops_demo) winit))) with
  | Some s, Some c => erase c = erase s
  | _, _ => False
  end.
Proof. vm_compute. reflexivity. Qed.

(* with fresh drawn identifiers the uniqueness hypothesis on the copy is automatic *)
Theorem copy_x_shape_fresh : forall used pgused t ids t' u' pu' rest,
  copy_x used pgused t ids = Some (t', u', pu', rest) ->
  well_kinded t -> (forall r, In r (rows t) -> pgs_ok r) ->
  cx_pre used pgused (map snd (keys_of t)) (all_pg_ids t) ids ->
  erase t' = erase t.
Proof.
  intros used pgused t ids t' u' pu' rest E Hwk Hpg Hpre.
  destruct (cx_facts t _ _ _ _ _ _ _ _ _ E (fun y H => H) (fun y H => H) Hpg Hpre) as [[D [_ [_ [_ [N1 _]]]]] _].
  eapply copy_x_shape; [exact E | exact Hwk | exact Hpg | eapply NoDup_map_inv; exact N1].
Qed.

(* ======================================================================================================== *)
(* Audit 2, A15 — the premises of the shape theorems hold in every reachable state                           *)
(* ======================================================================================================== *)
(* row-level form of [well_kinded]: only objects carry property groups, children have a kind their parent can hold *)
Definition row_ok (r : row) : Prop :=
  (fst (rkey r) <> KO -> apgs (rattrs r) = []) /\ (forall c, In c (rkids r) -> can_hold (fst (rkey r)) (fst c) = true).
Definition kind_ok (t : tree) : Prop := forall r, In r (rows t) -> row_ok r.

Lemma kind_ok_kid k a l c : kind_ok (Node k a l) -> In c l -> kind_ok c.
Proof. intros H Hc r Hr. apply H. rewrite rows_eq. right. apply in_flat_map. exists c. split; assumption. Qed.

Lemma kind_ok_node k a l : row_ok (k, a, map tkey l) -> (forall c, In c l -> kind_ok c) -> kind_ok (Node k a l).
Proof.
  intros H0 Hl r Hr. rewrite rows_eq in Hr. destruct Hr as [<-|Hr]; [exact H0|].
  apply in_flat_map in Hr. destruct Hr as [c [Hc Hr]]. exact (Hl c Hc r Hr).
Qed.

Lemma kind_ok_root k a l : kind_ok (Node k a l) -> row_ok (k, a, map tkey l).
Proof. intros H. apply H. rewrite rows_eq. left. reflexivity. Qed.

Lemma no_kids_of_data (l : list tree) : (forall c, In c (map tkey l) -> can_hold KD (fst c) = true) -> l = [].
Proof. destruct l as [|c r]; [reflexivity|]. intros H. specialize (H (tkey c) (or_introl eq_refl)). discriminate. Qed.

Lemma kind_ok_wk t : kind_ok t -> well_kinded t.
Proof.
  induction t as [k a l IH] using tree_ind'. intros H. destruct (kind_ok_root _ _ _ H) as [Ha Hk].
  unfold rkey, rattrs, rkids in Ha, Hk. simpl in Ha, Hk. simpl. destruct (fst k) eqn:Ek.
  - split; [apply Ha; discriminate|]. rewrite Forall_forall in IH.
    assert (Hl : forall c, In c l -> well_kinded c) by (intros c Hc; apply IH; [exact Hc | eapply kind_ok_kid; eassumption]).
    clear - Hl. induction l as [|c r IHr]; [exact I|]. split; [apply Hl; left; reflexivity | apply IHr; intros c' Hc'; apply Hl; right; exact Hc'].
  - intros c Hc. pose proof (Hk (tkey c) (in_map tkey _ _ Hc)) as Hh. pose proof (kind_ok_kid _ _ _ _ H Hc) as Hkc.
    destruct c as [kc ac lc]. destruct (kind_ok_root _ _ _ Hkc) as [Hac Hkk].
    unfold rkey, rattrs, rkids in Hac, Hkk. simpl in Hac, Hkk, Hh. unfold leaf_data. simpl.
    assert (Ekc : fst kc = KD) by (destruct (fst kc); simpl in Hh; try discriminate; reflexivity).
    split; [exact Ekc|]. split; [apply Hac; rewrite Ekc; discriminate|]. apply no_kids_of_data. rewrite <- Ekc. exact Hkk.
  - split; [apply Ha; discriminate | apply no_kids_of_data; exact Hk].
Qed.

(* the tree operations of the model, unconditionally *)
Lemma tkey_upd x f t : (forall s, tkey (f s) = tkey s) -> tkey (upd x f t) = tkey t.
Proof. intros Hf. destruct t as [k a l]. rewrite upd_eq. destruct (key_eqb x k); [apply Hf | reflexivity]. Qed.

Lemma upd_kind_ok x f t : (forall s, tkey (f s) = tkey s) -> (forall s, tkey s = x -> kind_ok s -> kind_ok (f s)) ->
  kind_ok t -> kind_ok (upd x f t).
Proof.
  intros Hk Hf. induction t as [k a l IH] using tree_ind'. intros H. rewrite upd_eq. keq x k.
  - apply Hf; [simpl; congruence | exact H].
  - apply kind_ok_node.
    + rewrite map_map. rewrite (map_ext _ tkey (fun c => tkey_upd x f c Hk)). apply kind_ok_root. exact H.
    + intros c Hc. apply in_map_iff in Hc. destruct Hc as [c0 [<- Hc0]]. rewrite Forall_forall in IH.
      apply IH; [exact Hc0 | eapply kind_ok_kid; eassumption].
Qed.

Lemma prune_kind_ok x t : kind_ok t -> kind_ok (prune x t).
Proof.
  induction t as [k a l IH] using tree_ind'. intros H. rewrite prune_eq. apply kind_ok_node.
  - destruct (kind_ok_root _ _ _ H) as [Ha Hkk]. split; [exact Ha|]. unfold rkey, rkids in *. simpl in *.
    intros c Hc. apply Hkk. unfold prune_list in Hc. rewrite map_map in Hc. apply in_map_iff in Hc. destruct Hc as [c0 [<- Hc0]].
    rewrite tkey_prune. apply in_map. apply filter_In in Hc0. apply Hc0.
  - intros c Hc. unfold prune_list in Hc. apply in_map_iff in Hc. destruct Hc as [c0 [<- Hc0]]. apply filter_In in Hc0.
    rewrite Forall_forall in IH. apply IH; [apply Hc0 | eapply kind_ok_kid; [exact H | apply Hc0]].
Qed.

Lemma add_kid_kind_ok c s : can_hold (fst (tkey s)) (fst (tkey c)) = true -> kind_ok c -> kind_ok s -> kind_ok (add_kid c s).
Proof.
  intros Hh Hc H. destruct s as [k a l]. simpl. apply kind_ok_node.
  - destruct (kind_ok_root _ _ _ H) as [Ha Hk]. split; [exact Ha|]. unfold rkey, rkids in *. simpl in *.
    intros y Hy. rewrite map_app in Hy. apply in_app_or in Hy. destruct Hy as [Hy|[<-|[]]]; [apply Hk; exact Hy | exact Hh].
  - intros y Hy. apply in_app_or in Hy. destruct Hy as [Hy|[<-|[]]]; [eapply kind_ok_kid; eassumption | exact Hc].
Qed.

Lemma set_attrs_kind_ok a' s : (fst (tkey s) <> KO -> apgs a' = []) -> kind_ok s -> kind_ok (set_attrs a' s).
Proof.
  intros Ha H. destruct s as [k a l]. simpl. apply kind_ok_node.
  - destruct (kind_ok_root _ _ _ H) as [_ Hk]. split; [exact Ha | exact Hk].
  - intros c Hc. eapply kind_ok_kid; eassumption.
Qed.

Lemma scrub_nil c : scrub c [] = [].
Proof. reflexivity. Qed.

Lemma forget_kind_ok x t : kind_ok t -> kind_ok (forget x t).
Proof.
  intros H. unfold forget. apply prune_kind_ok. destruct (fst x); try exact H. destruct (parent_of x t) as [p|]; [|exact H].
  apply upd_kind_ok; [intros [k a l]; reflexivity | | exact H].
  intros [k a l] _ Hs. simpl. apply kind_ok_node.
  - destruct (kind_ok_root _ _ _ Hs) as [Ha Hk]. split; [|exact Hk]. unfold rkey, rattrs in *. simpl in *.
    intros Hne. rewrite (Ha Hne). reflexivity.
  - intros c Hc. eapply kind_ok_kid; eassumption.
Qed.

Lemma found_kind_ok e t s : kind_ok t -> find e t = Some s -> kind_ok s.
Proof. intros H F r Hr. apply find_ctx in F. destruct F as [C ->]. apply H. apply rows_plug_in. left. exact Hr. Qed.

(* copies keep the kind of their root and are well kinded *)
Definition copy_kind_ok (t : tree) : Prop := forall ids t' rest, copy_sub t ids = Some (t', rest) -> kind_ok t ->
  kind_ok t' /\ fst (tkey t') = fst (tkey t).

Lemma leaf_kind_ok j a : kind_ok (Node (KD, j) (with_pgs a []) []).
Proof. intros r [<-|[]]. split; [reflexivity | intros c []]. Qed.

Lemma copy_list_kind l : Forall copy_kind_ok l -> forall ids l' rest, copy_list l ids = Some (l', rest) ->
  (forall c, In c l -> kind_ok c) -> (forall c, In c l' -> kind_ok c) /\ map (fun c => fst (tkey c)) l' = map (fun c => fst (tkey c)) l.
Proof.
  intros H. induction H as [|c r Hc Hr IH]; intros ids l' rest E Hk; simpl in E.
  - inversion E; subst. split; [intros c [] | reflexivity].
  - destruct (copy_sub c ids) as [[c' ids']|] eqn:E1; [|discriminate].
    destruct (copy_list r ids') as [[r' ids'']|] eqn:E2; [|discriminate]. inversion E; subst.
    destruct (Hc _ _ _ E1 (Hk c (or_introl eq_refl))) as [K1 K2].
    destruct (IH _ _ _ E2 (fun c0 H0 => Hk c0 (or_intror H0))) as [K3 K4].
    split; [intros y [<-|Hy]; [exact K1 | apply K3; exact Hy] | simpl; rewrite K2, K4; reflexivity].
Qed.

Lemma kinds_hold k (l l' : list tree) : map (fun c => fst (tkey c)) l' = map (fun c => fst (tkey c)) l ->
  (forall c, In c (map tkey l) -> can_hold k (fst c) = true) -> forall c, In c (map tkey l') -> can_hold k (fst c) = true.
Proof.
  intros E H c Hc. apply in_map_iff in Hc. destruct Hc as [c' [<- Hc']].
  assert (Hin : In (fst (tkey c')) (map (fun c => fst (tkey c)) l')) by (apply in_map_iff; exists c'; split; [reflexivity | exact Hc']).
  rewrite E in Hin. apply in_map_iff in Hin. destruct Hin as [c0 [E0 Hc0]]. rewrite <- E0. apply H. apply in_map. exact Hc0.
Qed.

Lemma copy_sub_kind t : copy_kind_ok t.
Proof.
  induction t as [k a l IH] using tree_ind'. intros ids t' rest E H. rewrite copy_sub_eq in E.
  destruct ids as [|i ids1]; [discriminate|]. destruct (kind_ok_root _ _ _ H) as [Ha Hk]. unfold rkey, rattrs, rkids in Ha, Hk. simpl in Ha, Hk.
  destruct (fst k) eqn:Ek.
  - destruct (copy_list l ids1) as [[l' ids2]|] eqn:El; [|discriminate]. inversion E; subst.
    destruct (copy_list_kind l IH _ _ _ El (fun c Hc => kind_ok_kid _ _ _ _ H Hc)) as [K1 K2].
    split; [|simpl; rewrite Ek; reflexivity]. apply kind_ok_node; [|exact K1].
    split; [reflexivity|]. unfold rkey, rkids. simpl. apply (kinds_hold KG l l' K2 Hk).
  - unfold copy_obj in E. destruct (Nat.ltb (length ids1) (length l + length (apgs a))); [discriminate|]. inversion E; subst.
    split; [|simpl; rewrite Ek; reflexivity]. apply kind_ok_node.
    + split; [intros Hne; exfalso; apply Hne; reflexivity|]. unfold rkey, rkids. simpl. intros c Hc.
      rewrite map_map in Hc. apply in_map_iff in Hc. destruct Hc as [[c0 j] [<- _]]. reflexivity.
    + intros c Hc. apply in_map_iff in Hc. destruct Hc as [[c0 j] [<- _]]. apply leaf_kind_ok.
  - inversion E; subst. split; [apply leaf_kind_ok | simpl; rewrite Ek; reflexivity].
Qed.

Definition cx_kind_ok (t : tree) : Prop := forall used pgused ids t' u' pu' rest,
  copy_x used pgused t ids = Some (t', u', pu', rest) -> kind_ok t -> kind_ok t' /\ fst (tkey t') = fst (tkey t).

Lemma cx_list_kind l : Forall cx_kind_ok l -> forall st l' u' pu' rest, cx_list l st = Some (l', u', pu', rest) ->
  (forall c, In c l -> kind_ok c) -> (forall c, In c l' -> kind_ok c) /\ map (fun c => fst (tkey c)) l' = map (fun c => fst (tkey c)) l.
Proof.
  intros H. induction H as [|c r Hc Hr IH]; intros [[u pu] rr] l' u' pu' rest E Hk; simpl in E.
  - inversion E; subst. split; [intros c [] | reflexivity].
  - destruct (copy_x u pu c rr) as [[[[c' u1] pu1] r1]|] eqn:E1; [|discriminate].
    destruct (cx_list r (u1, pu1, r1)) as [[[[l1 u2] pu2] r2]|] eqn:E2; [|discriminate]. inversion E; subst.
    destruct (Hc _ _ _ _ _ _ _ E1 (Hk c (or_introl eq_refl))) as [K1 K2].
    destruct (IH _ _ _ _ _ E2 (fun c0 H0 => Hk c0 (or_intror H0))) as [K3 K4].
    split; [intros y [<-|Hy]; [exact K1 | apply K3; exact Hy] | simpl; rewrite K2, K4; reflexivity].
Qed.

Lemma copy_x_kind t : cx_kind_ok t.
Proof.
  induction t as [k a l IH] using tree_ind'. intros used pgused ids t' u' pu' rest E H. rewrite copy_x_eq in E.
  destruct (pick used (snd k) ids) as [[i ids1]|]; [|discriminate].
  destruct (kind_ok_root _ _ _ H) as [Ha Hk]. unfold rkey, rattrs, rkids in Ha, Hk. simpl in Ha, Hk.
  destruct (fst k) eqn:Ek.
  - destruct (cx_list l (i :: used, pgused, ids1)) as [[[[l' u1] pu1] r1]|] eqn:El; [|discriminate]. inversion E; subst.
    destruct (cx_list_kind l IH _ _ _ _ _ El (fun c Hc => kind_ok_kid _ _ _ _ H Hc)) as [K1 K2].
    split; [|simpl; rewrite Ek; reflexivity]. apply kind_ok_node; [|exact K1].
    split; [reflexivity|]. unfold rkey, rkids. simpl. apply (kinds_hold KG l l' K2 Hk).
  - destruct (cx_kids l (i :: used, ids1)) as [[[kids u1] r1]|] eqn:Ekd; [|discriminate].
    destruct (cx_pgs (kid_cmap kids) (apgs a) (pgused, r1)) as [[[pgs' pu1] r2]|]; [|discriminate]. inversion E; subst.
    pose proof (cx_kids_shape _ _ _ _ _ Ekd) as Sk.
    split; [|simpl; rewrite Ek; reflexivity]. apply kind_ok_node.
    + split; [intros Hne; exfalso; apply Hne; reflexivity|]. unfold rkey, rkids. simpl. intros c Hc.
      rewrite map_map in Hc. apply in_map_iff in Hc. destruct Hc as [p [<- Hp]].
      destruct (forall2_in_r _ _ _ Sk p Hp) as [c0 [_ [_ [j Ej]]]]. rewrite Ej. reflexivity.
    + intros c Hc. apply in_map_iff in Hc. destruct Hc as [p [<- Hp]].
      destruct (forall2_in_r _ _ _ Sk p Hp) as [c0 [_ [_ [j Ej]]]]. rewrite Ej. apply leaf_kind_ok.
  - inversion E; subst. split; [apply leaf_kind_ok | simpl; rewrite Ek; reflexivity].
Qed.

Lemma kind_ok_equiv t t' : tree_equiv t' t -> kind_ok t -> kind_ok t'.
Proof.
  intros He H r' Hr'. destruct (rows_equiv _ _ He r' Hr') as [r [Hr [Ek [Ea Ekid]]]]. destruct (H r Hr) as [Ha Hk]. split.
  - intros Hne. rewrite <- Ek in Hne. pose proof (Ha Hne) as E0. destruct Ea as [_ [_ [_ [_ El]]]]. rewrite E0 in El.
    apply length_zero_iff_nil. exact El.
  - intros c Hc. rewrite <- Ek. apply Hk. apply Ekid. exact Hc.
Qed.

Lemma do_set_kind w e g wr : (forall a, apgs (g a) = apgs a) -> kind_ok (wmem w) -> kind_ok (wmem (fst (do_set w e g wr))).
Proof.
  intros Hg H. unfold do_set. destruct (find e (wmem w)) as [te|] eqn:F; [|exact H]. destruct (key_eqb e rootkey); [exact H|]. simpl.
  apply upd_kind_ok; [intros [k a l]; reflexivity | | exact H].
  intros s Hs Hks. apply set_attrs_kind_ok; [|exact Hks]. intros Hne. rewrite Hg.
  pose proof (found_kind_ok _ _ _ H F) as Hte. destruct te as [k a l]. destruct (kind_ok_root _ _ _ Hte) as [Ha _].
  unfold rkey, rattrs in Ha. simpl in Ha. simpl. apply Ha. apply find_tkey in F. simpl in F. rewrite F, <- Hs. exact Hne.
Qed.

Lemma forget_all_kind gone : forall t, kind_ok t -> kind_ok (forget_all gone t).
Proof. induction gone as [|g r IH]; intros t H; [exact H|]. unfold forget_all in *. simpl. apply IH. apply forget_kind_ok. exact H. Qed.

Lemma kind_ok_step w o orph : Rep (wmem w) (wfile w) (wpend w ++ orph) -> kind_ok (wmem w) -> kind_ok (wmem (fst (step w o))).
Proof.
  intros R H. destruct o as [k u p nm ar | e n | e b | e v | e q | e | e | k | | o g nm ms | o g | e q ids]; unfold step.
  - unfold do_create. destruct (find p (wmem w)) as [sp|] eqn:Fp; [|exact H].
    destruct (negb (can_hold (fst p) k) || mem_key (k, u) (keys_of (wmem w))) eqn:Ec; [exact H|]. simpl.
    apply orb_false_iff in Ec. destruct Ec as [Ec _]. apply negb_false_iff in Ec.
    apply upd_kind_ok; [intros [k0 a0 l0]; reflexivity | | exact H].
    intros s Hs Hks. apply add_kid_kind_ok; [rewrite Hs; exact Ec | | exact Hks].
    intros r [<-|[]]. split; [reflexivity | intros c []].
  - apply do_set_kind; [reflexivity | exact H].
  - apply do_set_kind; [reflexivity | exact H].
  - apply do_set_kind; [reflexivity | exact H].
  - unfold do_move. destruct (find e (wmem w)) as [te|] eqn:Fe; [|exact H]. destruct (find q (wmem w)); [|exact H].
    destruct (parent_of e (wmem w)) as [p|]; [|exact H].
    destruct (negb (can_hold (fst q) (fst e)) || mem_key q (keys_of te)) eqn:Ec; [exact H|]. destruct (key_eqb p q); [exact H|]. simpl.
    apply orb_false_iff in Ec. destruct Ec as [Ec _]. apply negb_false_iff in Ec.
    apply upd_kind_ok; [intros [k0 a0 l0]; reflexivity | | apply forget_kind_ok; exact H].
    intros s Hs Hks. apply add_kid_kind_ok; [rewrite Hs, (find_tkey _ _ _ Fe); exact Ec | exact (found_kind_ok _ _ _ H Fe) | exact Hks].
  - destruct (key_eqb e rootkey); [exact H|]. unfold do_remove_ws.
    destruct (find e (wmem w)) as [te|]; [|exact H]. destruct (parent_of e (wmem w)) as [p|]; [|exact H]. cbv zeta.
    destruct (rm_ws p _ te (wfile w)) as [f' ok]. destruct (rm_ws_done te) as [gone b]. simpl. apply (forget_all_kind gone). exact H.
  - destruct (key_eqb e rootkey); [exact H|]. unfold do_remove_parent.
    destruct (find e (wmem w)) as [te|]; [|exact H]. destruct (parent_of e (wmem w)) as [p|]; [|exact H]. simpl.
    apply forget_kind_ok. exact H.
  - exact H.
  - destruct (rep_reopen _ _ R) as [_ [He _]]. eapply kind_ok_equiv; [exact He | exact H].
  - unfold do_pg_add. destruct (find o (wmem w)) as [t|]; [|exact H].
    destruct (negb (kind_eqb (fst o) KO)) eqn:Ek; [exact H|].
    destruct (filter (fun m => kind_eqb (fst m) KD && mem_key m (kid_keys t)) ms); [exact H|]. simpl.
    apply negb_false_iff in Ek. apply kind_eqb_eq in Ek.
    apply upd_kind_ok; [intros [k0 a0 l0]; reflexivity | | exact H].
    intros s Hs Hks. apply set_attrs_kind_ok; [|exact Hks]. intros Hne. exfalso. apply Hne. rewrite Hs. exact Ek.
  - unfold do_pg_remove. destruct (find o (wmem w)) as [t|]; [|exact H].
    destruct (existsb (fun h => N.eqb (pg_id h) g) (apgs (tattrs t))); [|exact H]. simpl.
    apply upd_kind_ok; [intros [k0 a0 l0]; reflexivity | | exact H].
    intros s Hs Hks. apply set_attrs_kind_ok; [|exact Hks]. intros Hne. destruct s as [k0 a0 l0].
    destruct (kind_ok_root _ _ _ Hks) as [Ha _]. unfold rkey, rattrs in Ha. simpl in Ha, Hne. simpl. rewrite (Ha Hne). reflexivity.
  - unfold do_copy. destruct (find e (wmem w)) as [te|] eqn:Fe; [|exact H]. destruct (find q (wmem w)); [|exact H].
    destruct (negb (can_hold (fst q) (fst e)) || mem_key q (keys_of te) || key_eqb e rootkey) eqn:Ec; [exact H|].
    destruct (copy_sub te ids) as [[t' [|i r]]|] eqn:Ecp; try exact H.
    destruct (existsb (fun k => mem_key k (keys_of (wmem w))) (keys_of t')); [exact H|]. simpl.
    apply orb_false_iff in Ec. destruct Ec as [Ec _]. apply orb_false_iff in Ec. destruct Ec as [Ec _]. apply negb_false_iff in Ec.
    destruct (copy_sub_kind te _ _ _ Ecp (found_kind_ok _ _ _ H Fe)) as [K1 K2].
    apply upd_kind_ok; [intros [k0 a0 l0]; reflexivity | | exact H].
    intros s Hs Hks. apply add_kid_kind_ok; [rewrite Hs, K2, (find_tkey _ _ _ Fe); exact Ec | exact K1 | exact Hks].
Qed.

Lemma do_copy_x_kind src tgt e q ids : kind_ok (wmem src) -> kind_ok (wmem tgt) -> kind_ok (wmem (fst (do_copy_x src tgt e q ids))).
Proof.
  intros Hs H. unfold do_copy_x. destruct (find e (wmem src)) as [te|] eqn:Fe; [|exact H]. destruct (find q (wmem tgt)); [|exact H].
  destruct (negb (can_hold (fst q) (fst e)) || key_eqb e rootkey) eqn:Ec; [exact H|].
  destruct (copy_x (map snd (keys_of (wmem tgt))) (all_pg_ids (wmem tgt)) te ids) as [[[[t' u'] pu'] [|j r]]|] eqn:Ecp; try exact H.
  simpl. apply orb_false_iff in Ec. destruct Ec as [Ec _]. apply negb_false_iff in Ec.
  destruct (copy_x_kind te _ _ _ _ _ _ _ Ecp (found_kind_ok _ _ _ Hs Fe)) as [K1 K2].
  apply upd_kind_ok; [intros [k0 a0 l0]; reflexivity | | exact H].
  intros s Hq Hks. apply add_kid_kind_ok; [rewrite Hq, K2, (find_tkey _ _ _ Fe); exact Ec | exact K1 | exact Hks].
Qed.

Definition WKind (W : world) : Prop := kind_ok (wmem (wa W)) /\ kind_ok (wmem (wb W)).

Lemma init_kind_ok : kind_ok (wmem init).
Proof. intros r [<-|[]]. split; [reflexivity | intros c []]. Qed.

Lemma wkind_step W o oa ob : WInv W oa ob -> WKind W -> WKind (fst (wstep W o)).
Proof.
  intros [Ra Rb] [Ka Kb]. destruct o as [i o|i e q ids].
  - destruct (wstep_on i o W) as [E _]. rewrite E. destruct i; simpl; split; try assumption; eapply kind_ok_step; eassumption.
  - destruct (wstep_copyx i e q ids W) as [E _]. rewrite E. destruct i; simpl; split; try assumption; apply do_copy_x_kind; assumption.
Qed.

Lemma wkind_run_from ops : forall W oa ob, WInv W oa ob -> WKind W -> wfresh_run ops W = true -> WKind (wrun ops W).
Proof.
  induction ops as [|o r IH]; intros W oa ob HI HK Hf; [exact HK|].
  simpl in Hf. apply andb_true_iff in Hf. destruct Hf as [Hf1 Hf2].
  destruct (wrep_step_gen W o oa ob HI Hf1) as [oa1 [ob1 [HI1 _]]]. rewrite wrun_cons.
  eapply IH; [exact HI1 | eapply wkind_step; eassumption | exact Hf2].
Qed.

(* every state reached by a fresh world history: kinds nest as the API allows, in both workspaces, for every subtree *)
Theorem well_kinded_run : forall ops i e s, wfresh_run ops winit = true ->
  find e (wmem (wsel i (wrun ops winit))) = Some s -> well_kinded s.
Proof.
  intros ops i e s Hf F. pose proof (wkind_run_from ops winit [] [] winv_init (conj init_kind_ok init_kind_ok) Hf) as [Ka Kb].
  apply kind_ok_wk. eapply found_kind_ok; [|exact F]. destruct i; assumption.
Qed.

(* ... and every property group is well formed *)
Theorem pgs_ok_run : forall ops i e s, wfresh_run ops winit = true ->
  find e (wmem (wsel i (wrun ops winit))) = Some s -> forall r, In r (rows s) -> pgs_ok r.
Proof.
  intros ops i e s Hf F. destruct (wrep_run_from ops winit [] [] winv_init Hf) as [oa [ob [HI _]]].
  destruct (winv_sel _ _ _ i HI) as [o [R _]]. eapply rep_find_rows; eassumption.
Qed.

(* the shape theorem with its premises discharged for reachable sources *)
Theorem copy_x_shape_run : forall ops i e s used pgused ids t' u' pu' rest, wfresh_run ops winit = true ->
  find e (wmem (wsel i (wrun ops winit))) = Some s ->
  copy_x used pgused s ids = Some (t', u', pu', rest) -> NoDup (keys_of t') ->
  erase t' = erase s.
Proof.
  intros ops i e s used pgused ids t' u' pu' rest Hf F E Hn.
  eapply copy_x_shape; [exact E | eapply well_kinded_run; eassumption | eapply pgs_ok_run; eassumption | exact Hn].
Qed.

Theorem copy_sub_shape_run : forall ops i e s ids t' rest, wfresh_run ops winit = true ->
  find e (wmem (wsel i (wrun ops winit))) = Some s ->
  copy_sub s ids = Some (t', rest) -> NoDup (keys_of t') ->
  erase t' = erase s.
Proof.
  intros ops i e s ids t' rest Hf F E Hn.
  eapply copy_sub_shape; [exact E | eapply well_kinded_run; eassumption | eapply pgs_ok_run; eassumption | exact Hn].
Qed.

(* non-vacuity by INSTANTIATING the premises: the second copy of the demo history (G1 of A into B, every identifier
   re-drawn) -- the source is found in a reached state, the copy is what copy_x computes, its keys are distinct *)
Lemma wops_demo_shape_inst :
  match find (KG, 1%N) (wmem (wa (wrun (firstn 7 wops_demo) winit))) with
  | Some s =>
      match copy_x (map snd (keys_of (wmem (wb (wrun (firstn 7 wops_demo) winit)))))
                   (all_pg_ids (wmem (wb (wrun (firstn 7 wops_demo) winit)))) s [30; 31; 32; 33; 34]%N with
      | Some (t', _, _, _) => keys_of t' = [(KG, 30%N); (KO, 31%N); (KD, 32%N); (KD, 33%N)] /\ erase t' = erase s
      | None => False
      end
  | None => False
  end.
Proof.
  destruct (find (KG, 1%N) (wmem (wa (wrun (firstn 7 wops_demo) winit)))) as [s|] eqn:F; [|vm_compute in F; discriminate].
  destruct (copy_x (map snd (keys_of (wmem (wb (wrun (firstn 7 wops_demo) winit)))))
                   (all_pg_ids (wmem (wb (wrun (firstn 7 wops_demo) winit)))) s [30; 31; 32; 33; 34]%N)
    as [[[[t' u] pu] r]|] eqn:E.
  - pose proof F as F0. vm_compute in F0. inversion F0; subst s. clear F0.
    pose proof E as E0. vm_compute in E0. inversion E0; subst t' u pu r. clear E0.
    split; [reflexivity|].
    eapply (copy_x_shape_run (firstn 7 wops_demo) false (KG, 1%N)); [vm_compute; reflexivity | exact F | exact E |].
    repeat constructor; simpl; intuition discriminate.
  - exfalso. pose proof F as F0. vm_compute in F0. inversion F0; subst s. vm_compute in E. discriminate.
Qed.

(* a world history that ends with a dead GROUP pending in B: the hypothesis of wclose_valid is met non-trivially *)
Definition wops_dead_group : list wop :=
  [On false (Create KG 1 rootkey 10 0); On false (Create KO 2 (KG, 1%N) 5 6);
   CopyX false (KG, 1%N) rootkey [];
   On true (Create KG 7 rootkey 11 0); On true (RemoveParent (KG, 7%N))].

Lemma wops_dead_group_ok :
  wfresh_run wops_dead_group winit = true /\ wclean_run wops_dead_group winit = true /\
  wpend (wb (wrun wops_dead_group winit)) = [(KG, 7%N)].
Proof. vm_compute. repeat split. Qed.

Lemma wops_dead_group_valid : Valid (wfile (close_file (wsel true (wrun wops_dead_group winit)))).
Proof.
  apply (wclose_valid wops_dead_group true); [apply wops_dead_group_ok | apply wops_dead_group_ok |].
  intros k Hk. vm_compute in Hk. destruct Hk as [<-|[]]. reflexivity.
Qed.
