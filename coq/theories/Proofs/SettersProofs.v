(* C03 — proofs about the generic setter model (Model/Setters.v). *)
From GV Require Import Prelude.Base Model.Setters.

Lemma memN_In x l : memN x l = true <-> In x l.
Proof.
  unfold memN. rewrite existsb_exists. split.
  - intros [y [Hy E]]. apply N.eqb_eq in E. subst. exact Hy.
  - intros H. exists x. split; [exact H | apply N.eqb_refl].
Qed.

(* ---------------------------------------------------------------- unrolling keeps the persistence calls *)
Lemma later_unroll f p q : unroll p q -> later f p = true -> existsb (persists f) q = true.
Proof.
  induction 1 as [|e r q H IH|bs r q H IH|bs b r q Hb H IH]; simpl; intros Hl.
  - discriminate.
  - apply orb_true_iff in Hl as [Hl|Hl]; [rewrite Hl; reflexivity | rewrite (IH Hl); apply orb_true_r].
  - apply IH; exact Hl.
  - rewrite existsb_app. rewrite (IH Hl). apply orb_true_r.
Qed.

Lemma body_ok_app w b cont q :
  body_ok w b cont = true ->
  (forall f, later f cont = true -> existsb (persists f) q = true) ->
  sp_ok w q = true -> sp_ok w (b ++ q) = true.
Proof.
  intros Hb Hc Hq. induction b as [|x r IH]; simpl in *; [exact Hq|].
  destruct x; try (apply IH; exact Hb); try discriminate.
  apply andb_true_iff in Hb as [H1 H2]. apply andb_true_iff. split; [|apply IH; exact H2].
  rewrite existsb_app.
  apply orb_true_iff in H1 as [H1|H1].
  - apply orb_true_iff in H1 as [H1|H1]; [rewrite H1; reflexivity | rewrite H1; rewrite orb_true_r; reflexivity].
  - rewrite (Hc _ H1). rewrite !orb_true_r. reflexivity.
Qed.

Lemma fp_ok_unroll w p q : unroll p q -> fp_ok w p = true -> sp_ok w q = true.
Proof.
  induction 1 as [|e r q H IH|bs r q H IH|bs b r q Hb H IH]; simpl; intros Hok.
  - reflexivity.
  - destruct e; try (apply IH; exact Hok); try discriminate.
    apply andb_true_iff in Hok as [H1 H2]. apply andb_true_iff. split; [|apply IH; exact H2].
    apply orb_true_iff in H1 as [H1|H1]; [rewrite H1; reflexivity|].
    rewrite (later_unroll f _ _ H H1). apply orb_true_r.
  - apply andb_true_iff in Hok as [_ H2]. apply IH; exact H2.
  - pose proof Hok as Hok'. apply andb_true_iff in Hok as [H1 H2].
    rewrite forallb_forall in H1. specialize (H1 _ Hb).
    apply body_ok_app with (cont := r); [exact H1| |apply IH; exact Hok'].
    intros f Hf. apply (later_unroll f _ _ H). simpl. exact Hf.
Qed.

(* ---------------------------------------------------------------- soundness on a simple path *)
Lemma step_onf e x v : onf e = true -> onf (step e x v) = true.
Proof. intros H. destruct x; simpl; try rewrite H; simpl; auto; destruct (handle_ok e); simpl; auto. Qed.

Lemma step_rule e x v : nrule (step e x v) = nrule e /\ wsname (step e x v) = wsname e.
Proof. destruct x; simpl; auto; destruct (onf e && handle_ok e); simpl; auto. Qed.

(* the name in memory never becomes the project's name, so every persistence call reaches the entity's own node *)
Definition name_inv (e : ent) : Prop := nrule e = false \/ mem e NAME <> wsname e.

Lemma name_inv_handle e : name_inv e -> handle_ok e = true.
Proof.
  unfold name_inv, handle_ok. intros [H|H]; [rewrite H; reflexivity|].
  destruct (nrule e); [|reflexivity]. simpl. apply negb_true_iff. apply N.eqb_neq. exact H.
Qed.

Lemma name_inv_step e x v : name_inv e -> (nrule e = false \/ v <> wsname e) -> name_inv (step e x v).
Proof.
  intros Hi Hv. destruct (step_rule e x v) as [R W]. unfold name_inv. rewrite R, W.
  destruct Hi as [Hi|Hi]; [left; exact Hi|]. destruct Hv as [Hv|Hv]; [left; exact Hv|]. right.
  destruct x; simpl; try exact Hi.
  - unfold upd. destruct (N.eqb NAME f); [exact Hv | exact Hi].
  - destruct (onf e && handle_ok e); simpl; exact Hi.
  - destruct (onf e && handle_ok e); simpl; exact Hi.
Qed.

Lemma sp_sound w p : forall k vals e,
  sp_ok w p = true -> onf e = true -> name_inv e -> (nrule e = false \/ forall j, vals j <> wsname e) ->
  (forall f, In f w -> mem e f <> sto e f -> existsb (persists f) p = true) ->
  in_sync w (run p k vals e).
Proof.
  induction p as [|x r IH]; intros k vals e Hok Hon Hni Hv Hd; simpl.
  - intros f Hf. destruct (N.eq_dec (mem e f) (sto e f)) as [E|E]; [exact E|].
    specialize (Hd f Hf E). discriminate.
  - pose proof (name_inv_handle e Hni) as Hh.
    destruct (step_rule e x (vals k)) as [R W].
    apply IH.
    + destruct x; simpl in Hok; try exact Hok; try discriminate.
      apply andb_true_iff in Hok as [_ H]; exact H.
    + apply step_onf; exact Hon.
    + apply name_inv_step; [exact Hni|]. destruct Hv as [Hv|Hv]; [left; exact Hv | right; apply Hv].
    + rewrite R, W. exact Hv.
    + intros f Hf Hne. destruct x; simpl in *.
      * (* FStore f0 *)
        unfold upd in Hne. destruct (N.eqb f f0) eqn:E.
        -- apply N.eqb_eq in E. subst f0. apply andb_true_iff in Hok as [H1 _].
           apply orb_true_iff in H1 as [H1|H1]; [|exact H1].
           apply negb_true_iff in H1. apply memN_In in Hf. congruence.
        -- apply (Hd f Hf Hne).
      * (* FPersist *)
        rewrite Hon, Hh in Hne. simpl in Hne. destruct (memN f fs) eqn:E; [congruence|].
        specialize (Hd f Hf Hne). rewrite E in Hd. exact Hd.
      * (* FPersistAll *)
        rewrite Hon, Hh in Hne. simpl in Hne. congruence.
      * discriminate.
      * (* FPersistIf: a no-op *)
        apply (Hd f Hf Hne).
Qed.

Theorem write_through_sound w p q vals e :
  fp_ok w p = true -> unroll p q -> onf e = true -> name_safe e vals -> in_sync w e -> in_sync w (run q 0 vals e).
Proof.
  intros Hok Hu Hon Hn Hs. apply sp_sound; [eapply fp_ok_unroll; eassumption | exact Hon| | |].
  - destruct Hn as [Hn|[Hn _]]; [left; exact Hn | right; exact Hn].
  - destruct Hn as [Hn|[_ Hn]]; [left; exact Hn | right; exact Hn].
  - intros f Hf Hne. exfalso. apply Hne. apply Hs; exact Hf.
Qed.

(* ---------------------------------------------------------------- the value that ends up in memory (and, in sync, in the file) *)
Lemma step_mem e x v f :
  mem (step e x v) f = match x with FStore g => if N.eqb f g then v else mem e f | _ => mem e f end.
Proof. destruct x; simpl; try reflexivity; destruct (onf e && handle_ok e); reflexivity. Qed.

Lemma run_mem_last f p : forall k vals e,
  mem (run p k vals e) f = match last_store f p k with Some i => vals i | None => mem e f end.
Proof.
  induction p as [|x r IH]; intros k vals e; simpl; [reflexivity|].
  rewrite IH. destruct (last_store f r (S k)); [reflexivity|].
  rewrite step_mem. destruct x; try reflexivity. destruct (N.eqb f f0); reflexivity.
Qed.

Theorem assigned_value_is_stored w p q vals e f i :
  fp_ok w p = true -> unroll p q -> onf e = true -> name_safe e vals -> in_sync w e -> In f w -> last_store f q 0 = Some i ->
  mem (run q 0 vals e) f = vals i /\ sto (run q 0 vals e) f = vals i.
Proof.
  intros Hok Hu Hon Hn Hs Hf Hl.
  pose proof (write_through_sound _ _ _ vals _ Hok Hu Hon Hn Hs f Hf) as E.
  pose proof (run_mem_last f q 0 vals e) as M. rewrite Hl in M. split; congruence.
Qed.

(* without a persistence call that routes f, the file never sees the store *)
Lemma no_persist_sto f p : forall k vals e,
  existsb (persists f) p = false -> sto (run p k vals e) f = sto e f.
Proof.
  induction p as [|x r IH]; intros k vals e H; simpl in *; [reflexivity|].
  apply orb_false_iff in H as [H1 H2]. rewrite IH by exact H2.
  destruct x; simpl in *; try reflexivity; destruct (onf e && handle_ok e); simpl; try reflexivity.
  - rewrite H1. reflexivity.
  - discriminate.
Qed.

(* ---------------------------------------------------------------- pairs *)
Theorem pair_sound T C q :
  pair_safe T C q = true ->
  forall p, In p (pair_paths T C false q) ->
  forall u vals e, unroll p u -> onf e = true -> name_safe e vals -> in_sync (pair_watch C q) e ->
  in_sync (pair_watch C q) (run u 0 vals e).
Proof.
  intros Hs p Hp u vals e Hu Hon Hn He. unfold pair_safe in Hs. rewrite forallb_forall in Hs.
  eapply write_through_sound; eauto.
Qed.

Lemma unroll01_unroll p : forall u, In u (unroll01 p) -> unroll p u.
Proof.
  induction p as [|x r IH]; simpl; intros u Hu.
  - destruct Hu as [<-|[]]. constructor.
  - destruct x as [e|bs].
    + apply in_map_iff in Hu as [u' [<- Hu']]. constructor. apply IH; exact Hu'.
    + apply in_app_iff in Hu as [Hu|Hu].
      * apply un_done. apply IH; exact Hu.
      * apply in_flat_map in Hu as [b [Hb Hu]]. apply in_map_iff in Hu as [u' [<- Hu']].
        apply un_iter; [exact Hb|]. apply un_done. apply IH; exact Hu'.
Qed.

Lemma in_syncb_spec w e : in_syncb w e = true <-> in_sync w e.
Proof.
  unfold in_syncb, in_sync. rewrite forallb_forall. split; intros H f Hf.
  - apply N.eqb_eq. apply H; exact Hf.
  - apply N.eqb_eq. apply H; exact Hf.
Qed.

Lemma e0_in_sync w : in_sync w e0.
Proof. intros f _. reflexivity. Qed.

(* a computed loss is a loss of the model: an entity whose memory and file agree, a setter path that ends normally,
   and afterwards they differ *)
Theorem pair_lost_witness T C q :
  pair_lost T C q = true ->
  exists p u, In p (pair_paths T C false q) /\ unroll p u /\ no_bad u = true /\
              onf e0 = true /\ in_sync (check_fields T C q) e0 /\ ~ in_sync (check_fields T C q) (run u 0 vals0 e0).
Proof.
  unfold pair_lost. intros H. apply existsb_exists in H as [p [Hp H]]. apply existsb_exists in H as [u [Hu H]].
  exists p, u. unfold path_loses in H. apply andb_true_iff in H as [Hb Hn].
  split; [exact Hp|]. split; [apply unroll01_unroll; exact Hu|]. split; [exact Hb|].
  split; [reflexivity|]. split; [apply e0_in_sync|].
  intros Hs. apply in_syncb_spec in Hs. rewrite Hs in Hn. discriminate.
Qed.
