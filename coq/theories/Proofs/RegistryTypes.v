(* Proofs about Model/Registry.v, part 3 (property C06): one type per class as an invariant of all histories. *)
From GV Require Import Prelude.Base Model.Registry Proofs.RegistryProofs Proofs.RegistryTheorems.

Definition is_go (k : kind) : Prop := k = KGroup \/ k = KObject.

(* every live group / object holds the live type registered under its class's identifier in its workspace *)
Definition typed (w : st) : Prop :=
  forall e, e < n w -> alive w e = true -> is_go (ekind (E w e)) ->
    In (tuid (ecls (E w e)), etype (E w e)) (R w (ews (E w e)) KType) /\ alive w (etype (E w e)) = true.

(* changes that the invariant cannot see *)
Record tsame (w w' : st) : Prop := {
  ts_n : n w' = n w;
  ts_dead : dead w' = dead w;
  ts_R : forall ws, R w' ws KType = R w ws KType;
  ts_E : forall e, ekind (E w' e) = ekind (E w e) /\ ecls (E w' e) = ecls (E w e) /\ ews (E w' e) = ews (E w e) /\ etype (E w' e) = etype (E w e) }.

Arguments ts_n {w w'}. Arguments ts_dead {w w'}. Arguments ts_R {w w'}. Arguments ts_E {w w'}.

Lemma tsame_refl w : tsame w w.
Proof. constructor; try reflexivity. intros e. repeat split; reflexivity. Qed.

Lemma tsame_trans a b c : tsame a b -> tsame b c -> tsame a c.
Proof.
  intros T1 T2. constructor.
  - rewrite (ts_n T2). apply (ts_n T1).
  - rewrite (ts_dead T2). apply (ts_dead T1).
  - intros ws. rewrite (ts_R T2 ws). apply (ts_R T1).
  - intros e. destruct (ts_E T1 e) as [A [B [C D]]]. destruct (ts_E T2 e) as [A' [B' [C' D']]]. repeat split; congruence.
Qed.

Lemma typed_tsame w w' : tsame w w' -> typed w -> typed w'.
Proof.
  intros [Hn Hd HR HE] T e He Ha Hk.
  assert (Hal : forall x, alive w' x = alive w x) by (intros x; unfold alive; rewrite Hd; reflexivity).
  destruct (HE e) as [A [B [C D]]]. rewrite A in Hk. rewrite B, C, D, HR, Hal. apply T; [lia | rewrite <- Hal; exact Ha | exact Hk].
Qed.

Lemma tsame_E w w' : n w' = n w -> dead w' = dead w -> R w' = R w -> E w' = E w -> tsame w w'.
Proof. intros Hn Hd HR HE. constructor; try assumption; [intros ws; rewrite HR; reflexivity | intros e; rewrite HE; repeat split; reflexivity]. Qed.

Lemma tsame_upd w x f :
  (forall r, ekind (f r) = ekind r /\ ecls (f r) = ecls r /\ ews (f r) = ews r /\ etype (f r) = etype r) -> tsame w (upd w x f).
Proof. intros Hf. constructor; try reflexivity. intros e. simpl. destruct (Nat.eqb e x); [apply Hf | repeat split; reflexivity]. Qed.

Lemma tsame_set_R w ws k d : k <> KType -> tsame w (set_R w ws k d).
Proof.
  intros Hk. constructor; try reflexivity; [|intros e; repeat split; reflexivity].
  intros ws'. apply R_set_R_other. intros H. inversion H. congruence.
Qed.

Lemma tsame_set_flat w ws l : tsame w (set_flat w ws l).
Proof. apply tsame_E; reflexivity. Qed.

Lemma tsame_take_fresh w : tsame w (fst (take_fresh w)).
Proof. apply tsame_E; reflexivity. Qed.

Lemma tsame_add_child w p x : tsame w (add_child w p x).
Proof.
  unfold add_child. destruct (ekind (E w p)); try (apply tsame_upd; intros r; repeat split; reflexivity).
  destruct (memb _ _); [apply tsame_refl | apply tsame_upd; intros r; repeat split; reflexivity].
Qed.

Lemma tsame_save_flat w ws k u : tsame w (save_flat w ws k u).
Proof. unfold save_flat. destruct (_ && _); [apply tsame_set_flat | apply tsame_refl]. Qed.

Lemma tsame_save_node w ws par k u : tsame w (save_node w ws par k u).
Proof. destruct (save_node_facts w ws par k u) as [A [_ [B [C D]]]]. apply tsame_E; assumption. Qed.

Lemma tsame_set_links w ws l : tsame w (set_links w ws l).
Proof. apply tsame_E; reflexivity. Qed.

Lemma tsame_find_in w ws k u : k <> KType -> tsame w (fst (find_in w ws k u)).
Proof. intros Hk. unfold find_in. destruct (get_clean_ref _ _ _) as [d r]. apply tsame_set_R. exact Hk. Qed.

Lemma tsame_get_entity w ws u : tsame w (fst (get_entity w ws u)).
Proof.
  unfold get_entity.
  pose proof (tsame_find_in w ws KGroup u ltac:(discriminate)) as T1. destruct (find_in w ws KGroup u) as [w1 [x|]]; [exact T1|].
  pose proof (tsame_find_in w1 ws KData u ltac:(discriminate)) as T2. destruct (find_in w1 ws KData u) as [w2 [x|]]; [eapply tsame_trans; eassumption|].
  pose proof (tsame_find_in w2 ws KObject u ltac:(discriminate)) as T3. destruct (find_in w2 ws KObject u) as [w3 [x|]];
    [eapply tsame_trans; [exact T1 | eapply tsame_trans; eassumption]|].
  pose proof (tsame_find_in w3 ws KPG u ltac:(discriminate)) as T4. simpl in *.
  eapply tsame_trans; [exact T1 | eapply tsame_trans; [exact T2 | eapply tsame_trans; eassumption]].
Qed.

Lemma tsame_touch w ws k u : tsame w (touch_metadata w ws k u).
Proof. unfold touch_metadata. destruct (kidx_storable k); [apply tsame_get_entity | apply tsame_refl]. Qed.

Lemma tsame_copy_uid w ws u : tsame w (fst (copy_uid w ws u)).
Proof.
  unfold copy_uid. pose proof (tsame_get_entity w ws u) as T. destruct (get_entity w ws u) as [w1 [x|]]; simpl in *; [|exact T].
  eapply tsame_trans; [exact T | apply tsame_take_fresh].
Qed.

Lemma tsame_pick w u : tsame w (fst (pick_uid w u)).
Proof. destruct u; simpl; [apply tsame_E; reflexivity | apply tsame_refl]. Qed.

(* ---------------- the registry of the types ---------------- *)
Lemma typed_types_sub w ws d :
  (forall u e, In (u, e) (R w ws KType) -> alive w e = true -> In (u, e) d) ->
  typed w -> typed (set_R w ws KType d).
Proof.
  intros Hkeep T e He Ha Hk. destruct (T e He Ha Hk) as [Hin Hal]. split; [|exact Hal].
  simpl E. destruct (Nat.eq_dec (ews (E w e)) ws) as [Hw|Hw].
  - rewrite Hw in *. rewrite R_set_R_same. apply Hkeep; assumption.
  - rewrite R_set_R_other; [exact Hin|]. intros H. inversion H. congruence.
Qed.

Lemma typed_clean_types w ws u : good w -> typed w -> typed (set_R w ws KType (fst (get_clean_ref (alive w) (R w ws KType) u))).
Proof.
  intros G T. apply typed_types_sub; [|exact T]. intros u' e Hin Hal. unfold get_clean_ref.
  destruct (dget (R w ws KType) u) as [e0|] eqn:Eg; [|exact Hin].
  destruct (alive w e0) eqn:Ea; [exact Hin|]. simpl.
  destruct (Nat.eq_dec u' u) as [->|Hne]; [|apply In_ddel_other; assumption].
  apply (dget_In _ _ _ (g_nodup G ws KType)) in Hin. rewrite Hin in Eg. inversion Eg; subst. congruence.
Qed.

Lemma typed_sweep_types w ws : typed w -> typed (set_R w ws KType (remove_none_referents (alive w) (R w ws KType))).
Proof. intros T. apply typed_types_sub; [|exact T]. intros u e Hin Ha. apply filter_In. split; assumption. Qed.

Lemma typed_alloc w r :
  good w -> typed w ->
  (is_go (ekind r) -> In (tuid (ecls r), etype r) (R w (ews r) KType) /\ alive w (etype r) = true) ->
  typed (fst (alloc w r)).
Proof.
  intros G T Hr e He Ha Hk. simpl in *. unfold alive in *. simpl in *.
  destruct (Nat.eqb e (n w)) eqn:E0; [apply Hr; exact Hk|]. apply Nat.eqb_neq in E0.
  apply T; [lia | exact Ha | exact Hk].
Qed.

Lemma typed_insert_type w ws key t d props :
  good w -> typed w -> insert_once (alive w) (R w ws KType) key t = Some d ->
  ekind (E w t) = KType ->
  typed (upd (set_R w ws KType d) t (fun r => with_reg r props)).
Proof.
  intros G T Hins Hkt.
  apply (typed_tsame (set_R w ws KType d)); [apply tsame_upd; intros r; repeat split; reflexivity|].
  apply typed_types_sub; [|exact T].
  intros u e Hin Hal. unfold insert_once in Hins.
  destruct (dget (R w ws KType) key) as [e0|] eqn:Eg.
  - destruct (alive w e0) eqn:Ea; [discriminate|]. inversion Hins; subst d.
    apply In_dset_other; [|exact Hin]. intros ->. apply (dget_In _ _ _ (g_nodup G ws KType)) in Hin. rewrite Hin in Eg. inversion Eg; subst. congruence.
  - inversion Hins; subst d. apply In_dset_other; [|exact Hin]. intros ->. apply (dget_None _ _ Eg). eapply in_keys. exact Hin.
Qed.

Lemma typed_kill w es : good w -> typed w -> (forall x, In x es -> ekind (E w x) <> KType) -> typed (kill w es).
Proof.
  intros G T Hes e He Ha Hk. simpl in He. change (E (kill w es)) with (E w) in *. change (R (kill w es)) with (R w).
  unfold alive, kill in Ha. simpl in Ha. apply negb_true_iff in Ha.
  set (dd := dead w ++ filter (fun x => negb (memb x (dead w))) es) in *.
  assert (Hdd : memb e dd = false).
  { destruct (memb e dd) eqn:Em; [|reflexivity]. apply memb_In in Em.
    assert (memb e (dd ++ filter (fun t => negb (memb t dd) && type_orphan w dd t) (seq 0 (n w))) = true) by (apply memb_In, in_or_app; left; exact Em).
    congruence. }
  assert (Hold : alive w e = true).
  { unfold alive. apply negb_true_iff. destruct (memb e (dead w)) eqn:Em; [|reflexivity]. apply memb_In in Em.
    assert (memb e dd = true) by (apply memb_In, in_or_app; left; exact Em). congruence. }
  destruct (T e He Hold Hk) as [Hin Hal]. split; [exact Hin|].
  set (t := etype (E w e)) in *.
  destruct (g_entry G _ _ _ _ Hin) as [Htn [_ [Htk _]]].
  unfold alive, kill. simpl. fold dd. apply negb_true_iff.
  match goal with |- memb t ?l = false => destruct (memb t l) eqn:Em end; [|reflexivity]. exfalso.
  apply memb_In in Em. apply in_app_or in Em as [Em|Em].
  - apply in_app_or in Em as [Em|Em].
    + unfold alive in Hal. apply negb_true_iff in Hal. apply memb_In in Em. congruence.
    + apply filter_In in Em as [Em _]. exact (Hes t Em Htk).
  - apply filter_In in Em as [_ Em]. apply andb_true_iff in Em as [_ Em].
    unfold type_orphan in Em. apply andb_true_iff in Em as [_ Em]. apply negb_true_iff in Em.
    assert (Hex : existsb (fun x => negb (memb x dd) && negb (kind_eqb (ekind (E w x)) KType) && Nat.eqb (etype (E w x)) t
                    && negb (kind_eqb (ekind (E w x)) KData) && negb (kind_eqb (ekind (E w x)) KPG)) (seq 0 (n w)) = true).
    { apply existsb_exists. exists e. split; [apply in_seq; lia|].
      rewrite Hdd. unfold t. rewrite Nat.eqb_refl. destruct Hk as [Hk|Hk]; rewrite Hk; reflexivity. }
    congruence.
Qed.

(* ---------------- constructors ---------------- *)
Lemma alive_new w : good w -> alive w (n w) = true.
Proof.
  intros G. unfold alive. destruct (memb (n w) (dead w)) eqn:Em; [|reflexivity].
  apply memb_In in Em. pose proof (g_dead G _ Em). lia.
Qed.

Lemma typed_construct c w ws k cls par u ty props :
  good w -> typed w -> u < fresh w -> k <> KType ->
  (is_go k -> In (tuid cls, ty) (R w ws KType) /\ alive w ty = true) ->
  typed (fst (fst (construct c w ws k cls par u ty props))).
Proof.
  intros G T Hu Hk Hty. unfold construct.
  destruct (alloc_facts w (blank u k ws cls par ty)) as [Hx [Hn [HE [Hd [HR Hf]]]]].
  pose proof (good_alloc w (blank u k ws cls par ty) G Hu eq_refl) as G1.
  pose proof (typed_alloc w (blank u k ws cls par ty) G T Hty) as T1.
  destruct (alloc w (blank u k ws cls par ty)) as [w1 x]. simpl in *. subst x.
  pose proof (add_child_good w1 par (n w) G1) as G2.
  pose proof (tsame_add_child w1 par (n w)) as S2.
  destruct (add_child_facts w1 par (n w)) as [Hn2 [Hd2 [HR2 [Hf2 Hs2]]]].
  set (w2 := add_child w1 par (n w)) in *.
  assert (T2 : typed w2) by (eapply typed_tsame; eassumption).
  assert (Hxn : n w < n w2) by (rewrite Hn2, Hn; lia).
  assert (Hal : alive w2 (n w) = true) by (unfold alive; rewrite Hd2, Hd; apply (alive_new w G)).
  destruct (Hs2 (n w)) as [S1 [S2' [S3 S4]]]. rewrite HE in S1, S2', S3, S4. simpl in S1, S2', S3, S4.
  assert (Kx : forall w', tsame w2 w' -> ekind (E w' (n w)) = k) by (intros w' Sw; rewrite (proj1 (ts_E Sw (n w))); exact S2').
  destruct (insert_once (alive w2) (R w2 ws k) u (n w)) as [d|] eqn:Hins; cbn [fst].
  - pose proof (good_insert w2 ws k u (n w) d props G2 Hxn Hal S4 S1 S2' S3 Hins) as G3.
    set (w3 := upd (set_R w2 ws k d) (n w) (fun r => with_reg r props)) in *.
    assert (S3' : tsame w2 w3).
    { eapply tsame_trans; [apply tsame_set_R; exact Hk | apply tsame_upd; intros r; repeat split; reflexivity]. }
    set (w4 := touch_metadata (save_node w3 ws par k u) ws k u).
    assert (S4' : tsame w2 w4).
    { eapply tsame_trans; [exact S3'|]. eapply tsame_trans; [apply tsame_save_node | apply tsame_touch]. }
    assert (G4 : good w4) by (apply good_touch, good_save_node, G3).
    assert (T4 : typed w4) by (eapply typed_tsame; eassumption).
    destruct (memb (n w) (ech (E w4 par))); [exact T4|].
    apply typed_kill; [exact G4 | exact T4|]. intros y [<-|[]]. rewrite (Kx w4 S4'). exact Hk.
  - set (w2' := if rollback c then upd w2 par (fun r => with_ch r (remove_one (n w) (ech r)) (remove_one (n w) (epgs r))) else w2).
    assert (S2'' : tsame w2 w2').
    { unfold w2'. destruct (rollback c); [apply tsame_upd; intros r; repeat split; reflexivity | apply tsame_refl]. }
    assert (G2' : good w2').
    { unfold w2'. destruct (rollback c); [apply good_upd_ch; [intros r; apply with_ch_ids | exact G2] | exact G2]. }
    assert (T2' : typed w2') by (eapply typed_tsame; eassumption).
    destruct (memb (n w) (ech (E w2' par))); [exact T2'|].
    apply typed_kill; [exact G2' | exact T2'|]. intros y [<-|[]]. rewrite (Kx w2' S2''). exact Hk.
Qed.

Lemma dget_ddel_same d k : NoDup (keys d) -> dget (ddel d k) k = None.
Proof.
  unfold keys. induction d as [|[k0 v0] r IH]; simpl; intros ND; [reflexivity|].
  inversion ND as [|? ? Hk NDr]; subst. destruct (Nat.eqb k k0) eqn:E0.
  - apply Nat.eqb_eq in E0. subst k0. destruct (dget r k) as [v|] eqn:Eg; [|reflexivity].
    exfalso. apply Hk. eapply in_keys. apply (dget_In r k v NDr). exact Eg.
  - simpl. rewrite E0. apply IH. exact NDr.
Qed.

Lemma typed_type w ws cls :
  good w -> typed w ->
  typed (fst (find_or_create_type w ws cls))
  /\ In (tuid cls, snd (find_or_create_type w ws cls)) (R (fst (find_or_create_type w ws cls)) ws KType)
  /\ alive (fst (find_or_create_type w ws cls)) (snd (find_or_create_type w ws cls)) = true.
Proof.
  intros G T. assert (Hc : tuid cls < fresh w) by (pose proof (g_f100 G); unfold tuid; lia).
  unfold find_or_create_type.
  pose proof (good_clean w ws KType (tuid cls) G) as G1.
  pose proof (typed_clean_types w ws (tuid cls) G T) as T1.
  assert (Hget : match snd (get_clean_ref (alive w) (R w ws KType) (tuid cls)) with
                 | Some t => In (tuid cls, t) (fst (get_clean_ref (alive w) (R w ws KType) (tuid cls))) /\ alive w t = true
                 | None => dget (fst (get_clean_ref (alive w) (R w ws KType) (tuid cls))) (tuid cls) = None
                 end).
  { unfold get_clean_ref. destruct (dget (R w ws KType) (tuid cls)) as [e0|] eqn:Eg.
    - destruct (alive w e0) eqn:Ea; simpl.
      + split; [apply (dget_In _ _ _ (g_nodup G ws KType)); exact Eg | exact Ea].
      + apply dget_ddel_same. apply (g_nodup G).
    - simpl. exact Eg. }
  destruct (get_clean_ref (alive w) (R w ws KType) (tuid cls)) as [d [t|]]; cbn [fst snd] in *.
  - destruct Hget as [Hin Hal]. split; [exact T1|]. split; [rewrite R_set_R_same; exact Hin | exact Hal].
  - set (w1 := set_R w ws KType d) in *.
    destruct (alloc_facts w1 (blank (tuid cls) KType ws cls 0 0)) as [Hx [Hn [HE [Hd [HR Hf]]]]].
    pose proof (good_alloc w1 (blank (tuid cls) KType ws cls 0 0) G1 Hc eq_refl) as G2.
    assert (T2 : typed (fst (alloc w1 (blank (tuid cls) KType ws cls 0 0)))).
    { apply typed_alloc; [exact G1 | exact T1|]. simpl. intros [H|H]; discriminate. }
    destruct (alloc w1 (blank (tuid cls) KType ws cls 0 0)) as [w2 t]. cbn [fst snd] in *. subst t.
    change (n w1) with (n w) in *.
    assert (Hg2 : dget (R w2 ws KType) (tuid cls) = None) by (rewrite HR; unfold w1; rewrite R_set_R_same; exact Hget).
    unfold insert_once. rewrite Hg2. cbn [fst snd].
    assert (Hins : insert_once (alive w2) (R w2 ws KType) (tuid cls) (n w) = Some (dset (R w2 ws KType) (tuid cls) (n w)))
      by (unfold insert_once; rewrite Hg2; reflexivity).
    split; [|split].
    + apply (typed_insert_type w2 ws (tuid cls) (n w) _ [] G2 T2 Hins). rewrite HE. reflexivity.
    + change (R (upd (set_R w2 ws KType (dset (R w2 ws KType) (tuid cls) (n w))) (n w) (fun r => with_reg r [])))
        with (R (set_R w2 ws KType (dset (R w2 ws KType) (tuid cls) (n w)))).
      rewrite R_set_R_same. apply In_dset_same.
    + unfold alive. change (dead (upd (set_R w2 ws KType (dset (R w2 ws KType) (tuid cls) (n w))) (n w) (fun r => with_reg r []))) with (dead w2).
      rewrite Hd. apply (alive_new w G).
Qed.

Lemma typed_good_type w ws cls :
  good w -> typed w ->
  good (fst (find_or_create_type w ws cls)) /\ typed (fst (find_or_create_type w ws cls))
  /\ fresh (fst (find_or_create_type w ws cls)) = fresh w
  /\ (forall k cls', is_go k -> cls' = cls ->
        In (tuid cls', snd (find_or_create_type w ws cls)) (R (fst (find_or_create_type w ws cls)) ws KType)
        /\ alive (fst (find_or_create_type w ws cls)) (snd (find_or_create_type w ws cls)) = true).
Proof.
  intros G T. destruct (good_type w ws cls G) as [G1 Hf]. destruct (typed_type w ws cls G T) as [T1 [Hin Hal]].
  split; [exact G1|]. split; [exact T1|]. split; [exact Hf|]. intros k cls' _ ->. split; assumption.
Qed.

Lemma not_go_data : is_go KData -> False. Proof. intros [H|H]; discriminate. Qed.
Lemma not_go_pg : is_go KPG -> False. Proof. intros [H|H]; discriminate. Qed.

Lemma typed_copy_children c : forall cs w ws x' cmap,
  good w -> typed w -> typed (fst (fst (copy_children c w ws x' cs cmap))).
Proof.
  induction cs as [|a r IH]; intros w ws x' cmap G T; simpl; [exact T|].
  destruct (kind_eqb (ekind (E w a)) KPG); [apply IH; assumption|].
  pose proof (good_touch w (ews (E w a)) KData (euid (E w a)) G) as G0.
  pose proof (typed_tsame _ _ (tsame_touch w (ews (E w a)) KData (euid (E w a))) T) as T0.
  set (w0 := touch_metadata w (ews (E w a)) KData (euid (E w a))) in *.
  assert (Hu : euid (E w a) < fresh w0).
  { unfold w0, touch_metadata. simpl. rewrite (proj1 (get_entity_fresh w (ews (E w a)) (euid (E w a)))). apply (g_fresh G). }
  destruct (good_copy_uid w0 ws (euid (E w a)) G0 Hu) as [G1 Hu1].
  pose proof (typed_tsame _ _ (tsame_copy_uid w0 ws (euid (E w a))) T0) as T1.
  destruct (copy_uid w0 ws (euid (E w a))) as [w1 u']. simpl in G1, Hu1, T1.
  pose proof (good_construct c w1 ws KData 3 x' u' 0 [] G1 Hu1) as G2.
  pose proof (typed_construct c w1 ws KData 3 x' u' 0 [] G1 T1 Hu1 ltac:(discriminate) (fun H => False_ind _ (not_go_data H))) as T2.
  destruct (construct c w1 ws KData 3 x' u' 0 []) as [[w2 o] y]. simpl in G2, T2.
  destruct o; try exact T2. apply IH; assumption.
Qed.

Lemma typed_copy_pgs c : forall gs w ws x' cmap,
  good w -> typed w -> typed (fst (copy_pgs c w ws x' gs cmap)).
Proof.
  induction gs as [|g r IH]; intros w ws x' cmap G T; simpl; [exact T|].
  destruct (map_props cmap (eprops (E w g))) as [ps|]; [|exact T].
  pose proof (good_find_in w ws KPG (euid (E w g)) G) as G1.
  pose proof (typed_tsame _ _ (tsame_find_in w ws KPG (euid (E w g)) ltac:(discriminate)) T) as T1.
  assert (Hf1 : fresh (fst (find_in w ws KPG (euid (E w g)))) = fresh w).
  { unfold find_in. destruct (get_clean_ref _ _ _). reflexivity. }
  destruct (find_in w ws KPG (euid (E w g))) as [w1 f]. simpl in G1, Hf1, T1.
  assert (H2 : good (fst (match f with None => (w1, euid (E w g)) | Some _ => take_fresh w1 end))
               /\ typed (fst (match f with None => (w1, euid (E w g)) | Some _ => take_fresh w1 end))
               /\ snd (match f with None => (w1, euid (E w g)) | Some _ => take_fresh w1 end)
                  < fresh (fst (match f with None => (w1, euid (E w g)) | Some _ => take_fresh w1 end))).
  { destruct f.
    - destruct (good_take_fresh w1 G1) as [A B]. split; [exact A|]. split; [|exact B].
      eapply typed_tsame; [apply tsame_take_fresh | exact T1].
    - simpl. split; [exact G1|]. split; [exact T1|]. rewrite Hf1. apply (g_fresh G). }
  destruct (match f with None => (w1, euid (E w g)) | Some _ => take_fresh w1 end) as [w2 u']. simpl in H2. destruct H2 as [G2 [T2 Hu2]].
  pose proof (good_construct c w2 ws KPG 4 x' u' 0 ps G2 Hu2) as G3.
  pose proof (typed_construct c w2 ws KPG 4 x' u' 0 ps G2 T2 Hu2 ltac:(discriminate) (fun H => False_ind _ (not_go_pg H))) as T3.
  destruct (construct c w2 ws KPG 4 x' u' 0 ps) as [[w3 o] y]. simpl in G3, T3.
  destruct o; try exact T3. apply IH; assumption.
Qed.

Lemma typed_do_copy c w e target : good w -> typed w -> typed (fst (do_copy c w e target)).
Proof.
  intros G T. unfold do_copy.
  pose proof (good_touch w (ews (E w e)) (ekind (E w e)) (euid (E w e)) G) as G0.
  pose proof (typed_tsame _ _ (tsame_touch w (ews (E w e)) (ekind (E w e)) (euid (E w e))) T) as T0.
  set (w0 := touch_metadata w (ews (E w e)) (ekind (E w e)) (euid (E w e))) in *.
  set (ws := ews (E w target)).
  assert (Hu : euid (E w0 e) < fresh w0) by apply (g_fresh G0).
  destruct (ekind (E w0 e)) eqn:Ek; try exact T0.
  - destruct (usable w0 target KGroup); [|exact T0].
    destruct (good_copy_uid w0 ws (euid (E w0 e)) G0 Hu) as [G1 Hu1].
    pose proof (typed_tsame _ _ (tsame_copy_uid w0 ws (euid (E w0 e))) T0) as T1.
    destruct (copy_uid w0 ws (euid (E w0 e))) as [w1 u']. simpl in G1, Hu1, T1.
    destruct (typed_good_type w1 ws (ecls (E w0 e)) G1 T1) as [G2 [T2 [Hf2 Hty]]].
    destruct (find_or_create_type w1 ws (ecls (E w0 e))) as [w2 t]. simpl in G2, T2, Hf2, Hty.
    assert (Hu2 : u' < fresh w2) by (rewrite Hf2; exact Hu1).
    pose proof (typed_construct c w2 ws KGroup (ecls (E w0 e)) target u' t [] G2 T2 Hu2 ltac:(discriminate)
                  (fun H => Hty KGroup _ H eq_refl)) as T3.
    destruct (construct c w2 ws KGroup (ecls (E w0 e)) target u' t []) as [[w3 o] y]. exact T3.
  - destruct (usable w0 target KGroup); [|exact T0].
    destruct (good_copy_uid w0 ws (euid (E w0 e)) G0 Hu) as [G1 Hu1].
    pose proof (typed_tsame _ _ (tsame_copy_uid w0 ws (euid (E w0 e))) T0) as T1.
    destruct (copy_uid w0 ws (euid (E w0 e))) as [w1 u']. simpl in G1, Hu1, T1.
    destruct (typed_good_type w1 ws (ecls (E w0 e)) G1 T1) as [G2 [T2 [Hf2 Hty]]].
    destruct (find_or_create_type w1 ws (ecls (E w0 e))) as [w2 t]. simpl in G2, T2, Hf2, Hty.
    assert (Hu2 : u' < fresh w2) by (rewrite Hf2; exact Hu1).
    pose proof (good_construct c w2 ws KObject (ecls (E w0 e)) target u' t [] G2 Hu2) as G3.
    pose proof (typed_construct c w2 ws KObject (ecls (E w0 e)) target u' t [] G2 T2 Hu2 ltac:(discriminate)
                  (fun H => Hty KObject _ H eq_refl)) as T3.
    destruct (construct c w2 ws KObject (ecls (E w0 e)) target u' t []) as [[w3 o] x']. simpl in G3, T3.
    destruct o; try exact T3.
    pose proof (good_copy_children c (ech (E w3 e)) w3 ws x' [] G3) as G4.
    pose proof (typed_copy_children c (ech (E w3 e)) w3 ws x' [] G3 T3) as T4.
    destruct (copy_children c w3 ws x' (ech (E w3 e)) []) as [[w4 o4] cmap]. simpl in G4, T4.
    destruct o4; try exact T4. apply typed_copy_pgs; assumption.
  - destruct (usable w0 target KObject); [|exact T0].
    destruct (good_copy_uid w0 ws (euid (E w0 e)) G0 Hu) as [G1 Hu1].
    pose proof (typed_tsame _ _ (tsame_copy_uid w0 ws (euid (E w0 e))) T0) as T1.
    destruct (copy_uid w0 ws (euid (E w0 e))) as [w1 u']. simpl in G1, Hu1, T1.
    pose proof (typed_construct c w1 ws KData 3 target u' 0 [] G1 T1 Hu1 ltac:(discriminate) (fun H => False_ind _ (not_go_data H))) as T3.
    destruct (construct c w1 ws KData 3 target u' 0 []) as [[w3 o] y]. exact T3.
Qed.

Lemma tsame_fold {A} (f : st -> A -> st) l : (forall w x, tsame w (f w x)) -> forall w, tsame w (fold_left f l w).
Proof. intros Hf. induction l as [|a r IH]; intros w; simpl; [apply tsame_refl | eapply tsame_trans; [apply Hf | apply IH]]. Qed.

Lemma tsame_drop_child w o x : tsame w (drop_child w o x).
Proof. apply tsame_upd. intros r. repeat split; reflexivity. Qed.

Lemma tsame_clear_children w o : tsame w (clear_children w o).
Proof.
  unfold clear_children. apply tsame_fold. intros w0 x.
  destruct (kind_eqb (ekind (E w0 x)) KPG); [apply tsame_drop_child|].
  unfold drop_node_links, del_link. eapply tsame_trans; [|apply tsame_set_links]. eapply tsame_trans; [|apply tsame_set_links].
  eapply tsame_trans; [|apply tsame_set_flat]. eapply tsame_trans; [|apply tsame_drop_child].
  unfold scrub_groups. apply tsame_fold. intros w1 g. destruct (eprops (E w1 g)) as [|a l]; [apply tsame_refl|].
  assert (S1 : tsame w1 (upd w1 g (fun r => with_props r (filter (fun x0 => negb (Nat.eqb x0 (euid (E w0 x)))) (a :: l)))))
    by (apply tsame_upd; intros r; repeat split; reflexivity).
  destruct (filter _ (a :: l)); [eapply tsame_trans; [exact S1 | apply tsame_drop_child] | exact S1].
Qed.

Lemma typed_sweep w ws k : good w -> typed w -> typed (sweep w ws k).
Proof.
  intros G T. unfold sweep.
  assert (T1 : typed (set_R w ws k (remove_none_referents (alive w) (R w ws k)))).
  { destruct k; try (eapply typed_tsame; [apply tsame_set_R; discriminate | exact T]). apply typed_sweep_types. exact T. }
  destruct (kidx_storable k); [|exact T1]. eapply typed_tsame; [apply tsame_set_links|]. eapply typed_tsame; [apply tsame_set_flat | exact T1].
Qed.

Lemma typed_step c w a : good w -> typed w -> typed (fst (step c w a)).
Proof.
  intros G T. destruct a as [ws isobj parent u|obj u|obj ds u|e target|e|es|ws k|ws e]; unfold step.
  - destruct (usable w parent KGroup && Nat.eqb (ews (E w parent)) ws && uspec_ok w u); [|exact T].
    destruct (good_pick w u G) as [G0 Hu0]. pose proof (typed_tsame _ _ (tsame_pick w u) T) as T0.
    destruct (pick_uid w u) as [w0 uid]. simpl in G0, Hu0, T0.
    destruct (typed_good_type w0 ws (if isobj then 2 else 1) G0 T0) as [G1 [T1 [Hf1 Hty]]].
    destruct (find_or_create_type w0 ws (if isobj then 2 else 1)) as [w1 t]. simpl in G1, T1, Hf1, Hty.
    assert (Hu1 : uid < fresh w1) by (rewrite Hf1; exact Hu0).
    assert (Hk : (if isobj then KObject else KGroup) <> KType) by (destruct isobj; discriminate).
    pose proof (typed_construct c w1 ws (if isobj then KObject else KGroup) (if isobj then 2 else 1) parent uid t [] G1 T1 Hu1 Hk
                  (fun H => Hty _ _ H eq_refl)) as T2.
    destruct (construct c w1 ws (if isobj then KObject else KGroup) (if isobj then 2 else 1) parent uid t []) as [[w2 o] y]. exact T2.
  - destruct (usable w obj KObject && uspec_ok w u); [|exact T].
    destruct (good_pick w u G) as [G0 Hu0]. pose proof (typed_tsame _ _ (tsame_pick w u) T) as T0.
    destruct (pick_uid w u) as [w0 uid]. simpl in G0, Hu0, T0.
    pose proof (typed_construct c w0 (ews (E w obj)) KData 3 obj uid 0 [] G0 T0 Hu0 ltac:(discriminate) (fun H => False_ind _ (not_go_data H))) as T2.
    destruct (construct c w0 (ews (E w obj)) KData 3 obj uid 0 []) as [[w2 o] y]. exact T2.
  - destruct (usable w obj KObject && uspec_ok w u); [|exact T].
    destruct (good_pick w u G) as [G0 Hu0]. pose proof (typed_tsame _ _ (tsame_pick w u) T) as T0.
    destruct (pick_uid w u) as [w0 uid]. simpl in G0, Hu0, T0.
    match goal with |- context [construct c w0 ?a KPG 4 obj uid 0 ?ps] =>
      pose proof (typed_construct c w0 a KPG 4 obj uid 0 ps G0 T0 Hu0 ltac:(discriminate) (fun H => False_ind _ (not_go_pg H))) as T2;
      destruct (construct c w0 a KPG 4 obj uid 0 ps) as [[w2 o] y] end. exact T2.
  - destruct (Nat.ltb e (n w) && alive w e && Nat.ltb target (n w) && alive w target); [apply typed_do_copy; assumption | exact T].
  - match goal with |- context [if ?b then _ else _] => destruct b end; [|exact T]. cbn [fst].
    set (w0 := if kind_eqb (ekind (E w e)) KObject then clear_children w e else w).
    assert (S0 : tsame w w0) by (unfold w0; destruct (kind_eqb _ _); [apply tsame_clear_children | apply tsame_refl]).
    assert (G0 : good w0) by (unfold w0; destruct (kind_eqb _ _); [apply good_clear_children; exact G | exact G]).
    apply typed_sweep.
    + unfold drop_node_links, del_link. apply good_set_links, good_set_links, good_set_flat. apply good_upd_ch; [intros r; apply with_ch_ids | exact G0].
    + unfold drop_node_links, del_link.
      match goal with |- typed (set_links ?w1 ?a ?l) => apply (typed_tsame w1 _ (tsame_set_links w1 a l)) end.
      match goal with |- typed (set_links ?w1 ?a ?l) => apply (typed_tsame w1 _ (tsame_set_links w1 a l)) end.
      match goal with |- typed (set_flat ?w1 ?a ?l) => apply (typed_tsame w1 _ (tsame_set_flat w1 a l)) end.
      eapply typed_tsame; [|exact T]. eapply tsame_trans; [exact S0|].
      apply tsame_upd; intros r; repeat split; reflexivity.
  - match goal with |- context [if ?b then _ else _] => destruct b eqn:Eb end; [|exact T]. cbn [fst].
    apply typed_kill; [exact G | exact T|]. intros x Hx. apply andb_true_iff in Eb as [Eb _].
    rewrite forallb_forall in Eb. pose proof (Eb x Hx) as H. apply andb_true_iff in H as [_ H].
    apply negb_true_iff in H. intros Hk. rewrite Hk in H. discriminate.
  - destruct (kind_eqb k KPG); [exact T | apply typed_sweep; assumption].
  - destruct (Nat.ltb e (n w)); [|exact T].
    pose proof (typed_tsame _ _ (tsame_get_entity w ws (euid (E w e))) T) as T1. destruct (get_entity w ws (euid (E w e))) as [w1 r]. exact T1.
Qed.

Lemma typed_init : typed init.
Proof.
  intros e He _ Hk. simpl in He.
  destruct e as [|[|[|[|e]]]]; simpl in *; try lia; destruct Hk as [Hk|Hk]; try discriminate; split; try reflexivity; left; reflexivity.
Qed.

Theorem reachable_typed c : forall h, good (run c init h) /\ typed (run c init h).
Proof.
  assert (Gn : forall h w, good w -> typed w -> good (run c w h) /\ typed (run c w h)).
  { induction h as [|a r IH]; intros w G T; simpl; [split; assumption|]. apply IH; [apply good_step; exact G | apply typed_step; assumption]. }
  intros h. apply Gn; [apply good_init | apply typed_init].
Qed.

(* one type per class and workspace *)
Theorem one_type_per_class c h e1 e2 :
  let w := run c init h in
  e1 < n w -> e2 < n w -> alive w e1 = true -> alive w e2 = true ->
  is_go (ekind (E w e1)) -> is_go (ekind (E w e2)) ->
  ews (E w e1) = ews (E w e2) -> ecls (E w e1) = ecls (E w e2) ->
  etype (E w e1) = etype (E w e2)
  /\ alive w (etype (E w e1)) = true /\ ekind (E w (etype (E w e1))) = KType.
Proof.
  intros w H1 H2 A1 A2 K1 K2 Hws Hcl. destruct (reachable_typed c h) as [G T]. fold w in G, T.
  destruct (T e1 H1 A1 K1) as [I1 L1]. destruct (T e2 H2 A2 K2) as [I2 L2].
  rewrite Hws, Hcl in I1.
  apply (dget_In _ _ _ (g_nodup G _ _)) in I1. apply (dget_In _ _ _ (g_nodup G _ _)) in I2.
  split; [congruence|]. split; [exact L1|].
  apply (dget_In _ _ _ (g_nodup G _ _)) in I2. rewrite <- Hws, <- Hcl in I2.
  assert (I1' : In (tuid (ecls (E w e1)), etype (E w e1)) (R w (ews (E w e1)) KType)) by (apply (T e1 H1 A1 K1)).
  apply (g_entry G _ _ _ _ I1').
Qed.
