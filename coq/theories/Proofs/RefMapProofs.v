(* Proofs about Model/RefMap.v (property C08): key 0 = "Unknown" as an invariant, labels kept, file round trip. *)
From GV Require Import Prelude.Base Model.Codec Model.RefMap Proofs.CodecProofs.

Local Open Scope Z_scope.

(* ------------------------------------------------------------------ basics *)
Lemma lN_eqb_eq a b : lN_eqb a b = true <-> a = b.
Proof. unfold lN_eqb. apply list_eqb_spec. intros x y. apply N.eqb_eq. Qed.

Lemma lN_eqb_refl a : lN_eqb a a = true.
Proof. apply lN_eqb_eq. reflexivity. Qed.

Lemma lookup_app k m1 m2 :
  lookup k (m1 ++ m2) = match lookup k m1 with Some s => Some s | None => lookup k m2 end.
Proof.
  induction m1 as [|[k' s] r IH]; simpl; [reflexivity|]. destruct (k =? k'); [reflexivity | apply IH].
Qed.

Lemma lookup_None_iff k m : lookup k m = None <-> ~ In k (map fst m).
Proof.
  induction m as [|[k' s] r IH]; simpl; [tauto|].
  destruct (Z.eqb_spec k k') as [->|Hne].
  - split; [discriminate | intros H; exfalso; apply H; left; reflexivity].
  - rewrite IH. split; [intros H [E|E]; [congruence | auto] | intros H E; apply H; right; assumption].
Qed.

Lemma lookup_set_same k s m : lookup k (set k s m) = Some s.
Proof.
  induction m as [|[k' s'] r IH]; simpl.
  - rewrite Z.eqb_refl. reflexivity.
  - destruct (Z.eqb_spec k k') as [->|Hne]; simpl.
    + rewrite Z.eqb_refl. reflexivity.
    + destruct (Z.eqb_spec k k'); [congruence | apply IH].
Qed.

Lemma lookup_set_other k k2 s m : k <> k2 -> lookup k (set k2 s m) = lookup k m.
Proof.
  intros Hne. induction m as [|[k' s'] r IH]; simpl.
  - destruct (Z.eqb_spec k k2); [congruence | reflexivity].
  - destruct (Z.eqb_spec k2 k') as [->|Hne2]; simpl.
    + destruct (Z.eqb_spec k k'); [congruence | reflexivity].
    + destruct (k =? k'); [reflexivity | apply IH].
Qed.

Lemma set_notin k s m : ~ In k (map fst m) -> set k s m = m ++ [(k, s)].
Proof.
  induction m as [|[k' s'] r IH]; simpl; intros H; [reflexivity|].
  destruct (Z.eqb_spec k k') as [->|Hne]; [exfalso; apply H; left; reflexivity|].
  rewrite IH by (intros E; apply H; right; assumption). reflexivity.
Qed.

Lemma keys_set k s m : forall x, In x (map fst (set k s m)) <-> x = k \/ In x (map fst m).
Proof.
  induction m as [|[k' s'] r IH]; simpl; intros x.
  - intuition.
  - destruct (Z.eqb_spec k k') as [->|Hne]; simpl.
    + intuition.
    + rewrite IH. intuition.
Qed.

Lemma NoDup_keys_set k s m : NoDup (map fst m) -> NoDup (map fst (set k s m)).
Proof.
  induction m as [|[k' s'] r IH]; simpl; intros H.
  - constructor; [intros [] | constructor].
  - inversion H as [|? ? Hni Hnd]; subst.
    destruct (Z.eqb_spec k k') as [->|Hne]; simpl.
    + constructor; assumption.
    + constructor; [|apply IH; assumption].
      intros E. apply keys_set in E as [E|E]; [congruence | contradiction].
Qed.

(* ------------------------------------------------------------------ validation *)
Definition entry_ok (w : ver) (e : Z * str) : Prop :=
  0 <= fst e /\ (w = Repaired -> fst e <= KEY_MAX) /\ (fst e = 0 -> snd e = s_Unknown).

Lemma validate_ok w k v e :
  validate w k v = Ok e -> k = KInt (fst e) /\ v = LStr (snd e) /\ entry_ok w e.
Proof.
  unfold validate. destruct k as [z|]; [|discriminate].
  destruct (Z.ltb_spec z 0); [discriminate|].
  destruct w.
  - destruct v as [s|]; [|discriminate].
    destruct ((z =? 0) && negb (lN_eqb s s_Unknown)) eqn:E; [discriminate|].
    intros [= <-]. simpl. repeat split; try assumption; [discriminate|].
    simpl. intros ->. simpl in E. apply negb_false_iff, lN_eqb_eq in E. assumption.
  - destruct (Z.ltb_spec KEY_MAX z); [discriminate|].
    destruct v as [s|]; [|discriminate].
    destruct ((z =? 0) && negb (lN_eqb s s_Unknown)) eqn:E; [discriminate|].
    intros [= <-]. simpl. repeat split; try assumption; [intros _; assumption|].
    simpl. intros ->. simpl in E. apply negb_false_iff, lN_eqb_eq in E. assumption.
Qed.

(* exactly which assignments are refused, and how *)
Theorem validate_spec : forall w k v,
  validate w k v =
    match k with
    | KBad => Err KeyErr
    | KInt z =>
        if z <? 0 then Err KeyErr
        else if (match w with Repaired => KEY_MAX <? z | Old => false end) then Err KeyErr
        else match v with
             | LBad => Err TypeErr
             | LStr s => if (z =? 0) && negb (lN_eqb s s_Unknown) then Err ValueErr else Ok (z, s)
             end
    end.
Proof. reflexivity. Qed.

Lemma validate_all_ok w d m :
  validate_all w d = Ok m -> d = of_rmap m /\ Forall (entry_ok w) m.
Proof.
  revert m. induction d as [|[k v] r IH]; simpl; intros m.
  - intros [= <-]. split; [reflexivity | constructor].
  - destruct (validate w k v) as [e|] eqn:Ev; [|discriminate]. cbn [bind].
    destruct (validate_all w r) as [m'|] eqn:Er; [|discriminate]. cbn [bind]. intros [= <-].
    destruct (IH _ eq_refl) as [-> Hf]. destruct (validate_ok _ _ _ _ Ev) as (-> & -> & He).
    split; [reflexivity | constructor; assumption].
Qed.

Lemma lookup_cons k k' s r : lookup k ((k', s) :: r) = if k =? k' then Some s else lookup k r.
Proof. reflexivity. Qed.

Lemma lookup0_ok w m : Forall (entry_ok w) m -> mem 0 m = true -> lookup 0 m = Some s_Unknown.
Proof.
  unfold mem. induction 1 as [|[k s] r He Hr IH]; [discriminate|]. rewrite lookup_cons.
  destruct (Z.eqb_spec 0 k) as [<-|Hne]; [|assumption].
  intros _. destruct He as (_ & _ & H0). simpl in H0. rewrite H0; reflexivity.
Qed.

(* ------------------------------------------------------------------ the boolean map *)
Lemma is_bool_map_shape m :
  is_bool_map m = true ->
  m = [(0, s_False); (1, s_True)] \/ m = [(1, s_True); (0, s_False)].
Proof.
  unfold is_bool_map. intros H. apply andb_true_iff in H as [H H1]. apply andb_true_iff in H as [Hl H0].
  destruct m as [|[k1 s1] [|[k2 s2] [|? ?]]]; try discriminate. rewrite !lookup_cons in H0, H1.
  change (lookup 0 []) with (@None str) in H0. change (lookup 1 []) with (@None str) in H1.
  destruct (Z.eqb_spec 0 k1) as [<-|N0].
  - change (1 =? 0) with false in H1. cbv iota in H1.
    destruct (Z.eqb_spec 1 k2) as [<-|N1]; [|discriminate].
    simpl in H0, H1. apply lN_eqb_eq in H0, H1. subst. left; reflexivity.
  - destruct (Z.eqb_spec 0 k2) as [<-|N02]; [|discriminate].
    destruct (Z.eqb_spec 1 k1) as [<-|N1]; [|change (1 =? 0) with false in H1; discriminate].
    simpl in H0, H1. apply lN_eqb_eq in H0, H1. subst. right; reflexivity.
Qed.

Lemma to_entry_of_rmap m : all_some (map to_entry (of_rmap m)) = Some m.
Proof.
  induction m as [|[k s] r IH]; [reflexivity|]. unfold of_rmap in *. cbn [map fst snd to_entry all_some]. rewrite IH. reflexivity.
Qed.

(* ------------------------------------------------------------------ key 0 is "Unknown": the invariant *)
Definition zero_ok (m : rmap) : Prop := lookup 0 m = Some s_Unknown \/ is_bool_map m = true.

Lemma mk_zero_ok w d m : mk w d = Ok m -> zero_ok m.
Proof.
  unfold mk. destruct (is_bool_dict d) eqn:Eb.
  - unfold is_bool_dict in Eb. destruct (all_some (map to_entry d)) as [m'|]; [|discriminate].
    intros [= <-]. right. assumption.
  - destruct (validate_all w d) as [m'|] eqn:Ev; [|discriminate]. cbn [bind]. intros [= <-].
    destruct (validate_all_ok _ _ _ Ev) as [_ Hf]. left.
    destruct (mem 0 m') eqn:Em.
    + apply (lookup0_ok w); assumption.
    + rewrite lookup_app. unfold mem in Em. destruct (lookup 0 m'); [discriminate|]. reflexivity.
Qed.

Lemma setitem_zero_ok w m k v m' : zero_ok m -> setitem w m k v = Ok m' -> zero_ok m'.
Proof.
  unfold setitem. intros Hz. destruct (is_bool_map m) eqn:Eb; [discriminate|].
  destruct (validate w k v) as [[z s]|] eqn:Ev; [|discriminate]. cbn [bind fst snd]. intros [= <-].
  destruct Hz as [Hz|Hz]; [|congruence]. left.
  destruct (validate_ok _ _ _ _ Ev) as (_ & _ & _ & _ & H0). simpl in H0.
  destruct (Z.eq_dec z 0) as [->|Hne].
  - rewrite H0 by reflexivity. apply lookup_set_same.
  - rewrite lookup_set_other by congruence. assumption.
Qed.

Lemma apply_ops_inv (P : rmap -> Prop) w :
  (forall m k v m', P m -> setitem w m k v = Ok m' -> P m') ->
  forall ops m, P m -> P (fst (apply_ops w m ops)).
Proof.
  intros Hstep. induction ops as [|[k v] r IH]; intros m Hm; simpl; [assumption|].
  destruct (setitem w m k v) as [m'|e] eqn:Es.
  - specialize (IH m' (Hstep _ _ _ _ Hm Es)). destruct (apply_ops w m' r). assumption.
  - specialize (IH m Hm). destruct (apply_ops w m r). assumption.
Qed.

Theorem refmap_zero_unknown : forall w d ops m0,
  mk w d = Ok m0 -> zero_ok (fst (apply_ops w m0 ops)).
Proof.
  intros w d ops m0 H. apply apply_ops_inv.
  - intros m k v m'. apply setitem_zero_ok.
  - apply (mk_zero_ok _ _ _ H).
Qed.

Theorem bool_map_frozen : forall w m k v, is_bool_map m = true -> setitem w m k v = Err AssertErr.
Proof. intros w m k v H. unfold setitem. rewrite H. reflexivity. Qed.

Theorem setitem_refuses_invalid : forall w m k v e,
  is_bool_map m = false -> validate w k v = Err e -> setitem w m k v = Err e.
Proof. intros w m k v e Hb Hv. unfold setitem. rewrite Hb, Hv. reflexivity. Qed.

(* ------------------------------------------------------------------ well-formed maps (repaired code) *)
Definition wf (m : rmap) : Prop :=
  NoDup (map fst m) /\ (is_bool_map m = true \/ (Forall (entry_ok Repaired) m /\ mem 0 m = true)).

Definition dict_keys_nodup (d : dict) : Prop :=
  NoDup (map fst d).

Lemma of_rmap_keys m : map fst (of_rmap m) = map KInt (map fst m).
Proof. unfold of_rmap. rewrite !map_map. reflexivity. Qed.

Lemma NoDup_map_KInt l : NoDup (map KInt l) -> NoDup l.
Proof.
  induction l as [|z r IH]; simpl; intros H; [constructor|]. inversion H as [|? ? Hni Hnd]; subst.
  constructor; [|apply IH; assumption]. intros E. apply Hni. apply in_map. assumption.
Qed.

Lemma NoDup_app_single {A} (l : list A) x : NoDup l -> ~ In x l -> NoDup (l ++ [x]).
Proof.
  induction l as [|y r IH]; simpl; intros Hn Hx; [constructor; [intros []|constructor]|].
  inversion Hn as [|? ? Hni Hnd]; subst. constructor.
  - rewrite in_app_iff. intros [E|[E|[]]]; [contradiction | subst; apply Hx; left; reflexivity].
  - apply IH; [assumption | intros E; apply Hx; right; assumption].
Qed.

Lemma mk_wf d m : dict_keys_nodup d -> mk Repaired d = Ok m -> wf m.
Proof.
  unfold mk, dict_keys_nodup. intros Hnd. destruct (is_bool_dict d) eqn:Eb.
  - unfold is_bool_dict in Eb. destruct (all_some (map to_entry d)) as [m'|]; [|discriminate].
    intros [= <-]. split; [|left; assumption].
    destruct (is_bool_map_shape _ Eb) as [-> | ->]; simpl; repeat constructor; simpl; intuition discriminate.
  - destruct (validate_all Repaired d) as [m'|] eqn:Ev; [|discriminate]. cbn [bind]. intros [= <-].
    destruct (validate_all_ok _ _ _ Ev) as [-> Hf].
    rewrite of_rmap_keys in Hnd. apply NoDup_map_KInt in Hnd.
    destruct (mem 0 m') eqn:Em.
    + split; [assumption | right; auto].
    + split.
      * rewrite map_app. simpl. apply NoDup_app_single; [assumption|].
        apply lookup_None_iff. unfold mem in Em. destruct (lookup 0 m'); [discriminate | reflexivity].
      * right. split.
        -- apply Forall_app. split; [assumption|]. constructor; [|constructor].
           unfold entry_ok, KEY_MAX. simpl. repeat split; try lia.
        -- unfold mem. rewrite lookup_app. unfold mem in Em. destruct (lookup 0 m'); [discriminate|]. reflexivity.
Qed.

Lemma Forall_set (P : Z * str -> Prop) k s m : Forall P m -> P (k, s) -> Forall P (set k s m).
Proof.
  induction 1 as [|[k' s'] r Hp Hr IH]; simpl; intros Hks; [constructor; [assumption|constructor]|].
  destruct (k =? k'); constructor; auto.
Qed.

Lemma setitem_wf m k v m' : wf m -> setitem Repaired m k v = Ok m' -> wf m'.
Proof.
  unfold setitem. intros [Hnd Hw]. destruct (is_bool_map m) eqn:Eb; [discriminate|].
  destruct (validate Repaired k v) as [[z s]|] eqn:Ev; [|discriminate]. cbn [bind fst snd]. intros [= <-].
  destruct Hw as [Hw|[Hf Hm]]; [congruence|].
  destruct (validate_ok _ _ _ _ Ev) as (_ & _ & He).
  split; [apply NoDup_keys_set; assumption|]. right. split; [apply Forall_set; assumption|].
  unfold mem in *. destruct (Z.eq_dec 0 z) as [<-|Hne].
  - rewrite lookup_set_same. reflexivity.
  - rewrite lookup_set_other by assumption. assumption.
Qed.

Theorem refmap_wf : forall d ops m0,
  dict_keys_nodup d -> mk Repaired d = Ok m0 -> wf (fst (apply_ops Repaired m0 ops)).
Proof.
  intros d ops m0 Hnd H. apply apply_ops_inv.
  - intros m k v m'. apply setitem_wf.
  - apply (mk_wf _ _ Hnd H).
Qed.

(* every (key, label) the caller gave is in the constructed map *)
Theorem mk_keeps_labels : forall w d m k s,
  dict_keys_nodup d -> mk w d = Ok m -> In (KInt k, LStr s) d -> lookup k m = Some s.
Proof.
  intros w d m k s Hnd Hmk Hin.
  assert (forall m', d = of_rmap m' -> lookup k m' = Some s) as Hlk.
  { intros m' ->. unfold dict_keys_nodup in Hnd. rewrite of_rmap_keys in Hnd. apply NoDup_map_KInt in Hnd.
    unfold of_rmap in Hin. apply in_map_iff in Hin as ([k' s'] & [= -> ->] & Hin).
    clear Hmk. induction m' as [|[k2 s2] r IH]; simpl in *; [contradiction|].
    inversion Hnd as [|? ? Hni Hnd']; subst.
    destruct Hin as [[= -> ->]|Hin]; [rewrite Z.eqb_refl; reflexivity|].
    destruct (Z.eqb_spec k k2) as [->|Hne]; [|apply IH; assumption].
    exfalso. apply Hni. change k2 with (fst (k2, s)). apply in_map. assumption. }
  unfold mk in Hmk. destruct (is_bool_dict d) eqn:Eb.
  - destruct (all_some (map to_entry d)) as [m'|] eqn:Ea; [|discriminate]. inversion Hmk; subst m'.
    apply Hlk. clear -Ea. revert m Ea. induction d as [|[k' v'] r IH]; simpl; intros m.
    + intros [= <-]. reflexivity.
    + destruct k' as [z|]; [|discriminate]. destruct v' as [s|]; [|discriminate].
      destruct (all_some (map to_entry r)) as [m'|]; [|discriminate]. intros [= <-]. simpl. f_equal. apply IH. reflexivity.
  - destruct (validate_all w d) as [m'|] eqn:Ev; [|discriminate]. cbn [bind] in Hmk. inversion Hmk; subst m.
    destruct (validate_all_ok _ _ _ Ev) as [Hd _].
    destruct (mem 0 m'); [apply Hlk; assumption|]. rewrite lookup_app, (Hlk _ Hd). reflexivity.
Qed.

(* ------------------------------------------------------------------ the file *)
Section FileProofs.
  Variable enc : str -> option bytes.
  Variable dec : bytes -> option str.
  Hypothesis dec_enc : forall s b, enc s = Some b -> dec b = Some s.

  Lemma enc_all_ok l bs : enc_all enc l = Ok bs -> Forall2 (fun s b => enc s = Some b) l bs.
  Proof.
    revert bs. induction l as [|s r IH]; simpl; intros bs.
    - intros [= <-]. constructor.
    - unfold enc1. destruct (enc s) as [b|] eqn:Es; [|discriminate]. destruct (has_nul b); [discriminate|]. cbn [bind].
      destruct (enc_all enc r) as [br|]; [|discriminate]. cbn [bind]. intros [= <-]. constructor; auto.
  Qed.

  Lemma keys_col_small m :
    Forall (fun e : Z * str => 0 <= fst e <= KEY_MAX) m -> keys_col m = Ok (map fst m).
  Proof.
    induction 1 as [|[k s] r Hk Hr IH]; simpl; [reflexivity|]. simpl in Hk. unfold key_col, KEY_MAX in *.
    destruct (Z.leb_spec (2 ^ 64) k) as [H|H]; [change (2 ^ 64) with 18446744073709551616 in H; lia|]. cbn [bind].
    rewrite IH. cbn [bind]. rewrite Z.mod_small by (change (2 ^ 32) with 4294967296; lia). reflexivity.
  Qed.

  Lemma fetch_rows_fresh m bs acc :
    Forall2 (fun s b => enc s = Some b) (map snd m) bs ->
    NoDup (map fst acc ++ map fst m) ->
    fetch_rows dec (combine (map fst m) bs) acc = Ok (acc ++ m).
  Proof.
    revert bs acc. induction m as [|[k s] r IH]; simpl; intros bs acc Hf Hnd.
    - inversion Hf; subst. simpl. rewrite app_nil_r. reflexivity.
    - inversion Hf as [|? b ? br He Hr]; subst. simpl. rewrite (dec_enc _ _ He).
      rewrite set_notin.
      2:{ apply NoDup_remove_2 in Hnd. intros E. apply Hnd. apply in_or_app. left. assumption. }
      rewrite IH; [rewrite <- app_assoc; reflexivity | assumption|].
      rewrite map_app. simpl. rewrite <- app_assoc. simpl.
      apply NoDup_remove_1 in Hnd as Hnd1. apply NoDup_remove_2 in Hnd as Hnd2.
      clear -Hnd1 Hnd2. revert Hnd1 Hnd2. generalize (map fst acc) as l1. generalize (map fst r) as l2. intros l2 l1.
      induction l1 as [|x l1 IH]; simpl; intros H1 H2.
      + constructor; assumption.
      + inversion H1 as [|? ? Hni Hnd]; subst. constructor.
        * rewrite in_app_iff in *. simpl. intros [E|[E|E]]; [apply Hni; auto | subst; apply H2; left; reflexivity | apply Hni; auto].
        * apply IH; [assumption | intros E; apply H2; right; assumption].
  Qed.

  Lemma entry_ok_range m : Forall (entry_ok Repaired) m -> Forall (fun e : Z * str => 0 <= fst e <= KEY_MAX) m.
  Proof. apply Forall_impl. intros e (H0 & H1 & _). split; [assumption | apply H1; reflexivity]. Qed.

  Lemma validate_all_wf m : Forall (entry_ok Repaired) m -> validate_all Repaired (of_rmap m) = Ok m.
  Proof.
    induction 1 as [|[k s] r He Hr IH]; simpl; [reflexivity|].
    destruct He as (H0 & H1 & HU). simpl in *. specialize (H1 eq_refl).
    destruct (Z.ltb_spec k 0); [lia|]. destruct (Z.ltb_spec KEY_MAX k); [lia|].
    assert ((k =? 0) && negb (lN_eqb s s_Unknown) = false) as ->.
    { destruct (Z.eqb_spec k 0) as [->|]; [|reflexivity]. rewrite HU by reflexivity. rewrite lN_eqb_refl. reflexivity. }
    cbn [bind]. rewrite IH. reflexivity.
  Qed.

  Lemma mk_of_wf m : wf m -> mk Repaired (of_rmap m) = Ok m.
  Proof.
    intros [Hnd Hw]. unfold mk, is_bool_dict. rewrite to_entry_of_rmap.
    destruct (is_bool_map m) eqn:Eb; [reflexivity|].
    destruct Hw as [Hw|[Hf Hm]]; [congruence|]. rewrite validate_all_wf by assumption. cbn [bind]. rewrite Hm. reflexivity.
  Qed.

  (* a well-formed map whose labels can be encoded is read back from the file exactly as it was: every key keeps its
     label, key 0 is still "Unknown" (or the map is the boolean map), no key is added or lost *)
  Theorem refmap_file_roundtrip : forall m bs,
    wf m -> enc_all enc (map snd m) = Ok bs ->
    write_map enc m = Ok (combine (map fst m) bs) /\ reopen_map dec Repaired (combine (map fst m) bs) = Ok m.
  Proof.
    intros m bs Hwf He.
    assert (Forall (fun e : Z * str => 0 <= fst e <= KEY_MAX) m) as Hr.
    { destruct Hwf as [_ [Hb|[Hf _]]]; [|apply entry_ok_range; assumption].
      destruct (is_bool_map_shape _ Hb) as [-> | ->]; repeat constructor; unfold KEY_MAX; simpl; lia. }
    split.
    - unfold write_map. rewrite keys_col_small by assumption. cbn [bind]. rewrite He. reflexivity.
    - unfold reopen_map. rewrite (fetch_rows_fresh m bs []).
      + cbn [bind app]. apply mk_of_wf. assumption.
      + apply enc_all_ok. assumption.
      + simpl. apply Hwf.
  Qed.

  (* end to end: construct, assign, store, re-open *)
  Theorem refmap_survives_file : forall d ops m0 bs,
    dict_keys_nodup d -> mk Repaired d = Ok m0 ->
    let m := fst (apply_ops Repaired m0 ops) in
    enc_all enc (map snd m) = Ok bs ->
    run_map enc dec Repaired d ops = MODone m (snd (apply_ops Repaired m0 ops)) (combine (map fst m) bs) m.
  Proof.
    intros d ops m0 bs Hnd Hmk m He. unfold run_map. rewrite Hmk.
    pose proof (refmap_wf d ops m0 Hnd Hmk) as Hwf. fold m in Hwf.
    destruct (refmap_file_roundtrip m bs Hwf He) as [Hw Hr].
    subst m. destruct (apply_ops Repaired m0 ops) as [mf es]. simpl in *. rewrite Hw, Hr. reflexivity.
  Qed.
End FileProofs.

(* ------------------------------------------------------------------ pre-repair witness *)
Definition s_one : str := [111; 110; 101]%N.
Definition s_big : str := [98; 105; 103]%N.

Lemma refmap_old_label_replaced :
  exists m rows m',
    run_map utf8_enc utf8_dec Old [(KInt 1, LStr s_one); (KInt 4294967297, LStr s_big)] [] = MODone m [] rows m'
    /\ lookup 1 m = Some s_one /\ lookup 1 m' = Some s_big /\ lookup 4294967297 m' = None.
Proof. do 3 eexists. split; [vm_compute; reflexivity|]. repeat split. Qed.

Lemma refmap_repaired_rejects_big_key :
  mk Repaired [(KInt 1, LStr s_one); (KInt 4294967297, LStr s_big)] = Err KeyErr.
Proof. reflexivity. Qed.

(* a dict with an entry the validation refuses is refused as a whole (unless it is exactly the boolean map) *)
Theorem mk_refuses_invalid : forall w d k v e,
  is_bool_dict d = false -> In (k, v) d -> validate w k v = Err e -> exists e', mk w d = Err e'.
Proof.
  intros w d k v e Hb Hin Hv. unfold mk. rewrite Hb.
  assert (exists e', validate_all w d = Err e') as [e' ->]; [|eexists; reflexivity].
  induction d as [|[k' v'] r IH]; simpl in *; [contradiction|].
  destruct Hin as [[= -> ->]|Hin].
  - rewrite Hv. eexists; reflexivity.
  - destruct (validate w k' v'); [|eexists; reflexivity]. cbn [bind].
    destruct (validate_all w r) as [m'|e2] eqn:Er; [|eexists; reflexivity].
    exfalso. clear IH Hb. revert m' Er. induction r as [|[k2 v2] r2 IH2]; simpl in *; intros m' Er; [contradiction|].
    destruct Hin as [[= -> ->]|Hin]; [rewrite Hv in Er; discriminate|].
    destruct (validate w k2 v2); [|discriminate]. cbn [bind] in Er.
    destruct (validate_all w r2) eqn:E2; [|discriminate]. eapply IH2; eauto.
Qed.

(* the statement "what was in the map when it was stored is what the re-opened map holds", per version *)
Definition refmap_file_full (w : ver) : Prop :=
  forall d ops m es rows m', dict_keys_nodup d ->
    run_map utf8_enc utf8_dec w d ops = MODone m es rows m' -> m' = m.

Theorem refmap_file_full_repaired : refmap_file_full Repaired.
Proof.
  intros d ops m es rows m' Hnd H.
  assert (exists m0, mk Repaired d = Ok m0) as [m0 Hmk].
  { unfold run_map in H. destruct (mk Repaired d); [eauto | discriminate]. }
  assert (m = fst (apply_ops Repaired m0 ops)) as Hm.
  { unfold run_map in H. rewrite Hmk in H. destruct (apply_ops Repaired m0 ops) as [mf ef]. simpl.
    destruct (write_map utf8_enc mf) as [rows0|]; [|inversion H; reflexivity].
    destruct (reopen_map utf8_dec Repaired rows0); inversion H; reflexivity. }
  assert (exists bs, enc_all utf8_enc (map snd m) = Ok bs) as [bs Hbs].
  { unfold run_map in H. rewrite Hmk in H. rewrite Hm. destruct (apply_ops Repaired m0 ops) as [mf ef]. simpl.
    unfold write_map in H. destruct (keys_col mf); [|discriminate H]. cbn [bind] in H.
    destruct (enc_all utf8_enc (map snd mf)); [eauto | discriminate H]. }
  rewrite Hm in Hbs.
  rewrite (refmap_survives_file utf8_enc utf8_dec utf8_dec_enc d ops m0 bs Hnd Hmk Hbs) in H.
  inversion H. subst. reflexivity.
Qed.

Theorem refmap_file_full_old_refuted : ~ refmap_file_full Old.
Proof.
  intros H.
  assert (dict_keys_nodup [(KInt 1, LStr s_one); (KInt 4294967297, LStr s_big)]) as Hnd.
  { unfold dict_keys_nodup. simpl. constructor; [intros [E|[]]; discriminate | constructor; [intros [] | constructor]]. }
  specialize (H [(KInt 1, LStr s_one); (KInt 4294967297, LStr s_big)] []
                [(1, s_one); (4294967297, s_big); (0, s_Unknown)] []
                [(1, [111; 110; 101]%N); (1, [98; 105; 103]%N); (0, [85; 110; 107; 110; 111; 119; 110]%N)]
                [(1, s_big); (0, s_Unknown)] Hnd ltac:(vm_compute; reflexivity)).
  discriminate H.
Qed.

(* ------------------------------------------------------------------ values outside the map's keys *)
Theorem ref_values_outside_map : forall d ops m0 bs a n l,
  dict_keys_nodup d -> mk Repaired d = Ok m0 ->
  let m := fst (apply_ops Repaired m0 ops) in
  enc_all utf8_enc (map snd m) = Ok bs ->
  Forall in_int32 l -> len_ok a n (length l) -> (1 <= n)%nat ->
  let l' := padded l n INTEGER_NDV in
  run_ref Repaired d ops a n (AInt I32 l)
  = (MODone m (snd (apply_ops Repaired m0 ops)) (combine (map fst m) bs) m, ODone (VI l') (RI32 l') (VI l'))
  /\ (forall z, In z l -> In z l')
  /\ (forall z, lookup z m = None -> ~ In z (map fst m)).
Proof.
  intros d ops m0 bs a n l Hnd Hmk m Hbs Hr Hlen Hn l'. split; [|split].
  - unfold run_ref. f_equal.
    + apply (refmap_survives_file utf8_enc utf8_dec utf8_dec_enc d ops m0 bs Hnd Hmk Hbs).
    + apply int_roundtrip_in_range; try assumption. right; reflexivity.
  - intros z Hz. unfold l', padded. destruct (length l <? n)%nat; [apply in_or_app; left|]; assumption.
  - intros z Hz. apply lookup_None_iff. assumption.
Qed.

Example ref_values_outside_map_nonvacuous :
  exists m rows,
    run_ref Repaired [(KInt 1, LStr s_one)] [] AVertex 3 (AInt I32 [1; 7; -5])
    = (MODone m [] rows m, ODone (VI [1; 7; -5]) (RI32 [1; 7; -5]) (VI [1; 7; -5]))
    /\ lookup 7 m = None /\ lookup (-5) m = None /\ lookup 1 m = Some s_one.
Proof. do 2 eexists. split; [vm_compute; reflexivity|]. repeat split. Qed.
