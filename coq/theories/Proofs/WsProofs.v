(* Proofs about the workspace/file model: frame (C09), the representation invariant (C01/C02), the loader. *)
From GV Require Import Prelude.Base Model.Ws Model.WsSpec Proofs.WsFile Proofs.WsTree.
From Coq Require Import Permutation.

(* ======================================================================================================== *)
(* Part A — frame properties, unconditional                                                                  *)
(* ======================================================================================================== *)

Definition frame_ok (t : tree) : Prop :=
  forall p f y, y <> p -> ~ In y (keys_of t) -> fget y (flat (save_tree p t f)) = fget y (flat f).

Lemma save_kids_frame k l y : Forall frame_ok l -> y <> k -> ~ In y (flat_map keys_of l) ->
  forall f, fget y (flat (save_kids k l f)) = fget y (flat f).
Proof.
  intros H Hk. induction H as [|c r Hc Hr IHr]; intros Hl f; [reflexivity|].
  simpl in Hl. unfold save_kids in *. simpl. rewrite IHr.
  - apply Hc; [exact Hk | intros Hy; apply Hl; apply in_or_app; left; exact Hy].
  - intros Hy. apply Hl. apply in_or_app. right. exact Hy.
Qed.

Lemma save_tree_frame t : frame_ok t.
Proof.
  induction t as [k a l IH] using tree_ind'. intros p f y Hp Hy. rewrite save_tree_eq.
  rewrite w_link_frame by exact Hp. rewrite keys_of_eq in Hy.
  assert (Hk : y <> k) by (intros ->; apply Hy; left; reflexivity).
  rewrite save_kids_frame; [apply w_entity_frame; exact Hk | exact IH | exact Hk |].
  intros Hl. apply Hy. right. exact Hl.
Qed.

Lemma save_kids_frame' k l y f : y <> k -> ~ In y (flat_map keys_of l) ->
  fget y (flat (save_kids k l f)) = fget y (flat f).
Proof.
  intros Hk Hl. apply save_kids_frame; [|exact Hk | exact Hl].
  apply Forall_forall. intros c _. apply save_tree_frame.
Qed.

Lemma save_kids_rootlink k l : (forall c p f, In c l -> rootlink (save_tree p c f) = rootlink f) ->
  forall f, rootlink (save_kids k l f) = rootlink f.
Proof.
  induction l as [|c r IH]; intros H f; [reflexivity|].
  unfold save_kids in *. simpl. rewrite IH.
  - apply H. left. reflexivity.
  - intros c' p' f' Hc'. apply H. right. exact Hc'.
Qed.

Lemma save_tree_rootlink t : forall p f, rootlink (save_tree p t f) = rootlink f.
Proof.
  induction t as [k a l IH] using tree_ind'. intros p f. rewrite save_tree_eq, w_link_rootlink.
  rewrite save_kids_rootlink; [apply w_entity_rootlink|].
  rewrite Forall_forall in IH. intros c p' f' Hc. apply IH. exact Hc.
Qed.

Definition rm_frame_ok (t : tree) : Prop :=
  forall p f y, y <> p -> ~ In y (keys_of t) -> fget y (flat (fst (rm_ws p t f))) = fget y (flat f).

Lemma rm_list_frame k l y : Forall rm_frame_ok l -> y <> k -> ~ In y (flat_map keys_of l) ->
  forall f, fget y (flat (fst (rm_list k l f))) = fget y (flat f).
Proof.
  intros H Hk. induction H as [|c r Hc Hr IHr]; intros Hl f; [reflexivity|].
  simpl in Hl. simpl. pose proof (Hc k f y Hk) as Hc'.
  destruct (rm_ws k c f) as [f' ok]. simpl in Hc'.
  assert (E : fget y (flat f') = fget y (flat f)).
  { apply Hc'. intros Hy. apply Hl. apply in_or_app. left. exact Hy. }
  destruct ok; simpl; [|exact E].
  rewrite IHr; [exact E|]. intros Hy. apply Hl. apply in_or_app. right. exact Hy.
Qed.

Lemma rm_ws_frame t : rm_frame_ok t.
Proof.
  induction t as [k a l IH] using tree_ind'. intros p f y Hp Hy. rewrite rm_ws_eq.
  destruct (negb (adel a)); [reflexivity|]. rewrite keys_of_eq in Hy.
  assert (Hk : y <> k) by (intros ->; apply Hy; left; reflexivity).
  assert (Hl : ~ In y (flat_map keys_of l)) by (intros Hl; apply Hy; right; exact Hl).
  pose proof (rm_list_frame k l y IH Hk Hl f) as E.
  destruct (rm_list k l f) as [f1 ok]. simpl in E. destruct ok; simpl; [|exact E].
  rewrite fget_fdel_other by exact Hk. rewrite w_unlink_frame by exact Hp. exact E.
Qed.

Definition rm_rootlink_ok (t : tree) : Prop := forall p f, rootlink (fst (rm_ws p t f)) = rootlink f.

Lemma rm_list_rootlink k l : Forall rm_rootlink_ok l -> forall f, rootlink (fst (rm_list k l f)) = rootlink f.
Proof.
  intros H. induction H as [|c r Hc Hr IHr]; intros f; [reflexivity|].
  simpl. pose proof (Hc k f) as Hc'. destruct (rm_ws k c f) as [f' ok]. simpl in Hc'.
  destruct ok; simpl; [rewrite IHr; exact Hc' | exact Hc'].
Qed.

Lemma rm_ws_rootlink t : rm_rootlink_ok t.
Proof.
  induction t as [k a l IH] using tree_ind'. intros p f. rewrite rm_ws_eq.
  destruct (negb (adel a)); [reflexivity|].
  pose proof (rm_list_rootlink k l IH f) as E. destruct (rm_list k l f) as [f1 ok]. simpl in E.
  destruct ok; simpl; [|exact E]. rewrite w_unlink_rootlink. exact E.
Qed.

(* the file written by close *)
Definition sweep_file (w : ws) (k : kind) : file :=
  del_all (filter (fun x => kind_eqb (fst x) k) (wpend w)) (wfile w).

Lemma do_sweep_file w k : wfile (do_sweep w k) = sweep_file w k.
Proof. reflexivity. Qed.

Lemma close_file_file w :
  wfile (close_file w) = save_kids (tkey (wmem w)) (tkids (wmem w)) (w_entity (tkey (wmem w)) (tattrs (wmem w)) (sweep_file w KG)).
Proof. unfold close_file. simpl. destruct (wmem w) as [k a l]. reflexivity. Qed.

Lemma close_file_mem w : wmem (close_file w) = wmem w.
Proof. unfold close_file. simpl. destruct (wmem w) as [k a l]. reflexivity. Qed.

Lemma close_file_pend w : wpend (close_file w) = filter (fun x => negb (kind_eqb (fst x) KG)) (wpend w).
Proof. unfold close_file. simpl. destruct (wmem w) as [k a l]. reflexivity. Qed.

Lemma reopen_file w : wfile (fst (do_reopen w)) = wfile (close_file w).
Proof.
  unfold do_reopen. destruct (rootlink (wfile (close_file w))) as [[r ad]|]; [|reflexivity].
  destruct (load _ _ _ r) as [[t sn]|]; reflexivity.
Qed.

Lemma close_file_frame w y :
  ~ In y (filter (fun x => kind_eqb (fst x) KG) (wpend w) ++ keys_of (wmem w)) ->
  fget y (flat (wfile (close_file w))) = fget y (flat (wfile w)).
Proof.
  intros H. rewrite close_file_file. destruct (wmem w) as [k a l]. simpl.
  assert (Hk : y <> k) by (intros ->; apply H; apply in_or_app; right; left; reflexivity).
  rewrite save_kids_frame'; [|exact Hk | intros Hl; apply H; apply in_or_app; right; right; exact Hl].
  rewrite w_entity_frame by exact Hk. unfold sweep_file. apply del_all_frame.
  intros Hd. apply H. apply in_or_app. left. exact Hd.
Qed.

Lemma close_file_rootlink w : rootlink (wfile (close_file w)) = rootlink (wfile w).
Proof.
  rewrite close_file_file. rewrite save_kids_rootlink by (intros; apply save_tree_rootlink).
  rewrite w_entity_rootlink. unfold sweep_file. apply del_all_rootlink.
Qed.

Theorem step_frame : forall w o x, ~ In x (footprint w o) ->
  fget x (flat (wfile (fst (step w o)))) = fget x (flat (wfile w)).
Proof.
  intros w o x Hx. destruct o as [k u p nm ar | e n | e b | e v | e q | e | e | k | ]; unfold step.
  - (* Create *) simpl in Hx. unfold do_create. destruct (find p (wmem w)); [|reflexivity].
    destruct (negb (can_hold (fst p) k) || mem_key (k, u) (keys_of (wmem w))); [reflexivity|]. simpl.
    rewrite w_link_frame by (intros ->; apply Hx; right; left; reflexivity).
    apply w_entity_frame. intros ->. apply Hx. left. reflexivity.
  - simpl in Hx. unfold do_set. destruct (find e (wmem w)); [|reflexivity].
    destruct (key_eqb e rootkey); [reflexivity|]. simpl.
    apply w_scalars_frame. intros ->. apply Hx. left. reflexivity.
  - simpl in Hx. unfold do_set. destruct (find e (wmem w)); [|reflexivity].
    destruct (key_eqb e rootkey); [reflexivity|]. simpl.
    apply w_scalars_frame. intros ->. apply Hx. left. reflexivity.
  - simpl in Hx. unfold do_set. destruct (find e (wmem w)); [|reflexivity].
    destruct (key_eqb e rootkey); [reflexivity|]. simpl.
    apply w_array_frame. intros ->. apply Hx. left. reflexivity.
  - (* Move *) unfold footprint, parent_list, subtree_keys in Hx. unfold do_move.
    destruct (find e (wmem w)) as [te|]; [|reflexivity].
    destruct (find q (wmem w)); [|reflexivity].
    destruct (parent_of e (wmem w)) as [p|]; [|reflexivity].
    destruct (negb (can_hold (fst q) (fst e)) || mem_key q (keys_of te) || key_eqb p q); [reflexivity|]. simpl.
    rewrite save_tree_frame.
    + apply w_unlink_frame. intros ->. apply Hx. left. reflexivity.
    + intros ->. apply Hx. right. left. reflexivity.
    + intros Hk. apply Hx. right. right. exact Hk.
  - (* RemoveWs *) destruct (key_eqb e rootkey); [reflexivity|].
    unfold footprint, parent_list, subtree_keys in Hx. unfold do_remove_ws.
    destruct (find e (wmem w)) as [te|]; [|reflexivity].
    destruct (parent_of e (wmem w)) as [p|]; [|reflexivity].
    pose proof (rm_ws_frame te p (wfile w) x) as E.
    destruct (rm_ws p te (wfile w)) as [f' ok]. destruct (rm_ws_done te) as [gone b]. simpl in *.
    apply E; [intros ->; apply Hx; left; reflexivity | intros Hk; apply Hx; right; exact Hk].
  - (* RemoveParent *) destruct (key_eqb e rootkey); [reflexivity|].
    unfold footprint, parent_list in Hx. unfold do_remove_parent.
    destruct (find e (wmem w)) as [te|]; [|reflexivity].
    destruct (parent_of e (wmem w)) as [p|]; [|reflexivity]. simpl.
    apply w_unlink_frame. intros ->. apply Hx. left. reflexivity.
  - (* Sweep *) simpl. apply del_all_frame. exact Hx.
  - (* Reopen *) rewrite reopen_file. apply close_file_frame. exact Hx.
Qed.

Theorem step_rootlink : forall w o, rootlink (wfile (fst (step w o))) = rootlink (wfile w).
Proof.
  intros w o. destruct o as [k u p nm ar | e n | e b | e v | e q | e | e | k | ]; unfold step.
  - unfold do_create. destruct (find p (wmem w)); [|reflexivity].
    destruct (negb (can_hold (fst p) k) || mem_key (k, u) (keys_of (wmem w))); [reflexivity|]. simpl.
    rewrite w_link_rootlink. apply w_entity_rootlink.
  - unfold do_set. destruct (find e (wmem w)); [|reflexivity].
    destruct (key_eqb e rootkey); [reflexivity|]. simpl. apply w_scalars_rootlink.
  - unfold do_set. destruct (find e (wmem w)); [|reflexivity].
    destruct (key_eqb e rootkey); [reflexivity|]. simpl. apply w_scalars_rootlink.
  - unfold do_set. destruct (find e (wmem w)); [|reflexivity].
    destruct (key_eqb e rootkey); [reflexivity|]. simpl. apply w_array_rootlink.
  - unfold do_move.
    destruct (find e (wmem w)) as [te|]; [|reflexivity].
    destruct (find q (wmem w)); [|reflexivity].
    destruct (parent_of e (wmem w)) as [p|]; [|reflexivity].
    destruct (negb (can_hold (fst q) (fst e)) || mem_key q (keys_of te) || key_eqb p q); [reflexivity|]. simpl.
    rewrite save_tree_rootlink. apply w_unlink_rootlink.
  - destruct (key_eqb e rootkey); [reflexivity|]. unfold do_remove_ws.
    destruct (find e (wmem w)) as [te|]; [|reflexivity].
    destruct (parent_of e (wmem w)) as [p|]; [|reflexivity].
    pose proof (rm_ws_rootlink te p (wfile w)) as E.
    destruct (rm_ws p te (wfile w)) as [f' ok]. destruct (rm_ws_done te) as [gone b]. exact E.
  - destruct (key_eqb e rootkey); [reflexivity|]. unfold do_remove_parent.
    destruct (find e (wmem w)) as [te|]; [|reflexivity].
    destruct (parent_of e (wmem w)) as [p|]; [|reflexivity]. simpl. apply w_unlink_rootlink.
  - simpl. apply del_all_rootlink.
  - rewrite reopen_file. apply close_file_rootlink.
Qed.

(* ======================================================================================================== *)
(* Rep toolkit                                                                                               *)
(* ======================================================================================================== *)

Definition addr_pres (m m' : flatmap) (c : key) : Prop :=
  forall cn, fget c m = Some cn -> exists cn', fget c m' = Some cn' /\ faddr cn' = faddr cn.

Lemma addr_pres_same m m' c : fget c m' = fget c m -> addr_pres m m' c.
Proof. intros E cn H. exists cn. rewrite E. auto. Qed.

Lemma node_matches_frame m m' r : node_matches m r -> fget (rkey r) m' = fget (rkey r) m ->
  (forall c, In c (rkids r) -> addr_pres m m' c) -> node_matches m' r.
Proof.
  intros [n [Hg [Ha [Hnd [Hk Hl]]]]] E Hp. exists n. split; [rewrite E; exact Hg|].
  split; [exact Ha|]. split; [exact Hnd|]. split; [exact Hk|].
  intros c ad Hin. destruct (Hl c ad Hin) as [cn [Hc Had]].
  assert (Hc' : In c (rkids r)).
  { apply Hk. apply in_map_iff. exists (c, ad). split; [reflexivity | exact Hin]. }
  destruct (Hp c Hc' cn Hc) as [cn' [Hc2 Had2]]. exists cn'. split; [exact Hc2 | congruence].
Qed.

Lemma node_matches_same m m' r : node_matches m r -> fget (rkey r) m' = fget (rkey r) m ->
  (forall c, In c (rkids r) -> fget c m' = fget c m) -> node_matches m' r.
Proof.
  intros H E Hk. eapply node_matches_frame; [exact H | exact E |].
  intros c Hc. apply addr_pres_same. apply Hk. exact Hc.
Qed.

Lemma in_keys_hole p a l1 te l2 x :
  In x (keys_of (Node p a (l1 ++ te :: l2))) <->
  p = x \/ In x (flat_map keys_of l1) \/ In x (keys_of te) \/ In x (flat_map keys_of l2).
Proof. rewrite keys_of_eq, flat_map_app. simpl. rewrite !in_app_iff. tauto. Qed.

Lemma in_keys_nohole p a l1 l2 x :
  In x (keys_of (Node p a (l1 ++ l2))) <-> p = x \/ In x (flat_map keys_of l1) \/ In x (flat_map keys_of l2).
Proof. rewrite keys_of_eq, flat_map_app. simpl. rewrite !in_app_iff. tauto. Qed.

Lemma in_rows_hole p a l1 te l2 r :
  In r (rows (Node p a (l1 ++ te :: l2))) <->
  (p, a, map tkey (l1 ++ te :: l2)) = r \/ In r (flat_map rows l1) \/ In r (rows te) \/ In r (flat_map rows l2).
Proof. rewrite rows_eq, flat_map_app. simpl. rewrite !in_app_iff. tauto. Qed.

Lemma in_rows_nohole p a l1 l2 r :
  In r (rows (Node p a (l1 ++ l2))) <->
  (p, a, map tkey (l1 ++ l2)) = r \/ In r (flat_map rows l1) \/ In r (flat_map rows l2).
Proof. rewrite rows_eq, flat_map_app. simpl. rewrite !in_app_iff. tauto. Qed.

Lemma nodup_hole_remove p a l1 te l2 :
  NoDup (keys_of (Node p a (l1 ++ te :: l2))) -> NoDup (keys_of (Node p a (l1 ++ l2))).
Proof.
  rewrite !keys_of_eq, !flat_map_app. simpl. intros H. inversion H as [|? ? Hn Hr]; subst.
  apply nodup_app_iff in Hr. destruct Hr as [H1 [H2 H3]].
  apply nodup_app_iff in H2. destruct H2 as [H4 [H5 H6]].
  constructor.
  - intros Hin. apply Hn. apply in_app_or in Hin. apply in_or_app.
    destruct Hin as [Hin|Hin]; [left; exact Hin | right; apply in_or_app; right; exact Hin].
  - apply nodup_app_iff. repeat split; [exact H1 | exact H5 |].
    intros x Hx Hx2. apply (H3 x Hx). apply in_or_app. right. exact Hx2.
Qed.

(* replacing the subtree at a hole by one with the same root identifier *)
Lemma rep_replace C s s' f f' P P' :
  Rep (plug C s) f P ->
  tkey s' = tkey s ->
  NoDup (keys_of s') ->
  (forall x, In x (keys_of s') -> ~ In x (ctx_keys C)) ->
  NoDup (map fst (flat f')) ->
  (forall r, In r (rows s') -> node_matches (flat f') r) ->
  (forall x, In x (ctx_keys C) -> fget x (flat f') = fget x (flat f)) ->
  addr_pres (flat f) (flat f') (tkey s) ->
  (forall k n, fget k (flat f') = Some n -> In k (keys_of s') \/ In k (ctx_keys C) \/ In k P') ->
  (forall k, In k P' -> ~ In k (keys_of s') /\ ~ In k (ctx_keys C)) ->
  rootlink f' = rootlink f ->
  Rep (plug C s') f' P'.
Proof.
  intros R Hk Hnd Hdis Hfnd Hrows Hctx Hap Honly Hpend Hrl.
  destruct R as [Rroot Rnd Rfnd Rrows Ronly Rpend Rrl].
  constructor.
  - rewrite <- Rroot. apply tkey_plug. exact Hk.
  - apply keys_plug_nodup. apply keys_plug_nodup in Rnd. destruct Rnd as [_ [Hc _]]. repeat split; assumption.
  - exact Hfnd.
  - intros r Hr. apply rows_plug_in in Hr. destruct Hr as [Hr|Hr]; [apply Hrows; exact Hr|].
    rewrite Hk in Hr. apply node_matches_frame with (m := flat f).
    + apply Rrows. apply rows_plug_in. right. exact Hr.
    + apply Hctx. eapply ctx_rows_key. exact Hr.
    + intros c Hc. destruct (ctx_rows_kids _ _ _ _ Hr Hc) as [->|Hin];
        [exact Hap | apply addr_pres_same; apply Hctx; exact Hin].
  - intros k n Hg. rewrite keys_plug_in. destruct (Honly k n Hg) as [H|[H|H]]; auto.
  - intros k Hin. rewrite keys_plug_in. destruct (Hpend k Hin). tauto.
  - destruct Rrl as [n [Hg Hl]].
    assert (Hr : addr_pres (flat f) (flat f') rootkey).
    { rewrite <- Rroot. destruct (tkey_plug_in C s) as [E|Hin];
        [rewrite <- E; exact Hap | apply addr_pres_same; apply Hctx; exact Hin]. }
    destruct (Hr n Hg) as [n' [Hg' Ha']]. exists n'. split; [exact Hg'|]. rewrite Hrl, Hl, Ha'. reflexivity.
Qed.

Lemma rep_pend_change t f P P' : Rep t f P ->
  (forall k, In k P' -> In k P) ->
  (forall k n, fget k (flat f) = Some n -> In k P -> In k P') ->
  Rep t f P'.
Proof.
  intros [Rroot Rnd Rfnd Rrows Ronly Rpend Rrl] H1 H2. constructor; try assumption.
  - intros k n Hg. destruct (Ronly k n Hg) as [H|H]; [left; exact H | right; eapply H2; eassumption].
  - intros k Hk. apply Rpend. apply H1. exact Hk.
Qed.

Lemma rep_pend_equiv t f P P' : Rep t f P -> (forall k, In k P <-> In k P') -> Rep t f P'.
Proof.
  intros R H. eapply rep_pend_change; [exact R | intros k; apply H | intros k n _; apply H].
Qed.

(* facts every Rep gives about the subtree at a hole *)
Lemma rep_hole_facts C s f P : Rep (plug C s) f P ->
  NoDup (keys_of s) /\
  (forall x, In x (keys_of s) -> ~ In x (ctx_keys C)) /\
  (forall r, In r (rows s) -> node_matches (flat f) r) /\
  (forall k, In k P -> ~ In k (keys_of s) /\ ~ In k (ctx_keys C)).
Proof.
  intros [Rroot Rnd Rfnd Rrows Ronly Rpend Rrl]. apply keys_plug_nodup in Rnd. destruct Rnd as [H1 [H2 H3]].
  repeat split.
  - exact H1.
  - exact H3.
  - intros r Hr. apply Rrows. apply rows_plug_in. left. exact Hr.
  - intros Hk. apply (Rpend k H). apply keys_plug_in. left. exact Hk.
  - intros Hk. apply (Rpend k H). apply keys_plug_in. right. exact Hk.
Qed.

(* ---- attribute update ---- *)
Lemma rep_set C x a l a' f f' P n n' :
  Rep (plug C (Node x a l)) f P ->
  fget x (flat f) = Some n ->
  fget x (flat f') = Some n' -> fattrs n' = a' -> faddr n' = faddr n -> flinks n' = flinks n ->
  (forall y, y <> x -> fget y (flat f') = fget y (flat f)) ->
  NoDup (map fst (flat f')) -> rootlink f' = rootlink f ->
  Rep (plug C (Node x a' l)) f' P.
Proof.
  intros R Hn Hn' Ha' Had Hli Hfr Hfnd Hrl.
  destruct (rep_hole_facts _ _ _ _ R) as [Hnd [Hdis [Hrows Hpend]]].
  assert (Hxl : ~ In x (flat_map keys_of l)) by (rewrite keys_of_eq in Hnd; inversion Hnd; assumption).
  apply rep_replace with (s := Node x a l) (f := f) (P := P); try assumption.
  - reflexivity.
  - intros r Hr. rewrite rows_eq in Hr. destruct Hr as [<-|Hr].
    + destruct (Hrows (x, a, map tkey l)) as [n0 [Hg0 [Ha0 [Hnd0 [Hk0 Hl0]]]]]; [rewrite rows_eq; left; reflexivity|].
      unfold rkey, rattrs, rkids in *. simpl in *. rewrite Hn in Hg0. inversion Hg0; subst n0.
      exists n'. unfold rkey, rattrs, rkids. simpl. rewrite Hli. repeat split; try assumption.
      * apply Hk0.
      * apply Hk0.
      * intros c ad Hin. destruct (Hl0 c ad Hin) as [cn [Hc Hcad]]. exists cn. split; [|exact Hcad].
        rewrite Hfr; [exact Hc|]. intros ->. apply Hxl. apply tkeys_sub. apply Hk0.
        apply in_map_iff. exists (x, ad). split; [reflexivity | exact Hin].
    + apply node_matches_same with (m := flat f).
      * apply Hrows. rewrite rows_eq. right. exact Hr.
      * apply Hfr. intros E. apply Hxl. rewrite <- E. apply rows_list_keys. exact Hr.
      * intros c Hc. apply Hfr. intros ->. apply Hxl. eapply rows_list_kids; eassumption.
  - intros y Hy. apply Hfr. intros ->. apply (Hdis x); [left; reflexivity | exact Hy].
  - intros cn Hc. simpl in Hc. rewrite Hn in Hc. inversion Hc; subst cn. exists n'. split; assumption.
  - intros k n0 Hg. destruct (key_dec k x) as [->|Hne]; [left; left; reflexivity|].
    rewrite Hfr in Hg by exact Hne. destruct (rep_only _ _ _ R k n0 Hg) as [H|H]; [|right; right; exact H].
    apply keys_plug_in in H. destruct H as [H|H]; [left; exact H | right; left; exact H].
Qed.

(* ---- detaching a child subtree (removal through the parent) ---- *)
Lemma rep_detach C p a l1 te l2 f P :
  Rep (plug C (Node p a (l1 ++ te :: l2))) f P ->
  Rep (plug C (Node p a (l1 ++ l2))) (w_unlink p (tkey te) f) (P ++ keys_of te).
Proof.
  intros R. destruct (rep_hole_facts _ _ _ _ R) as [Hnd [Hdis [Hrows Hpend]]].
  pose proof (nodup_hole _ _ _ _ _ Hnd) as [Hte [Hpte Hd]].
  pose proof (nodup_hole_remove _ _ _ _ _ Hnd) as Hnd'.
  assert (Hsub : forall x, In x (keys_of (Node p a (l1 ++ l2))) -> In x (keys_of (Node p a (l1 ++ te :: l2)))).
  { intros x. rewrite in_keys_hole, in_keys_nohole. tauto. }
  assert (Hp1 : ~ In p (flat_map keys_of (l1 ++ l2))) by (rewrite keys_of_eq in Hnd'; inversion Hnd'; assumption).
  assert (Hp0 : ~ In p (flat_map keys_of (l1 ++ te :: l2))) by (rewrite keys_of_eq in Hnd; inversion Hnd; assumption).
  destruct (Hrows (p, a, map tkey (l1 ++ te :: l2))) as [pn [Hg [Ha [Hlnd [Hk Hl]]]]]; [rewrite rows_eq; left; reflexivity|].
  unfold rkey, rattrs, rkids in *. simpl in *.
  pose proof (w_unlink_same p (tkey te) f pn Hg) as Hg'.
  assert (Hfr : forall y, y <> p -> fget y (flat (w_unlink p (tkey te) f)) = fget y (flat f)).
  { intros y Hy. apply w_unlink_frame. exact Hy. }
  apply rep_replace with (s := Node p a (l1 ++ te :: l2)) (f := f) (P := P).
  - exact R.
  - reflexivity.
  - exact Hnd'.
  - intros x Hx. apply Hdis. apply Hsub. exact Hx.
  - apply w_unlink_nodup. exact (rep_flatnd _ _ _ R).
  - intros r Hr. rewrite rows_eq in Hr. destruct Hr as [<-|Hr].
    + eexists. unfold rkey, rattrs, rkids. simpl. split; [exact Hg'|]. simpl.
      split; [exact Ha|]. split; [apply ldel_keys_NoDup; exact Hlnd|]. split.
      * intros c. rewrite (ldel_keys_In (tkey te) (flinks pn) c Hlnd). rewrite Hk.
        rewrite !map_app. simpl. rewrite !in_app_iff. simpl.
        assert (H1 : In c (map tkey l1) -> c <> tkey te).
        { intros Hc ->. apply (proj1 (Hd (tkey te) (tkey_in_keys te))). apply tkeys_sub. exact Hc. }
        assert (H2 : In c (map tkey l2) -> c <> tkey te).
        { intros Hc ->. apply (proj2 (Hd (tkey te) (tkey_in_keys te))). apply tkeys_sub. exact Hc. }
        split; [intros [Hne [H|[H|H]]]; [left; exact H | congruence | right; exact H]
               | intros [H|H]; [split; [apply H1; exact H | left; exact H] | split; [apply H2; exact H | right; right; exact H]]].
      * intros c ad Hin. apply ldel_In in Hin. destruct (Hl c ad Hin) as [cn [Hc Hcad]]. exists cn. split; [|exact Hcad].
        rewrite Hfr; [exact Hc|]. intros ->. apply Hp0. apply tkeys_sub. apply Hk.
        apply in_map_iff. exists (p, ad). split; [reflexivity | exact Hin].
    + assert (Hr0 : In r (flat_map rows (l1 ++ te :: l2))).
      { rewrite flat_map_app in *. simpl. apply in_app_or in Hr. apply in_or_app.
        destruct Hr as [Hr|Hr]; [left; exact Hr | right; apply in_or_app; right; exact Hr]. }
      apply node_matches_same with (m := flat f).
      * apply Hrows. right. exact Hr0.
      * apply Hfr. intros E. apply Hp0. rewrite <- E. apply rows_list_keys. exact Hr0.
      * intros c Hc. apply Hfr. intros ->. apply Hp0. eapply rows_list_kids; eassumption.
  - intros y Hy. apply Hfr. intros ->. apply (Hdis p); [left; reflexivity | exact Hy].
  - intros cn Hc. simpl in Hc. rewrite Hg in Hc. inversion Hc; subst cn. eexists. split; [exact Hg' | reflexivity].
  - intros k n0 Hk0. destruct (key_dec k p) as [->|Hne]; [left; left; reflexivity|].
    rewrite Hfr in Hk0 by exact Hne. destruct (rep_only _ _ _ R k n0 Hk0) as [H|H].
    + apply keys_plug_in in H. destruct H as [H|H]; [|right; left; exact H].
      apply in_keys_hole in H. rewrite in_keys_nohole, in_app_iff. tauto.
    + right. right. apply in_or_app. left. exact H.
  - intros k Hk0. apply in_app_or in Hk0. destruct Hk0 as [Hk0|Hk0].
    + destruct (Hpend k Hk0) as [H1 H2]. split; [intros H; apply H1; apply Hsub; exact H | exact H2].
    + split.
      * rewrite in_keys_nohole. intros [<-|[H|H]]; [exact (Hpte Hk0) | exact (proj1 (Hd k Hk0) H) | exact (proj2 (Hd k Hk0) H)].
      * apply Hdis. apply (in_keys_hole p a l1 te l2 k). right. right. left. exact Hk0.
  - apply w_unlink_rootlink.
Qed.

(* ---- attaching an orphan subtree under an entity of the tree (creation, second half of a move) ---- *)
Lemma rep_attach C q a l te f P0 P' :
  Rep (plug C (Node q a l)) f P0 ->
  NoDup (keys_of te) ->
  (forall r, In r (rows te) -> node_matches (flat f) r) ->
  (forall k, In k (keys_of te) -> In k P0) ->
  (forall k, In k P0 -> In k P' \/ In k (keys_of te)) ->
  (forall k, In k P' -> In k P0 /\ ~ In k (keys_of te)) ->
  Rep (plug C (Node q a (l ++ [te]))) (w_link q (tkey te) f) P'.
Proof.
  intros R Hte Hrte Hsub Hcov Hnew.
  destruct (rep_hole_facts _ _ _ _ R) as [Hnd [Hdis [Hrows Hpend]]].
  assert (Hql : ~ In q (flat_map keys_of l)) by (rewrite keys_of_eq in Hnd; inversion Hnd; assumption).
  assert (Hfresh : forall k, In k (keys_of te) -> ~ In k (keys_of (Node q a l)) /\ ~ In k (ctx_keys C)).
  { intros k Hk. apply Hpend. apply Hsub. exact Hk. }
  destruct (Hrows (q, a, map tkey l)) as [qn [Hg [Ha [Hlnd [Hk Hl]]]]]; [rewrite rows_eq; left; reflexivity|].
  unfold rkey, rattrs, rkids in Hg, Ha, Hlnd, Hk, Hl. simpl in Hg, Ha, Hlnd, Hk, Hl.
  destruct (Hrte (tkey te, tattrs te, map tkey (tkids te))) as [en [Hge _]].
  { destruct te as [k' a' l']. rewrite rows_eq. left. reflexivity. }
  unfold rkey in Hge. simpl in Hge.
  assert (Heq : tkey te <> q).
  { intros E. apply (proj1 (Hfresh (tkey te) (tkey_in_keys te))). rewrite E. left. reflexivity. }
  assert (Hlg : lget (tkey te) (flinks qn) = None).
  { apply lget_None_notin. intros Hin. apply Hk in Hin.
    apply (proj1 (Hfresh (tkey te) (tkey_in_keys te))). right. apply tkeys_sub. exact Hin. }
  pose proof (w_link_new q (tkey te) f qn en Hg Hge Hlg) as Hg'.
  assert (Hfr : forall y, y <> q -> fget y (flat (w_link q (tkey te) f)) = fget y (flat f)).
  { intros y Hy. apply w_link_frame. exact Hy. }
  apply rep_replace with (s := Node q a l) (f := f) (P := P0).
  - exact R.
  - reflexivity.
  - rewrite keys_of_eq, flat_map_app. simpl. rewrite app_nil_r. constructor.
    + intros Hin. apply in_app_or in Hin. destruct Hin as [Hin|Hin]; [exact (Hql Hin)|].
      apply (proj1 (Hfresh q Hin)). left. reflexivity.
    + apply nodup_app_iff. repeat split.
      * rewrite keys_of_eq in Hnd. inversion Hnd; assumption.
      * exact Hte.
      * intros x Hx Hx2. apply (proj1 (Hfresh x Hx2)). right. exact Hx.
  - intros x Hx. rewrite keys_of_eq, flat_map_app in Hx. simpl in Hx. rewrite app_nil_r in Hx.
    destruct Hx as [<-|Hx]; [apply Hdis; left; reflexivity|].
    apply in_app_or in Hx. destruct Hx as [Hx|Hx]; [apply Hdis; right; exact Hx | apply Hfresh; exact Hx].
  - apply w_link_nodup. exact (rep_flatnd _ _ _ R).
  - intros r Hr. rewrite rows_eq, flat_map_app in Hr. simpl in Hr. rewrite app_nil_r in Hr.
    destruct Hr as [<-|Hr].
    + eexists. unfold rkey, rattrs, rkids. simpl. split; [exact Hg'|]. simpl.
      split; [exact Ha|]. rewrite map_app. simpl. split.
      { apply nodup_app_iff. repeat split; [exact Hlnd | constructor; [intros [] | constructor] |].
        intros x Hx [<-|[]]. apply lget_None_notin in Hlg. exact (Hlg Hx). }
      split.
      * intros c. rewrite map_app, !in_app_iff. simpl. rewrite Hk. tauto.
      * intros c ad Hin. apply in_app_or in Hin. destruct Hin as [Hin|[Hin|[]]].
        -- destruct (Hl c ad Hin) as [cn [Hc Hcad]]. exists cn. split; [|exact Hcad].
           rewrite Hfr; [exact Hc|]. intros ->. apply Hql. apply tkeys_sub. apply Hk.
           apply in_map_iff. exists (q, ad). split; [reflexivity | exact Hin].
        -- inversion Hin; subst. exists en. split; [|reflexivity]. rewrite Hfr by exact Heq. exact Hge.
    + apply in_app_or in Hr. destruct Hr as [Hr|Hr].
      * apply node_matches_same with (m := flat f).
        -- apply Hrows. rewrite rows_eq. right. exact Hr.
        -- apply Hfr. intros E. apply Hql. rewrite <- E. apply rows_list_keys. exact Hr.
        -- intros c Hc. apply Hfr. intros ->. apply Hql. eapply rows_list_kids; eassumption.
      * apply node_matches_same with (m := flat f).
        -- apply Hrte. exact Hr.
        -- apply Hfr. intros E.
           assert (Hq : In q (keys_of te)) by (rewrite <- E; apply rows_keys; exact Hr).
           apply (proj1 (Hfresh q Hq)). left. reflexivity.
        -- intros c Hc. apply Hfr. intros ->.
           assert (Hq : In q (keys_of te)) by (eapply rows_kids_keys; eassumption).
           apply (proj1 (Hfresh q Hq)). left. reflexivity.
  - intros y Hy. apply Hfr. intros ->. apply (Hdis q); [left; reflexivity | exact Hy].
  - intros cn Hc. simpl in Hc. rewrite Hg in Hc. inversion Hc; subst cn. eexists. split; [exact Hg' | reflexivity].
  - intros k n0 Hk0. destruct (key_dec k q) as [->|Hne]; [left; left; reflexivity|].
    rewrite Hfr in Hk0 by exact Hne. destruct (rep_only _ _ _ R k n0 Hk0) as [H|H].
    + apply keys_plug_in in H. destruct H as [H|H]; [|right; left; exact H].
      left. rewrite keys_of_eq in H. rewrite keys_of_eq, flat_map_app. simpl.
      destruct H as [H|H]; [left; exact H | right; apply in_or_app; left; exact H].
    + destruct (Hcov k H) as [H'|H']; [right; right; exact H'|].
      left. rewrite keys_of_eq, flat_map_app. simpl. rewrite app_nil_r. right. apply in_or_app. right. exact H'.
  - intros k Hk0. destruct (Hnew k Hk0) as [H1 H2]. destruct (Hpend k H1) as [H3 H4]. split; [|exact H4].
    rewrite keys_of_eq, flat_map_app. simpl. rewrite app_nil_r. rewrite keys_of_eq in H3.
    intros [H|H]; [apply H3; left; exact H|]. apply in_app_or in H.
    destruct H as [H|H]; [apply H3; right; exact H | exact (H2 H)].
  - apply w_link_rootlink.
Qed.

(* ---- deleting flat nodes of pending identifiers ---- *)
Lemma rep_delete t f P D P' : Rep t f P ->
  (forall d, In d D -> In d P) ->
  (forall k, In k P -> In k D \/ In k P') ->
  (forall k, In k P' -> In k P) ->
  Rep t (del_all D f) P'.
Proof.
  intros [Rroot Rnd Rfnd Rrows Ronly Rpend Rrl] HD Hcov Hsub.
  assert (Hfr : forall y, In y (keys_of t) -> fget y (flat (del_all D f)) = fget y (flat f)).
  { intros y Hy. apply del_all_frame. intros Hd. exact (Rpend y (HD y Hd) Hy). }
  constructor.
  - exact Rroot.
  - exact Rnd.
  - apply del_all_nodup. exact Rfnd.
  - intros r Hr. apply node_matches_same with (m := flat f).
    + apply Rrows. exact Hr.
    + apply Hfr. apply rows_keys. exact Hr.
    + intros c Hc. apply Hfr. eapply rows_kids_keys; eassumption.
  - intros k n Hg. apply del_all_Some in Hg; [|exact Rfnd]. destruct Hg as [Hd Hg].
    destruct (Ronly k n Hg) as [H|H]; [left; exact H|].
    destruct (Hcov k H) as [H'|H']; [contradiction | right; exact H'].
  - intros k Hk. apply Rpend. apply Hsub. exact Hk.
  - destruct Rrl as [n [Hg Hl]]. exists n. split.
    + rewrite Hfr; [exact Hg|]. rewrite <- Rroot. apply tkey_in_keys.
    + rewrite del_all_rootlink. exact Hl.
Qed.

(* ---- writing a fresh flat node that nothing links to ---- *)
Lemma rep_add_orphan t f P x a : Rep t f P -> fget x (flat f) = None -> ~ In x (keys_of t) ->
  Rep t (w_entity x a f) (x :: P).
Proof.
  intros [Rroot Rnd Rfnd Rrows Ronly Rpend Rrl] Hx Hnx.
  assert (Hfr : forall y, In y (keys_of t) -> fget y (flat (w_entity x a f)) = fget y (flat f)).
  { intros y Hy. apply w_entity_frame. intros ->. exact (Hnx Hy). }
  constructor.
  - exact Rroot.
  - exact Rnd.
  - apply w_entity_nodup. exact Rfnd.
  - intros r Hr. apply node_matches_same with (m := flat f).
    + apply Rrows. exact Hr.
    + apply Hfr. apply rows_keys. exact Hr.
    + intros c Hc. apply Hfr. eapply rows_kids_keys; eassumption.
  - intros k n Hg. destruct (key_dec k x) as [->|Hne]; [right; left; reflexivity|].
    rewrite w_entity_frame in Hg by exact Hne.
    destruct (Ronly k n Hg) as [H|H]; [left; exact H | right; right; exact H].
  - intros k [<-|Hk]; [exact Hnx | apply Rpend; exact Hk].
  - destruct Rrl as [n [Hg Hl]]. exists n. split.
    + rewrite Hfr; [exact Hg|]. rewrite <- Rroot. apply tkey_in_keys.
    + rewrite w_entity_rootlink. exact Hl.
Qed.

(* ---- re-visiting stored entities rewrites nothing ---- *)
Definition stored (m : flatmap) (t : tree) : Prop :=
  forall r, In r (rows t) ->
  exists n, fget (rkey r) m = Some n /\ forall c, In c (rkids r) -> exists ad, lget c (flinks n) = Some ad.

Lemma node_matches_stored m t : (forall r, In r (rows t) -> node_matches m r) -> stored m t.
Proof.
  intros H r Hr. destruct (H r Hr) as [n [Hg [_ [_ [Hk _]]]]]. exists n. split; [exact Hg|].
  intros c Hc. apply lget_In_Some. apply Hk. exact Hc.
Qed.

Lemma save_kids_fix k l f : (forall c, In c l -> save_tree k c f = f) -> save_kids k l f = f.
Proof.
  induction l as [|c r IH]; intros H; [reflexivity|].
  unfold save_kids in *. simpl. rewrite (H c (or_introl eq_refl)). apply IH.
  intros c' Hc'. apply H. right. exact Hc'.
Qed.

Lemma save_tree_stored t : forall p f, stored (flat f) t -> save_tree p t f = w_link p (tkey t) f.
Proof.
  induction t as [k a l IH] using tree_ind'. intros p f Hs. rewrite save_tree_eq. simpl.
  destruct (Hs (k, a, map tkey l)) as [n [Hg Hk]]; [rewrite rows_eq; left; reflexivity|].
  unfold rkey, rkids in Hg, Hk. simpl in Hg, Hk.
  rewrite (w_entity_old k a f n Hg). rewrite save_kids_fix; [reflexivity|].
  intros c Hc. rewrite Forall_forall in IH. rewrite (IH c Hc).
  - destruct (Hk (tkey c)) as [ad Had]; [apply in_map; exact Hc|].
    destruct (Hs (tkey c, tattrs c, map tkey (tkids c))) as [cn [Hgc _]].
    { rewrite rows_eq. right. apply in_flat_map. exists c. split; [exact Hc|].
      destruct c as [k' a' l']. rewrite rows_eq. left. reflexivity. }
    unfold rkey in Hgc. simpl in Hgc. eapply w_link_old; eassumption.
  - intros r Hr. apply Hs. rewrite rows_eq. right. apply in_flat_map. exists c. split; assumption.
Qed.

Lemma save_kids_stored k a l f : stored (flat f) (Node k a l) -> save_kids k l (w_entity k a f) = f.
Proof.
  intros Hs.
  destruct (Hs (k, a, map tkey l)) as [n [Hg Hk]]; [rewrite rows_eq; left; reflexivity|].
  unfold rkey, rkids in Hg, Hk. simpl in Hg, Hk.
  rewrite (w_entity_old k a f n Hg). apply save_kids_fix.
  intros c Hc. rewrite save_tree_stored.
  - destruct (Hk (tkey c)) as [ad Had]; [apply in_map; exact Hc|].
    destruct (Hs (tkey c, tattrs c, map tkey (tkids c))) as [cn [Hgc _]].
    { rewrite rows_eq. right. apply in_flat_map. exists c. split; [exact Hc|].
      destruct c as [k' a' l']. rewrite rows_eq. left. reflexivity. }
    unfold rkey in Hgc. simpl in Hgc. eapply w_link_old; eassumption.
  - intros r Hr. apply Hs. rewrite rows_eq. right. apply in_flat_map. exists c. split; assumption.
Qed.

(* the save_entity that follows a move only adds the link under the new parent *)
Lemma move_file C p a l1 te l2 f P q :
  Rep (plug C (Node p a (l1 ++ te :: l2))) f P ->
  save_tree q te (w_unlink p (tkey te) f) = w_link q (tkey te) (w_unlink p (tkey te) f).
Proof.
  intros R. destruct (rep_hole_facts _ _ _ _ R) as [Hnd [Hdis [Hrows Hpend]]].
  pose proof (nodup_hole _ _ _ _ _ Hnd) as [Hte [Hpte Hd]].
  apply save_tree_stored. intros r Hr.
  destruct (node_matches_stored (flat f) te) with (r := r) as [n [Hg Hk]]; [|exact Hr|].
  - intros r' Hr'. apply Hrows. apply in_rows_hole. right. right. left. exact Hr'.
  - exists n. split; [|exact Hk]. rewrite w_unlink_frame; [exact Hg|].
    intros E. apply Hpte. rewrite <- E. apply rows_keys. exact Hr.
Qed.

(* closing a file that represents the tree only sweeps the dead groups *)
Lemma close_file_rep_file w P : Rep (wmem w) (wfile w) P -> (forall k, In k (wpend w) -> In k P) ->
  wfile (close_file w) = sweep_file w KG /\ Rep (wmem w) (sweep_file w KG) P.
Proof.
  intros R Hin.
  assert (R' : Rep (wmem w) (sweep_file w KG) P).
  { unfold sweep_file. apply rep_delete with (P := P); [exact R | | intros k Hk; right; exact Hk | intros k Hk; exact Hk].
    intros d Hd. apply filter_In in Hd. apply Hin. apply Hd. }
  split; [|exact R'].
  rewrite close_file_file. destruct (wmem w) as [k a l]. simpl. apply save_kids_stored.
  apply node_matches_stored. exact (rep_rows _ _ _ R').
Qed.

Theorem step_frame_rep_gen : forall w o x P, Rep (wmem w) (wfile w) P -> (forall k, In k (wpend w) -> In k P) ->
  ~ In x (footprint_rep w o) ->
  fget x (flat (wfile (fst (step w o)))) = fget x (flat (wfile w)).
Proof.
  intros w o x P R Hin Hx.
  destruct o as [k u p nm ar | e n | e b | e v | e q | e | e | k | ];
    try (apply step_frame; exact Hx).
  - (* Move *) unfold footprint_rep, parent_list in Hx. unfold step, do_move.
    destruct (find e (wmem w)) as [te|] eqn:Fe; [|reflexivity].
    destruct (find q (wmem w)); [|reflexivity].
    destruct (parent_of e (wmem w)) as [p|] eqn:Pe; [|reflexivity].
    destruct (negb (can_hold (fst q) (fst e)) || mem_key q (keys_of te) || key_eqb p q); [reflexivity|]. simpl.
    destruct (child_ctx _ _ _ _ (rep_nodup _ _ _ R) Fe Pe) as [C [a [l1 [l2 [Ht Hk]]]]].
    rewrite Ht in R. subst e. rewrite (move_file _ _ _ _ _ _ _ _ q R).
    rewrite w_link_frame by (intros ->; apply Hx; right; left; reflexivity).
    apply w_unlink_frame. intros ->. apply Hx. left. reflexivity.
  - (* Reopen *) unfold step. rewrite reopen_file.
    destruct (close_file_rep_file w P R Hin) as [-> _]. unfold sweep_file. apply del_all_frame. exact Hx.
Qed.

Theorem step_frame_rep : forall w o x, Rep (wmem w) (wfile w) (wpend w) -> ~ In x (footprint_rep w o) ->
  fget x (flat (wfile (fst (step w o)))) = fget x (flat (wfile w)).
Proof. intros w o x R. apply step_frame_rep_gen with (P := wpend w); [exact R | intros k Hk; exact Hk]. Qed.

(* ======================================================================================================== *)
(* Part B — the invariant is preserved by every operation                                                    *)
(* ======================================================================================================== *)

Lemma rep_init : Rep (wmem init) (wfile init) (wpend init).
Proof.
  constructor.
  - reflexivity.
  - simpl. constructor; [intros [] | constructor].
  - simpl. constructor; [intros [] | constructor].
  - intros r [<-|[]]. eexists. split; [reflexivity|]. simpl.
    split; [reflexivity|]. split; [constructor|]. split; [intros c; split; intros []|]. intros c ad [].
  - intros k n Hg. simpl in Hg. destruct (key_eqb k rootkey) eqn:E; [|discriminate].
    apply key_eqb_eq in E. left. left. congruence.
  - intros k [].
  - eexists. split; reflexivity.
Qed.

Lemma rep_create t f P x a p sp : Rep t f P -> fget x (flat f) = None -> find p t = Some sp -> ~ In x (keys_of t) ->
  Rep (upd p (add_kid (Node x a [])) t) (w_link p x (w_entity x a f)) (rm_key x P).
Proof.
  intros R Hx Hf Hnx.
  pose proof (find_tkey _ _ _ Hf) as Hk. apply find_ctx in Hf. destruct Hf as [C ->].
  destruct sp as [p' ap lp]. simpl in Hk. subst p'.
  rewrite upd_hole by exact (rep_nodup _ _ _ R). simpl.
  pose proof (rep_add_orphan _ _ _ x a R Hx Hnx) as R1.
  change x with (tkey (Node x a [])) at 2.
  apply rep_attach with (P0 := x :: P); try exact R1.
  - simpl. constructor; [intros [] | constructor].
  - intros r [<-|[]]. eexists. unfold rkey, rattrs, rkids. simpl. split; [apply w_entity_new; exact Hx|]. simpl.
    split; [reflexivity|]. split; [constructor|]. split; [intros c; split; intros []|]. intros c ad [].
  - intros k [<-|[]]. left. reflexivity.
  - intros k [<-|Hk]; [right; left; reflexivity|].
    destruct (key_dec k x) as [->|Hne]; [right; left; reflexivity | left; apply rm_key_In; split; assumption].
  - intros k Hk. apply rm_key_In in Hk. destruct Hk as [Hk Hne]. split; [right; exact Hk|].
    intros [E|[]]. congruence.
Qed.

Lemma rep_do_set w e g wr P :
  (forall x a f n, fget x (flat f) = Some n -> fattrs n = a ->
     exists n', fget x (flat (wr x (g a) f)) = Some n' /\ fattrs n' = g a /\ faddr n' = faddr n /\ flinks n' = flinks n) ->
  (forall x a f y, y <> x -> fget y (flat (wr x a f)) = fget y (flat f)) ->
  (forall x a f, NoDup (map fst (flat f)) -> NoDup (map fst (flat (wr x a f)))) ->
  (forall x a f, rootlink (wr x a f) = rootlink f) ->
  Rep (wmem w) (wfile w) P ->
  Rep (wmem (fst (do_set w e g wr))) (wfile (fst (do_set w e g wr))) P /\ wpend (fst (do_set w e g wr)) = wpend w.
Proof.
  intros H1 H2 H3 H4 R. unfold do_set.
  destruct (find e (wmem w)) as [te|] eqn:F; [|split; [exact R | reflexivity]].
  destruct (key_eqb e rootkey); [split; [exact R | reflexivity]|]. simpl. split; [|reflexivity].
  pose proof (find_tkey _ _ _ F) as Hk. apply find_ctx in F. destruct F as [C HC].
  destruct te as [e' a l]. simpl in Hk. subst e'. rewrite HC in *.
  rewrite upd_hole by exact (rep_nodup _ _ _ R). simpl.
  destruct (rep_hole_facts _ _ _ _ R) as [_ [_ [Hrows _]]].
  destruct (Hrows (e, a, map tkey l)) as [n [Hg [Ha _]]]; [rewrite rows_eq; left; reflexivity|].
  unfold rkey, rattrs in Hg, Ha. simpl in Hg, Ha.
  destruct (H1 e a (wfile w) n Hg Ha) as [n' [Hg' [Ha' [Had Hli]]]].
  eapply rep_set; try eassumption.
  - intros y Hy. apply H2. exact Hy.
  - apply H3. exact (rep_flatnd _ _ _ R).
  - apply H4.
Qed.

Lemma rep_remove_parent t f P e te p : Rep t f P -> find e t = Some te -> parent_of e t = Some p ->
  Rep (prune e t) (w_unlink p e f) (P ++ keys_of te).
Proof.
  intros R Fe Pe. destruct (child_ctx _ _ _ _ (rep_nodup _ _ _ R) Fe Pe) as [C [a [l1 [l2 [-> Hk]]]]].
  subst e. rewrite prune_hole by exact (rep_nodup _ _ _ R). apply rep_detach. exact R.
Qed.

Lemma rep_move t f P e te q sq p : Rep t f P -> find e t = Some te -> find q t = Some sq -> parent_of e t = Some p ->
  ~ In q (keys_of te) ->
  Rep (upd q (add_kid te) (prune e t)) (save_tree q te (w_unlink p e f)) P.
Proof.
  intros R Fe Fq Pe Hq.
  destruct (child_ctx _ _ _ _ (rep_nodup _ _ _ R) Fe Pe) as [C [a [l1 [l2 [-> Hk]]]]]. subst e.
  rewrite (move_file _ _ _ _ _ _ _ _ q R).
  destruct (rep_hole_facts _ _ _ _ R) as [Hnd [Hdis [Hrows Hpend]]].
  pose proof (nodup_hole _ _ _ _ _ Hnd) as [Hte [Hpte Hd]].
  pose proof (rep_detach _ _ _ _ _ _ _ _ R) as R1.
  rewrite prune_hole by exact (rep_nodup _ _ _ R).
  assert (Hq1 : In q (keys_of (plug C (Node p a (l1 ++ l2))))).
  { apply find_Some_in in Fq. apply keys_plug_in in Fq. apply keys_plug_in.
    destruct Fq as [Fq|Fq]; [left | right; exact Fq].
    apply in_keys_hole in Fq. apply in_keys_nohole. tauto. }
  destruct (find_in _ _ Hq1) as [sq1 Fq1].
  pose proof (find_tkey _ _ _ Fq1) as Hk1. apply find_ctx in Fq1. destruct Fq1 as [C2 HC2].
  destruct sq1 as [q' aq lq]. simpl in Hk1. subst q'. rewrite HC2 in *.
  rewrite upd_hole by exact (rep_nodup _ _ _ R1). simpl.
  apply rep_attach with (P0 := P ++ keys_of te).
  - exact R1.
  - exact Hte.
  - intros r Hr. apply node_matches_same with (m := flat f).
    + apply Hrows. apply in_rows_hole. right. right. left. exact Hr.
    + apply w_unlink_frame. intros E. apply Hpte. rewrite <- E. apply rows_keys. exact Hr.
    + intros c Hc. apply w_unlink_frame. intros ->. apply Hpte. eapply rows_kids_keys; eassumption.
  - intros k Hk. apply in_or_app. right. exact Hk.
  - intros k Hk. apply in_app_or in Hk. exact Hk.
  - intros k Hk. split; [apply in_or_app; left; exact Hk|].
    intros Hk2. apply (proj1 (Hpend k Hk)). apply in_keys_hole. right. right. left. exact Hk2.
Qed.

(* ---- removal through the workspace, including the partial (raised) outcome ---- *)
Definition prune_all (gone : list key) (t : tree) : tree := fold_left (fun m k => prune k m) gone t.

Definition rm_ok (te : tree) : Prop := forall C p a l1 l2 f P,
  Rep (plug C (Node p a (l1 ++ te :: l2))) f P ->
  exists f' gone ok, rm_ws p te f = (f', ok) /\ rm_ws_done te = (gone, ok) /\
     Rep (prune_all gone (plug C (Node p a (l1 ++ te :: l2)))) f' P /\
     (ok = true -> gone = [tkey te]).

Lemma rm_list_ok k ak C' P r : Forall rm_ok r -> forall f, Rep (plug C' (Node k ak r)) f P ->
  exists f' gone ok, rm_list k r f = (f', ok) /\ done_list r = (gone, ok) /\
     Rep (prune_all gone (plug C' (Node k ak r))) f' P /\
     (ok = true -> prune_all gone (plug C' (Node k ak r)) = plug C' (Node k ak [])).
Proof.
  intros H. induction H as [|c r' Hc Hr IH]; intros f R.
  - exists f, [], true. split; [reflexivity|]. split; [reflexivity|]. split; [exact R | reflexivity].
  - destruct (Hc C' k ak [] r' f P R) as [f1 [g1 [ok1 [E1 [E2 [R1 G1]]]]]].
    pose proof (prune_hole C' k ak [] c r' (rep_nodup _ _ _ R)) as Hp. simpl in Hp.
    simpl. rewrite E1, E2. destruct ok1.
    + rewrite (G1 eq_refl) in R1. unfold prune_all in R1. simpl in R1. rewrite Hp in R1.
      destruct (IH f1 R1) as [f2 [g2 [ok2 [E3 [E4 [R2 G2]]]]]].
      exists f2, (g1 ++ g2), ok2. rewrite E3, E4. rewrite (G1 eq_refl). unfold prune_all. simpl. rewrite Hp.
      split; [reflexivity|]. split; [reflexivity|]. split; [exact R2 | exact G2].
    + exists f1, g1, false. split; [reflexivity|]. split; [reflexivity|]. split; [exact R1 | discriminate].
Qed.

Lemma rm_ws_ok t : rm_ok t.
Proof.
  induction t as [k ak l IH] using tree_ind'. intros C p a l1 l2 f P R.
  rewrite rm_ws_eq, rm_ws_done_eq. destruct (negb (adel ak)).
  - exists f, [], false. split; [reflexivity|]. split; [reflexivity|]. split; [exact R | discriminate].
  - destruct (rm_list_ok k ak ((p, a, l1, l2) :: C) P l IH f R) as [f1 [g [ok [E1 [E2 [R1 G]]]]]].
    rewrite E1, E2. destruct ok; simpl.
    + exists (w_delete k (w_unlink p k f1)), [k], true.
      split; [reflexivity|]. split; [reflexivity|]. split; [|reflexivity].
      rewrite (G eq_refl) in R1. simpl in R1.
      pose proof (prune_hole C p a l1 (Node k ak l) l2 (rep_nodup _ _ _ R)) as Hp. simpl in Hp.
      unfold prune_all. simpl. rewrite Hp.
      pose proof (rep_detach _ _ _ _ _ _ _ _ R1) as R2. simpl in R2.
      apply (rep_delete _ _ _ [k] P) in R2.
      * exact R2.
      * intros d [<-|[]]. apply in_or_app. right. left. reflexivity.
      * intros k' Hk'. apply in_app_or in Hk'. destruct Hk' as [Hk'|Hk']; [right; exact Hk' | left; exact Hk'].
      * intros k' Hk'. apply in_or_app. left. exact Hk'.
    + exists f1, g, false. split; [reflexivity|]. split; [reflexivity|]. split; [exact R1 | discriminate].
Qed.

Lemma rep_remove_ws t f P e te p : Rep t f P -> find e t = Some te -> parent_of e t = Some p ->
  Rep (prune_all (fst (rm_ws_done te)) t) (fst (rm_ws p te f)) P /\ snd (rm_ws p te f) = snd (rm_ws_done te).
Proof.
  intros R Fe Pe. destruct (child_ctx _ _ _ _ (rep_nodup _ _ _ R) Fe Pe) as [C [a [l1 [l2 [-> Hk]]]]].
  destruct (rm_ws_ok te C p a l1 l2 f P R) as [f' [g [ok [E1 [E2 [R1 _]]]]]].
  rewrite E1, E2. simpl. split; [exact R1 | reflexivity].
Qed.

(* ---- sweep ---- *)
Lemma rep_sweep w k orph : Rep (wmem w) (wfile w) (wpend w ++ orph) ->
  Rep (wmem w) (sweep_file w k) (filter (fun x => negb (kind_eqb (fst x) k)) (wpend w) ++ orph).
Proof.
  intros R. unfold sweep_file. eapply rep_delete; [exact R | | |].
  - intros d Hd. apply filter_In in Hd. apply in_or_app. left. apply Hd.
  - intros x Hx. apply in_app_or in Hx. destruct Hx as [Hx|Hx].
    + destruct (kind_eqb (fst x) k) eqn:E.
      * left. apply filter_In. split; assumption.
      * right. apply in_or_app. left. apply filter_In. split; [exact Hx | rewrite E; reflexivity].
    + right. apply in_or_app. right. exact Hx.
  - intros x Hx. apply in_app_or in Hx. apply in_or_app. destruct Hx as [Hx|Hx]; [left | right; exact Hx].
    apply filter_In in Hx. apply Hx.
Qed.

(* ======================================================================================================== *)
(* The loader rebuilds the tree                                                                              *)
(* ======================================================================================================== *)
Definition load_step (fuel' : nat) (m : flatmap) (acc : list tree * list key) (l : key * N) : list tree * list key :=
  let '(ks, sn) := acc in
  if mem_key (fst l) sn then (ks, sn)
  else match load fuel' m sn (fst l) with Some (t, sn') => (ks ++ [t], sn') | None => (ks, sn) end.

Lemma load_eq fuel' m seen x :
  load (S fuel') m seen x =
  match fget x m with
  | None => None
  | Some n =>
      let '(kids, seen') := fold_left (load_step fuel' m) (sort_links (flinks n)) ([], x :: seen) in
      Some (Node x (fattrs n) kids, seen')
  end.
Proof. reflexivity. Qed.

Lemma ins_link_perm x l : Permutation (ins_link x l) (x :: l).
Proof.
  induction l as [|y r IH]; simpl; [apply Permutation_refl|].
  destruct (key_leb (fst x) (fst y)); [apply Permutation_refl|].
  eapply Permutation_trans; [apply perm_skip; exact IH | apply perm_swap].
Qed.

Lemma sort_links_perm l : Permutation (sort_links l) l.
Proof.
  induction l as [|x r IH]; simpl; [constructor|].
  eapply Permutation_trans; [apply ins_link_perm | apply perm_skip; exact IH].
Qed.

Lemma perm_flat_map {A B} (f : A -> list B) l l' : Permutation l l' -> Permutation (flat_map f l) (flat_map f l').
Proof.
  induction 1 as [| x l l' HP IH | x y l | l l' l'' HP1 IH1 HP2 IH2]; simpl.
  - constructor.
  - apply Permutation_app_head. exact IH.
  - rewrite !app_assoc. apply Permutation_app_tail. apply Permutation_app_comm.
  - eapply Permutation_trans; eassumption.
Qed.

Lemma forall2_in_l {A B} (R : A -> B -> Prop) l1 l2 : Forall2 R l1 l2 -> forall x, In x l1 -> exists y, In y l2 /\ R x y.
Proof.
  induction 1 as [|a b l1 l2 Hab HF IH]; intros x Hx; [destruct Hx|].
  destruct Hx as [<-|Hx]; [exists b; split; [left; reflexivity | exact Hab]|].
  destruct (IH x Hx) as [y [Hy Hr]]. exists y. split; [right; exact Hy | exact Hr].
Qed.

Lemma forall2_in_r {A B} (R : A -> B -> Prop) l1 l2 : Forall2 R l1 l2 -> forall y, In y l2 -> exists x, In x l1 /\ R x y.
Proof.
  induction 1 as [|a b l1 l2 Hab HF IH]; intros y Hy; [destruct Hy|].
  destruct Hy as [<-|Hy]; [exists a; split; [left; reflexivity | exact Hab]|].
  destruct (IH y Hy) as [x [Hx Hr]]. exists x. split; [right; exact Hx | exact Hr].
Qed.

Lemma forall2_length {A B} (R : A -> B -> Prop) l1 l2 : Forall2 R l1 l2 -> length l1 = length l2.
Proof. induction 1; simpl; [reflexivity | f_equal; assumption]. Qed.

Lemma nodup_kid l c : NoDup (flat_map keys_of l) -> In c l -> NoDup (keys_of c).
Proof.
  intros H Hc. apply in_split in Hc. destruct Hc as [l1 [l2 ->]]. rewrite flat_map_app in H. simpl in H.
  apply nodup_app_iff in H. destruct H as [_ [H _]]. apply nodup_app_iff in H. apply H.
Qed.

Definition load_rel (t' c : tree) : Prop := tree_equiv t' c /\ Permutation (keys_of t') (keys_of c).

Lemma forall2_flat_perm new lk : Forall2 load_rel new lk -> Permutation (flat_map keys_of new) (flat_map keys_of lk).
Proof.
  induction 1 as [|a b l1 l2 Hab HF IH]; simpl; [constructor|]. apply Permutation_app; [apply Hab | exact IH].
Qed.

Definition load_kid_ok (fuel' : nat) (m : flatmap) (c : tree) : Prop :=
  forall seen, (forall y, In y (keys_of c) -> ~ In y seen) ->
  exists s' seen', load fuel' m seen (tkey c) = Some (s', seen') /\ load_rel s' c /\
     (forall y, In y seen' <-> In y seen \/ In y (keys_of c)).

Lemma load_fold_ok fuel' m : forall lk L ks sn,
  map fst L = map tkey lk -> Forall (load_kid_ok fuel' m) lk -> NoDup (flat_map keys_of lk) ->
  (forall y, In y (flat_map keys_of lk) -> ~ In y sn) ->
  exists new sn', fold_left (load_step fuel' m) L (ks, sn) = (ks ++ new, sn') /\ Forall2 load_rel new lk /\
     (forall y, In y sn' <-> In y sn \/ In y (flat_map keys_of lk)).
Proof.
  induction lk as [|c lk IH]; intros L ks sn HL HF Hnd Hdis.
  - destruct L; [|discriminate]. exists [], sn. simpl. rewrite app_nil_r.
    split; [reflexivity|]. split; [constructor|]. intros y; tauto.
  - destruct L as [|[c0 ad] L]; [discriminate|]. simpl in HL. inversion HL as [[Hc0 HL']].
    inversion HF as [|? ? Hc HF']; subst.
    simpl in Hnd. apply nodup_app_iff in Hnd. destruct Hnd as [N1 [N2 N3]].
    assert (Hm : mem_key (tkey c) sn = false).
    { apply mem_key_false. apply Hdis. simpl. apply in_or_app. left. apply tkey_in_keys. }
    destruct (Hc sn) as [s' [sn1 [E1 [Rl Hs1]]]].
    { intros y Hy. apply Hdis. simpl. apply in_or_app. left. exact Hy. }
    destruct (IH L (ks ++ [s']) sn1 HL' HF' N2) as [new [sn' [E2 [F2 Hs2]]]].
    { intros y Hy Hin. apply Hs1 in Hin. destruct Hin as [Hin|Hin].
      - apply (Hdis y); [simpl; apply in_or_app; right; exact Hy | exact Hin].
      - exact (N3 y Hin Hy). }
    exists (s' :: new), sn'. split; [|split].
    + change (fold_left (load_step fuel' m) ((tkey c, ad) :: L) (ks, sn))
        with (fold_left (load_step fuel' m) L (load_step fuel' m (ks, sn) (tkey c, ad))).
      assert (E : load_step fuel' m (ks, sn) (tkey c, ad) = (ks ++ [s'], sn1)).
      { unfold load_step. simpl. rewrite Hm, E1. reflexivity. }
      rewrite E, E2, <- app_assoc. reflexivity.
    + constructor; assumption.
    + intros y. rewrite Hs2, Hs1. simpl. rewrite in_app_iff. tauto.
Qed.

Definition load_ok (m : flatmap) (s : tree) : Prop := forall fuel seen,
  height s <= fuel -> (forall r, In r (rows s) -> node_matches m r) -> NoDup (keys_of s) ->
  (forall y, In y (keys_of s) -> ~ In y seen) ->
  exists s' seen', load fuel m seen (tkey s) = Some (s', seen') /\ load_rel s' s /\
     (forall y, In y seen' <-> In y seen \/ In y (keys_of s)).

Lemma load_sub m s : load_ok m s.
Proof.
  induction s as [k a l IH] using tree_ind'. intros fuel seen Hh Hrows Hnd Hdis.
  destruct fuel as [|fuel']; [simpl in Hh; lia|].
  destruct (Hrows (k, a, map tkey l)) as [n [Hg [Ha [Hlnd [Hk Hl]]]]]; [rewrite rows_eq; left; reflexivity|].
  unfold rkey, rattrs, rkids in Hg, Ha, Hlnd, Hk, Hl; simpl in Hg, Ha, Hlnd, Hk, Hl.
  simpl tkey. rewrite load_eq, Hg.
  pose proof (sort_links_perm (flinks n)) as Hsp.
  assert (Hkl : ~ In k (flat_map keys_of l) /\ NoDup (flat_map keys_of l))
    by (rewrite keys_of_eq in Hnd; inversion Hnd; split; assumption).
  destruct Hkl as [Hkl Hndl].
  assert (Hperm : Permutation (map fst (sort_links (flinks n))) (map tkey l)).
  { apply NoDup_Permutation.
    - eapply Permutation_NoDup; [apply Permutation_sym; apply Permutation_map; exact Hsp | exact Hlnd].
    - apply nodup_tkeys. exact Hndl.
    - intros c. rewrite <- Hk. split; apply Permutation_in; [|apply Permutation_sym]; apply Permutation_map; exact Hsp. }
  apply Permutation_map_inv in Hperm. destruct Hperm as [lk [HL Hlk]].
  pose proof (perm_flat_map keys_of _ _ Hlk) as Hfk.
  destruct (load_fold_ok fuel' m lk (sort_links (flinks n)) [] (k :: seen) HL) as [new [sn' [E [F Hs]]]].
  - apply Forall_forall. intros c Hc.
    assert (Hcl : In c l) by (eapply Permutation_in; [apply Permutation_sym; exact Hlk | exact Hc]).
    rewrite Forall_forall in IH. intros seen0 Hd0. apply (IH c Hcl fuel' seen0).
    + pose proof (height_kid k a l c Hcl). lia.
    + intros r Hr. apply Hrows. rewrite rows_eq. right. apply in_flat_map. exists c. split; assumption.
    + eapply nodup_kid; eassumption.
    + exact Hd0.
  - eapply Permutation_NoDup; [exact Hfk | exact Hndl].
  - intros y Hy [<-|Hin].
    + apply Hkl. eapply Permutation_in; [apply Permutation_sym; exact Hfk | exact Hy].
    + apply (Hdis y); [right; eapply Permutation_in; [apply Permutation_sym; exact Hfk | exact Hy] | exact Hin].
  - rewrite E. simpl. exists (Node k (fattrs n) new), sn'. split; [reflexivity|]. split; [split|].
    + rewrite Ha. constructor. constructor.
      * rewrite (forall2_length _ _ _ F). symmetry. apply Permutation_length. exact Hlk.
      * intros c1 H1. destruct (forall2_in_l _ _ _ F c1 H1) as [c2 [H2 [He _]]]. exists c2.
        split; [eapply Permutation_in; [apply Permutation_sym; exact Hlk | exact H2] | exact He].
      * intros c2 H2. assert (H2' : In c2 lk) by (eapply Permutation_in; eassumption).
        destruct (forall2_in_r _ _ _ F c2 H2') as [c1 [H1 [He _]]]. exists c1. split; assumption.
    + rewrite !keys_of_eq. apply perm_skip.
      eapply Permutation_trans; [apply forall2_flat_perm; exact F | apply Permutation_sym; exact Hfk].
    + intros y. rewrite Hs. simpl.
      assert (Hyy : In y (flat_map keys_of lk) <-> In y (flat_map keys_of l)).
      { split; apply Permutation_in; [apply Permutation_sym|]; exact Hfk. }
      rewrite Hyy. tauto.
Qed.

Lemma rep_keys_in_flat t f P : Rep t f P -> incl (keys_of t) (map fst (flat f)).
Proof.
  intros R x Hx. rewrite keys_of_rows in Hx. apply in_map_iff in Hx. destruct Hx as [r [<- Hr]].
  destruct (rep_rows _ _ _ R r Hr) as [n [Hg _]]. eapply fget_Some_In. exact Hg.
Qed.

Theorem load_rep_perm : forall t f pend, Rep t f pend ->
  exists t' sn, load (S (length (flat f))) (flat f) [] rootkey = Some (t', sn)
     /\ tree_equiv t' t /\ Permutation (keys_of t') (keys_of t).
Proof.
  intros t f P R. rewrite <- (rep_root _ _ _ R).
  destruct (load_sub (flat f) t (S (length (flat f))) []) as [t' [sn [E [[He Hp] _]]]].
  - pose proof (height_le_keys t). pose proof (NoDup_incl_length (rep_nodup _ _ _ R) (rep_keys_in_flat _ _ _ R)) as Hl.
    rewrite map_length in Hl. lia.
  - exact (rep_rows _ _ _ R).
  - exact (rep_nodup _ _ _ R).
  - intros y _ [].
  - exists t', sn. split; [exact E|]. split; assumption.
Qed.

Theorem load_rep : forall t f pend, Rep t f pend ->
  exists t' sn, load (S (length (flat f))) (flat f) [] rootkey = Some (t', sn)
     /\ tree_equiv t' t /\ NoDup (keys_of t').
Proof.
  intros t f P R. destruct (load_rep_perm t f P R) as [t' [sn [E [He Hp]]]].
  exists t', sn. split; [exact E|]. split; [exact He|].
  eapply Permutation_NoDup; [apply Permutation_sym; exact Hp | exact (rep_nodup _ _ _ R)].
Qed.

(* ---- a tree equal up to the order of children is represented by the same file ---- *)
Lemma tree_equiv_inv t' t : tree_equiv t' t ->
  tkey t' = tkey t /\ tattrs t' = tattrs t /\ length (tkids t') = length (tkids t) /\
  (forall c1, In c1 (tkids t') -> exists c2, In c2 (tkids t) /\ tree_equiv c1 c2) /\
  (forall c2, In c2 (tkids t) -> exists c1, In c1 (tkids t') /\ tree_equiv c1 c2).
Proof.
  intros H. destruct H as [k a l1 l2 Hk]. destruct Hk as [l1 l2 Hlen H12 H21]. simpl.
  split; [reflexivity|]. split; [reflexivity|]. split; [exact Hlen|]. split; assumption.
Qed.

Lemma rows_equiv t' : forall t, tree_equiv t' t -> forall r', In r' (rows t') ->
  exists r, In r (rows t) /\ rkey r = rkey r' /\ rattrs r = rattrs r' /\ (forall c, In c (rkids r') <-> In c (rkids r)).
Proof.
  induction t' as [k a l1 IH] using tree_ind'. intros t He r' Hr'.
  destruct (tree_equiv_inv _ _ He) as [Ek [Ea [_ [H12 H21]]]]. destruct t as [k2 a2 l2]. simpl in *. subst k2 a2.
  destruct Hr' as [<-|Hr'].
  - exists (k, a, map tkey l2). split; [left; reflexivity|]. split; [reflexivity|]. split; [reflexivity|].
    unfold rkids. simpl. intros c. split; intros Hc; apply in_map_iff in Hc; destruct Hc as [c1 [<- Hc1]].
    + destruct (H12 c1 Hc1) as [c2 [Hc2 He2]]. rewrite (proj1 (tree_equiv_inv _ _ He2)). apply in_map. exact Hc2.
    + destruct (H21 c1 Hc1) as [c0 [Hc0 He0]]. rewrite <- (proj1 (tree_equiv_inv _ _ He0)). apply in_map. exact Hc0.
  - apply in_flat_map in Hr'. destruct Hr' as [c1 [Hc1 Hr1]]. destruct (H12 c1 Hc1) as [c2 [Hc2 He2]].
    rewrite Forall_forall in IH. destruct (IH c1 Hc1 c2 He2 r' Hr1) as [r [Hr Hrest]]. exists r. split; [|exact Hrest].
    right. apply in_flat_map. exists c2. split; assumption.
Qed.

Lemma node_matches_ext m r r' : node_matches m r -> rkey r = rkey r' -> rattrs r = rattrs r' ->
  (forall c, In c (rkids r') <-> In c (rkids r)) -> node_matches m r'.
Proof.
  intros [n [Hg [Ha [Hnd [Hk Hl]]]]] E1 E2 E3. exists n. rewrite <- E1, <- E2.
  split; [exact Hg|]. split; [exact Ha|]. split; [exact Hnd|]. split; [|exact Hl].
  intros c. rewrite Hk. symmetry. apply E3.
Qed.

Lemma rep_equiv t t' f P : Rep t f P -> tree_equiv t' t -> Permutation (keys_of t') (keys_of t) -> Rep t' f P.
Proof.
  intros [Rroot Rnd Rfnd Rrows Ronly Rpend Rrl] He Hp. constructor.
  - rewrite (proj1 (tree_equiv_inv _ _ He)). exact Rroot.
  - eapply Permutation_NoDup; [apply Permutation_sym; exact Hp | exact Rnd].
  - exact Rfnd.
  - intros r' Hr'. destruct (rows_equiv _ _ He r' Hr') as [r [Hr [E1 [E2 E3]]]].
    eapply node_matches_ext; [apply Rrows; exact Hr | | |]; assumption.
  - intros k n Hg. destruct (Ronly k n Hg) as [H|H]; [|right; exact H].
    left. eapply Permutation_in; [apply Permutation_sym; exact Hp | exact H].
  - intros k Hk Hin. apply (Rpend k Hk). eapply Permutation_in; eassumption.
  - exact Rrl.
Qed.

Definition nonKG (x : key) : bool := negb (kind_eqb (fst x) KG).

Lemma rep_reopen w orph : Rep (wmem w) (wfile w) (wpend w ++ orph) ->
  snd (do_reopen w) = Done /\ tree_equiv (wmem (fst (do_reopen w))) (wmem w) /\
  Rep (wmem (fst (do_reopen w))) (wfile (fst (do_reopen w)))
      (wpend (fst (do_reopen w)) ++ (filter nonKG (wpend w) ++ orph)).
Proof.
  intros R.
  destruct (close_file_rep_file w _ R) as [Hf _]. { intros k Hk; apply in_or_app; left; exact Hk. }
  pose proof (rep_sweep w KG orph R) as R1.
  destruct (load_rep_perm _ _ _ R1) as [t' [sn [E [He Hp]]]].
  destruct (rep_rootln _ _ _ R1) as [n [Hg Hl]].
  unfold do_reopen. cbv zeta. rewrite Hf, Hl, E. simpl.
  split; [reflexivity|]. split; [exact He|]. eapply rep_equiv; eassumption.
Qed.

(* ---- one step ---- *)
Definition next_orph (w : ws) (o : op) (orph : list key) : list key :=
  match o with
  | Create k u _ _ _ => rm_key (k, u) orph
  | Reopen => filter nonKG (wpend w) ++ orph
  | _ => orph
  end.

Lemma w_scalars_set g : (forall a, aarr (g a) = aarr a) ->
  forall x a f n, fget x (flat f) = Some n -> fattrs n = a ->
  exists n', fget x (flat (w_scalars x (g a) f)) = Some n' /\ fattrs n' = g a /\ faddr n' = faddr n /\ flinks n' = flinks n.
Proof.
  intros Hg x a f n Hn Ha. unfold w_scalars. rewrite Hn. simpl. eexists. split; [apply fget_fset_same|]. simpl.
  split; [|split; reflexivity]. rewrite Ha, <- (Hg a). destruct (g a); reflexivity.
Qed.

Lemma w_array_set g : (forall a, aname (g a) = aname a /\ adel (g a) = adel a) ->
  forall x a f n, fget x (flat f) = Some n -> fattrs n = a ->
  exists n', fget x (flat (w_array x (g a) f)) = Some n' /\ fattrs n' = g a /\ faddr n' = faddr n /\ flinks n' = flinks n.
Proof.
  intros Hg x a f n Hn Ha. unfold w_array. rewrite Hn. simpl. eexists. split; [apply fget_fset_same|]. simpl.
  split; [|split; reflexivity]. rewrite Ha. destruct (Hg a) as [<- <-]. destruct (g a); reflexivity.
Qed.

Theorem rep_step_gen : forall w o orph, Rep (wmem w) (wfile w) (wpend w ++ orph) -> fresh_op w o = true ->
  Rep (wmem (fst (step w o))) (wfile (fst (step w o))) (wpend (fst (step w o)) ++ next_orph w o orph).
Proof.
  intros w o orph R Hf. destruct o as [k u p nm ar | e n | e b | e v | e q | e | e | k | ]; unfold step, next_orph.
  - (* Create *) simpl in Hf. destruct (fget (k, u) (flat (wfile w))) eqn:Hx; [discriminate|].
    assert (Rref : Rep (wmem w) (wfile w) (wpend w ++ rm_key (k, u) orph)).
    { eapply rep_pend_change; [exact R | |].
      - intros x Hx'. apply in_app_or in Hx'. apply in_or_app.
        destruct Hx' as [H|H]; [left; exact H | right; apply rm_key_In in H; apply H].
      - intros x n Hg Hin. apply in_app_or in Hin. apply in_or_app.
        destruct Hin as [H|H]; [left; exact H | right; apply rm_key_In; split; [exact H | intros ->; congruence]]. }
    unfold do_create. destruct (find p (wmem w)) as [sp|] eqn:Fp; [|exact Rref].
    destruct (negb (can_hold (fst p) k) || mem_key (k, u) (keys_of (wmem w))) eqn:Ec; [exact Rref|].
    simpl. apply orb_false_iff in Ec. destruct Ec as [_ Ec]. apply mem_key_false in Ec.
    rewrite <- rm_key_app. eapply rep_create; eassumption.
  - (* SetName *)
    set (g := fun a => {| aname := n; adel := adel a; aarr := aarr a |}).
    destruct (rep_do_set w e g w_scalars _
                (w_scalars_set g (fun a => eq_refl)) w_scalars_frame w_scalars_nodup w_scalars_rootlink R) as [R' Hp].
    rewrite Hp. exact R'.
  - (* SetDel *)
    set (g := fun a => {| aname := aname a; adel := b; aarr := aarr a |}).
    destruct (rep_do_set w e g w_scalars _
                (w_scalars_set g (fun a => eq_refl)) w_scalars_frame w_scalars_nodup w_scalars_rootlink R) as [R' Hp].
    rewrite Hp. exact R'.
  - (* SetArr *)
    set (g := fun a => {| aname := aname a; adel := adel a; aarr := v |}).
    destruct (rep_do_set w e g w_array _
                (w_array_set g (fun a => conj eq_refl eq_refl)) w_array_frame w_array_nodup w_array_rootlink R) as [R' Hp].
    rewrite Hp. exact R'.
  - (* Move *) unfold do_move.
    destruct (find e (wmem w)) as [te|] eqn:Fe; [|exact R].
    destruct (find q (wmem w)) as [sq|] eqn:Fq; [|exact R].
    destruct (parent_of e (wmem w)) as [p|] eqn:Pe; [|exact R].
    destruct (negb (can_hold (fst q) (fst e)) || mem_key q (keys_of te) || key_eqb p q) eqn:Ec; [exact R|]. simpl.
    apply orb_false_iff in Ec. destruct Ec as [Ec _]. apply orb_false_iff in Ec. destruct Ec as [_ Ec].
    apply mem_key_false in Ec. eapply rep_move; eassumption.
  - (* RemoveWs *) destruct (key_eqb e rootkey); [exact R|]. unfold do_remove_ws.
    destruct (find e (wmem w)) as [te|] eqn:Fe; [|exact R].
    destruct (parent_of e (wmem w)) as [p|] eqn:Pe; [|exact R].
    destruct (rep_remove_ws _ _ _ _ _ _ R Fe Pe) as [R' _].
    destruct (rm_ws p te (wfile w)) as [f' ok]. destruct (rm_ws_done te) as [gone b]. simpl in *. exact R'.
  - (* RemoveParent *) destruct (key_eqb e rootkey); [exact R|]. unfold do_remove_parent.
    destruct (find e (wmem w)) as [te|] eqn:Fe; [|exact R].
    destruct (parent_of e (wmem w)) as [p|] eqn:Pe; [|exact R]. simpl.
    eapply rep_pend_equiv; [eapply rep_remove_parent; eassumption|].
    intros x. rewrite !in_app_iff. tauto.
  - (* Sweep *) simpl. exact (rep_sweep w k orph R).
  - (* Reopen *) apply rep_reopen. exact R.
Qed.

Lemma next_orph_nonKG w o orph : (forall k, In k orph -> nonKG k = true) ->
  forall k, In k (next_orph w o orph) -> nonKG k = true.
Proof.
  intros H k Hk. destruct o; simpl in Hk; try (apply H; exact Hk).
  - apply rm_key_In in Hk. apply H. apply Hk.
  - apply in_app_or in Hk. destruct Hk as [Hk|Hk]; [apply filter_In in Hk; apply Hk | apply H; exact Hk].
Qed.

(* ---- histories ---- *)
Fixpoint orph_run (ops : list op) (w : ws) (orph : list key) : list key :=
  match ops with
  | [] => orph
  | o :: r => orph_run r (fst (step w o)) (next_orph w o orph)
  end.

Lemma run_cons o r w : run (o :: r) w = run r (fst (step w o)).
Proof. reflexivity. Qed.

Lemma rep_run_from ops : forall w orph, Rep (wmem w) (wfile w) (wpend w ++ orph) -> fresh_run ops w = true ->
  Rep (wmem (run ops w)) (wfile (run ops w)) (wpend (run ops w) ++ orph_run ops w orph).
Proof.
  induction ops as [|o r IH]; intros w orph R Hf; [exact R|].
  simpl in Hf. apply andb_true_iff in Hf. destruct Hf as [H1 H2]. rewrite run_cons. simpl orph_run.
  apply IH; [apply rep_step_gen; assumption | exact H2].
Qed.

Lemma orph_run_nonKG ops : forall w orph, (forall k, In k orph -> nonKG k = true) ->
  forall k, In k (orph_run ops w orph) -> nonKG k = true.
Proof.
  induction ops as [|o r IH]; intros w orph H; [exact H|]. simpl. apply IH. apply next_orph_nonKG. exact H.
Qed.

Lemma next_orph_clean w o : clean_op w o = true -> next_orph w o [] = [].
Proof.
  destruct o; simpl; intros H; try reflexivity. rewrite app_nil_r.
  induction (wpend w) as [|x l IH]; simpl in *; [reflexivity|].
  apply andb_true_iff in H. destruct H as [H1 H2]. unfold nonKG at 1. rewrite H1. simpl. apply IH. exact H2.
Qed.

Lemma orph_run_clean ops : forall w, clean_run ops w = true -> orph_run ops w [] = [].
Proof.
  induction ops as [|o r IH]; intros w H; [reflexivity|]. simpl in *.
  apply andb_true_iff in H. destruct H as [H1 H2]. rewrite next_orph_clean by exact H1. apply IH. exact H2.
Qed.

Lemma rep_init_app : Rep (wmem init) (wfile init) (wpend init ++ []).
Proof. exact rep_init. Qed.

(* valid up to the orphans: pending dead identifiers plus object/data orphans forgotten by a re-open *)
Theorem rep_run_orphans : forall ops, fresh_run ops init = true ->
  let w := run ops init in
  exists orph, (forall k, In k orph -> fst k <> KG) /\ Rep (wmem w) (wfile w) (wpend w ++ orph).
Proof.
  intros ops Hf w. exists (orph_run ops init []). split.
  - intros k Hk E. pose proof (orph_run_nonKG ops init [] (fun k H => match H with end) k Hk) as Hn.
    unfold nonKG in Hn. rewrite E in Hn. discriminate.
  - apply rep_run_from; [exact rep_init_app | exact Hf].
Qed.

Theorem rep_step : forall w o, Rep (wmem w) (wfile w) (wpend w) -> fresh_op w o = true -> clean_op w o = true ->
  Rep (wmem (fst (step w o))) (wfile (fst (step w o))) (wpend (fst (step w o))).
Proof.
  intros w o R Hf Hc. rewrite <- (app_nil_r (wpend w)) in R.
  pose proof (rep_step_gen w o [] R Hf) as R'. rewrite next_orph_clean in R' by exact Hc.
  rewrite app_nil_r in R'. exact R'.
Qed.

Theorem rep_run : forall ops, fresh_run ops init = true -> clean_run ops init = true ->
  let w := run ops init in Rep (wmem w) (wfile w) (wpend w).
Proof.
  intros ops Hf Hc w. pose proof (rep_run_from ops init [] rep_init_app Hf) as R.
  rewrite orph_run_clean in R by exact Hc. rewrite app_nil_r in R. exact R.
Qed.

(* C01 *)
Theorem reopen_equiv : forall ops, fresh_run ops init = true ->
  let w := run ops init in
  snd (step w Reopen) = Done /\ tree_equiv (wmem (fst (step w Reopen))) (wmem w).
Proof.
  intros ops Hf w. pose proof (rep_run_from ops init [] rep_init_app Hf) as R.
  destruct (rep_reopen _ _ R) as [H1 [H2 _]]. split; assumption.
Qed.

(* C02 *)
Lemma close_valid_gen w orph : Rep (wmem w) (wfile w) (wpend w ++ orph) ->
  (forall k, In k orph -> nonKG k = true) ->
  (forall k n, fget k (flat (wfile w)) = Some n -> fst k <> KG -> In k (keys_of (wmem w))) ->
  Valid (wfile (close_file w)).
Proof.
  intros R Hn H.
  destruct (close_file_rep_file w _ R) as [Hf _]. { intros k Hk; apply in_or_app; left; exact Hk. }
  pose proof (rep_sweep w KG orph R) as R1. rewrite Hf. exists (wmem w).
  eapply rep_pend_change; [exact R1 | intros k [] |].
  intros k n Hg Hin. exfalso.
  assert (Hk : nonKG k = true).
  { apply in_app_or in Hin. destruct Hin as [Hin|Hin]; [apply filter_In in Hin; apply Hin | apply Hn; exact Hin]. }
  apply (rep_pend _ _ _ R1 k Hin). apply (H k n).
  - unfold sweep_file in Hg. apply del_all_Some in Hg; [apply Hg | exact (rep_flatnd _ _ _ R)].
  - intros E. unfold nonKG in Hk. rewrite E in Hk. discriminate.
Qed.

Theorem close_valid_nolinger : forall ops, fresh_run ops init = true ->
  let w := run ops init in
  (forall k n, fget k (flat (wfile w)) = Some n -> fst k <> KG -> In k (keys_of (wmem w))) ->
  Valid (wfile (close_file w)).
Proof.
  intros ops Hf w H. pose proof (rep_run_from ops init [] rep_init_app Hf) as R.
  eapply close_valid_gen; [exact R | | exact H].
  apply orph_run_nonKG. intros k [].
Qed.

Theorem close_valid : forall ops, fresh_run ops init = true -> clean_run ops init = true ->
  let w := run ops init in
  (forall k, In k (wpend w) -> fst k = KG) ->
  Valid (wfile (close_file w)).
Proof.
  intros ops Hf Hc w Hp. pose proof (rep_run ops Hf Hc) as R. cbv zeta in R. fold w in R.
  assert (R0 : Rep (wmem w) (wfile w) (wpend w ++ [])) by (rewrite app_nil_r; exact R). clear R. rename R0 into R.
  destruct (close_file_rep_file w _ R) as [Hfile _]. { intros k Hk; apply in_or_app; left; exact Hk. }
  pose proof (rep_sweep w KG [] R) as R1. rewrite Hfile. exists (wmem w).
  eapply rep_pend_change; [exact R1 | intros k [] |].
  intros k n _ Hin. rewrite app_nil_r in Hin. apply filter_In in Hin. destruct Hin as [Hin Hk].
  rewrite (Hp k Hin) in Hk. discriminate.
Qed.

(* ======================================================================================================== *)
(* Full-strength statements that the faithful model refutes, with concrete witnesses                         *)
(* ======================================================================================================== *)

(* C01 without the freshness side condition *)
Definition C01_full : Prop :=
  forall ops, let w := run ops init in tree_equiv (wmem (fst (step w Reopen))) (wmem w).

(* group G1, object O2 under it with data D3, O2 removed through its parent (flat node stays), O2 created again with
   other attributes: write_entity keeps the stale node, re-opening resurrects the old name / array / child *)
Definition ops_stale : list op :=
  [Create KG 1 rootkey 10 0; Create KO 2 (KG, 1%N) 5 6; Create KD 3 (KO, 2%N) 7 8;
   RemoveParent (KO, 2%N); Create KO 2 (KG, 1%N) 50 60].

Theorem C01_full_refuted : ~ C01_full.
Proof.
  intros H. specialize (H ops_stale). cbv zeta in H.
  destruct (rows_equiv _ _ H ((KO, 2%N), {| aname := 5; adel := true; aarr := 6 |}, [(KD, 3%N)]))
    as [r [Hr [E1 [E2 _]]]].
  - vm_compute. right. right. left. reflexivity.
  - vm_compute in Hr. destruct Hr as [<-|[<-|[<-|[]]]]; vm_compute in E1, E2;
      first [discriminate E1 | discriminate E2].
Qed.

Lemma ops_stale_not_fresh : fresh_run ops_stale init = false.
Proof. vm_compute. reflexivity. Qed.

(* C02 without side conditions *)
Definition C02_full : Prop := forall ops, Valid (wfile (close_file (run ops init))).

Lemma nonroot_has_parent t x : In x (keys_of t) -> x <> tkey t -> exists r, In r (rows t) /\ In x (rkids r).
Proof.
  induction t as [k a l IH] using tree_ind'. rewrite keys_of_eq. simpl. intros [E|Hx] Hne; [congruence|].
  apply in_flat_map in Hx. destruct Hx as [c [Hc Hx]].
  destruct (key_dec x (tkey c)) as [->|Hn].
  - exists (k, a, map tkey l). split; [left; reflexivity | apply in_map; exact Hc].
  - rewrite Forall_forall in IH. destruct (IH c Hc Hx Hn) as [r [Hr Hk]]. exists r. split; [|exact Hk].
    right. apply in_flat_map. exists c. split; assumption.
Qed.

(* a stored node that no stored node links to, other than Root, makes the file invalid *)
Lemma not_valid_orphan f x : (exists n, fget x (flat f) = Some n) -> x <> rootkey ->
  (forall k n, In (k, n) (flat f) -> ~ In x (map fst (flinks n))) -> ~ Valid f.
Proof.
  intros [n E] Hne Hno [t R].
  destruct (rep_only _ _ _ R _ _ E) as [Hx|[]].
  destruct (nonroot_has_parent t x Hx) as [r [Hr Hk]]; [rewrite (rep_root _ _ _ R); exact Hne|].
  destruct (rep_rows _ _ _ R r Hr) as [n' [Hg [_ [_ [Hkk _]]]]]. apply Hkk in Hk.
  apply fget_pair_In in Hg. exact (Hno _ _ Hg Hk).
Qed.

(* an object removed through its parent and never listed: close sweeps groups only *)
Definition ops_orphan : list op := [Create KO 1 rootkey 1 1; RemoveParent (KO, 1%N)].

Theorem C02_full_refuted : ~ C02_full.
Proof.
  intros H. specialize (H ops_orphan). revert H. apply not_valid_orphan with (x := (KO, 1%N)).
  - vm_compute. eexists. reflexivity.
  - discriminate.
  - intros k n Hin. vm_compute in Hin. destruct Hin as [Hin|[Hin|[]]]; inversion Hin; subst; simpl; tauto.
Qed.

(* the invariant with exactly the pending identifiers, and the close theorem under "only groups are pending", as first
   stated: refuted by a re-open that forgets a pending object *)
Definition rep_run_full : Prop :=
  forall ops, fresh_run ops init = true -> let w := run ops init in Rep (wmem w) (wfile w) (wpend w).
Definition close_valid_full : Prop :=
  forall ops, fresh_run ops init = true -> let w := run ops init in
  (forall k, In k (wpend w) -> fst k = KG) -> Valid (wfile (close_file w)).

Definition ops_forgot : list op := [Create KO 1 rootkey 1 1; RemoveParent (KO, 1%N); Reopen].

Lemma ops_forgot_fresh : fresh_run ops_forgot init = true.
Proof. vm_compute. reflexivity. Qed.

Theorem rep_run_full_refuted : ~ rep_run_full.
Proof.
  intros H. pose proof (H ops_forgot ops_forgot_fresh) as R. cbv zeta in R.
  assert (E : exists n, fget (KO, 1%N) (flat (wfile (run ops_forgot init))) = Some n) by (vm_compute; eexists; reflexivity).
  destruct E as [n E]. destruct (rep_only _ _ _ R _ _ E) as [Hx|Hx]; vm_compute in Hx.
  - destruct Hx as [Hx|[]]. discriminate Hx.
  - exact Hx.
Qed.

Theorem close_valid_full_refuted : ~ close_valid_full.
Proof.
  intros H. pose proof (H ops_forgot ops_forgot_fresh) as V. cbv zeta in V.
  assert (Hp : forall k, In k (wpend (run ops_forgot init)) -> fst k = KG) by (intros k Hk; vm_compute in Hk; destruct Hk).
  specialize (V Hp). revert V. apply not_valid_orphan with (x := (KO, 1%N)).
  - vm_compute. eexists. reflexivity.
  - discriminate.
  - intros k n Hin. vm_compute in Hin. destruct Hin as [Hin|[Hin|[]]]; inversion Hin; subst; simpl; tauto.
Qed.

(* ======================================================================================================== *)
(* Non-vacuity                                                                                               *)
(* ======================================================================================================== *)
(* two groups, an object with data, rename, move, a group removed through its parent and swept, a non-deletable object,
   a removal through the workspace that raises half-way, a re-open, a complete removal *)
Definition ops_demo : list op :=
  [Create KG 1 rootkey 10 0; Create KG 2 rootkey 11 0; Create KO 3 (KG, 1%N) 12 1; Create KD 4 (KO, 3%N) 13 2;
   SetName (KO, 3%N) 99; Move (KO, 3%N) (KG, 2%N); Create KG 5 (KG, 1%N) 14 0; RemoveParent (KG, 5%N); Sweep KG;
   Create KO 6 (KG, 2%N) 15 3; SetDel (KO, 6%N) false; RemoveWs (KG, 2%N); Reopen; RemoveWs (KG, 1%N)].

Lemma ops_demo_ok :
  fresh_run ops_demo init = true /\ clean_run ops_demo init = true /\
  map (fun n => snd (step (run (firstn n ops_demo) init) (nth n ops_demo Reopen))) (seq 0 14)
  = [Done; Done; Done; Done; Done; Done; Done; Done; Done; Done; Done; Raised; Done; Done].
Proof. vm_compute. repeat split. Qed.

Lemma ops_demo_rep : let w := run ops_demo init in Rep (wmem w) (wfile w) (wpend w).
Proof. apply rep_run; apply ops_demo_ok. Qed.

(* a pending dead group: the hypothesis of close_valid is met non-trivially *)
Definition ops_dead_group : list op := [Create KG 1 rootkey 1 0; Create KO 2 rootkey 2 1; RemoveParent (KG, 1%N)].

Lemma ops_dead_group_ok :
  fresh_run ops_dead_group init = true /\ clean_run ops_dead_group init = true /\
  wpend (run ops_dead_group init) = [(KG, 1%N)].
Proof. vm_compute. repeat split. Qed.

(* ---- the one-step invariant as first stated (without [clean_op]) is refuted as well ---- *)
Definition rep_step_full : Prop :=
  forall w o, Rep (wmem w) (wfile w) (wpend w) -> fresh_op w o = true ->
  Rep (wmem (fst (step w o))) (wfile (fst (step w o))) (wpend (fst (step w o))).

Theorem rep_step_full_refuted : ~ rep_step_full.
Proof.
  intros H. apply rep_run_full_refuted. intros ops.
  assert (G : forall w, Rep (wmem w) (wfile w) (wpend w) -> fresh_run ops w = true ->
              Rep (wmem (run ops w)) (wfile (run ops w)) (wpend (run ops w))).
  { induction ops as [|o r IH]; intros w R Hf; [exact R|].
    simpl in Hf. apply andb_true_iff in Hf. destruct Hf as [H1 H2]. rewrite run_cons.
    apply IH; [apply H; assumption | exact H2]. }
  intros Hf. apply G; [exact rep_init | exact Hf].
Qed.

(* ---- C09 at every state reached by a history without stale identifier re-use ---- *)
Theorem step_frame_run : forall ops o x, fresh_run ops init = true ->
  let w := run ops init in
  ~ In x (footprint_rep w o) ->
  fget x (flat (wfile (fst (step w o)))) = fget x (flat (wfile w)).
Proof.
  intros ops o x Hf w Hx. pose proof (rep_run_from ops init [] rep_init_app Hf) as R.
  eapply step_frame_rep_gen; [exact R | | exact Hx].
  intros k Hk. apply in_or_app. left. exact Hk.
Qed.
