(* Proofs about Model/Registry.v, part 4 (property C06): children lists only name existing instances (all histories);
   a refused creation leaves the state unchanged when the parent assignment is rolled back. *)
From GV Require Import Prelude.Base Model.Registry Proofs.RegistryProofs Proofs.RegistryTheorems Proofs.RegistryTypes.

Definition chb (w : st) : Prop := forall p x, In x (ech (E w p)) \/ In x (epgs (E w p)) -> x < n w.

Lemma chb_E w w' : n w <= n w' -> E w' = E w -> chb w -> chb w'.
Proof. intros Hn HE C p x Hx. rewrite HE in Hx. pose proof (C p x Hx). lia. Qed.

Lemma chb_upd w x f :
  (forall r y, In y (ech (f r)) \/ In y (epgs (f r)) -> (In y (ech r) \/ In y (epgs r)) \/ y < n w) ->
  chb w -> chb (upd w x f).
Proof.
  intros Hf C p y Hy. simpl in *. destruct (Nat.eqb p x); [|apply (C p y Hy)].
  destruct (Hf _ y Hy) as [H|H]; [apply (C p y H) | exact H].
Qed.

Lemma chb_same_lists w x f : (forall r, ech (f r) = ech r /\ epgs (f r) = epgs r) -> chb w -> chb (upd w x f).
Proof. intros Hf. apply chb_upd. intros r y. destruct (Hf r) as [A B]. rewrite A, B. tauto. Qed.

Lemma In_remove_one x y l : In y (remove_one x l) -> In y l.
Proof. unfold remove_one. intros H. apply filter_In in H. tauto. Qed.

Lemma chb_alloc w r : ech r = [] -> epgs r = [] -> chb w -> chb (fst (alloc w r)).
Proof.
  intros H1 H2 C p x Hx. simpl in *. destruct (Nat.eqb p (n w)); [rewrite H1, H2 in Hx; destruct Hx as [[]|[]]|].
  pose proof (C p x Hx). lia.
Qed.

Lemma chb_add_child w p x : x < n w -> chb w -> chb (add_child w p x).
Proof.
  intros Hx C. unfold add_child.
  assert (G : forall g, (forall r y, In y g -> In y (epgs r) \/ y = x) -> True) by (intros; exact I).
  destruct (ekind (E w p)).
  - apply chb_upd; [|exact C]. intros r y. simpl. intros [H|H]; [|left; right; exact H].
    apply in_app_or in H as [H|[H|[]]]; [left; left; exact H | right; subst; exact Hx].
  - destruct (memb _ _); [exact C|]. apply chb_upd; [|exact C]. intros r y. simpl. intros [H|H].
    + apply in_app_or in H as [H|[H|[]]]; [left; left; exact H | right; subst; exact Hx].
    + destruct (kind_eqb (ekind (E w x)) KPG); [|left; right; exact H].
      destruct (memb _ _); [left; right; exact H|]. apply in_app_or in H as [H|[H|[]]]; [left; right; exact H | right; subst; exact Hx].
  - apply chb_upd; [|exact C]. intros r y. simpl. intros [H|H]; [|left; right; exact H].
    apply in_app_or in H as [H|[H|[]]]; [left; left; exact H | right; subst; exact Hx].
  - apply chb_upd; [|exact C]. intros r y. simpl. intros [H|H]; [|left; right; exact H].
    apply in_app_or in H as [H|[H|[]]]; [left; left; exact H | right; subst; exact Hx].
  - apply chb_upd; [|exact C]. intros r y. simpl. intros [H|H]; [|left; right; exact H].
    apply in_app_or in H as [H|[H|[]]]; [left; left; exact H | right; subst; exact Hx].
Qed.

Lemma En_find_in w ws k u : E (fst (find_in w ws k u)) = E w /\ n (fst (find_in w ws k u)) = n w.
Proof. unfold find_in. destruct (get_clean_ref _ _ _). split; reflexivity. Qed.

Lemma En_get_entity w ws u : E (fst (get_entity w ws u)) = E w /\ n (fst (get_entity w ws u)) = n w.
Proof.
  unfold get_entity.
  destruct (En_find_in w ws KGroup u) as [A1 B1]. destruct (find_in w ws KGroup u) as [w1 [x|]]; simpl in *; [split; assumption|].
  destruct (En_find_in w1 ws KData u) as [A2 B2]. destruct (find_in w1 ws KData u) as [w2 [x|]]; simpl in *; [split; congruence|].
  destruct (En_find_in w2 ws KObject u) as [A3 B3]. destruct (find_in w2 ws KObject u) as [w3 [x|]]; simpl in *; [split; congruence|].
  destruct (En_find_in w3 ws KPG u) as [A4 B4]. split; congruence.
Qed.

Lemma En_touch w ws k u : E (touch_metadata w ws k u) = E w /\ n (touch_metadata w ws k u) = n w.
Proof. unfold touch_metadata. destruct (kidx_storable k); [apply En_get_entity | split; reflexivity]. Qed.

Lemma En_copy_uid w ws u : E (fst (copy_uid w ws u)) = E w /\ n (fst (copy_uid w ws u)) = n w.
Proof.
  unfold copy_uid. destruct (En_get_entity w ws u) as [A B]. destruct (get_entity w ws u) as [w1 [x|]]; simpl in *; split; assumption.
Qed.

Lemma En_save_flat w ws k u : E (save_flat w ws k u) = E w /\ n (save_flat w ws k u) = n w.
Proof. unfold save_flat. destruct (_ && _); split; reflexivity. Qed.

Lemma En_save_node w ws par k u : E (save_node w ws par k u) = E w /\ n (save_node w ws par k u) = n w.
Proof. destruct (save_node_facts w ws par k u) as [A [_ [B _]]]. split; assumption. Qed.

Lemma chb_construct c w ws k cls par u ty props : chb w -> chb (fst (fst (construct c w ws k cls par u ty props))).
Proof.
  intros C. unfold construct.
  pose proof (chb_alloc w (blank u k ws cls par ty) eq_refl eq_refl C) as C1.
  destruct (alloc_facts w (blank u k ws cls par ty)) as [Hx [Hn _]].
  destruct (alloc w (blank u k ws cls par ty)) as [w1 x]. simpl in *. subst x.
  pose proof (chb_add_child w1 par (n w) ltac:(lia) C1) as C2.
  set (w2 := add_child w1 par (n w)) in *.
  destruct (insert_once (alive w2) (R w2 ws k) u (n w)) as [d|]; cbn [fst].
  - set (w3 := upd (set_R w2 ws k d) (n w) (fun r => with_reg r props)).
    assert (C3 : chb w3).
    { apply chb_same_lists; [intros r; split; reflexivity|]. apply (chb_E w2); [simpl; lia | reflexivity | exact C2]. }
    set (w4 := touch_metadata (save_node w3 ws par k u) ws k u).
    assert (C4 : chb w4).
    { destruct (En_touch (save_node w3 ws par k u) ws k u) as [A B]. destruct (En_save_node w3 ws par k u) as [A' B'].
      apply (chb_E w3); [unfold w4; rewrite B, B'; lia | unfold w4; rewrite A, A'; reflexivity | exact C3]. }
    destruct (memb (n w) (ech (E w4 par))); [exact C4 | apply (chb_E w4); [simpl; lia | reflexivity | exact C4]].
  - assert (C2' : chb (if rollback c then upd w2 par (fun r => with_ch r (remove_one (n w) (ech r)) (remove_one (n w) (epgs r))) else w2)).
    { destruct (rollback c); [|exact C2]. apply chb_upd; [|exact C2]. intros r y. simpl.
      intros [H|H]; left; [left | right]; eapply In_remove_one; exact H. }
    destruct (memb (n w) (ech (E _ par))); [exact C2'|]. eapply chb_E; [| |exact C2']; [simpl; lia | reflexivity].
Qed.

Lemma construct_n c w ws k cls par u ty props : n (fst (fst (construct c w ws k cls par u ty props))) = S (n w).
Proof.
  unfold construct. destruct (alloc_facts w (blank u k ws cls par ty)) as [_ [Hn _]].
  destruct (alloc w (blank u k ws cls par ty)) as [w1 x]. simpl in Hn.
  destruct (add_child_facts w1 par x) as [Hn2 _].
  destruct (insert_once _ _ u x) as [d|]; cbn [fst].
  - match goal with |- n (if ?b then ?a else kill ?a ?l) = _ => assert (Hk : n (if b then a else kill a l) = n a) by (destruct b; reflexivity) end.
    rewrite Hk. rewrite (proj2 (En_touch _ ws k u)), (proj2 (En_save_node _ ws par k u)). simpl. congruence.
  - match goal with |- n (if ?b then ?a else kill ?a ?l) = _ => assert (Hk : n (if b then a else kill a l) = n a) by (destruct b; reflexivity) end.
    rewrite Hk. destruct (rollback c); simpl; congruence.
Qed.

Lemma chb_type w ws cls : chb w -> chb (fst (find_or_create_type w ws cls)).
Proof.
  intros C. unfold find_or_create_type. destruct (get_clean_ref (alive w) (R w ws KType) (tuid cls)) as [d [t|]]; cbn [fst snd].
  - apply (chb_E w); [simpl; lia | reflexivity | exact C].
  - set (w1 := set_R w ws KType d).
    assert (C1 : chb w1) by (apply (chb_E w); [simpl; lia | reflexivity | exact C]).
    pose proof (chb_alloc w1 (blank (tuid cls) KType ws cls 0 0) eq_refl eq_refl C1) as C2.
    destruct (alloc w1 (blank (tuid cls) KType ws cls 0 0)) as [w2 t]. cbn [fst snd] in C2.
    destruct (insert_once (alive w2) (R w2 ws KType) (tuid cls) t) as [d'|]; [|exact C2]. cbn [fst snd].
    apply chb_same_lists; [intros r; split; reflexivity|]. apply (chb_E w2); [simpl; lia | reflexivity | exact C2].
Qed.

Lemma chb_copy_children c : forall cs w ws x' cmap, chb w -> chb (fst (fst (copy_children c w ws x' cs cmap))).
Proof.
  induction cs as [|a r IH]; intros w ws x' cmap C; simpl; [exact C|].
  destruct (kind_eqb (ekind (E w a)) KPG); [apply IH; exact C|].
  set (w0 := touch_metadata w (ews (E w a)) KData (euid (E w a))).
  assert (C0 : chb w0) by (destruct (En_touch w (ews (E w a)) KData (euid (E w a))) as [A B]; apply (chb_E w); [unfold w0; lia | exact A | exact C]).
  assert (C1 : chb (fst (copy_uid w0 ws (euid (E w a))))).
  { destruct (En_copy_uid w0 ws (euid (E w a))) as [A B]. apply (chb_E w0); [lia | exact A | exact C0]. }
  destruct (copy_uid w0 ws (euid (E w a))) as [w1 u']. simpl in C1.
  pose proof (chb_construct c w1 ws KData 3 x' u' 0 [] C1) as C2.
  destruct (construct c w1 ws KData 3 x' u' 0 []) as [[w2 o] y]. simpl in C2.
  destruct o; try exact C2. apply IH. exact C2.
Qed.

Lemma chb_copy_pgs c : forall gs w ws x' cmap, chb w -> chb (fst (copy_pgs c w ws x' gs cmap)).
Proof.
  induction gs as [|g r IH]; intros w ws x' cmap C; simpl; [exact C|].
  destruct (map_props cmap (eprops (E w g))) as [ps|]; [|exact C].
  assert (C1 : chb (fst (find_in w ws KPG (euid (E w g))))).
  { destruct (En_find_in w ws KPG (euid (E w g))) as [A B]. apply (chb_E w); [lia | exact A | exact C]. }
  destruct (find_in w ws KPG (euid (E w g))) as [w1 f]. simpl in C1.
  assert (C2 : chb (fst (match f with None => (w1, euid (E w g)) | Some _ => take_fresh w1 end))).
  { destruct f; [apply (chb_E w1); [simpl; lia | reflexivity | exact C1] | exact C1]. }
  destruct (match f with None => (w1, euid (E w g)) | Some _ => take_fresh w1 end) as [w2 u']. simpl in C2.
  pose proof (chb_construct c w2 ws KPG 4 x' u' 0 ps C2) as C3.
  destruct (construct c w2 ws KPG 4 x' u' 0 ps) as [[w3 o] y]. simpl in C3.
  destruct o; try exact C3. apply IH. exact C3.
Qed.

Lemma chb_do_copy c w e target : chb w -> chb (fst (do_copy c w e target)).
Proof.
  intros C. unfold do_copy.
  set (w0 := touch_metadata w (ews (E w e)) (ekind (E w e)) (euid (E w e))).
  assert (C0 : chb w0) by (destruct (En_touch w (ews (E w e)) (ekind (E w e)) (euid (E w e))) as [A B]; apply (chb_E w); [unfold w0; lia | exact A | exact C]).
  set (ws := ews (E w target)).
  assert (CU : chb (fst (copy_uid w0 ws (euid (E w0 e))))).
  { destruct (En_copy_uid w0 ws (euid (E w0 e))) as [A B]. apply (chb_E w0); [lia | exact A | exact C0]. }
  destruct (ekind (E w0 e)); try exact C0.
  - destruct (usable w0 target KGroup); [|exact C0].
    destruct (copy_uid w0 ws (euid (E w0 e))) as [w1 u']. simpl in CU.
    pose proof (chb_type w1 ws (ecls (E w0 e)) CU) as C2. destruct (find_or_create_type w1 ws (ecls (E w0 e))) as [w2 t]. simpl in C2.
    pose proof (chb_construct c w2 ws KGroup (ecls (E w0 e)) target u' t [] C2) as C3.
    destruct (construct c w2 ws KGroup (ecls (E w0 e)) target u' t []) as [[w3 o] y]. exact C3.
  - destruct (usable w0 target KGroup); [|exact C0].
    destruct (copy_uid w0 ws (euid (E w0 e))) as [w1 u']. simpl in CU.
    pose proof (chb_type w1 ws (ecls (E w0 e)) CU) as C2. destruct (find_or_create_type w1 ws (ecls (E w0 e))) as [w2 t]. simpl in C2.
    pose proof (chb_construct c w2 ws KObject (ecls (E w0 e)) target u' t [] C2) as C3.
    destruct (construct c w2 ws KObject (ecls (E w0 e)) target u' t []) as [[w3 o] x']. simpl in C3.
    destruct o; try exact C3.
    pose proof (chb_copy_children c (ech (E w3 e)) w3 ws x' [] C3) as C4.
    destruct (copy_children c w3 ws x' (ech (E w3 e)) []) as [[w4 o4] cmap]. simpl in C4.
    destruct o4; try exact C4. apply chb_copy_pgs. exact C4.
  - destruct (usable w0 target KObject); [|exact C0].
    destruct (copy_uid w0 ws (euid (E w0 e))) as [w1 u']. simpl in CU.
    pose proof (chb_construct c w1 ws KData 3 target u' 0 [] CU) as C3.
    destruct (construct c w1 ws KData 3 target u' 0 []) as [[w3 o] y]. exact C3.
Qed.

Lemma chb_fold {A} (f : st -> A -> st) l : (forall w x, chb w -> chb (f w x)) -> forall w, chb w -> chb (fold_left f l w).
Proof. intros Hf. induction l as [|a r IH]; intros w C; simpl; [exact C | apply IH, Hf, C]. Qed.

Lemma chb_drop_child w o x : chb w -> chb (drop_child w o x).
Proof. apply chb_upd. intros r y. simpl. intros [H|H]; left; [left | right]; eapply In_remove_one; exact H. Qed.

Lemma chb_clear_children w o : chb w -> chb (clear_children w o).
Proof.
  intros C. unfold clear_children. apply chb_fold; [|exact C]. intros w0 x C0.
  destruct (kind_eqb (ekind (E w0 x)) KPG); [apply chb_drop_child; exact C0|].
  unfold drop_node_links, del_link.
  match goal with |- chb (set_links ?w1 ?a ?l) => apply (chb_E w1); [simpl; lia | reflexivity|] end.
  match goal with |- chb (set_links ?w1 ?a ?l) => apply (chb_E w1); [simpl; lia | reflexivity|] end.
  match goal with |- chb (set_flat ?w1 ?a ?l) => apply (chb_E w1); [simpl; lia | reflexivity|] end. apply chb_drop_child.
  unfold scrub_groups. apply chb_fold; [|exact C0]. intros w1 g C1. destruct (eprops (E w1 g)) as [|a l]; [exact C1|].
  assert (C2 : chb (upd w1 g (fun r => with_props r (filter (fun x0 => negb (Nat.eqb x0 (euid (E w0 x)))) (a :: l)))))
    by (apply chb_same_lists; [intros r; split; reflexivity | exact C1]).
  destruct (filter _ (a :: l)); [apply chb_drop_child; exact C2 | exact C2].
Qed.

Lemma chb_sweep w ws k : chb w -> chb (sweep w ws k).
Proof. intros C. unfold sweep. destruct (kidx_storable k); (apply (chb_E w); [simpl; lia | reflexivity | exact C]). Qed.

Lemma chb_step c w a : chb w -> chb (fst (step c w a)).
Proof.
  intros C. destruct a as [ws isobj parent u|obj u|obj ds u|e target|e|es|ws k|ws e]; unfold step.
  - destruct (_ && _ && _); [|exact C].
    assert (C0 : chb (fst (pick_uid w u))) by (destruct u; simpl; [apply (chb_E w); [simpl; lia | reflexivity | exact C] | exact C]).
    destruct (pick_uid w u) as [w0 uid]. simpl in C0.
    pose proof (chb_type w0 ws (if isobj then 2 else 1) C0) as C1. destruct (find_or_create_type w0 ws (if isobj then 2 else 1)) as [w1 t]. simpl in C1.
    pose proof (chb_construct c w1 ws (if isobj then KObject else KGroup) (if isobj then 2 else 1) parent uid t [] C1) as C2.
    destruct (construct c w1 ws (if isobj then KObject else KGroup) (if isobj then 2 else 1) parent uid t []) as [[w2 o] y]. exact C2.
  - destruct (_ && _); [|exact C].
    assert (C0 : chb (fst (pick_uid w u))) by (destruct u; simpl; [apply (chb_E w); [simpl; lia | reflexivity | exact C] | exact C]).
    destruct (pick_uid w u) as [w0 uid]. simpl in C0.
    pose proof (chb_construct c w0 (ews (E w obj)) KData 3 obj uid 0 [] C0) as C2.
    destruct (construct c w0 (ews (E w obj)) KData 3 obj uid 0 []) as [[w2 o] y]. exact C2.
  - destruct (_ && _); [|exact C].
    assert (C0 : chb (fst (pick_uid w u))) by (destruct u; simpl; [apply (chb_E w); [simpl; lia | reflexivity | exact C] | exact C]).
    destruct (pick_uid w u) as [w0 uid]. simpl in C0.
    match goal with |- context [construct c w0 ?a KPG 4 obj uid 0 ?ps] =>
      pose proof (chb_construct c w0 a KPG 4 obj uid 0 ps C0) as C2; destruct (construct c w0 a KPG 4 obj uid 0 ps) as [[w2 o] y] end. exact C2.
  - destruct (_ && _ && _ && _); [apply chb_do_copy; exact C | exact C].
  - match goal with |- context [if ?b then _ else _] => destruct b end; [|exact C]. cbn [fst].
    apply chb_sweep. unfold drop_node_links, del_link.
    match goal with |- chb (set_links ?w1 ?a ?l) => apply (chb_E w1); [simpl; lia | reflexivity|] end.
    match goal with |- chb (set_links ?w1 ?a ?l) => apply (chb_E w1); [simpl; lia | reflexivity|] end.
    match goal with |- chb (set_flat ?w1 ?a ?l) => apply (chb_E w1); [simpl; lia | reflexivity|] end.
    apply chb_upd.
    + intros r y. simpl. intros [H|H]; left; [left; eapply In_remove_one; exact H | right; exact H].
    + destruct (kind_eqb (ekind (E w e)) KObject); [apply chb_clear_children; exact C | exact C].
  - match goal with |- context [if ?b then _ else _] => destruct b end; [|exact C]. cbn [fst].
    apply (chb_E w); [simpl; lia | reflexivity | exact C].
  - destruct (kind_eqb k KPG); [exact C | apply chb_sweep; exact C].
  - destruct (Nat.ltb e (n w)); [|exact C].
    destruct (En_get_entity w ws (euid (E w e))) as [A B]. destruct (get_entity w ws (euid (E w e))) as [w1 r]. simpl in *.
    apply (chb_E w); [lia | exact A | exact C].
Qed.

Lemma chb_init : chb init.
Proof. intros p x. destruct p as [|[|[|[|p]]]]; simpl; intros [[]|[]]. Qed.

Theorem reachable_chb c : forall h, chb (run c init h).
Proof.
  assert (G : forall h w, chb w -> chb (run c w h)) by (induction h as [|a r IH]; intros w C; simpl; [exact C | apply IH, chb_step, C]).
  intros h. apply G, chb_init.
Qed.

(* ================= a refused creation, with the rollback: the state is unchanged ================= *)
Lemma remove_one_notin x l : ~ In x l -> remove_one x l = l.
Proof.
  unfold remove_one. induction l as [|y r IH]; simpl; intros H; [reflexivity|].
  destruct (Nat.eqb y x) eqn:E0; [apply Nat.eqb_eq in E0; subst; exfalso; apply H; left; reflexivity|].
  simpl. f_equal. apply IH. tauto.
Qed.

Lemma remove_one_snoc x l : ~ In x l -> remove_one x (l ++ [x]) = l.
Proof.
  intros H. unfold remove_one. rewrite filter_app. simpl. rewrite Nat.eqb_refl. simpl. rewrite app_nil_r. apply (remove_one_notin x l H).
Qed.

Lemma with_ch_eta r : with_ch r (ech r) (epgs r) = r.
Proof. destruct r; reflexivity. Qed.

Lemma alive_kill_old w es y :
  alive w y = true -> ~ In y es -> ekind (E w y) <> KType -> alive (kill w es) y = true.
Proof.
  intros Ha Hy Hk. unfold alive, kill in *. simpl. apply negb_true_iff in Ha. apply negb_true_iff.
  match goal with |- memb y ?l = false => destruct (memb y l) eqn:Em end; [|reflexivity]. exfalso.
  apply memb_In in Em. apply in_app_or in Em as [Em|Em].
  - apply in_app_or in Em as [Em|Em]; [apply memb_In in Em; congruence|]. apply filter_In in Em as [Em _]. exact (Hy Em).
  - apply filter_In in Em as [_ Em]. apply andb_true_iff in Em as [_ Em]. unfold type_orphan in Em.
    apply andb_true_iff in Em as [Em _]. apply kind_eqb_eq in Em. exact (Hk Em).
Qed.

Lemma alive_kill_dead w es y : alive w y = false -> alive (kill w es) y = false.
Proof.
  intros Ha. unfold alive, kill in *. simpl. apply negb_false_iff in Ha. apply negb_false_iff.
  apply memb_In. apply in_or_app. left. apply in_or_app. left. apply memb_In. exact Ha.
Qed.

Theorem refused_create_unchanged c h ws (isobj : bool) parent e0 :
  rollback c = true ->
  let w := run c init h in
  owner w e0 -> ews (E w e0) = ws ->
  ekind (E w e0) = (if isobj then KObject else KGroup) -> ecls (E w e0) = (if isobj then 2 else 1) ->
  usable w parent KGroup = true -> ews (E w parent) = ws ->
  let r := step c w (OCreate ws isobj parent (USame e0)) in
  snd r = Refused /\ n (fst r) = S (n w) /\ alive (fst r) (n w) = false
  /\ (forall y, y < n w -> E (fst r) y = E w y)
  /\ (forall ws' k', R (fst r) ws' k' = R w ws' k')
  /\ (forall ws', flat (fst r) ws' = flat w ws' /\ links (fst r) ws' = links w ws') /\ fresh (fst r) = fresh w
  /\ (forall y, y < n w -> ekind (E w y) <> KType -> alive (fst r) y = alive w y).
Proof.
  intros Hc w Ho Hws Hk Hcl Hus Hpw.
  destruct (reachable_typed c h) as [G T]. fold w in G, T. pose proof (reachable_chb c h) as C. fold w in C.
  destruct Ho as [He0 [Ha0 Hr0]].
  set (k := if isobj then KObject else KGroup) in *. set (cls := if isobj then 2 else 1) in *.
  assert (Hkt : k <> KType) by (unfold k; destruct isobj; discriminate).
  assert (Hgo : is_go (ekind (E w e0))) by (rewrite Hk; unfold k; destruct isobj; [right | left]; reflexivity).
  destruct (T e0 He0 Ha0 Hgo) as [Hty Hta]. rewrite Hcl, Hws in Hty. set (t := etype (E w e0)) in *.
  unfold usable in Hus. apply andb_true_iff in Hus as [Hus Hpk]. apply andb_true_iff in Hus as [Hpn Hpa].
  apply Nat.ltb_lt in Hpn. apply kind_eqb_eq in Hpk.
  (* the step *)
  intros r. unfold r, step.
  assert (Hguard : (Nat.ltb parent (n w) && alive w parent && kind_eqb (ekind (E w parent)) KGroup) && Nat.eqb (ews (E w parent)) ws && uspec_ok w (USame e0) = true).
  { apply Nat.ltb_lt in Hpn. rewrite Hpn, Hpa, Hpk, Hpw, Nat.eqb_refl. simpl. apply Nat.ltb_lt. exact He0. }
  unfold usable. rewrite Hguard. cbn [pick_uid].
  (* the type is found *)
  assert (Hft : find_or_create_type w ws cls = (set_R w ws KType (R w ws KType), t)).
  { unfold find_or_create_type, get_clean_ref. apply (dget_In _ _ _ (g_nodup G ws KType)) in Hty. rewrite Hty, Hta. reflexivity. }
  fold k cls. rewrite Hft.
  set (w1 := set_R w ws KType (R w ws KType)).
  assert (HR1 : forall ws' k', R w1 ws' k' = R w ws' k').
  { intros ws' k'. unfold w1. simpl. destruct (Nat.eqb ws' ws && kind_eqb k' KType) eqn:E0; [|reflexivity].
    apply andb_true_iff in E0 as [A B]. apply Nat.eqb_eq in A. apply kind_eqb_eq in B. subst. reflexivity. }
  (* the constructor is refused *)
  set (u := euid (E w e0)).
  set (x := n w).
  set (w1a := fst (alloc w1 (blank u k ws cls parent t))).
  set (w2 := add_child w1a parent x).
  assert (Hw2 : w2 = upd w1a parent (fun r0 => with_ch r0 (ech r0 ++ [x]) (epgs r0))).
  { unfold w2, add_child. assert (Hkp : ekind (E w1a parent) = KGroup).
    { unfold w1a. simpl. assert (Hpn' : Nat.eqb parent (n w) = false) by (apply Nat.eqb_neq; lia). rewrite Hpn'. exact Hpk. }
    rewrite Hkp. reflexivity. }
  assert (Hins : insert_once (alive w2) (R w2 ws k) u x = None).
  { unfold insert_once. assert (HR2 : R w2 ws k = R w ws k) by (rewrite Hw2; simpl; apply HR1).
    rewrite HR2. pose proof (g_owner G e0 He0 Ha0 Hr0) as Hin. rewrite Hws, Hk in Hin. fold u k in Hin.
    apply (dget_In _ _ _ (g_nodup G ws k)) in Hin. rewrite Hin.
    assert (Hal : alive w2 e0 = true) by (rewrite Hw2; exact Ha0). rewrite Hal. reflexivity. }
  assert (Hcon : construct c w1 ws k cls parent u t [] =
                 (kill (upd w2 parent (fun r0 => with_ch r0 (remove_one x (ech r0)) (remove_one x (epgs r0)))) [x], Refused, x)).
  { unfold construct. change (alloc w1 (blank u k ws cls parent t)) with (w1a, x). cbv iota beta. fold w2. rewrite Hins, Hc.
    set (w2' := upd w2 parent (fun r0 => with_ch r0 (remove_one x (ech r0)) (remove_one x (epgs r0)))).
    assert (Hm : memb x (ech (E w2' parent)) = false).
    { destruct (memb x (ech (E w2' parent))) eqn:Em; [|reflexivity]. apply memb_In in Em.
      unfold w2' in Em. simpl in Em. rewrite Nat.eqb_refl in Em. simpl in Em. exfalso. exact (not_in_remove_one x _ Em). }
    rewrite Hm. reflexivity. }
  rewrite Hcon. cbn [fst snd].
  set (w2' := upd w2 parent (fun r0 => with_ch r0 (remove_one x (ech r0)) (remove_one x (epgs r0)))).
  assert (Hxp : Nat.eqb parent x = false) by (apply Nat.eqb_neq; unfold x; lia).
  assert (HEpar : E w2' parent = E w parent).
  { unfold w2'. simpl. rewrite Nat.eqb_refl. rewrite Hw2. simpl. rewrite Nat.eqb_refl. unfold w1a. simpl. fold x. rewrite Hxp.
    assert (Hn1 : ~ In x (ech (E w parent))) by (intros Hin; pose proof (C parent x (or_introl Hin)); unfold x in *; lia).
    assert (Hn2 : ~ In x (epgs (E w parent))) by (intros Hin; pose proof (C parent x (or_intror Hin)); unfold x in *; lia).
    rewrite (remove_one_snoc x _ Hn1), (remove_one_notin x _ Hn2).
    destruct (E w parent); reflexivity. }
  assert (HE : forall y, y < n w -> E w2' y = E w y).
  { intros y Hy. destruct (Nat.eq_dec y parent) as [->|Hyp]; [exact HEpar|].
    unfold w2'. simpl. apply Nat.eqb_neq in Hyp. rewrite Hyp. rewrite Hw2. simpl. rewrite Hyp. unfold w1a. simpl.
    assert (Hyn : Nat.eqb y (n w) = false) by (apply Nat.eqb_neq; lia). rewrite Hyn. reflexivity. }
  assert (Hdead : dead w2' = dead w) by (unfold w2'; rewrite Hw2; reflexivity).
  split; [reflexivity|]. split; [change (n (kill w2' [x])) with (n w2); rewrite Hw2; reflexivity|]. split.
  { unfold alive, kill. cbn [dead set_dead]. apply negb_false_iff. apply memb_In. apply in_or_app. left. rewrite Hdead.
    destruct (memb x (dead w)) eqn:Ed; [apply in_or_app; left; apply memb_In; exact Ed | apply in_or_app; right; simpl; rewrite Ed; left; reflexivity]. }
  split; [intros y Hy; change (E (kill w2' [x])) with (E w2'); apply HE; exact Hy|].
  split; [intros ws' k'; change (R (kill w2' [x])) with (R w2'); unfold w2'; rewrite Hw2; simpl; apply HR1|].
  split; [intros ws'; change (flat (kill w2' [x]) ws') with (flat w2 ws'); change (links (kill w2' [x]) ws') with (links w2 ws'); rewrite Hw2; split; reflexivity|].
  split; [change (fresh (kill w2' [x])) with (fresh w2); rewrite Hw2; reflexivity|].
  intros y Hy Hyk. destruct (alive w y) eqn:Ea.
  - apply alive_kill_old.
    + unfold alive. rewrite Hdead. exact Ea.
    + intros [Hx|[]]. unfold x in Hx. lia.
    + rewrite (HE y Hy). exact Hyk.
  - apply alive_kill_dead. unfold alive. rewrite Hdead. exact Ea.
Qed.
