(* Facts about the memory tree of Model/Ws.v: nested induction, list forms of the nested fixpoints, one-hole
   contexts ([plug]) and how find / upd / prune act at a hole when identifiers are unique. *)
From GV Require Import Prelude.Base Model.WsX Model.WsXSpec Proofs.WsXFile.
From Coq Require Import Permutation.

(* ---------------- nested induction ---------------- *)
Definition tree_ind' (P : tree -> Prop) (H : forall k a l, Forall P l -> P (Node k a l)) : forall t, P t :=
  fix F (t : tree) : P t :=
    match t with
    | Node k a l =>
        H k a l ((fix G (l : list tree) : Forall P l :=
                    match l with
                    | [] => @Forall_nil _ P
                    | c :: r => @Forall_cons _ P c r (F c) (G r)
                    end) l)
    end.

(* ---------------- generic list facts ---------------- *)
Lemma nodup_app_iff {A} (l1 l2 : list A) :
  NoDup (l1 ++ l2) <-> NoDup l1 /\ NoDup l2 /\ (forall x, In x l1 -> ~ In x l2).
Proof.
  induction l1 as [|a r IH]; simpl.
  - split; [intros H; repeat split; [constructor | exact H | intros x []] | intros [_ [H _]]; exact H].
  - split.
    + intros H. inversion H as [|? ? Hn Hr]; subst. apply IH in Hr. destruct Hr as [H1 [H2 H3]].
      repeat split; [constructor; [intros Hin; apply Hn; apply in_or_app; left; exact Hin | exact H1] | exact H2 |].
      intros x [->|Hx]; [intros Hin; apply Hn; apply in_or_app; right; exact Hin | apply H3; exact Hx].
    + intros [H1 [H2 H3]]. inversion H1 as [|? ? Hn Hr]; subst. constructor.
      * intros Hin. apply in_app_or in Hin. destruct Hin as [Hin|Hin]; [exact (Hn Hin) | exact (H3 a (or_introl eq_refl) Hin)].
      * apply IH. repeat split; [exact Hr | exact H2 | intros x Hx; apply H3; right; exact Hx].
Qed.

Lemma NoDup_map_inj_in {A B} (f : A -> B) (l : list A) a b :
  NoDup (map f l) -> In a l -> In b l -> f a = f b -> a = b.
Proof.
  induction l as [|x r IH]; simpl; intros H Ha Hb E; [destruct Ha|].
  inversion H as [|? ? Hn Hr]; subst.
  destruct Ha as [->|Ha], Hb as [->|Hb].
  - reflexivity.
  - exfalso. apply Hn. rewrite E. apply in_map. exact Hb.
  - exfalso. apply Hn. rewrite <- E. apply in_map. exact Ha.
  - apply IH; assumption.
Qed.

Ltac perm_count :=
  apply (Permutation_count_occ key_dec); intros ?x;
  repeat (rewrite ?count_occ_app; simpl);
  repeat match goal with |- context [key_dec ?a ?b] => destruct (key_dec a b) end;
  lia.

(* ---------------- list forms of the nested fixpoints ---------------- *)
Fixpoint find_list (x : key) (l : list tree) : option tree :=
  match l with
  | [] => None
  | c :: r => match find x c with Some s => Some s | None => find_list x r end
  end.

Lemma find_eq x k a l : find x (Node k a l) = if key_eqb x k then Some (Node k a l) else find_list x l.
Proof.
  simpl. destruct (key_eqb x k); [reflexivity|].
  induction l as [|c r IH]; simpl; [reflexivity|]. destruct (find x c); [reflexivity | exact IH].
Qed.

Lemma upd_eq x f k a l : upd x f (Node k a l) = if key_eqb x k then f (Node k a l) else Node k a (map (upd x f) l).
Proof.
  simpl. destruct (key_eqb x k); reflexivity.
Qed.

Definition keep (x : key) (c : tree) : bool := negb (key_eqb x (tkey c)).
Definition prune_list (x : key) (l : list tree) : list tree := map (prune x) (filter (keep x) l).

Lemma prune_eq x k a l : prune x (Node k a l) = Node k a (prune_list x l).
Proof.
  simpl. f_equal. unfold prune_list.
  induction l as [|c r IH]; simpl; [reflexivity|]. unfold keep at 1.
  destruct (key_eqb x (tkey c)); simpl; [exact IH | f_equal; exact IH].
Qed.

Definition save_kids (k : key) (l : list tree) (f : file) : file := fold_left (fun f c => save_tree k c f) l f.

Lemma save_tree_eq p k a l f : save_tree p (Node k a l) f = w_link p k (save_kids k l (w_entity k a f)).
Proof.
  reflexivity.
Qed.

Definition kd_scrub (c : key) (pgs : list pgroup) : list pgroup :=
  match fst c with KD => scrub c pgs | _ => pgs end.
Definition kd_wscrub (p k : key) (ppgs : list pgroup) (f : file) : file :=
  match fst k with KD => w_scrub p k ppgs f | _ => f end.

Fixpoint rm_list (k : key) (l : list tree) (st : file * list pgroup) : file * list pgroup * bool :=
  match l with
  | [] => (st, true)
  | c :: r => let '(f0, pgs) := st in
              let '(f', ok) := rm_ws k pgs c f0 in
              if ok then rm_list k r (f', kd_scrub (tkey c) pgs) else ((f', pgs), false)
  end.

Lemma rm_ws_eq p ppgs k a l f :
  rm_ws p ppgs (Node k a l) f =
  if negb (adel a) then (f, false)
  else let '(f1, _, ok) := rm_list k l (f, apgs a) in
       if negb ok then (f1, false) else (w_delete k (w_unlink p k (kd_wscrub p k ppgs f1)), true).
Proof.
  simpl. destruct (negb (adel a)); [reflexivity|].
  match goal with |- match ?X with _ => _ end = _ => replace X with (rm_list k l (f, apgs a)); [reflexivity|] end.
  generalize (f, apgs a) as st. induction l as [|c r IH]; intros st; simpl; [reflexivity|].
  destruct st as [f0 pgs]. destruct (rm_ws k pgs c f0) as [f' ok]. destruct ok; [apply IH | reflexivity].
Qed.

Fixpoint done_list (l : list tree) : list key * bool :=
  match l with
  | [] => ([], true)
  | c :: r => let '(d, ok) := rm_ws_done c in
              if ok then let '(d', ok') := done_list r in (d ++ d', ok') else (d, false)
  end.

Lemma rm_ws_done_eq k a l :
  rm_ws_done (Node k a l) =
  if negb (adel a) then ([], false)
  else let '(dn, ok) := done_list l in if ok then ([k], true) else (dn, false).
Proof.
  simpl. destruct (negb (adel a)); [reflexivity|].
  match goal with |- match ?X with _ => _ end = _ => replace X with (done_list l); [reflexivity|] end.
  induction l as [|c r IH]; simpl; [reflexivity|].
  destruct (rm_ws_done c) as [d ok]. destruct ok; [rewrite IH; reflexivity | reflexivity].
Qed.

Definition copy_kids (k : key) (l : list tree) (f : file) : file := fold_left (fun f c => save_copy k c f) l f.
Definition put_all (k : key) (pgs : list pgroup) (f : file) : file := fold_left (fun f g => w_pg_put k g f) pgs f.

Definition put_pgs (k : key) (a : attrs) (f : file) : file := match apgs a with [] => f | _ => w_pgs k a f end.

Lemma save_copy_eq p k a l f :
  save_copy p (Node k a l) f = put_pgs k a (put_all k (apgs a) (copy_kids k l (w_link p k (w_entity k (with_pgs a []) f)))).
Proof. reflexivity. Qed.

Fixpoint copy_list (l : list tree) (ids : list N) : option (list tree * list N) :=
  match l with
  | [] => Some ([], ids)
  | c :: r => match copy_sub c ids with
              | Some (c', ids') => match copy_list r ids' with Some (r', ids'') => Some (c' :: r', ids'') | None => None end
              | None => None
              end
  end.

Definition copy_obj (i : N) (a : attrs) (l : list tree) (ids1 : list N) : option (tree * list N) :=
  let n := length l in
  if Nat.ltb (length ids1) (n + length (apgs a)) then None else
  let kid_ids := firstn n ids1 in
  let pg_ids := firstn (length (apgs a)) (skipn n ids1) in
  let rest := skipn (n + length (apgs a)) ids1 in
  let l' := map (fun '(c, j) => Node (KD, j) (with_pgs (tattrs c) []) []) (combine l kid_ids) in
  let cmap := map (fun '(c, j) => (tkey c, (KD, j))) (combine l kid_ids) in
  let pgs' := map (fun '(g, j) => (j, pg_name g, remap cmap (pg_members g))) (combine (apgs a) pg_ids) in
  Some (Node (KO, i) (with_pgs a pgs') l', rest).

Lemma copy_sub_eq k a l ids :
  copy_sub (Node k a l) ids =
  match ids with
  | [] => None
  | i :: ids1 =>
      match fst k with
      | KG => match copy_list l ids1 with
              | Some (l', ids2) => Some (Node (KG, i) (with_pgs a []) l', ids2)
              | None => None
              end
      | KD => Some (Node (KD, i) (with_pgs a []) [], ids1)
      | KO => copy_obj i a l ids1
      end
  end.
Proof. destruct ids as [|i ids1]; [reflexivity|]. simpl. destruct (fst k); reflexivity. Qed.

Global Opaque find upd prune save_tree rm_ws rm_ws_done save_copy copy_sub.

(* ---------------- keys, rows ---------------- *)
Lemma keys_of_eq k a l : keys_of (Node k a l) = k :: flat_map keys_of l.
Proof. reflexivity. Qed.
Lemma rows_eq k a l : rows (Node k a l) = (k, a, map tkey l) :: flat_map rows l.
Proof. reflexivity. Qed.

Lemma keys_of_rows t : keys_of t = map rkey (rows t).
Proof.
  induction t as [k a l IH] using tree_ind'. simpl. f_equal.
  induction IH as [|c r Hc Hr IHr]; simpl; [reflexivity|]. rewrite map_app, Hc, IHr. reflexivity.
Qed.

Lemma tkey_in_keys t : In (tkey t) (keys_of t).
Proof. destruct t as [k a l]. left. reflexivity. Qed.

Lemma rows_keys t r : In r (rows t) -> In (rkey r) (keys_of t).
Proof. intros H. rewrite keys_of_rows. apply in_map. exact H. Qed.

Lemma kid_keys_sub l c x : In c l -> In x (keys_of c) -> In x (flat_map keys_of l).
Proof. intros Hc Hx. apply in_flat_map. exists c. split; assumption. Qed.

Lemma tkeys_sub l x : In x (map tkey l) -> In x (flat_map keys_of l).
Proof.
  intros H. apply in_map_iff in H. destruct H as [c [<- Hc]]. eapply kid_keys_sub; [exact Hc | apply tkey_in_keys].
Qed.

(* children named by a row are strict descendants *)
Lemma rows_kids_strict t r c : In r (rows t) -> In c (rkids r) -> In c (flat_map keys_of (tkids t)).
Proof.
  revert r c. induction t as [k a l IH] using tree_ind'. intros r c Hr Hc. simpl.
  rewrite rows_eq in Hr. destruct Hr as [<-|Hr].
  - apply tkeys_sub. exact Hc.
  - apply in_flat_map in Hr. destruct Hr as [t' [Ht' Hr]].
    rewrite Forall_forall in IH. specialize (IH t' Ht' r c Hr Hc).
    apply in_flat_map. exists t'. split; [exact Ht'|].
    destruct t' as [k' a' l']. right. exact IH.
Qed.

Lemma rows_kids_keys t r c : In r (rows t) -> In c (rkids r) -> In c (keys_of t).
Proof.
  intros Hr Hc. destruct t as [k a l]. right. exact (rows_kids_strict (Node k a l) r c Hr Hc).
Qed.

Lemma rows_list_keys l r : In r (flat_map rows l) -> In (rkey r) (flat_map keys_of l).
Proof.
  intros H. apply in_flat_map in H. destruct H as [c [Hc Hr]]. eapply kid_keys_sub; [exact Hc | apply rows_keys; exact Hr].
Qed.

Lemma rows_list_kids l r c : In r (flat_map rows l) -> In c (rkids r) -> In c (flat_map keys_of l).
Proof.
  intros H Hc. apply in_flat_map in H. destruct H as [t [Ht Hr]]. eapply kid_keys_sub; [exact Ht | eapply rows_kids_keys; eassumption].
Qed.

Lemma rows_unique t r1 r2 : NoDup (keys_of t) -> In r1 (rows t) -> In r2 (rows t) -> rkey r1 = rkey r2 -> r1 = r2.
Proof. rewrite keys_of_rows. apply NoDup_map_inj_in. Qed.

Lemma nodup_tkeys l : NoDup (flat_map keys_of l) -> NoDup (map tkey l).
Proof.
  induction l as [|c r IH]; simpl; intros H; [constructor|].
  apply nodup_app_iff in H. destruct H as [H1 [H2 H3]]. constructor; [|apply IH; exact H2].
  intros Hin. apply (H3 (tkey c)); [apply tkey_in_keys | apply tkeys_sub; exact Hin].
Qed.

(* ---------------- find ---------------- *)
Lemma find_list_Some x l s : find_list x l = Some s -> exists l1 c l2, l = l1 ++ c :: l2 /\ find x c = Some s.
Proof.
  induction l as [|c r IH]; simpl; [discriminate|].
  destruct (find x c) as [s'|] eqn:E.
  - intros H. inversion H; subst. exists [], c, r. split; [reflexivity | exact E].
  - intros H. destruct (IH H) as [l1 [c' [l2 [-> Hf]]]]. exists (c :: l1), c', l2. split; [reflexivity | exact Hf].
Qed.

Lemma find_list_None x l : find_list x l = None <-> forall c, In c l -> find x c = None.
Proof.
  induction l as [|c r IH]; simpl.
  - split; [intros _ c [] | reflexivity].
  - destruct (find x c) as [s|] eqn:E.
    + split; [discriminate | intros H; specialize (H c (or_introl eq_refl)); congruence].
    + rewrite IH. split; [intros H c' [<-|Hc']; [exact E | apply H; exact Hc'] | intros H c' Hc'; apply H; right; exact Hc'].
Qed.

Lemma find_self t : find (tkey t) t = Some t.
Proof. destruct t as [k a l]. rewrite find_eq. simpl. rewrite key_eqb_refl. reflexivity. Qed.

Lemma find_tkey x t s : find x t = Some s -> tkey s = x.
Proof.
  revert s. induction t as [k a l IH] using tree_ind'. intros s. rewrite find_eq. keq x k.
  - intros H. inversion H; subst. reflexivity.
  - intros H. apply find_list_Some in H. destruct H as [l1 [c [l2 [-> Hf]]]].
    rewrite Forall_forall in IH. apply (IH c); [apply in_or_app; right; left; reflexivity | exact Hf].
Qed.

Lemma find_None_iff x t : find x t = None <-> ~ In x (keys_of t).
Proof.
  induction t as [k a l IH] using tree_ind'. rewrite find_eq, keys_of_eq. keq x k.
  - split; [discriminate | intros H; exfalso; apply H; left; congruence].
  - rewrite find_list_None. rewrite Forall_forall in IH. split.
    + intros H [Hk|Hin]; [congruence|]. apply in_flat_map in Hin. destruct Hin as [c [Hc Hx]].
      apply (proj1 (IH c Hc) (H c Hc)). exact Hx.
    + intros H c Hc. apply (IH c Hc). intros Hx. apply H. right. eapply kid_keys_sub; eassumption.
Qed.

Lemma find_in x t : In x (keys_of t) -> exists s, find x t = Some s.
Proof.
  intros H. destruct (find x t) as [s|] eqn:E; [exists s; reflexivity|].
  apply find_None_iff in E. contradiction.
Qed.

Lemma find_Some_in x t s : find x t = Some s -> In x (keys_of t).
Proof.
  intros H. destruct (in_dec key_dec x (keys_of t)) as [Hi|Hi]; [exact Hi|].
  apply find_None_iff in Hi. congruence.
Qed.

Lemma find_list_hole x l1 s l2 : ~ In x (flat_map keys_of l1) -> In x (keys_of s) ->
  find_list x (l1 ++ s :: l2) = find x s.
Proof.
  intros H1 Hs. induction l1 as [|c r IH]; simpl.
  - destruct (find_in x s Hs) as [s' ->]. reflexivity.
  - simpl in H1. assert (E : find x c = None).
    { apply find_None_iff. intros Hx. apply H1. apply in_or_app. left. exact Hx. }
    rewrite E. apply IH. intros Hx. apply H1. apply in_or_app. right. exact Hx.
Qed.

(* ---------------- upd / prune away from the key ---------------- *)
Lemma upd_notin x f t : ~ In x (keys_of t) -> upd x f t = t.
Proof.
  induction t as [k a l IH] using tree_ind'. rewrite keys_of_eq, upd_eq. intros H.
  rewrite key_eqb_false by (intros ->; apply H; left; reflexivity). f_equal.
  rewrite Forall_forall in IH. rewrite <- (map_id l) at 2. apply map_ext_in. intros c Hc.
  apply IH; [exact Hc|]. intros Hx. apply H. right. eapply kid_keys_sub; eassumption.
Qed.

Lemma upd_list_notin x f l : ~ In x (flat_map keys_of l) -> map (upd x f) l = l.
Proof.
  intros H. rewrite <- (map_id l) at 2. apply map_ext_in. intros c Hc.
  apply upd_notin. intros Hx. apply H. eapply kid_keys_sub; eassumption.
Qed.

Lemma prune_list_notin_aux x l : (forall c, In c l -> prune x c = c) -> ~ In x (flat_map keys_of l) -> prune_list x l = l.
Proof.
  intros Hp H. unfold prune_list.
  assert (E : filter (keep x) l = l).
  { induction l as [|c r IH]; simpl; [reflexivity|].
    assert (Ek : keep x c = true).
    { unfold keep. apply negb_true_iff. apply key_eqb_false. intros ->. apply H. simpl. apply in_or_app. left. apply tkey_in_keys. }
    rewrite Ek. f_equal. apply IH.
    - intros c' Hc'. apply Hp. right. exact Hc'.
    - intros Hx. apply H. simpl. apply in_or_app. right. exact Hx. }
  rewrite E. rewrite <- (map_id l) at 2. apply map_ext_in. intros c Hc. apply Hp. exact Hc.
Qed.

Lemma prune_notin x t : ~ In x (keys_of t) -> prune x t = t.
Proof.
  induction t as [k a l IH] using tree_ind'. rewrite keys_of_eq, prune_eq. intros H. f_equal.
  rewrite Forall_forall in IH. apply prune_list_notin_aux.
  - intros c Hc. apply IH; [exact Hc|]. intros Hx. apply H. right. eapply kid_keys_sub; eassumption.
  - intros Hx. apply H. right. exact Hx.
Qed.

Lemma prune_list_notin x l : ~ In x (flat_map keys_of l) -> prune_list x l = l.
Proof.
  intros H. apply prune_list_notin_aux; [|exact H].
  intros c Hc. apply prune_notin. intros Hx. apply H. eapply kid_keys_sub; eassumption.
Qed.

Lemma prune_list_app x l1 l2 : prune_list x (l1 ++ l2) = prune_list x l1 ++ prune_list x l2.
Proof. unfold prune_list. rewrite filter_app, map_app. reflexivity. Qed.

Lemma tkey_prune x t : tkey (prune x t) = tkey t.
Proof. destruct t as [k a l]. rewrite prune_eq. reflexivity. Qed.

(* ---------------- one-hole contexts ---------------- *)
Definition frame : Type := (key * attrs * list tree * list tree)%type.
Definition ctx : Type := list frame.

Fixpoint plug (C : ctx) (s : tree) : tree :=
  match C with
  | [] => s
  | (k, a, l1, l2) :: C' => plug C' (Node k a (l1 ++ s :: l2))
  end.

Definition fr_keys (fr : frame) : list key :=
  let '(k, a, l1, l2) := fr in k :: flat_map keys_of l1 ++ flat_map keys_of l2.
Definition ctx_keys (C : ctx) : list key := flat_map fr_keys C.

Fixpoint ctx_rows (C : ctx) (h : key) : list row :=
  match C with
  | [] => []
  | (k, a, l1, l2) :: C' =>
      (k, a, map tkey l1 ++ h :: map tkey l2) :: flat_map rows l1 ++ flat_map rows l2 ++ ctx_rows C' k
  end.

Lemma plug_app C1 C2 s : plug (C1 ++ C2) s = plug C2 (plug C1 s).
Proof.
  revert s. induction C1 as [|[[[k a] l1] l2] C IH]; intros s; simpl; [reflexivity | apply IH].
Qed.

Lemma tkey_plug C s s' : tkey s = tkey s' -> tkey (plug C s) = tkey (plug C s').
Proof.
  revert s s'. induction C as [|[[[k a] l1] l2] C IH]; intros s s' H; simpl; [exact H | apply IH; reflexivity].
Qed.

Lemma tkey_plug_in C s : In (tkey (plug C s)) (tkey s :: ctx_keys C).
Proof.
  revert s. induction C as [|[[[k a] l1] l2] C IH]; intros s; simpl; [left; reflexivity|].
  specialize (IH (Node k a (l1 ++ s :: l2))). simpl in IH. destruct IH as [IH|IH].
  - right. left. exact IH.
  - right. right. apply in_or_app. right. exact IH.
Qed.

Lemma keys_plug_perm C s : Permutation (keys_of (plug C s)) (keys_of s ++ ctx_keys C).
Proof.
  revert s. induction C as [|[[[k a] l1] l2] C IH]; intros s; simpl.
  - rewrite app_nil_r. apply Permutation_refl.
  - eapply Permutation_trans; [apply IH|]. rewrite keys_of_eq, flat_map_app. simpl. unfold ctx_keys.
    generalize (flat_map fr_keys C), (flat_map keys_of l1), (flat_map keys_of l2), (keys_of s).
    intros R A B S. perm_count.
Qed.

Lemma keys_plug_in C s x : In x (keys_of (plug C s)) <-> In x (keys_of s) \/ In x (ctx_keys C).
Proof.
  rewrite <- in_app_iff. split; apply Permutation_in; [|apply Permutation_sym]; apply keys_plug_perm.
Qed.

Lemma keys_plug_nodup C s :
  NoDup (keys_of (plug C s)) <->
  NoDup (keys_of s) /\ NoDup (ctx_keys C) /\ (forall x, In x (keys_of s) -> ~ In x (ctx_keys C)).
Proof.
  rewrite <- nodup_app_iff. split; apply Permutation_NoDup; [|apply Permutation_sym]; apply keys_plug_perm.
Qed.

Lemma rows_plug_in C s r : In r (rows (plug C s)) <-> In r (rows s) \/ In r (ctx_rows C (tkey s)).
Proof.
  revert s. induction C as [|[[[k a] l1] l2] C IH]; intros s; simpl.
  - split; [intros H; left; exact H | intros [H|[]]; exact H].
  - rewrite IH. rewrite rows_eq, map_app, flat_map_app. simpl.
    rewrite ?in_app_iff. simpl. rewrite ?in_app_iff. tauto.
Qed.

Lemma ctx_rows_key C h r : In r (ctx_rows C h) -> In (rkey r) (ctx_keys C).
Proof.
  revert h. induction C as [|[[[k a] l1] l2] C IH]; intros h; simpl; [intros []|].
  intros [<-|H]; [left; reflexivity|]. right.
  rewrite !in_app_iff in H. rewrite !in_app_iff. destruct H as [H|[H|H]].
  - left. left. apply rows_list_keys. exact H.
  - left. right. apply rows_list_keys. exact H.
  - right. eapply IH. exact H.
Qed.

Lemma ctx_rows_kids C h r c : In r (ctx_rows C h) -> In c (rkids r) -> c = h \/ In c (ctx_keys C).
Proof.
  revert h. induction C as [|[[[k a] l1] l2] C IH]; intros h; simpl; [intros []|].
  intros [<-|H] Hc.
  - unfold rkids in Hc. simpl in Hc. apply in_app_or in Hc. destruct Hc as [Hc|[Hc|Hc]].
    + right. right. apply in_or_app. left. apply in_or_app. left. apply tkeys_sub. exact Hc.
    + left. congruence.
    + right. right. apply in_or_app. left. apply in_or_app. right. apply tkeys_sub. exact Hc.
  - right. rewrite !in_app_iff in H. destruct H as [H|[H|H]].
    + right. apply in_or_app. left. apply in_or_app. left. eapply rows_list_kids; eassumption.
    + right. apply in_or_app. left. apply in_or_app. right. eapply rows_list_kids; eassumption.
    + destruct (IH k H Hc) as [->|Hin]; [left; reflexivity | right; apply in_or_app; right; exact Hin].
Qed.

(* uniqueness of identifiers around a hole *)
Lemma nodup_hole k a l1 s l2 :
  NoDup (keys_of (Node k a (l1 ++ s :: l2))) ->
  NoDup (keys_of s) /\ ~ In k (keys_of s) /\
  (forall x, In x (keys_of s) -> ~ In x (flat_map keys_of l1) /\ ~ In x (flat_map keys_of l2)).
Proof.
  rewrite keys_of_eq, flat_map_app. simpl. intros H. inversion H as [|? ? Hn Hr]; subst.
  apply nodup_app_iff in Hr. destruct Hr as [H1 [H2 H3]].
  apply nodup_app_iff in H2. destruct H2 as [H4 [H5 H6]].
  repeat split.
  - exact H4.
  - intros Hk. apply Hn. apply in_or_app. right. apply in_or_app. left. exact Hk.
  - intros Hx. apply (H3 x Hx). apply in_or_app. left. assumption.
  - apply H6. assumption.
Qed.

Lemma nodup_plug_inner C s : NoDup (keys_of (plug C s)) -> NoDup (keys_of s).
Proof. intros H. apply keys_plug_nodup in H. apply H. Qed.

Lemma find_plug C s x : NoDup (keys_of (plug C s)) -> In x (keys_of s) -> find x (plug C s) = find x s.
Proof.
  revert s. induction C as [|[[[k a] l1] l2] C IH]; intros s H Hx; simpl; [reflexivity|].
  simpl in H. pose proof (nodup_plug_inner _ _ H) as Hn. apply nodup_hole in Hn. destruct Hn as [_ [Hk Hd]].
  rewrite IH; [|exact H|].
  - rewrite find_eq. rewrite key_eqb_false by (intros ->; exact (Hk Hx)).
    apply find_list_hole; [apply (Hd x Hx) | exact Hx].
  - rewrite keys_of_eq, flat_map_app. simpl. right. apply in_or_app. right. apply in_or_app. left. exact Hx.
Qed.

Lemma upd_plug C s x f : NoDup (keys_of (plug C s)) -> In x (keys_of s) -> upd x f (plug C s) = plug C (upd x f s).
Proof.
  revert s. induction C as [|[[[k a] l1] l2] C IH]; intros s H Hx; simpl; [reflexivity|].
  simpl in H. pose proof (nodup_plug_inner _ _ H) as Hn. apply nodup_hole in Hn. destruct Hn as [_ [Hk Hd]].
  rewrite IH; [|exact H|].
  - rewrite upd_eq. rewrite key_eqb_false by (intros ->; exact (Hk Hx)).
    rewrite map_app. simpl. rewrite !upd_list_notin by apply (Hd x Hx). reflexivity.
  - rewrite keys_of_eq, flat_map_app. simpl. right. apply in_or_app. right. apply in_or_app. left. exact Hx.
Qed.

Lemma upd_hole C q a l f : NoDup (keys_of (plug C (Node q a l))) ->
  upd q f (plug C (Node q a l)) = plug C (f (Node q a l)).
Proof.
  intros H. rewrite upd_plug; [|exact H | left; reflexivity].
  rewrite upd_eq, key_eqb_refl. reflexivity.
Qed.

Lemma prune_plug C s x : NoDup (keys_of (plug C s)) -> In x (flat_map keys_of (tkids s)) ->
  prune x (plug C s) = plug C (prune x s).
Proof.
  revert s. induction C as [|[[[k a] l1] l2] C IH]; intros s H Hx; simpl; [reflexivity|].
  simpl in H. pose proof (nodup_plug_inner _ _ H) as Hn. apply nodup_hole in Hn. destruct Hn as [Hs [Hk Hd]].
  assert (Hxs : In x (keys_of s)) by (destruct s as [k' a' l']; right; exact Hx).
  rewrite IH; [|exact H|].
  - rewrite prune_eq. rewrite prune_list_app. rewrite prune_list_notin by apply (Hd x Hxs). f_equal. f_equal.
    change (s :: l2) with ([s] ++ l2). rewrite prune_list_app. rewrite (prune_list_notin x l2) by apply (Hd x Hxs).
    unfold prune_list. simpl.
    assert (Ek : keep x s = true).
    { unfold keep. apply negb_true_iff. apply key_eqb_false. intros ->.
      destruct s as [k' a' l']. simpl in Hx. rewrite keys_of_eq in Hs. inversion Hs. contradiction. }
    rewrite Ek. reflexivity.
  - simpl. rewrite flat_map_app. simpl. apply in_or_app. right. apply in_or_app. left. exact Hxs.
Qed.

Lemma prune_kid k a l1 te l2 : NoDup (keys_of (Node k a (l1 ++ te :: l2))) ->
  prune (tkey te) (Node k a (l1 ++ te :: l2)) = Node k a (l1 ++ l2).
Proof.
  intros H. apply nodup_hole in H. destruct H as [_ [_ Hd]]. specialize (Hd (tkey te) (tkey_in_keys te)).
  rewrite prune_eq, prune_list_app. rewrite prune_list_notin by apply Hd. f_equal. f_equal.
  change (te :: l2) with ([te] ++ l2). rewrite prune_list_app. rewrite (prune_list_notin _ l2) by apply Hd.
  unfold prune_list. simpl. unfold keep. rewrite key_eqb_refl. reflexivity.
Qed.

Lemma prune_hole C p a l1 te l2 : NoDup (keys_of (plug C (Node p a (l1 ++ te :: l2)))) ->
  prune (tkey te) (plug C (Node p a (l1 ++ te :: l2))) = plug C (Node p a (l1 ++ l2)).
Proof.
  intros H. rewrite prune_plug; [|exact H|].
  - rewrite prune_kid; [reflexivity | eapply nodup_plug_inner; exact H].
  - simpl. rewrite flat_map_app. simpl. apply in_or_app. right. apply in_or_app. left. apply tkey_in_keys.
Qed.

(* every found subtree sits at a hole *)
Lemma find_ctx x t s : find x t = Some s -> exists C, t = plug C s.
Proof.
  revert s. induction t as [k a l IH] using tree_ind'. intros s. rewrite find_eq. keq x k.
  - intros H. inversion H; subst. exists []. reflexivity.
  - intros H. apply find_list_Some in H. destruct H as [l1 [c [l2 [-> Hf]]]].
    rewrite Forall_forall in IH.
    assert (Hc : In c (l1 ++ c :: l2)) by (apply in_or_app; right; left; reflexivity).
    destruct (IH c Hc s Hf) as [C ->].
    exists (C ++ [(k, a, l1, l2)]). rewrite plug_app. reflexivity.
Qed.

Lemma parent_of_spec e t p : parent_of e t = Some p ->
  exists a l, find p t = Some (Node p a l) /\ exists c, In c l /\ tkey c = e.
Proof.
  unfold parent_of. generalize (keys_of t) as fuel. induction fuel as [|y r IH]; [discriminate|].
  destruct (find y t) as [[k a l]|] eqn:F; [|exact IH].
  destruct (existsb (fun c => key_eqb e (tkey c)) l) eqn:Ex; [|exact IH].
  intros H. inversion H; subst y. pose proof (find_tkey _ _ _ F) as Hk. simpl in Hk. subst k.
  exists a, l. split; [exact F|]. apply existsb_exists in Ex. destruct Ex as [c [Hc Ec]].
  exists c. split; [exact Hc|]. apply key_eqb_eq in Ec. congruence.
Qed.

Lemma child_ctx t e te p : NoDup (keys_of t) -> find e t = Some te -> parent_of e t = Some p ->
  exists C a l1 l2, t = plug C (Node p a (l1 ++ te :: l2)) /\ tkey te = e.
Proof.
  intros Hn Hf Hp. apply parent_of_spec in Hp. destruct Hp as [a [l [Hfp [c [Hc Hk]]]]].
  apply find_ctx in Hfp. destruct Hfp as [C ->]. apply in_split in Hc. destruct Hc as [l1 [l2 ->]].
  exists C, a, l1, l2. split; [|eapply find_tkey; exact Hf].
  change (plug C (Node p a (l1 ++ c :: l2))) with (plug ((p, a, l1, l2) :: C) c) in *.
  rewrite find_plug in Hf; [|exact Hn | subst e; apply tkey_in_keys].
  subst e. rewrite find_self in Hf. inversion Hf; subst. reflexivity.
Qed.

(* the parent of a found entity is not the entity's own root: [e] is not the tree's root key *)
Lemma plug_kid_not_root C p a l1 te l2 :
  NoDup (keys_of (plug C (Node p a (l1 ++ te :: l2)))) ->
  tkey te <> tkey (plug C (Node p a (l1 ++ te :: l2))).
Proof.
  intros H E. pose proof (tkey_plug_in C (Node p a (l1 ++ te :: l2))) as Hin. rewrite <- E in Hin.
  apply keys_plug_nodup in H. destruct H as [H1 [H2 H3]].
  apply nodup_hole in H1 as Hh. destruct Hh as [_ [Hk _]].
  destruct Hin as [Hin|Hin].
  - simpl in Hin. apply Hk. rewrite Hin. apply tkey_in_keys.
  - apply (H3 (tkey te)); [|exact Hin]. rewrite keys_of_eq, flat_map_app. simpl. right. apply in_or_app. right.
    apply in_or_app. left. apply tkey_in_keys.
Qed.

(* ---------------- height (fuel for the loader) ---------------- *)
Fixpoint height (t : tree) : nat :=
  let 'Node _ _ l := t in S (list_max (map height l)).

Lemma height_le_keys t : height t <= length (keys_of t).
Proof.
  induction t as [k a l IH] using tree_ind'. simpl. apply le_n_S.
  induction IH as [|c r Hc Hr IHr]; simpl; [lia|]. rewrite app_length. lia.
Qed.

Lemma height_kid k a l c : In c l -> height c < height (Node k a l).
Proof.
  intros H. simpl. apply le_n_S.
  induction l as [|d r IH]; [destruct H|]. simpl. destruct H as [->|H]; [lia | specialize (IH H); lia].
Qed.

(* ---------------- the parent of an entity; memory effect of a completed removal ---------------- *)
Definition kd_attrs (e : key) (a : attrs) : attrs :=
  match fst e with KD => with_pgs a (scrub e (apgs a)) | _ => a end.

Lemma kd_scrub_attrs e a : kd_scrub e (apgs a) = apgs (kd_attrs e a).
Proof. unfold kd_scrub, kd_attrs. destruct (fst e); reflexivity. Qed.

Lemma find_hole_row x t k a l : find x t = Some (Node k a l) -> In (k, a, map tkey l) (rows t).
Proof.
  intros H. apply find_ctx in H. destruct H as [C ->]. apply rows_plug_in. left. rewrite rows_eq. left. reflexivity.
Qed.

Lemma parent_of_some e t p a l c : In p (keys_of t) -> find p t = Some (Node p a l) -> In c l -> tkey c = e ->
  parent_of e t <> None.
Proof.
  intros Hp Hf Hc Hk. subst e. unfold parent_of. revert Hp. generalize (keys_of t) as fuel.
  induction fuel as [|y r IH]; intros Hp; [destruct Hp|].
  destruct (find y t) as [[k0 a0 l0]|] eqn:F.
  - destruct (existsb (fun c0 => key_eqb (tkey c) (tkey c0)) l0) eqn:Ex; [discriminate|].
    destruct Hp as [->|Hp]; [|apply IH; exact Hp].
    exfalso. rewrite Hf in F. inversion F; subst.
    assert (Ht : existsb (fun c0 => key_eqb (tkey c) (tkey c0)) l0 = true).
    { apply existsb_exists. exists c. split; [exact Hc | apply key_eqb_refl]. }
    congruence.
  - destruct Hp as [->|Hp]; [congruence | apply IH; exact Hp].
Qed.

Lemma parent_of_plug C p a l1 te l2 : NoDup (keys_of (plug C (Node p a (l1 ++ te :: l2)))) ->
  parent_of (tkey te) (plug C (Node p a (l1 ++ te :: l2))) = Some p.
Proof.
  intros H.
  assert (Hfp : find p (plug C (Node p a (l1 ++ te :: l2))) = Some (Node p a (l1 ++ te :: l2))).
  { rewrite find_plug; [apply (find_self (Node p a (l1 ++ te :: l2))) | exact H | left; reflexivity]. }
  pose proof (proj1 (keys_plug_nodup _ _) H) as [N1 [N2 N3]].
  pose proof (nodup_hole _ _ _ _ _ N1) as [Hte [Hpte Hd]].
  destruct (parent_of (tkey te) (plug C (Node p a (l1 ++ te :: l2)))) as [p'|] eqn:E.
  - f_equal. apply parent_of_spec in E. destruct E as [a' [l' [Hf [c [Hc Hk]]]]].
    pose proof (find_hole_row _ _ _ _ _ Hf) as Hr.
    change (plug C (Node p a (l1 ++ te :: l2))) with (plug ((p, a, l1, l2) :: C) te) in Hr.
    apply rows_plug_in in Hr.
    assert (Hx : In (tkey te) (rkids (p', a', map tkey l'))).
    { unfold rkids. simpl. rewrite <- Hk. apply in_map. exact Hc. }
    destruct Hr as [Hr|Hr].
    + exfalso. pose proof (rows_kids_strict te _ _ Hr Hx) as Hs.
      destruct te as [k0 a0 l0]. simpl in Hs. rewrite keys_of_eq in Hte. inversion Hte. contradiction.
    + simpl in Hr. destruct Hr as [Hr|Hr]; [inversion Hr; reflexivity|]. exfalso.
      rewrite !in_app_iff in Hr. destruct Hr as [Hr|[Hr|Hr]].
      * apply (proj1 (Hd (tkey te) (tkey_in_keys te))). eapply rows_list_kids; eassumption.
      * apply (proj2 (Hd (tkey te) (tkey_in_keys te))). eapply rows_list_kids; eassumption.
      * destruct (ctx_rows_kids _ _ _ _ Hr Hx) as [Ep|Hin].
        -- apply Hpte. rewrite <- Ep. apply tkey_in_keys.
        -- apply (N3 (tkey te)); [|exact Hin]. rewrite keys_of_eq, flat_map_app. simpl. right. apply in_or_app. right.
           apply in_or_app. left. apply tkey_in_keys.
  - exfalso. eapply parent_of_some; [| exact Hfp | | reflexivity | exact E].
    + apply keys_plug_in. left. left. reflexivity.
    + apply in_or_app. right. left. reflexivity.
Qed.

Lemma nodup_plug_attrs C p a a' L : NoDup (keys_of (plug C (Node p a L))) -> NoDup (keys_of (plug C (Node p a' L))).
Proof. intros H. apply keys_plug_nodup in H. apply keys_plug_nodup. exact H. Qed.

Lemma forget_hole C p a l1 te l2 : NoDup (keys_of (plug C (Node p a (l1 ++ te :: l2)))) ->
  forget (tkey te) (plug C (Node p a (l1 ++ te :: l2))) = plug C (Node p (kd_attrs (tkey te) a) (l1 ++ l2)).
Proof.
  intros H. unfold forget. rewrite parent_of_plug by exact H. unfold kd_attrs. destruct (fst (tkey te)).
  - apply prune_hole. exact H.
  - apply prune_hole. exact H.
  - rewrite upd_hole by exact H. simpl. apply prune_hole. eapply nodup_plug_attrs. exact H.
Qed.
