(* Proofs about Model/ConcatAttrs.v (property C04, attribute / API layer). *)
From GV Require Import Prelude.Base Model.Concat Model.ConcatAttrs Proofs.ConcatProofs.

(* ------------------------------------------------------------------ every API helper acts on the store through lrun *)
Definition lop_oid (op : lop) : nat := match op with Put _ o _ _ => o | Del _ o _ => o end.

(* s' is reached from s by update_array_attribute calls that all carry Object ID h; the object id list is untouched *)
Definition via (h : nat) (s s' : astate) : Prop :=
  exists lops, Forall (fun op => lop_oid op = h) lops /\ lrun lops (st s) = Ok (st s') /\ objids s' = objids s.

Lemma lrun_app a b s : lrun (a ++ b) s = match lrun a s with Ok s1 => lrun b s1 | Err e => Err e end.
Proof.
  revert s; induction a as [|op a IH]; intros s; simpl; [reflexivity|].
  destruct (lstep s op); [apply IH | reflexivity].
Qed.

Lemma via_refl h s s' : st s' = st s -> objids s' = objids s -> via h s s'.
Proof. intros H1 H2. exists []. simpl. rewrite H1. auto. Qed.

Lemma via_trans h s1 s2 s3 : via h s1 s2 -> via h s2 s3 -> via h s1 s3.
Proof.
  intros (l1 & F1 & R1 & O1) (l2 & F2 & R2 & O2). exists (l1 ++ l2). repeat split.
  - apply Forall_app; auto.
  - rewrite lrun_app, R1. exact R2.
  - congruence.
Qed.

Lemma via_lput h s op s' : lput s op = Ok s' -> lop_oid op = h -> via h s s'.
Proof.
  unfold lput. intros H Ho. destruct (lstep (st s) op) as [x|e] eqn:E; [|discriminate].
  inversion H; subst. exists [op]. simpl. rewrite E. auto.
Qed.

Ltac via_step :=
  match goal with
  | |- via _ ?s ?s => apply via_refl; reflexivity
  | H : lput ?s ?op = Ok ?s' |- via _ ?s ?s' => apply (via_lput _ s op s' H); reflexivity
  | |- via _ (with_recs ?s _) _ => eapply via_trans; [apply (via_refl _ (with_recs s _) s); reflexivity |]
  | |- via _ _ (with_recs ?s _) => eapply via_trans; [| apply (via_refl _ s (with_recs s _)); reflexivity]
  end.

Lemma via_with_recs_l h s x s' : via h (with_recs s x) s' -> via h s s'.
Proof. intros H. eapply via_trans; [apply (via_refl h s (with_recs s x)); reflexivity | exact H]. Qed.

Lemma via_with_recs_r h s x s' : via h s s' -> via h s (with_recs s' x).
Proof. intros H. eapply via_trans; [exact H | apply (via_refl h s' (with_recs s' x)); reflexivity]. Qed.

Lemma via_new_pg s h pgname pgid s' : new_pg s h pgname pgid = Ok s' -> via h s s'.
Proof. unfold new_pg. intros H. apply via_with_recs_l with (x := recs s ++ [mkrec pgid KPG pgname [] []]). eapply via_lput; [exact H | reflexivity]. Qed.

Lemma via_create_data s h pg d name vs s' : create_data s h pg d name vs = Ok s' -> via h s s'.
Proof.
  unfold create_data. intros H.
  match type of H with match lput ?a ?b with _ => _ end = _ => destruct (lput a b) as [s1|e] eqn:E1; [|discriminate] end.
  eapply via_trans; [| eapply via_lput; [exact H | reflexivity]].
  eapply via_with_recs_l. eapply via_lput; [exact E1 | reflexivity].
Qed.

Lemma via_remove_pg_entity s h pg s' : remove_pg_entity s h pg = Ok s' -> via h s s'.
Proof.
  unfold remove_pg_entity. intros H.
  match type of H with match lput ?a ?b with _ => _ end = _ => destruct (lput a b) as [s1|e] eqn:E1; [|discriminate] end.
  inversion H; subst. apply via_with_recs_r. eapply via_lput; [exact E1 | reflexivity].
Qed.

Lemma via_rm_data_simple s h d s' : rm_data_simple s h d = Ok s' -> via h s s'.
Proof.
  unfold rm_data_simple. intros H.
  destruct (find_rec d (recs s)) as [rd|]; [|discriminate].
  destruct (lput s (Del (a_name rd) h d)) as [s1|e] eqn:E1; [|discriminate].
  assert (V1 : via h s s1) by (eapply via_lput; [exact E1 | reflexivity]).
  match type of H with match ?x with _ => _ end = _ => destruct x as [s3|e] eqn:E3; [|discriminate] end.
  assert (V3 : via h s1 s3).
  { destruct (pg_of_data s1 h d) as [pg|].
    - destruct (find_rec pg (recs s1)) as [rp|]; [|discriminate].
      destruct (remove_first d (a_members rp)) eqn:Em.
      + apply via_with_recs_l with (x := upd_rec pg (set_members []) (recs s1)). eapply via_remove_pg_entity. exact E3.
      + apply via_with_recs_l with (x := upd_rec pg (set_members (n :: l)) (recs s1)). eapply via_lput; [exact E3 | reflexivity].
    - inversion E3; subst. apply via_refl; reflexivity. }
  destruct (has_key (a_name rd) (keys_of s3 h)); [|discriminate].
  inversion H; subst. apply via_with_recs_r. eapply via_trans; eassumption.
Qed.

Lemma via_rm_data s h d s' : rm_data s h d = Ok s' -> via h s s'.
Proof.
  unfold rm_data. intros H.
  destruct (rm_data_simple s h d) as [s1|e] eqn:E1; [|discriminate].
  pose proof (via_rm_data_simple _ _ _ _ E1) as V1.
  destruct (pg_of_data s h d) as [pg|]; [|inversion H; subst; exact V1].
  destruct (find_rec pg (recs s1)) as [rp|]; [|inversion H; subst; exact V1].
  destruct (a_members rp) as [|x [|y l]]; try (inversion H; subst; exact V1).
  destruct (depth_of s1 pg) as [dd|]; [|inversion H; subst; exact V1].
  eapply via_trans; [exact V1 | eapply via_rm_data_simple; exact H].
Qed.

Lemma via_rm_datas h ds : forall s s', rm_datas s h ds = Ok s' -> via h s s'.
Proof.
  induction ds as [|d r IH]; intros s s' H; simpl in H.
  - inversion H; subst. apply via_refl; reflexivity.
  - destruct (find_rec d (recs s)); [|apply IH; exact H].
    destruct (rm_data s h d) as [s1|e] eqn:E1; [|discriminate].
    eapply via_trans; [eapply via_rm_data; exact E1 | apply IH; exact H].
Qed.

Lemma via_rm_pg s h pg s' : rm_pg s h pg = Ok s' -> via h s s'.
Proof.
  unfold rm_pg. intros H.
  destruct (find_rec pg (recs s)) as [rp|]; [|discriminate].
  destruct (rm_datas s h (a_members rp)) as [s1|e] eqn:E1; [|discriminate].
  match type of H with match lput ?a ?b with _ => _ end = _ => destruct (lput a b) as [s2|e] eqn:E2; [|discriminate] end.
  inversion H; subst. apply via_with_recs_r.
  eapply via_trans; [eapply via_rm_datas; exact E1 | eapply via_lput; [exact E2 | reflexivity]].
Qed.

Lemma via_rm_pgs h pgs : forall s s', rm_pgs s h pgs = Ok s' -> via h s s'.
Proof.
  induction pgs as [|pg r IH]; intros s s' H; simpl in H.
  - inversion H; subst. apply via_refl; reflexivity.
  - destruct (find_rec pg (recs s)); [|apply IH; exact H].
    destruct (rm_pg s h pg) as [s1|e] eqn:E1; [|discriminate].
    eapply via_trans; [eapply via_rm_pg; exact E1 | apply IH; exact H].
Qed.

(* ------------------------------------------------------------------ what one API step does to the store *)
Definition outcome (a : ares) : option astate :=
  match a with AOk s | ASoft _ s => Some s | AHard _ => None end.

Definition op_hole (op : aop) : option nat :=
  match op with
  | AddHole h _ | SetSurveys h _ | AddData h _ _ _ _ _ _ _ | AddPG h _ _ | SetValues h _ _ | Rename h _ _
  | RemoveData h _ _ | RemovePG h _ _ | RemoveHole h _ | AddObjData h _ _ _ | SaveHole h | RemoveViaGroup h _ | SetText h _ _ => Some h
  | Reopen => None
  end.

Lemma soft_or_hard_out s r s' : outcome (soft_or_hard s r) = Some s' -> r = Ok s'.
Proof. destruct r; simpl; intros H; inversion H; reflexivity. Qed.

Lemma memb_In x l : memb x l = true -> In x l.
Proof.
  unfold memb. intros H. apply existsb_exists in H as [y [Hy E]]. apply Nat.eqb_eq in E. subst. exact Hy.
Qed.

Lemma live_hole_In s h : live_hole s h = true -> In h (objids s).
Proof. unfold live_hole. intros H. apply andb_true_iff in H as [H _]. apply memb_In. exact H. Qed.

(* every operation except AddHole / RemoveHole / Reopen: the hole is live and the store moves by calls carrying its id *)
Lemma step_via s op s' h :
  outcome (api_step s op) = Some s' -> op_hole op = Some h ->
  (forall v, op <> RemoveHole h v) -> (forall sv, op <> AddHole h sv) ->
  In h (objids s) /\ via h s s'.
Proof.
  intros Ho Hh Hnr Hna.
  destruct op; simpl in Hh; inversion Hh; subst; simpl in Ho;
    try (exfalso; eapply Hna; reflexivity); try (exfalso; eapply Hnr; reflexivity).
  - (* SetSurveys *)
    destruct (live_hole s h) eqn:L; simpl in Ho; [|discriminate]. split; [apply live_hole_In; exact L|].
    apply soft_or_hard_out in Ho.
    destruct (lput s (Put L_SURV h 0 surv)) as [s2|e] eqn:E; [|discriminate].
    eapply via_trans; eapply via_lput; eauto.
  - (* AddData *)
    destruct (live_hole s h) eqn:L; simpl in Ho; [|discriminate]. split; [apply live_hole_In; exact L|].
    destruct (Nat.ltb name 100); [discriminate|].
    destruct (has_key name (keys_of s h)); [inversion Ho; subst; apply via_refl; reflexivity|].
    destruct depth as [dv|];
      destruct (match pg_by_name s h pgname with
                | Some pg => match depth_of s pg with Some _ => true | None => false end
                | None => false end) eqn:Ene; try discriminate.
    + destruct (Nat.ltb (length dv) (length vals)); [inversion Ho; subst; apply via_refl; reflexivity|].
      destruct (negb (fresh s depid && fresh s did && negb (Nat.eqb depid did))); [discriminate|].
      match type of Ho with outcome (match ?r1 with _ => _ end) = _ => destruct r1 as [[s1 pg]|e] eqn:E1; [|discriminate] end.
      assert (V1 : via h s s1).
      { destruct (pg_by_name s h pgname) as [pg0|].
        - inversion E1; subst. apply via_refl; reflexivity.
        - destruct (fresh s pgid && negb (Nat.eqb pgid depid) && negb (Nat.eqb pgid did)); [|discriminate].
          destruct (new_pg s h pgname pgid) as [s1'|e] eqn:En; [|discriminate]. inversion E1; subst.
          eapply via_new_pg. exact En. }
      match type of Ho with outcome (if ?c then _ else _) = _ => destruct c; [discriminate|] end.
      match type of Ho with outcome (match ?c with _ => _ end) = _ => destruct c as [s2|e] eqn:E2; [|discriminate] end.
      apply soft_or_hard_out in Ho.
      eapply via_trans; [exact V1|]. eapply via_trans; eapply via_create_data; eauto.
    + destruct (pg_by_name s h pgname) as [pg0|]; [|discriminate].
      destruct (depth_vals s h pg0) as [dv|]; [|discriminate].
      destruct (Nat.ltb (length dv) (length vals)); [inversion Ho; subst; apply via_refl; reflexivity|].
      destruct (negb (fresh s did)); [discriminate|].
      apply soft_or_hard_out in Ho. eapply via_create_data. exact Ho.
    + inversion Ho; subst. apply via_refl; reflexivity.
  - (* AddPG *)
    destruct (live_hole s h) eqn:L; simpl in Ho; [|discriminate]. split; [apply live_hole_In; exact L|].
    destruct (pg_by_name s h pgname); [inversion Ho; subst; apply via_refl; reflexivity|].
    destruct (fresh s pgid); [|discriminate]. apply soft_or_hard_out in Ho. eapply via_new_pg. exact Ho.
  - (* SetValues *)
    destruct (live_hole s h) eqn:L; simpl in Ho; [|discriminate]. split; [apply live_hole_In; exact L|].
    destruct (owns s h d); simpl in Ho; [|discriminate].
    destruct (find_rec d (recs s)) as [rd|]; [|discriminate].
    match type of Ho with outcome (match ?c with _ => _ end) = _ => destruct c as [[n|]|]; try discriminate end.
    + destruct (Nat.ltb n (length vals)); [inversion Ho; subst; apply via_refl; reflexivity|].
      apply soft_or_hard_out in Ho. eapply via_lput; [exact Ho | reflexivity].
    + apply soft_or_hard_out in Ho. eapply via_lput; [exact Ho | reflexivity].
  - (* Rename *)
    destruct (live_hole s h) eqn:L; simpl in Ho; [|discriminate]. split; [apply live_hole_In; exact L|].
    destruct (negb (owns s h d) || Nat.ltb newname 100); [discriminate|].
    destruct (find_rec d (recs s)); [|discriminate]. inversion Ho; subst. apply via_refl; reflexivity.
  - (* RemoveData *)
    destruct (live_hole s h) eqn:L; simpl in Ho; [|discriminate]. split; [apply live_hole_In; exact L|].
    destruct (owns s h d); simpl in Ho; [|discriminate].
    destruct (rm_data s h d) as [s1|e] eqn:E; [|discriminate]. inversion Ho; subst. eapply via_rm_data. exact E.
  - (* RemovePG *)
    destruct (live_hole s h) eqn:L; simpl in Ho; [|discriminate]. split; [apply live_hole_In; exact L|].
    destruct (memb pg (pgs_of s h)); simpl in Ho; [|discriminate].
    apply soft_or_hard_out in Ho. eapply via_rm_pg. exact Ho.
  - (* AddObjData *)
    destruct (live_hole s h) eqn:L; simpl in Ho; [|discriminate]. split; [apply live_hole_In; exact L|].
    destruct (Nat.ltb name 100); [discriminate|].
    destruct (has_key name (keys_of s h)); [inversion Ho; subst; apply via_refl; reflexivity|].
    destruct (negb (fresh s did)); [discriminate|]. apply soft_or_hard_out in Ho.
    eapply via_with_recs_l. eapply via_lput; [exact Ho | reflexivity].
  - (* SaveHole *)
    destruct (live_hole s h) eqn:L; simpl in Ho; [|discriminate]. split; [apply live_hole_In; exact L|].
    apply soft_or_hard_out in Ho.
    match type of Ho with match lput s ?b with _ => _ end = _ => destruct (lput s b) as [s2|e] eqn:E; [|discriminate] end.
    eapply via_trans; [eapply via_lput; [exact E | destruct (sfetch (st s) L_SURV h 0); reflexivity] | eapply via_lput; [exact Ho | reflexivity]].
  - (* RemoveViaGroup *)
    destruct (live_hole s h) eqn:L; simpl in Ho; [|discriminate]. split; [apply live_hole_In; exact L|].
    destruct (negb (owns s h d)); [discriminate|]. inversion Ho; subst. apply via_refl; reflexivity.
  - (* SetText *)
    destruct (live_hole s h) eqn:L; simpl in Ho; [|discriminate]. split; [apply live_hole_In; exact L|].
    destruct (negb (owns s h d)); [discriminate|].
    destruct (find_rec d (recs s)) as [rd|]; [|discriminate].
    match type of Ho with outcome (if ?c then _ else _) = _ => destruct c end; [inversion Ho; subst; apply via_refl; reflexivity|].
    apply soft_or_hard_out in Ho. eapply via_lput; [exact Ho | reflexivity].
Qed.

(* AddHole: the hole joins the object ids, then calls carrying its id *)
Lemma step_add_hole s h sv s' :
  outcome (api_step s (AddHole h sv)) = Some s' ->
  exists s1, objids s1 = (if memb h (objids s) then objids s else objids s ++ [h]) /\ st s1 = st s /\ via h s1 s'.
Proof.
  simpl. destruct (negb (fresh s h)); [discriminate|]. intros Ho. apply soft_or_hard_out in Ho.
  match type of Ho with match lput ?a ?b with _ => _ end = _ => destruct (lput a b) as [s2|e] eqn:E; [|discriminate];
    exists a end.
  repeat split. eapply via_trans; eapply via_lput; eauto. destruct sv; reflexivity.
Qed.

(* RemoveHole: calls carrying its id, then the hole leaves the object ids *)
Lemma step_remove_hole s h v s' :
  outcome (api_step s (RemoveHole h v)) = Some s' ->
  exists s2 s5, via h s s2
    /\ (exists s3 s4, lput s2 (Del L_SURV h 0) = Ok s3 /\ lput s3 (Del L_TRACE h 0) = Ok s4 /\ lput s4 (Del L_PG h 0) = Ok s5)
    /\ st s' = st s5 /\ objids s' = remove_first h (objids s5).
Proof.
  simpl. destruct (negb (live_hole s h)); [discriminate|].
  destruct (rm_pgs s h (pgs_of s h)) as [s1|e] eqn:E1; [|discriminate].
  match goal with |- outcome (match ?c with _ => _ end) = _ -> _ => destruct c as [s2|e] eqn:E2; [|discriminate] end.
  destruct (lput s2 (Del L_SURV h 0)) as [s3|e] eqn:E3; [|discriminate].
  destruct (lput s3 (Del L_TRACE h 0)) as [s4|e] eqn:E4; [|discriminate].
  destruct (lput s4 (Del L_PG h 0)) as [s5|e] eqn:E5; [|discriminate].
  intros Ho. inversion Ho; subst. exists s2, s5. split; [|split; [|split; reflexivity]].
  - eapply via_trans; [eapply via_rm_pgs; exact E1 | eapply via_rm_datas; exact E2].
  - exists s3, s4. auto.
Qed.

Lemma step_reopen s s' : outcome (api_step s Reopen) = Some s' -> st s' = st s /\ objids s' = objids s.
Proof. simpl. intros H. inversion H; subst. split; reflexivity. Qed.

(* ------------------------------------------------------------------ every reachable store is tiled *)
Definition steps_to (s s' : astate) : Prop := exists lops, lrun lops (st s) = Ok (st s').

Lemma via_steps h s s' : via h s s' -> steps_to s s'.
Proof. intros (l & _ & R & _). exists l. exact R. Qed.

Lemma steps_trans s1 s2 s3 : steps_to s1 s2 -> steps_to s2 s3 -> steps_to s1 s3.
Proof. intros (l1 & R1) (l2 & R2). exists (l1 ++ l2). rewrite lrun_app, R1. exact R2. Qed.

Lemma steps_same s s' : st s' = st s -> steps_to s s'.
Proof. intros H. exists []. simpl. rewrite H. reflexivity. Qed.

Lemma op_cases (op : aop) :
  (exists h sv, op = AddHole h sv) \/ (exists h v, op = RemoveHole h v) \/ op = Reopen
  \/ (exists h, op_hole op = Some h /\ (forall v, op <> RemoveHole h v) /\ (forall sv, op <> AddHole h sv)).
Proof.
  destruct op; try (right; right; right; eexists; split; [reflexivity | split; intros; discriminate]).
  - left. eauto.
  - right. left. eauto.
  - right. right. left. reflexivity.
Qed.

Lemma step_steps s op s' : outcome (api_step s op) = Some s' -> steps_to s s'.
Proof.
  intros Ho. destruct (op_cases op) as [(h & sv & ->) | [(h & v & ->) | [-> | (h & Hh & Hnr & Hna)]]].
  - destruct (step_add_hole _ _ _ _ Ho) as (s1 & _ & Hst & V). eapply steps_trans; [apply steps_same; exact Hst | eapply via_steps; exact V].
  - destruct (step_remove_hole _ _ _ _ Ho) as (s2 & s5 & V & (s3 & s4 & E3 & E4 & E5) & Hst & _).
    eapply steps_trans; [eapply via_steps; exact V|].
    eapply steps_trans; [eapply via_steps; eapply via_lput; [exact E3 | reflexivity]|].
    eapply steps_trans; [eapply via_steps; eapply via_lput; [exact E4 | reflexivity]|].
    eapply steps_trans; [eapply via_steps; eapply via_lput; [exact E5 | reflexivity]|].
    apply steps_same. exact Hst.
  - apply steps_same. apply (step_reopen _ _ Ho).
  - eapply via_steps. eapply (step_via s op s' h Ho Hh Hnr Hna).
Qed.

Lemma steps_tiled s s' : steps_to s s' -> AllTiled (st s) -> AllTiled (st s').
Proof. intros (l & R) HA. destruct (lrun_tiled l (st s) HA) as (x & Hx & HT). rewrite R in Hx. inversion Hx; subst. exact HT. Qed.

Definition out_tiled (a : ares) : Prop := match outcome a with Some s => AllTiled (st s) | None => True end.

Lemma arun_tiled ops : forall s, AllTiled (st s) -> Forall out_tiled (arun s ops).
Proof.
  induction ops as [|op r IH]; intros s HA; simpl; [constructor|].
  assert (Hstep : forall s', outcome (api_step s op) = Some s' -> AllTiled (st s')).
  { intros s' Ho. eapply steps_tiled; [eapply step_steps; exact Ho | exact HA]. }
  constructor.
  - unfold out_tiled. destruct (outcome (api_step s op)) eqn:E; [apply Hstep; reflexivity | exact I].
  - destruct (api_step s op) as [s'|e s'|e]; [apply IH; apply Hstep; reflexivity | apply IH; apply Hstep; reflexivity | constructor].
Qed.

Lemma api_tiled ops : Forall out_tiled (arun init ops).
Proof. apply arun_tiled. exact alltiled_nil. Qed.

(* ------------------------------------------------------------------ whose rows are in the tables *)
Definition oids_ok (P : nat -> Prop) (s : store) : Prop :=
  forall lab t r, sget lab s = Some t -> In r (rows t) -> P (oid r).

Lemma map_res_shift_in s n l : forall rs, map_res (shift s n) l = Ok rs ->
  forall r', In r' rs -> exists r, In r l /\ oid r = oid r' /\ did r = did r'.
Proof.
  induction l as [|x l IH]; intros rs H r' Hin; simpl in H.
  - inversion H; subst. contradiction.
  - destruct (shift s n x) as [y|e] eqn:Ex; [|discriminate].
    destruct (map_res (shift s n) l) as [ys|e] eqn:El; [|discriminate].
    inversion H; subst. destruct Hin as [<- | Hin].
    + exists x. split; [left; reflexivity|]. unfold shift in Ex.
      destruct (Nat.ltb s (start x)); [destruct (Nat.leb n (start x)); [|discriminate]|]; inversion Ex; subst; auto.
    + destruct (IH ys eq_refl r' Hin) as (r & Hr & Ho). exists r. split; [right; exact Hr | exact Ho].
Qed.

Lemma remove_nth_In {A} i : forall (l : list A) x, In x (remove_nth i l) -> In x l.
Proof.
  induction i as [|i IH]; intros [|y l] x H; simpl in H; try contradiction.
  - right. exact H.
  - destruct H as [<- | H]; [left; reflexivity | right; apply IH; exact H].
Qed.

Lemma delete_rows_from t i t' : delete_index_data t i = Ok t' ->
  forall r', In r' (rows t') -> exists r, In r (rows t) /\ oid r = oid r' /\ did r = did r'.
Proof.
  unfold delete_index_data. intros H r' Hin.
  destruct (nth_error (rows t) i) as [r0|]; [|discriminate].
  destruct (Nat.ltb 0 (size r0) && Nat.ltb (length (data t)) (start r0 + size r0)); [discriminate|].
  destruct (map_res (shift (start r0) (size r0)) (rows t)) as [rs|e] eqn:E; [|discriminate].
  inversion H; subst. simpl in Hin. apply remove_nth_In in Hin. eapply map_res_shift_in; eassumption.
Qed.

Lemma update_array_oids (P : nat -> Prop) ot w o d vals ot' :
  update_array ot w o d vals = Ok ot' ->
  (forall t r, ot = Some t -> In r (rows t) -> P (oid r)) -> (vals <> None -> P o) ->
  forall t' r', ot' = Some t' -> In r' (rows t') -> P (oid r').
Proof.
  unfold update_array, fetch_start_index. intros H Hold Hnew t' r' Ht' Hin.
  assert (Hmid : forall om stt, (match ot with
                                  | None => Ok (None, 0)
                                  | Some t => match fetch_index t w with
                                              | Some i => match delete_index_data t i with
                                                          | Err e => Err e
                                                          | Ok t1 => Ok (Some t1, length (data t1))
                                                          end
                                              | None => Ok (Some t, sum_sizes (rows t))
                                              end
                                  end) = Ok (om, stt) ->
                   forall tm r, om = Some tm -> In r (rows tm) -> P (oid r)).
  { intros om stt Hm tm r Hom Hr. subst om. destruct ot as [t|]; [|inversion Hm].
    destruct (fetch_index t w) as [i|].
    - destruct (delete_index_data t i) as [t1|e] eqn:Ed; [|discriminate].
      assert (t1 = tm) by congruence. subst t1.
      destruct (delete_rows_from _ _ _ Ed r Hr) as (r0 & Hr0 & Ho & _). rewrite <- Ho. eapply Hold; [reflexivity | exact Hr0].
    - assert (t = tm) by congruence. subst t. eapply Hold; [reflexivity | exact Hr]. }
  match type of H with match ?x with _ => _ end = _ => destruct x as [[om stt]|e] eqn:Em; [|discriminate] end.
  specialize (Hmid om stt eq_refl).
  destruct vals as [vs|].
  - assert (Ht : t' = match om with
                      | None => mktab [mkrow stt (length vs) o d] vs
                      | Some tm => mktab (rows tm ++ [mkrow stt (length vs) o d]) (data tm ++ vs)
                      end) by congruence.
    subst t'. destruct om as [tm|]; simpl in Hin.
    + apply in_app_or in Hin as [Hin | [<- | []]]; [eapply Hmid; [reflexivity | exact Hin] | simpl; apply Hnew; discriminate].
    + destruct Hin as [<- | []]. simpl. apply Hnew. discriminate.
  - assert (Ht : om = Some t') by congruence. eapply Hmid; eassumption.
Qed.

Lemma lstep_oids (P : nat -> Prop) s op s' : oids_ok P s -> P (lop_oid op) -> lstep s op = Ok s' -> oids_ok P s'.
Proof.
  intros HO HP H. destruct op as [lab o d vs | lab o d]; simpl in H, HP.
  - destruct (update_array (sget lab s) (key_of lab o d) o (did_of lab d) (Some vs)) as [[t|]|e] eqn:E; try discriminate.
    + inversion H; subst. intros l t' r Hg Hin. destruct (Nat.eq_dec l lab) as [-> | Hne].
      * rewrite sget_sset_same in Hg. inversion Hg; subst.
        eapply (update_array_oids P _ _ _ _ _ _ E); [| intros _; exact HP | reflexivity | exact Hin].
        intros t0 r0 Ht0 Hr0. eapply HO; eassumption.
      * rewrite sget_sset_other in Hg by exact Hne. eapply HO; eassumption.
    + inversion H; subst. exact HO.
  - destruct (update_array (sget lab s) (key_of lab o d) o (did_of lab d) None) as [[t|]|e] eqn:E; try discriminate.
    + inversion H; subst. intros l t' r Hg Hin. destruct (Nat.eq_dec l lab) as [-> | Hne].
      * rewrite sget_sset_same in Hg. inversion Hg; subst.
        eapply (update_array_oids P _ _ _ _ _ _ E); [| intros Hc; exfalso; apply Hc; reflexivity | reflexivity | exact Hin].
        intros t0 r0 Ht0 Hr0. eapply HO; eassumption.
      * rewrite sget_sset_other in Hg by exact Hne. eapply HO; eassumption.
    + inversion H; subst. exact HO.
Qed.

Lemma lrun_oids (P : nat -> Prop) ops : forall s s', oids_ok P s -> Forall (fun op => P (lop_oid op)) ops -> lrun ops s = Ok s' -> oids_ok P s'.
Proof.
  induction ops as [|op r IH]; intros s s' HO HF H; simpl in H.
  - inversion H; subst. exact HO.
  - inversion HF; subst. destruct (lstep s op) as [s1|e] eqn:E; [|discriminate].
    eapply IH; [eapply lstep_oids; eassumption | assumption | exact H].
Qed.

Definition rows_live (s : astate) : Prop := oids_ok (fun o => In o (objids s)) (st s).

Lemma via_rows_live h s s' : via h s s' -> In h (objids s) -> rows_live s -> rows_live s'.
Proof.
  intros (l & F & R & O) Hh HJ. unfold rows_live. rewrite O.
  eapply lrun_oids; [exact HJ | | exact R].
  eapply Forall_impl; [| exact F]. simpl. intros op ->. exact Hh.
Qed.

Definition is_remove_hole (op : aop) : bool := match op with RemoveHole _ _ => true | _ => false end.

Lemma step_rows_live s op s' :
  is_remove_hole op = false -> outcome (api_step s op) = Some s' -> rows_live s -> rows_live s'.
Proof.
  intros Hnr Ho HJ. destruct (op_cases op) as [(h & sv & ->) | [(h & v & ->) | [-> | (h & Hh & Hn1 & Hn2)]]].
  - destruct (step_add_hole _ _ _ _ Ho) as (s1 & Hobj & Hst & V).
    assert (Hsub : forall o, In o (objids s) -> In o (objids s1)).
    { intros o Hin. rewrite Hobj. destruct (memb h (objids s)); [exact Hin | apply in_or_app; left; exact Hin]. }
    apply (via_rows_live h s1 s' V).
    + rewrite Hobj. destruct (memb h (objids s)) eqn:M; [apply memb_In; exact M | apply in_or_app; right; left; reflexivity].
    + unfold rows_live. rewrite Hst. intros lab t r Hg Hin. apply Hsub. eapply HJ; eassumption.
  - discriminate.
  - destruct (step_reopen _ _ Ho) as [Hst Hobj]. unfold rows_live. rewrite Hst, Hobj. exact HJ.
  - destruct (step_via s op s' h Ho Hh Hn1 Hn2) as [Hin V]. eapply via_rows_live; eassumption.
Qed.

Fixpoint last_state (s : astate) (l : list ares) : option astate :=
  match l with
  | [] => Some s
  | a :: r => match outcome a with Some s' => last_state s' r | None => None end
  end.

(* the state reached by a run that did not crash *)
Definition reaches (ops : list aop) (s : astate) : Prop :=
  length (arun init ops) = length ops /\ last_state init (arun init ops) = Some s.

Lemma run_rows_live ops : forall s0 s,
  forallb (fun op => negb (is_remove_hole op)) ops = true -> rows_live s0 ->
  length (arun s0 ops) = length ops -> last_state s0 (arun s0 ops) = Some s -> rows_live s.
Proof.
  induction ops as [|op r IH]; intros s0 s Hq HJ Hlen Hlast; simpl in *.
  - inversion Hlast; subst. exact HJ.
  - apply andb_true_iff in Hq as [Hq1 Hq2]. apply negb_true_iff in Hq1.
    destruct (api_step s0 op) as [s1|e s1|e] eqn:E; simpl in *.
    + eapply (IH s1); [exact Hq2 | | lia | exact Hlast].
      eapply step_rows_live; [exact Hq1 | rewrite E; reflexivity | exact HJ].
    + eapply (IH s1); [exact Hq2 | | lia | exact Hlast].
      eapply step_rows_live; [exact Hq1 | rewrite E; reflexivity | exact HJ].
    + discriminate.
Qed.

Lemma rows_live_init : rows_live init.
Proof. intros lab t r H. discriminate. Qed.

(* ------------------------------------------------------------------ removing a hole clears its own rows *)
Lemma enc_rows_In c : forall s r, In r (enc_rows s c) -> exists e, In e c /\ oid r = fst (fst e) /\ did r = snd (fst e).
Proof.
  induction c as [|[[o d] vs] c IH]; intros s r H; simpl in H; [contradiction|].
  destruct H as [<- | H].
  - exists (o, d, vs). simpl. auto.
  - destruct (IH _ _ H) as (e & He & Ho). exists e. split; [right; exact He | exact Ho].
Qed.

Lemma del_clears s lab o d s' :
  AllTiled s -> by_obj lab = true -> lstep s (Del lab o d) = Ok s' ->
  forall t r, sget lab s' = Some t -> In r (rows t) -> oid r <> o.
Proof.
  intros HA Hb H t r Hg Hin. rewrite (lstep_del lab o d s HA) in H. inversion H; subst; clear H.
  destruct (sget lab s) as [t0|] eqn:E.
  - rewrite sget_sset_same in Hg. inversion Hg; subst. simpl in Hin.
    destruct (enc_rows_In _ _ _ Hin) as (e & He & Ho & _).
    apply filter_In in He as [_ Hq]. unfold key_of in Hq. rewrite Hb in Hq. simpl in Hq.
    rewrite Ho. apply negb_true_iff in Hq. apply Nat.eqb_neq in Hq. exact Hq.
  - rewrite E in Hg. discriminate.
Qed.

Lemma del_other_label s lab o d s' lab' : AllTiled s -> lab' <> lab -> lstep s (Del lab o d) = Ok s' -> sget lab' s' = sget lab' s.
Proof.
  intros HA Hne H. rewrite (lstep_del lab o d s HA) in H. inversion H; subst.
  destruct (sget lab s); [apply sget_sset_other; exact Hne | reflexivity].
Qed.

Lemma lput_lstep s op s' : lput s op = Ok s' -> lstep (st s) op = Ok (st s').
Proof. unfold lput. destruct (lstep (st s) op); intros H; inversion H; subst; reflexivity. Qed.

Lemma L_surv_pg : L_SURV <> L_PG. Proof. unfold L_SURV, L_PG. lia. Qed.
Lemma L_surv_trace : L_SURV <> L_TRACE. Proof. unfold L_SURV, L_TRACE. lia. Qed.
Lemma L_trace_pg : L_TRACE <> L_PG. Proof. unfold L_TRACE, L_PG. lia. Qed.

Lemma remove_hole_clears s h v s' :
  AllTiled (st s) -> outcome (api_step s (RemoveHole h v)) = Some s' ->
  forall lab, lab < 3 -> forall t r, sget lab (st s') = Some t -> In r (rows t) -> oid r <> h.
Proof.
  intros HA Ho lab Hlab t r Hg Hin.
  destruct (step_remove_hole _ _ _ _ Ho) as (s2 & s5 & V & (s3 & s4 & E3 & E4 & E5) & Hst & _).
  apply lput_lstep in E3. apply lput_lstep in E4. apply lput_lstep in E5.
  assert (A2 : AllTiled (st s2)) by (eapply steps_tiled; [eapply via_steps; exact V | exact HA]).
  assert (A3 : AllTiled (st s3)) by (destruct (lstep_tiled (st s2) (Del L_SURV h 0) A2) as (x & Hx & HT); rewrite E3 in Hx; inversion Hx; subst; exact HT).
  assert (A4 : AllTiled (st s4)) by (destruct (lstep_tiled (st s3) (Del L_TRACE h 0) A3) as (x & Hx & HT); rewrite E4 in Hx; inversion Hx; subst; exact HT).
  rewrite Hst in Hg.
  assert (Hc : lab = L_SURV \/ lab = L_TRACE \/ lab = L_PG) by (unfold L_SURV, L_TRACE, L_PG; lia).
  destruct Hc as [-> | [-> | ->]].
  - rewrite (del_other_label _ _ _ _ _ L_SURV A4 L_surv_pg E5) in Hg.
    rewrite (del_other_label _ _ _ _ _ L_SURV A3 L_surv_trace E4) in Hg.
    eapply (del_clears (st s2) L_SURV h 0 (st s3) A2 eq_refl E3); eassumption.
  - rewrite (del_other_label _ _ _ _ _ L_TRACE A4 L_trace_pg E5) in Hg.
    eapply (del_clears (st s3) L_TRACE h 0 (st s4) A3 eq_refl E4); eassumption.
  - eapply (del_clears (st s4) L_PG h 0 (st s5) A4 eq_refl E5); eassumption.
Qed.

(* ------------------------------------------------------------------ at most one attribute record per identifier *)
Definition ids (l : list arec) : list nat := map a_id l.
Definition uniq (s : astate) : Prop := NoDup (ids (recs s)).

Lemma ids_upd_rec id f l : (forall r, a_id (f r) = a_id r) -> ids (upd_rec id f l) = ids l.
Proof.
  intros Hf. induction l as [|r l IH]; simpl; [reflexivity|].
  destruct (Nat.eqb (a_id r) id); simpl; [rewrite Hf; reflexivity | rewrite IH; reflexivity].
Qed.

Lemma del_rec_incl id l x : In x (ids (del_rec id l)) -> In x (ids l).
Proof.
  induction l as [|r l IH]; simpl; [auto|].
  destruct (Nat.eqb (a_id r) id); simpl; [auto|]. intros [H | H]; [left; exact H | right; apply IH; exact H].
Qed.

Lemma nodup_del_rec id l : NoDup (ids l) -> NoDup (ids (del_rec id l)).
Proof.
  induction l as [|r l IH]; simpl; intros H; [constructor|].
  inversion H as [|? ? Hn Hr]; subst.
  destruct (Nat.eqb (a_id r) id); simpl; [exact Hr|].
  constructor; [intros Hin; apply Hn; eapply del_rec_incl; exact Hin | apply IH; exact Hr].
Qed.

Lemma find_rec_none id l : find_rec id l = None -> ~ In id (ids l).
Proof.
  induction l as [|r l IH]; simpl; [auto|].
  destruct (Nat.eqb (a_id r) id) eqn:E; [discriminate|].
  intros H [Hin | Hin]; [apply Nat.eqb_neq in E; auto | exact (IH H Hin)].
Qed.

Lemma fresh_not_in s id : fresh s id = true -> ~ In id (ids (recs s)).
Proof.
  unfold fresh. intros H. apply andb_true_iff in H as [_ H].
  destruct (find_rec id (recs s)) eqn:E; [discriminate|]. apply find_rec_none. exact E.
Qed.

Lemma lput_recs s op s' : lput s op = Ok s' -> recs s' = recs s.
Proof. unfold lput. destruct (lstep (st s) op); intros H; inversion H; subst; reflexivity. Qed.

Lemma set_props_id p r : a_id (set_props p r) = a_id r. Proof. reflexivity. Qed.
Lemma set_members_id m r : a_id (set_members m r) = a_id r. Proof. reflexivity. Qed.
Lemma set_name_id n r : a_id (set_name n r) = a_id r. Proof. reflexivity. Qed.

Lemma ids_new_pg s h pgname pgid s' : new_pg s h pgname pgid = Ok s' -> ids (recs s') = ids (recs s) ++ [pgid].
Proof.
  unfold new_pg. intros H. apply lput_recs in H. rewrite H. simpl. unfold ids. rewrite map_app. reflexivity.
Qed.

Lemma ids_create_data s h pg d name vs s' : create_data s h pg d name vs = Ok s' -> ids (recs s') = ids (recs s) ++ [d].
Proof.
  unfold create_data. intros H.
  match type of H with match lput ?a ?b with _ => _ end = _ => destruct (lput a b) as [s1|e] eqn:E1; [|discriminate] end.
  apply lput_recs in H. apply lput_recs in E1. rewrite H, E1. simpl.
  rewrite ids_upd_rec by (intros; apply set_members_id). unfold ids at 1. rewrite map_app. simpl.
  fold (ids (upd_rec h (fun r => set_props (a_props r ++ [(name, d)]) r) (recs s))).
  rewrite ids_upd_rec by (intros; apply set_props_id). reflexivity.
Qed.

Lemma uniq_remove_pg_entity s h pg s' : uniq s -> remove_pg_entity s h pg = Ok s' -> uniq s'.
Proof.
  unfold remove_pg_entity, uniq. intros U H.
  match type of H with match lput ?a ?b with _ => _ end = _ => destruct (lput a b) as [s1|e] eqn:E1; [|discriminate] end.
  inversion H; subst. simpl. apply nodup_del_rec. rewrite (lput_recs _ _ _ E1). exact U.
Qed.

Lemma uniq_rm_data_simple s h d s' : uniq s -> rm_data_simple s h d = Ok s' -> uniq s'.
Proof.
  unfold rm_data_simple. intros U H.
  destruct (find_rec d (recs s)) as [rd|]; [|discriminate].
  destruct (lput s (Del (a_name rd) h d)) as [s1|e] eqn:E1; [|discriminate].
  assert (U1 : uniq s1) by (unfold uniq; rewrite (lput_recs _ _ _ E1); exact U).
  match type of H with match ?x with _ => _ end = _ => destruct x as [s3|e] eqn:E3; [|discriminate] end.
  assert (U3 : uniq s3).
  { destruct (pg_of_data s1 h d) as [pg|]; [|inversion E3; subst; exact U1].
    destruct (find_rec pg (recs s1)) as [rp|]; [|discriminate].
    destruct (remove_first d (a_members rp)).
    - eapply uniq_remove_pg_entity; [|exact E3]. unfold uniq. simpl. rewrite ids_upd_rec by (intros; apply set_members_id). exact U1.
    - unfold uniq. rewrite (lput_recs _ _ _ E3). simpl. rewrite ids_upd_rec by (intros; apply set_members_id). exact U1. }
  destruct (has_key (a_name rd) (keys_of s3 h)); [|discriminate].
  inversion H; subst. unfold uniq. simpl. apply nodup_del_rec. rewrite ids_upd_rec by (intros; apply set_props_id). exact U3.
Qed.

Lemma uniq_rm_data s h d s' : uniq s -> rm_data s h d = Ok s' -> uniq s'.
Proof.
  unfold rm_data. intros U H.
  destruct (rm_data_simple s h d) as [s1|e] eqn:E1; [|discriminate].
  pose proof (uniq_rm_data_simple _ _ _ _ U E1) as U1.
  destruct (pg_of_data s h d) as [pg|]; [|inversion H; subst; exact U1].
  destruct (find_rec pg (recs s1)) as [rp|]; [|inversion H; subst; exact U1].
  destruct (a_members rp) as [|x [|y l]]; try (inversion H; subst; exact U1).
  destruct (depth_of s1 pg) as [dd|]; [|inversion H; subst; exact U1].
  eapply uniq_rm_data_simple; eassumption.
Qed.

Lemma uniq_rm_datas h ds : forall s s', uniq s -> rm_datas s h ds = Ok s' -> uniq s'.
Proof.
  induction ds as [|d r IH]; intros s s' U H; simpl in H.
  - inversion H; subst. exact U.
  - destruct (find_rec d (recs s)); [|eapply IH; eassumption].
    destruct (rm_data s h d) as [s1|e] eqn:E1; [|discriminate].
    eapply IH; [eapply uniq_rm_data; eassumption | exact H].
Qed.

Lemma uniq_rm_pg s h pg s' : uniq s -> rm_pg s h pg = Ok s' -> uniq s'.
Proof.
  unfold rm_pg. intros U H.
  destruct (find_rec pg (recs s)) as [rp|]; [|discriminate].
  destruct (rm_datas s h (a_members rp)) as [s1|e] eqn:E1; [|discriminate].
  match type of H with match lput ?a ?b with _ => _ end = _ => destruct (lput a b) as [s2|e] eqn:E2; [|discriminate] end.
  inversion H; subst. unfold uniq. simpl. apply nodup_del_rec. rewrite (lput_recs _ _ _ E2).
  eapply uniq_rm_datas; eassumption.
Qed.

Lemma uniq_rm_pgs h pgs : forall s s', uniq s -> rm_pgs s h pgs = Ok s' -> uniq s'.
Proof.
  induction pgs as [|pg r IH]; intros s s' U H; simpl in H.
  - inversion H; subst. exact U.
  - destruct (find_rec pg (recs s)); [|eapply IH; eassumption].
    destruct (rm_pg s h pg) as [s1|e] eqn:E1; [|discriminate].
    eapply IH; [eapply uniq_rm_pg; eassumption | exact H].
Qed.

Lemma step_uniq s op s' : uniq s -> outcome (api_step s op) = Some s' -> uniq s'.
Proof.
  intros U Ho. destruct op; simpl in Ho.
  - (* AddHole *)
    destruct (fresh s h) eqn:F; simpl in Ho; [|discriminate]. apply soft_or_hard_out in Ho.
    match type of Ho with match lput ?a ?b with _ => _ end = _ => destruct (lput a b) as [s2|e] eqn:E; [|discriminate] end.
    unfold uniq. rewrite (lput_recs _ _ _ Ho), (lput_recs _ _ _ E). simpl. unfold ids. rewrite map_app. simpl.
    apply NoDup_snoc; [exact U | apply fresh_not_in; exact F].
  - (* SetSurveys *)
    destruct (live_hole s h); simpl in Ho; [|discriminate]. apply soft_or_hard_out in Ho.
    destruct (lput s (Put L_SURV h 0 surv)) as [s2|e] eqn:E; [|discriminate].
    unfold uniq. rewrite (lput_recs _ _ _ Ho), (lput_recs _ _ _ E). exact U.
  - (* AddData *)
    destruct (live_hole s h); simpl in Ho; [|discriminate].
    destruct (Nat.ltb name 100); [discriminate|].
    destruct (has_key name (keys_of s h)); [inversion Ho; subst; exact U|].
    destruct depth as [dv|];
      destruct (match pg_by_name s h pgname with
                | Some pg => match depth_of s pg with Some _ => true | None => false end
                | None => false end) eqn:Ene; try discriminate.
    + destruct (Nat.ltb (length dv) (length vals)); [inversion Ho; subst; exact U|].
      destruct (fresh s depid) eqn:F1; simpl in Ho; [|discriminate].
      destruct (fresh s did) eqn:F2; simpl in Ho; [|discriminate].
      destruct (Nat.eqb depid did) eqn:F3; simpl in Ho; [discriminate|]. apply Nat.eqb_neq in F3.
      match type of Ho with outcome (match ?r1 with _ => _ end) = _ => destruct r1 as [[s1 pg]|e] eqn:E1; [|discriminate] end.
      assert (I1 : NoDup (ids (recs s1)) /\ ~ In depid (ids (recs s1)) /\ ~ In did (ids (recs s1))).
      { destruct (pg_by_name s h pgname) as [pg0|].
        - inversion E1; subst. split; [exact U|]. split; apply fresh_not_in; assumption.
        - destruct (fresh s pgid) eqn:F4; simpl in E1; [|discriminate].
          destruct (Nat.eqb pgid depid) eqn:F5; simpl in E1; [discriminate|].
          destruct (Nat.eqb pgid did) eqn:F6; simpl in E1; [discriminate|].
          apply Nat.eqb_neq in F5. apply Nat.eqb_neq in F6.
          destruct (new_pg s h pgname pgid) as [s1'|e] eqn:En; [|discriminate]. inversion E1; subst.
          rewrite (ids_new_pg _ _ _ _ _ En). split; [apply NoDup_snoc; [exact U | apply fresh_not_in; exact F4]|].
          split; intros Hin; apply in_app_or in Hin as [Hin | [Hin | []]].
          + exact (fresh_not_in _ _ F1 Hin).
          + congruence.
          + exact (fresh_not_in _ _ F2 Hin).
          + congruence. }
      destruct I1 as (U1 & N1 & N2).
      match type of Ho with outcome (if ?c then _ else _) = _ => destruct c; [discriminate|] end.
      match type of Ho with outcome (match ?c with _ => _ end) = _ => destruct c as [s2|e] eqn:E2; [|discriminate] end.
      apply soft_or_hard_out in Ho.
      unfold uniq. rewrite (ids_create_data _ _ _ _ _ _ _ Ho), (ids_create_data _ _ _ _ _ _ _ E2).
      apply NoDup_snoc; [apply NoDup_snoc; assumption|].
      intros Hin. apply in_app_or in Hin as [Hin | [Hin | []]]; [exact (N2 Hin) | congruence].
    + destruct (pg_by_name s h pgname) as [pg0|]; [|discriminate].
      destruct (depth_vals s h pg0) as [dv|]; [|discriminate].
      destruct (Nat.ltb (length dv) (length vals)); [inversion Ho; subst; exact U|].
      destruct (fresh s did) eqn:F; simpl in Ho; [|discriminate].
      apply soft_or_hard_out in Ho. unfold uniq. rewrite (ids_create_data _ _ _ _ _ _ _ Ho).
      apply NoDup_snoc; [exact U | apply fresh_not_in; exact F].
    + inversion Ho; subst. exact U.
  - (* AddPG *)
    destruct (live_hole s h); simpl in Ho; [|discriminate].
    destruct (pg_by_name s h pgname); [inversion Ho; subst; exact U|].
    destruct (fresh s pgid) eqn:F; [|discriminate]. apply soft_or_hard_out in Ho.
    unfold uniq. rewrite (ids_new_pg _ _ _ _ _ Ho). apply NoDup_snoc; [exact U | apply fresh_not_in; exact F].
  - (* SetValues *)
    destruct (live_hole s h); simpl in Ho; [|discriminate].
    destruct (owns s h d); simpl in Ho; [|discriminate].
    destruct (find_rec d (recs s)) as [rd|]; [|discriminate].
    match type of Ho with outcome (match ?c with _ => _ end) = _ => destruct c as [[n|]|]; try discriminate end.
    + destruct (Nat.ltb n (length vals)); [inversion Ho; subst; exact U|].
      apply soft_or_hard_out in Ho. unfold uniq. rewrite (lput_recs _ _ _ Ho). exact U.
    + apply soft_or_hard_out in Ho. unfold uniq. rewrite (lput_recs _ _ _ Ho). exact U.
  - (* Rename *)
    destruct (live_hole s h); simpl in Ho; [|discriminate].
    destruct (negb (owns s h d) || Nat.ltb newname 100); [discriminate|].
    destruct (find_rec d (recs s)); [|discriminate]. inversion Ho; subst.
    unfold uniq. simpl. rewrite ids_upd_rec by (intros; apply set_name_id). exact U.
  - (* RemoveData *)
    destruct (live_hole s h); simpl in Ho; [|discriminate].
    destruct (owns s h d); simpl in Ho; [|discriminate].
    destruct (rm_data s h d) as [s1|e] eqn:E; [|discriminate]. inversion Ho; subst. eapply uniq_rm_data; eassumption.
  - (* RemovePG *)
    destruct (live_hole s h); simpl in Ho; [|discriminate].
    destruct (memb pg (pgs_of s h)); simpl in Ho; [|discriminate].
    apply soft_or_hard_out in Ho. eapply uniq_rm_pg; eassumption.
  - (* RemoveHole *)
    destruct (live_hole s h); simpl in Ho; [|discriminate].
    destruct (rm_pgs s h (pgs_of s h)) as [s1|e] eqn:E1; [|discriminate].
    match type of Ho with outcome (match ?c with _ => _ end) = _ => destruct c as [s2|e] eqn:E2; [|discriminate] end.
    destruct (lput s2 (Del L_SURV h 0)) as [s3|e] eqn:E3; [|discriminate].
    destruct (lput s3 (Del L_TRACE h 0)) as [s4|e] eqn:E4; [|discriminate].
    destruct (lput s4 (Del L_PG h 0)) as [s5|e] eqn:E5; [|discriminate].
    inversion Ho; subst. unfold uniq. simpl. apply nodup_del_rec.
    rewrite (lput_recs _ _ _ E5), (lput_recs _ _ _ E4), (lput_recs _ _ _ E3).
    eapply uniq_rm_datas; [eapply uniq_rm_pgs; eassumption | exact E2].
  - (* Reopen *)
    inversion Ho; subst. unfold uniq. simpl. unfold ids. rewrite map_map.
    replace (map _ (recs s)) with (map a_id (recs s)); [exact U|].
    apply map_ext. intros r. destruct (a_kind r); reflexivity.
  - (* AddObjData *)
    destruct (live_hole s h); simpl in Ho; [|discriminate].
    destruct (Nat.ltb name 100); [discriminate|].
    destruct (has_key name (keys_of s h)); [inversion Ho; subst; exact U|].
    destruct (fresh s did) eqn:F; simpl in Ho; [|discriminate]. apply soft_or_hard_out in Ho.
    unfold uniq. rewrite (lput_recs _ _ _ Ho). simpl. unfold ids. rewrite map_app. simpl.
    fold (ids (upd_rec h (fun r => set_props (a_props r ++ [(name, did)]) r) (recs s))).
    rewrite ids_upd_rec by (intros; apply set_props_id). apply NoDup_snoc; [exact U | apply fresh_not_in; exact F].
  - (* SaveHole *)
    destruct (live_hole s h); simpl in Ho; [|discriminate]. apply soft_or_hard_out in Ho.
    match type of Ho with match lput s ?b with _ => _ end = _ => destruct (lput s b) as [s2|e] eqn:E; [|discriminate] end.
    unfold uniq. rewrite (lput_recs _ _ _ Ho), (lput_recs _ _ _ E). exact U.
  - (* RemoveViaGroup *)
    destruct (live_hole s h); simpl in Ho; [|discriminate].
    destruct (negb (owns s h d)); [discriminate|]. inversion Ho; subst. exact U.
  - (* SetText *)
    destruct (live_hole s h); simpl in Ho; [|discriminate].
    destruct (negb (owns s h d)); [discriminate|].
    destruct (find_rec d (recs s)) as [rd|]; [|discriminate].
    match type of Ho with outcome (if ?c then _ else _) = _ => destruct c end; [inversion Ho; subst; exact U|].
    apply soft_or_hard_out in Ho. unfold uniq. rewrite (lput_recs _ _ _ Ho). exact U.
Qed.

Lemma run_uniq ops : forall s0 s, uniq s0 -> last_state s0 (arun s0 ops) = Some s -> uniq s.
Proof.
  induction ops as [|op r IH]; intros s0 s U Hlast; simpl in *.
  - inversion Hlast; subst. exact U.
  - destruct (api_step s0 op) as [s1|e s1|e] eqn:E; simpl in *.
    + eapply (IH s1); [eapply step_uniq; [exact U | rewrite E; reflexivity] | exact Hlast].
    + eapply (IH s1); [eapply step_uniq; [exact U | rewrite E; reflexivity] | exact Hlast].
    + discriminate.
Qed.
