(* Proofs about Model/Extent.v (property C13). *)
From GV Require Import Prelude.Base Model.Geometry Model.Extent Proofs.GeometryProofs.

Arguments rank : simpl never.

(* ================================================================== the box test *)
Lemma in_box_2d x y z lx hx ly hy :
  in_box (coords (x, y, z)) [(lx, hx); (ly, hy)] = true <-> (lx <= x <= hx /\ ly <= y <= hy)%Z.
Proof.
  simpl. rewrite !andb_true_iff, !Z.leb_le. intuition.
Qed.

Lemma in_box_3d x y z lx hx ly hy lz hz :
  in_box (coords (x, y, z)) [(lx, hx); (ly, hy); (lz, hz)] = true <-> (lx <= x <= hx /\ ly <= y <= hy /\ lz <= z <= hz)%Z.
Proof.
  simpl. rewrite !andb_true_iff, !Z.leb_le. intuition.
Qed.

Lemma mask_by_extent_length ps e inv : length (mask_by_extent ps e inv) = length ps.
Proof. apply map_length. Qed.

Lemma mask_by_extent_nth ps e inv i :
  nth_error (mask_by_extent ps e inv) i = option_map (qualifies e inv) (nth_error ps i).
Proof. unfold mask_by_extent. apply nth_error_map. Qed.

Lemma qualifies_inverse e p : qualifies e true p = negb (qualifies e false p).
Proof. unfold qualifies. simpl. destruct (in_box (coords p) e); reflexivity. Qed.

(* ================================================================== bounding box *)
Lemma zmin_list_le : forall l x, (zmin_list x l <= x)%Z /\ Forall (fun y => (zmin_list x l <= y)%Z) l.
Proof.
  unfold zmin_list. induction l as [|a r IH]; intros x; simpl; [split; [lia|constructor]|].
  destruct (IH (Z.min x a)) as [H1 H2]. split; [lia|]. constructor; [lia|exact H2].
Qed.

Lemma zmax_list_ge : forall l x, (x <= zmax_list x l)%Z /\ Forall (fun y => (y <= zmax_list x l)%Z) l.
Proof.
  unfold zmax_list. induction l as [|a r IH]; intros x; simpl; [split; [lia|constructor]|].
  destruct (IH (Z.max x a)) as [H1 H2]. split; [lia|]. constructor; [lia|exact H2].
Qed.

(* every vertex lies inside the object's extent *)
Lemma obj_extent_contains ps bb : obj_extent ps = Ok bb -> forall p, In p ps -> in_box (coords p) bb = true.
Proof.
  destruct ps as [|[[x y] z] r]; [discriminate|]. intros H; injection H as <-. intros [[px py] pz] Hin.
  pose proof (zmin_list_le (map (fun p => fst (fst p)) r) x) as [X1 X2].
  pose proof (zmax_list_ge (map (fun p => fst (fst p)) r) x) as [X3 X4].
  pose proof (zmin_list_le (map (fun p => snd (fst p)) r) y) as [Y1 Y2].
  pose proof (zmax_list_ge (map (fun p => snd (fst p)) r) y) as [Y3 Y4].
  pose proof (zmin_list_le (map (fun p => snd p) r) z) as [Z1 Z2].
  pose proof (zmax_list_ge (map (fun p => snd p) r) z) as [Z3 Z4].
  apply in_box_3d. destruct Hin as [E|Hin].
  - injection E as <- <- <-. lia.
  - rewrite Forall_forall in *.
    assert (Ix : In px (map (fun p => fst (fst p)) r)) by (apply in_map_iff; exists (px, py, pz); auto).
    assert (Iy : In py (map (fun p => snd (fst p)) r)) by (apply in_map_iff; exists (px, py, pz); auto).
    assert (Iz : In pz (map (fun p => snd p) r)) by (apply in_map_iff; exists (px, py, pz); auto).
    specialize (X2 _ Ix). specialize (X4 _ Ix). specialize (Y2 _ Iy). specialize (Y4 _ Iy).
    specialize (Z2 _ Iz). specialize (Z4 _ Iz). lia.
Qed.

Lemma obj_extent_valid ps bb : obj_extent ps = Ok bb -> valid_ext bb = true.
Proof.
  destruct ps as [|[[x y] z] r]; [discriminate|]. intros H; injection H as <-.
  pose proof (zmin_list_le (map (fun p => fst (fst p)) r) x) as [X1 _].
  pose proof (zmax_list_ge (map (fun p => fst (fst p)) r) x) as [X3 _].
  pose proof (zmin_list_le (map (fun p => snd (fst p)) r) y) as [Y1 _].
  pose proof (zmax_list_ge (map (fun p => snd (fst p)) r) y) as [Y3 _].
  pose proof (zmin_list_le (map (fun p => snd p) r) z) as [Z1 _].
  pose proof (zmax_list_ge (map (fun p => snd p) r) z) as [Z3 _].
  simpl. rewrite !andb_true_iff, !Z.leb_le. repeat split; lia.
Qed.

(* a box that misses the bounding box contains no vertex: returning None loses nothing *)
Lemma boxes_miss_no_point : forall cs bb e, length cs = length bb ->
  in_box cs bb = true -> boxes_meet bb e = false -> in_box cs e = false.
Proof.
  induction cs as [|c cs IH]; intros [|[la ha] bb] [|[lb hb] e] L Hin Hm; simpl in *; try discriminate.
  apply andb_true_iff in Hin as [Hin1 Hin2]. apply andb_true_iff in Hin1 as [A B].
  apply Z.leb_le in A, B.
  apply andb_false_iff in Hm as [Hm|Hm].
  - apply negb_false_iff, Z.ltb_lt in Hm.
    destruct (lb <=? c)%Z eqn:E1; simpl; [|reflexivity].
    destruct (c <=? hb)%Z eqn:E2; simpl; [|reflexivity].
    apply Z.leb_le in E1, E2. lia.
  - rewrite (IH bb e) by (auto; lia). apply andb_false_r.
Qed.

Lemma obj_extent_length ps bb : obj_extent ps = Ok bb -> length bb = 3.
Proof. destruct ps as [|[[x y] z] r]; [discriminate|]. intros H; injection H as <-. reflexivity. Qed.

(* a box that misses the bounding box contains no vertex *)
Lemma bbox_miss_no_vertex ps bb e p : obj_extent ps = Ok bb -> boxes_meet bb e = false -> In p ps ->
  in_box (coords p) e = false.
Proof.
  intros E B Hin. apply (boxes_miss_no_point (coords p) bb e); auto.
  - rewrite (obj_extent_length _ _ E). destruct p as [[x y] z]. reflexivity.
  - eapply obj_extent_contains; eauto.
Qed.

(* ================================================================== Points.mask_by_extent *)
Lemma located_mask_some locs e inv m : located_mask locs e inv = Ok (Some m) -> m = mask_by_extent locs e inv.
Proof.
  unfold located_mask. destruct (obj_extent locs); [|discriminate].
  destruct (box_intersect a e) as [[|]|]; intros H; try discriminate. injection H as <-. reflexivity.
Qed.

Lemma located_mask_none_iff locs e inv :
  located_mask locs e inv = Ok None <->
  exists bb, obj_extent locs = Ok bb /\ valid_ext e = true /\ boxes_meet bb e = false.
Proof.
  unfold located_mask. split.
  - destruct (obj_extent locs) as [bb|] eqn:E; [|discriminate].
    unfold box_intersect. rewrite (obj_extent_valid _ _ E). simpl.
    destruct (valid_ext e); [|discriminate]. destruct (boxes_meet bb e) eqn:B; [discriminate|].
    intros _. exists bb. auto.
  - intros [bb (E & V & B)]. rewrite E. unfold box_intersect. rewrite (obj_extent_valid _ _ E), V, B. reflexivity.
Qed.

Lemma points_mask_some o e inv m : points_mask o e inv = Ok (Some m) -> m = mask_by_extent (verts o) e inv.
Proof. apply located_mask_some. Qed.

Lemma points_mask_none_iff o e inv :
  points_mask o e inv = Ok None <->
  exists bb, obj_extent (verts o) = Ok bb /\ valid_ext e = true /\ boxes_meet bb e = false.
Proof. apply located_mask_none_iff. Qed.

(* the generic statement: an object whose mask_by_extent is utils.mask_by_extent of its locations (behind the bounding-box
   test) selects exactly the locations inside the closed box (outside it when inverse), one entry per location *)
Lemma located_mask_exact locs e inv m : located_mask locs e inv = Ok (Some m) ->
  length m = length locs /\
  forall i p, nth_error locs i = Some p -> nth_error m i = Some (xorb inv (in_box (coords p) e)).
Proof.
  intros H. apply located_mask_some in H. subst m. split; [apply mask_by_extent_length|].
  intros i p Hp. rewrite mask_by_extent_nth, Hp. reflexivity.
Qed.

(* ================================================================== groups *)
Lemma group_copy_spec {A} (copies : list (option A)) :
  let kept := flat_map (fun c => match c with Some x => [x] | None => [] end) copies in
  (group_copy_from_extent copies = None <-> forall c, In c copies -> c = None) /\
  (forall l, group_copy_from_extent copies = Some l -> l = kept /\ l <> []) /\
  (forall x, In x kept <-> In (Some x) copies).
Proof.
  cbv zeta. unfold group_copy_from_extent. split; [|split].
  - split.
    + destruct (flat_map _ copies) eqn:E; [|discriminate]. intros _ c Hc. destruct c as [x|]; [|reflexivity].
      assert (In x (flat_map (fun c => match c with Some x => [x] | None => [] end) copies)).
      { apply in_flat_map. exists (Some x). split; [exact Hc|left; reflexivity]. }
      rewrite E in H. contradiction.
    + intros H. destruct (flat_map _ copies) as [|x r] eqn:E; [reflexivity|]. exfalso.
      assert (Hin : In x (flat_map (fun c => match c with Some x => [x] | None => [] end) copies)) by (rewrite E; left; reflexivity).
      apply in_flat_map in Hin as [c [Hc Hx]]. rewrite (H c Hc) in Hx. contradiction.
  - intros l. destruct (flat_map _ copies) eqn:E; [discriminate|]. intros H; injection H as <-. split; [reflexivity|discriminate].
  - intros x. rewrite in_flat_map. split.
    + intros [c [Hc Hx]]. destruct c as [y|]; [|contradiction]. destruct Hx as [->|[]]. exact Hc.
    + intros H. exists (Some x). split; [exact H|left; reflexivity].
Qed.

(* ================================================================== unrotated grids: the selection matrix *)
Lemma grid_sel_nth e2 ox oy oz du dv nu nv i j : i < nu -> j < nv ->
  nth_error (grid_sel e2 (grid_centres2 ox oy oz du dv nu nv)) j <> None /\
  forall row, nth_error (grid_sel e2 (grid_centres2 ox oy oz du dv nu nv)) j = Some row ->
    length row = nu /\ nth_error row i = Some (in_box (coords (grid_centre2 ox oy oz du dv i j)) e2).
Proof.
  intros Hi Hj. unfold grid_sel, grid_centres2. rewrite !nth_error_map.
  rewrite (nth_error_nth' (seq 0 nv) 0) by (rewrite seq_length; exact Hj). rewrite seq_nth by exact Hj. simpl.
  split; [discriminate|]. intros row H. injection H as <-. split; [rewrite !map_length, seq_length; reflexivity|].
  rewrite !nth_error_map. rewrite (nth_error_nth' (seq 0 nu) 0) by (rewrite seq_length; exact Hi). rewrite seq_nth by exact Hi.
  reflexivity.
Qed.

(* ================================================================== CellObject.mask_by_extent *)
Lemma and_masks_nth : forall a b i, length a = length b ->
  nth_error (and_masks a b) i = match nth_error a i, nth_error b i with Some x, Some y => Some (x && y) | _, _ => None end.
Proof.
  induction a as [|x a IH]; intros [|y b] [|i] L; simpl in *; try discriminate; try reflexivity.
  apply IH. lia.
Qed.

Lemma and_masks_length : forall a b, length a = length b -> length (and_masks a b) = length a.
Proof. induction a as [|x a IH]; intros [|y b] L; simpl in *; try discriminate; auto. Qed.

Lemma used_by_nth n cs i : i < n -> nth_error (used_by n cs) i = Some (memb i (concat cs)).
Proof.
  intros H. unfold used_by. rewrite nth_error_map.
  rewrite (nth_error_nth' (seq 0 n) 0) by (rewrite seq_length; exact H). rewrite seq_nth by exact H. reflexivity.
Qed.

Lemma used_by_length n cs : length (used_by n cs) = n.
Proof. unfold used_by. rewrite map_length, seq_length. reflexivity. Qed.

(* the final vertex mask of a cell object, when one is returned *)
Definition cell_final_mask (o : obj) (e : extent) (inv : bool) : list bool :=
  let vm := mask_by_extent (verts o) e inv in
  and_masks vm (used_by (length vm) (select (cell_mask vm (cells o)) (cells o))).

Lemma cell_obj_mask_some o e inv m : wf o -> cell_obj_mask o e inv = Ok (Some m) -> m = cell_final_mask o e inv.
Proof.
  intros (Wc & _ & _). unfold cell_obj_mask, cell_final_mask.
  destruct (obj_extent (verts o)); [|discriminate].
  destruct (box_intersect a e) as [[|]|]; try discriminate.
  rewrite cells_kept_wf by (rewrite mask_by_extent_length; exact Wc).
  destruct (existsb _ _); intros H; [|discriminate]. injection H as <-. reflexivity.
Qed.

(* vertex i is selected iff some cell uses it and all vertices of that cell qualify *)
Lemma cell_final_mask_true o e inv i : wf o ->
  (nth_error (cell_final_mask o e inv) i = Some true <->
   exists c, In c (cells o) /\ In i c /\ Forall (fun v => option_map (qualifies e inv) (nth_error (verts o) v) = Some true) c).
Proof.
  intros (Wc & _ & _). unfold cell_final_mask.
  set (vm := mask_by_extent (verts o) e inv).
  assert (Lvm : length vm = length (verts o)) by apply mask_by_extent_length.
  rewrite and_masks_nth by (rewrite used_by_length; reflexivity).
  split.
  - destruct (nth_error vm i) as [x|] eqn:Ex; [|discriminate].
    assert (Hi : i < length vm) by (apply nth_error_Some; congruence).
    rewrite used_by_nth by exact Hi. intros H. injection H as H. apply andb_true_iff in H as [Hx Hu].
    apply memb_In in Hu. apply in_concat in Hu as [c [Hc Hic]].
    apply In_nth_error in Hc as [q Hq].
    destruct (select_from _ _ q c (cell_mask_length vm (cells o)) Hq) as [j [H1 [_ H3]]].
    exists c. split; [eapply nth_error_In; eauto|]. split; [exact Hic|].
    apply (cell_mask_true vm (cells o) j c H3) in H1.
    apply Forall_forall. intros v Hv. rewrite Forall_forall in H1. specialize (H1 v Hv).
    unfold vm in H1. rewrite mask_by_extent_nth in H1. exact H1.
  - intros [c (Hc & Hic & Hall)].
    assert (Hall' : Forall (fun v => nth_error vm v = Some true) c).
    { apply Forall_forall. intros v Hv. rewrite Forall_forall in Hall. unfold vm. rewrite mask_by_extent_nth. apply Hall. exact Hv. }
    pose proof Hall' as Hi. rewrite Forall_forall in Hi. specialize (Hi i Hic). rewrite Hi.
    assert (Hlt : i < length vm) by (apply nth_error_Some; congruence).
    rewrite used_by_nth by exact Hlt. f_equal. simpl.
    apply memb_In. apply in_concat. exists c. split; [|exact Hic].
    apply In_nth_error in Hc as [j Hj].
    pose proof (proj2 (cell_mask_true vm (cells o) j c Hj) Hall') as Hm.
    pose proof (select_nth (cell_mask vm (cells o)) (cells o) j (cell_mask_length _ _) Hm) as Hs.
    rewrite Hj in Hs. eapply nth_error_In; eauto.
Qed.

Lemma cell_final_mask_length o e inv : length (cell_final_mask o e inv) = length (verts o).
Proof.
  unfold cell_final_mask. rewrite and_masks_length; [apply mask_by_extent_length|rewrite used_by_length; reflexivity].
Qed.

(* the cells kept by the final mask are exactly the cells all of whose vertices qualify *)
Lemma cell_mask_final o e inv : wf o ->
  cell_mask (cell_final_mask o e inv) (cells o) = cell_mask (mask_by_extent (verts o) e inv) (cells o).
Proof.
  intros W. unfold cell_mask. apply map_ext_in. intros c Hc.
  destruct (forallb (fun v => nth v (mask_by_extent (verts o) e inv) false) c) eqn:E.
  - apply forallb_forall. intros v Hv. apply nth_nth_error_true. apply (cell_final_mask_true o e inv v W).
    exists c. split; [exact Hc|]. split; [exact Hv|].
    apply Forall_forall. intros w Hw. rewrite forallb_forall in E. specialize (E w Hw).
    apply nth_nth_error_true in E. rewrite mask_by_extent_nth in E. exact E.
  - apply not_true_is_false. intros F. rewrite forallb_forall in F.
    assert (forallb (fun v => nth v (mask_by_extent (verts o) e inv) false) c = true); [|congruence].
    apply forallb_forall. intros v Hv. specialize (F v Hv). apply nth_nth_error_true in F.
    apply (cell_final_mask_true o e inv v W) in F as [c' (_ & Hic & Hall)].
    rewrite Forall_forall in Hall. specialize (Hall v Hic). apply nth_nth_error_true.
    rewrite mask_by_extent_nth. exact Hall.
Qed.

Lemma existsb_id_false_iff (l : list bool) : existsb (fun b => b) l = false <-> forall i, nth_error l i <> Some true.
Proof.
  split.
  - intros H i E. assert (existsb (fun b => b) l = true); [|congruence].
    apply existsb_exists. exists true. split; [eapply nth_error_In; eauto|reflexivity].
  - intros H. apply not_true_is_false. intros E. apply existsb_exists in E as [x [Hx Hb]]. subst x.
    apply In_nth_error in Hx as [i Hi]. exact (H i Hi).
Qed.

(* None exactly when the box misses the bounding box or no cell has all its vertices qualifying *)
Lemma cell_obj_mask_none_iff o e inv : wf o ->
  (cell_obj_mask o e inv = Ok None <->
   exists bb, obj_extent (verts o) = Ok bb /\ valid_ext e = true /\
     (boxes_meet bb e = false \/
      forall c, In c (cells o) -> ~ Forall (fun v => option_map (qualifies e inv) (nth_error (verts o) v) = Some true) c \/ c = [])).
Proof.
  intros W. pose proof W as (Wc & _ & _). unfold cell_obj_mask. split.
  - destruct (obj_extent (verts o)) as [bb|] eqn:E; [|discriminate].
    unfold box_intersect. rewrite (obj_extent_valid _ _ E). simpl.
    destruct (valid_ext e); [|discriminate]. destruct (boxes_meet bb e) eqn:B.
    + rewrite cells_kept_wf by (rewrite mask_by_extent_length; exact Wc).
      fold (cell_final_mask o e inv).
      destruct (existsb (fun b => b) (cell_final_mask o e inv)) eqn:X; [discriminate|]. intros _.
      exists bb. split; [reflexivity|]. split; [reflexivity|]. right.
      intros c Hc. destruct c as [|v r]; [right; reflexivity|left]. intros Hall.
      rewrite existsb_id_false_iff in X. apply (X v).
      apply (cell_final_mask_true o e inv v W). exists (v :: r). split; [exact Hc|]. split; [left; reflexivity|exact Hall].
    + intros _. exists bb. auto.
  - intros [bb (E & V & H)]. rewrite E. unfold box_intersect. rewrite (obj_extent_valid _ _ E), V. simpl.
    destruct (boxes_meet bb e) eqn:B; [|reflexivity].
    destruct H as [H|H]; [discriminate|].
    rewrite cells_kept_wf by (rewrite mask_by_extent_length; exact Wc).
    fold (cell_final_mask o e inv).
    destruct (existsb (fun b => b) (cell_final_mask o e inv)) eqn:X; [|reflexivity]. exfalso.
    apply existsb_exists in X as [x [Hx Hb]]. subst x. apply In_nth_error in Hx as [i Hi].
    apply (cell_final_mask_true o e inv i W) in Hi as [c (Hc & Hic & Hall)].
    destruct (H c Hc) as [N|N]; [exact (N Hall)|subst c; contradiction].
Qed.

(* ================================================================== copy_from_extent *)
Lemma obj_mask_length o e inv m : wf o -> obj_mask o e inv = Ok (Some m) -> length m = length (verts o).
Proof.
  intros W. unfold obj_mask. destruct (ok o).
  - intros H. apply points_mask_some in H. subst. apply mask_by_extent_length.
  - intros H. apply (cell_obj_mask_some o e inv m W) in H. subst. apply cell_final_mask_length.
  - intros H. apply (cell_obj_mask_some o e inv m W) in H. subst. apply cell_final_mask_length.
Qed.

(* the extent copy is the C07 selection for the returned mask *)
Lemma copy_from_extent_selection o e inv o' : wf o -> copy_from_extent o e inv = CCopy o' ->
  exists m, obj_mask o e inv = Ok (Some m) /\ selection m (cell_mask m (cells o)) o o'.
Proof.
  intros W. unfold copy_from_extent. destruct (obj_mask o e inv) as [[m|]|] eqn:M; try discriminate.
  destruct (masked_copy repaired o (Some m) None) as [o1|] eqn:C; [|discriminate]. intros H; injection H as <-.
  exists m. split; [reflexivity|].
  apply (masked_copy_done repaired o (Some m) None o1 W) in C; auto using cmask_ok_none.
Qed.

Lemma copy_from_extent_none o e inv : copy_from_extent o e inv = CNone <-> obj_mask o e inv = Ok None.
Proof.
  unfold copy_from_extent. destruct (obj_mask o e inv) as [[m|]|]; split; intros H; try discriminate; try reflexivity.
  destruct (masked_copy repaired o (Some m) None); discriminate.
Qed.

(* the copy never fails once a mask was returned *)
Definition no_text (ks : list kid) : Prop := Forall (fun k => kkind k <> KText) ks.

Lemma not_text_eqb k : k <> KText -> dkind_eqb k KText = false.
Proof. destruct k; try reflexivity. congruence. Qed.

Lemma not_text_empty fl k v : k <> KText -> text_blocked fl k v = false.
Proof. intros H. unfold text_blocked, text_empty. rewrite (not_text_eqb k H). reflexivity. Qed.

Lemma copy_kids_total nv nc ovm ocm : forall ks Nv Nc, no_text ks ->
  kids_len AVertex Nv ks -> kids_len ACell Nc ks ->
  (forall m, ovm = Some m -> length m = Nv /\ nv = count m) ->
  (forall m, ocm = Some m -> length m = Nc /\ nc = count m) ->
  exists ks', copy_kids repaired nv nc ovm ocm ks = Ok ks'.
Proof.
  induction ks as [|k r IH]; intros Nv Nc HT HLv HLc Hv Hc; simpl; [eexists; reflexivity|].
  assert (HLv' : kids_len AVertex Nv r) by (intros k0 v0 Hin; apply HLv; right; exact Hin).
  assert (HLc' : kids_len ACell Nc r) by (intros k0 v0 Hin; apply HLc; right; exact Hin).
  inversion HT as [|? ? HTk HTr]; subst. pose proof (not_text_eqb _ HTk) as NT.
  destruct (IH Nv Nc HTr HLv' HLc' Hv Hc) as [r' Hr]. rewrite Hr.
  assert (D : exists k', data_copy repaired match kassoc k with AVertex => nv | ACell => nc | AObject => 1 end
                           match kassoc k with AVertex => ovm | ACell => ocm | AObject => None end k = Ok k').
  { unfold data_copy. destruct (kvals k) as [v|] eqn:Ev; [|destruct (kassoc k); try destruct ovm; try destruct ocm; eexists; reflexivity].
    destruct (kassoc k) eqn:Ea.
    - destruct ovm as [m|]; [|eexists; reflexivity]. destruct (Hv m eq_refl) as [L N].
      assert (Lv : length v = Nv) by (apply (HLv k v); [left; reflexivity|exact Ea|exact Ev]).
      rewrite L, Lv, Nat.eqb_refl. simpl. rewrite NT, andb_false_r. simpl.
      assert (Hsel : length (if nv <? Nv then select m v else fill_masked (ndv (kkind k)) m v) = nv).
      { destruct (nv <? Nv) eqn:E2; [rewrite select_length; lia|]. apply Nat.ltb_ge in E2.
        pose proof (count_le_length m). rewrite fill_masked_all_true; lia. }
      rewrite format_length_eq by exact Hsel. rewrite (not_text_empty _ _ _ HTk). eexists; reflexivity.
    - destruct ocm as [m|]; [|eexists; reflexivity]. destruct (Hc m eq_refl) as [L N].
      assert (Lv : length v = Nc) by (apply (HLc k v); [left; reflexivity|exact Ea|exact Ev]).
      rewrite L, Lv, Nat.eqb_refl. simpl. rewrite NT, andb_false_r. simpl.
      assert (Hsel : length (if nc <? Nc then select m v else fill_masked (ndv (kkind k)) m v) = nc).
      { destruct (nc <? Nc) eqn:E2; [rewrite select_length; lia|]. apply Nat.ltb_ge in E2.
        pose proof (count_le_length m). rewrite fill_masked_all_true; lia. }
      rewrite format_length_eq by exact Hsel. rewrite (not_text_empty _ _ _ HTk). eexists; reflexivity.
    - eexists; reflexivity. }
  destruct D as [k' Dk]. rewrite Dk. eexists; reflexivity.
Qed.

Lemma copy_from_extent_total o e inv m : wf o -> no_text (kids o) -> obj_mask o e inv = Ok (Some m) ->
  exists o', copy_from_extent o e inv = CCopy o'.
Proof.
  intros W HT M. pose proof W as (Wc & Wk & Wp). pose proof (obj_mask_length o e inv m W M) as L.
  unfold copy_from_extent. rewrite M. unfold masked_copy.
  destruct (ok o) eqn:Ek.
  - rewrite L, Nat.eqb_refl. simpl.
    destruct (Wp eq_refl) as [Wp1 Wp2].
    assert (T : exists ks', copy_kids repaired (length (select m (verts o))) 0 (Some m) (Some m) (kids o) = Ok ks').
    { (* no cell children on Points: the cell mask argument is never used *)
      clear M. pose proof (wf_kids_len_v o W) as HLv. revert HLv Wp2 HT. generalize (kids o).
      induction l as [|k r IH]; intros HLv Hn HT; simpl; [eexists; reflexivity|].
      inversion Hn as [|? ? Hk Hr]; subst. inversion HT as [|? ? HTk HTr]; subst. pose proof (not_text_eqb _ HTk) as NT.
      assert (HLv' : kids_len AVertex (length (verts o)) r) by (intros k0 v0 Hin; apply HLv; right; exact Hin).
      destruct (IH HLv' Hr HTr) as [r' Er]. rewrite Er.
      unfold not_cell in Hk. destruct (kassoc k) eqn:Ea; [|congruence|].
      - unfold data_copy. destruct (kvals k) as [v|] eqn:Ev; [|eexists; reflexivity].
        assert (Lv : length v = length (verts o)) by (apply (HLv k v); [left; reflexivity|exact Ea|exact Ev]).
        rewrite L, Lv, Nat.eqb_refl. simpl. rewrite NT, andb_false_r. simpl. rewrite select_length by exact L.
        assert (Hsel : length (if count m <? length (verts o) then select m v else fill_masked (ndv (kkind k)) m v) = count m).
        { destruct (count m <? length (verts o)) eqn:E2; [rewrite select_length; lia|]. apply Nat.ltb_ge in E2.
          pose proof (count_le_length m). rewrite fill_masked_all_true; lia. }
        rewrite format_length_eq by exact Hsel. rewrite (not_text_empty _ _ _ HTk). eexists; reflexivity.
      - unfold data_copy. destruct (kvals k); eexists; reflexivity. }
    destruct T as [ks' Hk]. rewrite Hk. eexists; reflexivity.
  - rewrite L, Nat.eqb_refl. simpl.
    rewrite cells_kept_wf by (rewrite L; exact Wc). rewrite cell_mask_length, Nat.eqb_refl. simpl.
    destruct (copy_kids_total (length (select m (verts o))) (length (select (cell_mask m (cells o)) (map (map (new_id m)) (cells o))))
                (Some m) (Some (cell_mask m (cells o))) (kids o) (length (verts o)) (length (cells o))) as [ks' Hk].
    + exact HT.
    + apply wf_kids_len_v; exact W.
    + apply wf_kids_len_c; exact W.
    + intros m0 E0; injection E0 as <-. split; [exact L|apply select_length; exact L].
    + intros m0 E0; injection E0 as <-. split; [apply cell_mask_length|]. apply select_length. rewrite map_length. apply cell_mask_length.
    + rewrite Hk. eexists; reflexivity.
  - rewrite L, Nat.eqb_refl. simpl.
    rewrite cells_kept_wf by (rewrite L; exact Wc). rewrite cell_mask_length, Nat.eqb_refl. simpl.
    destruct (copy_kids_total (length (select m (verts o))) (length (select (cell_mask m (cells o)) (map (map (new_id m)) (cells o))))
                (Some m) (Some (cell_mask m (cells o))) (kids o) (length (verts o)) (length (cells o))) as [ks' Hk].
    + exact HT.
    + apply wf_kids_len_v; exact W.
    + apply wf_kids_len_c; exact W.
    + intros m0 E0; injection E0 as <-. split; [exact L|apply select_length; exact L].
    + intros m0 E0; injection E0 as <-. split; [apply cell_mask_length|]. apply select_length. rewrite map_length. apply cell_mask_length.
    + rewrite Hk. eexists; reflexivity.
Qed.

(* in the copy of a cell object every vertex is used by some cell (orphans are dropped) *)
Lemma copy_no_orphans o e inv o' j : wf o -> ok o <> OPoints -> copy_from_extent o e inv = CCopy o' ->
  j < length (verts o') -> exists c', In c' (cells o') /\ In j c'.
Proof.
  intros W Hk H Hj. destruct (copy_from_extent_selection o e inv o' W H) as [m [M S]].
  assert (Em : m = cell_final_mask o e inv).
  { unfold obj_mask in M. destruct (ok o); [congruence| |]; apply (cell_obj_mask_some o e inv m W M). }
  destruct (nth_error (verts o') j) as [x|] eqn:Ex; [|apply nth_error_None in Ex; lia].
  destruct (selection_vertex_from _ _ _ _ _ _ S Ex) as [i (Hi & Hr & _)].
  rewrite Em in Hi. apply (cell_final_mask_true o e inv i W) in Hi as [c (Hc & Hic & Hall)].
  apply In_nth_error in Hc as [q Hq].
  assert (Hcm : nth_error (cell_mask m (cells o)) q = Some true).
  { rewrite Em, (cell_mask_final o e inv W). apply (cell_mask_true _ _ q c Hq).
    apply Forall_forall. intros v Hv. rewrite Forall_forall in Hall. rewrite mask_by_extent_nth. apply Hall. exact Hv. }
  destruct (selection_cell_kept _ _ _ _ q c W S Hcm Hq) as [c' (Hc' & _)].
  destruct S as (_ & _ & _ & _ & _ & Ec & _).
  rewrite Ec in Hc'. rewrite nth_error_map in Hc'.
  destruct (nth_error (select (cell_mask m (cells o)) (cells o)) (rank (cell_mask m (cells o)) q)) as [c0|] eqn:E0; [|discriminate].
  injection Hc' as <-.
  rewrite select_nth in E0 by (auto using cell_mask_length). rewrite Hq in E0. injection E0 as <-.
  exists (map (rank m) c). split.
  - rewrite Ec. apply in_map. apply (nth_error_In _ (rank (cell_mask m (cells o)) q)).
    rewrite select_nth; auto using cell_mask_length.
  - rewrite <- Hr. apply in_map. exact Hic.
Qed.

(* ================================================================== Grid2D index part *)
Lemma any_b_true l : any_b l = true <-> exists i, nth_error l i = Some true.
Proof.
  unfold any_b. rewrite existsb_exists. split.
  - intros [x [Hx Hb]]. subst. apply In_nth_error in Hx. exact Hx.
  - intros [i Hi]. exists true. split; [eapply nth_error_In; eauto|reflexivity].
Qed.

(* argmax is the first True *)
Lemma argmax_first : forall l, any_b l = true ->
  nth_error l (argmax_b l) = Some true /\ forall i, i < argmax_b l -> nth_error l i = Some false.
Proof.
  induction l as [|b r IH]; intros H; [discriminate|]. simpl in *. destruct b; simpl in *.
  - split; [reflexivity|]. intros i Hi. lia.
  - fold (any_b r) in *. rewrite H. destruct (IH H) as [H1 H2]. split; [exact H1|].
    intros [|i] Hi; [reflexivity|]. simpl. apply H2. lia.
Qed.

(* a mask is contiguous when its True entries form one interval *)
Definition contiguous (l : list bool) : Prop :=
  forall i j k, i <= j <= k -> nth_error l i = Some true -> nth_error l k = Some true -> nth_error l j = Some true.

Lemma count_firstn_skipn : forall l n, count l = count (firstn n l) + count (skipn n l).
Proof.
  induction l as [|b r IH]; intros [|n]; simpl; try lia. rewrite (IH n). lia.
Qed.

Lemma count_all_false : forall l, (forall i, i < length l -> nth_error l i = Some false) -> count l = 0.
Proof.
  induction l as [|b r IH]; intros H; [reflexivity|]. simpl.
  pose proof (H 0 ltac:(simpl; lia)) as H0. simpl in H0. injection H0 as ->.
  rewrite IH; [reflexivity|]. intros i Hi. apply (H (S i)). simpl. lia.
Qed.

Lemma count_all_true : forall l, (forall i, i < length l -> nth_error l i = Some true) -> count l = length l.
Proof.
  induction l as [|b r IH]; intros H; [reflexivity|]. simpl.
  pose proof (H 0 ltac:(simpl; lia)) as H0. simpl in H0. injection H0 as ->.
  rewrite IH; [reflexivity|]. intros i Hi. apply (H (S i)). simpl. lia.
Qed.

(* for a contiguous mask the number of True entries is last - first + 1: the count is the width of the bounding interval *)
Lemma contiguous_count l last : contiguous l -> any_b l = true ->
  nth_error l last = Some true -> (forall i, last < i -> nth_error l i <> Some true) ->
  count l = last - argmax_b l + 1.
Proof.
  intros Hc Ha Hl Hafter. destruct (argmax_first l Ha) as [Hf Hbefore].
  set (a := argmax_b l) in *.
  assert (Hal : a <= last).
  { destruct (Nat.le_gt_cases a last); [assumption|]. specialize (Hbefore last H). congruence. }
  assert (Hlen : last < length l) by (apply nth_error_Some; congruence).
  rewrite (count_firstn_skipn l a).
  rewrite (count_all_false (firstn a l)).
  2:{ intros i Hi. rewrite firstn_length in Hi. rewrite nth_error_firstn_lt by lia. apply Hbefore. lia. }
  rewrite (count_firstn_skipn (skipn a l) (last - a + 1)).
  rewrite (count_all_true (firstn (last - a + 1) (skipn a l))).
  2:{ intros i Hi. rewrite firstn_length, skipn_length in Hi. rewrite nth_error_firstn_lt by lia.
      rewrite nth_error_skipn_add. apply (Hc a (a + i) last); [lia|exact Hf|exact Hl]. }
  rewrite (count_all_false (skipn (last - a + 1) (skipn a l))).
  2:{ intros i Hi. rewrite !skipn_length in Hi. rewrite !nth_error_skipn_add.
      destruct (nth_error l (a + (last - a + 1 + i))) as [[|]|] eqn:E; [|reflexivity|].
      - exfalso. apply (Hafter (a + (last - a + 1 + i))); [lia|exact E].
      - apply nth_error_None in E. lia. }
  rewrite firstn_length, skipn_length. lia.
Qed.

(* and without contiguity it is not: columns 0 and 2 selected, column 1 not *)
Definition gap_rows : list (list bool) := [[true; false; true]].

Lemma grid_select_gap :
  exists g, grid_select false 3 gap_rows = Some g /\ sg_u0 g = 0 /\ sg_nu g = 2 /\ nth_error (col_any gap_rows 3) 2 = Some true.
Proof. eexists. split; [vm_compute; reflexivity|]. simpl. auto. Qed.

Lemma any_b_kron : forall v u, any_b (kron v u) = true -> any_b v = true /\ any_b u = true.
Proof.
  unfold any_b, kron. intros v u H. apply existsb_exists in H as [x [Hx Hb]]. subst x.
  apply in_concat in Hx as [l [Hl Hx]]. apply in_map_iff in Hl as [b [<- Hb]].
  apply in_map_iff in Hx as [c [E Hc]]. apply andb_true_iff in E as [-> ->].
  split; apply existsb_exists; exists true; auto.
Qed.

(* the selected rectangle starts at the first selected column / row, and when the selected columns and rows are contiguous
   its size is exactly the bounding rectangle of the selected cells *)
Lemma grid_select_minimal nu sel g lastu lastv :
  grid_select false nu sel = Some g ->
  contiguous (col_any sel nu) -> contiguous (row_any sel) ->
  nth_error (col_any sel nu) lastu = Some true -> (forall i, lastu < i -> nth_error (col_any sel nu) i <> Some true) ->
  nth_error (row_any sel) lastv = Some true -> (forall i, lastv < i -> nth_error (row_any sel) i <> Some true) ->
  nth_error (col_any sel nu) (sg_u0 g) = Some true /\ (forall i, i < sg_u0 g -> nth_error (col_any sel nu) i = Some false) /\
  nth_error (row_any sel) (sg_v0 g) = Some true /\ (forall i, i < sg_v0 g -> nth_error (row_any sel) i = Some false) /\
  sg_nu g = lastu - sg_u0 g + 1 /\ sg_nv g = lastv - sg_v0 g + 1.
Proof.
  unfold grid_select. intros H Cu Cv Lu Au Lv Av.
  destruct (any_b (kron (row_any sel) (col_any sel nu))) eqn:K; [|discriminate].
  apply any_b_kron in K as [Kv Ku]. injection H as <-. simpl.
  destruct (argmax_first _ Ku) as [U1 U2]. destruct (argmax_first _ Kv) as [V1 V2].
  repeat split; auto.
  - apply contiguous_count; auto.
  - apply contiguous_count; auto.
Qed.

(* a block of True entries between False entries is contiguous *)
Lemma nth_error_block a b c i :
  nth_error (repeat false a ++ repeat true b ++ repeat false c) i = Some true <-> a <= i < a + b.
Proof.
  split.
  - intros H. destruct (Nat.lt_ge_cases i a) as [L|L].
    + rewrite nth_error_app1 in H by (rewrite repeat_length; exact L).
      rewrite nth_error_repeat in H by exact L. discriminate.
    + rewrite nth_error_app2 in H by (rewrite repeat_length; exact L). rewrite repeat_length in H.
      destruct (Nat.lt_ge_cases (i - a) b) as [L2|L2]; [lia|].
      rewrite nth_error_app2 in H by (rewrite repeat_length; exact L2). rewrite repeat_length in H.
      destruct (Nat.lt_ge_cases (i - a - b) c) as [L3|L3].
      * rewrite nth_error_repeat in H by exact L3. discriminate.
      * assert (nth_error (repeat false c) (i - a - b) = None) by (apply nth_error_None; rewrite repeat_length; exact L3).
        congruence.
  - intros [H1 H2]. rewrite nth_error_app2 by (rewrite repeat_length; exact H1). rewrite repeat_length.
    rewrite nth_error_app1 by (rewrite repeat_length; lia). apply nth_error_repeat. lia.
Qed.

Lemma contiguous_block a b c : contiguous (repeat false a ++ repeat true b ++ repeat false c).
Proof.
  intros i j k Hijk Hi Hk. apply nth_error_block in Hi, Hk. apply nth_error_block. lia.
Qed.

(* ================================================================== the repaired index computation: spans are filled *)
Lemma any_b_cons b r : any_b (b :: r) = b || any_b r.
Proof. reflexivity. Qed.

Lemma fill_after_length : forall l, length (fill_after l) = length l.
Proof. induction l as [|b r IH]; simpl; [reflexivity|]. rewrite IH. reflexivity. Qed.

Lemma fill_span_length : forall l, length (fill_span l) = length l.
Proof. induction l as [|b r IH]; simpl; [reflexivity|]. destruct b; simpl; rewrite ?IH, ?fill_after_length; reflexivity. Qed.

Lemma fill_after_nth : forall l i, i < length l -> nth_error (fill_after l) i = Some (any_b (skipn i l)).
Proof.
  induction l as [|b r IH]; intros [|i] H; simpl in H; try lia.
  - reflexivity.
  - simpl. apply IH. lia.
Qed.

Lemma any_b_skipn l i : any_b (skipn i l) = true <-> exists b, i <= b /\ nth_error l b = Some true.
Proof.
  rewrite any_b_true. split.
  - intros [k Hk]. rewrite nth_error_skipn_add in Hk. exists (i + k). split; [lia|exact Hk].
  - intros [b [Hb Hn]]. exists (b - i). rewrite nth_error_skipn_add. replace (i + (b - i)) with b by lia. exact Hn.
Qed.

(* an index is selected after filling iff it lies between two selected indices *)
Lemma fill_span_true : forall l i,
  nth_error (fill_span l) i = Some true <->
  exists a b, a <= i <= b /\ nth_error l a = Some true /\ nth_error l b = Some true.
Proof.
  induction l as [|x r IH]; intros i.
  - simpl. split; [destruct i; discriminate|]. intros [a [b (_ & H & _)]]. destruct a; discriminate.
  - destruct x; simpl.
    + destruct i as [|i]; simpl.
      * split; [intros _; exists 0, 0; repeat split; auto|reflexivity].
      * split.
        -- intros H. assert (Hi : i < length r).
           { rewrite <- (fill_after_length r). apply nth_error_Some. congruence. }
           rewrite fill_after_nth in H by exact Hi. injection H as H. apply any_b_skipn in H as [b [Hb Hn]].
           exists 0, (S b). repeat split; auto; lia.
        -- intros [a [b (Hab & Ha & Hb)]]. destruct b as [|b]; [lia|]. simpl in Hb.
           assert (Hi : i < length r) by (assert (b < length r) by (apply nth_error_Some; congruence); lia).
           rewrite fill_after_nth by exact Hi. f_equal. apply any_b_skipn. exists b. split; [lia|exact Hb].
    + destruct i as [|i]; simpl.
      * split; [discriminate|]. intros [a [b (Hab & Ha & _)]]. assert (a = 0) by lia. subst. discriminate.
      * rewrite IH. split.
        -- intros [a [b (Hab & Ha & Hb)]]. exists (S a), (S b). repeat split; auto; lia.
        -- intros [a [b (Hab & Ha & Hb)]]. destruct a as [|a]; [discriminate|]. destruct b as [|b]; [lia|].
           exists a, b. repeat split; auto; lia.
Qed.

Lemma fill_span_contiguous l : contiguous (fill_span l).
Proof.
  intros i j k Hijk Hi Hk. apply fill_span_true in Hi as [a [b (H1 & H2 & H3)]]. apply fill_span_true in Hk as [a' [b' (H1' & H2' & H3')]].
  apply fill_span_true. exists a, b'. repeat split; auto; lia.
Qed.

Lemma fill_span_keeps l i : nth_error l i = Some true -> nth_error (fill_span l) i = Some true.
Proof. intros H. apply fill_span_true. exists i, i. auto. Qed.

Lemma fill_span_any l : any_b (fill_span l) = any_b l.
Proof.
  destruct (any_b l) eqn:E.
  - apply any_b_true in E as [i Hi]. apply any_b_true. exists i. apply fill_span_keeps. exact Hi.
  - apply not_true_is_false. intros F. apply any_b_true in F as [i Hi]. apply fill_span_true in Hi as [a [b (_ & Ha & _)]].
    assert (any_b l = true) by (apply any_b_true; exists a; exact Ha). congruence.
Qed.

Lemma argmax_unique : forall l a, nth_error l a = Some true -> (forall i, i < a -> nth_error l i = Some false) -> argmax_b l = a.
Proof.
  induction l as [|b r IH]; intros [|a] Ha Hb; simpl in *; try discriminate.
  - injection Ha as ->. reflexivity.
  - pose proof (Hb 0 ltac:(lia)) as H0. simpl in H0. injection H0 as ->.
    assert (any_b r = true) by (apply any_b_true; exists a; exact Ha). fold (any_b r). rewrite H. f_equal.
    apply IH; [exact Ha|]. intros i Hi. apply (Hb (S i)). lia.
Qed.

Lemma fill_span_argmax l : any_b l = true -> argmax_b (fill_span l) = argmax_b l.
Proof.
  intros H. destruct (argmax_first l H) as [H1 H2]. apply argmax_unique; [apply fill_span_keeps; exact H1|].
  intros i Hi. destruct (nth_error (fill_span l) i) as [[|]|] eqn:E; [|reflexivity|].
  - exfalso. apply fill_span_true in E as [a [b (Hab & Ha & _)]]. assert (a < argmax_b l) by lia.
    specialize (H2 a H0). congruence.
  - exfalso. apply nth_error_None in E. rewrite fill_span_length in E.
    assert (argmax_b l < length l) by (apply nth_error_Some; congruence). lia.
Qed.

(* after filling, the number of selected indices is exactly last - first + 1, with first / last those of the raw selection *)
Lemma fill_span_count l last : any_b l = true ->
  nth_error l last = Some true -> (forall i, last < i -> nth_error l i <> Some true) ->
  count (fill_span l) = last - argmax_b l + 1.
Proof.
  intros Ha Hl Hafter. rewrite <- (fill_span_argmax l Ha).
  apply contiguous_count.
  - apply fill_span_contiguous.
  - rewrite fill_span_any. exact Ha.
  - apply fill_span_keeps. exact Hl.
  - intros i Hi E. apply fill_span_true in E as [a [b (Hab & _ & Hb)]]. apply (Hafter b); [lia|exact Hb].
Qed.

Lemma grid_select_minimal_repaired nu sel g lastu lastv :
  grid_select true nu sel = Some g ->
  nth_error (col_any sel nu) lastu = Some true -> (forall i, lastu < i -> nth_error (col_any sel nu) i <> Some true) ->
  nth_error (row_any sel) lastv = Some true -> (forall i, lastv < i -> nth_error (row_any sel) i <> Some true) ->
  nth_error (col_any sel nu) (sg_u0 g) = Some true /\ (forall i, i < sg_u0 g -> nth_error (col_any sel nu) i = Some false) /\
  nth_error (row_any sel) (sg_v0 g) = Some true /\ (forall i, i < sg_v0 g -> nth_error (row_any sel) i = Some false) /\
  sg_nu g = lastu - sg_u0 g + 1 /\ sg_nv g = lastv - sg_v0 g + 1.
Proof.
  unfold grid_select. intros H Lu Au Lv Av.
  destruct (any_b (kron (fill_span (row_any sel)) (fill_span (col_any sel nu)))) eqn:K; [|discriminate].
  apply any_b_kron in K as [Kv Ku]. rewrite fill_span_any in Kv, Ku. injection H as <-. simpl.
  rewrite !fill_span_argmax by assumption.
  destruct (argmax_first _ Ku) as [U1 U2]. destruct (argmax_first _ Kv) as [V1 V2].
  repeat split; auto; apply fill_span_count; auto.
Qed.

(* every selected cell lies in a selected column and a selected row (so the filled rectangle covers the selection) *)
Lemma col_any_nth : forall rows nu i, i < nu ->
  nth_error (col_any rows nu) i = Some (existsb (fun r => nth i r false) rows).
Proof.
  induction rows as [|r rs IH]; intros nu i H; simpl.
  - apply nth_error_repeat. exact H.
  - rewrite nth_error_map. rewrite (nth_error_nth' (seq 0 nu) 0) by (rewrite seq_length; exact H).
    rewrite seq_nth by exact H. simpl. f_equal. f_equal.
    rewrite (nth_error_nth _ _ false (IH nu i H)). reflexivity.
Qed.

Lemma selected_cell_covered rows nu j row i : i < nu -> nth_error rows j = Some row -> nth i row false = true ->
  nth_error (col_any rows nu) i = Some true /\ nth_error (row_any rows) j = Some true.
Proof.
  intros Hi Hj Hc. split.
  - rewrite col_any_nth by exact Hi. f_equal. apply existsb_exists. exists row. split; [eapply nth_error_In; eauto|exact Hc].
  - unfold row_any. rewrite nth_error_map, Hj. simpl. f_equal. apply any_b_true.
    destruct (nth_error row i) as [b|] eqn:E.
    + exists i. rewrite (nth_error_nth _ _ false E) in Hc. congruence.
    + rewrite (nth_overflow row false) in Hc by (apply nth_error_None; exact E). discriminate.
Qed.

(* ================================================================== values of the copied sub-grid (repaired index computation) *)
Lemma select_app {A} : forall m1 m2 (l1 l2 : list A), length m1 = length l1 ->
  select (m1 ++ m2) (l1 ++ l2) = select m1 l1 ++ select m2 l2.
Proof.
  induction m1 as [|b m1 IH]; intros m2 [|x l1] l2 L; simpl in *; try discriminate; [reflexivity|].
  destruct b; simpl; rewrite IH by lia; reflexivity.
Qed.

Lemma select_all_false {A} : forall m (l : list A), (forall b, In b m -> b = false) -> select m l = [].
Proof.
  induction m as [|b m IH]; intros [|x l] H; simpl; try reflexivity.
  rewrite (H b) by (left; reflexivity). apply IH. intros c Hc. apply H. right. exact Hc.
Qed.

Lemma kron_cons b vm um : kron (b :: vm) um = map (fun c => b && c) um ++ kron vm um.
Proof. reflexivity. Qed.

Lemma select_kron_rows {A} um : forall vm (vrows : list (list A)),
  length vm = length vrows -> Forall (fun r => length r = length um) vrows ->
  select (kron vm um) (concat vrows) = concat (map (select um) (select vm vrows)).
Proof.
  induction vm as [|b vm IH]; intros [|r rows] L HF; simpl in L; try discriminate; [reflexivity|].
  inversion HF; subst. rewrite kron_cons. simpl concat.
  rewrite select_app by (rewrite map_length; auto). rewrite IH by (auto; lia).
  destruct b; simpl.
  - f_equal. f_equal. rewrite <- (map_id um) at 2. apply map_ext. reflexivity.
  - rewrite select_all_false; [reflexivity|]. intros c Hc. apply in_map_iff in Hc as [d [<- _]]. reflexivity.
Qed.

Lemma select_block {A} a b c : forall (l : list A), length l = a + b + c ->
  select (repeat false a ++ repeat true b ++ repeat false c) l = firstn b (skipn a l).
Proof.
  induction a as [|a IH]; intros l L.
  - simpl. revert l L. induction b as [|b IHb]; intros l L.
    + simpl. apply select_all_false. intros x Hx. apply repeat_spec in Hx. exact Hx.
    + destruct l as [|x l]; [simpl in L; lia|]. simpl. f_equal. apply IHb. simpl in L. lia.
  - destruct l as [|x l]; [simpl in L; lia|]. simpl. apply IH. simpl in L. lia.
Qed.

Lemma firstn_skipn_seq {A} (d : A) : forall n a (l : list A), a + n <= length l ->
  firstn n (skipn a l) = map (fun k => nth (a + k) l d) (seq 0 n).
Proof.
  intros n a l H. apply nth_error_ext. intros i.
  destruct (Nat.lt_ge_cases i n) as [Hi|Hi].
  - rewrite nth_error_firstn_lt by exact Hi. rewrite nth_error_skipn_add.
    rewrite nth_error_map. rewrite (nth_error_nth' (seq 0 n) 0) by (rewrite seq_length; exact Hi).
    rewrite seq_nth by exact Hi. simpl. apply nth_error_nth'. lia.
  - transitivity (@None A); [|symmetry]; apply nth_error_None.
    + rewrite firstn_length, skipn_length. lia.
    + rewrite map_length, seq_length. exact Hi.
Qed.

Lemma fill_masked_map {A} nd (F : A -> bool) (G : A -> option Z) : forall l,
  fill_masked nd (map F l) (map G l) = map (fun a => if F a then G a else nd) l.
Proof. induction l as [|x l IH]; simpl; [reflexivity|]. rewrite IH. reflexivity. Qed.

Lemma fill_masked_app nd : forall m1 m2 v1 v2, length m1 = length v1 ->
  fill_masked nd (m1 ++ m2) (v1 ++ v2) = fill_masked nd m1 v1 ++ fill_masked nd m2 v2.
Proof.
  induction m1 as [|b m1 IH]; intros m2 [|x v1] v2 L; simpl in *; try discriminate; [reflexivity|].
  rewrite IH by lia. reflexivity.
Qed.

Lemma fill_masked_rows {A B} nd (F : B -> A -> bool) (G : B -> A -> option Z) (inner : list A) : forall outer,
  fill_masked nd (concat (map (fun b => map (F b) inner) outer)) (concat (map (fun b => map (G b) inner) outer)) =
  concat (map (fun b => map (fun a => if F b a then G b a else nd) inner) outer).
Proof.
  induction outer as [|b r IH]; simpl; [reflexivity|].
  rewrite fill_masked_app by (rewrite !map_length; reflexivity). rewrite IH, fill_masked_map. reflexivity.
Qed.

Lemma last_true_exists : forall l, any_b l = true ->
  exists last, nth_error l last = Some true /\ forall i, last < i -> nth_error l i <> Some true.
Proof.
  induction l as [|b r IH]; intros H; [discriminate|]. rewrite any_b_cons in H.
  destruct (any_b r) eqn:E.
  - destruct (IH eq_refl) as [last [H1 H2]]. exists (S last). split; [exact H1|].
    intros [|i] Hi; [lia|]. simpl. apply H2. lia.
  - rewrite orb_false_r in H. subst b. exists 0. split; [reflexivity|].
    intros [|i] Hi; [lia|]. simpl. intros F. assert (any_b r = true) by (apply any_b_true; exists i; exact F). congruence.
Qed.

(* a filled span is a block: False up to the first selected index, True for count entries, False after *)
Lemma fill_span_block l : any_b l = true ->
  exists c, fill_span l = repeat false (argmax_b l) ++ repeat true (count (fill_span l)) ++ repeat false c /\
            argmax_b l + count (fill_span l) + c = length l.
Proof.
  intros Ha. destruct (last_true_exists l Ha) as [last [Hl Hafter]].
  pose proof (fill_span_count l last Ha Hl Hafter) as Hc.
  destruct (argmax_first l Ha) as [Hf Hbefore].
  assert (Hal : argmax_b l <= last).
  { destruct (Nat.le_gt_cases (argmax_b l) last); [assumption|]. specialize (Hbefore last H). congruence. }
  assert (Hlen : last < length l) by (apply nth_error_Some; congruence).
  exists (length l - argmax_b l - count (fill_span l)). split; [|lia].
  apply nth_error_ext. intros i.
  destruct (Nat.lt_ge_cases i (length l)) as [Hi|Hi].
  - destruct (nth_error (fill_span l) i) as [x|] eqn:E; [|apply nth_error_None in E; rewrite fill_span_length in E; lia].
    symmetry. destruct x.
    + apply nth_error_block. apply fill_span_true in E as [a [b (Hab & Hta & Htb)]].
      assert (argmax_b l <= a).
      { destruct (Nat.le_gt_cases (argmax_b l) a); [assumption|]. specialize (Hbefore a H). congruence. }
      assert (b <= last).
      { destruct (Nat.le_gt_cases b last); [assumption|]. exfalso. apply (Hafter b H0 Htb). }
      lia.
    + destruct (nth_error (repeat false (argmax_b l) ++ repeat true (count (fill_span l)) ++
                           repeat false (length l - argmax_b l - count (fill_span l))) i) as [[|]|] eqn:E2; [|reflexivity|].
      * exfalso. apply nth_error_block in E2.
        assert (nth_error (fill_span l) i = Some true).
        { apply fill_span_true. exists (argmax_b l), last. repeat split; auto; lia. }
        congruence.
      * apply nth_error_None in E2. rewrite !app_length, !repeat_length in E2. lia.
  - transitivity (@None bool); [|symmetry]; apply nth_error_None.
    + rewrite fill_span_length. exact Hi.
    + rewrite !app_length, !repeat_length. lia.
Qed.

(* the values of the copied sub-grid, row by row: the source value where the cell's centre is selected, the no-data value
   elsewhere inside the sub-grid (repaired index computation; [vrows] / [sel] = the source values / selection as nv rows of nu) *)
Lemma grid_copy_values_spec nu sel g (vrows : list (list (option Z))) :
  grid_select true nu sel = Some g ->
  length vrows = length sel -> Forall (fun r => length r = nu) vrows ->
  grid_copy_values sel g (concat vrows) =
  concat (map (fun b => map (fun a => if nth (sg_u0 g + a) (nth (sg_v0 g + b) sel []) false
                                      then nth (sg_u0 g + a) (nth (sg_v0 g + b) vrows []) None
                                      else None)
                            (seq 0 (sg_nu g))) (seq 0 (sg_nv g))).
Proof.
  unfold grid_select. intros H Lr HF.
  destruct (any_b (kron (fill_span (row_any sel)) (fill_span (col_any sel nu)))) eqn:K; [|discriminate].
  apply any_b_kron in K as [Kv Ku]. rewrite fill_span_any in Kv, Ku. injection H as <-.
  unfold grid_copy_values. simpl sg_mask. simpl sg_u0. simpl sg_v0. simpl sg_nu. simpl sg_nv.
  rewrite !fill_span_argmax by assumption.
  destruct (fill_span_block _ Ku) as [cu [Bu Lu]]. destruct (fill_span_block _ Kv) as [cv [Bv Lv]].
  set (u0 := argmax_b (col_any sel nu)) in *. set (v0 := argmax_b (row_any sel)) in *.
  set (nu' := count (fill_span (col_any sel nu))) in *. set (nv' := count (fill_span (row_any sel))) in *.
  assert (Lcol : length (col_any sel nu) = nu).
  { clear. destruct sel as [|r rs]; simpl; [apply repeat_length|rewrite map_length, seq_length; reflexivity]. }
  assert (Lrow : length (row_any sel) = length sel) by (unfold row_any; apply map_length).
  rewrite select_kron_rows.
  2:{ rewrite fill_span_length, Lrow. auto. }
  2:{ rewrite fill_span_length, Lcol. exact HF. }
  rewrite Bv, Bu.
  assert (Lvr : length vrows = v0 + nv' + cv) by (rewrite Lr, <- Lrow; symmetry; exact Lv).
  rewrite select_block by exact Lvr.
  rewrite (firstn_skipn_seq (@nil (option Z))) by (rewrite Lvr; apply Nat.le_add_r). rewrite map_map.
  assert (E : forall b, In b (seq 0 nv') ->
            select (repeat false u0 ++ repeat true nu' ++ repeat false cu) (nth (v0 + b) vrows []) =
            map (fun a => nth (u0 + a) (nth (v0 + b) vrows []) None) (seq 0 nu')).
  { intros b Hb. apply in_seq in Hb.
    assert (Hr : length (nth (v0 + b) vrows []) = u0 + nu' + cu).
    { rewrite Lu, Lcol. rewrite Forall_forall in HF. apply HF. apply nth_In. rewrite Lvr. lia. }
    rewrite select_block by exact Hr. apply firstn_skipn_seq. rewrite Hr. apply Nat.le_add_r. }
  rewrite (map_ext_in _ _ _ E).
  apply (fill_masked_rows None (fun b a => nth (u0 + a) (nth (v0 + b) sel []) false)
                               (fun b a => nth (u0 + a) (nth (v0 + b) vrows []) None)).
Qed.

(* ================================================================== GridObject.copy with the centroid mask *)
(* a child with one value per cell: inside the mask the source value, outside the kind's no-data value *)
Lemma grid_child_copy_spec fill k m v v' : length m = length v -> grid_child_copy fill k m v = Ok v' ->
  length v' = length v /\
  forall i b x, nth_error m i = Some b -> nth_error v i = Some x -> nth_error v' i = Some (if b then x else ndv k).
Proof.
  intros L. unfold grid_child_copy. rewrite L, Nat.eqb_refl. simpl.
  destruct (dkind_eqb k KText && negb fill); [discriminate|]. intros H; injection H as <-.
  split; [apply fill_masked_length; exact L|]. intros i b x Hm Hx. apply fill_masked_nth; assumption.
Qed.

(* and it only fails for text data on the pinned code *)
Lemma grid_child_copy_total k m v : exists v', grid_child_copy true k m v = Ok v'.
Proof.
  unfold grid_child_copy. destruct (negb (Nat.eqb (length m) (length v))); [eexists; reflexivity|].
  rewrite andb_false_r. eexists; reflexivity.
Qed.

(* the bounding box is attained: the extent is exactly the box of the current locations *)
Lemma zmin_list_in : forall l x, zmin_list x l = x \/ In (zmin_list x l) l.
Proof.
  unfold zmin_list. induction l as [|a r IH]; intros x; simpl; [left; reflexivity|].
  destruct (IH (Z.min x a)) as [H|H]; [|right; right; exact H].
  rewrite H. destruct (Z.min_spec x a) as [[_ E]|[_ E]]; rewrite E; [left; reflexivity|right; left; reflexivity].
Qed.

Lemma zmax_list_in : forall l x, zmax_list x l = x \/ In (zmax_list x l) l.
Proof.
  unfold zmax_list. induction l as [|a r IH]; intros x; simpl; [left; reflexivity|].
  destruct (IH (Z.max x a)) as [H|H]; [|right; right; exact H].
  rewrite H. destruct (Z.max_spec x a) as [[_ E]|[_ E]]; rewrite E; [right; left; reflexivity|left; reflexivity].
Qed.

Lemma obj_extent_attained ps lx hx ly hy lz hz : obj_extent ps = Ok [(lx, hx); (ly, hy); (lz, hz)] ->
  (exists p, In p ps /\ fst (fst p) = lx) /\ (exists p, In p ps /\ fst (fst p) = hx) /\
  (exists p, In p ps /\ snd (fst p) = ly) /\ (exists p, In p ps /\ snd (fst p) = hy) /\
  (exists p, In p ps /\ snd p = lz) /\ (exists p, In p ps /\ snd p = hz).
Proof.
  destruct ps as [|[[x y] z] r]; [discriminate|]. intros H. injection H as <- <- <- <- <- <-.
  assert (G : forall (f : pt -> Z) (g : Z -> list Z -> Z) v0, (forall l x, g x l = x \/ In (g x l) l) ->
              f (x, y, z) = v0 -> exists p, In p ((x, y, z) :: r) /\ f p = g v0 (map f r)).
  { intros f g v0 Hg Hf. destruct (Hg (map f r) v0) as [E|E].
    - exists (x, y, z). split; [left; reflexivity|]. rewrite E. exact Hf.
    - apply in_map_iff in E as [p [E Hp]]. exists p. split; [right; exact Hp|exact E]. }
  repeat split.
  - apply (G (fun p => fst (fst p)) zmin_list x zmin_list_in eq_refl).
  - apply (G (fun p => fst (fst p)) zmax_list x zmax_list_in eq_refl).
  - apply (G (fun p => snd (fst p)) zmin_list y zmin_list_in eq_refl).
  - apply (G (fun p => snd (fst p)) zmax_list y zmax_list_in eq_refl).
  - apply (G (fun p => snd p) zmin_list z zmin_list_in eq_refl).
  - apply (G (fun p => snd p) zmax_list z zmax_list_in eq_refl).
Qed.

(* ================================================================== Group.copy_from_extent on its children (composed operation) *)
Lemma first_err_none {A} : forall (cs : list (res A)), first_err cs = None <-> forall c, In c cs -> exists x, c = Ok x.
Proof.
  induction cs as [|c r IH]; simpl; [split; [intros _ c []|reflexivity]|].
  destruct c as [x|e]; split.
  - intros H c [<-|Hc]; [eexists; reflexivity|apply IH; assumption].
  - intros H. apply IH. intros c Hc. apply H. right. exact Hc.
  - discriminate.
  - intros H. destruct (H (Err e) (or_introl eq_refl)) as [x Hx]. discriminate.
Qed.

Lemma first_err_some {A} : forall (cs : list (res A)) e, first_err cs = Some e -> In (Err e) cs.
Proof.
  induction cs as [|c r IH]; intros e H; simpl in H; [discriminate|].
  destruct c as [x|e']; [right; apply IH; exact H|injection H as <-; left; reflexivity].
Qed.

(* the group's copy by extent in terms of its children's own copy_from_extent *)
Lemma group_copy_children cleanup children e inv :
  let rs := map (fun o => child_copy_res o e inv) children in
  (forall l, group_copy_run cleanup rs = GCopy l ->
     (forall o, In o children -> forall er, copy_from_extent o e inv <> CErr er) /\ l <> [] /\
     l = flat_map (fun o => match copy_from_extent o e inv with CCopy c => [c] | _ => [] end) children) /\
  (group_copy_run cleanup rs = GNone ->
     forall o, In o children -> copy_from_extent o e inv = CNone) /\
  (forall er stray, group_copy_run cleanup rs = GFail er stray ->
     stray = negb cleanup /\ exists o, In o children /\ copy_from_extent o e inv = CErr er).
Proof.
  cbv zeta. unfold group_copy_run.
  assert (NE : first_err (map (fun o => child_copy_res o e inv) children) = None ->
               forall o, In o children -> forall er, copy_from_extent o e inv <> CErr er).
  { intros H o Ho er E.
    destruct (proj1 (first_err_none _) H (child_copy_res o e inv) (in_map (fun o => child_copy_res o e inv) _ _ Ho)) as [x Hx].
    unfold child_copy_res in Hx. rewrite E in Hx. discriminate. }
  assert (FM : forall cs, flat_map (fun c : option obj => match c with Some x => [x] | None => [] end)
                            (map ok_part (map (fun o => child_copy_res o e inv) cs)) =
                          flat_map (fun o => match copy_from_extent o e inv with CCopy c => [c] | _ => [] end) cs).
  { induction cs as [|o r IH]; [reflexivity|]. simpl. rewrite IH. unfold child_copy_res.
    destruct (copy_from_extent o e inv); reflexivity. }
  split; [|split].
  - intros l. destruct (first_err _) eqn:F; [discriminate|].
    unfold group_copy_from_extent. rewrite FM.
    destruct (flat_map _ children) eqn:E; [discriminate|]. intros H; injection H as <-.
    split; [apply NE; reflexivity|]. split; [discriminate|reflexivity].
  - destruct (first_err _) eqn:F; [discriminate|]. unfold group_copy_from_extent. rewrite FM.
    destruct (flat_map _ children) eqn:E; [|discriminate]. intros _ o Ho.
    destruct (copy_from_extent o e inv) as [|c|er] eqn:C; [reflexivity| |exfalso; exact (NE eq_refl o Ho er C)].
    exfalso. assert (In c (flat_map (fun o => match copy_from_extent o e inv with CCopy c => [c] | _ => [] end) children)).
    { apply in_flat_map. exists o. split; [exact Ho|rewrite C; left; reflexivity]. }
    rewrite E in H. contradiction.
  - intros er stray. destruct (first_err _) eqn:F.
    + intros H; injection H as <- <-. split; [reflexivity|].
      apply first_err_some in F. apply in_map_iff in F as [o [Ho Hin]]. exists o. split; [exact Hin|].
      unfold child_copy_res in Ho. destruct (copy_from_extent o e inv); try discriminate. injection Ho as ->. reflexivity.
    + destruct (group_copy_from_extent _); discriminate.
Qed.

(* the repaired drillhole copy: copied exactly when the collar is selected *)
Lemma drillhole_copy_fixed collar nv e inv :
  drillhole_copy_from_extent true collar nv e inv =
  match drillhole_mask collar e inv with
  | Err er => Err er
  | Ok None => Ok None
  | Ok (Some _) => if xorb inv (in_box (coords collar) e) then Ok (Some true) else Ok None
  end.
Proof.
  unfold drillhole_copy_from_extent. destruct (drillhole_mask collar e inv) as [[m|]|] eqn:M; try reflexivity.
  apply located_mask_some in M. subst m. reflexivity.
Qed.
