(* Proofs about the PyLite translations of the ui.json mappers and dict_mapper (coq/generated/PyLite_SharedUtils.v,
   PyLite_UiUtils.v) and the hand model Model/UiCodec.v  (property C14). *)
From Coq Require Import String Ascii.
From GV Require Import Prelude.Base Model.PyVal Model.Enforcers Model.UiForms Model.UiCodec Proofs.PyValProofs.
From GVgen Require Import PyLite_SharedUtils PyLite_UiUtils PyLite_InputFile.
Local Open Scope string_scope. Local Open Scope list_scope.

Opaque uuid_text.

Lemma fold_res_ext {S A} (f g : S -> A -> res S) l s : (forall s x, f s x = g s x) -> fold_res f l s = fold_res g l s.
Proof. intros H. revert s. induction l as [|x r IH]; intros s; simpl; [reflexivity|]. rewrite H. destruct (g s x); simpl; [apply IH | reflexivity]. Qed.

Lemma apply_all_eta fs v : fold_res (fun (v : pv) (f : pv -> res pv) => x <- f v ;; Ok x) fs v = apply_all fs v.
Proof. unfold apply_all. apply fold_res_ext. intros s x. apply bind_ret. Qed.

(* dict_mapper on anything that is neither a dict nor a list applies the functions in order *)
Lemma dict_mapper_scalar n v fs : isinst v [TDict; TList] = false -> dict_mapper (S n) v fs = apply_all fs v.
Proof.
  intros H. cbn [dict_mapper].
  assert (H1 : isinst v [TDict] = false) by (destruct v as [ | | | | | | k ? | | | | | ]; try destruct k; try discriminate; reflexivity).
  assert (H2 : isinst v [TList] = false) by (destruct v as [ | | | | | | k ? | | | | | ]; try destruct k; try discriminate; reflexivity).
  rewrite H1, H2. rewrite apply_all_eta. apply bind_ret.
Qed.

(* ... and on a list it maps every element (one level: elements are not entered) *)
Lemma dict_mapper_list n l fs : dict_mapper (S n) (PList l) fs = (l' <- map_res (apply_all fs) l ;; Ok (PList l')).
Proof.
  cbn [dict_mapper isinst existsb isinst1 orb iter_list bind].
  assert (G : forall l acc, fold_res (fun v_out v_elem =>
                 v_elem <- fold_res (fun (v : pv) (f : pv -> res pv) => x <- f v ;; Ok x) fs v_elem ;;
                 v_out <- iadd v_out (PList [v_elem]) ;; Ok v_out) l (PList acc)
              = (l' <- map_res (apply_all fs) l ;; Ok (PList (acc ++ l')))).
  { induction l0 as [|x r IH]; intros acc; simpl; [rewrite app_nil_r; reflexivity|].
    rewrite apply_all_eta. destruct (apply_all fs x) as [y|e]; simpl; [|reflexivity].
    rewrite IH. destruct (map_res (apply_all fs) r); simpl; [rewrite <- app_assoc; reflexivity | reflexivity]. }
  rewrite (G l []). destruct (map_res (apply_all fs) l); reflexivity.
Qed.

(* ---------------------------------------------------------------- one scalar through write and read *)
Lemma value_trip_atom n v : is_atom v = true ->
  value_trip (S n) v =
  (v1 <- apply_all demote_funs v ;; v2 <- apply_all write_funs v1 ;; v3 <- json_roundtrip v2 ;; dict_mapper (S n) v3 read_funs).
Proof.
  intros H. unfold value_trip.
  destruct v as [ | b | z | f | s | u | k u | p | t | l | l | d ]; try discriminate;
    try destruct k; (rewrite dict_mapper_scalar by reflexivity);
    match goal with |- context [apply_all demote_funs ?x] =>
      let r := eval cbn in (apply_all demote_funs x) in change (apply_all demote_funs x) with r end;
    cbn [bind]; (rewrite dict_mapper_scalar by reflexivity); reflexivity.
Qed.

Theorem string_roundtrip_iff n s : value_trip (S n) (PStr s) = Ok (PStr s) <-> string_safe s = true.
Proof.
  rewrite value_trip_atom by reflexivity. unfold string_safe, is_some.
  cbn -[String.eqb parse_uuid path_suffix dict_mapper].
  rewrite dict_mapper_scalar by reflexivity.
  unfold apply_all, read_funs. cbn -[String.eqb parse_uuid path_suffix].
  unfold str2none, str2inf, str2uuid, path2workspace, py_is_uuid, py_uuid_of, uuid_of_value, py_float.
  cbn -[String.eqb parse_uuid path_suffix].
  destruct (String.eqb s "") eqn:E0; cbn -[String.eqb parse_uuid path_suffix]; [split; discriminate|].
  destruct (String.eqb s "inf") eqn:E1; cbn -[String.eqb parse_uuid path_suffix]; [split; discriminate|].
  destruct (String.eqb s "-inf") eqn:E2; cbn -[String.eqb parse_uuid path_suffix]; [split; discriminate|].
  destruct (parse_uuid s) eqn:E3; cbn -[String.eqb parse_uuid path_suffix]; [split; discriminate|].
  destruct (String.eqb (path_suffix s) ".geoh5") eqn:E4; cbn; split; intros X; try discriminate; reflexivity.
Qed.

Theorem int_roundtrip_iff n z : value_trip (S n) (PInt z) = Ok (PInt z) <-> int_safe z = true.
Proof.
  rewrite value_trip_atom by reflexivity. unfold int_safe, is_some.
  cbn -[parse_uuid dec_of_Z dict_mapper]. rewrite dict_mapper_scalar by reflexivity.
  unfold apply_all, read_funs. cbn -[parse_uuid dec_of_Z].
  unfold str2uuid, py_is_uuid, py_uuid_of, uuid_of_value. cbn -[parse_uuid dec_of_Z].
  destruct (parse_uuid (dec_of_Z z)); cbn; split; intros X; try discriminate; reflexivity.
Qed.

Lemma braced_read rest u :
  parse_uuid (String "{" rest) = Some u -> String.eqb (path_suffix (String "{" rest)) ".geoh5" = false ->
  apply_all read_funs (PStr (String "{" rest)) = Ok (PUuid u).
Proof.
  intros Hp Hg. unfold apply_all, read_funs. cbn [fold_res].
  unfold str2none at 1. cbn [py_eq String.eqb Ascii.eqb Bool.eqb bind].
  unfold str2inf at 1. cbn [existsb py_eq String.eqb Ascii.eqb Bool.eqb orb bind].
  unfold str2uuid at 1. unfold py_is_uuid, py_uuid_of, uuid_of_value. rewrite Hp. cbn [bind].
  reflexivity.
Qed.

Lemma uuid_written u : apply_all write_funs (PStr (String "{" (uuid_text u ++ "}"))) = Ok (PStr (String "{" (uuid_text u ++ "}"))).
Proof. reflexivity. Qed.
Lemma uuid_demoted u : apply_all demote_funs (PUuid u) = Ok (PStr (String "{" (uuid_text u ++ "}"))).
Proof. reflexivity. Qed.
Lemma ent_demoted k u : apply_all demote_funs (PEnt k u) = Ok (PStr (String "{" (uuid_text u ++ "}"))).
Proof. destruct k; reflexivity. Qed.

Lemma uuid_trip n v u : apply_all demote_funs v = Ok (PStr (String "{" (uuid_text u ++ "}"))) -> is_atom v = true ->
  uuid_text_ok u = true -> value_trip (S n) v = Ok (PUuid u).
Proof.
  intros Hd Ha Hs. rewrite value_trip_atom by exact Ha. rewrite Hd. cbn [bind]. rewrite uuid_written. cbn [bind json_roundtrip].
  rewrite dict_mapper_scalar by reflexivity.
  unfold uuid_text_ok in Hs. apply andb_true_iff in Hs as [Hp Hg].
  change (("{" ++ uuid_text u) ++ "}")%string with (String "{" (uuid_text u ++ "}")) in Hp, Hg.
  destruct (parse_uuid (String "{" (uuid_text u ++ "}"))) as [w|] eqn:E; [|discriminate].
  apply N.eqb_eq in Hp. subst w. apply braced_read; [exact E | apply negb_true_iff; exact Hg].
Qed.

(* every safe scalar comes back as itself (entities as their identifier: promotion follows) *)
Theorem atom_roundtrip n v : is_atom v = true -> atom_safe v = true -> value_trip (S n) v = Ok (canon v).
Proof.
  intros Ha Hs. destruct v as [ | b | z | f | s | u | k u | p | t | l | l | d ]; try discriminate.
  - rewrite value_trip_atom by reflexivity. vm_compute. reflexivity.
  - rewrite value_trip_atom by reflexivity. destruct b; vm_compute; reflexivity.
  - apply int_roundtrip_iff. exact Hs.
  - rewrite value_trip_atom by reflexivity. destruct f as [num dexp | | | np]; try discriminate; try (vm_compute; reflexivity).
  - apply string_roundtrip_iff. exact Hs.
  - apply (uuid_trip n (PUuid u) u (uuid_demoted u) eq_refl Hs).
  - apply (uuid_trip n (PEnt k u) u (ent_demoted k u) eq_refl Hs).
  - rewrite value_trip_atom by reflexivity. simpl in Hs. unfold ws_path_ok, is_some in Hs.
    repeat (apply andb_true_iff in Hs as [Hs ?]).
    cbn -[String.eqb parse_uuid path_suffix dict_mapper]. rewrite dict_mapper_scalar by reflexivity.
    unfold apply_all, read_funs. cbn -[String.eqb parse_uuid path_suffix].
    unfold str2none, str2inf, str2uuid, path2workspace, py_is_uuid, py_uuid_of, uuid_of_value, py_float.
    cbn -[String.eqb parse_uuid path_suffix].
    apply negb_true_iff in Hs. rewrite Hs. cbn -[String.eqb parse_uuid path_suffix].
    apply negb_true_iff in H2. rewrite H2. apply negb_true_iff in H1. rewrite H1. cbn -[String.eqb parse_uuid path_suffix].
    destruct (parse_uuid p); [discriminate|]. cbn -[String.eqb parse_uuid path_suffix]. rewrite H. reflexivity.
Qed.

(* ---------------------------------------------------------------- nothing non-finite reaches the JSON text *)
Lemma atom_written x : is_atom x = true ->
  exists x1 x2, apply_all demote_funs x = Ok x1 /\ is_atom x1 = true /\ apply_all write_funs x1 = Ok x2
                /\ has_nonfinite x2 = false /\ is_atom x2 = true.
Proof.
  intros H. destruct x as [ | b | z | f | s | u | k u | p | t | l | l | d ]; try discriminate;
    try (eexists; eexists; repeat split; reflexivity);
    try (destruct f as [num dexp | | | [|]]; eexists; eexists; repeat split; reflexivity);
    try (destruct k; eexists; eexists; repeat split; reflexivity).
Qed.

Theorem written_atom_finite n v w : is_atom v = true -> value_written (S n) v = Ok w -> has_nonfinite w = false.
Proof.
  intros Ha Hw. destruct (atom_written v Ha) as (x1 & x2 & E1 & A1 & E2 & F2 & A2).
  unfold value_written in Hw.
  rewrite dict_mapper_scalar in Hw by (destruct v as [ | | | | | | k ? | | | | | ]; try destruct k; try discriminate; reflexivity).
  rewrite E1 in Hw. cbn [bind] in Hw.
  rewrite dict_mapper_scalar in Hw by (destruct x1 as [ | | | | | | k ? | | | | | ]; try destruct k; try discriminate; reflexivity).
  rewrite E2 in Hw. inversion Hw; subst. exact F2.
Qed.

Lemma map_atoms (f : pv -> res pv) (P Q : pv -> bool) l :
  (forall x, P x = true -> exists y, f x = Ok y /\ Q y = true) ->
  forallb P l = true -> exists l', map_res f l = Ok l' /\ forallb Q l' = true.
Proof.
  intros H. induction l as [|x r IH]; intros Hl; [exists []; split; reflexivity|].
  simpl in Hl. apply andb_true_iff in Hl as [Hx Hr]. destruct (H x Hx) as (y & Ey & Qy). destruct (IH Hr) as (l' & El & Ql).
  exists (y :: l'). simpl. rewrite Ey, El. simpl. rewrite Qy, Ql. split; reflexivity.
Qed.

Theorem written_flat_list_finite n l w : forallb is_atom l = true -> value_written (S n) (PList l) = Ok w -> has_nonfinite w = false.
Proof.
  intros Ha Hw. unfold value_written in Hw. rewrite dict_mapper_list in Hw.
  destruct (map_atoms (apply_all demote_funs) is_atom is_atom l) as (l1 & E1 & A1); [|exact Ha|].
  { intros x Hx. destruct (atom_written x Hx) as (x1 & x2 & E & A & _). exists x1. split; assumption. }
  rewrite E1 in Hw. cbn [bind] in Hw. rewrite dict_mapper_list in Hw.
  destruct (map_atoms (apply_all write_funs) is_atom (fun y => negb (has_nonfinite y)) l1) as (l2 & E2 & F2); [|exact A1|].
  { intros x Hx. destruct x as [ | b | z | f | s | u | k u | p | t | l0 | l0 | d ]; try discriminate;
      try (eexists; split; reflexivity);
      try (destruct f as [num dexp | | | [|]]; eexists; split; reflexivity);
      try (destruct k; eexists; split; reflexivity). }
  rewrite E2 in Hw. inversion Hw; subst. simpl.
  clear - F2. induction l2 as [|y r IH]; simpl in *; [reflexivity|]. apply andb_true_iff in F2 as [Y R].
  apply negb_true_iff in Y. rewrite Y. simpl. apply IH. exact R.
Qed.

(* ---------------------------------------------------------------- the full statements are false: witnesses *)
Theorem all_strings_refuted : ~ (forall n s, value_trip (S n) (PStr s) = Ok (PStr s)).
Proof. intros H. specialize (H 1 "inf"). vm_compute in H. discriminate. Qed.
Theorem all_ints_refuted : ~ (forall n z, value_trip (S n) (PInt z) = Ok (PInt z)).
Proof. intros H. specialize (H 1 10000000000000000000000000000000%Z). vm_compute in H. discriminate. Qed.
Theorem nonfinite_nested_refuted : ~ (forall n v w, value_written (S n) v = Ok w -> has_nonfinite w = false).
Proof.
  intros H. specialize (H 2 (PList [PList [PFloat FPInf]]) (PList [PList [PFloat FPInf]]) eq_refl). vm_compute in H. discriminate.
Qed.

(* ---------------------------------------------------------------- identifiers: demote, write, read, promote *)
Theorem entity_roundtrip n W k u : w_kind W u = Some k -> uuid_text_ok u = true ->
  (v <- value_trip (S n) (PEnt k u) ;; Ok (uuid2entity W v)) = Ok (PEnt k u).
Proof.
  intros Hk Hs. rewrite (atom_roundtrip n (PEnt k u) eq_refl Hs). cbn [bind canon uuid2entity]. rewrite Hk. reflexivity.
Qed.
Theorem demote_promote_uuid W k u : w_kind W u = Some k ->
  entity2uuid (uuid2entity W (PUuid u)) = Ok (PUuid u).
Proof. intros Hk. simpl. rewrite Hk. reflexivity. Qed.
Transparent uuid_text.
