(* Lemmas about Model/Mode.v (properties C10, C11). *)
From GV Require Import Prelude.Base Model.Mode.
Require Import String.
Open Scope string_scope. Open Scope list_scope.

(* ------------------------------------------------------------------ basic facts *)
Lemma mode_eqb_eq a b : mode_eqb a b = true <-> a = b.
Proof. destruct a, b; simpl; split; intros H; try reflexivity; try discriminate. Qed.

Lemma writable_not_R m : writable m = true -> mode_eqb m R = false.
Proof. destruct m; simpl; intros H; try reflexivity; discriminate. Qed.

Lemma norm_writable m : writable (norm m) = writable m.
Proof. destruct m; reflexivity. Qed.

Lemma set_handle_file w h : file (set_handle w h) = file w. Proof. reflexivity. Qed.
Lemma set_handle_handle w h : handle_of (set_handle w h) = h. Proof. reflexivity. Qed.

(* the fields that no operation touches *)
Definition same_env (w w' : world) : Prop :=
  defmode w' = defmode w /\ locked w' = locked w /\ close_fault w' = close_fault w /\ ncat w' = ncat w.
Lemma same_env_refl w : same_env w w. Proof. repeat split. Qed.
Lemma same_env_trans a b c : same_env a b -> same_env b c -> same_env a c.
Proof. intros (A1 & A2 & A3 & A4) (B1 & B2 & B3 & B4). repeat split; congruence. Qed.
(* same handle, same file, same environment (only the repack flag may differ) *)
Definition same_core (w w' : world) : Prop :=
  handle_of w' = handle_of w /\ file w' = file w /\ same_env w w'.
Lemma same_core_refl w : same_core w w. Proof. repeat split. Qed.
Lemma same_core_trans a b c : same_core a b -> same_core b c -> same_core a c.
Proof. intros (A1 & A2 & A3) (B1 & B2 & B3). split; [congruence|]. split; [congruence|]. eapply same_env_trans; eauto. Qed.

(* append-only file *)
Definition extends (w w' : world) : Prop := exists t, file w' = file w ++ t.
Lemma extends_refl w : extends w w. Proof. exists []. rewrite app_nil_r. reflexivity. Qed.
Lemma extends_set_handle w h : extends w (set_handle w h).
Proof. exists []. simpl. rewrite app_nil_r. reflexivity. Qed.
Lemma extends_trans a b c : extends a b -> extends b c -> extends a c.
Proof. intros [t1 H1] [t2 H2]. exists (t1 ++ t2). rewrite H2, H1, app_assoc. reflexivity. Qed.

(* ------------------------------------------------------------------ _io_call *)
Lemma io_call_inv w c w' :
  io_call w c = Ok w' ->
  handle_of w' = handle_of w /\ same_env w w' /\
  file w' = file w ++ (if c_writer c then [c_fn c] else []).
Proof.
  unfold io_call. destruct (handle_of w) eqn:H; [discriminate|].
  destruct (writable (c_req c) && mode_eqb m R); [discriminate|].
  destruct (c_fails c); [discriminate|].
  intros E; inversion E; subst; clear E.
  destruct (c_writer c), (c_repack c); simpl; rewrite ?app_nil_r; repeat split; auto.
Qed.

Lemma io_calls_inv cs : forall w,
  handle_of (fst (io_calls w cs)) = handle_of w /\ same_env w (fst (io_calls w cs)) /\ extends w (fst (io_calls w cs)).
Proof.
  induction cs as [|c r IH]; intros w; simpl.
  - split; [reflexivity|]. split; [apply same_env_refl | apply extends_refl].
  - destruct (io_call w c) eqn:E; simpl.
    + apply io_call_inv in E as (H1 & H2 & H3).
      destruct (IH a) as (I1 & I2 & I3). split; [congruence|]. split.
      * eapply same_env_trans; eauto.
      * eapply extends_trans; [|exact I3]. eexists; exact H3.
    + split; [reflexivity|]. split; [apply same_env_refl | apply extends_refl].
Qed.

(* on a read-only handle gated calls never change the world; a call that asks for a writable mode is refused *)
Lemma io_call_R w c :
  handle_of w = Open R -> gated_call c = true ->
  io_call w c = (if writable (c_req c) then Err EReadOnly else if c_fails c then Err EFail
                 else Ok (if c_repack c then set_repack w true else w)).
Proof.
  intros H G. unfold io_call. rewrite H. simpl. rewrite andb_true_r.
  destruct (writable (c_req c)) eqn:W; [reflexivity|].
  destruct (c_fails c); [reflexivity|].
  unfold gated_call in G. rewrite W, orb_false_r in G. apply negb_true_iff in G. rewrite G. reflexivity.
Qed.

Lemma io_calls_R cs : forall w,
  handle_of w = Open R -> forallb gated_call cs = true -> same_core w (fst (io_calls w cs)).
Proof.
  induction cs as [|c r IH]; intros w H G; simpl; [apply same_core_refl|].
  simpl in G. apply andb_true_iff in G as [G1 G2].
  rewrite (io_call_R w c H G1).
  destruct (writable (c_req c)); [apply same_core_refl|]. destruct (c_fails c); [apply same_core_refl|].
  destruct (c_repack c).
  - eapply same_core_trans; [|apply IH; [exact H | exact G2]]. repeat split.
  - apply IH; assumption.
Qed.

Lemma io_calls_R_refused cs : forall w,
  handle_of w = Open R -> forallb gated_call cs = true ->
  existsb c_writer cs = true -> forallb (fun c => negb (c_fails c)) cs = true ->
  snd (io_calls w cs) = Some EReadOnly.
Proof.
  induction cs as [|c r IH]; intros w H G X T; simpl in *; [discriminate|].
  apply andb_true_iff in G as [G1 G2]. apply andb_true_iff in T as [T1 T2].
  rewrite (io_call_R w c H G1).
  destruct (writable (c_req c)) eqn:W; [reflexivity|].
  apply negb_true_iff in T1. rewrite T1.
  unfold gated_call in G1. rewrite W, orb_false_r in G1. apply negb_true_iff in G1. rewrite G1 in X. simpl in X.
  destruct (c_repack c); apply IH; assumption.
Qed.

Lemma io_calls_closed cs w :
  handle_of w = Closed -> io_calls w cs = (w, match cs with [] => None | _ => Some EClosed end).
Proof. intros H. destruct cs as [|c r]; simpl; [reflexivity|]. unfold io_call. rewrite H. reflexivity. Qed.

(* on a writable handle every non-failing call list runs to the end and logs exactly its writer routines *)
Lemma io_calls_writable cs : forall w m,
  handle_of w = Open m -> writable m = true -> forallb (fun c => negb (c_fails c)) cs = true ->
  snd (io_calls w cs) = None /\ file (fst (io_calls w cs)) = file w ++ writer_log cs
  /\ handle_of (fst (io_calls w cs)) = Open m.
Proof.
  induction cs as [|c r IH]; intros w m H W T; simpl.
  - rewrite app_nil_r. auto.
  - simpl in T. apply andb_true_iff in T as [T1 T2]. apply negb_true_iff in T1.
    destruct (io_call w c) as [w1|e] eqn:E.
    + destruct (io_call_inv w c w1 E) as (H1 & _ & F1).
      assert (H1' : handle_of w1 = Open m) by congruence.
      destruct (IH w1 m H1' W T2) as (A & B & D). split; [exact A|]. split; [|exact D].
      rewrite B, F1. unfold writer_log. simpl. destruct (c_writer c); simpl; rewrite <- ?app_assoc; reflexivity.
    + exfalso. unfold io_call in E. rewrite H, (writable_not_R m W), andb_false_r, T1 in E. discriminate.
Qed.

(* reader-only call lists never change the file, whatever the handle *)
Lemma io_calls_readers cs : forall w,
  existsb c_writer cs = false -> file (fst (io_calls w cs)) = file w.
Proof.
  induction cs as [|c r IH]; intros w X; simpl; [reflexivity|].
  simpl in X. apply orb_false_iff in X as [X1 X2].
  destruct (io_call w c) eqn:E; simpl; [|reflexivity].
  apply io_call_inv in E as (_ & _ & F). rewrite X1, app_nil_r in F. rewrite (IH a X2). exact F.
Qed.

(* ------------------------------------------------------------------ close / open *)
Lemma close_calls_total dead w :
  close_fault w = false -> forallb (fun c => negb (c_fails c)) (close_calls dead w) = true.
Proof.
  intros CF. unfold close_calls. rewrite !forallb_app. simpl. rewrite CF. simpl.
  assert (A : forallb (fun c => negb (c_fails c)) (repeat remove_dead dead) = true) by (induction dead; simpl; auto).
  rewrite A. simpl. rewrite andb_true_r. destruct (repack w); [|reflexivity].
  induction (ncat w); simpl; auto.
Qed.

Lemma extends_set_repack w b : extends w (set_repack w b).
Proof. exists []. simpl. rewrite app_nil_r. reflexivity. Qed.

Lemma close_closes dead w :
  close_fault w = false ->
  handle_of (fst (close_n dead w)) = Closed /\ snd (close_n dead w) = None /\ same_env w (fst (close_n dead w))
  /\ extends w (fst (close_n dead w)).
Proof.
  intros CF. unfold close_n. destruct (handle_of w) eqn:H.
  - simpl. rewrite H. repeat split; auto. apply extends_refl.
  - destruct (writable m) eqn:W.
    + destruct (io_calls_writable (close_calls dead w) w m H W (close_calls_total dead w CF)) as (A & B & D).
      destruct (io_calls_inv (close_calls dead w) w) as (_ & E & X).
      destruct (io_calls w (close_calls dead w)) as [w' e]. cbn [fst snd] in *. subst e. cbn [fst snd].
      split; [reflexivity|]. split; [reflexivity|]. split; [exact E|]. destruct X as [t X]. exists t. exact X.
    + cbn [fst snd]. split; [reflexivity|]. split; [reflexivity|]. split; [repeat split|]. exists []. simpl. rewrite app_nil_r. reflexivity.
Qed.

Lemma close_R w : handle_of w = Open R -> close w = (set_handle w Closed, None).
Proof. intros H. unfold close, close_n. rewrite H. reflexivity. Qed.

Lemma close_Closed w : handle_of w = Closed -> close w = (w, None).
Proof. intros H. unfold close, close_n. rewrite H. reflexivity. Qed.

Lemma close_inv w : same_env w (fst (close w)) /\ extends w (fst (close w)).
Proof.
  unfold close, close_n. destruct (handle_of w) eqn:H.
  - split; [apply same_env_refl | apply extends_refl].
  - destruct (writable m).
    + destruct (io_calls_inv (close_calls 0 w) w) as (_ & E & X).
      destruct (io_calls w (close_calls 0 w)) as [w' [e|]]; cbn [fst snd] in *.
      * auto.
      * split; [exact E|]. destruct X as [t X]. exists t. exact X.
    + split; [repeat split |]. exists []. simpl. rewrite app_nil_r. reflexivity.
Qed.

Lemma open_inv m w : same_env w (fst (open_ m w)) /\ file (fst (open_ m w)) = file w /\ snd (open_ m w) = None.
Proof. unfold open_. destruct (handle_of w); simpl; repeat split; auto. Qed.

(* open never grants more than what was asked: a read-only request (or default) yields a read-only handle *)
Lemma open_never_upgrades m w :
  handle_of w = Closed ->
  let want := match m with Some x => x | None => defmode w end in
  exists got, handle_of (fst (open_ m w)) = Open got /\ (writable got = true -> writable want = true /\ locked w = false).
Proof.
  intros H want. unfold open_. rewrite H. simpl. fold want.
  destruct (writable want) eqn:W; simpl.
  - destruct (locked w) eqn:L; simpl; eexists; split; try reflexivity.
    + simpl. discriminate.
    + intros _. auto.
  - exists (norm want). split; [reflexivity|]. rewrite norm_writable, W. discriminate.
Qed.

(* ------------------------------------------------------------------ C10: the read-only invariant *)
Definition ro (w : world) : Prop := (handle_of w = Open R \/ handle_of w = Closed) /\ defmode w = R.
Definition safe (o : op) : Prop := explicit_reopen o = false /\ op_gated o = true.
Definition self_opening (o : op) : bool :=
  match o with FetchActive _ _ | MonitoredCopy _ => true | _ => false end.
Definition expected_refusal (w : world) (o : op) : err :=
  match handle_of w with
  | Closed => if self_opening o then EReadOnly else EClosed
  | Open _ => EReadOnly
  end.

Lemma open_ro m w :
  ro w -> (match m with Some x => writable x = false | None => True end) ->
  ro (fst (open_ m w)) /\ file (fst (open_ m w)) = file w
  /\ (handle_of w = Closed -> handle_of (fst (open_ m w)) = Open R).
Proof.
  intros [[H|H] D] M; unfold open_; rewrite H; simpl.
  - split; [split; auto|]. split; [reflexivity|]. intros X; discriminate.
  - assert (W : (match m with Some x => x | None => defmode w end) = R).
    { destruct m as [x|]; [destruct x; simpl in M; try discriminate; reflexivity | exact D]. }
    rewrite W. simpl. split; [split; auto|]. auto.
Qed.

Lemma close_ro w : ro w -> ro (fst (close w)) /\ file (fst (close w)) = file w /\ snd (close w) = None
                          /\ handle_of (fst (close w)) = Closed.
Proof.
  intros [[H|H] D].
  - rewrite (close_R w H). simpl. repeat split; auto.
  - rewrite (close_Closed w H). simpl. repeat split; auto.
Qed.

Lemma ro_core w w' : ro w -> same_core w w' -> ro w' /\ file w' = file w.
Proof.
  intros [[H|H] D] (A & B & (C & _)); (split; [split; [|congruence] | exact B]); [left | right]; congruence.
Qed.

Lemma io_calls_ro cs w :
  ro w -> forallb gated_call cs = true -> same_core w (fst (io_calls w cs)).
Proof.
  intros [[H|H] D] G.
  - apply io_calls_R; assumption.
  - rewrite (io_calls_closed cs w H). apply same_core_refl.
Qed.

Lemma fetch_active_R_ro body w :
  ro w -> forallb gated_call body = true ->
  ro (fst (fetch_active R body w)) /\ file (fst (fetch_active R body w)) = file w.
Proof.
  intros RO G. pose proof RO as [[H|H] D]; unfold fetch_active; rewrite H.
  - simpl. apply (ro_core w); [exact RO | apply io_calls_ro; assumption].
  - destruct (open_ro (Some R) w RO eq_refl) as (RO2 & F2 & H2). specialize (H2 H).
    pose proof (open_inv (Some R) w) as (_ & _ & N).
    destruct (open_ (Some R) w) as [w2 e2]. cbn [fst snd] in *. subst e2. cbn [seq].
    unfold finally_close. rewrite (surjective_pairing (io_calls w2 body)).
    destruct (ro_core w2 _ RO2 (io_calls_ro body w2 RO2 G)) as (RO3 & F3).
    destruct (close_ro _ RO3) as (RO4 & F4 & N4 & _).
    destruct (close (fst (io_calls w2 body))) as [w4 e4]. cbn [fst snd] in *. subst e4. cbn [fst].
    split; [exact RO4 | congruence].
Qed.

Lemma step_ro w o :
  ro w -> safe o -> ro (fst (step w o)) /\ file (fst (step w o)) = file w.
Proof.
  intros RO [NR G]. destruct o; simpl in *.
  - unfold op_gated in G. simpl in G. apply (ro_core w); [exact RO | apply io_calls_ro; assumption].
  - unfold op_gated in G. simpl in G. apply (ro_core w); [exact RO | apply io_calls_ro; assumption].
  - destruct (close_ro w RO) as (A & B & _). auto.
  - destruct (open_ro m w RO) as (A & B & _); [destruct m as [x|]; [apply negb_true_iff; rewrite NR; reflexivity | exact I]|].
    auto.
  - apply negb_false_iff, mode_eqb_eq in NR. subst req. apply fetch_active_R_ro; assumption.
  - destruct (close_ro w RO) as (A & B & N & _). destruct (close w) as [w1 e1]. cbn [fst snd] in *. subst e1. cbn [seq].
    assert (A' : ro (set_in_mem w1 false)) by (destruct A as [HA DA]; split; assumption).
    destruct (open_ro None (set_in_mem w1 false) A' I) as (A2 & B2 & _). split; [exact A2|]. rewrite B2. exact B.
  - auto.
  - apply fetch_active_R_ro; assumption.
  - unfold op_gated in G. simpl in G.
    assert (X : fst (match io_calls w cs with (w', None) => (w', Some EFail) | r => r end) = fst (io_calls w cs))
      by (destruct (io_calls w cs) as [w' [e|]]; reflexivity).
    rewrite X. apply (ro_core w); [exact RO | apply io_calls_ro; assumption].
  - destruct RO as [H D]. split; [split; assumption | reflexivity].
  - destruct (close_ro w RO) as (A & B & N & _). destruct (close w) as [w1 e1]. cbn [fst snd] in *. subst e1. cbn [seq fst]. auto.
Qed.

Lemma run_cons o r w :
  run (o :: r) w = (fst (run r (fst (step w o))), snd (step w o) :: snd (run r (fst (step w o)))).
Proof. simpl. destruct (step w o) as [w1 e]. cbn [fst snd]. destruct (run r w1) as [w2 es]. reflexivity. Qed.

Lemma run_app a : forall b w, fst (run (a ++ b) w) = fst (run b (fst (run a w))).
Proof.
  induction a as [|o r IH]; intros b w; [reflexivity|].
  rewrite <- app_comm_cons, !run_cons. simpl. apply IH.
Qed.

Lemma run_ro ops : forall w, ro w -> Forall safe ops -> ro (fst (run ops w)) /\ file (fst (run ops w)) = file w.
Proof.
  induction ops as [|o r IH]; intros w RO S; [simpl; auto|].
  inversion S as [|? ? So Sr]; subst. rewrite run_cons. simpl.
  destruct (step_ro w o RO So) as (RO1 & F1). destruct (IH _ RO1 Sr) as (RO2 & F2). split; [exact RO2 | congruence].
Qed.

(* the outcome of a writing operation on a read-only (or closed) workspace *)
Lemma fetch_active_R_closed_refused body w :
  ro w -> handle_of w = Closed -> forallb gated_call body = true -> existsb c_writer body = true ->
  forallb (fun c => negb (c_fails c)) body = true ->
  snd (fetch_active R body w) = Some EReadOnly.
Proof.
  intros RO H G Wr T. unfold fetch_active. rewrite H.
  destruct (open_ro (Some R) w RO eq_refl) as (RO2 & F2 & H2). specialize (H2 H).
  pose proof (open_inv (Some R) w) as (_ & _ & N).
  destruct (open_ (Some R) w) as [w2 e2]. cbn [fst snd] in *. subst e2. cbn [seq].
  unfold finally_close. rewrite (surjective_pairing (io_calls w2 body)).
  rewrite (io_calls_R_refused body w2 H2 G Wr T).
  destruct (ro_core w2 _ RO2 (io_calls_ro body w2 RO2 G)) as (RO3 & _).
  destruct (close_ro _ RO3) as (_ & _ & N3 & _).
  destruct (close (fst (io_calls w2 body))) as [w3 e3]. cbn [fst snd] in *. subst e3. reflexivity.
Qed.

Lemma step_refused w o :
  ro w -> safe o -> writes o = true -> op_total o = true -> snd (step w o) = Some (expected_refusal w o).
Proof.
  intros RO [NR G] Wr T. unfold expected_refusal, writes, op_total, op_gated in *.
  pose proof RO as [[H|H] D]; rewrite H; destruct o; simpl in *; try discriminate.
  - apply io_calls_R_refused; assumption.
  - apply io_calls_R_refused; assumption.
  - apply negb_false_iff, mode_eqb_eq in NR. subst req. unfold fetch_active. rewrite H. simpl.
    apply io_calls_R_refused; assumption.
  - unfold fetch_active. rewrite H. simpl. apply io_calls_R_refused; assumption.
  - pose proof (io_calls_R_refused cs w H G Wr T) as X. destruct (io_calls w cs) as [w' e]. simpl in X. subst e. reflexivity.
  - rewrite (io_calls_closed cs w H). destruct cs; [discriminate | reflexivity].
  - rewrite (io_calls_closed _ w H). destruct dead; [discriminate | reflexivity].
  - apply negb_false_iff, mode_eqb_eq in NR. subst req. apply fetch_active_R_closed_refused; assumption.
  - apply fetch_active_R_closed_refused; assumption.
  - rewrite (io_calls_closed cs w H). destruct cs; [discriminate | reflexivity].
Qed.

Theorem readonly_no_write_proof : forall ops w,
  ro w -> Forall safe ops ->
  file (fst (run ops w)) = file w /\ ro (fst (run ops w)) /\
  forall pre o post, ops = pre ++ o :: post -> writes o = true -> op_total o = true ->
    snd (step (fst (run pre w)) o) = Some (expected_refusal (fst (run pre w)) o).
Proof.
  intros ops w RO S. destruct (run_ro ops w RO S) as (A & B). split; [exact B|]. split; [exact A|].
  intros pre o post E Wr T. subst ops.
  apply Forall_app in S as [Sp So]. inversion So as [|? ? So1 _]; subst.
  destruct (run_ro pre w RO Sp) as (RO1 & _). apply step_refused; assumption.
Qed.

(* helpers *)
Definition path2workspace_run (f : list string) (lk cf : bool) (nc : nat) : world * option err :=
  seq (open_ None {| handle_of := Closed; defmode := R; file := f; locked := lk; close_fault := cf; repack := false; ncat := nc; in_mem := false |}) close.

Lemma path2workspace_readonly f lk cf nc :
  let w0 := {| handle_of := Closed; defmode := R; file := f; locked := lk; close_fault := cf; repack := false; ncat := nc; in_mem := false |} in
  handle_of (fst (open_ None w0)) = Open R
  /\ path2workspace_run f lk cf nc = (w0, None).
Proof. simpl. split; reflexivity. Qed.

Lemma monitored_copy_closed body w :
  handle_of w = Closed -> forallb gated_call body = true ->
  handle_of (fst (open_ (Some R) w)) = Open R
  /\ file (fst (step w (MonitoredCopy body))) = file w
  /\ handle_of (fst (step w (MonitoredCopy body))) = Closed.
Proof.
  intros H G. split; [unfold open_; rewrite H; reflexivity|].
  simpl. unfold fetch_active. rewrite H. unfold open_. rewrite H. simpl.
  set (w2 := set_handle w (Open R)).
  assert (H2 : handle_of w2 = Open R) by reflexivity.
  unfold finally_close. rewrite (surjective_pairing (io_calls w2 body)).
  destruct (io_calls_R body w2 H2 G) as (A & B & _).
  assert (H3 : handle_of (fst (io_calls w2 body)) = Open R) by congruence.
  rewrite (close_R _ H3). simpl. split; [rewrite B; reflexivity | reflexivity].
Qed.

Lemma monitored_copy_open_readers body w m :
  handle_of w = Open m -> existsb c_writer body = false ->
  file (fst (step w (MonitoredCopy body))) = file w
  /\ handle_of (fst (step w (MonitoredCopy body))) = Open m.
Proof.
  intros H X. simpl. unfold fetch_active. rewrite H. simpl.
  destruct (io_calls_inv body w) as (A & _ & _). split; [apply io_calls_readers; exact X | congruence].
Qed.

(* ------------------------------------------------------------------ C11 *)
Lemma step_env w o : same_env w (fst (step w o)).
Proof.
  destruct o; simpl.
  - apply io_calls_inv.
  - apply io_calls_inv.
  - apply close_inv.
  - apply open_inv.
  - unfold fetch_active. destruct (handle_of w).
    + destruct (open_inv (Some req) w) as (E & _ & N). destruct (open_ (Some req) w) as [w2 e2]. simpl in *. subst e2. simpl.
      unfold finally_close. destruct (io_calls_inv body w2) as (_ & E2 & _). destruct (io_calls w2 body) as [w3 e3]. simpl in *.
      destruct (close_inv w3) as (E3 & _). destruct (close w3) as [w4 [e4|]]; simpl in *;
        eapply same_env_trans; eauto; eapply same_env_trans; eauto.
    + destruct (substr_mode req m); [apply io_calls_inv|].
      destruct (close_inv w) as (E0 & _). destruct (close w) as [w1 [e1|]]; simpl in *; [exact E0|].
      destruct (open_inv (Some req) w1) as (E & _ & N). destruct (open_ (Some req) w1) as [w2 e2]. simpl in *. subst e2. simpl.
      unfold finally_close. destruct (io_calls_inv body w2) as (_ & E2 & _). destruct (io_calls w2 body) as [w3 e3]. simpl in *.
      destruct (close_inv w3) as (E3 & _). destruct (close w3) as [w4 [e4|]]; simpl in *;
        eapply same_env_trans; eauto; eapply same_env_trans; eauto; eapply same_env_trans; eauto.
  - destruct (close_inv w) as (E0 & _). destruct (close w) as [w1 [e1|]]; simpl in *; [exact E0|].
    destruct (open_inv None (set_in_mem w1 false)) as (E & _). eapply same_env_trans; [exact E0|]. exact E.
  - apply same_env_refl.
  - unfold fetch_active. destruct (handle_of w).
    + destruct (open_inv (Some R) w) as (E & _ & N). destruct (open_ (Some R) w) as [w2 e2]. simpl in *. subst e2. simpl.
      unfold finally_close. destruct (io_calls_inv body w2) as (_ & E2 & _). destruct (io_calls w2 body) as [w3 e3]. simpl in *.
      destruct (close_inv w3) as (E3 & _). destruct (close w3) as [w4 [e4|]]; simpl in *;
        eapply same_env_trans; eauto; eapply same_env_trans; eauto.
    + simpl. apply io_calls_inv.
  - destruct (io_calls_inv cs w) as (_ & E & _). destruct (io_calls w cs) as [w' [e|]]; exact E.
  - repeat split.
  - destruct (close_inv w) as (E0 & _). destruct (close w) as [w1 [e1|]]; exact E0.
Qed.

Lemma step_extends w o : extends w (fst (step w o)).
Proof.
  destruct o; simpl.
  - apply io_calls_inv.
  - apply io_calls_inv.
  - apply close_inv.
  - exists []. rewrite app_nil_r. apply open_inv.
  - unfold fetch_active. destruct (handle_of w).
    + destruct (open_inv (Some req) w) as (_ & F & N). destruct (open_ (Some req) w) as [w2 e2]. simpl in *. subst e2. simpl.
      unfold finally_close. destruct (io_calls_inv body w2) as (_ & _ & X2). destruct (io_calls w2 body) as [w3 e3]. simpl in *.
      destruct (close_inv w3) as (_ & X3). destruct (close w3) as [w4 [e4|]]; simpl in *;
        (eapply extends_trans; [|exact X3]); (eapply extends_trans; [|exact X2]); exists []; rewrite app_nil_r; exact F.
    + destruct (substr_mode req m); [apply io_calls_inv|].
      destruct (close_inv w) as (_ & X0). destruct (close w) as [w1 [e1|]]; simpl in *; [exact X0|].
      destruct (open_inv (Some req) w1) as (_ & F & N). destruct (open_ (Some req) w1) as [w2 e2]. simpl in *. subst e2. simpl.
      unfold finally_close. destruct (io_calls_inv body w2) as (_ & _ & X2). destruct (io_calls w2 body) as [w3 e3]. simpl in *.
      destruct (close_inv w3) as (_ & X3). destruct (close w3) as [w4 [e4|]]; simpl in *;
        (eapply extends_trans; [|exact X3]); (eapply extends_trans; [|exact X2]); (eapply extends_trans; [exact X0|]);
        exists []; rewrite app_nil_r; exact F.
  - destruct (close_inv w) as (_ & X0). destruct (close w) as [w1 [e1|]]; simpl in *; [exact X0|].
    destruct (open_inv None (set_in_mem w1 false)) as (_ & F & _). eapply extends_trans; [exact X0|]. exists []. rewrite app_nil_r. exact F.
  - apply extends_refl.
  - unfold fetch_active. destruct (handle_of w).
    + destruct (open_inv (Some R) w) as (_ & F & N). destruct (open_ (Some R) w) as [w2 e2]. simpl in *. subst e2. simpl.
      unfold finally_close. destruct (io_calls_inv body w2) as (_ & _ & X2). destruct (io_calls w2 body) as [w3 e3]. simpl in *.
      destruct (close_inv w3) as (_ & X3). destruct (close w3) as [w4 [e4|]]; simpl in *;
        (eapply extends_trans; [|exact X3]); (eapply extends_trans; [|exact X2]); exists []; rewrite app_nil_r; exact F.
    + simpl. apply io_calls_inv.
  - destruct (io_calls_inv cs w) as (_ & _ & X). destruct (io_calls w cs) as [w' [e|]]; exact X.
  - apply extends_set_repack.
  - destruct (close_inv w) as (_ & X0). destruct (close w) as [w1 [e1|]]; exact X0.
Qed.

Lemma run_block_inv ops : forall w, same_env w (fst (run_block ops w)) /\ extends w (fst (run_block ops w)).
Proof.
  induction ops as [|o r IH]; intros w; simpl; [split; [apply same_env_refl | apply extends_refl]|].
  pose proof (step_env w o) as E. pose proof (step_extends w o) as X.
  destruct (step w o) as [w1 [e|]]; simpl in *; [auto|].
  destruct (IH w1) as (E1 & X1). split; [eapply same_env_trans; eauto | eapply extends_trans; eauto].
Qed.

Theorem exit_always_closes_proof : forall ops k w,
  close_fault w = false ->
  handle_of (fst (with_block ops k w)) = Closed.
Proof.
  intros ops k w CF. unfold with_block.
  destruct (run_block_inv (firstn k ops) w) as ((_ & _ & E & _) & _).
  destruct (run_block (firstn k ops) w) as [w1 e1]. simpl in E.
  assert (CF1 : close_fault w1 = false) by congruence.
  destruct (close_closes 0 w1 CF1) as (H & N & _). fold close in H, N.
  destruct (close w1) as [w2 e2]. simpl in *. subst e2. exact H.
Qed.

(* the exception that left the block is not swallowed *)
Theorem exit_propagates_proof : forall ops k w,
  close_fault w = false -> k < List.length ops -> snd (with_block ops k w) <> None.
Proof.
  intros ops k w CF L. unfold with_block.
  destruct (run_block_inv (firstn k ops) w) as ((_ & _ & E & _) & _).
  destruct (run_block (firstn k ops) w) as [w1 e1]. simpl in E.
  assert (CF1 : close_fault w1 = false) by congruence.
  destruct (close_closes 0 w1 CF1) as (_ & N & _). fold close in N.
  destruct (close w1) as [w2 e2]. simpl in *. subst e2.
  apply Nat.ltb_lt in L. rewrite L. destruct e1; discriminate.
Qed.

(* nothing written before the exit is rolled back *)
Theorem append_only_proof : forall ops k w, extends w (fst (with_block ops k w)).
Proof.
  intros ops k w. unfold with_block.
  destruct (run_block_inv (firstn k ops) w) as (_ & X).
  destruct (run_block (firstn k ops) w) as [w1 e1]. simpl in X.
  destruct (close_inv w1) as (_ & X2). destruct (close w1) as [w2 [e2|]]; simpl in *; eapply extends_trans; eauto.
Qed.

(* the model's close is not exception safe: when the final save raises, the handle stays open (not a property theorem:
   an error inside close is outside C11's quantifier; stated so that the behaviour is on record and tied to the code) *)
Lemma close_fault_leaks : forall w m,
  handle_of w = Open m -> writable m = true -> close_fault w = true -> repack w = false ->
  handle_of (fst (with_block [] 0 w)) = Open m /\ snd (with_block [] 0 w) = Some EFail.
Proof.
  intros w m H W CF RP. unfold with_block. simpl. unfold close, close_n, close_calls. rewrite H, W, RP. simpl.
  unfold io_call. rewrite H, (writable_not_R m W), CF. simpl. auto.
Qed.

Theorem closed_raises_proof : forall w o,
  handle_of w = Closed -> needs_file o = true -> step w o = (w, Some EClosed).
Proof.
  intros w o H N. destruct o; simpl in *; try discriminate.
  - rewrite (io_calls_closed cs w H). destruct cs; [discriminate | reflexivity].
  - rewrite (io_calls_closed _ w H). destruct dead; [discriminate | reflexivity].
Qed.

(* close; open() gives back a handle in the constructor's mode with the content that was there at the close *)
Theorem reopen_restores_proof : forall w,
  close_fault w = false ->
  let w1 := fst (close w) in
  let w2 := fst (open_ None w1) in
  handle_of w1 = Closed
  /\ file w2 = file w1 /\ extends w w1
  /\ (locked w = false -> handle_of w2 = Open (norm (defmode w)))
  /\ (locked w = true -> handle_of w2 = Open R)
  /\ forall cs, forallb (fun c => negb (c_fails c)) cs = true ->
       (locked w = false /\ writable (defmode w) = true) \/ forallb (fun c => negb (writable (c_req c))) cs = true ->
       snd (io_calls w2 cs) = None.
Proof.
  intros w CF w1 w2.
  destruct (close_closes 0 w CF) as (H1 & _ & (D & L & _) & X). fold close in H1, D, L, X. fold w1 in H1, D, L, X.
  assert (H2 : handle_of w2 = Open (if writable (defmode w) && locked w then R else norm (defmode w))).
  { unfold w2, open_. rewrite H1. simpl. rewrite D, L. reflexivity. }
  split; [exact H1|]. split; [apply open_inv|]. split; [exact X|].
  split; [intros LK; rewrite H2, LK, andb_false_r; reflexivity|].
  split.
  { intros LK. rewrite H2, LK, andb_true_r. destruct (defmode w); reflexivity. }
  intros cs T [[LK W]|RD].
  - rewrite LK, andb_false_r in H2.
    apply (io_calls_writable cs w2 (norm (defmode w)) H2); [rewrite norm_writable; exact W | exact T].
  - clear X. revert T RD. generalize w2 H2. clear. intros w2 H2.
    set (m := if writable (defmode w) && locked w then R else norm (defmode w)) in *.
    induction cs as [|c r IH] in w2, H2 |- *; intros T RD; simpl; [reflexivity|].
    simpl in T, RD. apply andb_true_iff in T as [T1 T2]. apply andb_true_iff in RD as [R1 R2].
    apply negb_true_iff in T1, R1. unfold io_call. rewrite H2, R1, T1. simpl.
    destruct (c_writer c), (c_repack c); apply IH; auto.
Qed.

(* a save_as whose copy fails: the workspace is closed exactly as by close(), the error is reported *)
Lemma failed_save_as_proof : forall w,
  close_fault w = false ->
  fst (step w SaveAsFail) = fst (close w) /\ snd (step w SaveAsFail) = Some EFail /\ handle_of (fst (step w SaveAsFail)) = Closed.
Proof.
  intros w CF. simpl. destruct (close_closes 0 w CF) as (H & N & _). fold close in H, N.
  destruct (close w) as [w1 e1]. cbn [fst snd] in *. subst e1. cbn [seq fst snd]. auto.
Qed.

(* a block of plain operations on a writable workspace: everything that completed before the exit is in the file, in order,
   followed by the closing save *)
Definition is_calls (o : op) : bool := match o with Calls _ => true | _ => false end.

Lemma run_block_calls ops : forall w m,
  handle_of w = Open m -> writable m = true ->
  forallb is_calls ops = true -> forallb op_total ops = true ->
  snd (run_block ops w) = None
  /\ file (fst (run_block ops w)) = file w ++ List.concat (map (fun o => writer_log (calls_of o)) ops)
  /\ handle_of (fst (run_block ops w)) = Open m.
Proof.
  induction ops as [|o r IH]; intros w m H W C T; simpl.
  - rewrite app_nil_r. auto.
  - simpl in C, T. apply andb_true_iff in C as [C1 C2]. apply andb_true_iff in T as [T1 T2].
    destruct o; try discriminate. simpl. unfold op_total in T1. simpl in T1.
    destruct (io_calls_writable cs w m H W T1) as (A & B & D).
    destruct (io_calls w cs) as [w1 e1]. simpl in *. subst e1. simpl.
    destruct (IH w1 m D W C2 T2) as (A2 & B2 & D2). split; [exact A2|]. split; [|exact D2].
    rewrite B2, B, <- app_assoc. reflexivity.
Qed.

Lemma forallb_firstn {A} (p : A -> bool) l k : forallb p l = true -> forallb p (firstn k l) = true.
Proof.
  revert k; induction l as [|x r IH]; intros [|k] H; simpl; auto.
  simpl in H. apply andb_true_iff in H as [H1 H2]. rewrite H1. simpl. auto.
Qed.

Lemma writer_log_app a b : writer_log (a ++ b) = writer_log a ++ writer_log b.
Proof. unfold writer_log. rewrite filter_app, map_app. reflexivity. Qed.

Definition is_refresh (f : string) : Prop := f = "H5Writer.update_field" \/ f = "H5Writer.clear_stats_cache".

Lemma refresh_log n : Forall is_refresh (writer_log (List.concat (repeat refresh_cat n))).
Proof.
  induction n; simpl; [constructor|]. unfold writer_log in *. simpl.
  constructor; [left; reflexivity|]. constructor; [right; reflexivity|]. exact IHn.
Qed.

Theorem completed_ops_persist_proof : forall ops k w m,
  handle_of w = Open m -> writable m = true -> close_fault w = false ->
  forallb is_calls ops = true -> forallb op_total ops = true ->
  (exists refresh, Forall is_refresh refresh /\
     file (fst (with_block ops k w))
       = file w ++ List.concat (map (fun o => writer_log (calls_of o)) (firstn k ops)) ++ refresh ++ ["H5Writer.save_entity"])
  /\ snd (with_block ops k w) = (if Nat.ltb k (List.length ops) then Some EInjected else None).
Proof.
  intros ops k w m H W CF C T. unfold with_block.
  destruct (run_block_calls (firstn k ops) w m H W (forallb_firstn _ _ k C) (forallb_firstn _ _ k T)) as (A & B & D).
  destruct (run_block_inv (firstn k ops) w) as ((_ & _ & E & _) & _).
  destruct (run_block (firstn k ops) w) as [w1 e1]. cbn [fst snd] in *. subst e1.
  assert (CF1 : close_fault w1 = false) by congruence.
  unfold close, close_n. rewrite D, W.
  destruct (io_calls_writable (close_calls 0 w1) w1 m D W (close_calls_total 0 w1 CF1)) as (A2 & B2 & D2).
  destruct (io_calls w1 (close_calls 0 w1)) as [w2 e2]. cbn [fst snd] in *. subst e2. cbn [fst snd].
  split; [|reflexivity].
  exists (writer_log (if repack w1 then List.concat (repeat refresh_cat (ncat w1)) else [])).
  split.
  - destruct (repack w1); [apply refresh_log | constructor].
  - simpl. rewrite B2, B. unfold close_calls. simpl. rewrite writer_log_app. unfold writer_log at 2. simpl.
    rewrite CF1. rewrite <- !app_assoc. reflexivity.
Qed.

(* ------------------------------------------------------------------ C10: constructor mode and writable spans *)
Lemma run_env ops : forall w, same_env w (fst (run ops w)).
Proof.
  induction ops as [|o r IH]; intros w; [apply same_env_refl|].
  rewrite run_cons. cbn [fst]. eapply same_env_trans; [apply step_env | apply IH].
Qed.

(* Workspace.open never stores the mode it was given: the constructor's mode is the same after ANY history *)
Theorem ctor_mode_invariant_proof : forall ops w, defmode (fst (run ops w)) = defmode w.
Proof. intros ops w. apply (run_env ops w). Qed.

Definition wr_handle (w : world) : bool := match handle_of w with Open m => writable m | Closed => false end.

Lemma not_wr_ro w : defmode w = R -> wr_handle w = false -> ro w.
Proof.
  intros D W. split; [|exact D]. unfold wr_handle in W. destruct (handle_of w) as [|m]; [right; reflexivity|].
  destruct m; try discriminate. left; reflexivity.
Qed.

Lemma ro_not_wr w : ro w -> wr_handle w = false.
Proof. intros [[H|H] _]; unfold wr_handle; rewrite H; reflexivity. Qed.

Lemma fetch_active_writable_req_closes req body w :
  ro w -> close_fault w = false -> mode_eqb req R = false ->
  wr_handle (fst (fetch_active req body w)) = false.
Proof.
  intros RO CF NR.
  assert (TAIL : forall w1, handle_of w1 = Closed -> close_fault w1 = false ->
            wr_handle (fst (seq (open_ (Some req) w1) (fun w2 => finally_close (io_calls w2 body)))) = false).
  { intros w1 H1 CF1.
    destruct (open_inv (Some req) w1) as ((_ & _ & CF2 & _) & _ & N).
    destruct (open_ (Some req) w1) as [w2 e2]. cbn [fst snd] in *. subst e2. cbn [seq].
    unfold finally_close. destruct (io_calls_inv body w2) as (_ & (_ & _ & CF3 & _) & _).
    destruct (io_calls w2 body) as [w3 e3]. cbn [fst] in *.
    assert (CF4 : close_fault w3 = false) by congruence.
    destruct (close_closes 0 w3 CF4) as (HC & NC & _). fold close in HC, NC.
    destruct (close w3) as [w4 e4]. cbn [fst snd] in *. subst e4. cbn [fst]. unfold wr_handle. rewrite HC. reflexivity. }
  pose proof RO as [[H|H] D]; unfold fetch_active; rewrite H.
  - assert (S : substr_mode req R = false) by (destruct req; simpl in *; try reflexivity; discriminate).
    rewrite S. rewrite (close_R w H). cbn [seq]. apply TAIL; reflexivity || exact CF.
  - apply TAIL; assumption.
Qed.

(* one step from a non-writable handle of a workspace constructed "r": the handle can only become writable through an explicit
   open(mode) with a writable mode; fetch_active_workspace with a writable mode ends closed *)
Lemma step_writable_only_explicit w o :
  defmode w = R -> close_fault w = false -> wr_handle w = false -> op_gated o = true ->
  wr_handle (fst (step w o)) = true -> exists m, o = OpenM (Some m) /\ writable m = true.
Proof.
  intros D CF W G X. pose proof (not_wr_ro w D W) as RO.
  destruct (explicit_reopen o) eqn:E.
  - destruct o; simpl in E; try discriminate.
    + destruct m as [m|]; [|discriminate]. exists m. split; [reflexivity | exact E].
    + exfalso. simpl in X. apply negb_true_iff in E.
      rewrite (fetch_active_writable_req_closes req body w RO CF E) in X. discriminate.
  - exfalso. destruct (step_ro w o RO (conj E G)) as (RO1 & _). rewrite (ro_not_wr _ RO1) in X. discriminate.
Qed.

Theorem writable_only_on_request_proof : forall ops w,
  defmode w = R -> close_fault w = false -> Forall (fun o => op_gated o = true) ops ->
  forall pre o post, ops = pre ++ o :: post ->
    wr_handle (fst (run pre w)) = false -> wr_handle (fst (step (fst (run pre w)) o)) = true ->
    exists m, o = OpenM (Some m) /\ writable m = true.
Proof.
  intros ops w D CF G pre o post E W X. subst ops.
  apply Forall_app in G as [_ Go]. inversion Go as [|? ? Go1 _]; subst.
  destruct (run_env pre w) as (D1 & _ & CF1 & _).
  apply (step_writable_only_explicit (fst (run pre w)) o); congruence.
Qed.

(* a read-only span: one step that is not an explicit writable re-open, from a non-writable handle, changes neither the file
   nor the writability of the handle *)
Theorem readonly_span_step_proof : forall w o,
  defmode w = R -> wr_handle w = false -> explicit_reopen o = false -> op_gated o = true ->
  file (fst (step w o)) = file w /\ wr_handle (fst (step w o)) = false /\ defmode (fst (step w o)) = R.
Proof.
  intros w o D W E G. pose proof (not_wr_ro w D W) as RO.
  destruct (step_ro w o RO (conj E G)) as (RO1 & F). split; [exact F|]. split; [apply ro_not_wr; exact RO1 | apply RO1].
Qed.

(* ------------------------------------------------------------------ table lemma *)
Lemma ungated_nil_forall t : ungated t = [] -> forall r, In r t -> gatedb r = true.
Proof.
  intros E r I. destruct (gatedb r) eqn:G; [reflexivity|].
  assert (X : In r (ungated t)) by (apply filter_In; split; [exact I | rewrite G; reflexivity]).
  rewrite E in X. destruct X.
Qed.

(* a call that matches an SIoCall row of a fully gated table is a gated call *)
Lemma table_call_gated t c :
  (forall r, In r t -> gatedb r = true) -> call_in_table t c = true -> gated_call c = true.
Proof.
  intros G I. unfold call_in_table in I. apply existsb_exists in I as (r & Ir & P).
  repeat (apply andb_true_iff in P as [P ?]).
  specialize (G r Ir). unfold gatedb in G. destruct (r_site r); try discriminate.
  unfold gated_call. apply Bool.eqb_prop in H. apply mode_eqb_eq in H0.
  destruct (c_writer c); [|reflexivity]. simpl.
  destruct (r_cls r); try discriminate. rewrite <- H0.
  destruct (r_mode r); try discriminate; reflexivity.
Qed.
