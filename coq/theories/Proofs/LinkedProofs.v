(* Proofs about Model/Linked.v (property C20). *)
From GV Require Import Prelude.Base Model.Linked.
Unset Implicit Arguments.

(* ------------------------------------------------------------------ finite maps *)
Lemma dget_dset_same {V} k (v : V) d : dget k (dset k v d) = Some v.
Proof.
  induction d as [|[k' v'] r IH]; simpl; [rewrite Nat.eqb_refl; reflexivity|].
  destruct (Nat.eqb k k') eqn:E; simpl; [rewrite Nat.eqb_refl; reflexivity|].
  destruct (Nat.ltb k k'); simpl; [rewrite Nat.eqb_refl; reflexivity|]. rewrite E. exact IH.
Qed.

Lemma dget_dset_other {V} j k (v : V) d : j <> k -> dget j (dset k v d) = dget j d.
Proof.
  intros Hjk. assert (Ejk : Nat.eqb j k = false) by (apply Nat.eqb_neq; exact Hjk).
  induction d as [|[k' v'] r IH]; simpl; [rewrite Ejk; reflexivity|].
  destruct (Nat.eqb k k') eqn:E; simpl.
  - apply Nat.eqb_eq in E. subst k'. rewrite Ejk. reflexivity.
  - destruct (Nat.ltb k k'); simpl; [rewrite Ejk; reflexivity|]. destruct (Nat.eqb j k'); [reflexivity | exact IH].
Qed.

Lemma dset_in {V} k (v : V) d k0 v0 : In (k0, v0) (dset k v d) -> (k0 = k /\ v0 = v) \/ In (k0, v0) d.
Proof.
  induction d as [|[k' v'] r IH]; simpl; intros H.
  - destruct H as [H|[]]. inversion H. left. split; reflexivity.
  - destruct (Nat.eqb k k'); [|destruct (Nat.ltb k k')]; simpl in H.
    + destruct H as [H|H]; [inversion H; left; split; reflexivity | right; right; exact H].
    + destruct H as [H|H]; [inversion H; left; split; reflexivity | right; exact H].
    + destruct H as [H|H]; [right; left; exact H|]. destruct (IH H) as [H1|H1]; [left; exact H1 | right; right; exact H1].
Qed.

Lemma hget_hset_same {V} l (d : list V) h : hget l (hset l d h) = d.
Proof. unfold hset. simpl. rewrite N.eqb_refl. reflexivity. Qed.

Lemma hget_hset_other {V} l l' (d : list V) h : l' <> l -> hget l' (hset l d h) = hget l' h.
Proof. intros H. unfold hset. simpl. destruct (N.eqb l' l) eqn:E; [apply N.eqb_eq in E; contradiction | reflexivity]. Qed.

Lemma same_ent_spec w u e : same_ent w u e = true <-> (wsp e = w /\ uid e = u).
Proof.
  unfold same_ent. rewrite andb_true_iff, N.eqb_eq. split.
  - intros [H1 H2]. apply eqb_prop in H1. split; [symmetry; exact H1 | symmetry; exact H2].
  - intros [H1 H2]. subst. split; [apply eqb_reflx | reflexivity].
Qed.

Lemma get_ent_some w u l e : get_ent w u l = Some e -> wsp e = w /\ uid e = u.
Proof.
  induction l as [|x r IH]; simpl; [discriminate|]. destruct (same_ent w u x) eqn:E; [|exact IH].
  intros H. inversion H; subst. apply same_ent_spec. exact E.
Qed.

Lemma get_put_same e l : get_ent (wsp e) (uid e) (put_ent e l) = Some e.
Proof.
  assert (Hs : same_ent (wsp e) (uid e) e = true) by (apply same_ent_spec; split; reflexivity).
  induction l as [|x r IH]; simpl; [rewrite Hs; reflexivity|].
  destruct (same_ent (wsp e) (uid e) x) eqn:E; simpl; [rewrite Hs; reflexivity | rewrite E; exact IH].
Qed.

Lemma get_put_other e l w u : (wsp e <> w \/ uid e <> u) -> get_ent w u (put_ent e l) = get_ent w u l.
Proof.
  intros Hne. assert (Hs : same_ent w u e = false).
  { destruct (same_ent w u e) eqn:E; [|reflexivity]. apply same_ent_spec in E. destruct E, Hne; contradiction. }
  induction l as [|x r IH]; simpl; [rewrite Hs; reflexivity|].
  destruct (same_ent (wsp e) (uid e) x) eqn:E; simpl.
  - rewrite Hs. apply same_ent_spec in E. destruct E as [E1 E2].
    destruct (same_ent w u x) eqn:E3; [|reflexivity]. apply same_ent_spec in E3. destruct E3 as [E4 E5].
    exfalso. destruct Hne as [H|H]; apply H; congruence.
  - destruct (same_ent w u x); [reflexivity | exact IH].
Qed.

Lemma fget_fput_same w u d f : fget w u (fput w u d f) = Some d.
Proof.
  induction f as [|[[w' u'] d'] r IH]; simpl.
  - rewrite eqb_reflx, N.eqb_refl. reflexivity.
  - destruct (Bool.eqb w w' && N.eqb u u') eqn:E; simpl; [rewrite eqb_reflx, N.eqb_refl; reflexivity | rewrite E; exact IH].
Qed.

Lemma fget_fput_other w u d f w2 u2 : (w2 <> w \/ u2 <> u) -> fget w2 u2 (fput w u d f) = fget w2 u2 f.
Proof.
  intros Hne. assert (Hs : Bool.eqb w2 w && N.eqb u2 u = false).
  { destruct (Bool.eqb w2 w && N.eqb u2 u) eqn:E; [|reflexivity]. apply andb_true_iff in E. destruct E as [E1 E2].
    apply eqb_prop in E1. apply N.eqb_eq in E2. destruct Hne; contradiction. }
  induction f as [|[[w' u'] d'] r IH]; simpl; [rewrite Hs; reflexivity|].
  destruct (Bool.eqb w w' && N.eqb u u') eqn:E; simpl.
  - rewrite Hs. apply andb_true_iff in E. destruct E as [E1 E2]. apply eqb_prop in E1. apply N.eqb_eq in E2. subst w' u'. rewrite Hs. reflexivity.
  - destruct (Bool.eqb w2 w' && N.eqb u2 u'); [reflexivity | exact IH].
Qed.

Lemma expand_dget h k d : dget k (expand h d) = option_map (expand_val h) (dget k d).
Proof.
  induction d as [|[k' v] r IH]; simpl; [reflexivity|]. destruct (Nat.eqb k k'); [reflexivity | exact IH].
Qed.

(* ------------------------------------------------------------------ references stay below the allocation counter *)
Definition refs_below (n : N) (d : dict) : Prop := forall k wl, In (k, VRef wl) d -> (wl < n)%N.

Lemma expand_ext h h' d : (forall k wl, In (k, VRef wl) d -> hget wl h' = hget wl h) -> expand h' d = expand h d.
Proof.
  intros H. unfold expand. apply map_ext_in. intros [k v] Hin. simpl. f_equal.
  destruct v; try reflexivity. simpl. f_equal. apply (H k l). exact Hin.
Qed.

(* loading the stored JSON: the loaded dict reads back as the JSON, older cells are untouched *)
Lemma load_spec : forall fd s d s1,
  load fd s = (d, s1) ->
  ents s1 = ents s /\ heap s1 = heap s /\ file s1 = file s /\ (next s <= next s1)%N
  /\ expand (wheap s1) d = fd
  /\ (forall wl, (wl < next s)%N -> hget wl (wheap s1) = hget wl (wheap s))
  /\ refs_below (next s1) d.
Proof.
  induction fd as [|[k v] r IH]; intros s d s1 E; simpl in E.
  - inversion E; subst. repeat split; try reflexivity; try lia. intros k wl [].
  - destruct (load r s) as [d0 s0] eqn:E0. destruct (IH _ _ _ E0) as [H1 [H2 [H3 [H4 [H5 [H6 H7]]]]]].
    destruct v as [u|z|dd|].
    + inversion E; subst d s1; clear E. repeat split; try assumption. simpl. f_equal. exact H5.
      intros k0 wl [Hx|Hx]; [inversion Hx | apply (H7 k0 wl Hx)].
    + inversion E; subst d s1; clear E. repeat split; try assumption. simpl. f_equal. exact H5.
      intros k0 wl [Hx|Hx]; [inversion Hx | apply (H7 k0 wl Hx)].
    + inversion E; subst d s1; clear E. simpl. repeat split; try assumption; try lia.
      * f_equal; [rewrite hget_hset_same; reflexivity|].
        rewrite <- H5. apply expand_ext. intros k0 wl Hin. apply hget_hset_other. apply H7 in Hin. lia.
      * intros wl Hwl. rewrite hget_hset_other by lia. apply H6. exact Hwl.
      * intros k0 wl [Hx|Hx]; [inversion Hx; subst; lia | apply H7 in Hx; lia].
    + inversion E; subst d s1; clear E. repeat split; try assumption. simpl. f_equal. exact H5.
      intros k0 wl [Hx|Hx]; [inversion Hx | apply (H7 k0 wl Hx)].
Qed.
